(* Property C01, floating-point side: lineDoAt/NewLine in float64 against the exact model
   ([line_at] of Model/Sched.v), increasing lines with binary64 rates.
   Chain:  go_line_at (float64)  ~  line_Y with the float64 slope  (SchedFloatLine.line_at_f_err)
           ~ line_Y with the exact slope (line_perturb)  =  line_at_R of Proofs/SchedReal.v,
           whose truncation is the model's line_at (line_at_is_trunc). *)
From Coq Require Import ZArith QArith Qround Qreals Reals Lra Lia Psatz.
From Flocq Require Import Core.
From PV Require Import Model.Sched Proofs.SchedQ Proofs.SchedProofs Proofs.SchedReal
  Proofs.SchedFloatCore Proofs.SchedFloatRel Proofs.SchedFloatConst Proofs.SchedFloatLine Proofs.SchedFloatLink.
Local Open Scope R_scope.

Lemma Q2R_rn f t :
  IZR (rn_from f t) / IZR (rn_den f t) = Q2R f /\ IZR (rn_to f t) / IZR (rn_den f t) = Q2R t.
Proof.
  destruct f as [a b], t as [c d]. unfold rn_from, rn_to, rn_den, Q2R. cbn [Qnum Qden].
  rewrite Pos2Z.inj_mul, !mult_IZR.
  assert (IZR (Z.pos b) <> 0) by (apply not_0_IZR; lia).
  assert (IZR (Z.pos d) <> 0) by (apply not_0_IZR; lia).
  split; field; split; assumption.
Qed.

Lemma slopeR_line_slope f t D :
  slopeR (rn_from f t) (rn_to f t) (rn_den f t) D = line_slope (Q2R f) (Q2R t) D /\
  interceptR (rn_from f t) (rn_den f t) = Q2R f.
Proof.
  destruct (Q2R_rn f t) as [Ef Et]. unfold slopeR, interceptR, line_slope, billionR, billion.
  rewrite Ef, Et. split; reflexivity.
Qed.

Lemma line_at_R_line_Y a b k : line_at_R a b (IZR k) = line_Y a b k.
Proof. reflexivity. Qed.

(* operation k of a valid increasing line: the model's nanosecond is the floor of the exact
   instant, which lies in [0, D); the conditioning term Z is at most kappa * D *)
Lemma line_model_facts f t D k (kappa : Z) :
  valid (PLine f t D) -> (f < t)%Q -> (0 <= k < count (PLine f t D))%Z ->
  Q2R t <= IZR kappa * (Q2R t - Q2R f) ->
  let a := line_slope (Q2R f) (Q2R t) D in
  exists x, line_at f t D k = Some x /\ (0 <= x)%Z /\ (x + 1 <= D)%Z /\
    x = Zfloor (line_Y a (Q2R f) k) /\
    0 <= line_Y a (Q2R f) k <= IZR D /\ line_Z a (Q2R f) k <= IZR kappa * IZR D.
Proof.
  intros Hv Hlt Hk Hkap a.
  assert (Hne : ~ (f == t)%Q) by (intros E; rewrite E in Hlt; apply (Qlt_irrefl t); exact Hlt).
  destruct (at_bracket (PLine f t D) k Hv eq_refl Hk) as (x & Hat & Hx0 & Hx1 & _).
  assert (Hat' : line_at f t D k = Some x).
  { unfold at_, the_leaf in Hat. destruct (line_cases f t D) as [[E _]|[_ E]]; [contradiction|].
    rewrite E in Hat. exact Hat. }
  assert (Hx1' : (x + 1 <= D)%Z).
  { unfold dur, the_leaf in Hx1. destruct (line_cases f t D) as [[E _]|[_ E]]; [contradiction|].
    rewrite E in Hx1. exact Hx1. }
  pose proof (line_at_is_trunc f t D k x Hv Hne (proj1 Hk) Hat') as Htr. cbv zeta in Htr.
  destruct (slopeR_line_slope f t D) as [Es Ei]. rewrite Es, Ei, line_at_R_line_Y in Htr. fold a in Htr.
  destruct Hv as (Hf & Ht & HDm). unfold min_dur in HDm.
  set (F := Q2R f) in *. set (T := Q2R t) in *.
  assert (HF : 0 <= F) by (apply Q2R_nonneg; exact Hf).
  assert (HFT : F < T) by (apply Qlt_Rlt; exact Hlt).
  assert (HD : 1000000 <= IZR D) by (apply IZR_le; exact HDm).
  assert (Hsecs : 0 < IZR D / billion) by (unfold billion; apply Rmult_lt_0_compat; [lra|apply Rinv_0_lt_compat; lra]).
  assert (Ha : 0 < a) by (unfold a, line_slope; apply Rmult_lt_0_compat; [lra|apply Rinv_0_lt_compat; exact Hsecs]).
  set (Y := line_Y a F k) in *.
  exists x. split; [exact Hat'|]. split; [exact Hx0|]. split; [exact Hx1'|].
  assert (Hfl : x = Zfloor Y).
  { symmetry. apply Zfloor_imp. rewrite plus_IZR. exact Htr. }
  split; [exact Hfl|].
  assert (HxR : IZR x + 1 <= IZR D) by (rewrite <- plus_IZR; apply IZR_le; exact Hx1').
  assert (Hx0R : 0 <= IZR x) by (apply IZR_le; exact Hx0).
  assert (HY : 0 <= Y <= IZR D) by lra.
  split; [exact HY|].
  (* Z = Y + F * (1e9/a) and 1e9/a = D/(T-F) *)
  assert (EQ : billion / a = IZR D / (T - F)).
  { unfold a, line_slope, billion. field. split; lra. }
  assert (EZ : line_Z a F k = Y + F * (billion / a)) by (unfold line_Z, Y, line_Y; ring).
  rewrite EZ, EQ.
  assert (Hinv : 0 < / (T - F)) by (apply Rinv_0_lt_compat; lra).
  (* Y + F D/(T-F) <= D + F D/(T-F) = D T/(T-F) <= kappa D *)
  apply Rle_trans with (IZR D * (T * / (T - F))).
  - replace (IZR D * (T * / (T - F))) with (IZR D + F * (IZR D / (T - F))) by (field; lra). lra.
  - rewrite (Rmult_comm (IZR kappa)). apply Rmult_le_compat_l; [lra|].
    apply (Rmult_le_reg_r (T - F)); [lra|]. rewrite Rmult_assoc, Rinv_l by lra. lra.
Qed.

(* lineDoAt/NewLine in float64 against the model: operation k of a valid increasing line with
   binary64 rates is scheduled within the driver's tolerance
       1 + D/2^40 + D*kappa/2^48      (kappa >= to/(to-from), integer divisions)
   of the model's nanosecond *)
Theorem float_line_at_model f t D k (kappa : Z) :
  valid (PLine f t D) -> (f < t)%Q ->
  is_b64 (Q2R f) -> is_b64 (Q2R t) -> Q2R f = 0 \/ rate_guard (Q2R f) ->
  let a := go_line_a (Q2R f) (Q2R t) D in
  slope_guard a ->
  (D < 2 ^ 63)%Z -> (0 <= k < count (PLine f t D))%Z -> (k < 2 ^ 53)%Z ->
  Q2R t <= IZR kappa * (Q2R t - Q2R f) ->
  exists x, line_at f t D k = Some x /\
    (Z.abs (go_line_at a (Q2R f) k - x) <= 1 + D / 2 ^ 40 + (D * kappa) / 2 ^ 48)%Z.
Proof.
  intros Hv Hlt Ff Ft Hb a Hga HD Hk Hk53 Hkap. usmall.
  destruct (line_model_facts f t D k kappa Hv Hlt Hk Hkap) as (x & Hat & Hx0 & Hx1 & Hfl & HY & HZ).
  exists x. split; [exact Hat|].
  destruct Hv as (Hf & Htv & HDm). unfold min_dur in HDm.
  set (F := Q2R f) in *. set (T := Q2R t) in *.
  assert (HFT : F < T) by (apply Qlt_Rlt; exact Hlt).
  destruct (go_line_a_rel F T D Ff Ft HFT) as [Hrel Hpos]; [lia|exact Hga|]. fold a in Hrel.
  set (as_ := line_slope F T D) in *.
  assert (Fa : is_b64 a) by (unfold a, go_line_a, fdiv; apply is_b64_rnd).
  destruct (line_at_f_err_slope as_ a F k Hpos Hrel Fa Ff Hga Hb) as (He & _); [lia|].
  set (Y := line_Y as_ F k) in *. set (Z := line_Z as_ F k) in *.
  assert (HDR : 1000000 <= IZR D) by (apply IZR_le; exact HDm).
  assert (Hkpos : 0 < IZR kappa).
  { assert (0 <= F) by (apply Q2R_nonneg; exact Hf).
    destruct (Rle_or_lt (IZR kappa) 0) as [H0|H0]; [|exact H0]. exfalso. nra. }
  assert (HkZ : (0 < kappa)%Z) by (apply lt_IZR; exact Hkpos).
  (* the real deviation *)
  assert (Heta : eta <= / 1000000000000) .
  { unfold eta. apply Rle_trans with (bpow radix2 (-100)); [apply bpow_le; lia|]. simpl bpow. lra. }
  assert (Hdev : Rabs (go_line_at_f a F k - Y) <= 10 * u * IZR D + 4 * u * (IZR kappa * IZR D) + eta).
  { apply Rle_trans with (1 := He).
    assert (10 * u * Y <= 10 * u * IZR D) by (apply Rmult_le_compat_l; lra).
    assert (4 * u * Z <= 4 * u * (IZR kappa * IZR D)) by (apply Rmult_le_compat_l; lra). lra. }
  set (A := IZR D * / IZR (2 ^ 40)). set (B := IZR (D * kappa) * / IZR (2 ^ 48)).
  assert (E40 : IZR (2 ^ 40) = 1099511627776) by (simpl; reflexivity).
  assert (E48 : IZR (2 ^ 48) = 281474976710656) by (simpl; reflexivity).
  assert (HA : 10 * u * IZR D + eta <= A / 2).
  { unfold A. rewrite E40, Hu_val. lra. }
  assert (HB : 4 * u * (IZR kappa * IZR D) <= B / 2).
  { unfold B. rewrite E48, mult_IZR, Hu_val.
    assert (0 <= IZR kappa * IZR D) by (apply Rmult_le_pos; lra). lra. }
  assert (HA0 : 0 <= A) by (unfold A; rewrite E40; lra).
  assert (HB0 : 0 <= B).
  { unfold B. rewrite E48, mult_IZR. assert (0 <= IZR D * IZR kappa) by (apply Rmult_le_pos; lra). lra. }
  assert (HdA : (0 <= D / 2 ^ 40)%Z) by (apply Z.div_pos; lia).
  assert (HdB : (0 <= (D * kappa) / 2 ^ 48)%Z) by (apply Z.div_pos; nia).
  unfold go_line_at. rewrite Hfl. fold Y.
  destruct (Rle_or_lt B A) as [Hc|Hc].
  - assert (H1 : (Z.abs (to_int (go_line_at_f a F k) - Zfloor Y) <= 1 + D / 2 ^ 40)%Z).
    { apply trunc_close_tol; [lia|lra|]. fold A. lra. }
    lia.
  - assert (H1 : (Z.abs (to_int (go_line_at_f a F k) - Zfloor Y) <= 1 + (D * kappa) / 2 ^ 48)%Z).
    { apply trunc_close_tol; [lia|lra|]. fold B. lra. }
    lia.
Qed.

(* ------------------------------------------------------------------------------------ *)
(* NewLine's count against the executable specification *)

Lemma Q2R_cum_line_D f t D : (0 < D)%Z ->
  Q2R (cum_line f t D D) = line_I (line_slope (Q2R f) (Q2R t) D) (Q2R f) D.
Proof.
  intros HD. unfold cum_line, line_I, line_slope.
  assert (HDR : 0 < IZR D) by (apply IZR_lt; exact HD).
  assert (N1 : ~ (qz ns_per_s == 0)%Q) by (apply qz_nonzero; unfold ns_per_s; lia).
  assert (N2 : ~ (qz (2 * D) == 0)%Q) by (apply qz_nonzero; lia).
  unfold Qdiv. rewrite Q2R_mult, Q2R_plus, !Q2R_mult, Q2R_minus, !Q2R_inv, !Q2R_qz by assumption.
  rewrite !mult_IZR. unfold ns_per_s, billion. field. lra.
Qed.

Theorem float_line_count_model f t D :
  valid (PLine f t D) -> (f < t)%Q ->
  is_b64 (Q2R f) -> is_b64 (Q2R t) -> Q2R f = 0 \/ rate_guard (Q2R f) ->
  let a := go_line_a (Q2R f) (Q2R t) D in
  slope_guard a -> (D < 2 ^ 63)%Z ->
  let I := Q2R (cum_line f t D D) in
  count_ok (cum_line f t D D) (1 # 1099511627776) (go_line_n a (Q2R f) D) = true /\
  Rabs (go_line_n_f a (Q2R f) D - I) <= I * bpow radix2 (-49) /\
  (go_line_n a (Q2R f) D <> count (PLine f t D) -> exists m : Z, Rabs (IZR m - I) <= I * bpow radix2 (-49)) /\
  (I <= bpow radix2 62 -> (0 <= go_line_n a (Q2R f) D < 2 ^ 63)%Z).
Proof.
  intros Hv Hlt Ff Ft Hb a Hga HD I.
  assert (Hne : ~ (f == t)%Q) by (intros E; rewrite E in Hlt; apply (Qlt_irrefl t); exact Hlt).
  pose proof (count_spec (PLine f t D) Hv eq_refl) as Hc.
  rewrite (dur_rate (PLine f t D) eq_refl) in Hc. cbn [cum] in Hc.
  destruct Hv as (Hf & Htv & HDm). unfold min_dur in HDm.
  set (F := Q2R f) in *. set (T := Q2R t) in *.
  assert (HFT : F < T) by (apply Qlt_Rlt; exact Hlt).
  destruct (go_line_a_rel F T D Ff Ft HFT) as [Hrel Hpos]; [lia|exact Hga|]. fold a in Hrel.
  destruct (line_n_err (line_slope F T D) a F D Hpos Hrel Hga Hb) as (H1 & [H2 H3] & H4 & H5); [lia|].
  unfold I. rewrite Q2R_cum_line_D by lia. fold F T.
  set (J := line_I (line_slope F T D) F D) in *.
  assert (HJ : 0 <= J).
  { destruct (line_n_f_rel (line_slope F T D) a F D Hpos Hrel Hga Hb) as [_ H]; [lia|exact H]. }
  assert (Heps : bpow radix2 (-49) = / 562949953421312) by (simpl bpow; reflexivity).
  split; [|split; [exact H1|split; [|exact H5]]].
  - rewrite Heps in *.
    unfold count_ok. apply andb_true_intro. split; apply Z.leb_le.
    + rewrite <- Zfloor_Q2R, Q2R_mult, Q2R_minus, Q2R_cum_line_D by lia. fold F T J.
      apply Z.le_trans with (2 := H2). apply Zfloor_le. unfold Q2R. cbn. nra.
    + rewrite <- Zfloor_Q2R, Q2R_mult, Q2R_plus, Q2R_cum_line_D by lia. fold F T J.
      apply Z.le_trans with (1 := H3). apply Zfloor_le. unfold Q2R. cbn. nra.
  - rewrite Hc, <- Zfloor_Q2R, Q2R_cum_line_D by lia. exact H4.
Qed.

(* ------------------------------------------------------------------------------------ *)
(* non-vacuity, concrete profile: line from 0 to 10 requests per second over 1.5 s (both rates
   are binary64 numbers, kappa = 10/(10-0) = 1): 7 operations, the last one at 1 341 640 786 ns;
   the float64 evaluation schedules it within 1 ns (= 1 + D/2^40 + D*1/2^48) of that *)
Lemma example_slope_guard : slope_guard (go_line_a 0 10 1500000000).
Proof.
  pose proof u_pos as Hu_pos. pose proof u_val as Hu_val.
  destruct (go_secs_rel 1500000000) as [[Hs1 Hs2] _]; [lia|].
  unfold go_line_a, fsub, fdiv. rewrite Rminus_0_r.
  rewrite (rnd_id 10) by (apply is_b64_int; lia).
  set (xn := go_secs 1500000000) in *.
  assert (Hx : 149 / 100 <= xn <= 151 / 100).
  { unfold billion in *. rewrite Hu_val in *. split; lra. }
  assert (H6 : 6 <= 10 / xn <= 7).
  { split.
    - apply (Rmult_le_reg_r xn); [lra|]. unfold Rdiv. rewrite Rmult_assoc, Rinv_l by lra. lra.
    - apply (Rmult_le_reg_r xn); [lra|]. unfold Rdiv. rewrite Rmult_assoc, Rinv_l by lra. lra. }
  assert (R6 : rnd 6 = 6) by (apply rnd_id, is_b64_int; lia).
  assert (R7 : rnd 7 = 7) by (apply rnd_id, is_b64_int; lia).
  pose proof (rnd_le _ _ (proj1 H6)). pose proof (rnd_le _ _ (proj2 H6)).
  unfold slope_guard, p2_40, p2_50. lra.
Qed.

Example float_line_example :
  let f := 0%Q in let t := (10 # 1)%Q in let D := 1500000000%Z in
  let a := go_line_a (Q2R f) (Q2R t) D in
  valid (PLine f t D) /\ is_b64 (Q2R f) /\ is_b64 (Q2R t) /\ slope_guard a /\
  count (PLine f t D) = 7%Z /\ line_at f t D 6 = Some 1341640786%Z /\
  go_line_n a (Q2R f) D = 7%Z /\
  (Z.abs (go_line_at a (Q2R f) 6 - 1341640786) <= 1)%Z.
Proof.
  intros f t D a.
  assert (Ef : Q2R f = 0) by (unfold f, Q2R; cbn; lra).
  assert (Et : Q2R t = 10) by (unfold t, Q2R; cbn; lra).
  assert (Hv : valid (PLine f t D)) by (repeat split; [unfold Qle; cbn; lia|unfold Qle; cbn; lia|unfold min_dur, D; lia]).
  assert (Hlt : (f < t)%Q) by (unfold Qlt; cbn; lia).
  assert (Ff : is_b64 (Q2R f)) by (rewrite Ef; apply generic_format_0).
  assert (Ft : is_b64 (Q2R t)) by (rewrite Et; apply is_b64_int; lia).
  assert (Hg : slope_guard a) by (unfold a; rewrite Ef, Et; exact example_slope_guard).
  assert (Hc : count (PLine f t D) = 7%Z) by (vm_compute; reflexivity).
  assert (Ha : line_at f t D 6 = Some 1341640786%Z) by (vm_compute; reflexivity).
  split; [exact Hv|]. split; [exact Ff|]. split; [exact Ft|]. split; [exact Hg|].
  split; [exact Hc|]. split; [exact Ha|]. split.
  - destruct (float_line_count_model f t D Hv Hlt Ff Ft (or_introl Ef) Hg) as (_ & _ & H & _); [unfold D; lia|].
    fold a in H. destruct (Z.eq_dec (go_line_n a (Q2R f) D) 7) as [E|NE]; [exact E|exfalso].
    rewrite Hc in H. destruct (H NE) as (m & Hm).
    rewrite Q2R_cum_line_D in Hm by (unfold D; lia). rewrite Ef, Et in Hm.
    unfold line_I, line_slope, D, billion in Hm. simpl bpow in Hm. apply Rabs_le_inv in Hm.
    (* I = 7.5 *)
    destruct (Z_lt_le_dec m 8) as [Hl|Hge].
    + assert (IZR m <= 7) by (apply IZR_le; lia). lra.
    + assert (8 <= IZR m) by (apply IZR_le; lia). lra.
  - destruct (float_line_at_model f t D 6 1 Hv Hlt Ff Ft (or_introl Ef) Hg) as (x & Hx & H);
      [unfold D; lia|rewrite Hc; lia|lia|rewrite Ef, Et; lra|].
    fold a in H. rewrite Ha in Hx. injection Hx as <-.
    replace (D / 2 ^ 40)%Z with 0%Z in H by (vm_compute; reflexivity).
    replace (D * 1 / 2 ^ 48)%Z with 0%Z in H by (vm_compute; reflexivity). lia.
Qed.
