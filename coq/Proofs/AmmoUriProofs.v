(* Round trip for the uri format: decoding a rendered well-formed file delivers the entries
   the file means, cyclically, for every layout. *)
From Coq Require Import List NArith ZArith Bool Lia.
From PV Require Import Lib.AmmoBytes Lib.AmmoLines Model.AmmoCommon Model.AmmoUri
  Proofs.AmmoBytesProofs Proofs.AmmoLinesProofs Proofs.AmmoCommonProofs.
Import ListNotations.
Local Open Scope N_scope.

Lemma cycle_take_nil {A} k (l : list A) : l <> [] -> cycle_take (S k) l [] = cycle_take (S k) l l.
Proof. intros H. destruct l; [contradiction|reflexivity]. Qed.

Section UriProofs.
  Variable url_parse : bytes -> option (bytes * bytes).
  Variable maxtok : N.
  Notation wf := (wf_uitem url_parse maxtok).

  Definition mk_get (u t : bytes) (h : headers) : entry :=
    {| e_method := GET; e_url := u; e_body := []; e_tag := t; e_headers := h |}.

  Lemma wf_parts i l :
    wf (i, l) = true ->
    wf_lay l = true /\ N.ltb (nlen (uline i l)) maxtok = true.
  Proof.
    unfold wf_uitem. intros H. apply andb_prop in H. destruct H as [H _].
    apply andb_prop in H. exact H.
  Qed.

  (* one physical line *)
  Lemma read_line_item i l h :
    wf (i, l) = true ->
    uri_read_line url_parse (drop_cr (uline i l)) h =
      match i with
      | UBlank => LSkip h
      | UHeader _ k _ _ v _ => LSkip (header_set k v h)
      | UReq u t => LEntry (mk_get u t h)
      end.
  Proof.
    intros H. destruct (wf_parts _ _ H) as [Hl _].
    unfold wf_uitem in H. apply andb_prop in H. destruct H as [_ H].
    unfold uri_read_line, uline.
    destruct i as [kl k kt vl v vt|u t|].
    - repeat (apply andb_prop in H; destruct H as [H ?]).
      rewrite trim_wrap_line; [|exact Hl|right; apply tight_header_text].
      cbn [uitem_text]. unfold header_text at 1. rewrite N.eqb_refl.
      rewrite decode_header_text by assumption. reflexivity.
    - repeat (apply andb_prop in H; destruct H as [H ?]).
      rewrite trim_wrap_line; [|exact Hl|right; assumption].
      destruct u as [|c u']; [discriminate|].
      match goal with Hc : negb (N.eqb c LBR) = true |- _ => apply negb_true_iff in Hc; rename Hc into Hc' end.
      apply negb_true_iff in H.
      assert (Hcut : cut SP (uitem_text (UReq (c :: u') t)) = (c :: u', t, negb (is_nil t))).
      { cbn [uitem_text]. destruct t as [|t0 t']; [apply cut_none; exact H|].
        apply cut_app. exact H. }
      assert (Hhd : exists r, uitem_text (UReq (c :: u') t) = c :: r).
      { cbn [uitem_text]. destruct t; eexists; cbn [app]; reflexivity. }
      destruct Hhd as [r Er]. rewrite Er at 1. rewrite Hc'. rewrite Hcut.
      match goal with Hu : url_ok url_parse _ = true |- _ => rewrite Hu; cbn [negb] end.
      unfold setup. change (valid_method GET) with true. cbn [negb].
      match goal with Hu : url_ok url_parse _ = true |- _ => rewrite Hu; cbn [negb] end.
      reflexivity.
    - rewrite trim_wrap_line; [reflexivity|exact Hl|left; reflexivity].
  Qed.

  (* the first request at or after a position, with the headers in force *)
  Fixpoint next_req (items : list (uitem * lay)) (h : headers)
    : option (entry * list (uitem * lay) * headers) :=
    match items with
    | [] => None
    | (UHeader _ k _ _ v _, _) :: r => next_req r (header_set k v h)
    | (UReq u t, _) :: r => Some (mk_get u t h, r, h)
    | (UBlank, _) :: r => next_req r h
    end.

  Definition ulines (items : list (uitem * lay)) : list bytes :=
    map (fun il => uline (fst il) (snd il)) items.

  Lemma uri_pass_items items h :
    forallb wf items = true ->
    uri_pass url_parse (ulines items) h =
      match next_req items h with
      | Some (e, rest, h') => PFound e (ulines rest) h'
      | None => PEnd
      end.
  Proof.
    revert h; induction items as [|[i l] r IH]; intros h H; [reflexivity|].
    cbn [forallb] in H. apply andb_prop in H. destruct H as [Hi Hr].
    cbn [ulines map fst snd uri_pass]. rewrite (read_line_item i l h Hi).
    destruct i; cbn [next_req]; try (apply IH; exact Hr). reflexivity.
  Qed.

  Lemma next_req_entries items h :
    uri_entries (map fst items) h =
      match next_req items h with
      | Some (e, rest, h') => e :: uri_entries (map fst rest) h'
      | None => []
      end.
  Proof.
    revert h; induction items as [|[i l] r IH]; intros h; [reflexivity|].
    cbn [map fst uri_entries next_req]. destruct i; auto.
  Qed.

  Lemma next_req_wf items h e rest h' :
    forallb wf items = true -> next_req items h = Some (e, rest, h') -> forallb wf rest = true.
  Proof.
    revert h; induction items as [|[i l] r IH]; intros h H E; [discriminate|].
    cbn [forallb] in H. apply andb_prop in H. destruct H as [_ Hr].
    cbn [next_req] in E. destruct i; eauto. inversion E; subst. exact Hr.
  Qed.

  (* ---------- the lines layer ---------- *)
  Lemma nolf_uline i l : wf (i, l) = true -> nolf (uline i l) = true.
  Proof.
    intros H. destruct (wf_parts _ _ H) as [Hl _]. unfold uline. apply nolf_wrap_line; [exact Hl|].
    unfold wf_uitem in H. apply andb_prop in H. destruct H as [_ H].
    destruct i as [kl k kt vl v vt|u t|]; [| |reflexivity].
    - repeat (apply andb_prop in H; destruct H as [H ?]).
      cbn [uitem_text]. unfold header_text.
      assert (Hk' : nolf k = true).
      { match goal with Hk : wf_key k = true |- _ => unfold wf_key in Hk; apply andb_prop in Hk; apply Hk end. }
      assert (Hv' : nolf v = true).
      { match goal with Hv : wf_val v = true |- _ => apply (wf_val_cases _ Hv) end. }
      rewrite nolf_cons, !nolf_app, nolf_cons, !nolf_app.
      rewrite (lblank_nolf kl), (lblank_nolf kt), (lblank_nolf vl), (lblank_nolf vt) by assumption.
      rewrite Hk', Hv'. reflexivity.
    - repeat (apply andb_prop in H; destruct H as [H ?]). assumption.
  Qed.

  Lemma ulines_nolf items : forallb wf items = true -> forallb nolf (ulines items) = true.
  Proof.
    induction items as [|[i l] r IH]; intros H; [reflexivity|].
    cbn [forallb] in H. apply andb_prop in H. destruct H as [Hi Hr].
    cbn [ulines map forallb fst snd]. rewrite (nolf_uline i l Hi). apply IH. exact Hr.
  Qed.

  Lemma ulines_short items :
    forallb wf items = true -> forallb (fun l => N.ltb (nlen l) maxtok) (ulines items) = true.
  Proof.
    induction items as [|[i l] r IH]; intros H; [reflexivity|].
    cbn [forallb] in H. apply andb_prop in H. destruct H as [Hi Hr].
    cbn [ulines map forallb fst snd]. destruct (wf_parts _ _ Hi) as [_ Hs]. rewrite Hs. apply IH. exact Hr.
  Qed.

  (* an empty physical line can only be a blank item *)
  Lemma uline_empty i l : wf (i, l) = true -> uline i l = [] -> i = UBlank.
  Proof.
    intros H E. unfold uline, wrap_line in E.
    apply app_eq_nil in E. destruct E as [_ E]. apply app_eq_nil in E. destruct E as [E _].
    destruct i as [kl k kt vl v vt|u t|]; [discriminate| |reflexivity].
    unfold wf_uitem in H. apply andb_prop in H. destruct H as [_ H].
    repeat (apply andb_prop in H; destruct H as [H ?]).
    rewrite E in *. discriminate.
  Qed.

  Lemma uri_entries_app a b h :
    uri_entries (a ++ b) h = uri_entries a h ++
      uri_entries b (fold_left (fun h i => match i with UHeader _ k _ _ v _ => header_set k v h | _ => h end) a h).
  Proof.
    revert h; induction a as [|i a IH]; intros h; [reflexivity|].
    cbn [app uri_entries fold_left]. destruct i; rewrite IH; reflexivity.
  Qed.

  (* what the scanner yields for a rendered file: the physical lines of an equivalent
     item list (an empty unterminated last line is not a line) *)
  Lemma lines_render items fin :
    forallb wf items = true ->
    exists items',
      scan_lines maxtok (render_uri items fin) = (ulines items', SEof) /\
      forallb wf items' = true /\
      uri_entries (map fst items') [] = uri_entries (map fst items) [].
  Proof.
    intros H. unfold scan_lines, render_uri. fold (ulines items).
    destruct fin.
    - exists items. rewrite lines_join_true by (apply ulines_nolf; exact H).
      rewrite cap_lines_ok by (apply ulines_short; exact H). auto.
    - rewrite lines_join_false by (apply ulines_nolf; exact H).
      unfold drop_empty_last.
      destruct (rev (ulines items)) as [|z zs] eqn:E.
      { exists items. rewrite cap_lines_ok by (apply ulines_short; exact H). auto. }
      destruct z as [|z0 z'].
      2:{ exists items. rewrite cap_lines_ok by (apply ulines_short; exact H). auto. }
      (* the last physical line is empty: the last item is a blank one *)
      destruct (rev items) as [|[i l] ris] eqn:Er.
      { apply (f_equal (@rev _)) in Er. rewrite rev_involutive in Er. subst items. discriminate. }
      assert (Hit : items = rev ris ++ [(i, l)]).
      { rewrite <- (rev_involutive items), Er. reflexivity. }
      rewrite Hit in E. unfold ulines in E. rewrite map_app, rev_app_distr in E. cbn [map rev app fst snd] in E.
      inversion E as [[E1 E2]]. clear E.
      rewrite Hit in H. rewrite forallb_app in H. apply andb_prop in H. destruct H as [Hr Hi].
      cbn [forallb] in Hi. rewrite andb_true_r in Hi.
      pose proof (uline_empty i l Hi E1) as ->.
      exists (rev ris). rewrite rev_involutive. fold (ulines (rev ris)).
      rewrite cap_lines_ok by (apply ulines_short; exact Hr).
      split; [reflexivity|]. split; [exact Hr|].
      rewrite Hit, map_app, uri_entries_app. cbn [map fst uri_entries]. rewrite app_nil_r. reflexivity.
  Qed.

  (* ---------- runs of Scan ---------- *)
  Definition ust (all cur : list (uitem * lay)) (h : headers) (a p : N) : ustate :=
    {| u_all := ulines all; u_end := SEof; u_lines := ulines cur; u_hdr := h; u_ammo := a; u_pass := p |}.

  Lemma uri_run_cyclic k : forall all cur h a p,
    forallb wf all = true -> forallb wf cur = true ->
    uri_entries (map fst all) [] <> [] ->
    (a = 0 -> uri_entries (map fst cur) h <> []) ->
    uri_run url_parse k cfg0 (ust all cur h a p) =
      map SDeliver (cycle_take k (uri_entries (map fst all) []) (uri_entries (map fst cur) h)).
  Proof.
    induction k as [|k IH]; intros all cur h a p Hall Hcur Hne Ha; [reflexivity|].
    cbn [uri_run]. unfold uri_scan. change (limit_hit cfg0 (u_ammo (ust all cur h a p))) with false.
    cbn iota. cbn [uri_loop ust u_lines u_hdr u_all u_end u_ammo u_pass].
    rewrite (uri_pass_items cur h Hcur). rewrite (next_req_entries cur h) in *.
    destruct (next_req cur h) as [[[e rest] h']|] eqn:En.
    - cbn [cycle_take map]. f_equal.
      apply (IH all rest h' (N.succ a) p); auto.
      + exact (next_req_wf cur h e rest h' Hcur En).
      + intros Hz. lia.
    - (* end of the pass: wrap around *)
      change (passes_hit cfg0 (N.succ p)) with false. cbn iota.
      destruct (N.eqb_spec a 0) as [Hz|Hnz]; [exfalso; apply (Ha Hz); reflexivity|].
      rewrite (uri_pass_items all [] Hall).
      pose proof (next_req_entries all []) as Eall.
      destruct (next_req all []) as [[[e rest] h']|] eqn:En2.
      + rewrite Eall. cbn [cycle_take map]. f_equal.
        rewrite <- Eall.
        apply (IH all rest h' (N.succ a) (N.succ p)); auto.
        * exact (next_req_wf all [] e rest h' Hall En2).
        * intros Hz. lia.
      + exfalso. apply Hne. exact Eall.
  Qed.

  Theorem uri_roundtrip items fin k :
    forallb wf items = true ->
    uri_entries (map fst items) [] <> [] ->
    uri_decode url_parse maxtok cfg0 k (render_uri items fin) =
      map SDeliver (cycle_take k (uri_entries (map fst items) []) (uri_entries (map fst items) [])).
  Proof.
    intros H Hne. destruct (lines_render items fin H) as [items' [E1 [E2 E3]]].
    unfold uri_decode, uri_init. rewrite E1. rewrite <- E3 in *.
    apply (uri_run_cyclic k items' items' [] 0 0); auto.
  Qed.

  (* a file without any request: the provider reports "no ammo" instead of spinning *)
  Theorem uri_no_requests items fin k :
    forallb wf items = true ->
    uri_entries (map fst items) [] = [] ->
    uri_decode url_parse maxtok cfg0 (S k) (render_uri items fin) = [SNoAmmo].
  Proof.
    intros H Hnil. destruct (lines_render items fin H) as [items' [E1 [E2 E3]]].
    unfold uri_decode, uri_init. rewrite E1. rewrite <- E3 in Hnil.
    cbn [uri_run]. unfold uri_scan. cbn [limit_hit cfg0 c_limit N.eqb negb andb u_ammo].
    cbn [uri_loop u_lines u_hdr]. rewrite (uri_pass_items items' [] E2).
    rewrite (next_req_entries items' []) in Hnil.
    destruct (next_req items' []) as [[[e rest] h']|]; [discriminate|].
    cbn [u_end u_pass u_ammo]. reflexivity.
  Qed.
End UriProofs.
