(* C02, nested composites under concurrency: what one step of the nested section semantics
   (Model/SchedNested.v) does to the abstract token stream of EVERY composite on the path of heads.

   The lemmas of SchedConcSections.v describe a section of one composite given the sequential
   result of the child call.  Here the child call is itself an interleaved operation; what is
   known about it when it returns is its abstract effect ([next_post] / [left_post], the very
   conclusions of next_sound / left_sound).  [next0_exit_S], [left0_exit_S] redo the read
   sections from those posts; [nsec_S] / [nsec_F] then go through the nesting by induction on
   the thread's pc. *)
From Coq Require Import List ZArith Bool Arith Lia.
From PV Require Import Model.SchedTree Model.SchedConc Model.SchedNested
  Proofs.SchedTreeProofs Proofs.SchedTreeSeq Proofs.SchedTreeRun Proofs.SchedConcSections.
Import ListNotations.
Local Open Scope Z_scope.

(* ---------- flags, shapes ---------- *)
Lemma started_sflag s : started s -> sflag s = true.
Proof. intros S; inversion S; reflexivity. Qed.

Lemma fresh_sflag s : fresh s -> sflag s = false.
Proof. intros F; inversion F; reflexivity. Qed.

Lemma wf_comp_sf l la cs : wf (Comp l la cs) -> started (Comp l la cs) \/ fresh (Comp l la cs).
Proof.
  intros W; inversion W as [| |h r cs' Wh Fr Hf Hs]; subst.
  destruct cs.
  - left. constructor. apply Hs. reflexivity.
  - right. apply (fr_comp (h :: r)); [constructor; auto|discriminate].
Qed.

Lemma is_comp_len h : wf h -> is_comp h = true -> comp_len h <> 0%nat.
Proof.
  intros W E. destruct h as [| |l la cs]; try discriminate.
  destruct (wf_comp_inv _ _ _ W) as (x & r & -> & _). cbn. discriminate.
Qed.

Lemma not_comp_len h : is_comp h = false -> comp_len h = 0%nat.
Proof. destruct h; cbn; congruence. Qed.

Lemma comp_len_inv c : comp_len c <> 0%nat -> exists h r la cs, c = Comp (h :: r) la cs.
Proof. destruct c as [| |[|h r] la cs]; cbn; try congruence. intros _. eauto. Qed.

(* ---------- the sections of SchedConc.v in terms of the exits ---------- *)
Lemma sec_next0_exit fuel now h r la cs :
  lift_res (sec_next0 fuel now (Comp (h :: r) la cs)) =
  match s_next fuel now h with
  | Ok (h', tx, ok) => Ok (next0_exit h' r la tx ok)
  | Panic k => Panic k
  | OutOfFuel => OutOfFuel
  end.
Proof.
  cbn [sec_next0]. destruct (s_next fuel now h) as [[[h' tx] ok]| |]; cbn [bind lift_res]; try reflexivity.
  unfold next0_exit. cbn [length]. destruct ok; [reflexivity|]. destruct (_ =? _)%nat; reflexivity.
Qed.

Lemma sec_left0_exit fuel now h r la0 la' cs :
  lift_res (sec_left0 fuel now (Comp (h :: r) (la0 :: la') cs)) =
  match s_left fuel now h with
  | Ok (h', lft) => left0_exit h' r (la0 :: la') cs lft
  | Panic k => Panic k
  | OutOfFuel => OutOfFuel
  end.
Proof.
  cbn [sec_left0]. destruct (s_left fuel now h) as [[h' lft]| |]; cbn [bind lift_res]; try reflexivity.
  unfold left0_exit. cbn [length]. destruct (_ =? _)%nat; [reflexivity|].
  destruct (lft =? 0); [destruct (0 <=? la0); [reflexivity|destruct (negb cs); reflexivity]|].
  destruct (_ || _); reflexivity.
Qed.

(* ---------- how a node evolves in one step, seen from its parent ---------- *)
(* the finish time is kept, and an exhausted stream stays exhausted *)
Definition sevol (lo now : Z) (c c' : sched) : Prop :=
  afin 0 c' = afin 0 c /\ (drop_closed lo (absp 0 c) = [] -> drop_closed now (absp 0 c') = []).

Lemma sevol_of_dc lo now c c' : lo <= now -> afin 0 c' = afin 0 c ->
  drop_closed now (absp 0 c') = drop_closed now (absp 0 c) -> sevol lo now c c'.
Proof. intros L F D. split; [exact F|]. intros X. rewrite D. eapply dc_nil_mono; eauto. Qed.

Lemma sevol_of_pop lo now c c' its' t ok : lo <= now -> afin 0 c' = afin 0 c ->
  abs_next now (afin 0 c) (absp 0 c) = (its', t, ok) ->
  drop_closed now its' = drop_closed now (absp 0 c') -> sevol lo now c c'.
Proof.
  intros L F AN D. split; [exact F|]. intros X. apply (dc_nil_mono lo now _ L) in X.
  rewrite an_nil_closed in AN by exact X. inversion AN; subst. rewrite <- D. reflexivity.
Qed.

Lemma sevol_refl lo now c : lo <= now -> sevol lo now c c.
Proof. intros L. apply sevol_of_dc; auto. Qed.

Lemma evol_head lo now h h' r la la' cs cs' :
  sevol lo now h h' -> evol lo now (Comp (h :: r) la cs) (Comp (h' :: r) la' cs').
Proof.
  intros [F X]. right. split; [reflexivity|]. cbn [hexh hfin]. intros H. split; [apply X; exact H|exact F].
Qed.

(* ---------- the read section of Next, from the abstract effect of the child's Next ---------- *)
Lemma head_next_g now p h r cs h' tx ok :
  wf (Comp (h :: r) (la_of (h :: r)) cs) -> next_post now p h h' tx ok ->
  let c := Comp (h :: r) (la_of (h :: r)) cs in
  let c' := Comp (h' :: r) (la_of (h :: r)) true in
  wf c' /\ started c' /\ afin p c' = afin p c /\ afin p h' = afin p h /\
  (ok = true -> exists its', abs_next now (afin p c) (absp p c) = (its', tx, true) /\
                             drop_closed now its' = drop_closed now (absp p c')) /\
  (ok = false -> drop_closed now (absp p h) = [] /\ drop_closed now (absp p h') = [] /\ tx = afin p h /\
                 drop_closed now (absp p c') = drop_closed now (absp p c)).
Proof.
  intros W (Wh' & Sh' & Fh' & A' & AN & DC) c c'. inversion W as [| |? ? ? Wh Fr Hf Hs]; subst.
  split; [unfold c'; change (la_of (h :: r)) with (la_of (h' :: r)); apply wf_comp; auto; discriminate|]. split; [constructor; auto|].
  split; [unfold c, c'; rewrite !afin_comp, Fh'; reflexivity|]. split; [exact Fh'|]. split.
  - intros ->. unfold c, c'. rewrite !absp_comp, afin_comp, Fh'.
    exists (A' ++ fst (items_from (afin p h) (flatl r))). split; [eapply an_app_ok; eauto|].
    rewrite !dc_app, DC. reflexivity.
  - intros ->. apply an_fail in AN. destruct AN as (-> & -> & DCh). cbn [drop_closed] in DC.
    split; [exact DCh|]. split; [symmetry; exact DC|]. split; [reflexivity|].
    unfold c, c'. rewrite !absp_comp, Fh', !dc_app, DCh, <- DC. reflexivity.
Qed.

Lemma next_post_exhausted now p h h' tx ok :
  next_post now p h h' tx ok -> drop_closed now (absp p h) = [] -> ok = false.
Proof.
  intros (_ & _ & _ & A & AN & _) X. rewrite an_nil_closed in AN by exact X. inversion AN; reflexivity.
Qed.

Lemma next0_exit_S lo now h r h' tx ok :
  let c := Comp (h :: r) (la_of (h :: r)) true in
  let c' := Comp (h' :: r) (la_of (h :: r)) true in
  wf c -> started c -> lo <= now -> next_post now 0 h h' tx ok -> (size h' <= size h)%nat ->
  exists out, next0_exit h' r (la_of (h :: r)) tx ok = (c', out) /\
    wf c' /\ started c' /\ (size c' <= size c)%nat /\ evol lo now c c' /\ afin 0 c' = afin 0 c /\
    match out with
    | NRetN t ok' => exists its', abs_next now (afin 0 c) (absp 0 c) = (its', t, ok') /\
                                 drop_closed now its' = drop_closed now (absp 0 c')
    | NGoto (QN1 tx' k) => drop_closed now (absp 0 c') = drop_closed now (absp 0 c) /\ Jn now c' tx' k
    | _ => False
    end.
Proof.
  intros c c' W St L NP Sz.
  destruct (head_next_g now 0 h r true h' tx ok W NP) as (W' & S' & Fc & Fh & Hok & Hno).
  fold c c' in W', S', Fc, Hok, Hno.
  assert (Szc : (size c' <= size c)%nat) by (unfold c, c'; rewrite !size_comp, !sizel_cons; lia).
  assert (EV : evol lo now c c').
  { right. split; [reflexivity|]. unfold c, c'. cbn [hexh hfin]. intros X. apply (dc_nil_mono lo now _ L) in X.
    pose proof (next_post_exhausted _ _ _ _ _ _ NP X) as ->.
    destruct (Hno eq_refl) as (_ & D2 & _ & _). split; [exact D2|exact Fh]. }
  unfold next0_exit. fold c'. destruct ok.
  - exists (NRetN tx true). split; [reflexivity|]. do 5 (split; [assumption|]). exact (Hok eq_refl).
  - destruct (Hno eq_refl) as (D1 & D2 & T & D3).
    destruct r as [|h2 r2]; cbn [length Nat.eqb].
    + exists (NRetN tx false). split; [reflexivity|]. do 5 (split; [assumption|]).
      exists []. split.
      * unfold c. rewrite absp_comp, afin_comp. cbn [flatl flat_map items_from fst snd].
        rewrite app_nil_r, T. apply an_nil_closed. exact D1.
      * cbn [drop_closed]. unfold c'. rewrite absp_comp. cbn [flatl flat_map items_from fst].
        rewrite app_nil_r. symmetry. exact D2.
    + exists (NGoto (QN1 tx (S (S (length r2))))). split; [reflexivity|]. do 5 (split; [assumption|]).
      split; [exact D3|]. split; [lia|]. right. unfold c'. cbn [comp_len length hexh hfin].
      split; [reflexivity|]. split; [exact D2|]. rewrite Fh. exact T.
Qed.

(* the same through a composite that has not been started: the stream starts at [now] *)
Lemma next0_exit_F now h r h' tx ok :
  let c := Comp (h :: r) (la_of (h :: r)) false in
  let c' := Comp (h' :: r) (la_of (h :: r)) true in
  fresh c -> next_post now now h h' tx ok -> (size h' <= size h)%nat ->
  exists out, next0_exit h' r (la_of (h :: r)) tx ok = (c', out) /\
    wf c' /\ started c' /\ (size c' <= size c)%nat /\ afin 0 c' = afin now c /\
    match out with
    | NRetN t ok' => exists its', abs_next now (afin now c) (absp now c) = (its', t, ok') /\
                                 drop_closed now its' = drop_closed now (absp 0 c')
    | NGoto (QN1 tx' k) => drop_closed now (absp 0 c') = drop_closed now (absp now c) /\ Jn now c' tx' k
    | _ => False
    end.
Proof.
  intros c c' F NP Sz. pose proof (fresh_wf _ F) as W.
  destruct (head_next_g now now h r false h' tx ok W NP) as (W' & S' & Fc & Fh & Hok & Hno).
  fold c c' in W', S', Fc, Hok, Hno.
  assert (P0 : absp now c' = absp 0 c' /\ afin now c' = afin 0 c').
  { unfold absp, afin. rewrite (absp_param c' now 0 S'). split; reflexivity. }
  destruct P0 as [PA PF].
  destruct (started_cs _ _ _ _ S') as [_ Sh'].
  assert (Ph : absp now h' = absp 0 h' /\ afin now h' = afin 0 h').
  { unfold absp, afin. rewrite (absp_param h' now 0 Sh'). split; reflexivity. }
  destruct Ph as [PhA PhF].
  assert (Szc : (size c' <= size c)%nat) by (unfold c, c'; rewrite !size_comp, !sizel_cons; lia).
  unfold next0_exit. fold c'. destruct ok.
  - exists (NRetN tx true). split; [reflexivity|]. do 3 (split; [assumption|]).
    split; [rewrite <- PF; exact Fc|]. destruct (Hok eq_refl) as (its' & AN & DC). exists its'.
    split; [exact AN|]. rewrite <- PA. exact DC.
  - destruct (Hno eq_refl) as (D1 & D2 & T & D3).
    destruct r as [|h2 r2]; cbn [length Nat.eqb].
    + exists (NRetN tx false). split; [reflexivity|]. do 3 (split; [assumption|]).
      split; [rewrite <- PF; exact Fc|]. exists []. split.
      * unfold c. rewrite absp_comp, afin_comp. cbn [flatl flat_map items_from fst snd].
        rewrite app_nil_r, T. apply an_nil_closed. exact D1.
      * cbn [drop_closed]. rewrite <- PA. unfold c'. rewrite absp_comp. cbn [flatl flat_map items_from fst].
        rewrite app_nil_r. symmetry. exact D2.
    + exists (NGoto (QN1 tx (S (S (length r2))))). split; [reflexivity|]. do 3 (split; [assumption|]).
      split; [rewrite <- PF; exact Fc|]. split; [rewrite <- PA; exact D3|].
      split; [lia|]. right. unfold c'. cbn [comp_len length hexh hfin].
      split; [reflexivity|]. split; [rewrite <- PhA; exact D2|]. rewrite <- PhF, Fh. exact T.
Qed.

(* a step of the child operation that does not return: the parent only sees its head change *)
Lemma goto_lift now p h r cs h' :
  wf (Comp (h :: r) (la_of (h :: r)) cs) -> wf h' -> started h' -> afin p h' = afin p h ->
  drop_closed now (absp p h') = drop_closed now (absp p h) ->
  let c := Comp (h :: r) (la_of (h :: r)) cs in
  let c' := Comp (h' :: r) (la_of (h :: r)) true in
  wf c' /\ started c' /\ afin p c' = afin p c /\ drop_closed now (absp p c') = drop_closed now (absp p c).
Proof.
  intros W Wh' Sh' Fh D c c'. inversion W as [| |? ? ? Wh Fr Hf Hs]; subst.
  split; [unfold c'; change (la_of (h :: r)) with (la_of (h' :: r)); apply wf_comp; auto; discriminate|].
  split; [constructor; auto|].
  split; [unfold c, c'; rewrite !afin_comp, Fh; reflexivity|].
  unfold c, c'. rewrite !absp_comp, Fh, !dc_app, D. reflexivity.
Qed.

(* ---------- the read section of Left, from the abstract effect of the child's Left ---------- *)
Lemma left0_exit_S lo now h r h' lft :
  let c := Comp (h :: r) (la_of (h :: r)) true in
  let c' := Comp (h' :: r) (la_of (h :: r)) true in
  wf c -> started c -> lo <= now -> left_post now 0 h h' lft -> (size h' <= size h)%nat ->
  exists out, left0_exit h' r (la_of (h :: r)) true lft = Ok (c', out) /\
    wf c' /\ started c' /\ (size c' <= size c)%nat /\ evol lo now c c' /\ afin 0 c' = afin 0 c /\
    drop_closed now (absp 0 c') = drop_closed now (absp 0 c) /\
    match out with
    | NRetL v => v = abs_left now (absp 0 c)
    | NGoto (QL1 k) => Jl now c' k
    | _ => False
    end.
Proof.
  intros c c' W St L LP Sz.
  inversion W as [| |? ? ? Wh Fr Hf Hs]; subst.
  destruct LP as (Wh' & Sh' & Fh' & Kh & DCh).
  set (B := fst (items_from (afin 0 h) (flatl r))).
  assert (EA : absp 0 c = absp 0 h ++ B) by (unfold c; rewrite absp_comp; reflexivity).
  assert (EA' : absp 0 c' = absp 0 h' ++ B) by (unfold c'; rewrite absp_comp, Fh'; reflexivity).
  assert (W' : wf c') by (unfold c'; change (la_of (h :: r)) with (la_of (h' :: r)); apply wf_comp; auto; discriminate).
  assert (S' : started c') by (constructor; auto).
  assert (Fc : afin 0 c' = afin 0 c) by (unfold c, c'; rewrite !afin_comp, Fh'; reflexivity).
  assert (Dc : drop_closed now (absp 0 c') = drop_closed now (absp 0 c)) by (rewrite EA, EA', !dc_app, DCh; reflexivity).
  assert (Szc : (size c' <= size c)%nat) by (unfold c, c'; rewrite !size_comp, !sizel_cons; lia).
  assert (EV : evol lo now c c').
  { right. split; [reflexivity|]. unfold c, c'. cbn [hexh hfin]. intros X. apply (dc_nil_mono lo now _ L) in X.
    split; [rewrite DCh; exact X|exact Fh']. }
  assert (Fin : forall v, v = abs_left now (absp 0 c) ->
     exists out, Ok (c', NRetL v) = Ok (c', out) /\
       wf c' /\ started c' /\ (size c' <= size c)%nat /\ evol lo now c c' /\ afin 0 c' = afin 0 c /\
       drop_closed now (absp 0 c') = drop_closed now (absp 0 c) /\
       match out with NRetL v0 => v0 = abs_left now (absp 0 c) | NGoto (QL1 k) => Jl now c' k | _ => False end).
  { intros v Hv. exists (NRetL v). split; [reflexivity|]. do 6 (split; [assumption|]). exact Hv. }
  destruct (fresh_rest_items r Fr (afin 0 h)) as [BW BL]. fold B in BW, BL.
  pose proof (abs_left_cases now (absp 0 h)) as Cases. cbn zeta in Cases. rewrite <- Kh in Cases.
  pose proof (statl_ge (flatl r)) as Hge.
  unfold left0_exit. cbn [la_of]. fold c'.
  change (Comp (h' :: r) (statl (flatl r) :: la_of r) true) with c'.
  destruct r as [|h2 r2]; cbn [length Nat.eqb].
  - apply Fin. rewrite EA. unfold B. cbn [flatl flat_map items_from fst]. rewrite app_nil_r. exact Kh.
  - destruct (lft =? 0) eqn:E0.
    + apply Z.eqb_eq in E0. rewrite E0 in *.
      destruct Cases as [[C _]|(_ & CW & CL)]; [discriminate|].
      assert (DC0 : drop_closed now (absp 0 h) = []).
      { destruct (drop_closed now (absp 0 h)); [reflexivity|cbn in CL; lia]. }
      destruct (0 <=? statl (flatl (h2 :: r2))) eqn:E1'.
      * apply Fin. apply Z.leb_le in E1'.
        assert (E2 : statl (flatl (h2 :: r2)) <? 0 = false) by (apply Z.ltb_ge; lia).
        rewrite EA. unfold abs_left. rewrite dc_app, DC0.
        rewrite E2 in BW. rewrite (no_window_dc now B BW), BW. symmetry. apply BL, E2.
      * cbn [negb]. exists (NGoto (QL1 (S (S (length r2))))). split; [reflexivity|].
        do 6 (split; [assumption|]). split; [lia|]. right. unfold c'. cbn [comp_len length hexh].
        split; [reflexivity|]. rewrite DCh. exact DC0.
    + apply Z.eqb_neq in E0.
      destruct ((lft <? 0) || (statl (flatl (h2 :: r2)) <? 0)) eqn:E1'; apply Fin; rewrite EA.
      * unfold abs_left. rewrite dc_app.
        destruct Cases as [[C CW]|(C0 & CW & CL)].
        -- destruct (drop_closed now (absp 0 h)) eqn:ED; [discriminate|].
           cbn iota; rewrite existsb_app, CW. reflexivity.
        -- destruct (drop_closed now (absp 0 h)) eqn:ED; [cbn in CL; lia|].
           cbn iota; rewrite existsb_app, CW, BW.
           destruct (lft <? 0) eqn:E2; [apply Z.ltb_lt in E2; lia|]. cbn [orb] in E1'. rewrite E1'. reflexivity.
      * apply orb_false_elim in E1'. destruct E1' as [E2 E3].
        destruct Cases as [[C CW]|(C0 & CW & CL)]; [rewrite C in E2; discriminate|].
        unfold abs_left. rewrite dc_app.
        destruct (drop_closed now (absp 0 h)) eqn:ED; [cbn in CL; lia|].
        cbn iota; rewrite existsb_app, CW, BW, E3. cbn [orb].
        rewrite app_length, Nat2Z.inj_add, <- CL, (BL E3). reflexivity.
Qed.

(* through a composite that has not been started: the static count, nothing is touched *)
Lemma left0_exit_F fuel h r :
  let c := Comp (h :: r) (la_of (h :: r)) false in
  fresh c -> (size c <= S fuel)%nat ->
  left0_exit h r (la_of (h :: r)) false (statl (flatten h)) = Ok (c, NRetL (statl (flatten c))).
Proof.
  intros c F Sz.
  pose proof (sec_left0_F fuel 0 c F ltac:(cbn; discriminate) Sz) as E.
  apply (f_equal lift_res) in E. unfold c in E at 1. cbn [la_of] in E.
  rewrite sec_left0_exit in E.
  destruct (fresh_comp_inv _ _ _ F) as (h0 & r0 & E0 & _ & _ & Fh & _). inversion E0; subst h0 r0.
  unfold c in Sz. rewrite size_comp, sizel_cons in Sz.
  rewrite (left_fresh_total fuel 0 h Fh ltac:(lia)) in E. exact E.
Qed.
