(* With a fresh reader object per delivery the heap only grows, so what an instance reads when it
   shoots is what was delivered to it, whatever the other instances did in between. *)
From Coq Require Import List NArith Bool Arith Lia.
From PV Require Import Lib.AmmoBytes Model.AmmoSched.
Import ListNotations.

Section SchedProofs.
  Variable A : Type.
  Notation held := (held A).
  Notation slot := (option (A * bytes)).

  Lemma upd_length {X} j (v : X) l : length (upd j v l) = length l.
  Proof. revert j; induction l as [|x l IH]; intros [|j]; cbn; try reflexivity. rewrite IH. reflexivity. Qed.

  Lemma nth_error_upd_same {X} j (v : X) l : j < length l -> nth_error (upd j v l) j = Some v.
  Proof.
    revert j; induction l as [|x l IH]; intros [|j] H; cbn in *; try lia; [reflexivity|].
    apply IH. lia.
  Qed.

  Lemma nth_error_upd_other {X} j j' (v : X) l : j <> j' -> nth_error (upd j v l) j' = nth_error l j'.
  Proof.
    revert j j'; induction l as [|x l IH]; intros [|j] [|j'] H; cbn; try reflexivity; try lia.
    apply IH. lia.
  Qed.

  Lemma nth_error_ext_eq {X} : forall (l1 l2 : list X), (forall j, nth_error l1 j = nth_error l2 j) -> l1 = l2.
  Proof.
    induction l1 as [|x l1 IH]; intros [|y l2] H.
    - reflexivity.
    - specialize (H 0). discriminate.
    - specialize (H 0). discriminate.
    - pose proof (H 0) as H0. cbn in H0. inversion H0; subst. f_equal. apply IH. intros j. exact (H (S j)).
  Qed.

  Lemma take_inst_spec i : forall (hs : list held) h rest,
    take_inst A i hs = Some (h, rest) ->
    In h hs /\ (forall h', In h' hs -> h' = h \/ In h' rest) /\ (forall h', In h' rest -> In h' hs).
  Proof.
    induction hs as [|x t IH]; intros h rest H; cbn [take_inst] in H; [discriminate|].
    destruct (Nat.eqb (h_inst A x) i).
    - inversion H; subst. split; [left; reflexivity|]. split.
      + intros h' [->|Hin]; [left; reflexivity|right; exact Hin].
      + intros h' Hin. right. exact Hin.
    - destruct (take_inst A i t) as [[y t']|] eqn:E; [|discriminate]. inversion H; subst.
      destruct (IH _ _ eq_refl) as (H1 & H2 & H3). split; [right; exact H1|]. split.
      + intros h' [->|Hin]; [right; left; reflexivity|].
        destruct (H2 _ Hin) as [->|Hr]; [left; reflexivity|right; right; exact Hr].
      + intros h' [->|Hin]; [left; reflexivity|right; apply H3; exact Hin].
  Qed.

  (* what has been delivered so far is [done]; the heap has one reader object per delivery *)
  Definition held_ok (done : list (A * bytes)) (heap : list bytes) (hs : list held) : Prop :=
    forall h, In h hs ->
      h_addr A h < length heap /\
      nth_error done (h_idx A h) = Some (h_imm A h, heap_get heap (h_addr A h)).

  Definition slots_ok (done : list (A * bytes)) (hs : list held) (slots : list slot) : Prop :=
    length slots = length done /\
    forall j d, nth_error done j = Some d ->
      nth_error slots j = Some (Some d) \/
      (nth_error slots j = Some None /\ exists h, In h hs /\ h_idx A h = j).

  Definition inv (ds : list (A * bytes)) (st : sst A) : Prop :=
    exists done, ds = done ++ s_todo A st /\ length (s_heap A st) = length done /\
      held_ok done (s_heap A st) (s_held A st) /\ slots_ok done (s_held A st) (s_slots A st).

  Lemma shoot_ok done heap hs h rest slots :
    held_ok done heap hs -> slots_ok done hs slots ->
    In h hs -> (forall h', In h' hs -> h' = h \/ In h' rest) -> (forall h', In h' rest -> In h' hs) ->
    held_ok done heap rest /\ slots_ok done rest (shoot A heap h slots).
  Proof.
    intros Hh [Hl Hs] Hin Hsplit Hsub. split.
    - intros h' Hin'. apply Hh. apply Hsub. exact Hin'.
    - unfold shoot. split; [rewrite upd_length; exact Hl|].
      intros j d Hd. destruct (Hh h Hin) as [_ Hhd].
      destruct (Nat.eq_dec (h_idx A h) j) as [E|E].
      + left. subst j. rewrite Hd in Hhd. inversion Hhd; subst.
        apply nth_error_upd_same. rewrite Hl. apply nth_error_Some. rewrite Hd. discriminate.
      + rewrite nth_error_upd_other by exact E.
        destruct (Hs j d Hd) as [H1|[H1 (h' & Hin' & Hj)]]; [left; exact H1|].
        right. split; [exact H1|]. destruct (Hsplit h' Hin') as [->|Hr]; [contradiction|].
        exists h'. split; assumption.
  Qed.

  Lemma step_inv ds st i : inv ds st -> inv ds (sched_step A Fresh st i).
  Proof.
    intros (done & Hds & Hlen & Hh & Hs). unfold sched_step.
    destruct (take_inst A i (s_held A st)) as [[h rest]|] eqn:E.
    - destruct (take_inst_spec _ _ _ _ E) as (H1 & H2 & H3).
      destruct (shoot_ok _ _ _ _ _ _ Hh Hs H1 H2 H3) as [Hh' Hs'].
      exists done. cbn. split; [exact Hds|]. split; [exact Hlen|]. split; [exact Hh'|exact Hs'].
    - destruct (s_todo A st) as [|[imm body] todo] eqn:Et; [exists done; split; [rewrite Et; exact Hds|]; split; [exact Hlen|]; split; [exact Hh|exact Hs]|].
      cbn [alloc]. exists (done ++ [(imm, body)]). cbn [s_heap s_pool s_held s_slots s_todo].
      destruct Hs as [Hsl Hs]. split; [rewrite <- app_assoc; exact Hds|]. split; [rewrite !app_length; cbn; lia|]. split.
      + intros h Hin. apply in_app_or in Hin. destruct Hin as [Hin|[<-|[]]].
        * destruct (Hh h Hin) as [Ha Hn]. split; [rewrite app_length; lia|].
          unfold heap_get in *. rewrite app_nth1 by exact Ha.
          rewrite nth_error_app1; [exact Hn|]. apply nth_error_Some. rewrite Hn. discriminate.
        * cbn. split; [rewrite app_length; cbn; lia|].
          rewrite Hsl, nth_error_app2, Nat.sub_diag by lia. cbn.
          unfold heap_get. rewrite Hlen at 1. rewrite <- Hlen, app_nth2, Nat.sub_diag by lia. reflexivity.
      + split; [rewrite !app_length; cbn; lia|].
        intros j d Hd. destruct (Nat.lt_ge_cases j (length done)) as [Hj|Hj].
        * rewrite nth_error_app1 in Hd by exact Hj. rewrite nth_error_app1 by lia.
          destruct (Hs j d Hd) as [H1|[H1 (h' & Hin' & Hj')]]; [left; exact H1|].
          right. split; [exact H1|]. exists h'. split; [apply in_or_app; left; exact Hin'|exact Hj'].
        * assert (j = length done).
          { assert (j < length (done ++ [(imm, body)])) by (apply nth_error_Some; rewrite Hd; discriminate).
            rewrite app_length in H. cbn in H. lia. }
          subst j. right. split.
          -- rewrite nth_error_app2, Hsl, Nat.sub_diag by lia. reflexivity.
          -- eexists. split; [apply in_or_app; right; left; reflexivity|]. cbn. exact Hsl.
  Qed.

  Lemma run_inv ds evs : forall st, inv ds st -> inv ds (fold_left (sched_step A Fresh) evs st).
  Proof. induction evs as [|i r IH]; intros st H; [exact H|]. cbn. apply IH. apply step_inv. exact H. Qed.

  Lemma flush_ok done heap : forall hs slots,
    held_ok done heap hs -> slots_ok done hs slots -> slots_ok done [] (flush A heap hs slots).
  Proof.
    induction hs as [|h t IH]; intros slots Hh Hs; [exact Hs|].
    cbn [flush fold_left]. apply IH.
    - intros h' Hin. apply Hh. right. exact Hin.
    - eapply shoot_ok with (hs := h :: t); try eassumption.
      + left. reflexivity.
      + intros h' [->|Hin]; [left; reflexivity|right; exact Hin].
      + intros h' Hin. right. exact Hin.
  Qed.

  Lemma slots_done done slots : slots_ok done [] slots -> slots = map Some done.
  Proof.
    intros [Hl Hs]. apply nth_error_ext_eq. intros j. rewrite nth_error_map.
    destruct (nth_error done j) as [d|] eqn:E.
    - destruct (Hs j d E) as [H|[_ (h & [] & _)]]. exact H.
    - cbn. apply nth_error_None. rewrite Hl. apply nth_error_None. exact E.
  Qed.

  (* the observation of any schedule is, in acquisition order, exactly what was delivered *)
  Theorem sched_fresh_exact (evs : list nat) (ds : list (A * bytes)) :
    exists n, n <= length ds /\ sched_obs Fresh evs ds = map Some (firstn n ds).
  Proof.
    unfold sched_obs.
    assert (H0 : inv ds (sched_init A ds)).
    { exists []. cbn. split; [reflexivity|]. split; [reflexivity|]. split.
      - intros ? [].
      - split; [reflexivity|]. intros j d Hd. destruct j; discriminate. }
    pose proof (run_inv ds evs _ H0) as Hi.
    remember (fold_left (sched_step A Fresh) evs (sched_init A ds)) as st eqn:Est. clear Est H0.
    destruct Hi as (done & Hds & Hlen & Hh & Hs).
    exists (length done). split; [rewrite Hds, app_length; lia|].
    rewrite Hds, firstn_app, Nat.sub_diag, firstn_all. cbn [firstn]. rewrite app_nil_r.
    apply slots_done. eapply flush_ok; eassumption.
  Qed.

  Corollary sched_fresh_schedule_independent (evs1 evs2 : list nat) (ds : list (A * bytes)) :
    length (sched_obs Fresh evs1 ds) = length (sched_obs Fresh evs2 ds) ->
    sched_obs Fresh evs1 ds = sched_obs Fresh evs2 ds.
  Proof.
    destruct (sched_fresh_exact evs1 ds) as (n1 & H1 & ->). destruct (sched_fresh_exact evs2 ds) as (n2 & H2 & ->).
    rewrite !map_length, !firstn_length_le by assumption. intros ->. reflexivity.
  Qed.
End SchedProofs.
