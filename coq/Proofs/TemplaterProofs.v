(* Proofs about the templater model (Model/Templater.v): an Apply renders every part from the
   templates and the data of THAT call only, whatever the templater was used for before. *)
From Coq Require Import List NArith ZArith Bool Lia.
From PV Require Import Model.Iterator Model.Scenario Model.Templater Proofs.ScenarioParseProofs.
Import ListNotations.

(* ---------- Execute into a non-empty writer = prefix ++ Execute into an empty one ---------- *)
Lemma exec_tmpl_app html t data : forall buf,
  exec_tmpl html t data buf = (buf ++ fst (exec_tmpl html t data []), snd (exec_tmpl html t data [])).
Proof.
  induction t as [|p t IH]; intro buf; cbn [exec_tmpl].
  - cbn. now rewrite app_nil_r.
  - destruct p as [s|fs|[s|]].
    + rewrite (IH (buf ++ s)), (IH ([] ++ s)). cbn [app fst snd]. now rewrite app_assoc.
    + destruct (eval_chain fs (Some data)) as [v|].
      * rewrite (IH (buf ++ _)), (IH ([] ++ _)). cbn [app fst snd]. now rewrite app_assoc.
      * cbn. now rewrite app_nil_r.
    + rewrite (IH (buf ++ _)), (IH ([] ++ _)). cbn [app fst snd]. now rewrite app_assoc.
    + cbn. now rewrite app_nil_r.
Qed.

Lemma exec_tmpl_render html t data :
  exec_tmpl html t data [] = match render html t data with
                             | Some o => (o, true)
                             | None => (fst (exec_tmpl html t data []), false)
                             end.
Proof.
  unfold render. destruct (exec_tmpl html t data []) as [o [|]]; reflexivity.
Qed.

(* what a failing Execute leaves in the writer: the output of the pieces before the failing one *)
Fixpoint out_before (html : bool) (t : list piece) (data : tval) : bytes :=
  match t with
  | [] => []
  | PLit s :: r => s ++ out_before html r data
  | PChain fs :: r => match eval_chain fs (Some data) with
                      | ChErr => []
                      | ChVal v => print_final html v ++ out_before html r data
                      end
  | PFunc None :: _ => []
  | PFunc (Some s) :: r => print_func html s ++ out_before html r data
  end.

Lemma exec_tmpl_out html t data : fst (exec_tmpl html t data []) = out_before html t data.
Proof.
  induction t as [|p t IH]; cbn [exec_tmpl out_before]; [reflexivity|].
  destruct p as [s|fs|[s|]]; try reflexivity.
  - rewrite exec_tmpl_app. cbn [fst app]. now rewrite IH.
  - destruct (eval_chain fs (Some data)); [|reflexivity].
    rewrite exec_tmpl_app. cbn [fst app]. now rewrite IH.
  - rewrite exec_tmpl_app. cbn [fst app]. now rewrite IH.
Qed.

(* ---------- keys ---------- *)
Lemma tpart_eqb_eq a b : tpart_eqb a b = true <-> a = b.
Proof.
  destruct a, b; cbn; try (split; [discriminate|discriminate]); try tauto.
  unfold beq. rewrite seg_eqb_eq. split; [now intros ->|now intros [= ->]].
Qed.

Lemma tkey_eqb_eq a b : tkey_eqb a b = true <-> a = b.
Proof.
  destruct a as [[s1 n1] p1], b as [[s2 n2] p2]. cbn [tkey_eqb].
  rewrite !andb_true_iff. unfold beq. rewrite !seg_eqb_eq, tpart_eqb_eq.
  split; [intros [[-> ->] ->]; reflexivity|intros [= -> -> ->]; auto].
Qed.

Lemma cache_get_cons k t c k' :
  cache_get ((k, t) :: c) k' = if tkey_eqb k k' then Some t else cache_get c k'.
Proof. reflexivity. Qed.

(* ---------- the templates a description gives to a part ---------- *)
Fixpoint hdr_src (hs : list (bytes * tsrc)) (k : bytes) : option tsrc :=
  match hs with
  | [] => None
  | (a, s) :: r => if beq a k then Some s else hdr_src r k
  end.

Definition part_src (p : parts) (k : tpart) : option tsrc :=
  match k with
  | KUrl => Some (pa_url p)
  | KHdr h => hdr_src (pa_hdrs p) h
  | KBody => pa_body p
  end.

Lemma hdr_src_in hs : NoDup (map fst hs) -> forall k s, In (k, s) hs -> hdr_src hs k = Some s.
Proof.
  induction hs as [|[a s0] r IH]; intros ND k s HIn; [destruct HIn|].
  cbn [map fst] in ND. inversion ND as [|? ? Hn ND']; subst.
  cbn [hdr_src]. destruct HIn as [[= -> ->]|HIn].
  - unfold beq. now rewrite seg_eqb_refl.
  - destruct (beq a k) eqn:E.
    + unfold beq in E. apply seg_eqb_eq in E. subst a.
      exfalso. apply Hn. apply in_map_iff. now exists (k, s).
    + now apply IH.
Qed.

(* the description fixes the templates of a step: calls with the same (scenario, step) carry the
   same parts; header names of one request are distinct (they are keys of a Go map) *)
Definition consistent (calls : list tcall) : Prop :=
  forall x y, In x calls -> In y calls -> tc_scen x = tc_scen y -> tc_step x = tc_step y ->
              tc_parts x = tc_parts y.
Definition hdrs_nodup (calls : list tcall) : Prop :=
  forall x, In x calls -> NoDup (map fst (pa_hdrs (tc_parts x))).

(* every cached template is the one the remaining calls would hand in for that key *)
Definition Inv (c : cache) (calls : list tcall) : Prop :=
  forall s n pt t, cache_get c (s, n, pt) = Some t ->
  forall x, In x calls -> tc_scen x = s -> tc_step x = n ->
  forall src, part_src (tc_parts x) pt = Some src -> src = TOk t.

Lemma Inv_tail c x rest : Inv c (x :: rest) -> Inv c rest.
Proof. intros H s n pt t Hg y Hy. apply (H s n pt t Hg y). now right. Qed.

Lemma get_template_ok c calls x pt src :
  Inv c calls -> consistent calls -> In x calls ->
  part_src (tc_parts x) pt = Some src ->
  exists c', get_template c src (tc_scen x, tc_step x, pt)
             = (c', match src with TOk t => Some t | TUnparsable => None end)
             /\ Inv c' calls.
Proof.
  intros HI HC Hx Hp. unfold get_template.
  destruct (cache_get c (tc_scen x, tc_step x, pt)) as [t|] eqn:G.
  - pose proof (HI _ _ _ _ G x Hx eq_refl eq_refl src Hp) as E. subst src. now exists c.
  - destruct src as [ps|]; [|now exists c].
    eexists; split; [reflexivity|].
    intros s n pt' t Hg y Hy Hs Hn src' Hp'.
    rewrite cache_get_cons in Hg.
    destruct (tkey_eqb (tc_scen x, tc_step x, pt) (s, n, pt')) eqn:E.
    + apply tkey_eqb_eq in E. injection E as E1 E2 E3. injection Hg as <-.
      subst pt'. assert (tc_parts y = tc_parts x) as Hpp by (apply HC; auto; congruence).
      rewrite Hpp in Hp'. congruence.
    + now apply (HI s n pt' t Hg y Hy Hs Hn).
Qed.

Lemma apply_hdrs_ok html calls x data :
  consistent calls -> In x calls ->
  forall hs c acc,
  Inv c calls ->
  (forall k s, In (k, s) hs -> part_src (tc_parts x) (KHdr k) = Some s) ->
  exists c' b', apply_hdrs html c (tc_scen x) (tc_step x) hs data [] acc
                = (c', b', match spec_hdrs html hs data with
                           | Some l => Some (acc ++ l)
                           | None => None
                           end)
                /\ Inv c' calls /\ (spec_hdrs html hs data <> None -> b' = []).
Proof.
  intros HC Hx. induction hs as [|[k src] rest IH]; intros c acc HI Hsrc.
  - exists c, []. cbn. rewrite app_nil_r. auto.
  - cbn [apply_hdrs spec_hdrs].
    destruct (get_template_ok c calls x (KHdr k) src HI HC Hx (Hsrc k src (or_introl eq_refl)))
      as (c1 & -> & HI1).
    destruct src as [t|].
    + rewrite exec_tmpl_render. destruct (render html t data) as [v|].
      * destruct (IH c1 (acc ++ [(k, v)]) HI1) as (c2 & b2 & -> & HI2 & Hb).
        { intros k' s' H'. apply Hsrc. now right. }
        exists c2, b2. destruct (spec_hdrs html rest data) as [l|].
        -- rewrite <- app_assoc. cbn [app]. split; [reflexivity|]. split; [assumption|].
           intros _. apply Hb. discriminate.
        -- split; [reflexivity|]. split; [assumption|]. intros H; now elim H.
      * eexists c1, _. split; [reflexivity|]. split; [assumption|]. intros H; now elim H.
    + exists c1, []. split; [reflexivity|]. split; [assumption|]. intros H; now elim H.
Qed.

Lemma apply_go_ok html calls x c :
  consistent calls -> hdrs_nodup calls -> In x calls -> Inv c calls ->
  exists c', apply_go html c (tc_scen x) (tc_step x) (tc_parts x) (tc_data x)
             = (c', apply_spec html (tc_parts x) (tc_data x)) /\ Inv c' calls.
Proof.
  intros HC HN Hx HI. unfold apply_go, apply_from, apply_spec.
  destruct (get_template_ok c calls x KUrl (pa_url (tc_parts x)) HI HC Hx eq_refl) as (c1 & -> & HI1).
  destruct (pa_url (tc_parts x)) as [tu|]; [|now exists c1].
  rewrite exec_tmpl_render. destruct (render html tu (tc_data x)) as [url|]; [|now exists c1].
  destruct (apply_hdrs_ok html calls x (tc_data x) HC Hx (pa_hdrs (tc_parts x)) c1 [] HI1)
    as (c2 & b2 & -> & HI2 & Hb).
  { intros k s HIn. cbn [part_src]. now apply hdr_src_in; [apply HN|]. }
  destruct (spec_hdrs html (pa_hdrs (tc_parts x)) (tc_data x)) as [hdrs|]; [|now exists c2].
  cbn [app]. rewrite (Hb ltac:(discriminate)).
  destruct (pa_body (tc_parts x)) as [src|] eqn:EB; [|now exists c2].
  destruct (get_template_ok c2 calls x KBody src HI2 HC Hx EB) as (c3 & -> & HI3).
  destruct src as [tb|]; [|now exists c3].
  rewrite exec_tmpl_render. destruct (render html tb (tc_data x)); now exists c3.
Qed.

Lemma run_applies_spec_gen html : forall calls c,
  consistent calls -> hdrs_nodup calls -> Inv c calls ->
  run_applies html c calls = spec_applies html calls.
Proof.
  induction calls as [|x rest IH]; intros c HC HN HI; [reflexivity|].
  cbn [run_applies spec_applies map].
  destruct (apply_go_ok html (x :: rest) x c HC HN (or_introl eq_refl) HI) as (c1 & -> & HI1).
  f_equal. apply IH.
  - intros a b Ha Hb. apply HC; now right.
  - intros a Ha. apply HN. now right.
  - now apply Inv_tail with x.
Qed.

(* Any history of Apply calls on one templater that starts with an empty cache: the i-th result
   is the specified rendering of the i-th call's own templates on the i-th call's own data —
   nothing an earlier call did (successful or failed, same or another step / scenario) shows. *)
Theorem run_applies_spec html calls :
  consistent calls -> hdrs_nodup calls ->
  run_applies html [] calls = spec_applies html calls.
Proof.
  intros HC HN. apply run_applies_spec_gen; auto.
  intros s n pt t Hg. discriminate.
Qed.

(* the specified rendering itself: a part is the concatenation of its pieces' outputs; a failing
   piece fails the whole Apply (and nothing of the request is produced) *)
Lemma render_lit html s t data :
  render html (PLit s :: t) data = match render html t data with Some o => Some (s ++ o) | None => None end.
Proof.
  unfold render. cbn [exec_tmpl app]. rewrite exec_tmpl_app. cbn [app].
  destruct (exec_tmpl html t data []) as [o [|]]; reflexivity.
Qed.

Lemma render_chain html fs t data :
  render html (PChain fs :: t) data =
  match eval_chain fs (Some data) with
  | ChErr => None
  | ChVal v => match render html t data with Some o => Some (print_final html v ++ o) | None => None end
  end.
Proof.
  unfold render. cbn [exec_tmpl app]. destruct (eval_chain fs (Some data)); [|reflexivity].
  rewrite exec_tmpl_app. cbn [app]. destruct (exec_tmpl html t data []) as [o [|]]; reflexivity.
Qed.

Lemma render_func html r t data :
  render html (PFunc r :: t) data =
  match r with
  | None => None
  | Some s => match render html t data with Some o => Some (print_func html s ++ o) | None => None end
  end.
Proof.
  unfold render. cbn [exec_tmpl app]. destruct r; [|reflexivity].
  rewrite exec_tmpl_app. cbn [app]. destruct (exec_tmpl html t data []) as [o [|]]; reflexivity.
Qed.

(* a field chain through maps: the value at that path; a key that is missing anywhere gives
   "no value" and no error; a field of a string, slice or nil is an error *)
Lemma eval_chain_missing fs : eval_chain fs None = ChVal None.
Proof. induction fs; cbn; auto. Qed.

(* ---------- the pooled-builder variant is not the specification ---------- *)
Definition pool_call1 : tcall :=
  {| tc_scen := [115]%N; tc_step := [97]%N;
     tc_parts := {| pa_url := TOk [PLit [47;117;47]%N; PChain [[116]%N; [105]%N]; PLit [47;111]%N];
                    pa_hdrs := []; pa_body := None |};
     tc_data := TMap [([116]%N, TStr [120]%N)] |}.
Definition pool_call2 : tcall :=
  {| tc_scen := [115]%N; tc_step := [98]%N;
     tc_parts := {| pa_url := TOk [PLit [47;97]%N]; pa_hdrs := []; pa_body := None |};
     tc_data := TMap [] |}.

Lemma pooled_refuted :
  exists calls, consistent calls /\ hdrs_nodup calls /\
    run_applies_pooled false [] [] calls <> spec_applies false calls /\
    run_applies_pooled false [] [] calls
      = [ApErr AeExecUrl; ApOk {| rp_url := [47;117;47;47;97]%N; rp_hdrs := []; rp_body := None |}].
Proof.
  exists [pool_call1; pool_call2]. split; [|split; [|split]].
  - intros x y [<-|[<-|[]]] [<-|[<-|[]]]; cbn; intros; try reflexivity; discriminate.
  - intros x [<-|[<-|[]]]; cbn; constructor.
  - vm_compute. discriminate.
  - vm_compute. reflexivity.
Qed.

(* ---------- the scenario instance's X-Ref templates, evaluated by the templater model ---------- *)
Lemma tassoc_reqmap (m : reqmap bytes) r :
  tassoc (map (fun p => (fst p, tval_of_stepvars (snd p))) m) r = option_map tval_of_stepvars (rm_get m r).
Proof.
  induction m as [|[k v] m IH]; [reflexivity|]. cbn [map fst snd tassoc rm_get].
  destruct (beq k r); [reflexivity|exact IH].
Qed.

Lemma tassoc_vars (m : list (bytes * bytes)) k :
  tassoc (map (fun p => (fst p, TStr (snd p))) m) k = option_map TStr (assoc m k).
Proof.
  induction m as [|[a v] m IH]; [reflexivity|]. cbn [map fst snd tassoc assoc].
  destruct (beq a k); [reflexivity|exact IH].
Qed.

Lemma tassoc_stepvars_post (sv : stepvars bytes) :
  match tval_of_stepvars sv with
  | TMap l => tassoc l s_postproc = option_map tval_of_vars (sv_post sv)
  | _ => False
  end.
Proof.
  unfold tval_of_stepvars. destruct (sv_pre sv), (sv_post sv); reflexivity.
Qed.

Lemma chain_captured_tok src (t : ctree) r rest :
  eval_chain (s_request :: r :: s_postproc :: s_tok :: rest) (Some (tval_of_tree src t))
  = eval_chain rest (option_map TStr (c_captured_tok t r)).
Proof.
  unfold tval_of_tree, tval_of_reqmap, c_captured_tok.
  cbn [eval_chain]. change (tassoc _ s_request) with (Some (tval_of_reqmap (t_req t))).
  unfold tval_of_reqmap. cbn [eval_chain]. rewrite tassoc_reqmap.
  destruct (rm_get (t_req t) r) as [sv|]; cbn [option_map eval_chain].
  - pose proof (tassoc_stepvars_post sv) as H. destruct (tval_of_stepvars sv) as [| |l|]; try contradiction.
    rewrite H. destruct (sv_post sv) as [m|]; cbn [option_map eval_chain].
    + unfold tval_of_vars. now rewrite tassoc_vars.
    + now rewrite eval_chain_missing; destruct rest.
  - now rewrite eval_chain_missing; destruct rest.
Qed.

(* TRef r / TRefBad r of the shot model are what the templater model computes for the header
   templates {{.request.r.postprocessor.tok}} and v={{.request.r.postprocessor.tok.id}} on the
   tree of the step: the rendering decision follows the variable flow of THIS shot *)
Lemma render_ref src (t : ctree) r :
  render false (ref_tmpl r) (tval_of_tree src t)
  = Some (match c_captured_tok t r with Some v => v | None => s_novalue end).
Proof.
  unfold render, ref_tmpl. cbn [exec_tmpl]. rewrite chain_captured_tok. cbn [eval_chain].
  destruct (c_captured_tok t r); cbn; now rewrite ?app_nil_r.
Qed.

Lemma render_refbad html src (t : ctree) r :
  render html (refbad_tmpl r) (tval_of_tree src t)
  = match c_captured_tok t r with
    | Some _ => None
    | None => Some ([118;61]%N ++ (if html then [] else s_novalue))
    end.
Proof.
  unfold render, refbad_tmpl. cbn [exec_tmpl]. rewrite chain_captured_tok.
  destruct (c_captured_tok t r); cbn [option_map eval_chain]; [reflexivity|].
  cbn. destruct html; cbn; now rewrite ?app_nil_r.
Qed.

Lemma c_render_ref_spec rq (t : ctree) w src r :
  cq_tmpl rq = TRef r ->
  exists rd, c_render rq t w = (w, Some rd) /\
    render false (ref_tmpl r) (tval_of_tree src t)
    = Some (match rd_ref rd with Some (Some v) => v | _ => s_novalue end).
Proof.
  intros H. unfold c_render. rewrite H. eexists. split; [reflexivity|]. cbn [rd_ref].
  rewrite render_ref. destruct (c_captured_tok t r); reflexivity.
Qed.

Lemma c_render_refbad_spec rq (t : ctree) w src r :
  cq_tmpl rq = TRefBad r ->
  match snd (c_render rq t w) with
  | None => render (cq_html rq) (refbad_tmpl r) (tval_of_tree src t) = None
  | Some rd => rd_ref rd = Some (render (cq_html rq) (refbad_tmpl r) (tval_of_tree src t))
  end.
Proof.
  intros H. unfold c_render. rewrite H, render_refbad.
  destruct (c_captured_tok t r); reflexivity.
Qed.

Lemma render_refbad_fails_iff html src (t : ctree) r :
  render html (refbad_tmpl r) (tval_of_tree src t) = None <-> c_captured_tok t r <> None.
Proof.
  rewrite render_refbad. destruct (c_captured_tok t r); split; intros H; try discriminate; try reflexivity.
  now elim H.
Qed.
