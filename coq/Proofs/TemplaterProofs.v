(* Proofs about the templater model (Model/Templater.v): an Apply renders every part from the
   templates and the data of THAT call only, whatever the templater was used for before. *)
From Coq Require Import List NArith ZArith Bool Lia.
From PV Require Import Model.Iterator Model.Scenario Model.Templater Proofs.ScenarioParseProofs.
Import ListNotations.

(* ---------- Execute into a non-empty writer = prefix ++ Execute into an empty one ---------- *)
Lemma exec_tmpl_app html t data : forall buf,
  exec_tmpl html t data buf = (buf ++ fst (exec_tmpl html t data []), snd (exec_tmpl html t data [])).
Proof.
  induction t as [|p t IH]; intro buf; cbn [exec_tmpl].
  - cbn. now rewrite app_nil_r.
  - destruct p as [s|fs|[s|]].
    + rewrite (IH (buf ++ s)), (IH ([] ++ s)). cbn [app fst snd]. now rewrite app_assoc.
    + destruct (eval_chain fs (Some data)) as [v|].
      * rewrite (IH (buf ++ _)), (IH ([] ++ _)). cbn [app fst snd]. now rewrite app_assoc.
      * cbn. now rewrite app_nil_r.
    + rewrite (IH (buf ++ _)), (IH ([] ++ _)). cbn [app fst snd]. now rewrite app_assoc.
    + cbn. now rewrite app_nil_r.
Qed.

Lemma exec_tmpl_render html t data :
  exec_tmpl html t data [] = match render html t data with
                             | Some o => (o, true)
                             | None => (fst (exec_tmpl html t data []), false)
                             end.
Proof.
  unfold render. destruct (exec_tmpl html t data []) as [o [|]]; reflexivity.
Qed.

(* what a failing Execute leaves in the writer: the output of the pieces before the failing one *)
Fixpoint out_before (html : bool) (t : list piece) (data : tval) : bytes :=
  match t with
  | [] => []
  | PLit s :: r => s ++ out_before html r data
  | PChain fs :: r => match eval_chain fs (Some data) with
                      | ChErr => []
                      | ChVal v => print_final html v ++ out_before html r data
                      end
  | PFunc None :: _ => []
  | PFunc (Some s) :: r => print_func html s ++ out_before html r data
  end.

Lemma exec_tmpl_out html t data : fst (exec_tmpl html t data []) = out_before html t data.
Proof.
  induction t as [|p t IH]; cbn [exec_tmpl out_before]; [reflexivity|].
  destruct p as [s|fs|[s|]]; try reflexivity.
  - rewrite exec_tmpl_app. cbn [fst app]. now rewrite IH.
  - destruct (eval_chain fs (Some data)); [|reflexivity].
    rewrite exec_tmpl_app. cbn [fst app]. now rewrite IH.
  - rewrite exec_tmpl_app. cbn [fst app]. now rewrite IH.
Qed.

(* ---------- keys ---------- *)
Lemma tpart_eqb_eq a b : tpart_eqb a b = true <-> a = b.
Proof.
  destruct a, b; cbn; try (split; [discriminate|discriminate]); try tauto.
  unfold beq. rewrite seg_eqb_eq. split; [now intros ->|now intros [= ->]].
Qed.

Lemma tkey_eqb_eq a b : tkey_eqb a b = true <-> a = b.
Proof.
  destruct a as [[s1 n1] p1], b as [[s2 n2] p2]. cbn [tkey_eqb].
  rewrite !andb_true_iff. unfold beq. rewrite !seg_eqb_eq, tpart_eqb_eq.
  split; [intros [[-> ->] ->]; reflexivity|intros [= -> -> ->]; auto].
Qed.

Lemma cache_get_cons k t c k' :
  cache_get ((k, t) :: c) k' = if tkey_eqb k k' then Some t else cache_get c k'.
Proof. reflexivity. Qed.

(* ---------- the templates a description gives to a part ---------- *)
Fixpoint hdr_src (hs : list (bytes * tsrc)) (k : bytes) : option tsrc :=
  match hs with
  | [] => None
  | (a, s) :: r => if beq a k then Some s else hdr_src r k
  end.

Definition part_src (p : parts) (k : tpart) : option tsrc :=
  match k with
  | KUrl => Some (pa_url p)
  | KHdr h => hdr_src (pa_hdrs p) h
  | KBody => pa_body p
  end.

Lemma hdr_src_in hs : NoDup (map fst hs) -> forall k s, In (k, s) hs -> hdr_src hs k = Some s.
Proof.
  induction hs as [|[a s0] r IH]; intros ND k s HIn; [destruct HIn|].
  cbn [map fst] in ND. inversion ND as [|? ? Hn ND']; subst.
  cbn [hdr_src]. destruct HIn as [[= -> ->]|HIn].
  - unfold beq. now rewrite seg_eqb_refl.
  - destruct (beq a k) eqn:E.
    + unfold beq in E. apply seg_eqb_eq in E. subst a.
      exfalso. apply Hn. apply in_map_iff. now exists (k, s).
    + now apply IH.
Qed.

(* the description fixes the templates of a step: calls with the same (scenario, step) carry the
   same parts; header names of one request are distinct (they are keys of a Go map) *)
Definition consistent (calls : list tcall) : Prop :=
  forall x y, In x calls -> In y calls -> tc_scen x = tc_scen y -> tc_step x = tc_step y ->
              tc_parts x = tc_parts y.
Definition hdrs_nodup (calls : list tcall) : Prop :=
  forall x, In x calls -> NoDup (map fst (pa_hdrs (tc_parts x))).

(* every cached template is the one the remaining calls would hand in for that key *)
Definition Inv (c : cache) (calls : list tcall) : Prop :=
  forall s n pt t, cache_get c (s, n, pt) = Some t ->
  forall x, In x calls -> tc_scen x = s -> tc_step x = n ->
  forall src, part_src (tc_parts x) pt = Some src -> src = TOk t.

Lemma Inv_tail c x rest : Inv c (x :: rest) -> Inv c rest.
Proof. intros H s n pt t Hg y Hy. apply (H s n pt t Hg y). now right. Qed.

Lemma get_template_ok c calls x pt src :
  Inv c calls -> consistent calls -> In x calls ->
  part_src (tc_parts x) pt = Some src ->
  exists c', get_template c src (tc_scen x, tc_step x, pt)
             = (c', match src with TOk t => Some t | TUnparsable => None end)
             /\ Inv c' calls.
Proof.
  intros HI HC Hx Hp. unfold get_template.
  destruct (cache_get c (tc_scen x, tc_step x, pt)) as [t|] eqn:G.
  - pose proof (HI _ _ _ _ G x Hx eq_refl eq_refl src Hp) as E. subst src. now exists c.
  - destruct src as [ps|]; [|now exists c].
    eexists; split; [reflexivity|].
    intros s n pt' t Hg y Hy Hs Hn src' Hp'.
    rewrite cache_get_cons in Hg.
    destruct (tkey_eqb (tc_scen x, tc_step x, pt) (s, n, pt')) eqn:E.
    + apply tkey_eqb_eq in E. injection E as E1 E2 E3. injection Hg as <-.
      subst pt'. assert (tc_parts y = tc_parts x) as Hpp by (apply HC; auto; congruence).
      rewrite Hpp in Hp'. congruence.
    + now apply (HI s n pt' t Hg y Hy Hs Hn).
Qed.

Lemma apply_hdrs_ok html calls x data :
  consistent calls -> In x calls ->
  forall hs c acc,
  Inv c calls ->
  (forall k s, In (k, s) hs -> part_src (tc_parts x) (KHdr k) = Some s) ->
  exists c' b', apply_hdrs html c (tc_scen x) (tc_step x) hs data [] acc
                = (c', b', match spec_hdrs html hs data with
                           | Some l => Some (acc ++ l)
                           | None => None
                           end)
                /\ Inv c' calls /\ (spec_hdrs html hs data <> None -> b' = []).
Proof.
  intros HC Hx. induction hs as [|[k src] rest IH]; intros c acc HI Hsrc.
  - exists c, []. cbn. rewrite app_nil_r. auto.
  - cbn [apply_hdrs spec_hdrs].
    destruct (get_template_ok c calls x (KHdr k) src HI HC Hx (Hsrc k src (or_introl eq_refl)))
      as (c1 & -> & HI1).
    destruct src as [t|].
    + rewrite exec_tmpl_render. destruct (render html t data) as [v|].
      * destruct (IH c1 (acc ++ [(k, v)]) HI1) as (c2 & b2 & -> & HI2 & Hb).
        { intros k' s' H'. apply Hsrc. now right. }
        exists c2, b2. destruct (spec_hdrs html rest data) as [l|].
        -- rewrite <- app_assoc. cbn [app]. split; [reflexivity|]. split; [assumption|].
           intros _. apply Hb. discriminate.
        -- split; [reflexivity|]. split; [assumption|]. intros H; now elim H.
      * eexists c1, _. split; [reflexivity|]. split; [assumption|]. intros H; now elim H.
    + exists c1, []. split; [reflexivity|]. split; [assumption|]. intros H; now elim H.
Qed.

Lemma apply_go_ok html calls x c :
  consistent calls -> hdrs_nodup calls -> In x calls -> Inv c calls ->
  exists c', apply_go html c (tc_scen x) (tc_step x) (tc_parts x) (tc_data x)
             = (c', apply_spec html (tc_parts x) (tc_data x)) /\ Inv c' calls.
Proof.
  intros HC HN Hx HI. unfold apply_go, apply_from, apply_spec.
  destruct (get_template_ok c calls x KUrl (pa_url (tc_parts x)) HI HC Hx eq_refl) as (c1 & -> & HI1).
  destruct (pa_url (tc_parts x)) as [tu|]; [|now exists c1].
  rewrite exec_tmpl_render. destruct (render html tu (tc_data x)) as [url|]; [|now exists c1].
  destruct (apply_hdrs_ok html calls x (tc_data x) HC Hx (pa_hdrs (tc_parts x)) c1 [] HI1)
    as (c2 & b2 & -> & HI2 & Hb).
  { intros k s HIn. cbn [part_src]. now apply hdr_src_in; [apply HN|]. }
  destruct (spec_hdrs html (pa_hdrs (tc_parts x)) (tc_data x)) as [hdrs|]; [|now exists c2].
  cbn [app]. rewrite (Hb ltac:(discriminate)).
  destruct (pa_body (tc_parts x)) as [src|] eqn:EB; [|now exists c2].
  destruct (get_template_ok c2 calls x KBody src HI2 HC Hx EB) as (c3 & -> & HI3).
  destruct src as [tb|]; [|now exists c3].
  rewrite exec_tmpl_render. destruct (render html tb (tc_data x)); now exists c3.
Qed.

Lemma run_applies_spec_gen html : forall calls c,
  consistent calls -> hdrs_nodup calls -> Inv c calls ->
  run_applies html c calls = spec_applies html calls.
Proof.
  induction calls as [|x rest IH]; intros c HC HN HI; [reflexivity|].
  cbn [run_applies spec_applies map].
  destruct (apply_go_ok html (x :: rest) x c HC HN (or_introl eq_refl) HI) as (c1 & -> & HI1).
  f_equal. apply IH.
  - intros a b Ha Hb. apply HC; now right.
  - intros a Ha. apply HN. now right.
  - now apply Inv_tail with x.
Qed.

(* Any history of Apply calls on one templater that starts with an empty cache: the i-th result
   is the specified rendering of the i-th call's own templates on the i-th call's own data —
   nothing an earlier call did (successful or failed, same or another step / scenario) shows. *)
Theorem run_applies_spec html calls :
  consistent calls -> hdrs_nodup calls ->
  run_applies html [] calls = spec_applies html calls.
Proof.
  intros HC HN. apply run_applies_spec_gen; auto.
  intros s n pt t Hg. discriminate.
Qed.

(* the specified rendering itself: a part is the concatenation of its pieces' outputs; a failing
   piece fails the whole Apply (and nothing of the request is produced) *)
Lemma render_lit html s t data :
  render html (PLit s :: t) data = match render html t data with Some o => Some (s ++ o) | None => None end.
Proof.
  unfold render. cbn [exec_tmpl app]. rewrite exec_tmpl_app. cbn [app].
  destruct (exec_tmpl html t data []) as [o [|]]; reflexivity.
Qed.

Lemma render_chain html fs t data :
  render html (PChain fs :: t) data =
  match eval_chain fs (Some data) with
  | ChErr => None
  | ChVal v => match render html t data with Some o => Some (print_final html v ++ o) | None => None end
  end.
Proof.
  unfold render. cbn [exec_tmpl app]. destruct (eval_chain fs (Some data)); [|reflexivity].
  rewrite exec_tmpl_app. cbn [app]. destruct (exec_tmpl html t data []) as [o [|]]; reflexivity.
Qed.

Lemma render_func html r t data :
  render html (PFunc r :: t) data =
  match r with
  | None => None
  | Some s => match render html t data with Some o => Some (print_func html s ++ o) | None => None end
  end.
Proof.
  unfold render. cbn [exec_tmpl app]. destruct r; [|reflexivity].
  rewrite exec_tmpl_app. cbn [app]. destruct (exec_tmpl html t data []) as [o [|]]; reflexivity.
Qed.

(* a field chain through maps: the value at that path; a key that is missing anywhere gives
   "no value" and no error; a field of a string, slice or nil is an error *)
Lemma eval_chain_missing fs : eval_chain fs None = ChVal None.
Proof. induction fs; cbn; auto. Qed.

(* ---------- the pooled-builder variant is not the specification ---------- *)
Definition pool_call1 : tcall :=
  {| tc_scen := [115]%N; tc_step := [97]%N;
     tc_parts := {| pa_url := TOk [PLit [47;117;47]%N; PChain [[116]%N; [105]%N]; PLit [47;111]%N];
                    pa_hdrs := []; pa_body := None |};
     tc_data := TMap [([116]%N, TStr [120]%N)] |}.
Definition pool_call2 : tcall :=
  {| tc_scen := [115]%N; tc_step := [98]%N;
     tc_parts := {| pa_url := TOk [PLit [47;97]%N]; pa_hdrs := []; pa_body := None |};
     tc_data := TMap [] |}.

Lemma pooled_refuted :
  exists calls, consistent calls /\ hdrs_nodup calls /\
    run_applies_pooled false [] [] calls <> spec_applies false calls /\
    run_applies_pooled false [] [] calls
      = [ApErr AeExecUrl; ApOk {| rp_url := [47;117;47;47;97]%N; rp_hdrs := []; rp_body := None |}].
Proof.
  exists [pool_call1; pool_call2]. split; [|split; [|split]].
  - intros x y [<-|[<-|[]]] [<-|[<-|[]]]; cbn; intros; try reflexivity; discriminate.
  - intros x [<-|[<-|[]]]; cbn; constructor.
  - vm_compute. discriminate.
  - vm_compute. reflexivity.
Qed.
