(* Proofs for property C01, list profiles (`rps: [...]`, Model/SchedList.v): drained by one
   consumer, the composite of the parts' leaves is the succession of the parts - part j's own
   stream shifted by the sum of the durations of the parts before it -, it finishes at the sum of
   all durations and Left() is the sum of the parts' counts. *)
From Coq Require Import ZArith QArith Lia List Bool.
From PV Require Import Model.Sched Model.SchedList Proofs.SchedProofs Proofs.SchedStep.
Import ListNotations.
Local Open Scope Z_scope.

Lemma shift_shift a b x : shift a (shift b x) = shift (a + b) x.
Proof. destruct x; cbn; [f_equal; lia|reflexivity]. Qed.

Lemma comp_finish_shift ls : forall s, comp_finish ls s = s + comp_finish ls 0.
Proof.
  induction ls as [|l r IH]; intros s; cbn [comp_finish]; [lia|].
  rewrite (IH (s + l_dur l)), (IH (0 + l_dur l)). lia.
Qed.

Lemma comp_tokens_shift ls : forall s, comp_tokens ls s = map (shift s) (comp_tokens ls 0).
Proof.
  induction ls as [|l r IH]; intros s; cbn [comp_tokens]; [reflexivity|].
  rewrite map_app, !map_map. f_equal.
  - apply map_ext. intros x. rewrite shift_shift. f_equal. lia.
  - rewrite (IH (s + l_dur l)), (IH (0 + l_dur l)), map_map. apply map_ext. intros x.
    rewrite shift_shift. f_equal.
Qed.

Lemma comp_finish_app a : forall b s, comp_finish (a ++ b) s = comp_finish b (comp_finish a s).
Proof. induction a as [|l r IH]; intros b s; cbn [app comp_finish]; [reflexivity|apply IH]. Qed.

Lemma comp_tokens_app a : forall b s,
  comp_tokens (a ++ b) s = comp_tokens a s ++ comp_tokens b (comp_finish a s).
Proof.
  induction a as [|l r IH]; intros b s; cbn [app comp_tokens comp_finish]; [reflexivity|].
  rewrite IH, app_assoc. reflexivity.
Qed.

Lemma comp_left_app a b : comp_left (a ++ b) = comp_left a + comp_left b.
Proof. induction a as [|l r IH]; cbn [app comp_left]; [reflexivity|rewrite IH; lia]. Qed.

(* the specification's stream of a list: the parts' own streams one after another *)
Definition part_tokens (p : profile) : list (option Z) :=
  match drain p with Some d => d_tokens d | None => [] end.
Definition part_left (p : profile) : Z :=
  match drain p with Some d => d_left d | None => 0 end.

Fixpoint list_tokens (ps : list profile) (start : Z) : list (option Z) :=
  match ps with
  | [] => []
  | p :: r => map (shift start) (part_tokens p) ++ list_tokens r (start + spec_finish p)
  end.

Fixpoint list_left (ps : list profile) : Z :=
  match ps with
  | [] => 0
  | p :: r => part_left p + list_left r
  end.

(* every valid part can be built, and finishes after exactly its documented duration *)
Lemma leaves_finish p : valid p ->
  exists ls, leaves p = Some ls /\ comp_finish ls 0 = spec_finish p.
Proof.
  destruct p as [ops D|f t D|f t st D|n]; intros Hv.
  - eexists. split; [reflexivity|]. cbn. lia.
  - eexists. split; [reflexivity|]. cbn [comp_finish spec_finish]. unfold leaf_line.
    destruct (Qeq_bool f t); cbn; lia.
  - destruct (step_drain f t st D Hv) as (d & Hd & _ & Hfin & _).
    unfold drain in Hd. destruct (leaves (PStep f t st D)) as [ls|]; [|discriminate].
    exists ls. split; [reflexivity|]. inversion Hd; subst d. cbn [d_finish] in Hfin.
    cbn [spec_finish]. exact Hfin.
  - eexists. split; [reflexivity|]. cbn. lia.
Qed.

Theorem list_drain_spec ps : Forall valid ps ->
  exists ls, list_leaves ps = Some ls /\
    (forall s, comp_tokens ls s = list_tokens ps s) /\
    (forall s, comp_finish ls s = s + list_spec_finish ps) /\
    comp_left ls = list_left ps.
Proof.
  induction 1 as [|p r Hp _ IH].
  - exists []. cbn. split; [reflexivity|]. split; [reflexivity|]. split; [intros; lia|reflexivity].
  - destruct IH as (lr & Er & Tr & Fr & Lr).
    destruct (leaves_finish p Hp) as (lp & Ep & Fp).
    exists (lp ++ lr). cbn [list_leaves]. rewrite Ep, Er. split; [reflexivity|].
    assert (Hd : drain p = Some {| d_left := comp_left lp; d_tokens := comp_tokens lp 0; d_finish := comp_finish lp 0 |})
      by (unfold drain; rewrite Ep; reflexivity).
    split; [|split].
    + intros s. rewrite comp_tokens_app. cbn [list_tokens]. unfold part_tokens. rewrite Hd. cbn [d_tokens].
      rewrite <- comp_tokens_shift. f_equal. rewrite Tr. f_equal.
      rewrite comp_finish_shift, Fp. reflexivity.
    + intros s. rewrite comp_finish_app, Fr. cbn [list_spec_finish].
      rewrite comp_finish_shift, Fp. lia.
    + rewrite comp_left_app, Lr. cbn [list_left]. unfold part_left. rewrite Hd. reflexivity.
Qed.

Theorem list_drain_ok ps : Forall valid ps ->
  exists d, list_drain ps = Some d /\
    d_tokens d = list_tokens ps 0 /\ d_finish d = list_spec_finish ps /\ d_left d = list_left ps.
Proof.
  intros Hv. destruct (list_drain_spec ps Hv) as (ls & E & T & F & L).
  unfold list_drain. rewrite E. eexists. split; [reflexivity|]. cbn [d_tokens d_finish d_left].
  split; [apply T|]. split; [rewrite F; lia|exact L].
Qed.

(* a list of one part is that part; of no part, nothing (NewComposite() = NewOnce(0)) *)
Lemma list_single p : valid p -> list_drain [p] = drain p.
Proof.
  intros Hv. destruct (leaves_finish p Hv) as (lp & Ep & _).
  unfold list_drain, drain. cbn [list_leaves]. rewrite Ep, app_nil_r. reflexivity.
Qed.

(* every operation of every leaf of a valid profile has an instant (no NaN): what lets the leaves be
   read as the DoAt leaves of the concurrent model (Proofs/SchedShare.v) *)
Definition defined (l : leaf) : Prop := forall k, 0 <= k < l_n l -> l_at l k <> None.

Lemma leaves_defined p ls : valid p -> leaves p = Some ls -> Forall defined ls.
Proof.
  destruct p as [ops D|f t D|f t st D|n]; intros Hv E.
  - inversion E; subst. repeat constructor. intros k _. cbn. discriminate.
  - inversion E; subst. repeat constructor. intros k Hk.
    destruct (at_bracket (PLine f t D) k Hv eq_refl Hk) as (x & Hx & _).
    unfold at_, the_leaf in Hx. rewrite Hx. discriminate.
  - cbn [leaves] in E. destruct (step_levels f t st) as [lv|]; [|discriminate].
    inversion E; subst. apply Forall_forall. intros l Hl. apply in_map_iff in Hl.
    destruct Hl as (r & <- & _). intros k _. cbn. discriminate.
  - inversion E; subst. repeat constructor. intros k _. cbn. discriminate.
Qed.

Lemma list_leaves_defined ps : forall ls, Forall valid ps -> list_leaves ps = Some ls -> Forall defined ls.
Proof.
  induction ps as [|p r IH]; intros ls Hv E.
  - inversion E; subst. constructor.
  - inversion Hv as [|? ? Hp Hr]; subst. cbn [list_leaves] in E.
    destruct (leaves p) as [a|] eqn:Ea; [|discriminate].
    destruct (list_leaves r) as [b|] eqn:Eb; [|discriminate].
    inversion E; subst. apply Forall_app. split; [eapply leaves_defined; eauto|apply IH; auto].
Qed.
