(* C02: what the abstract token stream guarantees (the property text, on [item] lists). *)
From Coq Require Import List ZArith Bool Arith Lia.
From PV Require Import Model.SchedTree Proofs.SchedTreeProofs Proofs.SchedTreeSeq.
Import ListNotations.
Local Open Scope Z_scope.

(* ---------- Left ---------- *)
Lemma abs_left_zero_iff now f its :
  abs_left now its = 0 <-> snd (abs_next now f its) = false.
Proof.
  rewrite an_dc. unfold abs_left.
  destruct (drop_closed now its) as [|x r] eqn:E.
  - cbn. tauto.
  - assert (H : snd (abs_next now f (x :: r)) = true).
    { destruct x as [t|s0 g]; [reflexivity|].
      (* the head of a drop_closed result is an open window *)
      assert (O : now <? g = true).
      { clear -E. induction its as [|y q IH]; [discriminate|].
        destruct y as [u|s1 h]; cbn [drop_closed] in E; [discriminate|].
        destruct (now <? h) eqn:L; [inversion E; subst; exact L|auto]. }
      cbn [abs_next]. rewrite O. reflexivity. }
    rewrite H. split; [|discriminate].
    destruct (existsb is_window (x :: r)); [discriminate|]. cbn [length]. lia.
Qed.

Lemma abs_left_neg_iff now its :
  abs_left now its < 0 <-> existsb is_window (drop_closed now its) = true.
Proof.
  unfold abs_left. destruct (existsb is_window (drop_closed now its)); split; intros; try lia; auto; discriminate.
Qed.

(* a token drawn while the count is known lowers it by exactly one *)
Lemma abs_left_drops now f its its' t :
  0 <= abs_left now its -> abs_next now f its = (its', t, true) ->
  abs_left now its' = abs_left now its - 1.
Proof.
  rewrite an_dc. unfold abs_left.
  destruct (existsb is_window (drop_closed now its)) eqn:W; [lia|]. intros _.
  destruct (drop_closed now its) as [|x r] eqn:E; [discriminate|].
  destruct x as [u|s0 g]; [|discriminate].
  cbn [abs_next]. intros H; inversion H; subst.
  cbn [existsb is_window orb] in W.
  rewrite (no_window_dc now its' W), W. cbn [length]. lia.
Qed.

(* ---------- exhaustion is stable ---------- *)
Lemma abs_finish_stable now f its its' t :
  abs_next now f its = (its', t, false) ->
  t = f /\ forall now', abs_next now' f its' = ([], f, false).
Proof. intros H. apply an_fail in H. destruct H as (-> & -> & _). split; reflexivity. Qed.

(* ---------- successive Next calls of one caller ---------- *)
Fixpoint nexts (nows : list Z) (f : Z) (its : list item) : list (Z * bool) :=
  match nows with
  | [] => []
  | now :: r => let '(its', t, ok) := abs_next now f its in (t, ok) :: nexts r f its'
  end.

Definition tok_time (x : item) : Z := match x with IT t => t | IW _ g => g end.

(* without unlimited parts: the calls return exactly the tokens, in order, each once, and
   then the finish time for ever *)
Lemma nexts_tokens : forall nows f its, existsb is_window its = false ->
  nexts nows f its =
  firstn (length nows) (map (fun x => (tok_time x, true)) its) ++
  repeat (f, false) (length nows - length its).
Proof.
  induction nows as [|now r IH]; intros f its W; [reflexivity|].
  destruct its as [|x q].
  - cbn [nexts abs_next]. rewrite (IH f [] eq_refl). cbn [map length]. rewrite !firstn_nil. cbn [app].
    rewrite !Nat.sub_0_r. reflexivity.
  - destruct x as [t|s0 g]; [|discriminate]. cbn [existsb is_window orb] in W.
    cbn [nexts abs_next]. rewrite (IH f q W). reflexivity.
Qed.

(* ---------- times never decrease ---------- *)
(* [ordered lo m its fin]: the remaining stream is sorted above [lo]; [m] is a lower bound of the
   clock.  A window [st,fin) answers max(now,st): it is above [lo] as soon as lo <= max m st. *)
Fixpoint ordered (lo m : Z) (its : list item) (fin : Z) : Prop :=
  match its with
  | [] => lo <= fin
  | IT t :: r => lo <= t /\ ordered t m r fin
  | IW s g :: r => lo <= g /\ s <= g /\ lo <= Z.max m s /\ ordered g m r fin
  end.

Fixpoint nondecr (last : Z) (l : list (Z * bool)) : Prop :=
  match l with [] => True | (t, _) :: r => last <= t /\ nondecr t r end.

Fixpoint clock_mono (m : Z) (nows : list Z) : Prop :=
  match nows with [] => True | now :: r => m <= now /\ clock_mono now r end.

Lemma ordered_clock lo m m' its f : m <= m' -> ordered lo m its f -> ordered lo m' its f.
Proof.
  intros L. revert lo. induction its as [|x r IH]; intros lo O; cbn [ordered] in *; [exact O|].
  destruct x as [t|s g].
  - destruct O; split; auto.
  - destruct O as (A & B & C & D). repeat split; auto; lia.
Qed.

Lemma next_ordered now f : forall its lo m its' t ok,
  ordered lo m its f -> m <= now -> abs_next now f its = (its', t, ok) -> lo <= t /\ ordered t now its' f.
Proof.
  induction its as [|x r IH]; intros lo m its' t ok O L H; cbn [abs_next] in H.
  - inversion H; subst. cbn in *. split; lia.
  - destruct x as [u|s g]; cbn [ordered] in O.
    + destruct O as [O1 O2]. inversion H; subst. split; [assumption|]. eapply ordered_clock; eauto.
    + destruct O as (A & B & C & D). destruct (now <? g) eqn:E.
      * inversion H; subst. apply Z.ltb_lt in E. split; [lia|]. cbn [ordered].
        repeat split; try lia. eapply ordered_clock; eauto.
      * apply Z.ltb_ge in E. destruct (IH g m its' t ok D L H) as [X Y]. split; [lia|exact Y].
Qed.

(* the times returned by successive Next calls never decrease, for every non-decreasing clock *)
Lemma nexts_nondecr : forall nows f its lo m,
  ordered lo m its f -> clock_mono m nows -> nondecr lo (nexts nows f its).
Proof.
  induction nows as [|now r IH]; intros f its lo m O C; [exact I|].
  cbn [nexts clock_mono] in *. destruct C as [L C].
  destruct (abs_next now f its) as [[its' t] ok] eqn:E.
  destruct (next_ordered now f its lo m its' t ok O L E) as [A B].
  cbn [nondecr]. split; [exact A|]. eapply IH; eauto.
Qed.

(* the stream of a configuration is ordered when every leaf is well behaved *)
Definition leaf_ok (x : sched) : Prop :=
  match x with
  | DoAt n d a _ _ => 0 <= d /\ (forall k, (k < n)%nat -> 0 <= a k <= d) /\
                      (forall j k, (j <= k)%nat -> (k < n)%nat -> a j <= a k)
  | Unlim d _ => 0 <= d
  | Comp _ _ _ => False
  end.

Definition unstarted (x : sched) : Prop :=
  match x with DoAt _ _ _ i None => i = 0%nat | Unlim _ None => True | _ => False end.

Lemma ordered_lower lo lo' m its f : lo <= lo' -> ordered lo' m its f -> ordered lo m its f.
Proof.
  destruct its as [|x r]; cbn [ordered]; [lia|]. destruct x as [t|s g].
  - intros L [A B]. split; [lia|exact B].
  - intros L (A & B & C & D). repeat split; auto; lia.
Qed.

Lemma ordered_app lo m a b f mid :
  ordered lo m a mid -> ordered mid m b f -> ordered lo m (a ++ b) f.
Proof.
  revert lo. induction a as [|x r IH]; intros lo Oa Ob; cbn [app ordered] in *.
  - eapply ordered_lower; eauto.
  - destruct x as [t|s g].
    + destruct Oa. split; [assumption|]. apply IH; assumption.
    + destruct Oa as (A & B & C & D). repeat split; auto.
Qed.

(* without unlimited parts no assumption on the clock is needed *)
Lemma next_ordered_nowin now f : forall its lo m its' t ok,
  existsb is_window its = false -> ordered lo m its f -> abs_next now f its = (its', t, ok) ->
  lo <= t /\ ordered t m its' f /\ existsb is_window its' = false.
Proof.
  intros its lo m its' t ok W O H. destruct its as [|x r]; cbn [abs_next] in H.
  - inversion H; subst. cbn in *. repeat split; lia.
  - destruct x as [u|s g]; [|discriminate]. inversion H; subst. destruct O. cbn in W. repeat split; assumption.
Qed.

Lemma nexts_nondecr_nowin : forall nows f its lo m,
  existsb is_window its = false -> ordered lo m its f -> nondecr lo (nexts nows f its).
Proof.
  induction nows as [|now r IH]; intros f its lo m W O; [exact I|].
  cbn [nexts]. destruct (abs_next now f its) as [[its' t] ok] eqn:E.
  destruct (next_ordered_nowin now f its lo m its' t ok W O E) as (A & B & C).
  cbn [nondecr]. split; [exact A|]. eapply IH; eauto.
Qed.

Lemma ordered_tokens s0 (a : nat -> Z) n d m : forall i lo,
  (forall k, (k < n)%nat -> 0 <= a k <= d) ->
  (forall j k, (j <= k)%nat -> (k < n)%nat -> a j <= a k) ->
  0 <= d -> (i <= n)%nat ->
  lo <= s0 + d -> (forall k, (i <= k)%nat -> (k < n)%nat -> lo <= s0 + a k) ->
  ordered lo m (map (fun k => IT (s0 + a k)) (seq i (n - i))) (s0 + d).
Proof.
  intros i lo B M D. remember (n - i)%nat as k0 eqn:Em. revert i lo Em.
  induction k0 as [|k0 IH]; intros i lo Em Li L1 L2; cbn [seq map ordered].
  - exact L1.
  - split; [apply L2; lia|].
    apply IH; try lia.
    + specialize (B i ltac:(lia)). lia.
    + intros k K1 K2. specialize (M i k ltac:(lia) K2). lia.
Qed.

Lemma items_ordered : forall fl p m,
  Forall leaf_ok fl -> Forall unstarted fl ->
  ordered p m (fst (items_from p fl)) (snd (items_from p fl)).
Proof.
  induction fl as [|x r IH]; intros p m Ho Hu; [cbn; lia|].
  inversion Ho as [|? ? Ox Or]; subst. inversion Hu as [|? ? Ux Ur]; subst.
  destruct x as [n d a i [t|]|d [g|]|l la cs]; cbn [leaf_ok unstarted] in *; try tauto.
  - subst i. destruct Ox as (D & B & M). cbn [items_from].
    specialize (IH (p + d) m Or Ur). destruct (items_from (p + d) r) as [its f]. cbn [fst snd] in *.
    apply (ordered_app p m _ its f (p + d)); [|exact IH].
    apply ordered_tokens; auto; try lia.
    intros k _ K. specialize (B k K). lia.
  - cbn [items_from]. specialize (IH (p + d) m Or Ur). destruct (items_from (p + d) r) as [its f].
    cbn [fst snd ordered] in *. repeat split; try lia. exact IH.
Qed.

(* ---------- each part starts at the finish time of the part before it ---------- *)
Lemma items_chain_doat p n d a r :
  items_from p (DoAt n d a 0 None :: r) =
  (map (fun k => IT (p + a k)) (seq 0 n) ++ fst (items_from (p + d) r), snd (items_from (p + d) r)).
Proof. cbn [items_from]. destruct (items_from (p + d) r). rewrite Nat.sub_0_r. reflexivity. Qed.

Lemma items_chain_unl p d r :
  items_from p (Unlim d None :: r) =
  (IW (p + d - d) (p + d) :: fst (items_from (p + d) r), snd (items_from (p + d) r)).
Proof. cbn [items_from]. destruct (items_from (p + d) r). reflexivity. Qed.

(* ---------- instance_step ---------- *)
Fixpoint istep_items (p : Z) (k : nat) (step : nat) (dur : Z) : list item :=
  match k with
  | O => []
  | S k' => repeat (IT (p + dur)) step ++ istep_items (p + dur) k' step dur
  end.

Lemma map_const_repeat (c : item) l : map (fun _ : nat => c) l = repeat c (length l).
Proof. induction l; cbn; congruence. Qed.

Lemma istep_parts_items : forall k p step dur,
  items_from p (flat_map flatten_cfg (istep_parts k step dur)) =
  (istep_items p k step dur, p + Z.of_nat k * dur).
Proof.
  induction k as [|k IH]; intros p step dur; [cbn; f_equal; lia|].
  cbn [istep_parts flat_map flatten_cfg app]. rewrite items_chain_doat, items_chain_doat.
  cbn [seq map app fst snd]. replace (p + dur + 0) with (p + dur) by lia. rewrite IH. cbn [fst snd istep_items].
  rewrite (map_const_repeat (IT (p + dur))), seq_length. f_equal. lia.
Qed.

Lemma instance_step_items p from to step dur :
  items_from p (flatten_cfg (instance_step from to step dur)) =
  (repeat (IT p) from ++ istep_items p (istep_iters from to step) step dur,
   p + Z.of_nat (istep_iters from to step) * dur).
Proof.
  unfold instance_step. cbn [flatten_cfg flat_map app].
  rewrite items_chain_doat. replace (p + 0) with p by lia. rewrite istep_parts_items. cbn [fst snd].
  rewrite (map_const_repeat (IT p)), seq_length. reflexivity.
Qed.

(* number of steps: the j >= 1 with from + j*step <= to *)
Lemma istep_iters_spec from to step j : (0 < step)%nat ->
  ((1 <= j /\ from + j * step <= to) <-> (1 <= j <= istep_iters from to step))%nat.
Proof.
  intros S. unfold istep_iters. destruct (Nat.eqb_spec step 0) as [E|E]; [lia|].
  split.
  - intros [J1 J2]. split; [exact J1|]. apply Nat.div_le_lower_bound; [exact E|]. lia.
  - intros [J1 J2]. split; [exact J1|].
    assert (H := Nat.mul_div_le (to - from) step E).
    assert (j * step <= step * ((to - from) / step))%nat by (rewrite Nat.mul_comm; apply Nat.mul_le_mono_l; exact J2).
    assert (1 * step <= j * step)%nat by (apply Nat.mul_le_mono_r; exact J1).
    lia.
Qed.
