(* Lemmas about the run loop of the encoder aggregator (Model/EncAggrRun.v). *)
From Coq Require Import List Arith Bool Lia.
From PV Require Import Model.EncAggrRun.
Import ListNotations.

Lemma forallb_find_neg : forall (A : Type) (f : A -> bool) l,
  forallb f l = match find (fun x => negb (f x)) l with None => true | Some _ => false end.
Proof.
  intros A f l. induction l as [|a r IH]; cbn; [reflexivity|].
  destruct (f a); cbn; [exact IH|reflexivity].
Qed.

Lemma ea_drain_spec : forall q, ea_drain q = if forallb (fun b => b) q then None else Some EcEncode.
Proof. induction q as [|[|] r IH]; cbn; [reflexivity|exact IH|reflexivity]. Qed.

Lemma ea_handle_tree : forall evs q,
  ea_handle tree_epolicy evs q =
  match find (fun x => negb (ev_ok x)) evs with Some x => Some (ev_cause x) | None => ea_drain q end.
Proof.
  induction evs as [|[[|]|[|] [|]] r IH]; intros q; cbn; try reflexivity; apply IH.
Qed.

Lemma ea_run_tree_nil_iff : forall e, ea_run tree_epolicy e = [] <-> ea_spec_fails e = false.
Proof.
  intros [o evs q f c d]. unfold ea_run, ea_spec_fails, ea_all_ok, ea_join. cbn [ea_open ea_events ea_queued ea_final ea_close ea_dropped].
  destruct o; cbn [negb andb]; [|split; discriminate].
  rewrite ea_handle_tree, ea_drain_spec, (forallb_find_neg _ ev_ok evs).
  destruct (find (fun x => negb (ev_ok x)) evs); cbn [andb negb].
  - split; [|discriminate]. destruct f, c, d; cbn; discriminate.
  - destruct (forallb (fun b => b) q); cbn [andb negb]; destruct f, c, d; cbn; split; (reflexivity || discriminate).
Qed.

Lemma ea_run_failure_iff_spec : forall e,
  negb (match ea_run tree_epolicy e with [] => true | _ => false end) = ea_spec_fails e.
Proof.
  intros e. pose proof (ea_run_tree_nil_iff e) as [H1 H2].
  destruct (ea_run tree_epolicy e) eqn:E; destruct (ea_spec_fails e) eqn:S; cbn; try reflexivity.
  - specialize (H1 eq_refl). discriminate.
  - specialize (H2 eq_refl). discriminate.
Qed.

Lemma ea_run_first_cause : forall e, hd_error (ea_run tree_epolicy e) = ea_spec_first e.
Proof.
  intros [o evs q f c d]. unfold ea_run, ea_spec_first, ea_join. cbn [ea_open ea_events ea_queued ea_final ea_close ea_dropped].
  destruct o; cbn [negb]; [|reflexivity].
  rewrite ea_handle_tree, ea_drain_spec.
  destruct (find (fun x => negb (ev_ok x)) evs).
  - destruct f, c, d; reflexivity.
  - destruct (forallb (fun b => b) q); destruct f, c, d; reflexivity.
Qed.

Lemma In_join : forall acc ok c x, In x (ea_join acc ok c) -> In x acc \/ (ok = false /\ x = c).
Proof.
  intros acc ok c x H. unfold ea_join in H. destruct ok; [left; exact H|].
  apply in_app_or in H. destruct H as [H|[H|[]]]; [left; exact H|right; split; [reflexivity|symmetry; exact H]].
Qed.

(* no invented failure: whatever the returned error carries did go wrong *)
Lemma ea_run_sound : forall e c, In c (ea_run tree_epolicy e) -> ea_occurs e c = true.
Proof.
  intros [o evs q f cl d] c. unfold ea_run. cbn [ea_open ea_events ea_queued ea_final ea_close ea_dropped].
  destruct o; cbn [negb].
  2:{ intros [<-|[]]. reflexivity. }
  intros H. apply In_join in H. destruct H as [H|[Hd ->]]; [|cbn; destruct d; [reflexivity|discriminate]].
  apply In_join in H. destruct H as [H|[Hc ->]]; [|cbn; rewrite Hc; reflexivity].
  apply In_join in H. destruct H as [H|[Hf ->]]; [|cbn; rewrite Hf; reflexivity].
  rewrite ea_handle_tree, ea_drain_spec in H.
  destruct (find (fun x => negb (ev_ok x)) evs) as [x|] eqn:F.
  - destruct H as [<-|[]]. apply find_some in F. destruct F as [Hin Hx].
    destruct x as [ok|fl ok]; cbn [ev_cause ea_occurs ea_events ea_queued].
    + apply orb_true_iff. left. apply existsb_exists. exists (EvSample ok). split; [exact Hin|exact Hx].
    + apply existsb_exists. exists (EvTick fl ok). split; [exact Hin|exact Hx].
  - destruct (forallb (fun b => b) q) eqn:Q; [destruct H|]. destruct H as [<-|[]].
    cbn [ea_occurs ea_events ea_queued]. rewrite Q. apply orb_true_r.
Qed.

(* a failing periodic flush is what the run reports, whatever comes after it *)
Lemma ea_periodic_flush_failure_reported : forall e pre post,
  ea_open e = true -> ea_events e = pre ++ EvTick false false :: post -> forallb ev_ok pre = true ->
  hd_error (ea_run tree_epolicy e) = Some EcFlush.
Proof.
  intros e pre post Ho He Hp. rewrite ea_run_first_cause. unfold ea_spec_first. rewrite Ho, He. cbn [negb].
  assert (F : find (fun x => negb (ev_ok x)) (pre ++ EvTick false false :: post) = Some (EvTick false false)).
  { clear He. induction pre as [|a r IH]; cbn in *; [reflexivity|].
    apply andb_true_iff in Hp. destruct Hp as [Ha Hr]. rewrite Ha. cbn. apply IH, Hr. }
  rewrite F. reflexivity.
Qed.

Definition ea_flush_witness : earun :=
  {| ea_open := true; ea_events := [EvSample true; EvTick false false; EvSample true]; ea_queued := [true];
     ea_final := true; ea_close := true; ea_dropped := false |}.

Definition ea_encode_witness : earun :=
  {| ea_open := true; ea_events := [EvSample false; EvSample true]; ea_queued := [];
     ea_final := true; ea_close := true; ea_dropped := false |}.

(* for ANY treatment of the two error branches: no failure is swallowed iff both return *)
Lemma ea_policy_never_swallows_iff : forall pol,
  (forall e, ea_spec_fails e = true -> ea_run pol e <> []) <-> (ep_sample pol = EaReturn /\ ep_tick pol = EaReturn).
Proof.
  intros [ps pt]. cbn [ep_sample ep_tick]. split.
  - intros H. split.
    + destruct ps; [reflexivity| |]; exfalso; apply (H ea_encode_witness); reflexivity.
    + destruct pt; [reflexivity| |]; exfalso; apply (H ea_flush_witness); try reflexivity; destruct ps; reflexivity.
  - intros [-> ->] e Hs Hn. change {| ep_sample := EaReturn; ep_tick := EaReturn |} with tree_epolicy in Hn.
    apply ea_run_tree_nil_iff in Hn. congruence.
Qed.

Definition break_on_flush_policy : epolicy := {| ep_sample := EaReturn; ep_tick := EaBreak |}.

Lemma ea_break_on_flush_error_swallows :
  ea_spec_fails ea_flush_witness = true /\ ea_spec_first ea_flush_witness = Some EcFlush /\
  ea_run break_on_flush_policy ea_flush_witness = [] /\ ea_run tree_epolicy ea_flush_witness = [EcFlush].
Proof. repeat split; reflexivity. Qed.

(* the environment read off a trace of operations: the model's verdict only depends on which operations failed *)
Lemma ea_of_trace_fails : forall opened ops f c d,
  ea_spec_fails (ea_of_trace opened ops f c d) =
  negb (opened && forallb (fun o => match o with OpEncode ok | OpFlush ok => ok end) ops && f && c && negb d).
Proof.
  intros. unfold ea_spec_fails, ea_all_ok, ea_of_trace. cbn [ea_open ea_events ea_queued ea_final ea_close ea_dropped forallb].
  assert (E : forallb ev_ok (ea_events_of ops) = forallb (fun o => match o with OpEncode ok | OpFlush ok => ok end) ops).
  { induction ops as [|[ok|ok] r IH]; cbn; [reflexivity| |]; rewrite IH; reflexivity. }
  rewrite E, andb_true_r. reflexivity.
Qed.

(* ---- the engine: the aggregator of a pool is such an aggregator ---- *)
From PV Require Import Model.Pool Proofs.PoolProofs.

(* what the await loop receives from `go func() { aggregatorErr <- p.Aggregator.Run(...) }`: the encoder aggregator never
   returns the cancellation of its context (ctx.Done only makes it leave the handle loop) *)
Definition ea_engine_err (r : list ecause) : err := match r with [] => ENil | _ => EFail CAggr end.

Lemma ea_engine_err_failure : forall e,
  ea_spec_fails e = true -> ea_engine_err (ea_run tree_epolicy e) = EFail CAggr.
Proof.
  intros e H. destruct (ea_run tree_epolicy e) eqn:E; [|reflexivity].
  apply ea_run_tree_nil_iff in E. congruence.
Qed.

Lemma ea_engine_err_nil : forall e,
  ea_spec_fails e = false -> ea_engine_err (ea_run tree_epolicy e) = ENil.
Proof. intros e H. apply ea_run_tree_nil_iff in H. rewrite H. reflexivity. Qed.

(* the result of an aggregator run in which something went wrong, once the await loop has taken it, is among the
   failures that occurred in that pool (from where C05_error_carried / C05_success_iff take it) *)
Lemma failing_aggregator_is_a_recorded_failure : forall v cfg g g' p e ch,
  gstep v cfg g (GvPool p (PvMsg (AggrRes (ea_engine_err (ea_run tree_epolicy e))) ch)) = Some g' ->
  ea_spec_fails e = true -> In (p, CAggr) (all_fails g').
Proof.
  intros v cfg g g' p e ch H Hs. rewrite (ea_engine_err_failure e Hs) in H. cbn [gstep] in H.
  destruct (nth_error (pools g) p) as [s|] eqn:Es; [|discriminate]. destruct (nth_error cfg p) as [n|]; [|discriminate].
  destruct (pstep v n (parent_done g) s (PvMsg (AggrRes (EFail CAggr)) ch)) as [s'|] eqn:Ep; [|discriminate].
  inversion H. subst g'. unfold all_fails. cbn [pools].
  apply (all_fails_from_In (upd p s' (pools g)) 0 p s' CAggr (nth_error_upd_eq _ _ _ _ _ Es)).
  cbn [pstep] in Ep. destruct (ph s); try discriminate.
  destruct (msg_allowed n (parent_done g) s (AggrRes (EFail CAggr))); [|discriminate].
  destruct (step_await (mk_aenv v (parent_done g) s) (aw s) (AggrRes (EFail CAggr)) ch) as [[a' effs]|]; [|discriminate].
  cbn [msg_guns msg_fail] in Ep. inversion Ep.
  match goal with |- In _ (fails (apply_effects ?e ?s1)) =>
    destruct (apply_effects_fields e s1) as (_ & _ & _ & _ & F & _) end.
  rewrite F. cbn [fails app]. left. reflexivity.
Qed.
