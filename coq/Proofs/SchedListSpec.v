(* Meaning of the executable specification of list profiles (Model/SchedList.v list_spec_b) the
   correspondence run evaluates on the implementation's tokens: at zero tolerance an accepted
   observation of a list of const / line / once parts IS the succession of the parts' streams
   (list_tokens), with finish = sum of the durations and Left = the number of tokens.
   (Step parts reuse step_spec_b whose window splitting is not proved, as for spec_b.) *)
From Coq Require Import ZArith QArith Lia List Bool.
From PV Require Import Model.Sched Model.SchedList Proofs.SchedProofs Proofs.SchedStep Proofs.SchedSpecB Proofs.SchedList.
Import ListNotations.
Local Open Scope Z_scope.

Definition simple (p : profile) : bool := match p with PStep _ _ _ _ => false | _ => true end.

Lemma take_before_split lim : forall xs a b, take_before lim xs = (a, b) -> xs = a ++ b.
Proof.
  induction xs as [|x r IH]; intros a b H; cbn [take_before] in H.
  - inversion H; reflexivity.
  - destruct (x <? lim).
    + destruct (take_before lim r) as [a' b'] eqn:E. inversion H; subst. cbn. f_equal. apply IH. reflexivity.
    + inversion H; subst. reflexivity.
Qed.

Lemma map_some_seq (g : nat -> option Z) : forall xs k,
  (forall j x, nth_error xs j = Some x -> g (k + j)%nat = Some x) ->
  map Some xs = map g (seq k (length xs)).
Proof.
  induction xs as [|x r IH]; intros k H; [reflexivity|].
  cbn [length seq map]. f_equal.
  - specialize (H 0%nat x eq_refl). rewrite Nat.add_0_r in H. symmetry. exact H.
  - apply IH. intros j y Hj. specialize (H (S j) y Hj). rewrite Nat.add_succ_r in H. exact H.
Qed.

Lemma part_tokens_rate p : is_rate p = true ->
  part_tokens p = map (fun i => shift 0 (at_ p (Z.of_nat i))) (seq 0 (Z.to_nat (count p))).
Proof.
  intros Hr. unfold part_tokens, drain.
  assert (E : leaves p = Some [the_leaf p]) by (destruct p; try discriminate; reflexivity).
  rewrite E. cbn [d_tokens comp_tokens]. rewrite app_nil_r. unfold leaf_tokens, at_, count.
  rewrite map_map. reflexivity.
Qed.

Lemma spec_finish_rate p : is_rate p = true -> spec_finish p = dur p.
Proof. intros Hr. rewrite (dur_rate p Hr). destruct p; try discriminate; reflexivity. Qed.

Lemma part_rate_sound p start a : valid p -> is_rate p = true ->
  part_toks_b p 0 0 (map (fun x => x - start) a) = true ->
  map Some a = map (shift start) (part_tokens p).
Proof.
  intros Hv Hr H.
  assert (Hrs : rate_spec_b (cum p) (dur p) 0 0 (map (fun x => x - start) a) = true).
  { rewrite (dur_rate p Hr). destruct p; try discriminate; exact H. }
  destruct (rate_spec_b_sound p _ Hv Hr Hrs) as [Hn Hat].
  rewrite map_length in Hn.
  rewrite (part_tokens_rate p Hr), map_map, <- Hn, Nat2Z.id.
  apply map_some_seq. intros j x Hj. cbn [Nat.add].
  rewrite (Hat j (x - start)).
  - cbn. f_equal. lia.
  - rewrite nth_error_map, Hj. reflexivity.
Qed.

Lemma part_once_sound n start a : valid (POnce n) ->
  part_toks_b (POnce n) 0 0 (map (fun x => x - start) a) = true ->
  map Some a = map (shift start) (part_tokens (POnce n)).
Proof.
  intros Hv H. cbn [part_toks_b] in H. apply andb_prop in H. destruct H as [Hl Hz].
  apply Z.eqb_eq in Hl. rewrite map_length in Hl.
  unfold part_tokens. rewrite (once_drain n Hv). cbn [d_tokens].
  rewrite <- Hl, Nat2Z.id. clear Hl Hv.
  induction a as [|x r IH]; [reflexivity|].
  cbn [map forallb] in Hz. apply andb_prop in Hz. destruct Hz as [Hx Hr]. apply Z.eqb_eq in Hx.
  cbn [length repeat map shift option_map]. f_equal; [f_equal; lia|apply IH; exact Hr].
Qed.

Lemma list_spec_toks_sound : forall ps start xs, Forall valid ps -> forallb simple ps = true ->
  list_spec_toks (map (fun p => (p, 0)) ps) 0 start xs = true ->
  map Some xs = list_tokens ps start.
Proof.
  induction ps as [|p r IH]; intros start xs Hv Hs H.
  - cbn in H. destruct xs; [reflexivity|discriminate].
  - inversion Hv as [|? ? Hp Hr]; subst. cbn [forallb] in Hs. apply andb_prop in Hs. destruct Hs as [Hsp Hsr].
    cbn [map list_spec_toks] in H. cbn [list_tokens].
    destruct p as [ops D|f t D|f t st D|n]; try discriminate Hsp.
    + destruct (take_before (start + spec_finish (PConst ops D)) xs) as [a b] eqn:E.
      apply andb_prop in H. destruct H as [Ha Hb].
      rewrite (take_before_split _ _ _ _ E), map_app. f_equal.
      * apply part_rate_sound; [exact Hp|reflexivity|exact Ha].
      * apply IH; assumption.
    + destruct (take_before (start + spec_finish (PLine f t D)) xs) as [a b] eqn:E.
      apply andb_prop in H. destruct H as [Ha Hb].
      rewrite (take_before_split _ _ _ _ E), map_app. f_equal.
      * apply part_rate_sound; [exact Hp|reflexivity|exact Ha].
      * apply IH; assumption.
    + apply andb_prop in H. destruct H as [Ha Hb].
      rewrite <- (firstn_skipn (Z.to_nat n) xs) at 1. rewrite map_app. f_equal.
      * apply part_once_sound; [exact Hp|exact Ha].
      * apply IH; assumption.
Qed.

Theorem list_spec_b_sound ps left xs fin : Forall valid ps -> forallb simple ps = true ->
  list_spec_b (map (fun p => (p, 0)) ps) 0 left xs fin = true ->
  left = Z.of_nat (length xs) /\ fin = list_spec_finish ps /\ map Some xs = list_tokens ps 0.
Proof.
  intros Hv Hs H. unfold list_spec_b in H.
  apply andb_prop in H. destruct H as [H Ht]. apply andb_prop in H. destruct H as [Hl Hf].
  apply Z.eqb_eq in Hl, Hf. rewrite map_map in Hf. cbn [fst] in Hf. rewrite map_id in Hf.
  split; [exact Hl|]. split; [exact Hf|]. apply list_spec_toks_sound; assumption.
Qed.
