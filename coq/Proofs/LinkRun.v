(* Link L5 (C08 -> C03 -> C05): one run of a fault-free pool, assembled from the three models.

   The three models abstract each other:
     C08  Model/Provider.v   the provider's Run as a step machine: what it delivers, how it ends
     C03  Model/Instance.v   the instances' shooting loops over "A items" and "T tokens"
     C05  Model/Pool.v       Engine.Run / instancePool.Run over one result message per component
   Translations (explicit functions, this file):
     [prov_err]  what Provider.Run returned (Provider.outcome)  ->  the error class of the
                 ProvRes message the await loop of C05 receives;
     [inst_err]  how an instance of the C03 model left its loop (profile exhausted / out of
                 ammo -- the only two ways, C12_monotone_instances) -> the error class of its
                 RunRes message;
     the number A of items of the C03 configuration = the length of what the provider of C08
     delivered. *)
From Coq Require Import List Arith Bool Lia.
From PV Require Model.Provider Proofs.ProviderProofs Model.Instance Proofs.InstanceProofs.
From PV Require Import Model.Pool Proofs.PoolProofs.
Import ListNotations.

Definition prov_err (o : Provider.outcome) : err :=
  match o with
  | Provider.Ok => ENil
  | Provider.Failed Provider.ECtx => ECtx
  | _ => EFail CProv
  end.

Definition inst_err (profile_exhausted : bool) : err := if profile_exhausted then ENil else EOutOfAmmo.

(* a history of the engine in which nothing fails: warm-up and schedule construction succeed,
   the provider's message is the one given, aggregator and start loop report nil (or their
   context error once the run context is cancelled at the natural end), every instance reports
   nil / out of ammo (= inst_err) or its context error *)
Definition fault_free_msg (perr : err) (m : msg) : Prop :=
  match m with
  | ProvRes e => e = perr
  | AggrRes e => e = ENil \/ e = ECtx
  | StartRes _ e => e = ENil \/ e = ECtx
  | RunRes _ e => (exists b, e = inst_err b) \/ e = ECtx
  end.

Definition fault_free_ev (perr : err) (e : gevent) : Prop :=
  match e with
  | GvPool _ (PvPre o) => o = PreOk
  | GvPool _ (PvMsg m _) => fault_free_msg perr m
  | _ => True
  end.

Lemma fault_free_msg_fail perr m : msg_fail (ProvRes perr) = [] -> fault_free_msg perr m -> msg_fail m = [].
Proof.
  intros Hp H. destruct m as [e|e|n e|id e]; cbn [fault_free_msg] in H.
  - subst e. exact Hp.
  - destruct H as [->| ->]; reflexivity.
  - destruct H as [->| ->]; reflexivity.
  - destruct H as [[[|] ->]| ->]; reflexivity.
Qed.

Definition no_fails (g : gstate) : Prop := forall s, In s (pools g) -> fails s = [].

Lemma pstep_no_fails perr v n parent s e s' p :
  msg_fail (ProvRes perr) = [] -> fault_free_ev perr (GvPool p e) ->
  pstep v n parent s e = Some s' -> fails s = [] -> fails s' = [].
Proof.
  intros Hp Hff Hs Hf. destruct e as [o|m ch| | |]; cbn [pstep] in Hs.
  - cbn [fault_free_ev] in Hff. subst o. destruct (ph s); try discriminate. injection Hs as <-. exact Hf.
  - cbn [fault_free_ev] in Hff. destruct (ph s); try discriminate.
    destruct (msg_allowed n parent s m); [|discriminate].
    destruct (step_await _ _ m ch) as [[a' effs]|]; [|discriminate].
    destruct (msg_guns m) as [[gc gl] gu]. injection Hs as <-.
    match goal with |- fails (apply_effects ?e ?s1) = [] =>
      destruct (apply_effects_fields e s1) as (_ & _ & _ & _ & -> & _) end.
    cbn [fails]. rewrite (fault_free_msg_fail perr m Hp Hff), Hf. reflexivity.
  - destruct (ph s); try discriminate. destruct (sched_fin s); [discriminate|]. injection Hs as <-. exact Hf.
  - destruct (ph s), (front s); try discriminate; destruct parent; try discriminate; injection Hs as <-; exact Hf.
  - destruct (ph s), (front s); try discriminate; injection Hs as <-; exact Hf.
Qed.

Lemma gstep_no_fails perr v cfg g e g' :
  msg_fail (ProvRes perr) = [] -> fault_free_ev perr e ->
  gstep v cfg g e = Some g' -> no_fails g -> no_fails g'.
Proof.
  intros Hp Hff Hs Hn. destruct e as [p pe| |p|]; cbn [gstep] in Hs.
  - destruct (nth_error (pools g) p) as [s|] eqn:Es; [|discriminate].
    destruct (nth_error cfg p) as [n|]; [|discriminate].
    destruct (pstep v n (parent_done g) s pe) as [s'|] eqn:Ep; [|discriminate]. injection Hs as <-.
    intros y Hy. cbn [pools] in Hy. apply In_upd in Hy. destruct Hy as [->|Hy]; [|apply Hn; exact Hy].
    eapply pstep_no_fails; eauto. apply Hn. eapply nth_error_In; eauto.
  - destruct (cancelled g); [discriminate|]. injection Hs as <-. exact Hn.
  - destruct (eng g); [discriminate|]. destruct (nth_error (pools g) p) as [s|] eqn:Es; [|discriminate].
    destruct (front s) as [r|]; [|discriminate]. destruct (taken s); [discriminate|].
    assert (Hupd : forall y, In y (upd p (set_taken s) (pools g)) -> fails y = []).
    { intros y Hy. apply In_upd in Hy. destruct Hy as [->|Hy]; [|apply Hn; exact Hy].
      cbn. apply Hn. eapply nth_error_In; eauto. }
    destruct r; [destruct (all_taken _)|..]; injection Hs as <-; exact Hupd.
  - destruct (eng g); [discriminate|]. destruct (cancelled g); [|discriminate]. injection Hs as <-. exact Hn.
Qed.

Lemma gstep_eng_kept v cfg g e g' er : gstep v cfg g e = Some g' -> eng g = Some er -> eng g' = Some er.
Proof.
  intros Hs He. destruct e as [p pe| |p|]; cbn [gstep] in Hs.
  - destruct (nth_error (pools g) p); [|discriminate]. destruct (nth_error cfg p); [|discriminate].
    destruct (pstep _ _ _ _ _); [|discriminate]. injection Hs as <-. exact He.
  - destruct (cancelled g); [discriminate|]. injection Hs as <-. exact He.
  - rewrite He in Hs. discriminate.
  - rewrite He in Hs. discriminate.
Qed.

Definition ret_no_fails (g : gstate) : Prop := forall er, eng g = Some er -> er_fails er = [].

Lemma grun_no_fails perr v cfg : msg_fail (ProvRes perr) = [] -> forall tr g g',
  Forall (fault_free_ev perr) tr -> grun v cfg g tr = Some g' ->
  no_fails g -> ret_no_fails g -> no_fails g' /\ ret_no_fails g'.
Proof.
  intros Hp. induction tr as [|e r IH]; intros g g' Hff Hr Hn Hret; cbn [grun] in Hr.
  - injection Hr as <-. split; assumption.
  - inversion Hff as [|? ? He Hrest]; subst.
    destruct (gstep v cfg g e) as [g1|] eqn:Es; [|discriminate].
    apply (IH g1 g' Hrest Hr).
    + eapply gstep_no_fails; eauto.
    + intros er He1. destruct (eng g) as [er0|] eqn:Eg.
      * rewrite (gstep_eng_kept v cfg g e g1 er0 Es Eg) in He1. injection He1 as <-. apply Hret. exact Eg.
      * destruct (eret_snapshot v cfg g e g1 er Es Eg He1) as [_ ->].
        apply all_fails_from_nil. exact Hn.
Qed.

Lemma ginit_no_fails cfg : no_fails (ginit cfg) /\ ret_no_fails (ginit cfg).
Proof.
  split.
  - intros s Hs. cbn [ginit pools] in Hs. apply in_map_iff in Hs. destruct Hs as (x & <- & _). reflexivity.
  - intros er He. cbn [ginit eng] in He. destruct cfg; [|discriminate]. injection He as <-. reflexivity.
Qed.

(* In a fault-free history Engine.Run returns nil (unless the caller cancelled), and once
   nothing is left to run Engine.Wait() returns. *)
Theorem fault_free_run_nil perr cfg tr g :
  msg_fail (ProvRes perr) = [] -> Forall (fault_free_ev perr) tr ->
  grun fixed cfg (ginit cfg) tr = Some g ->
  (forall er, eng g = Some er -> er_cancelled er = false -> er_res er = RNil) /\
  (terminal g = true -> eng g <> None /\ wait_returns g = true).
Proof.
  intros Hp Hff Hr.
  destruct (ginit_no_fails cfg) as [N0 R0].
  destruct (grun_no_fails perr fixed cfg Hp tr _ g Hff Hr N0 R0) as [_ Hret].
  assert (HR : reachable cfg g) by (exists tr; exact Hr).
  split.
  - intros er He Hc. apply (outcome_success_iff cfg g er HR He Hc). apply Hret. exact He.
  - intros Ht. destruct (terminal_final cfg g HR Ht) as (A & B & _). split; assumption.
Qed.

(* ---------------------------------------------------------------------------------------- *)
(* the assembled statement *)
Theorem end_to_end (k : Provider.pkind) es lim pas A fuel :
  es <> [] -> Provider.bound lim pas (length es) = Some A ->
  ProviderProofs.step_const * (A + length es + 1) < fuel ->
  let r := Provider.run k (ProviderProofs.cfg0 lim pas) es None fuel in
  (* C08: the provider delivers exactly A items, the cyclic prefix of the file, returns nil and
     closes its sink, so every later Acquire reports the end of ammo *)
  (Provider.delivered r = Provider.cyc_prefix es A /\ length (Provider.delivered r) = A /\
   Provider.out r = Provider.Ok /\ Provider.closed r = true /\
   Provider.acquire_after r = Provider.AcqEndOfAmmo /\ prov_err (Provider.out r) = ENil) /\
  (* C03: instances over those items and T tokens per profile fire or discard min(tokens, A),
     release everything they acquired, and leave their loops only with nil / out of ammo *)
  (forall c s, Instance.ammo0 c = length (Provider.delivered r) ->
     InstanceProofs.reach c s -> InstanceProofs.terminal s -> length (Instance.insts s) >= 1 ->
     Instance.fired (Instance.sh s) + Instance.discarded (Instance.sh s) = Nat.min (Instance.tokens c s) A /\
     Instance.acquired (Instance.sh s) = Instance.released (Instance.sh s)) /\
  (* C05: any history of the engine in which the provider's result is that one and nothing else
     fails ends with Run = nil and Engine.Wait() returning *)
  (forall cfg tr g, Forall (fault_free_ev (prov_err (Provider.out r))) tr ->
     grun fixed cfg (ginit cfg) tr = Some g ->
     (forall er, eng g = Some er -> er_cancelled er = false -> er_res er = RNil) /\
     (terminal g = true -> eng g <> None /\ wait_returns g = true)).
Proof.
  intros Hne Hb Hfuel r.
  destruct (ProviderProofs.c08_count k es lim pas Hne) as (P1 & _ & _).
  destruct (P1 A fuel Hb Hfuel) as [D1 D2].
  destruct (ProviderProofs.c08_clean_end k es lim pas A fuel Hne Hb Hfuel) as (O1 & O2 & O3).
  fold r in D1, D2, O1, O2, O3.
  assert (Hperr : prov_err (Provider.out r) = ENil) by (rewrite O1; reflexivity).
  split; [repeat split; assumption|]. split.
  - intros c s Ha Hr Ht Hn. rewrite D2 in Ha. split.
    + rewrite (InstanceProofs.conservation c s Hr Ht Hn), Ha. reflexivity.
    + apply (InstanceProofs.acquire_release c s Hr Ht).
  - intros cfg tr g Hff Hrun. apply (fault_free_run_nil (prov_err (Provider.out r)) cfg tr g); try assumption.
    rewrite Hperr. reflexivity.
Qed.
