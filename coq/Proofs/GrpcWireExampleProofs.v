(* Lemmas about Model/GrpcWireExample.v (property C20): the wire replays of the correspondence run. *)
From Coq Require Import List NArith ZArith Bool Lia.
From PV Require Import Model.GrpcCall Model.GrpcExample Model.GrpcWire Model.GrpcWireExample
  Proofs.GrpcCallProofs Proofs.GrpcExampleProofs Proofs.GrpcWireProofs.
Import ListNotations.

(* the specification of a run depends on how payloads are read only through the per-entry outcome *)
Section WireSpecExt.
  Variables desc msg payload : Type.
  Variables re1 re2 : payload -> payload.
  Variable fits : desc -> payload -> option msg.
  Variable code_of_status : N -> N.
  Variable target : list (sent msg) -> sent msg -> N.

  Lemma wire_spec_ext t timeout es :
    Forall (fun e => spec_outcome desc msg payload re1 fits t timeout e = spec_outcome desc msg payload re2 fits t timeout e) es ->
    forall hist,
    wire_spec desc msg payload re1 fits code_of_status target t timeout hist es =
    wire_spec desc msg payload re2 fits code_of_status target t timeout hist es.
  Proof.
    induction 1 as [|e r He Hr IH]; intros hist; cbn [wire_spec]; [reflexivity|].
    rewrite He. destruct (spec_outcome desc msg payload re2 fits t timeout e); rewrite IH; reflexivity.
  Qed.
End WireSpecExt.

Section JsonWireProofs.
  Variable sd : Z -> option Z.
  Variable code_of_status : N -> N.
  Variable target : list (sent msg_c) -> sent msg_c -> N.

  Lemma spec_outcome_guarded t timeout (e : entry fields) :
    spec_outcome desc_c msg_c fields (reencode_c sd) interp t timeout e =
    spec_outcome desc_c msg_c fields (reencode_guarded sd) interp t timeout e.
  Proof.
    unfold spec_outcome, reencode_guarded. destruct (find_method t (e_call fields e)) as [d|]; [|reflexivity].
    destruct (fields_small (e_payload fields e)) eqn:H; [|reflexivity].
    rewrite (interp_reencode sd d _ H). reflexivity.
  Qed.

  Lemma spec_outcome_small t timeout (e : entry fields) :
    fields_small (e_payload fields e) = true ->
    spec_outcome desc_c msg_c fields (reencode_guarded sd) interp t timeout e =
    spec_outcome desc_c msg_c fields (fun p => p) interp t timeout e.
  Proof. intros H. unfold spec_outcome, reencode_guarded. rewrite H. reflexivity. Qed.

  (* FOR ALL entries (no guard): the code-shaped session under pandora's connection policy is the
     specification with payloads read through [reencode_guarded] *)
  Lemma json_session_guarded n timeout rm es :
    n <> 0 ->
    json_session sd code_of_status target no_retry n timeout rm es =
    json_session_spec code_of_status target (reencode_guarded sd) timeout rm es.
  Proof.
    intros Hn. unfold json_session, json_session_spec.
    rewrite session_is_spec by (apply round_robin_lt; exact Hn).
    rewrite round_robin_snd. unfold session_spec. cbn [wc_timeout wc_reflect_meta].
    rewrite (wire_spec_ext desc_c msg_c fields (reencode_c sd) (reencode_guarded sd)); [reflexivity|].
    apply Forall_forall. intros e _. apply spec_outcome_guarded.
  Qed.

  (* … and the specification with payloads read AS WRITTEN when every integer literal is < 2^53 *)
  Lemma json_session_exact n timeout rm es :
    n <> 0 -> Forall (fun e => fields_small (e_payload fields e) = true) es ->
    json_session sd code_of_status target no_retry n timeout rm es =
    json_session_spec code_of_status target (fun p => p) timeout rm es.
  Proof.
    intros Hn Hs. rewrite json_session_guarded by exact Hn. unfold json_session_spec, session_spec.
    cbn [wc_timeout wc_reflect_meta].
    rewrite (wire_spec_ext desc_c msg_c fields (reencode_guarded sd) (fun p => p)); [reflexivity|].
    eapply Forall_impl; [|exact Hs]. intros e He. apply spec_outcome_small. exact He.
  Qed.
End JsonWireProofs.

Lemma scen_codes_no_retry code_of_status target shots :
  scen_codes code_of_status target no_retry shots =
    (concat (map sent_of shots), scen_codes_spec code_of_status target shots).
Proof. unfold scen_codes, scen_codes_spec. rewrite deliver_shots_no_retry. reflexivity. Qed.
