(* Round trip for the raw format. *)
From Coq Require Import List NArith ZArith Bool Lia.
From PV Require Import Lib.AmmoBytes Lib.AmmoDecimal Lib.AmmoLines Model.AmmoCommon Model.AmmoUri Model.AmmoRaw
  Proofs.AmmoBytesProofs Proofs.AmmoLinesProofs Proofs.AmmoCommonProofs Proofs.AmmoDecimalProofs.
Import ListNotations.
Local Open Scope N_scope.

Lemma wf_r_lay i l : wf_ritem (i, l) = true -> wf_lay l = true.
Proof. unfold wf_ritem. intros H. apply andb_prop in H. apply H. Qed.

Lemma rtext_tight_or_nil i l :
  wf_ritem (i, l) = true -> ritem_text i = [] \/ tight (ritem_text i) = true.
Proof.
  intros H. unfold wf_ritem in H. apply andb_prop in H. destruct H as [_ H].
  destruct i as [t b|]; [|left; reflexivity].
  repeat (apply andb_prop in H; destruct H as [H ?]). right. assumption.
Qed.

Lemma rnolf_text i l : wf_ritem (i, l) = true -> nolf (ritem_text i) = true.
Proof.
  intros H. unfold wf_ritem in H. apply andb_prop in H. destruct H as [_ H].
  destruct i as [t b|]; [|reflexivity].
  repeat (apply andb_prop in H; destruct H as [H ?]). assumption.
Qed.

Lemma raw_decode_header_text t b :
  (Z.of_N (nlen b) <= max_alloc)%Z ->
  raw_decode_header (ritem_text (RReq t b)) = Some (Z.of_N (nlen b), t).
Proof.
  intros Hb. unfold raw_decode_header. cbn [ritem_text].
  assert (Hd : has SP (dec (nlen b)) = false).
  { apply digits_no; [apply dec_digits|reflexivity]. }
  assert (Hm : (max_alloc <= max_int)%Z) by (unfold max_alloc, max_int; lia).
  destruct t as [|t0 t'].
  - rewrite app_nil_r. rewrite cut_none by exact Hd. rewrite atoi_dec by lia. reflexivity.
  - rewrite cut_app by exact Hd. rewrite atoi_dec by lia. reflexivity.
Qed.

Definition rst (fin : bool) (all cur : list (ritem * lay)) (a p : N) : rstate :=
  {| r_file := render_raw all fin; r_rest := render_raw cur fin; r_ammo := a; r_pass := p |}.

Fixpoint next_rreq (items : list (ritem * lay)) : option (rentry * list (ritem * lay)) :=
  match items with
  | [] => None
  | (RReq t b, _) :: r => Some ({| rb_buf := b; rb_tag := t |}, r)
  | (RBlank, _) :: r => next_rreq r
  end.

Lemma render_raw_cons2 i l x r fin :
  render_raw ((i, l) :: x :: r) fin =
    wrap_line l (ritem_text i) ++ LF :: ritem_body i ++ render_raw (x :: r) fin.
Proof. reflexivity. Qed.

(* one iteration of the loop on a terminated line *)
Lemma raw_loop_item_lf f i l rest file a p :
  wf_ritem (i, l) = true ->
  raw_loop (S f) cfg0 {| r_file := file; r_rest := wrap_line l (ritem_text i) ++ LF :: ritem_body i ++ rest;
                         r_ammo := a; r_pass := p |} =
    match i with
    | RBlank => raw_loop f cfg0 {| r_file := file; r_rest := rest; r_ammo := a; r_pass := p |}
    | RReq t b => (SDeliver {| rb_buf := b; rb_tag := t |},
                   {| r_file := file; r_rest := rest; r_ammo := N.succ a; r_pass := p |},
                   Some (nlen b, nlen (b ++ rest)))
    end.
Proof.
  intros H. cbn [raw_loop r_rest].
  rewrite read_string_line by (apply nolf_wrap_line; [eapply wf_r_lay; eauto|eapply rnolf_text; eauto]).
  cbn [negb]. cbv iota.
  rewrite trim_wrap_line_lf by (eauto using wf_r_lay, rtext_tight_or_nil).
  destruct i as [t b|]; [|reflexivity].
  unfold wf_ritem in H. apply andb_prop in H. destruct H as [_ H].
  repeat (apply andb_prop in H; destruct H as [H ?]).
  match goal with Hz : (_ <=? _)%Z = true |- _ => apply Z.leb_le in Hz; rename Hz into Hb end.
  pose proof (dec_nonempty (nlen b)) as Hne.
  destruct (ritem_text (RReq t b)) as [|c cs] eqn:Et.
  { cbn [ritem_text] in Et. apply app_eq_nil in Et. destruct Et as [Et _]. contradiction. }
  rewrite <- Et. rewrite raw_decode_header_text by exact Hb.
  cbn [r_file r_ammo r_pass ritem_body].
  assert (Hnz : (Z.of_N (nlen b) =? 0)%Z = false).
  { apply Z.eqb_neq. destruct b; [discriminate|]. cbn [nlen]. lia. }
  rewrite Hnz. rewrite alloc_read_exact by exact Hb. reflexivity.
Qed.

Lemma raw_loop_found fin all : forall cur fuel a p e rest,
  forallb wf_ritem cur = true ->
  (length (render_raw cur fin) < fuel)%nat ->
  next_rreq cur = Some (e, rest) ->
  exists al, raw_loop fuel cfg0 (rst fin all cur a p) = (SDeliver e, rst fin all rest (N.succ a) p, al).
Proof.
  induction cur as [|[i l] r IH]; intros fuel a p e rest Hwf Hf En; [discriminate|].
  cbn [forallb] in Hwf. apply andb_prop in Hwf. destruct Hwf as [Hi Hr].
  destruct fuel as [|f]; [lia|].
  unfold rst in *.
  destruct r as [|x r'].
  - (* last item: it must be the request, which is terminated (non-empty body) *)
    destruct i as [t b|]; [|discriminate]. cbn [next_rreq] in En. inversion En; subst.
    assert (Hbne : is_nil b = false).
    { unfold wf_ritem in Hi. apply andb_prop in Hi. destruct Hi as [_ Hi].
      repeat (apply andb_prop in Hi; destruct Hi as [Hi ?]). apply negb_true_iff. assumption. }
    cbn [render_raw ritem_body]. rewrite Hbne. rewrite orb_true_r.
    replace (wrap_line l (ritem_text (RReq t b)) ++ [LF] ++ b)
      with (wrap_line l (ritem_text (RReq t b)) ++ LF :: ritem_body (RReq t b) ++ [])
      by (cbn [ritem_body]; rewrite app_nil_r; reflexivity).
    rewrite (raw_loop_item_lf f (RReq t b) l [] _ a p Hi). eexists. reflexivity.
  - rewrite render_raw_cons2 in *.
    rewrite (raw_loop_item_lf f i l _ _ a p Hi).
    destruct i as [t b|].
    + cbn [next_rreq] in En. inversion En; subst. eexists. reflexivity.
    + cbn [next_rreq] in En.
      apply (IH f a p e rest Hr); [|exact En].
      rewrite app_length in Hf. cbn [length] in Hf. cbn [ritem_body app] in Hf. lia.
Qed.

(* nothing left in this pass: the loop reaches EOF and wraps around with enough fuel left *)
Lemma raw_loop_wrap fin all : forall cur fuel a p,
  forallb wf_ritem cur = true ->
  (length (render_raw cur fin) < fuel)%nat ->
  next_rreq cur = None -> a <> 0 ->
  exists f', (fuel <= f' + length (render_raw cur fin) + 1)%nat /\
    raw_loop fuel cfg0 (rst fin all cur a p) = raw_loop f' cfg0 (rst fin all all a (N.succ p)).
Proof.
  induction cur as [|[i l] r IH]; intros fuel a p Hwf Hf En Ha.
  - destruct fuel as [|f]; [cbn in Hf; lia|]. exists f. split; [cbn; lia|].
    unfold rst. cbn [render_raw raw_loop r_rest read_string negb].
    change (passes_hit cfg0 (N.succ p)) with false. cbv iota.
    cbn [r_ammo]. destruct (N.eqb_spec a 0); [contradiction|]. reflexivity.
  - cbn [forallb] in Hwf. apply andb_prop in Hwf. destruct Hwf as [Hi Hr].
    destruct i as [t b|]; [discriminate|]. cbn [next_rreq] in En.
    destruct fuel as [|f]; [lia|].
    unfold rst in *.
    destruct r as [|x r'].
    + destruct fin; cbn [render_raw ritem_body is_nil negb orb] in *.
      * (* terminated blank line, then EOF *)
        replace (wrap_line l (ritem_text RBlank) ++ [LF] ++ [])
          with (wrap_line l (ritem_text RBlank) ++ LF :: ritem_body RBlank ++ []) in * by reflexivity.
        rewrite (raw_loop_item_lf f RBlank l [] _ a p Hi).
        destruct (IH f a p Hr) as [f' [Hf' E]]; auto.
        { rewrite app_length in Hf. cbn [length] in *. lia. }
        exists f'. split; [|exact E].
        rewrite app_length. cbn [length render_raw] in *. lia.
      * (* unterminated blanks: io.EOF with data, dropped *)
        cbn [app] in *. rewrite ?app_nil_r in *.
        exists f. split; [lia|].
        cbn [raw_loop r_rest].
        rewrite read_string_eof by (apply nolf_wrap_line; [eapply wf_r_lay; eauto|reflexivity]).
        cbn [negb]. cbv iota.
        change (passes_hit cfg0 (N.succ p)) with false. cbv iota.
        cbn [r_ammo r_file r_pass]. destruct (N.eqb_spec a 0); [contradiction|]. reflexivity.
    + rewrite render_raw_cons2 in *.
      rewrite (raw_loop_item_lf f RBlank l _ _ a p Hi).
      destruct (IH f a p Hr) as [f' [Hf' E]]; auto.
      { rewrite app_length in Hf. cbn [length ritem_body app] in Hf. lia. }
      exists f'. split; [|exact E].
      rewrite app_length. cbn [length ritem_body app]. lia.
Qed.

Lemma next_rreq_entries items :
  raw_entries (map fst items) =
    match next_rreq items with
    | Some (e, rest) => e :: raw_entries (map fst rest)
    | None => []
    end.
Proof.
  induction items as [|[i l] r IH]; [reflexivity|].
  cbn [map fst raw_entries next_rreq]. destruct i; auto.
Qed.

Lemma next_rreq_wf items e rest :
  forallb wf_ritem items = true -> next_rreq items = Some (e, rest) -> forallb wf_ritem rest = true.
Proof.
  induction items as [|[i l] r IH]; intros H E; [discriminate|].
  cbn [forallb] in H. apply andb_prop in H. destruct H as [_ Hr].
  cbn [next_rreq] in E. destruct i; eauto. inversion E; subst. exact Hr.
Qed.

Lemma raw_run_cyclic fin k : forall all cur a p,
  forallb wf_ritem all = true -> forallb wf_ritem cur = true ->
  raw_entries (map fst all) <> [] ->
  (a = 0 -> raw_entries (map fst cur) <> []) ->
  map fst (raw_run k cfg0 (rst fin all cur a p)) =
    map SDeliver (cycle_take k (raw_entries (map fst all)) (raw_entries (map fst cur))).
Proof.
  induction k as [|k IH]; intros all cur a p Hall Hcur Hne Ha; [reflexivity|].
  cbn [raw_run]. unfold raw_scan. change (limit_hit cfg0 (r_ammo (rst fin all cur a p))) with false.
  cbv iota. unfold raw_fuel. cbn [rst r_rest r_file].
  set (fuel := (length (render_raw cur fin) + length (render_raw all fin) + 4)%nat).
  rewrite (next_rreq_entries cur) in *.
  destruct (next_rreq cur) as [[e rest]|] eqn:En.
  - destruct (raw_loop_found fin all cur fuel a p e rest Hcur ltac:(unfold fuel; lia) En) as [al E].
    fold (rst fin all cur a p). rewrite E.
    cbn [cycle_take map fst]. f_equal.
    apply (IH all rest (N.succ a) p); auto.
    + exact (next_rreq_wf cur e rest Hcur En).
    + intros Hz. lia.
  - assert (Hnz : a <> 0) by (intros Hz; apply (Ha Hz); reflexivity).
    destruct (raw_loop_wrap fin all cur fuel a p Hcur ltac:(unfold fuel; lia) En Hnz) as [f' [Hf' E]].
    fold (rst fin all cur a p). rewrite E.
    pose proof (next_rreq_entries all) as Eall.
    destruct (next_rreq all) as [[e rest]|] eqn:En2; [|exfalso; apply Hne; exact Eall].
    destruct (raw_loop_found fin all all f' a (N.succ p) e rest Hall ltac:(unfold fuel in Hf'; lia) En2) as [al E2].
    rewrite E2. rewrite Eall. cbn [cycle_take map fst]. f_equal. rewrite <- Eall.
    apply (IH all rest (N.succ a) (N.succ p)); auto.
    + exact (next_rreq_wf all e rest Hall En2).
    + intros Hz. lia.
Qed.

Theorem raw_roundtrip items fin k :
  forallb wf_ritem items = true ->
  raw_entries (map fst items) <> [] ->
  raw_decode cfg0 k (render_raw items fin) =
    map SDeliver (cycle_take k (raw_entries (map fst items)) (raw_entries (map fst items))).
Proof.
  intros H Hne. unfold raw_decode, raw_init.
  apply (raw_run_cyclic fin k items items 0 0); auto.
Qed.
