(* Round trip for the raw format. *)
From Coq Require Import List NArith ZArith Bool Lia.
From PV Require Import Lib.AmmoBytes Lib.AmmoDecimal Lib.AmmoLines Model.AmmoCommon Model.AmmoUri Model.AmmoRaw
  Proofs.AmmoBytesProofs Proofs.AmmoLinesProofs Proofs.AmmoCommonProofs Proofs.AmmoDecimalProofs.
Import ListNotations.
Local Open Scope N_scope.

Lemma wf_r_lay i l : wf_ritem (i, l) = true -> wf_lay l = true.
Proof. unfold wf_ritem. intros H. apply andb_prop in H. apply H. Qed.

Lemma rtext_tight_or_nil i l :
  wf_ritem (i, l) = true -> ritem_text i = [] \/ tight (ritem_text i) = true.
Proof.
  intros H. unfold wf_ritem in H. apply andb_prop in H. destruct H as [_ H].
  destruct i as [t b|]; [|left; reflexivity].
  repeat (apply andb_prop in H; destruct H as [H ?]). right. assumption.
Qed.

Lemma rnolf_text i l : wf_ritem (i, l) = true -> nolf (ritem_text i) = true.
Proof.
  intros H. unfold wf_ritem in H. apply andb_prop in H. destruct H as [_ H].
  destruct i as [t b|]; [|reflexivity].
  repeat (apply andb_prop in H; destruct H as [H ?]). assumption.
Qed.

Lemma raw_decode_header_text t b :
  (Z.of_N (nlen b) <= max_alloc)%Z ->
  raw_decode_header (ritem_text (RReq t b)) = Some (Z.of_N (nlen b), t).
Proof.
  intros Hb. unfold raw_decode_header. cbn [ritem_text].
  assert (Hd : has SP (dec (nlen b)) = false).
  { apply digits_no; [apply dec_digits|reflexivity]. }
  assert (Hm : (max_alloc <= max_int)%Z) by (unfold max_alloc, max_int; lia).
  destruct t as [|t0 t'].
  - rewrite app_nil_r. rewrite cut_none by exact Hd. rewrite atoi_dec by lia. reflexivity.
  - rewrite cut_app by exact Hd. rewrite atoi_dec by lia. reflexivity.
Qed.

Definition rst (fin : bool) (all cur : list (ritem * lay)) (a p : N) : rstate :=
  {| r_file := render_raw all fin; r_rest := render_raw cur fin; r_ammo := a; r_pass := p |}.

Fixpoint next_rreq (items : list (ritem * lay)) : option (rentry * list (ritem * lay)) :=
  match items with
  | [] => None
  | (RReq t b, _) :: r => Some ({| rb_buf := b; rb_tag := t |}, r)
  | (RBlank, _) :: r => next_rreq r
  end.

Lemma render_raw_cons2 i l x r fin :
  render_raw ((i, l) :: x :: r) fin =
    wrap_line l (ritem_text i) ++ LF :: ritem_body i ++ render_raw (x :: r) fin.
Proof. reflexivity. Qed.

(* one iteration of the loop on a terminated line *)
Lemma raw_block_item_lf i l rest :
  wf_ritem (i, l) = true ->
  raw_block (wrap_line l (ritem_text i) ++ LF :: ritem_body i ++ rest) =
    match i with
    | RBlank => RSkip rest
    | RReq t b => RFound {| rb_buf := b; rb_tag := t |} rest (Some (alloc_of (nlen b) (nlen (b ++ rest)), nlen (b ++ rest)))
    end.
Proof.
  intros H. unfold raw_block.
  rewrite read_string_line by (apply nolf_wrap_line; [eapply wf_r_lay; eauto|eapply rnolf_text; eauto]).
  cbn [negb]. cbv iota.
  rewrite trim_wrap_line_lf by (eauto using wf_r_lay, rtext_tight_or_nil).
  destruct i as [t b|]; [|reflexivity].
  unfold wf_ritem in H. apply andb_prop in H. destruct H as [_ H].
  repeat (apply andb_prop in H; destruct H as [H ?]).
  match goal with Hz : (_ <=? _)%Z = true |- _ => apply Z.leb_le in Hz; rename Hz into Hb end.
  pose proof (dec_nonempty (nlen b)) as Hne.
  destruct (ritem_text (RReq t b)) as [|c cs] eqn:Et.
  { cbn [ritem_text] in Et. apply app_eq_nil in Et. destruct Et as [Et _]. contradiction. }
  rewrite <- Et. rewrite raw_decode_header_text by exact Hb.
  cbn [ritem_body].
  assert (Hnz : (Z.of_N (nlen b) =? 0)%Z = false).
  { apply Z.eqb_neq. destruct b; [discriminate|]. cbn [nlen]. lia. }
  rewrite Hnz. rewrite alloc_read_exact. reflexivity.
Qed.

Lemma raw_inner_items fin items : forall fuel,
  forallb wf_ritem items = true ->
  (length (render_raw items fin) < fuel)%nat ->
  match next_rreq items with
  | Some (e, rest) => exists a, raw_inner fuel (render_raw items fin) = RIFound e (render_raw rest fin) a
  | None => raw_inner fuel (render_raw items fin) = RIEof
  end.
Proof.
  induction items as [|[i l] r IH]; intros fuel Hwf Hf.
  - destruct fuel; [cbn in Hf; lia|]. reflexivity.
  - cbn [forallb] in Hwf. apply andb_prop in Hwf. destruct Hwf as [Hi Hr].
    destruct fuel as [|f]; [lia|].
    destruct r as [|x r'].
    + cbn [render_raw] in *.
      destruct (fin || negb (is_nil (ritem_body i)))%bool eqn:Eterm.
      * assert (E : wrap_line l (ritem_text i) ++ [LF] ++ ritem_body i
                    = wrap_line l (ritem_text i) ++ LF :: ritem_body i ++ []).
        { rewrite app_nil_r. reflexivity. }
        rewrite E in *. cbn [raw_inner]. rewrite (raw_block_item_lf i l [] Hi).
        assert (Hf1 : (1 <= f)%nat).
        { rewrite app_length in Hf. cbn [length] in Hf. lia. }
        destruct f as [|f']; [lia|].
        destruct i; cbn [next_rreq]; [eexists; reflexivity|reflexivity].
      * (* unterminated: only a blank line can be (a request has a non-empty body) *)
        apply orb_false_elim in Eterm. destruct Eterm as [_ Eb].
        apply negb_false_iff in Eb.
        destruct i as [t b|].
        { exfalso. unfold wf_ritem in Hi. apply andb_prop in Hi. destruct Hi as [_ Hi].
          repeat (apply andb_prop in Hi; destruct Hi as [Hi ?]).
          cbn [ritem_body] in Eb. rewrite Eb in *. discriminate. }
        cbn [ritem_body app next_rreq] in *. rewrite app_nil_r in *.
        cbn [raw_inner]. unfold raw_block.
        rewrite read_string_eof by (apply nolf_wrap_line; [eapply wf_r_lay; eauto|reflexivity]).
        cbn [negb andb].
        destruct (wrap_line l (ritem_text RBlank)) as [|w ws] eqn:Ew; [reflexivity|].
        cbn [is_nil]. rewrite <- Ew.
        rewrite trim_wrap_line_nocr by (eauto using wf_r_lay; left; reflexivity).
        cbn [ritem_text].
        assert (Hf1 : (1 <= f)%nat) by (cbn [length] in Hf; lia).
        destruct f as [|f']; [lia|]. reflexivity.
    + rewrite render_raw_cons2 in *. cbn [raw_inner].
      rewrite (raw_block_item_lf i l _ Hi).
      assert (Hlen : (length (render_raw (x :: r') fin) < f)%nat).
      { rewrite app_length in Hf. cbn [length] in Hf. rewrite app_length in Hf. lia. }
      destruct i; cbn [next_rreq].
      * eexists. reflexivity.
      * apply IH; assumption.
Qed.

Lemma next_rreq_entries items :
  raw_entries (map fst items) =
    match next_rreq items with
    | Some (e, rest) => e :: raw_entries (map fst rest)
    | None => []
    end.
Proof.
  induction items as [|[i l] r IH]; [reflexivity|].
  cbn [map fst raw_entries next_rreq]. destruct i; auto.
Qed.

Lemma next_rreq_wf items e rest :
  forallb wf_ritem items = true -> next_rreq items = Some (e, rest) -> forallb wf_ritem rest = true.
Proof.
  induction items as [|[i l] r IH]; intros H E; [discriminate|].
  cbn [forallb] in H. apply andb_prop in H. destruct H as [_ Hr].
  cbn [next_rreq] in E. destruct i; eauto. inversion E; subst. exact Hr.
Qed.

Lemma raw_run_cyclic fin k : forall all cur a p,
  forallb wf_ritem all = true -> forallb wf_ritem cur = true ->
  raw_entries (map fst all) <> [] ->
  (a = 0 -> raw_entries (map fst cur) <> []) ->
  map fst (raw_run k cfg0 (rst fin all cur a p)) =
    map SDeliver (cycle_take k (raw_entries (map fst all)) (raw_entries (map fst cur))).
Proof.
  induction k as [|k IH]; intros all cur a p Hall Hcur Hne Ha; [reflexivity|].
  cbn [raw_run]. unfold raw_scan. change (limit_hit cfg0 (r_ammo (rst fin all cur a p))) with false.
  cbv iota. cbn [raw_outer rst r_rest r_file r_ammo r_pass].
  pose proof (raw_inner_items fin cur (S (length (render_raw cur fin))) Hcur (Nat.lt_succ_diag_r _)) as Hin.
  rewrite (next_rreq_entries cur) in *.
  destruct (next_rreq cur) as [[e rest]|] eqn:En.
  - destruct Hin as [al Hin]. rewrite Hin.
    cbn [cycle_take map fst]. f_equal.
    apply (IH all rest (N.succ a) p); auto.
    + exact (next_rreq_wf cur e rest Hcur En).
    + intros Hz. lia.
  - rewrite Hin.
    change (passes_hit cfg0 (N.succ p)) with false. cbv iota.
    destruct (N.eqb_spec a 0) as [Hz|Hnz]; [exfalso; apply (Ha Hz); reflexivity|].
    pose proof (raw_inner_items fin all (S (length (render_raw all fin))) Hall (Nat.lt_succ_diag_r _)) as Hin2.
    pose proof (next_rreq_entries all) as Eall.
    destruct (next_rreq all) as [[e rest]|] eqn:En2; [|exfalso; apply Hne; exact Eall].
    destruct Hin2 as [al Hin2]. rewrite Hin2. rewrite Eall. cbn [cycle_take map fst]. f_equal.
    rewrite <- Eall.
    apply (IH all rest (N.succ a) (N.succ p)); auto.
    + exact (next_rreq_wf all e rest Hall En2).
    + intros Hz. lia.
Qed.

Theorem raw_roundtrip items fin k :
  forallb wf_ritem items = true ->
  raw_entries (map fst items) <> [] ->
  raw_decode cfg0 k (render_raw items fin) =
    map SDeliver (cycle_take k (raw_entries (map fst items)) (raw_entries (map fst items))).
Proof.
  intros H Hne. unfold raw_decode, raw_init.
  apply (raw_run_cyclic fin k items items 0 0); auto.
Qed.
