(* Lemmas about Model/LockFlow.v (property C19: the mutex-guarded state on the dial path). *)
From Coq Require Import List Bool Arith Lia.
From PV Require Import Model.LockFlow.
Import ListNotations.

(* ---------- what [paths] enumerates: a big-step, nondeterministic reading of the skeleton ---------- *)
Definition mkp (evs : list lk_ev) (ret : bool) (ds : list lk_ev) : lpath := {| lp_evs := evs; lp_ret := ret; lp_defers := ds |}.

Inductive exec : lstmt -> lpath -> Prop :=
| XSkip : exec LSkip (mkp [] false [])
| XEv : forall e, exec (LEv e) (mkp [e] false [])
| XDefer : forall e, exec (LDefer e) (mkp [] false [e])
| XSeqRet : forall a b pa, exec a pa -> lp_ret pa = true -> exec (LSeq a b) pa
| XSeq : forall a b pa pb, exec a pa -> lp_ret pa = false -> exec b pb ->
    exec (LSeq a b) (mkp (lp_evs pa ++ lp_evs pb) (lp_ret pb) (lp_defers pb ++ lp_defers pa))
| XIfT : forall t e p, exec t p -> exec (LIf t e) p
| XIfE : forall t e p, exec e p -> exec (LIf t e) p
| XLoop0 : forall b, exec (LLoop b) (mkp [] false [])
| XLoopRet : forall b p, exec b p -> lp_ret p = true -> exec (LLoop b) p
| XLoopIter : forall b p q, exec b p -> lp_ret p = false -> exec (LLoop b) q ->
    exec (LLoop b) (mkp (lp_evs p ++ lp_evs q) (lp_ret q) (lp_defers q ++ lp_defers p))
| XReturn : exec LReturn (mkp [] true []).

Lemma exec_no_lock : forall s p, exec s p -> no_lock s = true -> lp_evs p = [] /\ lp_defers p = [].
Proof.
  induction 1; cbn [no_lock]; intro NL; try discriminate; try (split; reflexivity).
  - apply andb_prop in NL as [Ha _]. auto.
  - apply andb_prop in NL as [Ha Hb]. destruct (IHexec1 Ha) as [-> ->], (IHexec2 Hb) as [-> ->]. split; reflexivity.
  - apply andb_prop in NL as [Ha _]. auto.
  - apply andb_prop in NL as [_ Hb]. auto.
  - auto.
  - destruct (IHexec1 NL) as [-> ->], (IHexec2 NL) as [-> ->]. split; reflexivity.
Qed.

Lemma paths_nonempty : forall s ps, paths s = Some ps -> ps <> [].
Proof.
  induction s; cbn [paths]; intros ps H; try (injection H as <-; discriminate); try discriminate.
  - destruct (paths s1) as [pa|] eqn:E1; [|discriminate]. destruct (paths s2) as [pb|] eqn:E2; [|discriminate].
    injection H as <-. specialize (IHs1 _ eq_refl). specialize (IHs2 _ eq_refl).
    destruct pa as [|x pa]; [congruence|]. destruct pb as [|y pb]; [congruence|]. cbn. discriminate.
  - destruct (paths s1) as [pa|] eqn:E1; [|discriminate]. destruct (paths s2) as [pb|] eqn:E2; [|discriminate].
    injection H as <-. specialize (IHs1 _ eq_refl). destruct pa; [congruence|discriminate].
  - destruct (no_lock s); [injection H as <-; discriminate|discriminate].
Qed.

(* every execution of a describable skeleton is one of the enumerated paths *)
Lemma paths_complete : forall s p, exec s p -> forall ps, paths s = Some ps -> In p ps.
Proof.
  induction 1; cbn [paths]; intros ps HP.
  - injection HP as <-. left. reflexivity.
  - injection HP as <-. left. reflexivity.
  - injection HP as <-. left. reflexivity.
  - destruct (paths a) as [la|] eqn:E1; [|discriminate]. destruct (paths b) as [lb|] eqn:E2; [|discriminate].
    injection HP as <-. apply in_flat_map. exists pa. split; [apply IHexec; reflexivity|].
    pose proof (paths_nonempty _ _ E2) as Hn. destruct lb as [|y lb]; [congruence|].
    left. unfold seq_path. rewrite H0. reflexivity.
  - destruct (paths a) as [la|] eqn:E1; [|discriminate]. destruct (paths b) as [lb|] eqn:E2; [|discriminate].
    injection HP as <-. apply in_flat_map. exists pa. split; [apply IHexec1; reflexivity|].
    apply in_map_iff. exists pb. split; [|apply IHexec2; reflexivity].
    unfold seq_path. rewrite H0. reflexivity.
  - destruct (paths t) as [lt|] eqn:E1; [|discriminate]. destruct (paths e) as [le|] eqn:E2; [|discriminate].
    injection HP as <-. apply in_or_app. left. apply IHexec. reflexivity.
  - destruct (paths t) as [lt|] eqn:E1; [|discriminate]. destruct (paths e) as [le|] eqn:E2; [|discriminate].
    injection HP as <-. apply in_or_app. right. apply IHexec. reflexivity.
  - destruct (no_lock b); [|discriminate]. injection HP as <-. left. reflexivity.
  - destruct (no_lock b) eqn:N; [|discriminate]. injection HP as <-.
    destruct (exec_no_lock _ _ H N) as [A B]. destruct p as [ev r ds]. cbn in *. subst. right. left. reflexivity.
  - destruct (no_lock b) eqn:N; [|discriminate]. injection HP as <-.
    destruct (exec_no_lock _ _ H N) as [A B]. rewrite A, B.
    assert (paths (LLoop b) = Some [mkp [] false []; mkp [] true []]) as HP' by (cbn [paths]; rewrite N; reflexivity).
    specialize (IHexec2 _ HP'). destruct IHexec2 as [<-|[<-|[]]]; cbn; auto.
  - injection HP as <-. left. reflexivity.
Qed.

(* the check covers every execution: it takes and releases in pairs and leaves the mutex free *)
Lemma lf_check_sound : forall s p, lf_check s = true -> exec s p -> trace_ok HFree (lp_trace p) = true.
Proof.
  intros s p H X. unfold lf_check in H. destruct (paths s) as [ps|] eqn:E; [|discriminate].
  rewrite forallb_forall in H. apply H. eapply paths_complete; eassumption.
Qed.

Lemma trace_ok_app : forall t1 h t2, trace_ok h t1 = true -> trace_ok HFree t2 = true -> trace_ok h (t1 ++ t2) = true.
Proof.
  induction t1 as [|e r IH]; intros h t2 H1 H2; cbn [app].
  - destruct h; cbn in H1; try discriminate. exact H2.
  - cbn [trace_ok] in *. destruct h, e; try discriminate; apply IH; assumption.
Qed.

Lemma trace_ok_concat : forall ts, Forall (fun t => trace_ok HFree t = true) ts -> trace_ok HFree (concat ts) = true.
Proof.
  induction 1; cbn [concat]; [reflexivity|]. apply trace_ok_app; assumption.
Qed.

(* ---------- goroutines against the mutex ---------- *)
Fixpoint cnt (f : hold -> bool) (ms : list hold) : nat :=
  match ms with [] => 0 | m :: r => (if f m then 1 else 0) + cnt f r end.
Definition isW (h : hold) : bool := match h with HWrite => true | _ => false end.
Definition isR (h : hold) : bool := match h with HRead => true | _ => false end.

Definition lock_inv (s : rwst) (ms : list hold) : Prop :=
  (rw_w s = true /\ cnt isW ms = 1 /\ cnt isR ms = 0 /\ rw_r s = 0) \/
  (rw_w s = false /\ cnt isW ms = 0 /\ rw_r s = cnt isR ms).

Definition sys_inv (st : sys) : Prop :=
  exists ms, Forall2 (fun m t => trace_ok m t = true) ms (snd st) /\ lock_inv (fst st) ms.

Definition total (st : sys) : nat := fold_right (fun t n => length t + n) 0 (snd st).

Lemma cnt_set_nth : forall f ms i m m', nth_error ms i = Some m ->
  cnt f (set_nth i m' ms) + (if f m then 1 else 0) = cnt f ms + (if f m' then 1 else 0).
Proof.
  induction ms as [|x r IH]; intros [|i] m m' H; cbn in H; try discriminate.
  - injection H as ->. cbn. lia.
  - cbn. specialize (IH _ _ m' H). lia.
Qed.

Lemma forall2_nth : forall {A B} (P : A -> B -> Prop) la lb i b, Forall2 P la lb -> nth_error lb i = Some b ->
  exists a, nth_error la i = Some a /\ P a b.
Proof.
  intros A B P la lb i b H. revert i. induction H; intros [|i] E; cbn in E; try discriminate.
  - injection E as <-. exists x. split; [reflexivity|assumption].
  - apply IHForall2 in E. exact E.
Qed.

Lemma forall2_nth_l : forall {A B} (P : A -> B -> Prop) la lb i a, Forall2 P la lb -> nth_error la i = Some a ->
  exists b, nth_error lb i = Some b /\ P a b.
Proof.
  intros A B P la lb i a H. revert i. induction H; intros [|i] E; cbn in E; try discriminate.
  - injection E as <-. exists y. split; [reflexivity|assumption].
  - apply IHForall2 in E. exact E.
Qed.

Lemma forall2_set_nth : forall {A B} (P : A -> B -> Prop) la lb i a b, Forall2 P la lb -> P a b ->
  Forall2 P (set_nth i a la) (set_nth i b lb).
Proof.
  intros A B P la lb i a b H Hp. revert i. induction H; intros [|i]; cbn; constructor; auto.
Qed.

Lemma cnt_pos : forall f ms, 0 < cnt f ms -> exists i m, nth_error ms i = Some m /\ f m = true.
Proof.
  induction ms as [|x r IH]; cbn; intro H; [lia|].
  destruct (f x) eqn:E.
  - exists 0, x. split; [reflexivity|assumption].
  - destruct IH as (i & m & A & B); [lia|]. exists (S i), m. split; assumption.
Qed.

Lemma cnt_zero_free : forall ms, cnt isW ms = 0 -> cnt isR ms = 0 -> Forall (fun m => m = HFree) ms.
Proof.
  induction ms as [|x r IH]; cbn; intros A B; constructor.
  - destruct x; cbn in *; [reflexivity|lia|lia].
  - apply IH; destruct x; cbn in *; lia.
Qed.

Lemma inv_init : forall ts, Forall (fun t => trace_ok HFree t = true) ts -> sys_inv (rw_free, ts).
Proof.
  intros ts H. exists (map (fun _ => HFree) ts). cbn [fst snd]. split.
  - induction H; cbn; constructor; assumption.
  - right. cbn. assert (forall f, f HFree = false -> cnt f (map (fun _ : list lk_ev => HFree) ts) = 0) as Z.
    { intros f Hf. clear H. induction ts; cbn; [reflexivity|]. rewrite Hf. exact IHts. }
    rewrite !Z by reflexivity. repeat split; reflexivity.
Qed.

Lemma inv_step : forall st i st', sys_inv st -> sys_step i st = Some st' -> sys_inv st' /\ S (total st') = total st.
Proof.
  intros [s ts] i st' (ms & F & L) H. unfold sys_step in H. cbn [fst snd] in *.
  destruct (nth_error ts i) as [[|e r]|] eqn:E; try discriminate.
  destruct (forall2_nth _ _ _ _ _ F E) as (m & Em & Tm).
  assert (forall r', S (total (s, set_nth i r ts)) = total (s, ts) /\ total (r', set_nth i r ts) = total (s, set_nth i r ts)) as Tot.
  { intro r'. unfold total. cbn [snd]. split; [|reflexivity]. clear - E. revert i E.
    induction ts as [|t ts' IH]; intros [|i] E; cbn in E; try discriminate.
    - injection E as ->. cbn. lia.
    - cbn. specialize (IH _ E). lia. }
  destruct e; cbn [rw_do] in H; cbn [trace_ok] in Tm; destruct m; try discriminate.
  - (* Lock *) destruct (rw_w s) eqn:W; cbn [orb] in H; [discriminate|].
    destruct (rw_r s =? 0) eqn:R; cbn [negb] in H; [|discriminate]. injection H as <-.
    apply Nat.eqb_eq in R. destruct L as [(A & _)|(A & B & C)]; [congruence|].
    split; [|destruct (Tot {| rw_w := true; rw_r := 0 |}) as [T1 T2]; unfold total in *; cbn [snd] in *; lia].
    exists (set_nth i HWrite ms). cbn [fst snd]. split; [apply forall2_set_nth; assumption|].
    left. pose proof (cnt_set_nth isW ms i HFree HWrite Em). pose proof (cnt_set_nth isR ms i HFree HWrite Em).
    cbn in *. repeat split; lia.
  - (* Unlock *) destruct (rw_w s) eqn:W; [|discriminate]. injection H as <-.
    destruct L as [(A & B & C & D)|(A & _)]; [|congruence].
    split; [|destruct (Tot {| rw_w := false; rw_r := rw_r s |}) as [T1 T2]; unfold total in *; cbn [snd] in *; lia].
    exists (set_nth i HFree ms). cbn [fst snd]. split; [apply forall2_set_nth; assumption|].
    right. pose proof (cnt_set_nth isW ms i HWrite HFree Em). pose proof (cnt_set_nth isR ms i HWrite HFree Em).
    cbn in *. repeat split; lia.
  - (* RLock *) destruct (rw_w s) eqn:W; [discriminate|]. injection H as <-.
    destruct L as [(A & _)|(A & B & C)]; [congruence|].
    split; [|destruct (Tot {| rw_w := false; rw_r := S (rw_r s) |}) as [T1 T2]; unfold total in *; cbn [snd] in *; lia].
    exists (set_nth i HRead ms). cbn [fst snd]. split; [apply forall2_set_nth; assumption|].
    right. pose proof (cnt_set_nth isW ms i HFree HRead Em). pose proof (cnt_set_nth isR ms i HFree HRead Em).
    cbn in *. repeat split; lia.
  - (* RUnlock *) destruct (rw_r s) as [|k] eqn:R; [discriminate|]. injection H as <-.
    pose proof (cnt_set_nth isW ms i HRead HFree Em). pose proof (cnt_set_nth isR ms i HRead HFree Em).
    split; [|destruct (Tot {| rw_w := rw_w s; rw_r := k |}) as [T1 T2]; unfold total in *; cbn [snd] in *; lia].
    exists (set_nth i HFree ms). cbn [fst snd]. split; [apply forall2_set_nth; assumption|].
    destruct L as [(A & B & C & D)|(A & B & C)]; [lia|].
    right. cbn in *. repeat split; try assumption; lia.
Qed.

Lemma inv_run : forall sched st, sys_inv st -> sys_inv (sys_run sched st).
Proof.
  induction sched as [|i r IH]; intros st H; cbn [sys_run]; [exact H|].
  destruct (sys_step i st) as [st'|] eqn:E; [|apply IH, H].
  apply IH. apply (inv_step _ _ _ H E).
Qed.

Lemma inv_no_fatal : forall st, sys_inv st -> some_fatal st = false.
Proof.
  intros [s ts] (ms & F & L). unfold some_fatal. cbn [fst snd] in *.
  apply not_true_is_false. intro H. apply existsb_exists in H as (t & Hin & Ht).
  apply In_nth_error in Hin as [i Ei]. destruct (forall2_nth _ _ _ _ _ F Ei) as (m & Em & Tm).
  destruct t as [|e r]; [discriminate|]. cbn [trace_ok] in Tm.
  destruct m, e; try discriminate; cbn [rw_do] in Ht.
  - destruct (rw_w s || negb (rw_r s =? 0)); discriminate.
  - destruct (rw_w s); discriminate.
  - destruct (rw_w s) eqn:W; [discriminate|].
    destruct L as [(A & _)|(A & B & C)]; [congruence|].
    assert (0 < cnt isW ms) as P; [|lia].
    clear - Em. revert i Em. induction ms as [|x r IH]; intros [|i] E; cbn in E; try discriminate.
    + injection E as ->. cbn. lia.
    + cbn. specialize (IH _ E). lia.
  - destruct (rw_r s) eqn:R; [|discriminate].
    assert (0 < cnt isR ms) as P.
    { clear - Em. revert i Em. induction ms as [|x r IH]; intros [|i] E; cbn in E; try discriminate.
      - injection E as ->. cbn. lia.
      - cbn. specialize (IH _ E). lia. }
    destruct L as [(A & B & C & D)|(A & B & C)]; lia.
Qed.

Lemma inv_progress : forall st, sys_inv st -> all_done st = false -> exists i st', sys_step i st = Some st'.
Proof.
  intros [s ts] (ms & F & L) D. cbn [fst snd] in *.
  assert (forall i m, nth_error ms i = Some m -> exists t, nth_error ts i = Some t /\ trace_ok m t = true) as N
    by (intros i m E; exact (forall2_nth_l _ _ _ _ _ F E)).
  destruct L as [(A & B & C & R)|(A & B & C)].
  - destruct (cnt_pos isW ms) as (i & m & Em & Hm); [lia|]. destruct m; try discriminate.
    destruct (N _ _ Em) as (t & Et & Tt). destruct t as [|e r]; [discriminate|]. cbn [trace_ok] in Tt.
    destruct e; try discriminate. exists i. unfold sys_step. cbn [fst snd]. rewrite Et. cbn [rw_do]. rewrite A. eauto.
  - destruct (cnt isR ms) as [|k] eqn:K.
    + (* nobody holds anything: the mutex is free and any unfinished goroutine may take it *)
      pose proof (cnt_zero_free ms B K) as AllFree.
      unfold all_done in D. cbn [snd] in D.
      assert (exists t, In t ts /\ t <> []) as (t & Hin & Hne).
      { clear - D. induction ts as [|t r IH]; cbn in D; [discriminate|].
        destruct t as [|e t']; cbn in D.
        - destruct (IH D) as (t & Hin & Hne). exists t. split; [right; assumption|assumption].
        - exists (e :: t'). split; [left; reflexivity|discriminate]. }
      apply In_nth_error in Hin as [i Ei]. destruct (forall2_nth _ _ _ _ _ F Ei) as (m & Em & Tm).
      rewrite Forall_forall in AllFree. pose proof (AllFree m (nth_error_In _ _ Em)) as ->.
      destruct t as [|e r]; [congruence|]. cbn [trace_ok] in Tm.
      exists i. unfold sys_step. cbn [fst snd]. rewrite Ei.
      destruct e; try discriminate; cbn [rw_do]; rewrite A, ?C; cbn; eauto.
    + destruct (cnt_pos isR ms) as (i & m & Em & Hm); [lia|]. destruct m; try discriminate.
      destruct (N _ _ Em) as (t & Et & Tt). destruct t as [|e r]; [discriminate|]. cbn [trace_ok] in Tt.
      destruct e; try discriminate. exists i. unfold sys_step. cbn [fst snd]. rewrite Et. cbn [rw_do]. rewrite C. eauto.
Qed.

Lemma inv_done_free : forall st, sys_inv st -> all_done st = true -> fst st = rw_free.
Proof.
  intros [s ts] (ms & F & L) D. cbn [fst snd] in *. unfold all_done in D. cbn [snd] in D.
  assert (Forall (fun m => m = HFree) ms) as AllFree.
  { clear L. induction F; constructor.
    - cbn in D. apply andb_prop in D as [D1 _]. destruct y; [|discriminate]. destruct x; cbn in H; congruence.
    - apply IHF. cbn in D. apply andb_prop in D as [_ D2]. exact D2. }
  assert (cnt isW ms = 0 /\ cnt isR ms = 0) as [ZW ZR].
  { clear - AllFree. induction AllFree; cbn; [split; reflexivity|]. subst. cbn. exact IHAllFree. }
  destruct L as [(A & B & _)|(A & B & C)]; [lia|].
  destruct s as [w r]. cbn in *. subst. rewrite ZR. reflexivity.
Qed.

(* Goroutines whose traces are well bracketed, under ANY schedule: the process is never killed by an unlock of an
   unlocked mutex, when everybody is finished the mutex is free, and as long as somebody is not finished somebody can
   move - and every move uses up one event, so the goroutines do finish. *)
Theorem lf_no_deadlock : forall ts sched, Forall (fun t => trace_ok HFree t = true) ts ->
  let st := sys_run sched (rw_free, ts) in
  some_fatal st = false /\
  (all_done st = true -> fst st = rw_free) /\
  (all_done st = false -> exists i st', sys_step i st = Some st' /\ S (total st') = total st).
Proof.
  intros ts sched H st. pose proof (inv_run sched _ (inv_init ts H)) as I. fold st in I.
  split; [apply inv_no_fatal, I|]. split; [apply inv_done_free, I|].
  intro D. destruct (inv_progress st I D) as (i & st' & E). exists i, st'. split; [exact E|].
  apply (inv_step _ _ _ I E).
Qed.
