(* C02, concurrency: the statements derived from the linearizability invariant. *)
From Coq Require Import List ZArith Bool Arith Lia.
From PV Require Import Model.SchedTree Model.SchedConc
  Proofs.SchedTreeProofs Proofs.SchedTreeSeq Proofs.SchedTreeRun Proofs.SchedTreeSpec
  Proofs.SchedConcSections Proofs.SchedConcProofs.
Import ListNotations.
Local Open Scope Z_scope.

Definition children (c : sched) : list sched := match c with Comp l _ _ => l | _ => [] end.

Definition conc_conclusion (fuel : nat) (c0 : sched) (lo0 : Z) (ths : list thread) (st : istate) : Prop :=
  (* no section panics or exhausts its recursion budget *)
  ~ gstuck fuel (i_g st) /\
  (* the ghost history (operations in the order of their linearisation points, with the clock
     value read there) is a legal sequential history of the abstract token stream *)
  run_abs (a_init (flatten c0)) (map evt (i_log st)) = map eres (i_log st) /\
  clock_ok lo0 (map evt (i_log st)) /\ Forall nopanic (map eres (i_log st)) /\
  (* every thread obtained exactly the results of its own operations in that history, in
     program order *)
  (forall i th, nth_error (g_threads (i_g st)) i = Some th ->
     t_hist th = proj i (i_log st) /\ proj_ops i (i_log st) ++ t_todo th = todo_of ths i) /\
  (* all Next results, over all threads, are the successive answers of the stream started at
     some instant p *)
  (exists p, next_results (map eres (i_log st)) =
             nexts (next_nows (map evt (i_log st)))
                   (snd (items_from p (flatten c0))) (fst (items_from p (flatten c0)))).

Lemma conc_from_inv fuel c0 lo0 ths st0 st :
  Inv fuel (a_init (flatten c0)) lo0 (todo_of ths) st0 -> ireach fuel st0 st ->
  conc_conclusion fuel c0 lo0 ths st.
Proof.
  intros I0 R. pose proof (inv_reach _ _ _ _ _ _ I0 R) as I.
  split; [eapply inv_safe; eauto|].
  pose proof (inv_legal _ _ _ _ _ I []) as Lg. rewrite !app_nil_r in Lg. cbn [run_abs] in Lg. try rewrite app_nil_r in Lg.
  split; [exact Lg|]. split; [eapply clock_upto_ok, inv_clock; eauto|]. split; [eapply inv_nopanic; eauto|].
  split; [eapply inv_hist; eauto|].
  rewrite <- Lg. apply (run_abs_nexts (map evt (i_log st)) (a_init (flatten c0)) eq_refl).
  rewrite Lg. eapply inv_nopanic; eauto.
Qed.

(* children of any shape, each child operation taken as one atomic action *)
Theorem conc_atomic_children fuel c0 lo0 ths st :
  fresh c0 -> comp_len c0 <> 0%nat -> (size c0 <= S fuel)%nat -> init_threads ths ->
  ireach fuel {| i_g := {| g_c := c0; g_lo := lo0; g_threads := ths |};
                 i_a := a_init (flatten c0); i_log := [] |} st ->
  conc_conclusion fuel c0 lo0 ths st.
Proof. intros F NZ Sz It R. eapply conc_from_inv; [apply inv_init; eauto|exact R]. Qed.

(* the flat case: the children are leaves, whose operations ARE single atomic actions *)
Theorem conc_flat fuel c0 lo0 ths st :
  fresh c0 -> comp_len c0 <> 0%nat -> Forall is_leaf (children c0) -> (size c0 <= S fuel)%nat -> init_threads ths ->
  ireach fuel {| i_g := {| g_c := c0; g_lo := lo0; g_threads := ths |};
                 i_a := a_init (flatten c0); i_log := [] |} st ->
  conc_conclusion fuel c0 lo0 ths st.
Proof. intros F NZ _ Sz It R. eapply conc_atomic_children; eauto. Qed.

(* the same when the schedule was started by Start(t0) before the callers run *)
Theorem conc_flat_started fuel c0 c1 lo0 t0 ths st :
  fresh c0 -> comp_len c0 <> 0%nat -> Forall is_leaf (children c0) -> (size c0 <= S fuel)%nat -> init_threads ths ->
  s_start t0 c0 = Ok c1 ->
  ireach fuel {| i_g := {| g_c := c1; g_lo := lo0; g_threads := ths |};
                 i_a := a_start t0 (a_init (flatten c0));
                 i_log := [(0%nat, (lo0, OStart t0), RStart)] |} st ->
  conc_conclusion fuel c0 lo0 ths st.
Proof. intros F NZ _ Sz It E R. eapply conc_from_inv; [eapply inv_init_started; eauto|exact R]. Qed.

(* ---------- consequences ---------- *)
Lemma flatten_no_unknown_items c p :
  existsb unknown_part (flatten c) = false -> existsb is_window (fst (items_from p (flatten c))) = false.
Proof. intros H. rewrite (items_windows _ (flatten_leaves c)). exact H. Qed.

(* exactly once, in order: without unlimited parts, the Next results of all threads taken in
   linearisation order are the tokens of the schedule, each once, in order, followed by the
   finish time for every further call *)
Theorem conc_exactly_once fuel c0 lo0 ths st :
  conc_conclusion fuel c0 lo0 ths st -> existsb unknown_part (flatten c0) = false ->
  exists p, let its := fst (items_from p (flatten c0)) in let f := snd (items_from p (flatten c0)) in
    let n := length (next_nows (map evt (i_log st))) in
    next_results (map eres (i_log st)) =
    firstn n (map (fun x => (tok_time x, true)) its) ++ repeat (f, false) (n - length its).
Proof.
  intros (_ & _ & _ & _ & _ & p & E) U. exists p. cbn zeta. rewrite E.
  apply nexts_tokens. apply flatten_no_unknown_items. exact U.
Qed.

Lemma clock_mono_lower m m' nows : m' <= m -> clock_mono m nows -> clock_mono m' nows.
Proof. destruct nows as [|n r]; cbn; [auto|]. intros L [A B]. split; [lia|exact B]. Qed.

Lemma clock_ok_next_nows : forall evs lo, clock_ok lo evs -> clock_mono lo (next_nows evs).
Proof.
  induction evs as [|[now o] r IH]; intros lo C; [exact I|]. destruct C as [L C].
  rewrite nn_cons. destruct o; try (eapply clock_mono_lower; [exact L|apply IH; exact C]).
  cbn [clock_mono]. split; [exact L|apply IH; exact C].
Qed.

(* per-thread monotonicity (well-behaved leaves, unlimited parts included): the times a thread is
   given never decrease, whatever the interleaving and the (non-decreasing) clock *)
Theorem conc_thread_mono fuel c0 lo0 ths st :
  conc_conclusion fuel c0 lo0 ths st ->
  Forall leaf_ok (flatten c0) -> Forall unstarted (flatten c0) ->
  exists p, forall i th, nth_error (g_threads (i_g st)) i = Some th ->
    nondecr p (next_results (t_hist th)).
Proof.
  intros (_ & _ & C & _ & H & p & E) Lk Un. exists p. intros i th Hi.
  destruct (H i th Hi) as [-> _].
  eapply nondecr_subseq; [apply proj_next_subseq|]. rewrite E.
  apply (nexts_nondecr _ _ _ p lo0); [apply items_ordered; assumption|apply clock_ok_next_nows; exact C].
Qed.

(* after exhaustion every call of every thread returns the same finish time *)
Theorem conc_finish_stable fuel c0 lo0 ths st :
  conc_conclusion fuel c0 lo0 ths st ->
  exists f, forall j x, nth_error (next_results (map eres (i_log st))) j = Some x -> snd x = false ->
    forall j' x', (j <= j')%nat -> nth_error (next_results (map eres (i_log st))) j' = Some x' -> x' = (f, false).
Proof.
  intros (_ & _ & _ & _ & _ & p & E). exists (snd (items_from p (flatten c0))). rewrite E.
  intros j x Hj Hx. 
  assert (Ex : existsb (fun x => negb (snd x)) (nexts (next_nows (map evt (i_log st))) (snd (items_from p (flatten c0))) (fst (items_from p (flatten c0)))) = true).
  { apply existsb_exists. exists x. split; [eapply nth_error_In; eauto|rewrite Hx; reflexivity]. }
  destruct (nexts_after_fail _ _ _ Ex) as (k & _ & K). eapply K; eauto.
Qed.
