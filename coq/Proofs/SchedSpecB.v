(* Meaning of the executable specification [spec_b] of Model/Sched.v (the function the
   correspondence driver evaluates on the implementation's tokens): with zero tolerance it
   accepts, for a const or line profile, only the token stream the theorems of
   Proofs/SchedProofs.v describe: count p tokens, token k at the instant at_ p k. *)
From Coq Require Import ZArith QArith Qround Lia List Bool.
From PV Require Import Model.Sched Proofs.SchedArith Proofs.SchedQ Proofs.SchedProofs.
Import ListNotations.
Local Open Scope Z_scope.

Lemma toks_ok_nth c D tol : forall xs k0 prev,
  toks_ok c D tol k0 prev xs = true ->
  forall j x, nth_error xs j = Some x -> tok_ok c D tol (k0 + Z.of_nat j) x = true.
Proof.
  induction xs as [|y r IH]; intros k0 prev H j x Hn; [destruct j; discriminate|].
  cbn [toks_ok] in H. apply andb_prop in H. destruct H as [H Hr]. apply andb_prop in H. destruct H as [Hy _].
  destruct j as [|j]; cbn [nth_error] in Hn.
  - injection Hn as <-. rewrite Z.add_0_r. exact Hy.
  - replace (k0 + Z.of_nat (S j)) with (k0 + 1 + Z.of_nat j) by lia. eapply IH; eassumption.
Qed.

Lemma count_ok_exact total n : count_ok total 0 n = true -> n = Qfloor total.
Proof.
  unfold count_ok. intros H. apply andb_prop in H. destruct H as [H1 H2].
  apply Z.leb_le in H1, H2.
  assert (E1 : (total * (1 - 0) == total)%Q) by ring.
  assert (E2 : (total * (1 + 0) == total)%Q) by ring.
  rewrite (Qfloor_comp _ _ E1) in H1. rewrite (Qfloor_comp _ _ E2) in H2. lia.
Qed.

Theorem rate_spec_b_sound p xs : valid p -> is_rate p = true ->
  rate_spec_b (cum p) (dur p) 0 0 xs = true ->
  Z.of_nat (length xs) = count p /\
  forall j x, nth_error xs j = Some x -> at_ p (Z.of_nat j) = Some x.
Proof.
  intros Hv Hr H. unfold rate_spec_b in H. apply andb_prop in H. destruct H as [Hc Ht].
  apply count_ok_exact in Hc. rewrite <- count_spec in Hc by assumption.
  split; [exact Hc|].
  intros j x Hn.
  assert (Hj : (j < length xs)%nat) by (apply nth_error_Some; congruence).
  pose proof (toks_ok_nth _ _ _ _ _ _ Ht j x Hn) as Hk. rewrite Z.add_0_l in Hk.
  unfold tok_ok in Hk.
  apply andb_prop in Hk. destruct Hk as [Hk Hup]. apply andb_prop in Hk. destruct Hk as [Hk Hlo].
  apply andb_prop in Hk. destruct Hk as [Hx0 HxD]. apply Z.leb_le in Hx0, HxD.
  rewrite Z.sub_0_r, Z.max_r in Hlo by exact Hx0. apply Qle_bool_iff in Hlo.
  rewrite Z.add_0_r in Hup.
  assert (Hkn : 0 <= Z.of_nat j < count p) by lia.
  (* the integral over the whole duration exceeds every index below the count *)
  assert (HcD : (qz (Z.of_nat j) < cum p (dur p))%Q).
  { rewrite count_spec in Hkn by assumption.
    eapply Qlt_le_trans; [|apply Qfloor_le].
    unfold qz. rewrite <- Zlt_Qlt. lia. }
  assert (HxltD : x + 1 <= dur p).
  { destruct (Z_lt_le_dec x (dur p)) as [|Hge]; [lia|]. exfalso.
    assert (x = dur p) by lia. subst x.
    apply (Qlt_irrefl (qz (Z.of_nat j))). eapply Qlt_le_trans; eassumption. }
  apply at_unique; try assumption.
  apply orb_prop in Hup. destruct Hup as [Hup|Hup].
  - apply Z.leb_le in Hup. assert (x + 1 = dur p) as -> by lia. exact HcD.
  - unfold Qlt_bool in Hup. apply negb_true_iff in Hup.
    destruct (Qlt_le_dec (qz (Z.of_nat j)) (cum p (x + 1))) as [|Hle]; [assumption|].
    apply Qle_bool_iff in Hle. congruence.
Qed.

(* ... and it does accept that stream (the specification is not stricter than the theorems) *)
Definition at_z (p : profile) (k : nat) : Z :=
  match at_ p (Z.of_nat k) with Some x => x | None => 0 end.

Definition model_tokens (p : profile) : list Z := map (at_z p) (seq 0 (Z.to_nat (count p))).

Lemma tok_ok_model p k : valid p -> is_rate p = true -> 0 <= Z.of_nat k < count p ->
  tok_ok (cum p) (dur p) 0 (Z.of_nat k) (at_z p k) = true.
Proof.
  intros Hv Hr Hk. destruct (at_bracket p _ Hv Hr Hk) as (x & Ha & Hx0 & HxD & H1 & H2).
  unfold at_z. rewrite Ha. unfold tok_ok.
  rewrite Z.sub_0_r, Z.max_r, Z.add_0_r by exact Hx0.
  apply andb_true_intro. split; [apply andb_true_intro; split; [apply andb_true_intro; split|]|].
  - apply Z.leb_le. exact Hx0.
  - apply Z.leb_le. lia.
  - apply Qle_bool_iff. exact H1.
  - apply orb_true_intro. right. unfold Qlt_bool. apply negb_true_iff.
    destruct (Qle_bool (cum p (x + 1)) (qz (Z.of_nat k))) eqn:E; [|reflexivity].
    apply Qle_bool_iff in E. exfalso. apply (Qlt_irrefl (qz (Z.of_nat k))). eapply Qlt_le_trans; eassumption.
Qed.

Lemma toks_ok_model p : valid p -> is_rate p = true -> forall n k0 prev,
  (k0 + n <= Z.to_nat (count p))%nat -> ((0 < n)%nat -> prev <= at_z p k0) ->
  toks_ok (cum p) (dur p) 0 (Z.of_nat k0) prev (map (at_z p) (seq k0 n)) = true.
Proof.
  intros Hv Hr. induction n as [|n IH]; intros k0 prev Hle Hprev; [reflexivity|].
  cbn [seq map toks_ok].
  assert (Hk : 0 <= Z.of_nat k0 < count p) by lia.
  rewrite tok_ok_model by assumption. cbn [andb].
  assert (Hp : prev <=? at_z p k0 = true) by (apply Z.leb_le; apply Hprev; lia). rewrite Hp. cbn [andb].
  replace (Z.of_nat k0 + 1) with (Z.of_nat (S k0)) by lia.
  apply IH; [lia|]. intros Hn.
  assert (Hk' : 0 <= Z.of_nat (S k0) < count p) by lia.
  destruct (at_bracket p _ Hv Hr Hk) as (x & Ha & _).
  destruct (at_bracket p _ Hv Hr Hk') as (x' & Ha' & _).
  unfold at_z. rewrite Ha, Ha'.
  apply (at_mono p (Z.of_nat k0) (Z.of_nat (S k0)) x x' Hv Hr); try assumption; lia.
Qed.

Lemma count_nonneg p : valid p -> is_rate p = true -> 0 <= count p.
Proof.
  intros Hv Hr. rewrite count_spec by assumption.
  assert (H : (0 <= cum p (dur p))%Q).
  { rewrite (dur_rate p Hr).
    destruct p as [ops D|f t D|f t st D|n]; cbn [is_rate] in Hr; try discriminate; cbn [valid cum] in *.
    - destruct Hv as [Ho HD]. apply cum_const_nonneg; [exact Ho|unfold min_dur in HD; lia].
    - destruct Hv as (Hf & Ht & HD). apply min_dur_pos in HD.
      rewrite cum_line_frac by exact HD. destruct (rn_nonneg f t Hf Ht).
      apply Qdiv_z_nonneg; [rewrite Npoly_at_D; nia|apply line_scale_pos; exact HD]. }
  change 0 with (Qfloor 0). apply Qfloor_resp_le. exact H.
Qed.

Theorem rate_spec_b_complete p : valid p -> is_rate p = true ->
  rate_spec_b (cum p) (dur p) 0 0 (model_tokens p) = true.
Proof.
  intros Hv Hr. unfold rate_spec_b, model_tokens. apply andb_true_intro. split.
  - rewrite map_length, seq_length. pose proof (count_nonneg p Hv Hr). rewrite Z2Nat.id by assumption.
    unfold count_ok.
    assert (E1 : (cum p (dur p) * (1 - 0) == cum p (dur p))%Q) by ring.
    assert (E2 : (cum p (dur p) * (1 + 0) == cum p (dur p))%Q) by ring.
    rewrite (Qfloor_comp _ _ E1), (Qfloor_comp _ _ E2), <- count_spec by assumption.
    rewrite !Z.leb_refl. reflexivity.
  - apply (toks_ok_model p Hv Hr (Z.to_nat (count p)) 0%nat 0); [lia|].
    intros Hn. assert (Hk : 0 <= Z.of_nat 0 < count p) by lia.
    destruct (at_bracket p _ Hv Hr Hk) as (x & Ha & Hx0 & _). unfold at_z. rewrite Ha. exact Hx0.
Qed.

(* the whole observation of a const / line profile *)
Theorem spec_b_sound p left xs fin : valid p -> is_rate p = true ->
  spec_b p 0 0 left xs fin = true ->
  left = count p /\ fin = dur p /\ Z.of_nat (length xs) = count p /\
  forall j x, nth_error xs j = Some x -> at_ p (Z.of_nat j) = Some x.
Proof.
  intros Hv Hr H. unfold spec_b in H.
  apply andb_prop in H. destruct H as [H Hs]. apply andb_prop in H. destruct H as [Hl Hf].
  apply Z.eqb_eq in Hl, Hf.
  assert (Hrs : rate_spec_b (cum p) (dur p) 0 0 xs = true).
  { rewrite (dur_rate p Hr). destruct p; cbn [is_rate] in Hr; try discriminate; exact Hs. }
  destruct (rate_spec_b_sound p xs Hv Hr Hrs) as [Hn Hat].
  split; [lia|]. split; [|split; assumption].
  rewrite Hf, (dur_rate p Hr). destruct p; cbn [is_rate] in Hr; try discriminate; reflexivity.
Qed.

Theorem spec_b_complete p : valid p -> is_rate p = true ->
  spec_b p 0 0 (count p) (model_tokens p) (dur p) = true.
Proof.
  intros Hv Hr. pose proof (rate_spec_b_complete p Hv Hr) as Hc.
  pose proof (count_nonneg p Hv Hr) as Hn.
  unfold spec_b. apply andb_true_intro. split; [apply andb_true_intro; split|].
  - unfold model_tokens. rewrite map_length, seq_length, Z2Nat.id by exact Hn. apply Z.eqb_refl.
  - rewrite (dur_rate p Hr). destruct p; cbn [is_rate] in Hr; try discriminate; apply Z.eqb_refl.
  - rewrite (dur_rate p Hr) in Hc. destruct p; cbn [is_rate] in Hr; try discriminate; exact Hc.
Qed.
