(* Proofs for property C01, step and once profiles: the NewStep loop produces the documented
   levels (and never runs out of fuel), and the composite of their const schedules is the
   succession of the const profiles, level j shifted by j*D. *)
From Coq Require Import ZArith QArith Qround Lia Psatz Qfield List Bool Setoid.
From PV Require Import Model.Sched Proofs.SchedArith Proofs.SchedQ Proofs.SchedProofs.
Import ListNotations.
Local Open Scope Z_scope.

(* ---------- integers below a rational ---------- *)

Lemma Zle_Qfloor j x : j <= Qfloor x <-> (qz j <= x)%Q.
Proof.
  split; intros H.
  - eapply Qle_trans; [|apply Qfloor_le]. unfold qz. rewrite <- Zle_Qle. exact H.
  - rewrite <- (Qfloor_Z j). apply Qfloor_resp_le. exact H.
Qed.

Lemma level_le_iff f t st j : 0 < st ->
  ((f + qz (j * st) <= t)%Q <-> j <= Qfloor ((t - f) / qz st)).
Proof.
  intros Hst. rewrite Zle_Qfloor.
  assert (Hq : (0 < qz st)%Q) by (unfold qz; rewrite <- (Zlt_Qlt 0); exact Hst).
  unfold qz in *. rewrite inject_Z_mult. split; intros H.
  - apply Qle_shift_div_l; [exact Hq|].
    apply (Qplus_le_r _ _ f). setoid_replace (f + (t - f))%Q with t by ring. exact H.
  - apply (Qmult_le_r _ _ _ Hq) in H.
    assert (E : ((t - f) / inject_Z st * inject_Z st == t - f)%Q) by (field; intro E0; rewrite E0 in Hq; apply (Qlt_irrefl 0); exact Hq).
    rewrite E in H. apply (Qplus_le_r _ _ f) in H.
    setoid_replace (f + (t - f))%Q with t in H by ring. exact H.
Qed.

(* ---------- the NewStep loop ---------- *)

Definition level (f : Q) (st : Z) (j : nat) : Q := (f + qz (Z.of_nat j * st))%Q.

Lemma level_0 f st : (level f st 0 == f)%Q.
Proof. unfold level, qz. cbn. ring. Qed.

Lemma level_S f st j : (level (f + qz st) st j == level f st (S j))%Q.
Proof. unfold level, qz. rewrite Nat2Z.inj_succ. rewrite !inject_Z_mult. unfold Z.succ. rewrite inject_Z_plus. ring. Qed.

Lemma Forall2_Qeq_map (g h : nat -> Q) l : (forall j, (g j == h j)%Q) -> Forall2 Qeq (map g l) (map h l).
Proof. intros E. induction l; cbn; constructor; auto. Qed.

Lemma Forall2_Qeq_trans a b c : Forall2 Qeq a b -> Forall2 Qeq b c -> Forall2 Qeq a c.
Proof.
  intros H; revert c; induction H; intros c Hc; inversion Hc; subst; constructor.
  - eapply Qeq_trans; eassumption.
  - apply IHForall2; assumption.
Qed.

Lemma levels_loop_run t st : forall n fuel i,
  (n < fuel)%nat ->
  (forall j, (j < n)%nat -> (level i st j <= t)%Q) -> ~ (level i st n <= t)%Q ->
  exists lv, levels_loop fuel i t st = Some lv /\ Forall2 Qeq lv (map (level i st) (seq 0 n)).
Proof.
  induction n as [|n IH]; intros fuel i Hfuel Hin Hout; (destruct fuel as [|fuel]; [lia|]); cbn [levels_loop].
  - destruct (Qle_bool i t) eqn:E.
    + exfalso. apply Hout. rewrite level_0. apply Qle_bool_iff. exact E.
    + exists []. split; [reflexivity|constructor].
  - assert (E : Qle_bool i t = true).
    { apply Qle_bool_iff. rewrite <- (level_0 i st). apply Hin. lia. }
    rewrite E.
    destruct (IH fuel (i + qz st)%Q) as (lv & Hlv & Hf2).
    + lia.
    + intros j Hj. rewrite level_S. apply Hin. lia.
    + rewrite level_S. exact Hout.
    + rewrite Hlv. exists (i :: lv). split; [reflexivity|].
      cbn [seq map]. constructor; [symmetry; apply level_0|].
      rewrite <- seq_shift, map_map.
      eapply Forall2_Qeq_trans; [exact Hf2|]. apply Forall2_Qeq_map. intros j. apply level_S.
Qed.

Lemma spec_levels_le f t st : (f <= t)%Q ->
  spec_levels f t st = map (level f st) (seq 0 (Z.to_nat (Qfloor ((t - f) / qz st)) + 1)).
Proof. intros H. unfold spec_levels. apply Qle_bool_iff in H. rewrite H. reflexivity. Qed.

Lemma spec_levels_gt f t st : ~ (f <= t)%Q -> spec_levels f t st = [].
Proof.
  intros H. unfold spec_levels. destruct (Qle_bool f t) eqn:E; [|reflexivity].
  exfalso. apply H. apply Qle_bool_iff. exact E.
Qed.

Lemma floor_span_nonneg f t st : 0 < st -> (f <= t)%Q -> 0 <= Qfloor ((t - f) / qz st).
Proof.
  intros Hst Hft. apply level_le_iff; [exact Hst|]. cbn. unfold qz. cbn. ring_simplify. exact Hft.
Qed.

Theorem step_levels_spec f t st : 1 <= st ->
  exists lv, step_levels f t st = Some lv /\ Forall2 Qeq lv (spec_levels f t st).
Proof.
  intros Hst. unfold step_levels.
  destruct (Qeq_bool f t) eqn:Eb.
  - apply Qeq_bool_eq in Eb. exists [f]. split; [reflexivity|].
    rewrite spec_levels_le by (rewrite Eb; apply Qle_refl).
    assert (Qfloor ((t - f) / qz st) = 0) as ->.
    { rewrite (Qfloor_comp _ 0); [reflexivity|]. rewrite Eb. unfold Qdiv. ring. }
    cbn. constructor; [symmetry; apply level_0|constructor].
  - destruct (Qlt_le_dec t f) as [Hgt|Hle].
    + rewrite spec_levels_gt by (apply Qlt_not_le; exact Hgt).
      destruct (levels_loop_run t st 0 (step_fuel f t) f) as (lv & H1 & H2).
      * unfold step_fuel. lia.
      * intros j Hj; lia.
      * rewrite level_0. apply Qlt_not_le. exact Hgt.
      * exists lv. split; [exact H1|exact H2].
    + rewrite spec_levels_le by exact Hle.
      pose proof (floor_span_nonneg f t st ltac:(lia) Hle) as Hm0.
      set (m := Qfloor ((t - f) / qz st)) in *.
      apply levels_loop_run.
      * unfold step_fuel.
        assert (m <= Qfloor (t - f)).
        { apply Qfloor_resp_le. apply Qle_shift_div_r.
          - unfold qz. rewrite <- (Zlt_Qlt 0). lia.
          - setoid_replace ((t - f) * qz st)%Q with (qz st * (t - f))%Q by ring.
            rewrite <- (Qmult_1_l (t - f)) at 1. apply Qmult_le_compat_r.
            + unfold qz. rewrite <- (Zle_Qle 1). lia.
            + rewrite <- (Qplus_opp_r f). apply Qplus_le_l. exact Hle. }
        lia.
      * intros j Hj. unfold level. apply level_le_iff; [lia|]. fold m. lia.
      * unfold level. rewrite level_le_iff by lia. fold m. lia.
Qed.

Lemma nth_error_map_seq (g : nat -> Q) n j r :
  nth_error (map g (seq 0 n)) j = Some r -> (j < n)%nat /\ r = g j.
Proof.
  intros H.
  assert (Hj : (j < n)%nat).
  { assert (Hne : nth_error (map g (seq 0 n)) j <> None) by congruence.
    apply nth_error_Some in Hne. rewrite map_length, seq_length in Hne. exact Hne. }
  split; [exact Hj|].
  apply (nth_error_nth _ _ (g 0%nat)) in H. rewrite <- H.
  rewrite (map_nth g). rewrite seq_nth by exact Hj. reflexivity.
Qed.

(* the documented levels: level j = from + j*st, all <= to, the next one would exceed to *)
Theorem spec_levels_shape f t st : 1 <= st ->
  (forall j r, nth_error (spec_levels f t st) j = Some r -> r = level f st j /\ (r <= t)%Q) /\
  ((f <= t)%Q -> ~ (level f st (length (spec_levels f t st)) <= t)%Q) /\
  (~ (f <= t)%Q -> spec_levels f t st = []).
Proof.
  intros Hst. split; [|split].
  - intros j r Hn. destruct (Qlt_le_dec t f) as [Hgt|Hle].
    + rewrite spec_levels_gt in Hn by (apply Qlt_not_le; exact Hgt). destruct j; discriminate.
    + rewrite spec_levels_le in Hn by exact Hle.
      pose proof (floor_span_nonneg f t st ltac:(lia) Hle) as Hm0.
      apply nth_error_map_seq in Hn. destruct Hn as [Hj ->].
      split; [reflexivity|]. unfold level. apply level_le_iff; lia.
  - intros Hle. rewrite spec_levels_le by exact Hle. rewrite map_length, seq_length.
    pose proof (floor_span_nonneg f t st ltac:(lia) Hle) as Hm0.
    unfold level. rewrite level_le_iff by lia. lia.
  - apply spec_levels_gt.
Qed.

(* ---------- const schedules of equal rates are the same schedule ---------- *)

Lemma const_n_Qeq r r' D : (r == r')%Q -> (0 <= r)%Q -> 0 <= D -> const_n r D = const_n r' D.
Proof.
  intros E Hr HD. unfold const_n. apply Qtrunc_comp_nonneg.
  - rewrite const_n_cum. apply cum_const_nonneg; assumption.
  - rewrite E. reflexivity.
Qed.

Lemma const_at_Qeq r r' k : (r == r')%Q -> (0 <= r)%Q -> 0 <= k -> const_at r k = const_at r' k.
Proof.
  intros E Hr Hk. unfold const_at. apply Qtrunc_comp_nonneg.
  - apply Qmult_le_0_compat.
    + unfold qz. rewrite <- (Zle_Qle 0). exact Hk.
    + unfold Qdiv. apply Qmult_le_0_compat; [unfold qz; rewrite <- (Zle_Qle 0); pose proof ns_pos; lia|].
      apply Qinv_le_0_compat. exact Hr.
  - rewrite E. reflexivity.
Qed.

Lemma const_n_nonneg r D : (0 <= r)%Q -> 0 <= D -> 0 <= const_n r D.
Proof.
  intros Hr HD. rewrite const_n_spec by assumption. apply Zle_Qfloor.
  apply cum_const_nonneg; assumption.
Qed.

Lemma leaf_tokens_const_Qeq r r' D : (r == r')%Q -> (0 <= r)%Q -> 0 <= D ->
  leaf_tokens (leaf_const r D) = leaf_tokens (leaf_const r' D) /\
  l_n (leaf_const r D) = l_n (leaf_const r' D).
Proof.
  intros E Hr HD. assert (Hr' : (0 <= r')%Q) by (rewrite <- E; exact Hr).
  unfold leaf_tokens, leaf_const. cbn [l_n l_at]. rewrite !clamp0_nonneg by assumption.
  rewrite <- (const_n_Qeq r r' D E Hr HD). split; [|reflexivity].
  apply map_ext. intros i. f_equal. apply const_at_Qeq; [exact E|exact Hr|lia].
Qed.

(* ---------- the composite of const schedules ---------- *)

Definition level_tokens (D s : Z) (jr : nat * Q) : list (option Z) :=
  map (shift (s + Z.of_nat (fst jr) * D)) (leaf_tokens (leaf_const (snd jr) D)).

Lemma comp_tokens_levels D lv : forall s i,
  comp_tokens (map (fun r => leaf_const r D) lv) (s + Z.of_nat i * D) =
  flat_map (level_tokens D s) (combine (seq i (length lv)) lv).
Proof.
  induction lv as [|r lv IH]; intros s i; [reflexivity|].
  cbn [map comp_tokens length seq combine flat_map]. f_equal.
  change (l_dur (leaf_const r D)) with D.
  replace (s + Z.of_nat i * D + D) with (s + Z.of_nat (S i) * D) by lia.
  apply IH.
Qed.

Lemma comp_finish_levels D lv : forall s,
  comp_finish (map (fun r => leaf_const r D) lv) s = s + Z.of_nat (length lv) * D.
Proof.
  induction lv as [|r lv IH]; intros s; cbn [map comp_finish length]; [lia|].
  change (l_dur (leaf_const r D)) with D. rewrite IH. lia.
Qed.

Lemma comp_left_levels D lv : 0 <= D -> Forall (fun r => (0 <= r)%Q) lv ->
  comp_left (map (fun r => leaf_const r D) lv) = fold_right Z.add 0 (map (fun r => count (PConst r D)) lv).
Proof.
  intros HD H. induction H as [|r lv Hr _ IH]; [reflexivity|].
  cbn [map comp_left fold_right]. rewrite IH. f_equal.
  unfold leaf_left, count, the_leaf, leaf_const. cbn [l_n]. rewrite clamp0_nonneg by exact Hr.
  pose proof (const_n_nonneg r D Hr HD). lia.
Qed.

Lemma flat_map_levels_Qeq D s lv lv' : 0 <= D -> Forall2 Qeq lv lv' -> Forall (fun r => (0 <= r)%Q) lv ->
  forall i, flat_map (level_tokens D s) (combine (seq i (length lv)) lv)
          = flat_map (level_tokens D s) (combine (seq i (length lv')) lv').
Proof.
  intros HD H. induction H as [|r r' lv lv' E _ IH]; intros Hnn i; [reflexivity|].
  inversion Hnn as [|? ? Hr Hnn']; subst.
  cbn [length seq combine flat_map]. rewrite IH by exact Hnn'. f_equal.
  unfold level_tokens. cbn [fst snd]. destruct (leaf_tokens_const_Qeq r r' D E Hr HD) as [-> _]. reflexivity.
Qed.

Lemma comp_left_Qeq D lv lv' : 0 <= D -> Forall2 Qeq lv lv' -> Forall (fun r => (0 <= r)%Q) lv ->
  comp_left (map (fun r => leaf_const r D) lv) = comp_left (map (fun r => leaf_const r D) lv').
Proof.
  intros HD H. induction H as [|r r' lv lv' E _ IH]; intros Hnn; [reflexivity|].
  inversion Hnn as [|? ? Hr Hnn']; subst. cbn [map comp_left]. rewrite IH by exact Hnn'. f_equal.
  unfold leaf_left. destruct (leaf_tokens_const_Qeq r r' D E Hr HD) as [_ ->]. reflexivity.
Qed.

Lemma Forall2_length_Q (a b : list Q) : Forall2 Qeq a b -> length a = length b.
Proof. induction 1; cbn; congruence. Qed.

Lemma Forall2_Qeq_nonneg a b : Forall2 Qeq a b -> Forall (fun r => (0 <= r)%Q) b -> Forall (fun r => (0 <= r)%Q) a.
Proof.
  induction 1 as [|x y a b E _ IH]; intros Hb; constructor; inversion Hb; subst.
  - rewrite E. assumption.
  - apply IH. assumption.
Qed.

Lemma spec_levels_nonneg f t st : (0 <= f)%Q -> 1 <= st -> Forall (fun r => (0 <= r)%Q) (spec_levels f t st).
Proof.
  intros Hf Hst. unfold spec_levels. destruct (Qle_bool f t); [|constructor].
  apply Forall_forall. intros r Hin. apply in_map_iff in Hin. destruct Hin as (j & <- & _).
  rewrite <- (Qplus_0_r 0). apply Qplus_le_compat; [exact Hf|].
  unfold qz. rewrite <- (Zle_Qle 0). nia.
Qed.

(* a step profile is the succession of one const profile per documented level *)
Theorem step_drain f t st D : valid (PStep f t st D) ->
  let lv := spec_levels f t st in
  exists d, drain (PStep f t st D) = Some d /\
    d_tokens d = flat_map (level_tokens D 0) (combine (seq 0 (length lv)) lv) /\
    d_finish d = Z.of_nat (length lv) * D /\
    d_left d = fold_right Z.add 0 (map (fun r => count (PConst r D)) lv) /\
    Forall (fun r => valid (PConst r D)) lv.
Proof.
  intros (Hf & Ht & Hst & HD) lv. pose proof (min_dur_pos D HD) as HD0.
  destruct (step_levels_spec f t st Hst) as (lv' & Hlv & Hf2). fold lv in Hf2.
  pose proof (spec_levels_nonneg f t st Hf Hst) as Hnn. fold lv in Hnn.
  pose proof (Forall2_Qeq_nonneg _ _ Hf2 Hnn) as Hnn'.
  unfold drain, leaves. rewrite Hlv. cbn [option_map].
  eexists. split; [reflexivity|]. cbn [d_tokens d_finish d_left].
  split; [|split; [|split]].
  - change 0 with (0 + Z.of_nat 0 * D) at 1. rewrite comp_tokens_levels.
    apply flat_map_levels_Qeq; [lia|exact Hf2|exact Hnn'].
  - rewrite comp_finish_levels. rewrite (Forall2_length_Q _ _ Hf2). lia.
  - rewrite (comp_left_Qeq D lv' lv) by (try lia; assumption). apply comp_left_levels; [lia|exact Hnn].
  - eapply Forall_impl; [|exact Hnn]. intros r Hr. cbn. split; assumption.
Qed.

(* ---------- once ---------- *)

Lemma map_const_repeat {A B} (c : B) (l : list A) : map (fun _ => c) l = repeat c (length l).
Proof. induction l; cbn; congruence. Qed.

Theorem once_drain n : valid (POnce n) ->
  drain (POnce n) = Some {| d_left := n; d_tokens := repeat (Some 0) (Z.to_nat n); d_finish := 0 |}.
Proof.
  cbn [valid]. intros Hn. unfold drain, leaves, comp_left, comp_tokens, comp_finish, leaf_left, leaf_tokens, leaf_once.
  cbn [l_n l_dur l_at]. rewrite app_nil_r, map_map. cbn [shift option_map].
  rewrite (map_const_repeat (Some (0 + 0))), seq_length. f_equal. f_equal; lia.
Qed.
