(* http/json at the level of decoded entities: both the object stream and the array form
   deliver the entities cyclically. *)
From Coq Require Import List NArith ZArith Bool Lia.
From PV Require Import Lib.AmmoBytes Lib.AmmoLines Model.AmmoCommon Model.AmmoUri Model.AmmoJson
  Proofs.AmmoBytesProofs.
Import ListNotations.
Local Open Scope N_scope.

Lemma cycle_take_nil_any {A} k (l : list A) : cycle_take k l [] = cycle_take k l l.
Proof. destruct k; [reflexivity|]. destruct l; reflexivity. Qed.

Section JsonProofs.
  Variable url_parse : bytes -> option (bytes * bytes).

  Lemma read_array_cons d r es :
    read_array url_parse (d :: r) = Some es ->
    exists e es', entity_entry url_parse d = inl e /\ read_array url_parse r = Some es' /\ es = e :: es'.
  Proof.
    cbn [read_array]. destruct (entity_entry url_parse d) as [e|]; [|discriminate].
    destruct (read_array url_parse r) as [es'|]; [|discriminate].
    intros H. inversion H. eauto.
  Qed.

  Definition jst (all left : list entity) (a p : N) : jstate :=
    {| js_all := all; js_end := JEof; js_left := left; js_ammo := a; js_pass := p |}.

  Lemma json_run_cyclic k : forall all left es esl a p,
    read_array url_parse all = Some es -> read_array url_parse left = Some esl ->
    es <> [] -> (a = 0 -> esl <> []) ->
    json_run url_parse k cfg0 (jst all left a p) = map SDeliver (cycle_take k es esl).
  Proof.
    induction k as [|k IH]; intros all left es esl a p Hall Hleft Hne Ha; [reflexivity|].
    cbn [json_run]. unfold json_scan. change (limit_hit cfg0 (js_ammo (jst all left a p))) with false.
    cbv iota. cbn [json_loop jst js_pass js_left js_end js_ammo js_all].
    change (passes_hit cfg0 p) with false. cbv iota.
    destruct left as [|d r].
    - cbn [read_array] in Hleft. inversion Hleft; subst esl.
      destruct (N.eqb_spec a 0) as [Hz|Hnz]; [exfalso; apply (Ha Hz); reflexivity|].
      change (passes_hit cfg0 (N.succ p)) with false. cbv iota.
      destruct all as [|d r].
      { cbn [read_array] in Hall. inversion Hall; subst. contradiction. }
      destruct (read_array_cons d r es Hall) as [e [es' [E1 [E2 E3]]]].
      rewrite E1. subst es. cbn [cycle_take map]. f_equal.
      apply (IH (d :: r) r (e :: es') es' (N.succ a) (N.succ p)); auto.
      intros Hz. lia.
    - destruct (read_array_cons d r esl Hleft) as [e [es' [E1 [E2 E3]]]].
      rewrite E1. subst esl. cbn [cycle_take map]. f_equal.
      apply (IH all r es es' (N.succ a) p); auto.
      intros Hz. lia.
  Qed.

  Theorem json_stream_cyclic ents es k :
    read_array url_parse ents = Some es -> es <> [] ->
    json_stream_decode url_parse cfg0 k ents JEof = map SDeliver (cycle_take k es es).
  Proof.
    intros H Hne. unfold json_stream_decode, json_init.
    apply (json_run_cyclic k ents ents es es 0 0); auto.
  Qed.

  (* ---------- array form ---------- *)
  Lemma skipn_nth {A} (l : list A) j d :
    (j < length l)%nat -> skipn j l = nth j l d :: skipn (S j) l.
  Proof.
    revert j; induction l as [|x l IH]; intros j H; [cbn in H; lia|].
    destruct j; [reflexivity|]. cbn [skipn nth]. rewrite (IH j) by (cbn in H; lia). reflexivity.
  Qed.

  Lemma mod_succ a n :
    n <> 0 -> (N.succ a) mod n = if N.eqb (a mod n + 1) n then 0 else a mod n + 1.
  Proof.
    intros Hn. pose proof (N.div_mod a n Hn) as Hd. pose proof (N.mod_lt a n Hn) as Hl.
    destruct (N.eqb_spec (a mod n + 1) n) as [E|E].
    - symmetry. apply (N.mod_unique (N.succ a) n (a / n + 1) 0); [clear Hd; lia|nia].
    - symmetry. apply (N.mod_unique (N.succ a) n (a / n) (a mod n + 1)); [clear Hd; lia|nia].
  Qed.

  Lemma array_run_cyclic es k : forall a p,
    es <> [] ->
    array_run k cfg0 es a p =
      map SDeliver (cycle_take k es (skipn (N.to_nat (a mod nlen es)) es)).
  Proof.
    induction k as [|k IH]; intros a p Hne; [reflexivity|].
    cbn [array_run]. change (limit_hit cfg0 a) with false. cbv iota.
    destruct es as [|e0 es'] eqn:Ees; [contradiction|]. rewrite <- Ees in *.
    unfold scan_ammos. rewrite Ees at 1. change (passes_hit cfg0 p) with false. cbv iota.
    assert (Hlen : nlen es <> 0) by (rewrite Ees; cbn [nlen]; lia).
    pose proof (N.mod_lt a (nlen es) Hlen) as Hlt.
    set (j := N.to_nat (a mod nlen es)).
    assert (Hj : (j < length es)%nat).
    { unfold j. clear j. rewrite nlen_length in Hlt |- *. lia. }
    rewrite (skipn_nth es j e0 Hj). cbn [cycle_take map]. f_equal.
    rewrite IH by exact Hne.
    rewrite (mod_succ a (nlen es) Hlen).
    destruct (N.eqb_spec (a mod nlen es + 1) (nlen es)) as [E|E].
    - (* last element: wrap around *)
      assert (Hs : S j = length es).
      { unfold j. clear Hj. rewrite nlen_length in E |- *. lia. }
      rewrite Hs, skipn_all. change (N.to_nat 0) with O. cbn [skipn].
      rewrite cycle_take_nil_any. reflexivity.
    - replace (N.to_nat (a mod nlen es + 1)) with (S j) by (unfold j; lia). reflexivity.
  Qed.

  Theorem json_array_cyclic ents es k :
    read_array url_parse ents = Some es -> es <> [] ->
    json_array_decode url_parse cfg0 k ents = Some (map SDeliver (cycle_take k es es)).
  Proof.
    intros H Hne. unfold json_array_decode. rewrite H. f_equal.
    rewrite array_run_cyclic by exact Hne.
    rewrite N.mod_0_l; [reflexivity|]. destruct es; [contradiction|cbn [nlen]; lia].
  Qed.
End JsonProofs.
