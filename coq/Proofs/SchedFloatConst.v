(* Property C01, floating-point side: const.go evaluated in IEEE-754 binary64.

     NewConst:   xn := float64(duration) / 1e9 ;  n := int64(ops * xn)
     constDoAt:  billionDivOps := 1e9 / ops ;  Duration(float64(i) * billionDivOps)

   [r] is the configured rate as a real number, [ops] the float64 the code computes with:
   either ops = r (the rate is a binary64 number), or ops = rnd r (the decimal of the config /
   the quotient float64(num)/float64(M) of the harness rounded once) - in general any ops with
   |ops - r| <= u r.  Range guard: 2^-20 <= ops <= 2^40 requests per second. *)
From Coq Require Import ZArith Reals Lra Lia Psatz.
From Flocq Require Import Core.
From PV Require Import Proofs.SchedFloatCore Proofs.SchedFloatRel.
Local Open Scope R_scope.

Definition go_const_at_f (ops : R) (i : Z) : R := fmul (of_int i) (fdiv billion ops).
Definition go_const_at (ops : R) (i : Z) : Z := to_int (go_const_at_f ops i).
Definition go_secs (D : Z) : R := fdiv (of_int D) billion.
Definition go_const_n_f (ops : R) (D : Z) : R := fmul ops (go_secs D).
Definition go_const_n (ops : R) (D : Z) : Z := to_int (go_const_n_f ops D).

Definition p2_20 : R := 1048576.
Definition p2_40 : R := 1099511627776.
Definition rate_guard (ops : R) : Prop := / p2_20 <= ops <= p2_40.

(* the float64 rate is the configured rate up to one rounding *)
Definition near (r ops : R) : Prop := rel ops r u.

Lemma near_refl r : 0 <= r -> near r r.
Proof. intros H. unfold near. apply (rel_weaken _ _ 0); [exact H|pose proof u_pos; lra|apply rel_exact]. Qed.

Lemma near_rnd r : tiny <= r -> near r (rnd r).
Proof.
  intros H. unfold near, rel. pose proof (rnd_pos_bounds r H). lra.
Qed.

Ltac usmall := pose proof u_pos as Hu_pos; pose proof u_val as Hu_val;
  assert (Hu_small : u <= / 1000000) by (rewrite u_val; lra).

Lemma near_pos r ops : 0 < ops -> near r ops -> 0 < r.
Proof.
  unfold near, rel. usmall. intros Ho [H1 H2].
  destruct (Rle_or_lt r 0) as [Hr|Hr]; [|exact Hr].
  assert (r * (1 + u) <= 0) by nra. lra.
Qed.

(* ------------------------------------------------------------------------------------ *)
(* constDoAt *)

Lemma const_at_f_rel r ops i :
  near r ops -> rate_guard ops -> (0 <= i < 2 ^ 53)%Z ->
  rel (go_const_at_f ops i) (IZR i * (billion / r)) (4 * u).
Proof.
  intros Hn [Hg1 Hg2] Hi. usmall. unfold p2_20, p2_40 in *.
  assert (Ho : 0 < ops) by lra.
  pose proof (near_pos r ops Ho Hn) as Hr.
  unfold go_const_at_f, fmul, fdiv. rewrite of_int_exact by lia.
  assert (Hi0 : 0 <= IZR i) by (apply IZR_le; lia).
  assert (HB : 0 <= billion) by (unfold billion; lra).
  (* 1e9 / ops *)
  assert (HQ : rel (billion / ops) (billion / r) ((0 + u) / (1 - u))).
  { apply rel_div; try lra. apply rel_exact. exact Hn. }
  assert (Hqpos : tiny <= billion / ops).
  { pose proof tiny_le_2m100. unfold billion.
    apply Rle_trans with (1000000000 / 1099511627776); [lra|].
    unfold Rdiv. apply Rmult_le_compat_l; [lra|]. apply Rinv_le_contravar; lra. }
  assert (HBr : 0 <= billion / r) by (apply Rmult_le_pos; [exact HB|apply Rlt_le, Rinv_0_lt_compat; exact Hr]).
  set (e1 := (0 + u) / (1 - u)) in *.
  assert (He1 : 0 <= e1 <= u + 2 * u * u).
  { unfold e1. rewrite Hu_val. split; lra. }
  assert (Hq : rel (rnd (billion / ops)) (billion / r) (e1 + u + e1 * u)).
  { apply rel_rnd; [exact HBr|nra|right; exact Hqpos|exact HQ]. }
  set (e2 := e1 + u + e1 * u) in *.
  assert (He2 : 0 <= e2 <= 2 * u + 4 * u * u) by (unfold e2; nra).
  assert (Hm : rel (IZR i * rnd (billion / ops)) (IZR i * (billion / r)) (0 + e2 + 0 * e2)).
  { apply rel_mul; [exact Hi0|exact HBr|lra|nra|apply rel_exact|exact Hq]. }
  assert (HX : 0 <= IZR i * (billion / r)) by (apply Rmult_le_pos; assumption).
  apply (rel_weaken _ _ ((0 + e2 + 0 * e2) + u + (0 + e2 + 0 * e2) * u)); [exact HX| |].
  - nra.
  - apply rel_rnd; [exact HX|nra| |exact Hm].
    destruct (Z.eq_dec i 0) as [->|Hne].
    + left. ring.
    + right. assert (1 <= IZR i) by (apply IZR_le; lia).
      pose proof (rnd_pos_bounds _ Hqpos) as [Hl _].
      assert (tiny <= rnd (billion / ops)).
      { rewrite <- (rnd_id tiny).
        - apply rnd_le. exact Hqpos.
        - apply generic_format_bpow. unfold b64_exp, FLT_exp, b64_emin, b64_prec. lia. }
      pose proof tiny_pos. nra.
Qed.

(* the result of constDoAt before the conversion to time.Duration: absolute error *)
Theorem const_at_f_err r ops i :
  near r ops -> rate_guard ops -> (0 <= i < 2 ^ 53)%Z ->
  let X := IZR i * billion / r in
  Rabs (go_const_at_f ops i - X) <= X * (4 * u) /\ 0 <= go_const_at_f ops i <= X * (1 + 4 * u).
Proof.
  intros Hn Hg Hi X. pose proof (const_at_f_rel r ops i Hn Hg Hi) as H.
  replace (IZR i * (billion / r)) with X in H by (unfold X, Rdiv; ring).
  usmall. assert (Ho : 0 < ops) by (destruct Hg; unfold p2_20 in *; lra).
  pose proof (near_pos r ops Ho Hn) as Hr.
  assert (HX : 0 <= X).
  { unfold X, Rdiv. apply Rmult_le_pos; [apply Rmult_le_pos; [apply IZR_le; lia|unfold billion; lra]|].
    apply Rlt_le, Rinv_0_lt_compat; exact Hr. }
  split; [apply rel_abs; exact H|]. split; [|apply rel_upper; exact H].
  apply (rel_nonneg _ X (4 * u)); [exact HX|rewrite Hu_val; lra|exact H].
Qed.

(* after the conversion: the nanosecond differs from the exact one by at most 1 + X 2^-51 *)
Theorem const_at_err r ops i :
  near r ops -> rate_guard ops -> (0 <= i < 2 ^ 53)%Z ->
  let X := IZR i * billion / r in
  IZR (Z.abs (go_const_at ops i - Zfloor X)) < 1 + X * bpow radix2 (-51).
Proof.
  intros Hn Hg Hi X. destruct (const_at_f_err r ops i Hn Hg Hi) as (He & H0 & _). fold X in He.
  unfold go_const_at. rewrite to_int_floor by exact H0.
  apply floor_close. replace (bpow radix2 (-51)) with (4 * u); [exact He|].
  unfold u. simpl bpow. lra.
Qed.

(* with the integer tolerance of the correspondence driver: every instant X <= D is met within
   1 + D/2^40 ns (integer division), and the converted value is inside the int64 range *)
Theorem const_at_tol r ops i D :
  near r ops -> rate_guard ops -> (0 <= i < 2 ^ 53)%Z ->
  let X := IZR i * billion / r in
  X <= IZR D -> (D <= 2 ^ 62)%Z ->
  (Z.abs (go_const_at ops i - Zfloor X) <= 1 + D / 2 ^ 40)%Z /\
  (0 <= go_const_at ops i < 2 ^ 63)%Z.
Proof.
  intros Hn Hg Hi X HXD HD. destruct (const_at_f_err r ops i Hn Hg Hi) as (He & H0 & Hup). fold X in He, Hup.
  usmall.
  assert (HX : 0 <= X).
  { destruct (Rle_or_lt 0 X) as [H|H]; [exact H|]. apply Rabs_le_inv in He. nra. }
  assert (HDR : IZR D <= 4611686018427387904) by (apply IZR_le in HD; exact HD).
  unfold go_const_at. rewrite to_int_floor by exact H0. split.
  - apply floor_close_tol; [lia|].
    apply Rle_trans with (X * (4 * u)); [exact He|].
    apply Rle_trans with (IZR D * (4 * u)); [apply Rmult_le_compat_r; lra|].
    apply Rmult_le_compat_l; [lra|]. rewrite Hu_val.
    replace (IZR (2 ^ 40)) with 1099511627776 by (simpl; reflexivity). lra.
  - split.
    + apply Zfloor_lub. exact H0.
    + apply lt_IZR. apply Rle_lt_trans with (go_const_at_f ops i); [apply Zfloor_lb|].
      replace (IZR (2 ^ 63)) with 9223372036854775808 by (simpl; reflexivity).
      assert (X * (1 + 4 * u) <= 4611686018427387904 * (1 + 4 * u)) by (apply Rmult_le_compat_r; lra).
      rewrite Hu_val in *. lra.
Qed.

(* ------------------------------------------------------------------------------------ *)
(* NewConst: the number of operations *)

Lemma go_secs_rel D : (1 <= D < 2 ^ 63)%Z -> rel (go_secs D) (IZR D / billion) (2 * u + u * u) /\ tiny <= go_secs D.
Proof.
  intros HD. usmall. unfold go_secs, fdiv, of_int.
  assert (HD1 : 1 <= IZR D) by (apply IZR_le; lia).
  pose proof tiny_le_2m100 as Ht. pose proof tiny_pos as Ht0.
  assert (H1 : rel (rnd (IZR D)) (IZR D) (0 + u + 0 * u)).
  { apply rel_rnd; [lra|lra|right; lra|apply rel_exact]. }
  assert (HB : 0 < billion) by (unfold billion; lra).
  assert (H2 : rel (rnd (IZR D) / billion) (IZR D / billion) (((0 + u + 0 * u) + 0) / (1 - 0))).
  { apply rel_div; try lra. exact H1. apply rel_exact. }
  set (e2 := ((0 + u + 0 * u) + 0) / (1 - 0)) in *.
  assert (He2 : e2 = u) by (unfold e2; field).
  assert (HDB : 0 <= IZR D / billion) by (apply Rmult_le_pos; [lra|apply Rlt_le, Rinv_0_lt_compat; exact HB]).
  assert (Hlow : / 2000000000 <= rnd (IZR D) / billion).
  { destruct H1 as [H1 _]. unfold Rdiv, billion in *.
    apply Rle_trans with ((1 * (1 - u)) * / 1000000000); [rewrite Hu_val; lra|].
    apply Rmult_le_compat_r; [lra|]. apply Rle_trans with (IZR D * (1 - (0 + u + 0 * u))); [|exact H1].
    rewrite Hu_val. nra. }
  assert (Htl : tiny <= rnd (IZR D) / billion) by lra.
  split.
  - apply (rel_weaken _ _ (e2 + u + e2 * u)); [exact HDB|rewrite He2, Hu_val; lra|].
    apply rel_rnd; [exact HDB|rewrite He2, Hu_val; lra|right; exact Htl|exact H2].
  - rewrite <- (rnd_id tiny).
    + apply rnd_le. exact Htl.
    + apply generic_format_bpow. unfold b64_exp, FLT_exp, b64_emin, b64_prec. lia.
Qed.

Lemma const_n_f_rel r ops D :
  near r ops -> ops = 0 \/ rate_guard ops -> (1000000 <= D < 2 ^ 63)%Z ->
  rel (go_const_n_f ops D) (r * (IZR D / billion)) (5 * u) /\ 0 <= r.
Proof.
  intros Hn Hg HD. usmall.
  destruct (go_secs_rel D) as [Hs Hst]; [lia|].
  assert (HD1 : 1000000 <= IZR D) by (apply IZR_le; lia).
  assert (HB : 0 < billion) by (unfold billion; lra).
  assert (HDB : / 1000 <= IZR D / billion).
  { unfold Rdiv, billion. apply Rle_trans with (1000000 * / 1000000000); [lra|]. apply Rmult_le_compat_r; lra. }
  assert (Hr : 0 <= r).
  { destruct Hg as [->|[Hg _]].
    - destruct Hn as [H1 H2]. destruct (Rle_or_lt 0 r); [assumption|]. rewrite Hu_val in *. nra.
    - apply Rlt_le, (near_pos r ops); [unfold p2_20 in Hg; lra|exact Hn]. }
  split; [|exact Hr].
  unfold go_const_n_f, fmul.
  assert (Hm : rel (ops * go_secs D) (r * (IZR D / billion)) (u + (2 * u + u * u) + u * (2 * u + u * u))).
  { apply rel_mul; [exact Hr|lra|rewrite Hu_val; lra|rewrite Hu_val; lra|exact Hn|exact Hs]. }
  assert (HX : 0 <= r * (IZR D / billion)) by (apply Rmult_le_pos; lra).
  apply (rel_weaken _ _ ((u + (2 * u + u * u) + u * (2 * u + u * u)) + u + (u + (2 * u + u * u) + u * (2 * u + u * u)) * u)); [exact HX|rewrite Hu_val; lra|].
  apply rel_rnd; [exact HX|rewrite Hu_val; lra| |exact Hm].
  destruct Hg as [->|[Hg1 Hg2]]; [left; ring|right].
  unfold p2_20 in *. pose proof tiny_le_2m100. pose proof tiny_pos.
  (* go_secs D >= 1e-3 (1 - 3u) *)
  destruct Hs as [Hs1 _].
  assert (/ 2000 <= go_secs D).
  { apply Rle_trans with (IZR D / billion * (1 - (2 * u + u * u))); [|exact Hs1]. rewrite Hu_val. nra. }
  apply Rle_trans with (/ 1048576 * / 2000); [lra|]. apply Rmult_le_compat; lra.
Qed.

(* the float product before int64(): relative error 5u < 2^-50 against the exact integral *)
Theorem const_n_f_err r ops D :
  near r ops -> ops = 0 \/ rate_guard ops -> (1000000 <= D < 2 ^ 63)%Z ->
  let I := r * IZR D / billion in
  Rabs (go_const_n_f ops D - I) <= I * bpow radix2 (-50) /\ 0 <= go_const_n_f ops D /\ 0 <= I.
Proof.
  intros Hn Hg HD I. destruct (const_n_f_rel r ops D Hn Hg HD) as [H Hr]. usmall.
  replace (r * (IZR D / billion)) with I in H by (unfold I, Rdiv; ring).
  assert (HI : 0 <= I).
  { unfold I, Rdiv, billion. apply Rmult_le_pos; [apply Rmult_le_pos; [exact Hr|apply IZR_le; lia]|lra]. }
  assert (Hb : bpow radix2 (-50) = 8 * u) by (unfold u; simpl bpow; lra).
  rewrite Hb. split; [|split; [|exact HI]].
  - apply rel_abs. apply (rel_weaken _ _ (5 * u)); [exact HI|lra|exact H].
  - apply (rel_nonneg _ I (5 * u)); [exact HI|rewrite Hu_val; lra|exact H].
Qed.

(* the count: it lies between the floors of I(1 - 2^-50) and I(1 + 2^-50); it can differ from the
   exact floor of I only if an integer lies within I 2^-50 of I; it fits int64 when I <= 2^62 *)
Theorem const_n_err r ops D :
  near r ops -> ops = 0 \/ rate_guard ops -> (1000000 <= D < 2 ^ 63)%Z ->
  let I := r * IZR D / billion in
  let eps := bpow radix2 (-50) in
  (Zfloor (I * (1 - eps)) <= go_const_n ops D <= Zfloor (I * (1 + eps)))%Z /\
  (go_const_n ops D <> Zfloor I -> exists m : Z, Rabs (IZR m - I) <= I * eps) /\
  (I <= bpow radix2 62 -> (0 <= go_const_n ops D < 2 ^ 63)%Z).
Proof.
  intros Hn Hg HD I eps. destruct (const_n_f_err r ops D Hn Hg HD) as (He & H0 & HI).
  fold I in He. fold eps in He. set (P := go_const_n_f ops D) in *.
  unfold go_const_n. fold P. rewrite to_int_floor by exact H0.
  apply Rabs_le_inv in He. split; [|split].
  - split; apply Zfloor_le; lra.
  - intros Hne. destruct (Z_lt_le_dec (Zfloor P) (Zfloor I)) as [Hlt|Hge].
    + (* P < floor I <= I *)
      exists (Zfloor I). pose proof (Zfloor_lb I). pose proof (Zfloor_ub P).
      assert (IZR (Zfloor P) + 1 <= IZR (Zfloor I)) by (rewrite <- plus_IZR; apply IZR_le; lia).
      apply Rabs_le. lra.
    + exists (Zfloor P). pose proof (Zfloor_lb P). pose proof (Zfloor_ub I).
      assert (IZR (Zfloor I) + 1 <= IZR (Zfloor P)) by (rewrite <- plus_IZR; apply IZR_le; lia).
      apply Rabs_le. lra.
  - intros Hb. split; [apply Zfloor_lub; exact H0|].
    apply lt_IZR. apply Rle_lt_trans with P; [apply Zfloor_lb|].
    replace (IZR (2 ^ 63)) with 9223372036854775808 by (simpl; reflexivity).
    assert (Heps : eps = / 1125899906842624) by (unfold eps; simpl bpow; reflexivity).
    assert (Hb' : I <= 4611686018427387904) by (simpl bpow in Hb; exact Hb).
    rewrite Heps in *. nra.
Qed.
