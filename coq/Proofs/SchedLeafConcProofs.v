(* The fine-grained doAtSchedule (Model/SchedLeafConc.v) is a linearizable implementation of the
   atomic leaf [DoAt] of Model/SchedTree.v: whatever the interleaving of the micro-steps of any number
   of threads calling Next / Left, nothing panics, there is ONE start instant, and the operations -
   ordered by the step in which they take effect (the atomic increment / load of the counter) - return
   what the sequential [s_next] / [s_left] return on a leaf started at that instant. *)
From Coq Require Import List ZArith Bool Arith Lia.
From PV Require Import Model.SchedTree Model.SchedLeafConc.
Import ListNotations.
Local Open Scope Z_scope.

Definition kB1 := [KAct AMarkStarted; KAct ASetStartNow; KOnceExit; KAct AIncI; KAct ARetByIndex].
Definition kB2 := [KAct ASetStartNow; KOnceExit; KAct AIncI; KAct ARetByIndex].
Definition kB3 := [KOnceExit; KAct AIncI; KAct ARetByIndex].
Definition kA1 := [KAct AIncI; KAct ARetByIndex].
Definition kA2 := [KAct ARetByIndex].

Definition is_kA2 (k : list kont) : bool := match k with [KAct ARetByIndex] => true | _ => false end.
Definition idle (th : lthread) : Prop := lt_k th = [].
Definition nl_op (o : op) : Prop := match o with OStart _ => False | _ => True end.
Definition nl_thread (th : lthread) : Prop := Forall nl_op (lt_todo th).
Definition is_next (x : nat * Z * op * obs) : bool := match snd (fst x) with ONext => true | _ => false end.
Definition count_next (gh : list (nat * Z * op * obs)) : nat := length (filter is_next gh).

(* ---------------------------------------------------------------- lists *)
Lemma nth_lupd_same {A} (l : list A) i x y : nth_error l i = Some y -> nth_error (lupd i x l) i = Some x.
Proof. revert i; induction l; intros [|i] H; cbn in *; try discriminate; auto. Qed.
Lemma nth_lupd_other {A} (l : list A) i j x : i <> j -> nth_error (lupd i x l) j = nth_error l j.
Proof. revert i j; induction l; intros [|i] [|j] H; cbn; auto; try congruence. Qed.
Lemma nth_lupd_inv {A} (l : list A) i j x y :
  nth_error (lupd i x l) j = Some y -> (i = j /\ y = x) \/ (i <> j /\ nth_error l j = Some y).
Proof.
  intros H. destruct (Nat.eq_dec i j) as [->|N].
  - left. split; auto. destruct (nth_error l j) eqn:E.
    + rewrite (nth_lupd_same _ _ _ _ E) in H. congruence.
    + exfalso. revert j H E. induction l; intros [|j] H E; cbn in *; try discriminate; eauto.
  - right. rewrite nth_lupd_other in H; auto.
Qed.
Lemma Forall_lupd {A} (P : A -> Prop) l i x : Forall P l -> P x -> Forall P (lupd i x l).
Proof. intros F; revert i; induction F; intros [|i] Hx; cbn; auto. Qed.
Lemma Forall_nth {A} (P : A -> Prop) l i x : Forall P l -> nth_error l i = Some x -> P x.
Proof. intros F H. rewrite Forall_forall in F. eapply F, nth_error_In; eauto. Qed.
Lemma Forall_from_nth {A} (P : A -> Prop) l : (forall i x, nth_error l i = Some x -> P x) -> Forall P l.
Proof.
  intros H. apply Forall_forall. intros x Hx. destruct (In_nth_error _ _ Hx) as [i Hi]. eauto.
Qed.

Lemma ghost_of_app j gh i c o r :
  ghost_of j (gh ++ [(i, c, o, r)]) =
  if Nat.eqb i j && negb (is_ostart o) then ghost_of j gh ++ [r] else ghost_of j gh.
Proof.
  unfold ghost_of. rewrite filter_app, map_app. cbn.
  destruct (Nat.eqb i j && negb (is_ostart o)); cbn; auto using app_nil_r.
Qed.

Section Leaf.
Variables (n : nat) (d : Z) (a : nat -> Z).

Definition pend (st : Z) (th : lthread) : list obs :=
  if is_kA2 (lt_k th) then [next_res n d a st (lt_idx th)] else [].

(* the ghost history is a legal sequential history of the atomic leaf started at [st], from counter [i] *)
Fixpoint spec_res (st : Z) (i : nat) (gh : list (nat * Z * op * obs)) : Prop :=
  match gh with
  | [] => True
  | (_, _, ONext, r) :: t => r = next_res n d a st i /\ spec_res st (S i) t
  | (_, _, OLeft, r) :: t => r = RLeft (Z.of_nat (n - i)) /\ spec_res st i t
  | (_, _, OStart _, _) :: _ => False
  end.

Lemma spec_res_app st gh : forall i j c o r,
  spec_res st i gh -> spec_res st (i + count_next gh) [(j, c, o, r)] -> spec_res st i (gh ++ [(j, c, o, r)]).
Proof.
  induction gh as [|[[[j0 c0] o0] r0] t IH]; intros i j c o r H1 H2.
  - cbn in *. now rewrite Nat.add_0_r in H2.
  - cbn [app]. destruct o0; cbn in H1 |- *; try tauto; destruct H1 as [E H1]; split; auto; apply IH; auto;
      unfold count_next in *; cbn in H2; rewrite ?Nat.add_succ_r in H2; auto.
Qed.

Lemma spec_res_left_indep st st' gh : forall i,
  Forall (fun x => snd (fst x) = OLeft) gh -> spec_res st i gh -> spec_res st' i gh.
Proof.
  induction gh as [|[[[j0 c0] o0] r0] t IH]; intros i F H; cbn in *; auto.
  inversion F; subst. cbn in H2. subst o0. destruct H as [E H]. split; auto.
Qed.

Lemma count_next_app gh j c o r :
  count_next (gh ++ [(j, c, o, r)]) = (count_next gh + match o with ONext => 1 | _ => 0 end)%nat.
Proof. unfold count_next. rewrite filter_app, app_length. cbn. destruct o; cbn; lia. Qed.

Lemma count_next_left gh : Forall (fun x => snd (fst x) = OLeft) gh -> count_next gh = 0%nat.
Proof.
  induction 1 as [|[[[j c] o] r] t E F IH]; auto. cbn in E. subst o. unfold count_next in *. cbn. exact IH.
Qed.

(* link with the atomic leaf of Model/SchedTree.v *)
Lemma spec_res_run_tree st c fuel gh : forall i,
  spec_res st i gh ->
  run_tree (S fuel) (DoAt n d a i (Some st)) (map (fun x => (c, snd (fst x))) gh) = map snd gh.
Proof.
  induction gh as [|[[[j c0] o] r] t IH]; intros i H; auto.
  destruct o; cbn in H; try tauto; destruct H as [E H]; subst r.
  - cbn [map fst snd run_tree s_next]. unfold next_res.
    destruct (i <? n)%nat; cbn [map snd]; f_equal; apply IH; auto.
  - cbn [map fst snd run_tree s_left]. f_equal. apply IH; auto.
Qed.

(* ---------------------------------------------------------------- invariant *)
Variables (bounded : bool) (lo0 : Z) (fixedst : option Z).

Definition bnd (g : lgstate) : Prop := bounded = true -> lo0 <= l_start (lg_s g) <= lg_lo g.

Lemma bnd_keep g g' :
  bnd g -> l_start (lg_s g') = l_start (lg_s g) -> lg_lo g <= lg_lo g' -> bnd g'.
Proof. unfold bnd. intros B E L Hb. specialize (B Hb). rewrite E. lia. Qed.

Lemma bnd_intro g : (bounded = true -> lo0 <= l_start (lg_s g) <= lg_lo g) -> bnd g.
Proof. auto. Qed.
Lemma bnd_elim g : bnd g -> bounded = true -> lo0 <= l_start (lg_s g) <= lg_lo g.
Proof. auto. Qed.
Opaque bnd.

Definition phase (g : lgstate) : Prop :=
  let s := lg_s g in let ths := lg_threads g in
  (l_started s = false /\ l_done s = false /\ l_busy s = false /\ Forall idle ths)
  \/ (l_done s = false /\ l_busy s = true /\ exists j th, nth_error ths j = Some th /\
       ((lt_k th = kB1 /\ l_started s = false) \/ (lt_k th = kB2 /\ l_started s = true)
        \/ (lt_k th = kB3 /\ l_started s = true /\ bnd g)) /\
       forall j' th', nth_error ths j' = Some th' -> j' <> j -> idle th')
  \/ (l_started s = true /\ l_done s = true /\ l_busy s = false /\ bnd g /\
       Forall (fun th => lt_k th = [] \/ lt_k th = kA1 \/ lt_k th = kA2) ths).

Record Inv (g : lgstate) : Prop := {
  inv_nl : Forall nl_thread (lg_threads g);
  inv_lo : lo0 <= lg_lo g;
  inv_phase : phase g;
  inv_early : l_done (lg_s g) = false ->
              l_i (lg_s g) = 0%nat /\ Forall (fun x => snd (fst x) = OLeft) (lg_ghost g);
  inv_spec : spec_res (l_start (lg_s g)) 0 (lg_ghost g);
  inv_cnt : count_next (lg_ghost g) = l_i (lg_s g);
  inv_hist : forall j th, nth_error (lg_threads g) j = Some th ->
             ghost_of j (lg_ghost g) = lt_hist th ++ pend (l_start (lg_s g)) th;
  (* after an explicit Start(t) the start field is never written again *)
  inv_fix : forall t, fixedst = Some t -> l_start (lg_s g) = t /\ l_done (lg_s g) = true
}.

Ltac solve_bnd :=
  match goal with H : bnd ?g |- bnd _ => apply (bnd_keep _ _ H); cbn; auto; lia end.

Lemma nl_tl th r : nl_thread th -> nl_thread (lt_return th r).
Proof. unfold nl_thread. cbn. intros F. destruct (lt_todo th); auto. inversion F; auto. Qed.

Lemma pend_idle st th : lt_k th = [] -> pend st th = [].
Proof. unfold pend. intros ->. reflexivity. Qed.

(* an idle thread performing Left: possible in every phase *)
Lemma idle_left_step g i th now r0 :
  Inv g -> nth_error (lg_threads g) i = Some th -> lg_lo g <= now ->
  lt_k th = [] -> lt_todo th = OLeft :: r0 ->
  let v := RLeft (Z.of_nat (n - l_i (lg_s g))) in
  Inv (lg_after g i now (lg_s g) (lt_return th v) (Some (OLeft, v))).
Proof.
  intros I Hn Hlo Hk Ht v. destruct I as [Inl Ilo Iph Iea Isp Icn Ihi Ifx].
  assert (Hret : lt_k (lt_return th v) = []) by reflexivity.
  constructor; cbn [lg_after lg_s lg_lo lg_threads lg_ghost].
  - apply Forall_lupd; auto. apply nl_tl. eapply Forall_nth; eauto.
  - lia.
  - unfold phase in *. cbn [lg_after lg_s lg_lo lg_threads lg_ghost].
    destruct Iph as [(A & B & C & F)|[(B & C & j & thj & Hj & Hpos & Hoth)|(A & B & C & Bd & F)]].
    + left. repeat split; auto. apply Forall_lupd; auto.
    + right; left. split; auto. split; auto.
      assert (i <> j).
      { intros ->. rewrite Hn in Hj. inversion Hj; subst thj.
        destruct Hpos as [[K _]|[[K _]|[K _]]]; rewrite Hk in K; discriminate. }
      exists j, thj. rewrite nth_lupd_other by auto. split; auto. split.
      * destruct Hpos as [P|[P|(P1 & P2 & P3)]]; auto. right; right. repeat split; auto. solve_bnd.
      * intros j' th' H' Nj. apply nth_lupd_inv in H'. destruct H' as [[-> ->]|[_ H']]; [exact Hret|eauto].
    + right; right. repeat split; auto; try solve_bnd.
      apply Forall_lupd; auto.
  - intros Hd. destruct (Iea Hd) as [E F]. split; auto. apply Forall_app; split; auto.
  - apply spec_res_app; auto. cbn. rewrite Icn. split; auto.
  - rewrite count_next_app. lia.
  - intros j th' H'. rewrite ghost_of_app. apply nth_lupd_inv in H'. destruct H' as [[-> ->]|[Nj H']].
    + rewrite Nat.eqb_refl. cbn [andb negb is_ostart]. rewrite (Ihi _ _ Hn). rewrite pend_idle by auto. rewrite pend_idle by auto.
      cbn. now rewrite !app_nil_r.
    + apply Nat.eqb_neq in Nj. rewrite Nj. cbn [andb]. auto.
  - auto.
Qed.

Ltac st_simpl := cbn [lg_after lg_s lg_lo lg_threads lg_ghost l_started l_done l_busy l_start l_i l_fin] in *.

(* a step that changes only the stepping thread's code (no ghost, state fields given explicitly) *)
Lemma inv_step : forall g g', Inv g -> lgstep n d a doat_progs g g' -> Inv g'.
Proof.
  intros g g' I St. destruct St as [g i th now s' th' e Hn Hlo Hst].
  assert (Hnl : nl_thread th) by (eapply Forall_nth; [apply (inv_nl _ I)|eauto]).
  unfold lstep in Hst. destruct (lt_todo th) as [|o r0] eqn:Ht; [discriminate|].
  assert (No : nl_op o) by (unfold nl_thread in Hnl; rewrite Ht in Hnl; inversion Hnl; auto).
  pose proof (inv_phase _ I) as Iph. unfold phase in Iph.
  destruct (lt_k th) as [|c k0] eqn:Hk.
  - (* the thread begins an operation *)
    destruct o; [destruct No| |].
    + (* Next: the Once *)
      cbn in Hst.
      destruct (l_done (lg_s g)) eqn:Hd.
      * (* done: skip *)
        inversion Hst; subst s' th' e; clear Hst.
        destruct Iph as [(A & B & C & F)|[(B & C & _)|(A & B & C & Bd & F)]]; try congruence.
        destruct I as [Inl Ilo _ Iea Isp Icn Ihi Ifx].
        constructor; st_simpl; auto; try (intros t0 Hf0; destruct (Ifx t0 Hf0); congruence).
        -- apply Forall_lupd; auto; try exact Hnl.
        -- lia.
        -- unfold phase. st_simpl. right; right. repeat split; auto; try solve_bnd.
           apply Forall_lupd; auto.
        -- intros j th' H'. apply nth_lupd_inv in H'. destruct H' as [[-> ->]|[Nj H']]; auto.
           rewrite (Ihi _ _ Hn). unfold pend. rewrite Hk. reflexivity.
      * destruct (l_busy (lg_s g)) eqn:Hb; [discriminate|].
        inversion Hst; subst s' th' e; clear Hst.
        destruct Iph as [(A & B & C & F)|[(B & C & _)|(A & B & C & Bd & F)]]; try congruence.
        destruct I as [Inl Ilo _ Iea Isp Icn Ihi Ifx].
        constructor; st_simpl; auto; try (intros t0 Hf0; destruct (Ifx t0 Hf0); congruence).
        -- apply Forall_lupd; auto; try exact Hnl.
        -- lia.
        -- unfold phase. st_simpl. right; left. repeat split; auto.
           eexists i, _. split; [eapply nth_lupd_same; eauto|]. split.
           ++ left. split; [reflexivity|auto].
           ++ intros j' th' H' Nj. rewrite nth_lupd_other in H' by auto. eapply Forall_nth; eauto.
        -- intros j th' H'. apply nth_lupd_inv in H'. destruct H' as [[-> ->]|[Nj H']]; auto.
           rewrite (Ihi _ _ Hn). unfold pend. rewrite Hk. reflexivity.
    + (* Left *)
      cbn in Hst. inversion Hst; subst s' th' e; clear Hst.
      eapply idle_left_step; eauto.
  - (* in the middle of a Next *)
    assert (Hpos : (c :: k0 = kB1 /\ l_started (lg_s g) = false /\ l_done (lg_s g) = false /\ l_busy (lg_s g) = true /\
                     (forall j' th', nth_error (lg_threads g) j' = Some th' -> j' <> i -> idle th'))
                   \/ (c :: k0 = kB2 /\ l_started (lg_s g) = true /\ l_done (lg_s g) = false /\ l_busy (lg_s g) = true /\
                     (forall j' th', nth_error (lg_threads g) j' = Some th' -> j' <> i -> idle th'))
                   \/ (c :: k0 = kB3 /\ l_started (lg_s g) = true /\ l_done (lg_s g) = false /\ l_busy (lg_s g) = true /\ bnd g /\
                     (forall j' th', nth_error (lg_threads g) j' = Some th' -> j' <> i -> idle th'))
                   \/ ((c :: k0 = kA1 \/ c :: k0 = kA2) /\ l_started (lg_s g) = true /\ l_done (lg_s g) = true /\
                       l_busy (lg_s g) = false /\ bnd g /\
                       Forall (fun th => lt_k th = [] \/ lt_k th = kA1 \/ lt_k th = kA2) (lg_threads g))).
    { destruct Iph as [(A & B & C & F)|[(B & C & j & thj & Hj & Hp & Hoth)|(A & B & C & Bd & F)]].
      - pose proof (Forall_nth _ _ _ _ F Hn) as Hi. unfold idle in Hi. congruence.
      - destruct (Nat.eq_dec i j) as [->|Nij].
        + rewrite Hn in Hj. inversion Hj; subst thj. rewrite Hk in Hp.
          destruct Hp as [[P1 P2]|[[P1 P2]|(P1 & P2 & P3)]]; [left|right; left|right; right; left]; repeat split; auto.
        + pose proof (Hoth _ _ Hn Nij) as Hi. unfold idle in Hi. congruence.
      - right; right; right. pose proof (Forall_nth _ _ _ _ F Hn) as Hi. cbn in Hi. rewrite Hk in Hi.
        destruct Hi as [Hi|Hi]; [discriminate|]. repeat split; auto. }
    destruct I as [Inl Ilo _ Iea Isp Icn Ihi Ifx].
    assert (Hgoto : forall idx k, k <> [] -> nl_thread (lt_goto th idx k)).
    { intros idx k Nk. unfold nl_thread, lt_goto. destruct k; [congruence|]. exact Hnl. }
    destruct Hpos as [(K & A & B & C & Hoth)|[(K & A & B & C & Hoth)|[(K & A & B & C & Bd & Hoth)|(K & A & B & C & Bd & F)]]].
    + (* MarkStarted *)
      inversion K; subst c k0. cbn in Hst. rewrite A in Hst. inversion Hst; subst s' th' e; clear Hst.
      constructor; st_simpl; auto; try (intros t0 Hf0; destruct (Ifx t0 Hf0); congruence).
      * apply Forall_lupd; auto; try (apply Hgoto; discriminate).
      * lia.
      * unfold phase. st_simpl. right; left. repeat split; auto.
        eexists i, _. split; [eapply nth_lupd_same; eauto|]. split.
        -- right; left. split; [reflexivity|auto].
        -- intros j' th' H' Nj. rewrite nth_lupd_other in H' by auto. eauto.
      * intros j th' H'. apply nth_lupd_inv in H'. destruct H' as [[-> ->]|[Nj H']]; auto.
        rewrite (Ihi _ _ Hn). unfold pend. rewrite Hk. reflexivity.
    + (* start = now *)
      inversion K; subst c k0. cbn in Hst. inversion Hst; subst s' th' e; clear Hst.
      destruct (Iea B) as [Ei Fl].
      constructor; st_simpl; auto; try (intros t0 Hf0; destruct (Ifx t0 Hf0); congruence).
      * apply Forall_lupd; auto; try (apply Hgoto; discriminate).
      * lia.
      * unfold phase. st_simpl. right; left. repeat split; auto.
        eexists i, _. split; [eapply nth_lupd_same; eauto|]. split.
        -- right; right. split; [reflexivity|]. split; auto. apply bnd_intro. intros _. cbn. lia.
        -- intros j' th' H' Nj. rewrite nth_lupd_other in H' by auto. eauto.
      * eapply spec_res_left_indep; eauto.
      * intros j th' H'. apply nth_lupd_inv in H'. destruct H' as [[-> ->]|[Nj H']].
        -- rewrite (Ihi _ _ Hn). unfold pend. rewrite Hk. reflexivity.
        -- rewrite (Ihi _ _ H'). pose proof (Hoth _ _ H' (not_eq_sym Nj)) as Hi.
           rewrite !pend_idle; auto.
    + (* end of the Once body *)
      inversion K; subst c k0. cbn in Hst. inversion Hst; subst s' th' e; clear Hst.
      constructor; st_simpl; auto; try (intros t0 Hf0; destruct (Ifx t0 Hf0); congruence).
      * apply Forall_lupd; auto; try (apply Hgoto; discriminate).
      * lia.
      * unfold phase in *. st_simpl. right; right. repeat split; auto; try solve_bnd.
        apply Forall_from_nth. intros j th' H'. apply nth_lupd_inv in H'. destruct H' as [[-> ->]|[Nj H']].
        -- right; left. reflexivity.
        -- left. apply (Hoth _ _ H'). auto.
      * intros j th' H'. apply nth_lupd_inv in H'. destruct H' as [[-> ->]|[Nj H']]; auto.
        rewrite (Ihi _ _ Hn). unfold pend. rewrite Hk. reflexivity.
    + destruct K as [K|K]; inversion K; subst c k0; cbn in Hst; inversion Hst; subst s' th' e; clear Hst.
      * (* the atomic increment: the Next takes effect *)
        constructor; st_simpl; auto; try (intros t0 Hf0; destruct (Ifx t0 Hf0); congruence).
        -- apply Forall_lupd; auto; try (apply Hgoto; discriminate).
        -- lia.
        -- unfold phase in *. st_simpl. right; right. repeat split; auto; try solve_bnd.
           apply Forall_lupd; auto.
        -- intros Hx; congruence.
        -- apply spec_res_app; auto. cbn. rewrite Icn. auto.
        -- rewrite count_next_app. lia.
        -- intros j th' H'. rewrite ghost_of_app. apply nth_lupd_inv in H'. destruct H' as [[-> ->]|[Nj H']].
           ++ rewrite Nat.eqb_refl. cbn [andb negb is_ostart]. rewrite (Ihi _ _ Hn). unfold pend. rewrite Hk. cbn. now rewrite app_nil_r.
           ++ apply Nat.eqb_neq in Nj. rewrite Nj. cbn [andb]. auto.
      * (* return *)
        constructor; st_simpl; auto; try (intros t0 Hf0; destruct (Ifx t0 Hf0); congruence).
        -- apply Forall_lupd; auto; try (apply nl_tl; auto).
        -- lia.
        -- unfold phase in *. st_simpl. right; right. repeat split; auto; try solve_bnd.
           apply Forall_lupd; auto.
        -- intros j th' H'. apply nth_lupd_inv in H'. destruct H' as [[-> ->]|[Nj H']]; auto.
           rewrite (Ihi _ _ Hn). unfold pend. rewrite Hk. cbn. now rewrite app_nil_r.
Qed.

Lemma inv_reach g0 g : Inv g0 -> lreach n d a doat_progs g0 g -> Inv g.
Proof. intros I R. induction R; auto. eapply inv_step; eauto. Qed.

Lemma inv_safe g : Inv g -> ~ lstuck n d a doat_progs g.
Proof.
  intros I (i & th & now & k & Hn & Hlo & Hst).
  unfold lstep in Hst. destruct (lt_todo th) as [|o r0] eqn:Ht; [discriminate|].
  assert (Hnl : nl_thread th) by (eapply Forall_nth; [apply (inv_nl _ I)|eauto]).
  assert (No : nl_op o) by (unfold nl_thread in Hnl; rewrite Ht in Hnl; inversion Hnl; auto).
  pose proof (inv_phase _ I) as Iph. unfold phase in Iph.
  destruct (lt_k th) as [|c k0] eqn:Hk.
  - destruct o; [destruct No| |]; cbn in Hst.
    + destruct (l_done (lg_s g)); [discriminate|]. destruct (l_busy (lg_s g)); discriminate.
    + discriminate.
  - destruct Iph as [(A & B & C & F)|[(B & C & j & thj & Hj & Hp & Hoth)|(A & B & C & Bd & F)]].
    + pose proof (Forall_nth _ _ _ _ F Hn) as Hi. unfold idle in Hi. congruence.
    + destruct (Nat.eq_dec i j) as [->|Nij].
      * rewrite Hn in Hj. inversion Hj; subst thj. rewrite Hk in Hp.
        destruct Hp as [[P1 P2]|[[P1 P2]|(P1 & P2 & P3)]]; inversion P1; subst c k0; cbn in Hst.
        -- rewrite P2 in Hst. discriminate.
        -- discriminate.
        -- discriminate.
      * pose proof (Hoth _ _ Hn Nij) as Hi. unfold idle in Hi. congruence.
    + pose proof (Forall_nth _ _ _ _ F Hn) as Hi. cbn in Hi. rewrite Hk in Hi.
      destruct Hi as [Hi|[Hi|Hi]]; [discriminate| |]; inversion Hi; subst c k0; cbn in Hst; discriminate.
Qed.

End Leaf.

(* ---------------------------------------------------------------- initial states *)
Lemma Forall_map_init (P : lthread -> Prop) plans :
  (forall p, In p plans -> P (lthread_init p)) -> Forall P (map lthread_init plans).
Proof. intros H. apply Forall_forall. intros x Hx. apply in_map_iff in Hx. destruct Hx as (p & <- & Hp). auto. Qed.

Lemma inv_init n d a zero lo plans :
  Forall (Forall nl_op) plans -> Inv n d a true lo None (linit zero lo plans).
Proof.
  intros F. constructor; cbn; auto.
  - apply Forall_map_init. intros p Hp. unfold nl_thread. cbn. rewrite Forall_forall in F. auto.
  - lia.
  - unfold phase. cbn. left. repeat split; auto. apply Forall_map_init. reflexivity.
  - intros j th H. apply nth_error_In, in_map_iff in H. destruct H as (p & <- & _). reflexivity.
  - discriminate.
Qed.

Lemma inv_init_started n d a t lo plans :
  Forall (Forall nl_op) plans -> Inv n d a false lo (Some t) (linit_started t lo plans).
Proof.
  intros F. constructor; cbn; auto.
  - apply Forall_map_init. intros p Hp. unfold nl_thread. cbn. rewrite Forall_forall in F. auto.
  - lia.
  - unfold phase. cbn. right; right. split; [reflexivity|]. split; [reflexivity|]. split; [reflexivity|]. split.
    + apply bnd_intro. discriminate.
    + apply Forall_map_init. intros; left; reflexivity.
  - intros j th H. apply nth_error_In, in_map_iff in H. destruct H as (p & <- & _). reflexivity.
  - intros t0 H. inversion H; auto.
Qed.

(* ---------------------------------------------------------------- the theorem *)
(* what every reachable state satisfies, for the start instant [st] *)
Definition leaf_conclusion (n : nat) (d : Z) (a : nat -> Z) (g : lgstate) (st : Z) : Prop :=
  (* the ghost history is a sequential history of the atomic leaf started at [st] *)
  (forall fuel c, run_tree (S fuel) (DoAt n d a 0 (Some st)) (map (fun x => (c, snd (fst x))) (lg_ghost g))
                  = map snd (lg_ghost g)) /\
  (* every thread got exactly the results of its own operations in that history, in order; at most
     its last operation has taken effect without having returned yet *)
  (forall j th, nth_error (lg_threads g) j = Some th ->
     exists p, ghost_of j (lg_ghost g) = lt_hist th ++ p /\ (length p <= 1)%nat /\ (lt_k th = [] -> p = [])) /\
  (* the counter is the number of Next operations that took effect *)
  count_next (lg_ghost g) = l_i (lg_s g).

Lemma inv_conclusion n d a b lo fx g : Inv n d a b lo fx g -> leaf_conclusion n d a g (l_start (lg_s g)).
Proof.
  intros I. split; [|split].
  - intros fuel c. apply spec_res_run_tree. apply (inv_spec _ _ _ _ _ _ _ I).
  - intros j th H. exists (pend n d a (l_start (lg_s g)) th). split; [apply (inv_hist _ _ _ _ _ _ _ I); auto|].
    unfold pend. split.
    + destruct (is_kA2 (lt_k th)); cbn; lia.
    + intros ->. reflexivity.
  - apply (inv_cnt _ _ _ _ _ _ _ I).
Qed.

Lemma leaf_linearizable n d a zero lo plans g :
  Forall (Forall nl_op) plans ->
  lreach n d a doat_progs (linit zero lo plans) g ->
  ~ lstuck n d a doat_progs g /\
  exists st, leaf_conclusion n d a g st /\
             (l_done (lg_s g) = true -> st = l_start (lg_s g) /\ lo <= st <= lg_lo g).
Proof.
  intros F R. pose proof (inv_reach _ _ _ _ _ _ _ _ (inv_init n d a zero lo plans F) R) as I.
  split; [eapply inv_safe; eauto|].
  exists (l_start (lg_s g)). split; [eapply inv_conclusion; eauto|].
  intros Hd. split; auto.
  pose proof (inv_phase _ _ _ _ _ _ _ I) as P. unfold phase in P.
  destruct P as [(A & B & C & _)|[(B & _)|(A & B & C & Bd & _)]]; try congruence. eapply bnd_elim; eauto.
Qed.

Lemma leaf_linearizable_started n d a t lo plans g :
  Forall (Forall nl_op) plans ->
  lreach n d a doat_progs (linit_started t lo plans) g ->
  ~ lstuck n d a doat_progs g /\ leaf_conclusion n d a g t.
Proof.
  intros F R. pose proof (inv_reach _ _ _ _ _ _ _ _ (inv_init_started n d a t lo plans F) R) as I.
  split; [eapply inv_safe; eauto|].
  destruct (inv_fix _ _ _ _ _ _ _ I t eq_refl) as [E _]. rewrite <- E. eapply inv_conclusion; eauto.
Qed.

(* ---------------------------------------------------------------- consequences *)
Lemma spec_res_in n d a st gh : forall i j c o r,
  spec_res n d a st i gh -> In (j, c, o, r) gh ->
  match o with
  | ONext => exists k, r = next_res n d a st k
  | OLeft => exists k, r = RLeft (Z.of_nat (n - k))
  | OStart _ => False
  end.
Proof.
  induction gh as [|[[[j0 c0] o0] r0] t IH]; intros i j c o r H Hin; [destruct Hin|destruct Hin as [E|Hin]].
  - inversion E; subst. destruct o; cbn in H; try tauto; destruct H as [-> _]; eauto.
  - destruct o0; cbn in H; try tauto; destruct H as [_ H]; eapply IH; eauto.
Qed.

Lemma ghost_of_in j gh r : In r (ghost_of j gh) -> exists c o, In (j, c, o, r) gh.
Proof.
  unfold ghost_of. intros H. apply in_map_iff in H. destruct H as ([[[j0 c] o] r0] & E & H).
  apply filter_In in H. destruct H as [H Ej]. cbn in *. apply andb_prop in Ej. destruct Ej as [Ej _].
  apply Nat.eqb_eq in Ej. subst. eauto.
Qed.

(* every time handed out by Next is computed from the ONE start instant, and nobody gets a time
   before the Once is done *)
Lemma leaf_next_results n d a b lo fx g : Inv n d a b lo fx g ->
  forall j th t ok, nth_error (lg_threads g) j = Some th -> In (RNext t ok) (lt_hist th) ->
  l_done (lg_s g) = true /\ exists i, RNext t ok = next_res n d a (l_start (lg_s g)) i.
Proof.
  intros I j th t ok Hn Hin.
  assert (H : In (RNext t ok) (ghost_of j (lg_ghost g))).
  { rewrite (inv_hist _ _ _ _ _ _ _ I _ _ Hn). apply in_or_app. auto. }
  apply ghost_of_in in H. destruct H as (c & o & H).
  pose proof (spec_res_in _ _ _ _ _ _ _ _ _ _ (inv_spec _ _ _ _ _ _ _ I) H) as Sp.
  destruct o; cbn in Sp; [destruct Sp| |destruct Sp as [k E]; discriminate].
  split; auto.
  destruct (l_done (lg_s g)) eqn:Hd; auto.
  destruct (inv_early _ _ _ _ _ _ _ I Hd) as [_ F].
  rewrite Forall_forall in F. specialize (F _ H). cbn in F. discriminate.
Qed.

Lemma leaf_one_start n d a zero lo plans g :
  Forall (Forall nl_op) plans ->
  lreach n d a doat_progs (linit zero lo plans) g ->
  forall j th t ok, nth_error (lg_threads g) j = Some th -> In (RNext t ok) (lt_hist th) ->
  let st := l_start (lg_s g) in
  lo <= st <= lg_lo g /\
  (if ok then exists i, (i < n)%nat /\ t = st + a i else t = st + d).
Proof.
  intros F R j th t ok Hn Hin st.
  pose proof (inv_reach _ _ _ _ _ _ _ _ (inv_init n d a zero lo plans F) R) as I.
  destruct (leaf_next_results _ _ _ _ _ _ _ I _ _ _ _ Hn Hin) as [Hd [i E]].
  split.
  - pose proof (inv_phase _ _ _ _ _ _ _ I) as P. unfold phase in P.
    destruct P as [(A & B & C & _)|[(B & _)|(A & B & C & Bd & _)]]; try congruence. eapply bnd_elim; eauto.
  - unfold next_res in E. fold st in E. destruct (i <? n)%nat eqn:L; inversion E; subst; auto.
    exists i. split; auto. apply Nat.ltb_lt; auto.
Qed.

(* the executable scheduler only produces reachable states *)
Lemma lrun_reach n d a P sch : forall g0 g g',
  lreach n d a P g0 g -> lrun n d a P sch g = Some g' -> lreach n d a P g0 g'.
Proof.
  induction sch as [|[i now] r IH]; intros g0 g g' R H; cbn in H.
  - inversion H; subst; auto.
  - destruct (nth_error (lg_threads g) i) as [th|] eqn:Hn; [|discriminate].
    destruct (now <? lg_lo g) eqn:L; [discriminate|]. apply Z.ltb_ge in L.
    destruct (lstep n d a P now (lg_s g) th) as [[[[s' th'] e]| |]|] eqn:Hs; try discriminate.
    eapply IH; [|exact H]. eapply lreach_step; eauto. econstructor; eauto.
Qed.

(* ---------------------------------------------------------------- concrete runs *)
Definition ex_a (i : nat) : Z := Z.of_nat i * 3.
Definition ex_plans : list (list op) := [[ONext; ONext]; [ONext; OLeft]; [OLeft; ONext]].
(* thread 0 enters the Once at clock 100, thread 2 reads Left, thread 0 marks / stores start = 105 /
   leaves the Once, thread 1 skips the finished Once and takes index 0 before the starter does, ... *)
Definition zsch (l : list (Z * Z)) : list (nat * Z) := map (fun p => (Z.to_nat (fst p), snd p)) l.
Definition ex_sched : list (nat * Z) := zsch
  [(0, 100); (2, 101); (0, 102); (0, 105); (0, 106); (1, 107); (1, 108); (0, 109); (0, 110); (1, 111);
   (2, 112); (2, 113); (2, 114); (0, 115); (0, 116); (0, 117); (1, 118)].

Lemma leaf_example :
  Forall (Forall nl_op) ex_plans /\
  (* a second caller has no step while the starter is inside the Once *)
  lrun 2 10 ex_a doat_progs [(0%nat, 100); (1%nat, 101)] (linit (-1000) 100 ex_plans) = None /\
  exists g, lrun 2 10 ex_a doat_progs ex_sched (linit (-1000) 100 ex_plans) = Some g /\
            lreach 2 10 ex_a doat_progs (linit (-1000) 100 ex_plans) g /\
            map lt_hist (lg_threads g) =
              [[RNext 108 true; RNext 115 false]; [RNext 105 true; RLeft 0]; [RLeft 2; RNext 115 false]] /\
            l_start (lg_s g) = 105.
Proof.
  split; [repeat constructor|]. split; [vm_compute; reflexivity|].
  destruct (lrun 2 10 ex_a doat_progs ex_sched (linit (-1000) 100 ex_plans)) as [g|] eqn:E;
    [|vm_compute in E; discriminate].
  exists g. split; auto. split; [eapply lrun_reach; [apply lreach_refl|exact E]|].
  vm_compute in E. inversion E; subst g. split; reflexivity.
Qed.

(* The Once may not be bypassed by looking at the started flag: with
     if !s.IsStarted() { s.startOnce.Do(...) }
   in Next a second caller that arrives between MarkStarted and the store of the start time computes
   its answer from the zero time. *)
Definition fastpath_progs : lprogs :=
  {| p_next := [LIfNotStarted [LOnce [AMarkStarted; ASetStartNow]]; LAct AIncI; LAct ARetByIndex];
     p_start := doat_start_prog; p_left := doat_left_prog |}.

Lemma leaf_once_guard_needed :
  exists g, lreach 2 10 ex_a fastpath_progs (linit (-1000) 100 [[ONext]; [ONext]]) g /\
            map lt_hist (lg_threads g) = [[RNext 108 true]; [RNext (-1000) true]] /\
            l_start (lg_s g) = 105.
Proof.
  pose (sch := zsch [(0, 100); (0, 100); (0, 101); (1, 102); (1, 103); (1, 104); (0, 105); (0, 106); (0, 107); (0, 108)]).
  destruct (lrun 2 10 ex_a fastpath_progs sch (linit (-1000) 100 [[ONext]; [ONext]])) as [g|] eqn:E;
    [|vm_compute in E; discriminate].
  exists g. split; [eapply lrun_reach; [apply lreach_refl|exact E]|].
  vm_compute in E. inversion E; subst g. split; reflexivity.
Qed.
