(* Lemmas about Model/HttpTunnel.v (property C09, round 7: the connect gun's dial function and timed histories). *)
From Coq Require Import List Arith NArith ZArith Bool Lia.
From PV Require Import Model.HttpConns Model.HttpTunnel Proofs.HttpConnsProofs.
Import ListNotations.

(* ---------- the dial functions leave no deadline ---------- *)
Lemma connect_dial_no_deadline : forall ssl timeout cur, deadline_after cur (connect_dial_ops ssl timeout) = None.
Proof. intros [] timeout cur; reflexivity. Qed.

Lemma gun_arm_none : forall connect ssl timeout now, gun_arm connect ssl timeout now = None.
Proof. intros [] [] timeout now; reflexivity. Qed.

Lemma guarded_arm_some : forall ssl timeout now, guarded_arm ssl timeout now = Some (now + timeout)%N.
Proof. intros [] timeout now; reflexivity. Qed.

Lemma guarded_cleared_arm_none : forall ssl timeout now, guarded_cleared_arm ssl timeout now = None.
Proof. intros [] timeout now; reflexivity. Qed.

(* ---------- timed runs without deadlines are the untimed runs ---------- *)
Lemma filter_all : forall (A : Type) (f : A -> bool) l, (forall x, f x = true) -> filter f l = l.
Proof. intros A f l H. induction l as [|y r IH]; cbn; [reflexivity|]. rewrite H, IH. reflexivity. Qed.

Lemma alive_none : forall dl now x, dl x = None -> alive dl now x = true.
Proof. intros dl now x H. unfold alive. rewrite H. reflexivity. Qed.

Section Timed.
Variable cl : nat -> client.
Variable keepalive : bool.
Variable max_idle : nat.
Variable arm : N -> option N.
Hypothesis arm_none : forall t, arm t = None.

Definition no_deadline (s : ttstate) : Prop := forall x, tt_deadline s x = None.

Lemma tt_step_refines : forall s now e, no_deadline s ->
  match t_step cl keepalive max_idle (tt_base s) e with
  | Some st' => exists s', tt_step cl keepalive max_idle arm s (At now e) = Some s' /\
                           tt_base s' = st' /\ no_deadline s' /\ tt_failed s' = tt_failed s
  | None => tt_step cl keepalive max_idle arm s (At now e) = None
  end.
Proof.
  intros s now e Hn.
  assert (Hf : forall l, filter (alive (tt_deadline s) now) l = l).
  { intro l. apply filter_all. intro x. apply alive_none. apply Hn. }
  destruct e as [i|i]; unfold t_step, tt_step.
  - destruct (busy_find i (t_busy (tt_base s))); [reflexivity|].
    rewrite Hf. destruct (t_idle (tt_base s) (cl i)) as [|x rest].
    + eexists. split; [reflexivity|]. split; [reflexivity|]. split; [|reflexivity].
      intro x. cbn. destruct (Nat.eqb x (t_dials (tt_base s))); [apply arm_none|apply Hn].
    + eexists. split; [reflexivity|]. split; [reflexivity|]. split; [exact Hn|reflexivity].
  - destruct (busy_find i (t_busy (tt_base s))) as [x|]; [|reflexivity].
    rewrite (alive_none _ now x (Hn x)). rewrite Hf.
    eexists. split; [reflexivity|]. split; [reflexivity|]. split; [exact Hn|reflexivity].
Qed.

Lemma tt_run_refines : forall h s, no_deadline s ->
  match t_run cl keepalive max_idle (tt_base s) (untimed h) with
  | Some st' => exists s', tt_run cl keepalive max_idle arm s h = Some s' /\ tt_base s' = st' /\ tt_failed s' = tt_failed s
  | None => tt_run cl keepalive max_idle arm s h = None
  end.
Proof.
  induction h as [|[now e] r IH]; intros s Hn; cbn [untimed map t_run tt_run].
  - exists s. repeat split.
  - pose proof (tt_step_refines s now e Hn) as H.
    destruct (t_step cl keepalive max_idle (tt_base s) e) as [st1|].
    + destruct H as [s1 [H1 [H2 [H3 H4]]]]. rewrite H1. specialize (IH s1 H3). rewrite H2 in IH.
      fold (untimed r). destruct (t_run cl keepalive max_idle st1 (untimed r)).
      * destruct IH as [s' [Ha [Hb Hc]]]. exists s'. split; [exact Ha|]. split; [exact Hb|]. rewrite Hc. exact H4.
      * exact IH.
    + rewrite H. reflexivity.
Qed.

(* every timed history of the model without deadlines is a history of the untimed transport model, with the same
   connections, and no request fails with a timeout *)
Lemma tt_run_untimed : forall h s, tt_run cl keepalive max_idle arm tt_init h = Some s ->
  t_run cl keepalive max_idle t_init (untimed h) = Some (tt_base s) /\ tt_failed s = 0.
Proof.
  intros h s H. pose proof (tt_run_refines h tt_init (fun _ => eq_refl)) as R. cbn [tt_base tt_init] in R.
  destruct (t_run cl keepalive max_idle t_init (untimed h)) as [st'|].
  - destruct R as [s' [Ha [Hb Hc]]]. rewrite H in Ha. inversion Ha; subst s'. split; [f_equal; symmetry; exact Hb|exact Hc].
  - rewrite H in R. discriminate.
Qed.

(* and conversely: whatever the times, a history of the untimed model is a timed history *)
Lemma tt_run_of_untimed : forall h st, t_run cl keepalive max_idle t_init (untimed h) = Some st ->
  exists s, tt_run cl keepalive max_idle arm tt_init h = Some s /\ tt_base s = st /\ tt_failed s = 0.
Proof.
  intros h st H. pose proof (tt_run_refines h tt_init (fun _ => eq_refl)) as R. cbn [tt_base tt_init] in R.
  rewrite H in R. exact R.
Qed.
End Timed.

Lemma untimed_requests : forall h, requests_of (untimed h) = length (filter (fun te => match te with At _ e => is_begin e end) h).
Proof.
  unfold requests_of, untimed. induction h as [|[t e] r IH]; [reflexivity|]. cbn [map filter].
  destruct (is_begin e); cbn [length]; rewrite IH; reflexivity.
Qed.

Lemma untimed_insts : forall n h, Forall (fun te => match te with At _ e => (ev_inst e < n)%nat end) h ->
  Forall (fun e => (ev_inst e < n)%nat) (untimed h).
Proof. intros n h H. induction H as [|[t e] r Hx Hr IH]; cbn; constructor; assumption. Qed.

(* ---------- the connection sentence over timed histories, for both gun kinds and every dial timeout ---------- *)
Lemma tunnel_one_connection_per_instance : forall connect ssl timeout c max_idle n h s,
  sc_enabled c = false -> (0 < max_idle)%nat ->
  Forall (fun te => match te with At _ e => (ev_inst e < n)%nat end) h ->
  tt_run (client_of (prepare_pool c)) true max_idle (gun_arm connect ssl timeout) tt_init h = Some s ->
  (t_dials (tt_base s) <= n)%nat /\
  (forall i x y, In (i, x) (t_log (tt_base s)) -> In (i, y) (t_log (tt_base s)) -> x = y) /\
  tt_failed s = 0.
Proof.
  intros connect ssl timeout c mi n h s Hc Hm Hn H.
  destruct (tt_run_untimed _ _ _ _ (gun_arm_none connect ssl timeout) h s H) as [Hu Hf].
  destruct (conns_per_instance c mi n (untimed h) (tt_base s) Hc Hm (untimed_insts n h Hn) Hu) as [Ha Hb].
  split; [exact Ha|]. split; [exact Hb|exact Hf].
Qed.

Lemma tunnel_hist_ok : forall connect ssl timeout c keepalive max_idle n h s,
  (0 < max_idle)%nat ->
  Forall (fun te => match te with At _ e => (ev_inst e < n)%nat end) h ->
  tt_run (client_of (prepare_pool c)) keepalive max_idle (gun_arm connect ssl timeout) tt_init h = Some s ->
  hist_ok keepalive (sc_enabled c) n (requests_of (untimed h)) (t_dials (tt_base s)) (rev (t_log (tt_base s))) = true /\
  tt_failed s = 0.
Proof.
  intros connect ssl timeout c ka mi n h s Hm Hn H.
  destruct (tt_run_untimed _ _ _ _ (gun_arm_none connect ssl timeout) h s H) as [Hu Hf].
  split; [|exact Hf]. exact (hist_ok_sound c ka mi n (untimed h) (tt_base s) Hm (untimed_insts n h Hn) Hu).
Qed.

Lemma tunnel_no_keepalive : forall connect ssl timeout cl max_idle h s,
  tt_run cl false max_idle (gun_arm connect ssl timeout) tt_init h = Some s ->
  t_dials (tt_base s) = requests_of (untimed h) /\ tt_failed s = 0.
Proof.
  intros connect ssl timeout cl mi h s H.
  destruct (tt_run_untimed _ _ _ _ (gun_arm_none connect ssl timeout) h s H) as [Hu Hf].
  split; [exact (conns_no_keepalive cl mi (untimed h) (tt_base s) Hu)|exact Hf].
Qed.

(* the times of a history do not matter at all for the guns as written *)
Lemma tunnel_time_irrelevant : forall connect ssl timeout cl keepalive max_idle h h',
  untimed h = untimed h' ->
  option_map tt_obs (tt_run cl keepalive max_idle (gun_arm connect ssl timeout) tt_init h) =
  option_map tt_obs (tt_run cl keepalive max_idle (gun_arm connect ssl timeout) tt_init h').
Proof.
  intros connect ssl timeout cl ka mi h h' E.
  pose proof (tt_run_refines cl ka mi _ (gun_arm_none connect ssl timeout) h tt_init (fun _ => eq_refl)) as R.
  pose proof (tt_run_refines cl ka mi _ (gun_arm_none connect ssl timeout) h' tt_init (fun _ => eq_refl)) as R'.
  cbn [tt_base tt_init] in R, R'. rewrite <- E in R'.
  destruct (t_run cl ka mi t_init (untimed h)) as [st|].
  - destruct R as [s [Ha [Hb Hc]]]. destruct R' as [s' [Ha' [Hb' Hc']]]. rewrite Ha, Ha'. cbn. unfold tt_obs.
    rewrite Hb, Hb', Hc, Hc'. reflexivity.
  - rewrite R, R'. reflexivity.
Qed.

(* the CONNECT the dial function writes asks for a tunnel to the address the Transport wants, and names it as Host *)
Lemma connect_request_authority : forall address,
  cr_method (connect_request address) = s_CONNECT /\ cr_authority (connect_request address) = address /\
  cr_host (connect_request address) = address.
Proof. intro address. repeat split. Qed.

Lemma connect_established_iff : forall status buffered,
  connect_established status buffered = true <-> status = 200%N /\ buffered = 0%nat.
Proof.
  intros status buffered. unfold connect_established. rewrite andb_true_iff, N.eqb_eq, Nat.eqb_eq. tauto.
Qed.
