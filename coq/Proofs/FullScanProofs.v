(* Proofs of the bridge of the http provider's runFullScan (properties C14 / C08): the oracle, the walk that says
   which calls one loop iteration makes and how it ends, and the lemmas relating the translated code
   (Gen/GoFnFullScanGen.v, regenerated from /repo on every run; traced target, see design/GOFN.md) to that walk and
   to the decisions of Model/Provider.v (http_step, HStream).  Statements for the reader: Gen/GoFnFullScan_bridge.v.
   This file depends on the generated syntax: `make` re-checks it whenever provider.go changes. *)
From Coq Require Import ZArith NArith List String Bool Lia.
From PV Require Model.Provider.
From PV Require Import Lib.Imp Lib.ImpStep Gen.GoFnFullScanGen.
Import ListNotations.
Local Open Scope string_scope.
Local Open Scope list_scope.
Local Open Scope Z_scope.

Module P := PV.Model.Provider.

Lemma find_FullScan : find_func "Provider.runFullScan" gen_prog_fullscan = Some gen_Provider_runFullScan.
Proof. reflexivity. Qed.

Lemma bridge_fullscan_shape :
  gen_Provider_runFullScan_returns = ["result0"; "$n"; "$trace"] /\
  f_params gen_Provider_runFullScan = ["p.Limit"; "p.Config.ChosenCases"] /\
  gen_Provider_runFullScan_selects = [["ctx.Done"; "p.Sink<-"]] /\
  gen_prog_fullscan_qerr =
    [("context.Canceled", 2001); ("decoders.ErrAmmoLimit", 2002); ("decoders.ErrNoAmmo", 2004); ("decoders.ErrPassLimit", 2003)].
Proof. repeat split; reflexivity. Qed.

Definition trace := list (string * list Z).
Definition snoc (tr : trace) (c : string * list Z) : trace := tr ++ [c].
Infix "+:" := snoc (at level 61, left associativity).

Section Bridge.
  (* the oracle: call number n is answered [o n] (an error: 0 = nil, 2001.. = the sentinels, anything else = some
     other error; a tag; a bool; the index of the select clause); Scan additionally hands out the entry [oa n].
     errors.Is is NOT an oracle: it is equality of error codes (no wrapped error reaches it in this function). *)
  Variable o : Z -> Z.
  Variable oa : Z -> Z.
  Variable lim : nat.      (* p.Limit *)
  Variable cc : Z.         (* p.Config.ChosenCases, an opaque value handed to IsChosenCase *)

  Definition last_int (vs : list val) : option Z :=
    match rev vs with VInt n :: _ => Some n | _ => None end.

  Definition fext (f : string) (args : list val) : option (list val) :=
    if String.eqb f "errors.Is" then
      match args with [VInt a; VInt b; VInt _] => Some [VInt (b2z (a =? b))] | _ => None end
    else match last_int args with
         | None => None
         | Some n =>
             if String.eqb f "ctx.Err" then Some [VInt (o n)]
             else if String.eqb f "p.Decoder.Scan" then Some [VInt (oa n); VInt (o n)]
             else if String.eqb f "ammo.Tag" then Some [VInt (o n)]
             else if String.eqb f "confutil.IsChosenCase" then Some [VInt (o n)]
             else if String.eqb f "p.fullPassDone" then Some [VInt (o n)]
             else if String.eqb f "select#0" then Some [VInt (o n)]
             else if String.eqb f "p.Sink<-" then Some []
             else None
         end.

  Definition result := (Z * Z * trace)%type.

  (* what runFullScan returns when Scan fails with e after d deliveries *)
  Definition scan_end (d : nat) (e : Z) : Z :=
    if (e =? 2002) || (e =? 2003) then (if Z.of_nat d =? 0 then 2004 else 0) else e.
  Definition ctx_end (e : Z) : Z := if e =? 2001 then e else 1.

  Fixpoint walk (fuel : nat) (d : nat) (n : Z) (tr : trace) : option result :=
    match fuel with
    | O => None
    | S f =>
        let tr0 := tr +: ("ctx.Err", []) in
        if o n =? 0 then
          if negb (Z.of_nat lim =? 0) && (Z.of_nat lim <=? Z.of_nat d) then Some (0, n + 1, tr0)
          else
            let a := oa (n + 1) in
            let e := o (n + 1) in
            let tr1 := tr0 +: ("p.Decoder.Scan", []) in
            if e =? 0 then
              let tr2 := tr1 +: ("ammo.Tag", [a]) +: ("confutil.IsChosenCase", [o (n + 1 + 1); cc]) in
              if o (n + 1 + 1 + 1) =? 0 then
                (* the filter drops the entry *)
                if Z.of_nat d =? 0 then
                  let tr3 := tr2 +: ("p.fullPassDone", []) in
                  if o (n + 1 + 1 + 1 + 1) =? 0 then walk f d (n + 1 + 1 + 1 + 1 + 1) tr3
                  else Some (2004, n + 1 + 1 + 1 + 1 + 1, tr3)
                else walk f d (n + 1 + 1 + 1 + 1) tr2
              else
                let tr3 := tr2 +: ("select#0", []) in
                if o (n + 1 + 1 + 1 + 1) =? 0 then
                  (* <-ctx.Done() *)
                  let e2 := o (n + 1 + 1 + 1 + 1 + 1) in
                  let tr4 := tr3 +: ("ctx.Err", []) in
                  if e2 =? 0 then Some (e2, n + 1 + 1 + 1 + 1 + 1 + 1, tr4)   (* = nil *)
                  else Some (ctx_end e2, n + 1 + 1 + 1 + 1 + 1 + 1 + 1, tr4 +: ("errors.Is", [e2; 2001]))
                else walk f (S d) (n + 1 + 1 + 1 + 1 + 1 + 1) (tr3 +: ("p.Sink<-", [a]))
            else
              let tr2 := tr1 +: ("errors.Is", [e; 2002]) in
              if e =? 2002 then Some (scan_end d e, n + 1 + 1 + 1, tr2)
              else Some (scan_end d e, n + 1 + 1 + 1 + 1, tr2 +: ("errors.Is", [e; 2003]))
        else Some (ctx_end (o n), n + 1 + 1, tr0 +: ("errors.Is", [o n; 2001]))
    end.

  Definition enc (r : option result) : outcome :=
    match r with
    | Some (e, n, tr) => Ret [VInt e; VInt n; VRecs tr]
    | None => OutOfFuel
    end.
  Definition encs (r : option result) : sig :=
    match r with
    | Some (e, n, tr) => SRet [VInt e; VInt n; VRecs tr]
    | None => SFail FFuel
    end.

  Definition code_run (fuel : nat) : outcome :=
    run gen_prog_fullscan fext fuel "Provider.runFullScan" [VInt (Z.of_nat lim); VInt cc].
End Bridge.

(* ------------------------------------------------------------------------------------ *)
Fixpoint find_for (s : stmt) : option stmt :=
  match s with
  | SSeq a b => match find_for a with Some l => Some l | None => find_for b end
  | SFor _ _ _ => Some s
  | _ => None
  end.
Definition the_loop : stmt :=
  match find_for (f_body gen_Provider_runFullScan) with Some l => l | None => SSkip end.

Definition cenv (lim cc n : Z) (tr : trace) (d err t1 ammo t2 c1 t3 t4 t5 c2 t6 s0 c3 t7 : Z) : env :=
  [("p.Limit", VInt lim); ("p.Config.ChosenCases", VInt cc); ("$n", VInt n); ("$trace", VRecs tr);
   ("delivered", VInt d); ("err", VInt err); ("$t1", VInt t1); ("ammo", VInt ammo); ("$t2", VInt t2);
   ("$c1", VInt c1); ("$t3", VInt t3); ("$t4", VInt t4); ("$t5", VInt t5); ("$c2", VInt c2); ("$t6", VInt t6);
   ("$sel0", VInt s0); ("$c3", VInt c3); ("$t7", VInt t7)].

Ltac sx_ext ::= cbn [fext last_int rev app String.eqb Ascii.eqb Bool.eqb].

Section Proofs.
  Variable o : Z -> Z.
  Variable oa : Z -> Z.
  Variable lim : nat.
  Variable cc : Z.
  Notation X := (fext o oa).

  Ltac open_loop := unfold the_loop; cbn [find_for f_body gen_Provider_runFullScan]; unfold cenv, snoc.
  (* a leaf of the walk: the iteration returns *)
  Ltac leaf := open_loop; cbn [encs]; unfold scan_end, ctx_end; sx; sx_known; cbn [orb andb negb]; try reflexivity.
  (* an iteration that goes on: one unrolling, then the induction hypothesis *)
  Ltac again IH :=
    etransitivity;
    [ open_loop; sx; reflexivity
    | repeat match goal with
             | |- context [Z.of_nat ?d + 1] => replace (Z.of_nat d + 1) with (Z.of_nat (S d)) by lia
             end;
      exact (IH _ _ _ _ _ _ _ _ _ _ _ _ _ _ _ _) ].

  Lemma loop_eq : forall fuel d n tr err t1 ammo t2 c1 t3 t4 t5 c2 t6 s0 c3 t7,
    exec gen_prog_fullscan X fuel the_loop
         (cenv (Z.of_nat lim) cc n tr (Z.of_nat d) err t1 ammo t2 c1 t3 t4 t5 c2 t6 s0 c3 t7)
    = encs (walk o oa lim cc fuel d n tr).
  Proof.
    induction fuel as [|f IH]; intros d n tr err t1 ammo t2 c1 t3 t4 t5 c2 t6 s0 c3 t7.
    - cbn [walk encs]. open_loop. eapply step_for_fuel; reflexivity.
    - cbn [walk]. cbv zeta.
      destruct (o n =? 0) eqn:E0.
      2:{ destruct (o n =? 2001) eqn:Ec; leaf. }
      destruct (Z.of_nat lim =? 0) eqn:HL0; cbn [negb andb].
      + (* no limit *)
        destruct (o (n + 1) =? 0) eqn:E1.
        2:{ destruct (o (n + 1) =? 2002) eqn:Ea; [|destruct (o (n + 1) =? 2003) eqn:Ep];
            destruct (Z.of_nat d =? 0) eqn:Hd; leaf. }
        destruct (o (n + 1 + 1 + 1) =? 0) eqn:E3.
        * destruct (Z.of_nat d =? 0) eqn:Hd.
          -- destruct (o (n + 1 + 1 + 1 + 1) =? 0) eqn:E4; [again IH|leaf].
          -- again IH.
        * destruct (o (n + 1 + 1 + 1 + 1) =? 0) eqn:E4.
          -- destruct (o (n + 1 + 1 + 1 + 1 + 1) =? 0) eqn:E5;
               [|destruct (o (n + 1 + 1 + 1 + 1 + 1) =? 2001) eqn:Ec]; leaf.
          -- again IH.
      + destruct (Z.of_nat lim <=? Z.of_nat d) eqn:HLd.
        { leaf. }
        destruct (o (n + 1) =? 0) eqn:E1.
        2:{ destruct (o (n + 1) =? 2002) eqn:Ea; [|destruct (o (n + 1) =? 2003) eqn:Ep];
            destruct (Z.of_nat d =? 0) eqn:Hd; leaf. }
        destruct (o (n + 1 + 1 + 1) =? 0) eqn:E3.
        * destruct (Z.of_nat d =? 0) eqn:Hd.
          -- destruct (o (n + 1 + 1 + 1 + 1) =? 0) eqn:E4; [again IH|leaf].
          -- again IH.
        * destruct (o (n + 1 + 1 + 1 + 1) =? 0) eqn:E4.
          -- destruct (o (n + 1 + 1 + 1 + 1 + 1) =? 0) eqn:E5;
               [|destruct (o (n + 1 + 1 + 1 + 1 + 1) =? 2001) eqn:Ec]; leaf.
          -- again IH.
  Qed.

  Ltac prologue :=
    repeat lazymatch goal with
           | |- exec _ _ _ (SSeq _ _) _ = _ => eapply step_seq; [sx_atom | cbv beta iota]
           end.

  Theorem bridge_fullscan fuel : code_run o oa lim cc fuel = enc (walk o oa lim cc fuel 0 0 []).
  Proof.
    unfold code_run, run. rewrite find_FullScan. unfold gen_Provider_runFullScan; cbn [f_params f_body bind].
    pose proof (loop_eq fuel 0 0 [] 0 0 0 0 0 0 0 0 0 0 0 0 0) as HL.
    unfold the_loop, cenv in HL; cbn [find_for f_body gen_Provider_runFullScan Z.of_nat] in HL.
    match goal with
    | |- sig_outcome (exec ?p ?x ?fu ?s ?en) = _ =>
        let He := fresh "He" in
        eassert (He : exec p x fu s en = _); [prologue; exact HL|rewrite He; clear He]
    end.
    destruct (walk o oa lim cc fuel 0 0 []) as [[[e n] tr]|]; reflexivity.
  Qed.

  (* ---------------------------------------------------------------------------------- *)
  (* consequences, about the walk alone (hence about the code, by bridge_fullscan) *)

  (* the decisions of the walk are those of Model/Provider.v (http_step, HStream) *)
  Definition err_of (e : Z) : P.err :=
    if e =? 2002 then P.EAmmoLimit else if e =? 2003 then P.EPassLimit
    else if e =? 2004 then P.ENoAmmo else if e =? 2001 then P.ECtx else P.EUnexpected.
  Definition code_of (e : Z) (r : P.outcome) : Z :=
    match r with P.Ok => 0 | P.Failed P.ENoAmmo => 2004 | _ => e end.

  Lemma scan_end_is_model d e : e <> 0 -> scan_end d e = code_of e (P.fullscan_result d (err_of e)).
  Proof.
    intros He. unfold scan_end, P.fullscan_result, err_of, code_of.
    destruct (e =? 2002) eqn:Ea; [cbn; destruct d; reflexivity|].
    destruct (e =? 2003) eqn:Ep; [cbn; destruct d; reflexivity|].
    destruct (e =? 2004) eqn:En; [apply Z.eqb_eq in En; subst; reflexivity|].
    destruct (e =? 2001) eqn:Ec; reflexivity.
  Qed.

  Lemma limit_test_is_model d :
    (negb (Z.of_nat lim =? 0) && (Z.of_nat lim <=? Z.of_nat d)) = (P.nz lim && (lim <=? d)%nat).
  Proof.
    unfold P.nz. f_equal.
    - destruct lim; reflexivity.
    - destruct (Nat.leb_spec lim d); [apply Z.leb_le|apply Z.leb_gt]; lia.
  Qed.

  Definition sends (tr : trace) : nat :=
    List.length (filter (fun c => String.eqb (fst c) "p.Sink<-") tr).

  Lemma sends_snoc tr c : sends (tr +: c) = (sends tr + (if String.eqb (fst c) "p.Sink<-" then 1 else 0))%nat.
  Proof. unfold sends, snoc. rewrite filter_app, app_length. cbn [filter]. destruct (String.eqb (fst c) "p.Sink<-"); reflexivity. Qed.

  (* limit counts DELIVERED entries: with a limit, never more sends than the limit allows *)
  Lemma walk_sends_bounded : forall fuel d n tr e n' tr',
    walk o oa lim cc fuel d n tr = Some (e, n', tr') ->
    lim <> O -> (d <= lim)%nat -> (sends tr' <= sends tr + (lim - d))%nat.
  Proof.
    induction fuel as [|f IH]; intros d n tr e n' tr' H Hl Hd; [discriminate|].
    cbn [walk] in H. cbv zeta in H.
    assert (Hlz : (Z.of_nat lim =? 0) = false) by (apply Z.eqb_neq; lia).
    rewrite Hlz in H. cbn [negb andb] in H.
    repeat match type of H with
           | (if ?b then _ else _) = _ => destruct b eqn:?
           end;
      try (inversion H; subst; clear H; rewrite ?sends_snoc; cbn; lia);
      try (apply IH in H; [|assumption|]; rewrite ?sends_snoc in H; cbn in H;
           repeat match goal with Hx : (Z.of_nat _ <=? Z.of_nat _) = false |- _ => apply Z.leb_gt in Hx end; lia).
  Qed.
End Proofs.
