(* C13: the CLI config reader's pre-pass (Model/AmmoCliConfig.v): with checked type assertions it
   never panics, leaves a malformed `pools` value alone (so the decoder reports it), writes
   discard_overflow: true exactly into the pool mappings that lack the key and changes nothing else;
   with the unchecked assertions it panics exactly on the malformed `pools` values. *)
From Coq Require Import List NArith ZArith Bool.
From PV Require Import Lib.AmmoBytes Model.AmmoRobust Model.AmmoCliConfig Proofs.AmmoBytesProofs.
Import ListNotations.

(* one pool entry before / after the pre-pass *)
Definition pool_rel (p p' : cval) : Prop :=
  match p with
  | CMap m => exists m', p' = CMap m' /\
      lookup k_discard m' = Some (match lookup k_discard m with Some v => v | None => CBool true end) /\
      forall k, k <> k_discard -> lookup k m' = lookup k m
  | _ => p' = p
  end.

(* the decoder's side of the contract (mapstructure: "source data must be an array or slice",
   "expected a map"; validator: Pools required): a tree of the wrong structure is refused *)
Definition decoder_rejects_bad_shape {R : Type} (decode : settings -> rres R) : Prop :=
  forall s, shape_okb s = false -> decode s = VErr.

Lemma beq_false_ne a b : a <> b -> beq a b = false.
Proof. apply beq_neq. Qed.

Lemma lookup_set_other k k' v s : k <> k' -> lookup k (set_key k' v s) = lookup k s.
Proof.
  intros N. induction s as [|[k0 v0] r IH]; cbn.
  - rewrite (beq_neq _ _ N). reflexivity.
  - destruct (beq k' k0) eqn:E; cbn.
    + apply beq_eq in E. subst k0. rewrite (beq_neq _ _ N). reflexivity.
    + destruct (beq k k0); [reflexivity | exact IH].
Qed.

Lemma lookup_set_same k v s x : lookup k s = Some x -> lookup k (set_key k v s) = Some v.
Proof.
  induction s as [|[k0 v0] r IH]; cbn; [discriminate|].
  destruct (beq k k0) eqn:E; cbn; rewrite E; [reflexivity | exact IH].
Qed.

Lemma lookup_app_none k m e : lookup k m = None -> lookup k (m ++ e) = lookup k e.
Proof.
  induction m as [|[k0 v0] r IH]; cbn; [reflexivity|].
  destruct (beq k k0); [discriminate | exact IH].
Qed.

Lemma lookup_app_other k m k' v : k <> k' -> lookup k (m ++ [(k', v)]) = lookup k m.
Proof.
  intros N. induction m as [|[k0 v0] r IH]; cbn.
  - rewrite (beq_neq _ _ N). reflexivity.
  - destruct (beq k k0); [reflexivity | exact IH].
Qed.

(* ---------- the checked pre-pass is the specification ---------- *)
Lemma default_pool_checked p : default_pool true p = VOk (spec_pool p).
Proof.
  destruct p; cbn; try reflexivity.
  unfold has_key. destruct (lookup k_discard m); reflexivity.
Qed.

Lemma default_pools_checked l : default_pools true l = VOk (map spec_pool l).
Proof.
  induction l as [|p r IH]; cbn [default_pools map]; [reflexivity|].
  rewrite default_pool_checked, IH. reflexivity.
Qed.

Lemma prepass_checked s : prepass true s = VOk (spec_default s).
Proof.
  unfold prepass, spec_default.
  destruct (lookup k_pools s) as [[| | | |l|]|]; try reflexivity.
  rewrite default_pools_checked. reflexivity.
Qed.

Lemma prepass_checked_no_panic s : prepass true s <> VPanic.
Proof. rewrite prepass_checked. discriminate. Qed.

(* a malformed `pools` value is left alone *)
Lemma prepass_leaves_non_list s :
  (forall l, lookup k_pools s <> Some (CList l)) -> prepass true s = VOk s.
Proof.
  intros H. unfold prepass.
  destruct (lookup k_pools s) as [[| | | |l|]|]; try reflexivity.
  exfalso. exact (H l eq_refl).
Qed.

Lemma spec_pool_rel p : pool_rel p (spec_pool p).
Proof.
  destruct p; cbn; try reflexivity.
  unfold has_key. destruct (lookup k_discard m) eqn:E.
  - exists m. repeat split; assumption.
  - exists (m ++ [(k_discard, CBool true)]). split; [reflexivity|]. split.
    + rewrite lookup_app_none by exact E. reflexivity.
    + intros k N. apply lookup_app_other. exact N.
Qed.

Lemma map_spec_pool_rel l : Forall2 pool_rel l (map spec_pool l).
Proof. induction l; cbn; constructor; [apply spec_pool_rel | assumption]. Qed.

(* property-wise: what the pre-pass changes and what it does not *)
Lemma prepass_exact s s' :
  prepass true s = VOk s' ->
  (forall k, k <> k_pools -> lookup k s' = lookup k s) /\
  match lookup k_pools s with
  | Some (CList l) => exists l', lookup k_pools s' = Some (CList l') /\ Forall2 pool_rel l l'
  | _ => s' = s
  end.
Proof.
  rewrite prepass_checked. intros H. injection H as <-. unfold spec_default.
  destruct (lookup k_pools s) as [[| | | |l|]|] eqn:E; try (split; [reflexivity | reflexivity]).
  split.
  - intros k N. apply lookup_set_other. exact N.
  - exists (map spec_pool l). split; [|apply map_spec_pool_rel].
    eapply lookup_set_same. exact E.
Qed.

(* ---------- the structure survives the pre-pass: malformed stays malformed ---------- *)
Lemma is_map_spec_pool p : is_map (spec_pool p) = is_map p.
Proof. destruct p; reflexivity. Qed.

Lemma forallb_is_map_spec l : forallb is_map (map spec_pool l) = forallb is_map l.
Proof. induction l; cbn; [reflexivity|]. rewrite is_map_spec_pool, IHl. reflexivity. Qed.

Lemma k_log_ne : k_log <> k_pools. Proof. discriminate. Qed.
Lemma k_mon_ne : k_monitoring <> k_pools. Proof. discriminate. Qed.

Lemma shape_spec_default s : shape_okb (spec_default s) = shape_okb s.
Proof.
  unfold spec_default.
  destruct (lookup k_pools s) as [[| | | |l|]|] eqn:E; try reflexivity.
  unfold shape_okb, pools_okb, section_okb.
  rewrite (lookup_set_same _ _ _ _ E), E, forallb_is_map_spec.
  rewrite (lookup_set_other _ _ _ s k_log_ne), (lookup_set_other _ _ _ s k_mon_ne).
  reflexivity.
Qed.

(* ---------- the reader ---------- *)
Lemma cli_read_meets_spec (R : Type) (decode : settings -> rres R) :
  decoder_rejects_bad_shape decode ->
  forall top, cli_read true decode top = cli_expected decode top.
Proof.
  intros C top. unfold cli_read, cli_expected.
  assert (P : read_settings top <> VPanic) by (destruct top; discriminate).
  destruct (read_settings top) as [s| |]; [|reflexivity|contradiction].
  rewrite prepass_checked.
  destruct (shape_okb s) eqn:E; [reflexivity|].
  apply C. rewrite shape_spec_default. exact E.
Qed.

Lemma cli_malformed_rejected (R : Type) (decode : settings -> rres R) :
  decoder_rejects_bad_shape decode ->
  forall top,
    match read_settings top with VOk s => shape_okb s = false | _ => True end ->
    cli_read true decode top = VErr.
Proof.
  intros C top H. rewrite (cli_read_meets_spec R decode C). unfold cli_expected.
  destruct (read_settings top) as [s| |]; try reflexivity.
  rewrite H. reflexivity.
Qed.

Lemma cli_wellformed_defaults (R : Type) (decode : settings -> rres R) top s :
  read_settings top = VOk s -> shape_okb s = true ->
  cli_read true decode top = decode (spec_default s) /\ shape_okb (spec_default s) = true.
Proof.
  intros H E. unfold cli_read. rewrite H, prepass_checked, shape_spec_default. split; [reflexivity | exact E].
Qed.

Lemma cli_no_panic (R : Type) (decode : settings -> rres R) :
  (forall s, decode s <> VPanic) -> forall top, cli_read true decode top <> VPanic.
Proof.
  intros D top. unfold cli_read.
  destruct (read_settings top) as [s| |] eqn:E; try discriminate.
  - rewrite prepass_checked. apply D.
  - destruct top; discriminate.
Qed.

(* ---------- the unchecked assertions ---------- *)
Lemma default_pools_unchecked_ok l :
  forallb is_map l = true -> default_pools false l = default_pools true l.
Proof.
  induction l as [|p r IH]; cbn [forallb default_pools]; [reflexivity|].
  intros H. apply andb_prop in H as [Hp Hr]. rewrite (IH Hr).
  destruct p; try discriminate. reflexivity.
Qed.

Lemma default_pools_unchecked_bad l :
  forallb is_map l = false -> default_pools false l = VPanic.
Proof.
  induction l as [|p r IH]; cbn [forallb default_pools]; [discriminate|].
  intros H. destruct p; try reflexivity.
  cbn in H. rewrite (IH H). cbn. reflexivity.
Qed.

(* the repair changes nothing for a config with a well-formed `pools` list *)
Lemma prepass_unchecked_same s : pools_okb s = true -> prepass false s = prepass true s.
Proof.
  unfold pools_okb, prepass.
  destruct (lookup k_pools s) as [[| | | |l|]|]; try discriminate.
  intros H. rewrite (default_pools_unchecked_ok l H). reflexivity.
Qed.

(* the former code panics exactly on the malformed `pools` values *)
Lemma prepass_unchecked_panics_iff s : prepass false s = VPanic <-> pools_okb s = false.
Proof.
  split.
  - intros H. destruct (pools_okb s) eqn:E; [|reflexivity].
    rewrite (prepass_unchecked_same s E), prepass_checked in H. discriminate.
  - unfold pools_okb, prepass.
    destruct (lookup k_pools s) as [[| | | |l|]|]; try reflexivity.
    intros H. rewrite (default_pools_unchecked_bad l H). reflexivity.
Qed.

Lemma cli_unchecked_same (R : Type) (decode : settings -> rres R) top s :
  read_settings top = VOk s -> pools_okb s = true ->
  cli_read false decode top = cli_read true decode top.
Proof. intros H E. unfold cli_read. rewrite H, (prepass_unchecked_same s E). reflexivity. Qed.

Lemma cli_unchecked_refuted :
  exists (decode : settings -> rres unit) top1 top2 top3,
    decoder_rejects_bad_shape decode /\ (forall s, decode s <> VPanic) /\
    (* no `pools` key (an empty file) ; pools: 5 ; pools: [1] *)
    top1 = CNull /\ top2 = CMap [(k_pools, CInt 5)] /\ top3 = CMap [(k_pools, CList [CInt 1])] /\
    cli_read false decode top1 = VPanic /\ cli_read false decode top2 = VPanic /\
    cli_read false decode top3 = VPanic.
Proof.
  exists (fun s => if shape_okb s then VOk tt else VErr), CNull, (CMap [(k_pools, CInt 5)]),
    (CMap [(k_pools, CList [CInt 1])]).
  repeat split; try (vm_compute; reflexivity).
  - intros s H. rewrite H. reflexivity.
  - intros s. destruct (shape_okb s); discriminate.
Qed.
