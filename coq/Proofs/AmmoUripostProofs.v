(* Round trip for the uripost format. *)
From Coq Require Import List NArith ZArith Bool Lia.
From PV Require Import Lib.AmmoBytes Lib.AmmoDecimal Lib.AmmoLines Model.AmmoCommon Model.AmmoUri Model.AmmoUripost
  Proofs.AmmoBytesProofs Proofs.AmmoLinesProofs Proofs.AmmoCommonProofs Proofs.AmmoDecimalProofs.
Import ListNotations.
Local Open Scope N_scope.

Section UripostProofs.
  Variable url_parse : bytes -> option (bytes * bytes).
  Notation wf := (wf_pitem url_parse).

  Definition mk_post (u t b : bytes) (h : headers) : entry :=
    {| e_method := POST; e_url := u; e_body := b; e_tag := t; e_headers := h |}.

  (* the part of readBlock after TrimSpace *)
  Definition block_of (d rest1 : bytes) (h : headers) : block_res :=
    match d with
    | [] => BSkip rest1 h
    | c :: _ =>
        if N.eqb c LBR then
          match decode_header d with
          | inl (k, v) => BSkip rest1 (header_set k v h)
          | inr e => BErr e None
          end
        else
          match decode_uri d with
          | inr e => BErr e None
          | inl (size, uri, tag) =>
              if negb (url_ok url_parse uri) then BErr EUrlParse None
              else
                match alloc_read size rest1 with
                | APanic => BPanic
                | AErr e => BErr e None
                | AShort n => BErr EShortRead (Some (n, nlen rest1))
                | AOk buf r n =>
                    match setup url_parse POST uri buf h tag with
                    | inl e => BFound e r h (n, nlen rest1)
                    | inr e => BErr e (Some (n, nlen rest1))
                    end
                end
          end
    end.

  Lemma read_block_unfold rest h :
    read_block url_parse rest h =
      let '(data, rest1, ok) := read_string rest in
      if negb ok && is_nil data then BEof else block_of (trim data) rest1 h.
  Proof. reflexivity. Qed.

  Definition expected (i : pitem) (rest : bytes) (h : headers) : block_res :=
    match i with
    | PBlank => BSkip rest h
    | PHeader _ k _ _ v _ => BSkip rest (header_set k v h)
    | PReq u t b => BFound (mk_post u t b h) rest h (alloc_of (nlen b) (nlen (b ++ rest)), nlen (b ++ rest))
    end.

  Lemma wf_lay_of i l : wf (i, l) = true -> wf_lay l = true.
  Proof. unfold wf_pitem. intros H. apply andb_prop in H. apply H. Qed.

  Lemma max_alloc_lt : (max_alloc <= max_int)%Z.
  Proof. unfold max_alloc, max_int. lia. Qed.

  Lemma decode_uri_text u t b :
    has SP u = false -> (Z.of_N (nlen b) <= max_alloc)%Z ->
    decode_uri (pitem_text (PReq u t b)) = inl (Z.of_N (nlen b), u, t).
  Proof.
    intros Hu Hb. unfold decode_uri. cbn [pitem_text].
    assert (Hd : has SP (dec (nlen b)) = false).
    { apply digits_no; [apply dec_digits|reflexivity]. }
    rewrite split_app by exact Hd.
    assert (Hs : split SP (u ++ match t with [] => [] | _ :: _ => SP :: t end) = u :: match t with [] => [] | _ => split SP t end).
    { destruct t as [|t0 t']; [rewrite app_nil_r; apply split_none; exact Hu|].
      apply split_app. exact Hu. }
    rewrite Hs. rewrite atoi_dec by (pose proof max_alloc_lt; lia).
    destruct t as [|t0 t']; [reflexivity|]. rewrite join_split. reflexivity.
  Qed.

  Lemma text_tight_or_nil i l :
    wf (i, l) = true -> pitem_text i = [] \/ tight (pitem_text i) = true.
  Proof.
    intros H. unfold wf_pitem in H. apply andb_prop in H. destruct H as [_ H].
    destruct i as [kl k kt vl v vt|u t b|]; [right; apply tight_header_text| |left; reflexivity].
    repeat (apply andb_prop in H; destruct H as [H ?]). right. assumption.
  Qed.

  Lemma block_of_item i l rest h :
    wf (i, l) = true ->
    block_of (pitem_text i) (pitem_body i ++ rest) h = expected i rest h.
  Proof.
    intros H. unfold wf_pitem in H. apply andb_prop in H. destruct H as [_ H].
    destruct i as [kl k kt vl v vt|u t b|]; [| |reflexivity].
    - repeat (apply andb_prop in H; destruct H as [H ?]).
      cbn [pitem_text pitem_body app expected]. unfold block_of, header_text at 1.
      rewrite N.eqb_refl. rewrite decode_header_text by assumption. reflexivity.
    - repeat (apply andb_prop in H; destruct H as [H ?]).
      apply negb_true_iff in H.
      match goal with Hz : (_ <=? _)%Z = true |- _ => apply Z.leb_le in Hz; rename Hz into Hb end.
      unfold block_of. rewrite decode_uri_text by assumption.
      pose proof (dec_nonempty (nlen b)) as Hne. pose proof (dec_digits (nlen b)) as Hdg.
      cbn [pitem_text pitem_body expected].
      destruct (dec (nlen b)) as [|c ds] eqn:Ed; [contradiction|].
      cbn [app]. cbn [forallb] in Hdg. apply andb_prop in Hdg. destruct Hdg as [Hc _].
      assert (Hcl : N.eqb c LBR = false).
      { unfold is_digit in Hc. apply andb_prop in Hc. destruct Hc as [Hc1 Hc2].
        apply N.leb_le in Hc1, Hc2. apply N.eqb_neq. unfold LBR. lia. }
      rewrite Hcl.
      match goal with Hu : url_ok url_parse u = true |- _ => rewrite Hu; cbn [negb] end.
      rewrite alloc_read_exact.
      unfold setup. change (valid_method POST) with true. cbn [negb].
      match goal with Hu : url_ok url_parse u = true |- _ => rewrite Hu; cbn [negb] end.
      reflexivity.
  Qed.

  Lemma nolf_text i l : wf (i, l) = true -> nolf (pitem_text i) = true.
  Proof.
    intros H. unfold wf_pitem in H. apply andb_prop in H. destruct H as [_ H].
    destruct i as [kl k kt vl v vt|u t b|]; [| |reflexivity].
    - repeat (apply andb_prop in H; destruct H as [H ?]).
      cbn [pitem_text]. unfold header_text.
      assert (Hk' : nolf k = true).
      { match goal with Hk : wf_key k = true |- _ => unfold wf_key in Hk; apply andb_prop in Hk; apply Hk end. }
      assert (Hv' : nolf v = true).
      { match goal with Hv : wf_val v = true |- _ => apply (wf_val_cases _ Hv) end. }
      rewrite nolf_cons, !nolf_app, nolf_cons, !nolf_app.
      rewrite (lblank_nolf kl), (lblank_nolf kt), (lblank_nolf vl), (lblank_nolf vt) by assumption.
      rewrite Hk', Hv'. reflexivity.
    - repeat (apply andb_prop in H; destruct H as [H ?]). assumption.
  Qed.

  (* a terminated line (+ body) *)
  Lemma read_block_item_lf i l rest h :
    wf (i, l) = true ->
    read_block url_parse (wrap_line l (pitem_text i) ++ LF :: pitem_body i ++ rest) h = expected i rest h.
  Proof.
    intros H. rewrite read_block_unfold.
    rewrite read_string_line by (apply nolf_wrap_line; [eapply wf_lay_of; eauto|eapply nolf_text; eauto]).
    cbn [negb andb].
    rewrite trim_wrap_line_lf by (eauto using wf_lay_of, text_tight_or_nil).
    apply (block_of_item i l). exact H.
  Qed.

  (* an unterminated last line (no body can follow) *)
  Lemma read_block_item_eof i l h :
    wf (i, l) = true -> pitem_body i = [] ->
    read_block url_parse (wrap_line l (pitem_text i)) h =
      if is_nil (wrap_line l (pitem_text i)) then BEof else expected i [] h.
  Proof.
    intros H Hb. rewrite read_block_unfold.
    rewrite read_string_eof by (apply nolf_wrap_line; [eapply wf_lay_of; eauto|eapply nolf_text; eauto]).
    cbn [negb andb]. destruct (is_nil (wrap_line l (pitem_text i))) eqn:En; [reflexivity|].
    rewrite trim_wrap_line_nocr by (eauto using wf_lay_of, text_tight_or_nil).
    pose proof (block_of_item i l [] h H) as E. rewrite Hb in E. exact E.
  Qed.

  Fixpoint next_preq (items : list (pitem * lay)) (h : headers)
    : option (entry * list (pitem * lay) * headers) :=
    match items with
    | [] => None
    | (PHeader _ k _ _ v _, _) :: r => next_preq r (header_set k v h)
    | (PReq u t b, _) :: r => Some (mk_post u t b h, r, h)
    | (PBlank, _) :: r => next_preq r h
    end.

  Lemma read_block_nil h : read_block url_parse [] h = BEof.
  Proof. reflexivity. Qed.

  Lemma render_cons2 i l x r fin :
    render_uripost ((i, l) :: x :: r) fin =
      wrap_line l (pitem_text i) ++ LF :: pitem_body i ++ render_uripost (x :: r) fin.
  Proof. reflexivity. Qed.

  Lemma up_inner_items fin items : forall h fuel,
    forallb wf items = true ->
    (length (render_uripost items fin) < fuel)%nat ->
    match next_preq items h with
    | Some (e, rest, h') =>
        exists a, up_inner url_parse fuel (render_uripost items fin) h = IFound e (render_uripost rest fin) h' a
    | None => up_inner url_parse fuel (render_uripost items fin) h = IEof
    end.
  Proof.
    induction items as [|[i l] r IH]; intros h fuel Hwf Hf.
    - destruct fuel; [cbn in Hf; lia|]. reflexivity.
    - cbn [forallb] in Hwf. apply andb_prop in Hwf. destruct Hwf as [Hi Hr].
      destruct fuel as [|f]; [lia|].
      destruct r as [|x r'].
      + (* last item *)
        cbn [render_uripost] in *.
        destruct (fin || negb (is_nil (pitem_body i)))%bool eqn:Eterm.
        * (* terminated *)
          assert (E : wrap_line l (pitem_text i) ++ [LF] ++ pitem_body i
                      = wrap_line l (pitem_text i) ++ LF :: pitem_body i ++ []).
          { rewrite app_nil_r. reflexivity. }
          rewrite E in *. cbn [up_inner]. rewrite (read_block_item_lf i l [] h Hi).
          assert (Hf1 : (1 <= f)%nat).
          { rewrite app_length in Hf. cbn [length] in Hf. lia. }
          destruct f as [|f']; [lia|].
          destruct i; cbn [next_preq expected]; try reflexivity.
          eexists. reflexivity.
        * (* unterminated, no body *)
          apply orb_false_elim in Eterm. destruct Eterm as [_ Eb].
          apply negb_false_iff in Eb.
          assert (Hb : pitem_body i = []) by (destruct (pitem_body i); [reflexivity|discriminate]).
          rewrite Hb in *. cbn [app] in *. rewrite app_nil_r in *.
          cbn [up_inner]. rewrite (read_block_item_eof i l h Hi Hb).
          destruct (wrap_line l (pitem_text i)) as [|w ws] eqn:Ew.
          -- cbn [is_nil].
             assert (Ht : pitem_text i = []).
             { unfold wrap_line in Ew. apply app_eq_nil in Ew. destruct Ew as [_ Ew].
               apply app_eq_nil in Ew. apply Ew. }
             destruct i as [kl k kt vl v vt|u t b|]; cbn [next_preq]; try reflexivity.
             exfalso. cbn [pitem_text] in Ht. apply app_eq_nil in Ht. destruct Ht as [Ht _].
             exact (dec_nonempty _ Ht).
          -- cbn [is_nil].
             assert (Hf1 : (1 <= f)%nat) by (cbn [length] in Hf; lia).
             destruct f as [|f']; [lia|].
             destruct i; cbn [next_preq expected]; try reflexivity.
             eexists. reflexivity.
      + rewrite render_cons2 in *. cbn [up_inner].
        rewrite (read_block_item_lf i l _ h Hi).
        assert (Hlen : (length (render_uripost (x :: r') fin) < f)%nat).
        { rewrite app_length in Hf. cbn [length] in Hf. rewrite app_length in Hf. lia. }
        destruct i; cbn [next_preq expected].
        * apply IH; assumption.
        * eexists. reflexivity.
        * apply IH; assumption.
  Qed.

  Lemma next_preq_entries items h :
    uripost_entries (map fst items) h =
      match next_preq items h with
      | Some (e, rest, h') => e :: uripost_entries (map fst rest) h'
      | None => []
      end.
  Proof.
    revert h; induction items as [|[i l] r IH]; intros h; [reflexivity|].
    cbn [map fst uripost_entries next_preq]. destruct i; auto.
  Qed.

  Lemma next_preq_wf items h e rest h' :
    forallb wf items = true -> next_preq items h = Some (e, rest, h') -> forallb wf rest = true.
  Proof.
    revert h; induction items as [|[i l] r IH]; intros h H E; [discriminate|].
    cbn [forallb] in H. apply andb_prop in H. destruct H as [_ Hr].
    cbn [next_preq] in E. destruct i; eauto. inversion E; subst. exact Hr.
  Qed.

  Definition pst (fin : bool) (all cur : list (pitem * lay)) (h : headers) (a p : N) : pstate :=
    {| p_file := render_uripost all fin; p_rest := render_uripost cur fin; p_hdr := h; p_ammo := a; p_pass := p |}.

  Lemma up_run_cyclic fin k : forall all cur h a p,
    forallb wf all = true -> forallb wf cur = true ->
    uripost_entries (map fst all) [] <> [] ->
    (a = 0 -> uripost_entries (map fst cur) h <> []) ->
    map fst (up_run url_parse k cfg0 (pst fin all cur h a p)) =
      map SDeliver (cycle_take k (uripost_entries (map fst all) []) (uripost_entries (map fst cur) h)).
  Proof.
    induction k as [|k IH]; intros all cur h a p Hall Hcur Hne Ha; [reflexivity|].
    cbn [up_run]. unfold up_scan. change (limit_hit cfg0 (p_ammo (pst fin all cur h a p))) with false.
    cbn iota. cbn [up_outer pst p_rest p_hdr p_file p_ammo p_pass].
    pose proof (up_inner_items fin cur h (S (length (render_uripost cur fin))) Hcur (Nat.lt_succ_diag_r _)) as Hin.
    rewrite (next_preq_entries cur h) in *.
    destruct (next_preq cur h) as [[[e rest] h']|] eqn:En.
    - destruct Hin as [al Hin]. rewrite Hin.
      cbn [cycle_take map fst]. f_equal.
      apply (IH all rest h' (N.succ a) p); auto.
      + exact (next_preq_wf cur h e rest h' Hcur En).
      + intros Hz. lia.
    - rewrite Hin.
      change (passes_hit cfg0 (N.succ p)) with false. cbn iota.
      destruct (N.eqb_spec a 0) as [Hz|Hnz]; [exfalso; apply (Ha Hz); reflexivity|].
      pose proof (up_inner_items fin all [] (S (length (render_uripost all fin))) Hall (Nat.lt_succ_diag_r _)) as Hin2.
      pose proof (next_preq_entries all []) as Eall.
      destruct (next_preq all []) as [[[e rest] h']|] eqn:En2.
      + destruct Hin2 as [al Hin2]. rewrite Hin2. rewrite Eall. cbn [cycle_take map fst]. f_equal.
        rewrite <- Eall.
        apply (IH all rest h' (N.succ a) (N.succ p)); auto.
        * exact (next_preq_wf all [] e rest h' Hall En2).
        * intros Hz. lia.
      + exfalso. apply Hne. exact Eall.
  Qed.

  Theorem uripost_roundtrip items fin k :
    forallb wf items = true ->
    uripost_entries (map fst items) [] <> [] ->
    uripost_decode url_parse cfg0 k (render_uripost items fin) =
      map SDeliver (cycle_take k (uripost_entries (map fst items) []) (uripost_entries (map fst items) [])).
  Proof.
    intros H Hne. unfold uripost_decode, up_init.
    apply (up_run_cyclic fin k items items [] 0 0); auto.
  Qed.
End UripostProofs.
