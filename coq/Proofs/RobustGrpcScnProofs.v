(* Proofs about Model/RobustGrpcScn.v: the grpc/scenario gun returns whatever the calls end with, one sample per
   executed call, a failed call does not end the scenario, the instance survives any history. *)
From Coq Require Import List ZArith Bool Lia.
From PV Require Import Model.Robust Model.RobustGrpcScn Proofs.RobustProofs.
Import ListNotations.
Local Open Scope Z_scope.

Definition gstep_safe (s : gstep) : Prop := gs_pre s <> Panicked /\ Forall (fun o => o <> Panicked) (gs_pps s).

Lemma grpc_scn_step_safe : forall s, gstep_safe s -> forall sm, grpc_scn_step s <> GStepPanic sm.
Proof.
  intros s [Hp Hq] sm. unfold grpc_scn_step.
  destruct (gs_pre s) as [[]| |]; try discriminate; [|congruence].
  destruct (gs_tmpl_ok s), (gs_method_ok s), (gs_payload_ok s); cbn [negb]; try discriminate.
  pose proof (run_pps_safe _ Hq) as H. destruct (run_pps (gs_pps s)) as [[]| |]; try discriminate. congruence.
Qed.

Lemma grpc_scn_step_no_err : forall s sm,
  grpc_scn_step s = GStepOk sm \/ grpc_scn_step s = GStepErr sm \/ grpc_scn_step s = GStepPanic sm -> sm_err sm = false.
Proof.
  intros s sm. unfold grpc_scn_step.
  destruct (gs_pre s) as [[]| |]; [|intros [H|[H|H]]; inversion H; reflexivity..].
  destruct (gs_tmpl_ok s), (gs_method_ok s), (gs_payload_ok s); cbn [negb];
    try (intros [H|[H|H]]; inversion H; reflexivity).
  destruct (run_pps (gs_pps s)) as [[]| |]; intros [H|[H|H]]; inversion H; reflexivity.
Qed.

Lemma grpc_scn_steps_total : forall steps acc, Forall gstep_safe steps ->
  exists l, grpc_scn_steps steps acc = Returned (acc ++ l) /\ length l = grpc_scn_executed steps /\
            Forall (fun sm => sm_err sm = false) l.
Proof.
  induction steps as [|s r IH]; intros acc H; cbn [grpc_scn_steps grpc_scn_executed].
  - exists []. rewrite app_nil_r. repeat split. constructor.
  - inversion H as [|? ? Hs Hr]; subst.
    destruct (grpc_scn_step s) as [sm|sm|sm] eqn:E.
    + destruct (IH (acc ++ [sm]) Hr) as (l & Hl & Hn & Hf). exists (sm :: l).
      rewrite Hl, <- app_assoc. cbn. split; [reflexivity|]. split; [lia|].
      constructor; [apply (grpc_scn_step_no_err s); left; exact E|exact Hf].
    + exists [sm]. repeat split. constructor; [apply (grpc_scn_step_no_err s); right; left; exact E|constructor].
    + exfalso. exact (grpc_scn_step_safe s Hs sm E).
Qed.

Lemma grpc_scn_shoot_total : forall steps, Forall gstep_safe steps ->
  exists l, grpc_scn_shoot steps = Returned l /\ length l = grpc_scn_executed steps /\
            Forall (fun sm => sm_err sm = false) l.
Proof. intros steps H. destruct (grpc_scn_steps_total steps [] H) as (l & Hl & R). exists l. split; [exact Hl|exact R]. Qed.

(* a failed call - whatever status it is mapped to - is a sample and the scenario goes on *)
Lemma grpc_scn_failed_call_goes_on : forall s code, gs_pre s = Done tt -> gs_tmpl_ok s = true -> gs_method_ok s = true ->
  gs_payload_ok s = true -> gs_code s = code -> run_pps (gs_pps s) = Done tt ->
  forall r acc, grpc_scn_steps (s :: r) acc = grpc_scn_steps r (acc ++ [gsample code]).
Proof.
  intros s code H1 H2 H3 H4 H5 H6 r acc. cbn [grpc_scn_steps]. unfold grpc_scn_step.
  rewrite H1, H2, H3, H4, H5, H6. reflexivity.
Qed.

Lemma mk_gstep_safe : forall tmpl method payload code out asserts, gstep_safe (mk_gstep tmpl method payload code out asserts).
Proof.
  intros. split; [discriminate|]. cbn [mk_gstep gs_pps]. apply Forall_forall. intros o Hin.
  apply in_map_iff in Hin. destruct Hin as (a & <- & _). apply grpc_assert_not_panic.
Qed.

Lemma instance_grpc_scn_survives : forall scenarios, Forall (Forall gstep_safe) scenarios ->
  snd (instance_run (map grpc_scn_shoot scenarios)) = false /\
  length (fst (instance_run (map grpc_scn_shoot scenarios))) = fold_right (fun st n => (grpc_scn_executed st + n)%nat) O scenarios.
Proof.
  intros scenarios H.
  assert (HF : Forall (fun s => exists l, s = Returned l) (map grpc_scn_shoot scenarios)).
  { apply Forall_forall. intros s Hin. apply in_map_iff in Hin. destruct Hin as (st & <- & Hst).
    rewrite Forall_forall in H. destruct (grpc_scn_shoot_total st (H st Hst)) as (l & -> & _). eexists; reflexivity. }
  destruct (instance_run_ok _ HF) as [A B]. split; [exact A|]. rewrite B. clear A B HF.
  induction scenarios as [|st r IH]; [reflexivity|]. inversion H as [|? ? Hs Hr]; subst.
  cbn [map flat_map fold_right]. destruct (grpc_scn_shoot_total st Hs) as (l & -> & Hn & _).
  rewrite app_length, IH by exact Hr. lia.
Qed.
