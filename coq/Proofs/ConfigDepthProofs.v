(* Property C17, the any-depth statements: validate-tag violations inside nested plain structs, the concrete form of
   ${property:FILE#KEY}, and the congruence "a value may be replaced, at any path the decoder reaches, by one that
   decodes alike" with its placeholder instance. *)
From Coq Require Import List NArith ZArith Bool QArith Lia.
From PV Require Import Model.ConfigDecode Proofs.ConfigDecodeProofs.
Import ListNotations.
Local Open Scope N_scope.

(* ================================================================ (3) tagged placeholders in general *)
Lemma grp_tag : forall tag acc var rest,
  forallb name_char tag = true -> (acc <> [] \/ tag <> []) ->
  forallb name_char var = true -> var <> [] ->
  grp acc (tag ++ c_colon :: var ++ c_rbrace :: rest) = Some (rev acc ++ tag, var, rest).
Proof.
  induction tag as [|c tag IH]; intros acc var rest Ht Hne Hv Hvne.
  - cbn [app grp]. change (c_colon =? c_rbrace) with false. change (c_colon =? c_colon) with true.
    destruct acc as [|a acc]; [destruct Hne; congruence|]. cbn [andb negb].
    rewrite (var_end_name var [] rest Hv (or_intror Hvne)). cbn. rewrite app_nil_r. reflexivity.
  - cbn in Ht. apply andb_true_iff in Ht. destruct Ht as [Hc Ht].
    unfold name_char in Hc. repeat (apply andb_true_iff in Hc; destruct Hc as [Hc ?]).
    cbn [app grp].
    match goal with H : negb (c =? c_rbrace) = true |- _ => apply negb_true_iff in H; rewrite H end.
    match goal with H : negb (c =? c_colon) = true |- _ => apply negb_true_iff in H; rewrite H end.
    cbn [andb]. rewrite IH; auto.
    + cbn. rewrite <- app_assoc. reflexivity.
    + left. discriminate.
Qed.

Lemma find_tags_ph_tagged : forall tag var,
  simple_name tag = true -> simple_name var = true ->
  find_tags (length (ph_tagged tag var)) (ph_tagged tag var)
  = [{| t_whole := ph_tagged tag var; t_type := tag; t_var := var |}].
Proof.
  intros tag var Ht Hv. unfold simple_name in *.
  assert (Htn : forallb name_char tag = true) by (destruct tag; [discriminate|exact Ht]).
  assert (Hvn : forallb name_char var = true) by (destruct var; [discriminate|exact Hv]).
  assert (Htne : tag <> []) by (destruct tag; discriminate).
  assert (Hvne : var <> []) by (destruct var; discriminate).
  unfold ph_tagged. cbn [length find_tags].
  change (c_dollar =? c_dollar) with true. change (c_lbrace =? c_lbrace) with true. cbn match.
  unfold match_at.
  replace (tag ++ c_colon :: var ++ [c_rbrace]) with (tag ++ c_colon :: var ++ c_rbrace :: []) by reflexivity.
  rewrite (grp_tag tag [] var [] Htn (or_intror Htne) Hvn Hvne). cbn [rev app].
  try rewrite find_tags_nil. rewrite (trim_name tag Htn), (trim_name var Hvn). reflexivity.
Qed.

Lemma trim_ph_tagged : forall tag var, trim (ph_tagged tag var) = ph_tagged tag var.
Proof.
  intros tag var. apply trim_id.
  - intros c r H. unfold ph_tagged in H. inversion H. reflexivity.
  - intros c r H. unfold ph_tagged in H.
    replace (c_dollar :: c_lbrace :: tag ++ c_colon :: var ++ [c_rbrace])
      with ((c_dollar :: c_lbrace :: tag ++ c_colon :: var) ++ [c_rbrace]) in H.
    + rewrite rev_unit in H. inversion H. reflexivity.
    + cbn. rewrite <- app_assoc. reflexivity.
Qed.

Lemma split_hash_app : forall file acc key,
  no_hash file = true -> split_hash acc (file ++ c_hash :: key) = Some (rev acc ++ file, key).
Proof.
  induction file as [|c file IH]; intros acc key H.
  - cbn. change (c_hash =? c_hash) with true. rewrite app_nil_r. reflexivity.
  - cbn in H. apply andb_true_iff in H. destruct H as [Hc H]. apply negb_true_iff in Hc.
    cbn [app split_hash]. rewrite Hc. rewrite IH by exact H. cbn. rewrite <- app_assoc. reflexivity.
Qed.

Section Tagged.
Variable env : str -> option str.
Variable prop : str -> str -> option str.
Variable orc : okind -> str -> option Z.
Variable orcq : str -> option Q.
Variable reg : list entry.
Variable lz : bool.
Variable uq : bool.
Notation D := (decode env prop orc orcq reg lz).

(* a whole-string placeholder whose resolver fails is an error of the hook chain, whatever the target;
   one that resolves is cast by the kind of the target *)
Lemma hooks_tagged_err : forall tag var target e,
  simple_name tag = true -> simple_name var = true ->
  resolve env prop tag var = RErr e ->
  hooks env prop orc orcq target (VStr (ph_tagged tag var)) = HErr e.
Proof.
  intros tag var target e Ht Hv Hr. unfold hooks, inject. rewrite find_tags_ph_tagged by assumption.
  cbn [subst_tokens t_type t_var]. rewrite Hr. reflexivity.
Qed.

Lemma inject_tagged_val : forall tag var target t,
  simple_name tag = true -> simple_name var = true ->
  resolve env prop tag var = RVal t ->
  inject env prop orc orcq target (ph_tagged tag var) = cast_text orc orcq target t.
Proof.
  intros tag var target t Ht Hv Hr. unfold inject. rewrite find_tags_ph_tagged by assumption.
  cbn [subst_tokens t_type t_var t_whole]. rewrite Hr.
  rewrite replace_all_whole by (unfold ph_tagged; discriminate).
  rewrite trim_ph_tagged, str_eqb_refl. reflexivity.
Qed.

Lemma resolve_property : forall file key,
  no_hash file = true ->
  resolve env prop s_property (file ++ c_hash :: key) =
  match prop file key with Some v => RVal v | None => RErr EPlaceholder end.
Proof.
  intros file key H. unfold resolve. change (lower s_property) with s_property.
  change (str_eqb s_property [] || str_eqb s_property s_env) with false.
  change (str_eqb s_property s_property) with true. cbn match.
  rewrite (split_hash_app file [] key H). reflexivity.
Qed.

Definition prop_names_ok (file key : str) : bool :=
  no_hash file && simple_name (file ++ c_hash :: key).

Lemma s_property_simple : simple_name s_property = true.
Proof. reflexivity. Qed.

(* ${property:FILE#KEY}: a missing file or key is an error whatever the target *)
Theorem hooks_ph_prop_missing : forall file key target,
  prop_names_ok file key = true -> prop file key = None ->
  hooks env prop orc orcq target (VStr (ph_prop file key)) = HErr EPlaceholder.
Proof.
  intros file key target Hn Hp. unfold prop_names_ok in Hn. apply andb_true_iff in Hn. destruct Hn as [Hh Hs].
  unfold ph_prop. apply hooks_tagged_err; [exact s_property_simple|exact Hs|].
  rewrite resolve_property by exact Hh. rewrite Hp. reflexivity.
Qed.

Theorem inject_ph_prop_set : forall file key target t,
  prop_names_ok file key = true -> prop file key = Some t ->
  inject env prop orc orcq target (ph_prop file key) = cast_text orc orcq target t.
Proof.
  intros file key target t Hn Hp. unfold prop_names_ok in Hn. apply andb_true_iff in Hn. destruct Hn as [Hh Hs].
  unfold ph_prop. apply inject_tagged_val; [exact s_property_simple|exact Hs|].
  rewrite resolve_property by exact Hh. rewrite Hp. reflexivity.
Qed.

(* in a scalar position of any kind: like the literal its text casts to, or like the text itself *)
Theorem placeholder_scalar_prop : forall file key t k F c,
  prop_names_ok file key = true -> prop file key = Some t -> has_dollar_brace t = false ->
  D (S F) (SScalar k) c (VStr (ph_prop file key)) =
  match cast_text orc orcq (SScalar k) t with
  | HVal (VStr _) => D (S F) (SScalar k) c (VStr t)
  | HVal lit => D (S F) (SScalar k) c lit
  | HErr e => Err e
  end.
Proof.
  intros file key t k F c Hn Hp Hd. cbn [decode hooks].
  rewrite (inject_ph_prop_set file key (SScalar k) t Hn Hp), (inject_plain env prop orc orcq (SScalar k) t Hd).
  unfold cast_text.
  destruct (cast_kind (SScalar k)).
  - destruct (parse_bool t); reflexivity.
  - destruct (orc (OInt bits) t); reflexivity.
  - destruct (orc (OUint bits) t); reflexivity.
  - destruct (orcq t); reflexivity.
  - reflexivity.
  - reflexivity.
Qed.

Theorem placeholder_prop_missing_at : forall p s cur v s' tags d file key,
  reach reg lz uq p [] s cur v = Some (s', tags, d, VStr (ph_prop file key)) ->
  prop_names_ok file key = true -> prop file key = None ->
  forall F c, notok (D F s c v).
Proof.
  intros. eapply hook_error_at; eauto; [discriminate|]. apply hooks_ph_prop_missing; assumption.
Qed.

End Tagged.

(* ================================================================ (1) validate tags inside nested plain structs *)
Lemma find_field_nth : forall k ffs f, find_field k ffs = Some f -> exists i, nth_error ffs i = Some f.
Proof.
  induction ffs as [|f0 r IH]; cbn; intros f H; [discriminate|].
  destruct (fold_eqb (f_key f0) k).
  - inversion H; subst. exists O. reflexivity.
  - destruct (IH f H) as [i Hi]. exists (S i). exact Hi.
Qed.

Section Nested.
Variable env : str -> option str.
Variable prop : str -> str -> option str.
Variable orc : okind -> str -> option Z.
Variable orcq : str -> option Q.
Variable reg : list entry.
Variable lz : bool.
Variable uq : bool.
Notation D := (decode env prop orc orcq reg lz).

(* the value decoded at the end of the path fails its tags whatever it is decoded into *)
Definition violates (s' : schema) (tags' : list vtag) (x : value) : Prop :=
  forall F c0 c', D F s' c0 x = Ok c' -> check_field orc s' c' tags' = false.

(* Inside one validation unit (a struct decoded and then validated as a whole): a written value, at any depth of
   nested plain structs, that violates the validate tags of its field makes the validation of the unit fail. *)
Theorem nested_violation_invalid : forall q s v s' tags' x,
  q <> [] ->
  sreach q [] s v = Some (s', tags', x) -> violates s' tags' x ->
  forall F cur r, D F s cur v = Ok r -> validate orc r s = false.
Proof.
  assert (G : forall q tags s v s' tags' x,
    sreach q tags s v = Some (s', tags', x) -> violates s' tags' x ->
    (q = [] -> forall F c0 c', D F s c0 v = Ok c' -> check_field orc s c' tags = false) /\
    (q <> [] -> forall F cur r, D F s cur v = Ok r -> validate orc r s = false)).
  { induction q as [|st q IH]; intros tags s v s' tags' x Hr Hv.
    - cbn in Hr. inversion Hr; subst. split; [intros _; exact Hv|congruence].
    - split; [discriminate|]. intros _ F cur r HD.
      destruct st as [k|i]; cbn [sreach] in Hr; [|discriminate].
      destruct s; try discriminate. destruct v; try discriminate.
      destruct (unique_key k kvs) eqn:Hu; try discriminate.
      destruct (find_exact k kvs) as [[k0 x0]|] eqn:He; try discriminate.
      destruct (find_field k (flat_fields (SStruct nullable fs))) as [f|] eqn:Hf; try discriminate.
      destruct F as [|F]; [cbn in HD; discriminate|].
      rewrite D_struct in HD. destruct (dec_struct_ok _ _ _ _ _ HD) as [rs [-> Hd]].
      destruct (find_field_nth _ _ _ Hf) as [i Hi].
      destruct (dec_fields_nth _ _ _ _ _ _ _ Hd Hi) as [ri [Hri Hx]].
      rewrite (find_key_unique k (f_key f) kvs k0 x0 Hu (find_field_key _ _ _ Hf) He) in Hx.
      destruct (IH _ _ _ _ _ _ Hr Hv) as [IH0 IH1].
      destruct (validate orc (CStruct rs) (SStruct nullable fs)) eqn:Hval; [|reflexivity].
      destruct q as [|st2 q2].
      + (* the field itself *)
        pose proof (validate_field orc _ _ _ _ _ Hval Hri Hi) as Hc.
        rewrite (IH0 eq_refl _ _ _ Hx) in Hc. discriminate.
      + (* deeper: the field is a nested struct whose own validation fails *)
        assert (Hs : is_struct_schema (f_schema f) = true).
        { destruct st2; cbn [sreach] in Hr; [|discriminate]. destruct (f_schema f); try discriminate. reflexivity. }
        pose proof (validate_nested orc _ _ _ _ _ Hval Hri Hi Hs) as Hn.
        rewrite (IH1 ltac:(discriminate) _ _ _ Hx) in Hn. discriminate. }
  intros q s v s' tags' x Hq Hr Hv. exact (proj2 (G q [] s v s' tags' x Hr Hv) Hq).
Qed.

(* the root configuration *)
Theorem range_nested_root : forall q s v s' tags' x,
  q <> [] -> sreach q [] s v = Some (s', tags', x) -> violates s' tags' x ->
  forall F cur, notok (decode_and_validate env prop orc orcq reg lz F s cur v).
Proof.
  intros q s v s' tags' x Hq Hr Hv F cur. unfold decode_and_validate.
  destruct (D F s cur v) as [r| |] eqn:E; try exact I.
  rewrite (nested_violation_invalid q s v s' tags' x Hq Hr Hv F cur r E). exact I.
Qed.

(* a component config ... *)
Theorem range_nested_plugin : forall q iface fk kvs e cs d s' tags' x,
  plugin_entry reg iface kvs = Some e -> e_conf e = Some (cs, d) -> entry_lazy lz fk e = false ->
  q <> [] ->
  sreach q [] cs (VMap (filter (fun kv => negb (is_type_key kv)) kvs)) = Some (s', tags', x) -> violates s' tags' x ->
  forall F c, notok (D F (SPlugin iface fk) c (VMap kvs)).
Proof.
  intros q iface fk kvs e cs d s' tags' x Hp Hc Hl Hq Hr Hv [|F] c; [exact I|].
  rewrite D_plugin. unfold dec_plugin.
  destruct (plugin_entry_inv _ _ _ _ Hp) as [k1 [name [H1 H2]]]. rewrite H1, H2, Hc.
  unfold entry_lazy in Hl. rewrite Hl.
  destruct (D F cs d (VMap (filter (fun kv => negb (is_type_key kv)) kvs))) as [r| |] eqn:E; try exact I.
  rewrite (nested_violation_invalid q cs _ s' tags' x Hq Hr Hv F d r E). exact I.
Qed.

(* ... wherever the component sits in the tree *)
Theorem range_nested_at : forall p s cur v iface fk tags d0 kvs q e cs d s' tags' x,
  reach reg lz uq p [] s cur v = Some (SPlugin iface fk, tags, d0, VMap kvs) ->
  plugin_entry reg iface kvs = Some e -> e_conf e = Some (cs, d) -> entry_lazy lz fk e = false ->
  q <> [] ->
  sreach q [] cs (VMap (filter (fun kv => negb (is_type_key kv)) kvs)) = Some (s', tags', x) -> violates s' tags' x ->
  forall F c, notok (D F s c v).
Proof.
  intros. eapply propagate; eauto. intros F' c'. eapply range_nested_plugin; eauto.
Qed.

End Nested.

(* ================================================================ (2) congruence: replacing a written value by one that decodes alike *)
Lemma kv_update_other : forall k g a kvs kvs',
  kv_update k g kvs = Some kvs' -> fold_eqb a k = false -> find_key a kvs' = find_key a kvs.
Proof.
  intros k g a kvs kvs' H Ha.
  assert (G : find_exact a kvs' = find_exact a kvs /\ find_fold a kvs' = find_fold a kvs).
  { revert kvs' H. induction kvs as [|[k1 x1] r IH]; cbn; intros kvs' H; [discriminate|].
    destruct (str_eqb k k1) eqn:E.
    - destruct (g x1) as [x1'|]; try discriminate. inversion H; subst. cbn.
      apply str_eqb_eq in E. subst k1.
      assert (Hs : str_eqb a k = false).
      { destruct (str_eqb a k) eqn:E2; auto. apply str_eqb_fold in E2. congruence. }
      rewrite Hs, Ha. auto.
    - destruct (kv_update k g r) as [r'|] eqn:Hu; try discriminate. inversion H; subst. cbn.
      destruct (IH _ eq_refl) as [I1 I2]. rewrite I1, I2. auto. }
  unfold find_key. destruct G as [G1 G2]. rewrite G1, G2. reflexivity.
Qed.

Lemma kv_update_keys : forall k g kvs kvs', kv_update k g kvs = Some kvs' -> map fst kvs' = map fst kvs.
Proof.
  induction kvs as [|[k1 x1] r IH]; cbn; intros kvs' H; [discriminate|].
  destruct (str_eqb k k1).
  - destruct (g x1); try discriminate. inversion H; subst. reflexivity.
  - destruct (kv_update k g r) as [r'|] eqn:Hu; try discriminate. inversion H; subst. cbn. rewrite (IH _ eq_refl). reflexivity.
Qed.

Lemma count_fold_keys : forall a kvs kvs', map fst kvs' = map fst kvs -> count_fold a kvs' = count_fold a kvs.
Proof.
  induction kvs as [|[k1 x1] r IH]; intros [|[k2 x2] r'] H; cbn in *; try discriminate; auto.
  inversion H; subst. rewrite (IH r' H2). reflexivity.
Qed.

Lemma all_used_keys : forall u kvs kvs', map fst kvs' = map fst kvs -> all_used u kvs' = all_used u kvs.
Proof.
  unfold all_used. induction kvs as [|[k1 x1] r IH]; intros [|[k2 x2] r'] H; cbn in *; try discriminate; auto.
  inversion H; subst. rewrite (IH r' H2). reflexivity.
Qed.

Lemma unique_field_first : forall k ffs f g,
  Nat.eqb (count_fields k ffs) 1 = true -> find_field k ffs = Some f ->
  In g ffs -> fold_eqb (f_key g) k = true -> g = f.
Proof.
  induction ffs as [|f0 r IH]; cbn; intros f g Hc Hf Hin Hg; [discriminate|].
  destruct (fold_eqb (f_key f0) k) eqn:E.
  - inversion Hf; subst. destruct Hin as [->|Hin]; [reflexivity|].
    (* a second matching field would make the count at least 2 *)
    exfalso. apply Nat.eqb_eq in Hc.
    assert (Hpos : (count_fields k r >= 1)%nat).
    { clear -Hin Hg. induction r as [|h r IH]; [destruct Hin|]. cbn. destruct Hin as [->|Hin].
      - rewrite Hg. lia.
      - specialize (IH Hin). destruct (fold_eqb (f_key h) k); lia. }
    lia.
  - destruct Hin as [->|Hin]; [congruence|]. eapply IH; eauto.
Qed.

Section Level.
Variable dec : schema -> cval -> value -> res cval.

Lemma dec_fields_cong : forall ffs cs kvs kvs' k k0 x0 x0',
  unique_key k kvs = true -> find_exact k kvs = Some (k0, x0) ->
  unique_key k kvs' = true -> find_exact k kvs' = Some (k0, x0') ->
  (forall a, fold_eqb a k = false -> find_key a kvs' = find_key a kvs) ->
  (forall f, In f ffs -> fold_eqb (f_key f) k = true -> forall c, dec (f_schema f) c x0 = dec (f_schema f) c x0') ->
  dec_fields dec ffs cs kvs = dec_fields dec ffs cs kvs'.
Proof.
  induction ffs as [|f ffs IH]; intros cs kvs kvs' k k0 x0 x0' Hu He Hu' He' Ho Hd; [reflexivity|].
  cbn -[find_key].
  rewrite (IH (tl cs) kvs kvs' k k0 x0 x0' Hu He Hu' He' Ho (fun g Hg => Hd g (or_intror Hg))).
  destruct (fold_eqb (f_key f) k) eqn:E.
  - rewrite (find_key_unique k (f_key f) kvs k0 x0 Hu E He), (find_key_unique k (f_key f) kvs' k0 x0' Hu' E He').
    rewrite (Hd f (or_introl eq_refl) E). reflexivity.
  - rewrite (Ho (f_key f) E). reflexivity.
Qed.

Lemma dec_entries_cong : forall e k g kvs kvs' k0 x0 x0',
  kv_update k g kvs = Some kvs' -> find_exact k kvs = Some (k0, x0) -> g x0 = Some x0' ->
  (forall c, dec e c x0 = dec e c x0') ->
  dec_entries dec e kvs = dec_entries dec e kvs'.
Proof.
  induction kvs as [|[k1 x1] r IH]; cbn; intros kvs' k0 x0 x0' H He Hg Hd; [discriminate|].
  destruct (str_eqb k k1).
  - inversion He; subst. rewrite Hg in H. inversion H; subst. cbn. rewrite Hd. reflexivity.
  - destruct (kv_update k g r) as [r'|] eqn:Hu; try discriminate. inversion H; subst. cbn.
    rewrite (IH _ _ _ _ eq_refl He Hg Hd). reflexivity.
Qed.

Lemma dec_elems_cong : forall e g l l' i cur x0 x0',
  list_update i g l = Some l' -> nth_error l i = Some x0 -> g x0 = Some x0' ->
  (forall c, dec e c x0 = dec e c x0') ->
  dec_elems dec e cur l = dec_elems dec e cur l'.
Proof.
  induction l as [|y r IH]; intros l' i cur x0 x0' H Hn Hg Hd; destruct i; cbn in H, Hn; try discriminate.
  - inversion Hn; subst. rewrite Hg in H. inversion H; subst. cbn. rewrite Hd. reflexivity.
  - destruct (list_update i g r) as [r'|] eqn:Hu; try discriminate. inversion H; subst. cbn.
    rewrite (IH r' i (tl cur) x0 x0' Hu Hn Hg Hd). reflexivity.
Qed.

End Level.

Lemma filter_type_upd : forall k g kvs kvs',
  kv_update k g kvs = Some kvs' -> is_type_key (k, VNull) = false ->
  filter is_type_key kvs' = filter is_type_key kvs /\
  kv_update k g (filter (fun kv => negb (is_type_key kv)) kvs) = Some (filter (fun kv => negb (is_type_key kv)) kvs').
Proof.
  induction kvs as [|[k1 x1] r IH]; cbn -[is_type_key]; intros kvs' H Ht; [discriminate|].
  destruct (str_eqb k k1) eqn:E.
  - destruct (g x1) as [x1'|] eqn:Hg; try discriminate. inversion H; subst.
    assert (H1 : is_type_key (k1, x1) = false) by (rewrite <- (is_type_key_fold k k1 VNull x1 (str_eqb_fold _ _ E)); exact Ht).
    assert (H2 : is_type_key (k1, x1') = false) by (rewrite <- (is_type_key_fold k k1 VNull x1' (str_eqb_fold _ _ E)); exact Ht).
    cbn -[is_type_key]. rewrite H1, H2. cbn -[is_type_key]. rewrite E, Hg. auto.
  - destruct (kv_update k g r) as [r'|] eqn:Hu; try discriminate. inversion H; subst.
    destruct (IH _ eq_refl Ht) as [I1 I2]. cbn -[is_type_key].
    destruct (is_type_key (k1, x1)) eqn:Hk; cbn -[is_type_key].
    + rewrite I1. auto.
    + rewrite E, I2. auto.
Qed.

Section Congruence.
Variable env : str -> option str.
Variable prop : str -> str -> option str.
Variable orc : okind -> str -> option Z.
Variable orcq : str -> option Q.
Variable reg : list entry.
Variable lz : bool.
Notation D := (decode env prop orc orcq reg lz).

Lemma struct_cong : forall nl fs kvs kvs' k g f k0 x0 x0',
  kv_update k g kvs = Some kvs' -> find_exact k kvs = Some (k0, x0) -> g x0 = Some x0' ->
  unique_key k kvs = true ->
  Nat.eqb (count_fields k (flat_fields (SStruct nl fs))) 1 = true ->
  find_field k (flat_fields (SStruct nl fs)) = Some f ->
  (forall F c, D F (f_schema f) c x0 = D F (f_schema f) c x0') ->
  forall F c, D F (SStruct nl fs) c (VMap kvs) = D F (SStruct nl fs) c (VMap kvs').
Proof.
  intros nl fs kvs kvs' k g f k0 x0 x0' Hup He Hgx Hu Hc Hf Hg [|F] c; [reflexivity|].
  rewrite !D_struct. unfold dec_struct.
  destruct (kv_update_find _ _ _ _ Hup) as [k1 [x1 [x1' [He1 [Hg1 He']]]]].
  rewrite He in He1. inversion He1; subst k1 x1. rewrite Hgx in Hg1. inversion Hg1; subst x1'.
  pose proof (kv_update_keys _ _ _ _ Hup) as Hk.
  assert (Hu' : unique_key k kvs' = true) by (unfold unique_key in *; rewrite (count_fold_keys k kvs kvs' Hk); exact Hu).
  rewrite (dec_fields_cong (D F) (flat_fields (SStruct nl fs)) (struct_cur (SStruct nl fs) c) kvs kvs' k k0 x0 x0' Hu He Hu' He').
  - destruct (dec_fields (D F) (flat_fields (SStruct nl fs)) (struct_cur (SStruct nl fs) c) kvs') as [r used].
    rewrite (all_used_keys used kvs kvs' Hk). reflexivity.
  - intros a Ha. eapply kv_update_other; eauto.
  - intros g0 Hin Hm c0. rewrite (unique_field_first k _ f g0 Hc Hf Hin Hm). apply Hg.
Qed.

Lemma plugin_cong : forall iface fk kvs kvs' k g e cs d f k0 x0 x0',
  kv_update k g kvs = Some kvs' -> find_exact k kvs = Some (k0, x0) -> g x0 = Some x0' ->
  unique_key k kvs = true -> is_type_key (k, VNull) = false ->
  plugin_entry reg iface kvs = Some e -> e_conf e = Some (cs, d) ->
  Nat.eqb (count_fields k (flat_fields cs)) 1 = true ->
  find_field k (flat_fields cs) = Some f ->
  (forall F c, D F (f_schema f) c x0 = D F (f_schema f) c x0') ->
  forall F c, D F (SPlugin iface fk) c (VMap kvs) = D F (SPlugin iface fk) c (VMap kvs').
Proof.
  intros iface fk kvs kvs' k g e cs d f k0 x0 x0' Hup He Hgx Hu Ht Hp Hc Hcnt Hf Hg [|F] c; [reflexivity|].
  rewrite !D_plugin. unfold dec_plugin.
  destruct (filter_type_upd _ _ _ _ Hup Ht) as [Hty Hconf]. rewrite Hty.
  destruct (plugin_entry_inv _ _ _ _ Hp) as [k1 [name [H1 H2]]]. rewrite H1, H2, Hc.
  destruct (lz && negb (fk =? 0) && negb (e_factory e)); [reflexivity|].
  destruct (flat_fields_struct _ _ _ Hf) as [nl [fs ->]].
  rewrite (struct_cong nl fs _ _ k g f k0 x0 x0' Hconf).
  - reflexivity.
  - rewrite find_exact_filter; auto.
  - exact Hgx.
  - unfold unique_key. rewrite count_fold_filter; auto.
  - exact Hcnt.
  - exact Hf.
  - exact Hg.
Qed.

(* Congruence.  If the decoding problem met at path p has the same answer for x' as for the written x (whatever the
   current value and the fuel), then the tree with x' written at p decodes exactly like the original tree.
   (uq = true: no field on the path shares its key with another field; the end of the path is not inside a
   free-form `interface{}` region.) *)
Theorem decode_congruence : forall p tags s cur v s' tags' cur' x x' v',
  reach reg lz true p tags s cur v = Some (s', tags', cur', x) ->
  s' <> SAny ->
  replace_at p x' v = Some v' ->
  (forall F c, D F s' c x = D F s' c x') ->
  forall F c, D F s c v = D F s c v'.
Proof.
  unfold replace_at.
  induction p as [|st p IH]; intros tags s cur v s' tags' cur' x x' v' Hr Hna Hup Heq.
  - cbn in Hr, Hup. inversion Hr; inversion Hup; subst. exact Heq.
  - destruct st as [k|i]; cbn [reach] in Hr; cbn [update_at] in Hup.
    + destruct s; try discriminate.
      * (* struct *)
        destruct v; try discriminate.
        destruct (kv_update k (update_at p (fun _ => Some x')) kvs) as [kvs'|] eqn:Hu; try discriminate. inversion Hup; subst.
        destruct (unique_key k kvs && field_ok true k (flat_fields (SStruct nullable fs))) eqn:Hc; try discriminate.
        apply andb_true_iff in Hc. destruct Hc as [Huk Hfo]. unfold field_ok in Hfo. cbn [negb orb] in Hfo.
        destruct (find_exact k kvs) as [[k0 x0]|] eqn:He; try discriminate.
        destruct (nth_field k (flat_fields (SStruct nullable fs)) (struct_cur (SStruct nullable fs) cur)) as [[f c0]|] eqn:Hf; try discriminate.
        destruct (kv_update_find _ _ _ _ Hu) as [k1 [x1 [x1' [He1 [Hg1 _]]]]].
        rewrite He in He1. inversion He1; subst k1 x1.
        eapply struct_cong; eauto using nth_field_find.
      * (* map *)
        destruct v; try discriminate.
        destruct (kv_update k (update_at p (fun _ => Some x')) kvs) as [kvs'|] eqn:Hu; try discriminate. inversion Hup; subst.
        destruct (unique_key k kvs) eqn:Huk; try discriminate.
        destruct (find_exact k kvs) as [[k0 x0]|] eqn:He; try discriminate.
        destruct (kv_update_find _ _ _ _ Hu) as [k1 [x1 [x1' [He1 [Hg1 _]]]]].
        rewrite He in He1. inversion He1; subst k1 x1.
        intros [|F] c; [reflexivity|]. rewrite !D_map. unfold dec_map.
        rewrite (dec_entries_cong (D F) s k _ kvs kvs' k0 x0 x1' Hu He Hg1 (fun c' => IH _ _ _ _ _ _ _ _ _ _ Hr Hna Hg1 Heq F c')).
        reflexivity.
      * (* any: excluded *)
        inversion Hr; subst. congruence.
      * (* plugin *)
        destruct v; try discriminate.
        destruct (kv_update k (update_at p (fun _ => Some x')) kvs) as [kvs'|] eqn:Hu; try discriminate. inversion Hup; subst.
        destruct (unique_key k kvs && negb (is_type_key (k, VNull))) eqn:Hc; try discriminate.
        apply andb_true_iff in Hc. destruct Hc as [Huk Ht]. apply negb_true_iff in Ht.
        destruct (plugin_entry reg iface kvs) as [e|] eqn:Hp; try discriminate.
        destruct (find_exact k kvs) as [[k0 x0]|] eqn:He; try discriminate.
        destruct (e_conf e) as [[cs d]|] eqn:Hcf; try discriminate.
        destruct (entry_lazy lz fk e || negb (field_ok true k (flat_fields cs))) eqn:Hl; try discriminate.
        apply orb_false_iff in Hl. destruct Hl as [_ Hfo]. apply negb_false_iff in Hfo.
        unfold field_ok in Hfo. cbn [negb orb] in Hfo.
        destruct (nth_field k (flat_fields cs) (struct_cur cs d)) as [[f c0]|] eqn:Hf; try discriminate.
        destruct (kv_update_find _ _ _ _ Hu) as [k1 [x1 [x1' [He1 [Hg1 _]]]]].
        rewrite He in He1. inversion He1; subst k1 x1.
        eapply plugin_cong; eauto using nth_field_find.
    + destruct s; try discriminate.
      * (* slice *)
        destruct v; try discriminate.
        destruct (list_update i (update_at p (fun _ => Some x')) l) as [l'|] eqn:Hu; try discriminate. inversion Hup; subst.
        destruct (nth_error l i) as [x0|] eqn:Hi; try discriminate.
        destruct (list_update_nth _ _ _ _ Hu) as [y [y' [Hy [Hg1 _]]]]. rewrite Hi in Hy. inversion Hy; subst y.
        intros [|F] c; [reflexivity|]. rewrite !D_slice. unfold dec_slice.
        rewrite (dec_elems_cong (D F) s _ l l' i _ x0 y' Hu Hi Hg1 (fun c' => IH _ _ _ _ _ _ _ _ _ _ Hr Hna Hg1 Heq F c')).
        reflexivity.
      * inversion Hr; subst. congruence.
      * (* schedule list shorthand *)
        destruct v; try discriminate.
        destruct (list_update i (update_at p (fun _ => Some x')) l) as [l'|] eqn:Hu; try discriminate. inversion Hup; subst.
        destruct (str_eqb iface i_schedule) eqn:Hs; try discriminate.
        destruct (lookup_entry reg iface s_composite) as [e|] eqn:Hl; try discriminate.
        destruct (e_conf e) as [[cs d]|] eqn:Hcf; try discriminate.
        destruct (entry_lazy lz fk e || negb (field_ok true s_nested (flat_fields cs))) eqn:Hz; try discriminate.
        apply orb_false_iff in Hz. destruct Hz as [_ Hfo]. apply negb_false_iff in Hfo.
        unfold field_ok in Hfo. cbn [negb orb] in Hfo.
        destruct (find_field s_nested (flat_fields cs)) as [f|] eqn:Hf; try discriminate.
        destruct (f_schema f) as [| |el| | | |] eqn:Hfs; try discriminate.
        destruct (nth_error l i) as [x0|] eqn:Hi; try discriminate.
        destruct (list_update_nth _ _ _ _ Hu) as [y [y' [Hy [Hg1 _]]]]. rewrite Hi in Hy. inversion Hy; subst y.
        intros [|F] c; [reflexivity|]. rewrite !D_schedule_list by exact Hs.
        change (dec_plugin orc reg lz (D F) iface fk [(s_type, VStr s_composite); (s_nested, VList l)])
          with (D (S F) (SPlugin iface fk) c (VMap [(s_type, VStr s_composite); (s_nested, VList l)])).
        change (dec_plugin orc reg lz (D F) iface fk [(s_type, VStr s_composite); (s_nested, VList l')])
          with (D (S F) (SPlugin iface fk) c (VMap [(s_type, VStr s_composite); (s_nested, VList l')])).
        eapply plugin_cong with (k := s_nested) (g := fun _ => Some (VList l')) (k0 := s_nested) (x0 := VList l) (x0' := VList l');
          try reflexivity; eauto.
        all: try (unfold plugin_entry;
                  replace (filter is_type_key [(s_type, VStr s_composite); (s_nested, VList l)]) with [(s_type, VStr s_composite)] by reflexivity;
                  exact Hl).
        intros [|F'] c'; [reflexivity|]. rewrite Hfs, !D_slice. unfold dec_slice.
        rewrite (dec_elems_cong (D F') el _ l l' i _ x0 y' Hu Hi Hg1 (fun c'' => IH _ _ _ _ _ _ _ _ _ _ Hr Hna Hg1 Heq F' c'')).
        reflexivity.
Qed.

End Congruence.

(* ================================================================ placeholders at any path of a whole tree *)
Section WholeTree.
Variable env : str -> option str.
Variable prop : str -> str -> option str.
Variable orc : okind -> str -> option Z.
Variable orcq : str -> option Q.
Variable reg : list entry.
Variable lz : bool.
Notation D := (decode env prop orc orcq reg lz).

(* the literal a resolved text stands for at a scalar of kind k: what confutil.cast makes of it, else the text *)
Definition ph_literal (k : skind) (t : str) : option value :=
  match cast_text orc orcq (SScalar k) t with
  | HVal (VStr _) => Some (VStr t)
  | HVal lit => Some lit
  | HErr _ => None
  end.

Lemma scalar_literal_eq : forall k w t lit,
  (forall F c, D (S F) (SScalar k) c (VStr w) =
     match cast_text orc orcq (SScalar k) t with
     | HVal (VStr _) => D (S F) (SScalar k) c (VStr t)
     | HVal l => D (S F) (SScalar k) c l
     | HErr e => Err e
     end) ->
  ph_literal k t = Some lit ->
  forall F c, D F (SScalar k) c (VStr w) = D F (SScalar k) c lit.
Proof.
  intros k w t lit H Hl [|F] c; [reflexivity|]. rewrite H. unfold ph_literal in Hl.
  destruct (cast_text orc orcq (SScalar k) t) as [v|e]; [|discriminate].
  destruct v; inversion Hl; subst; reflexivity.
Qed.

(* one placeholder, at any path the decoder reaches: the tree decodes exactly like the tree with the literal written *)
Theorem placeholder_env_at : forall p s cur v k tags d name t lit v',
  reach reg lz true p [] s cur v = Some (SScalar k, tags, d, VStr (ph_env name)) ->
  simple_name name = true -> env name = Some t -> has_dollar_brace t = false ->
  ph_literal k t = Some lit -> replace_at p lit v = Some v' ->
  forall F c, D F s c v = D F s c v'.
Proof.
  intros p s cur v k tags d name t lit v' Hr Hs He Hd Hl Hrep.
  eapply decode_congruence; eauto; [discriminate|].
  eapply scalar_literal_eq; eauto. intros F c. apply placeholder_scalar; assumption.
Qed.

Theorem placeholder_prop_at : forall p s cur v k tags d file key t lit v',
  reach reg lz true p [] s cur v = Some (SScalar k, tags, d, VStr (ph_prop file key)) ->
  prop_names_ok file key = true -> prop file key = Some t -> has_dollar_brace t = false ->
  ph_literal k t = Some lit -> replace_at p lit v = Some v' ->
  forall F c, D F s c v = D F s c v'.
Proof.
  intros p s cur v k tags d file key t lit v' Hr Hs He Hd Hl Hrep.
  eapply decode_congruence; eauto; [discriminate|].
  eapply scalar_literal_eq; eauto. intros F c. apply placeholder_scalar_prop; assumption.
Qed.

(* any number of placeholders: v' is obtained from v by resolving placeholders one after the other, each at a scalar
   position the decoder reaches (of the tree as it stands then) *)
Inductive resolves (s : schema) (cur : cval) : value -> value -> Prop :=
| R_done : forall v, resolves s cur v v
| R_env : forall p v k tags d name t lit v1 v2,
    reach reg lz true p [] s cur v = Some (SScalar k, tags, d, VStr (ph_env name)) ->
    simple_name name = true -> env name = Some t -> has_dollar_brace t = false ->
    ph_literal k t = Some lit -> replace_at p lit v = Some v1 ->
    resolves s cur v1 v2 -> resolves s cur v v2
| R_prop : forall p v k tags d file key t lit v1 v2,
    reach reg lz true p [] s cur v = Some (SScalar k, tags, d, VStr (ph_prop file key)) ->
    prop_names_ok file key = true -> prop file key = Some t -> has_dollar_brace t = false ->
    ph_literal k t = Some lit -> replace_at p lit v = Some v1 ->
    resolves s cur v1 v2 -> resolves s cur v v2.

Theorem resolves_decode : forall s cur v v', resolves s cur v v' -> forall F c, D F s c v = D F s c v'.
Proof.
  intros s cur v v' H. induction H; intros F c; [reflexivity| |].
  - rewrite (placeholder_env_at p s cur v k tags d name t lit v1); auto.
  - rewrite (placeholder_prop_at p s cur v k tags d file key t lit v1); auto.
Qed.

End WholeTree.
