(* Lemmas about the pool model (Model/WaiterPool.v) for property C04: whatever the pool looks like
   (schedule per instance or shared, any number of instances, any start instants, any response
   durations) every token handled by any instance obeys shot_ok for the CONFIGURED discard flag. *)
From Coq Require Import List ZArith Bool Lia Permutation.
From PV Require Import Model.Waiter Model.WaiterPool Proofs.WaiterProofs.
Import ListNotations.
Local Open Scope Z_scope.

Definition inst_inv (s : istate) : Prop :=
  last_le (is_w s) (is_free s) /\ Forall (fun x => 0 <= x) (is_durs s).

Lemma step_inst_as_run_inst : forall v d s next,
  run_inst v d (is_w s) (is_free s) [(0, next)] (is_durs s) = [fst (step_inst v d s next)].
Proof.
  intros. cbn [run_inst]. unfold step_inst. rewrite Z.add_0_r.
  destruct (wait v (is_w s) _) as [st' o]. destruct (decide d (is_slow_down st')); reflexivity.
Qed.

Lemma step_inst_ok : forall v d s next sh s',
  inst_inv s -> step_inst v d s next = (sh, s') ->
  shot_ok v d sh /\ s_tok sh = next /\ inst_inv s'.
Proof.
  intros v d s next sh s' [Hl Hd] H.
  assert (Hsh : shot_ok v d sh).
  { pose proof (run_inst_ok v d [(0, next)] (is_w s) (is_free s) (is_durs s) Hl) as R.
    rewrite step_inst_as_run_inst, H in R. cbn [fst] in R.
    assert (F : Forall (shot_ok v d) [sh]).
    { apply R; [constructor; [cbn; lia|constructor]|exact Hd]. }
    inversion F; assumption. }
  split; [exact Hsh|].
  unfold step_inst in H.
  set (c := {| c_ctx_done := false; c_tok := Some next; c_now := is_free s; c_cancel_in_sleep := false; c_wake := next |}) in *.
  destruct (wait v (is_w s) c) as [st' o] eqn:Ew.
  pose proof (ideal_call_wf (is_w s) (is_free s) 0 next Hl (Z.le_refl 0)) as Hwf.
  rewrite Z.add_0_r in Hwf. fold c in Hwf.
  assert (Hlast' : last_le st' (return_lower (is_free s) c o)).
  { intros l E. eapply wait_last_le; eauto. }
  destruct (decide d (is_slow_down st')); injection H as <- <-; cbn [s_tok is_free is_w is_durs];
    (split; [reflexivity|]); split; cbn [is_free is_w is_durs].
  - intros l E. pose proof (Hlast' l E).
    assert (0 <= match is_durs s with x :: _ => x | [] => 0 end).
    { destruct (is_durs s); [lia|]. inversion Hd; assumption. }
    lia.
  - destruct (is_durs s); [constructor|]. inversion Hd; assumption.
  - exact Hlast'.
  - exact Hd.
Qed.

Lemma Forall_update : forall {A} (P : A -> Prop) l k x, Forall P l -> P x -> Forall P (update l k x).
Proof.
  intros A P l. induction l as [|y r IH]; intros k x Hl Hx; cbn; [constructor|].
  inversion Hl; subst. destruct k; constructor; auto.
Qed.

Lemma update_length : forall {A} (l : list A) k x, length (update l k x) = length l.
Proof. intros A l. induction l as [|y r IH]; intros k x; cbn; [reflexivity|]. destruct k; cbn; auto. Qed.

Lemma argmin_from_lt : forall l best bt k, (best < k)%nat -> (argmin_from best bt k l < k + length l)%nat.
Proof.
  induction l as [|s r IH]; intros best bt k H; cbn [argmin_from length]; [lia|].
  destruct (is_free s <? bt).
  - pose proof (IH k (is_free s) (S k) (Nat.lt_succ_diag_r k)). lia.
  - assert (best < S k)%nat by lia. pose proof (IH best bt (S k) H0). lia.
Qed.

Lemma argmin_lt : forall l, l <> [] -> (argmin l < length l)%nat.
Proof.
  intros [|s r] H; [congruence|]. cbn [argmin length].
  pose proof (argmin_from_lt r 0%nat (is_free s) 1%nat Nat.lt_0_1). lia.
Qed.

Lemma run_shared_ok : forall v d toks sts,
  Forall inst_inv sts ->
  Forall (fun ks => shot_ok v d (snd ks) /\ (fst ks < length sts)%nat) (run_shared v d sts toks).
Proof.
  intros v d toks. induction toks as [|next r IH]; intros sts Hs; cbn [run_shared]; [constructor|].
  destruct (nth_error sts (argmin sts)) as [s|] eqn:En; [|constructor].
  destruct (step_inst v d s next) as [sh s'] eqn:Es.
  assert (Hin : inst_inv s) by (eapply Forall_forall; [exact Hs|eapply nth_error_In; exact En]).
  destruct (step_inst_ok _ _ _ _ _ _ Hin Es) as [Hsh [_ Hinv']].
  constructor.
  - cbn [fst snd]. split; [exact Hsh|]. apply nth_error_Some. congruence.
  - pose proof (IH (update sts (argmin sts) s') (Forall_update _ _ _ _ Hs Hinv')) as R.
    rewrite update_length in R. exact R.
Qed.

Lemma run_shared_tokens : forall v d toks sts,
  Forall inst_inv sts -> sts <> [] ->
  map (fun ks => s_tok (snd ks)) (run_shared v d sts toks) = toks.
Proof.
  intros v d toks. induction toks as [|next r IH]; intros sts Hs Hne; cbn [run_shared]; [reflexivity|].
  pose proof (argmin_lt sts Hne) as Hlt.
  destruct (nth_error sts (argmin sts)) as [s|] eqn:En; [|apply nth_error_None in En; lia].
  destruct (step_inst v d s next) as [sh s'] eqn:Es.
  assert (Hin : inst_inv s) by (eapply Forall_forall; [exact Hs|eapply nth_error_In; exact En]).
  destruct (step_inst_ok _ _ _ _ _ _ Hin Es) as [_ [Ht Hinv']].
  cbn [map fst snd]. rewrite Ht. f_equal. apply IH.
  - apply Forall_update; assumption.
  - intro E. pose proof (update_length sts (argmin sts) s') as L. rewrite E in L. cbn in L.
    destruct sts; [congruence|cbn in L; lia].
Qed.

(* ---- own schedules ---- *)
Lemma last_le_init : forall t, last_le wstate_init t.
Proof. intros t l E. discriminate. Qed.

Lemma own_tokens_pre : forall start offs, Forall (fun p : Z * Z => 0 <= fst p) (own_tokens start offs).
Proof. intros. unfold own_tokens. apply Forall_forall. intros x Hx. apply in_map_iff in Hx. destruct Hx as [o [<- _]]. cbn. lia. Qed.

Lemma run_own_ok : forall v p offs start durs,
  Forall (fun x => 0 <= x) durs -> Forall (shot_ok v (p_discard p)) (run_own v p offs start durs).
Proof.
  intros. unfold run_own, instance_discard. apply run_inst_ok; [apply last_le_init|apply own_tokens_pre|assumption].
Qed.

Lemma run_own_tokens : forall v p offs start durs,
  map s_tok (run_own v p offs start durs) = map (fun o => start + o) offs.
Proof.
  intros. unfold run_own. rewrite run_inst_tokens. unfold own_tokens. rewrite map_map. reflexivity.
Qed.

Lemma tag_own_ok : forall v p offs sts k,
  Forall inst_inv sts ->
  Forall (fun ks : nat * shot => shot_ok v (p_discard p) (snd ks)) (tag_own v p offs k sts).
Proof.
  intros v p offs sts. induction sts as [|s r IH]; intros k Hs; cbn [tag_own]; [constructor|].
  inversion Hs as [|x xs [_ Hd] Hr]; subst. apply Forall_app. split; [|apply IH; assumption].
  apply Forall_forall. intros ks Hin. apply in_map_iff in Hin. destruct Hin as [sh [<- Hin]]. cbn [snd].
  pose proof (run_own_ok v p offs (is_free s) (is_durs s) Hd) as F.
  eapply Forall_forall in F; eauto.
Qed.

(* every instance of a pool with own schedules gets the whole profile *)
Lemma tag_own_tokens : forall v p offs sts k,
  map (fun ks : nat * shot => s_tok (snd ks)) (tag_own v p offs k sts)
  = concat (map (fun s => map (fun o => is_free s + o) offs) sts).
Proof.
  intros v p offs sts. induction sts as [|s r IH]; intros k; cbn [tag_own map concat]; [reflexivity|].
  rewrite map_app, IH, map_map. cbn [snd]. f_equal.
  change (map (fun x : shot => s_tok x) (run_own v p offs (is_free s) (is_durs s))) with
         (map s_tok (run_own v p offs (is_free s) (is_durs s))).
  apply run_own_tokens.
Qed.

Lemma init_states_inv : forall starts durs,
  Forall (Forall (fun x => 0 <= x)) durs -> Forall inst_inv (init_states starts durs).
Proof.
  intros starts durs Hd. unfold init_states. apply Forall_forall. intros s Hin.
  apply in_map_iff in Hin. destruct Hin as [[st du] [<- Hin]]. split; cbn [is_w is_free is_durs fst snd].
  - apply last_le_init.
  - apply in_combine_r in Hin. apply in_app_or in Hin. destruct Hin as [Hin|Hin].
    + eapply Forall_forall in Hd; eauto.
    + apply repeat_spec in Hin. subst. constructor.
Qed.

Lemma init_states_length : forall starts durs, length (init_states starts durs) = length starts.
Proof.
  intros. unfold init_states. rewrite map_length, combine_length, app_length, repeat_length. lia.
Qed.

(* The pool theorem: the fate of every token, in every instance, is judged with the flag written
   in the pool's configuration -- with own schedules and with the shared one alike. *)
Lemma run_pool_ok : forall v p starts offs durs,
  Forall (Forall (fun x => 0 <= x)) durs ->
  Forall (fun ks : nat * shot => shot_ok v (p_discard p) (snd ks)) (run_pool v p starts offs durs).
Proof.
  intros v p starts offs durs Hd. unfold run_pool.
  pose proof (init_states_inv starts durs Hd) as Hi.
  destruct (p_per_instance p).
  - apply tag_own_ok. exact Hi.
  - unfold instance_discard.
    pose proof (run_shared_ok v (p_discard p) (map (fun o => hd 0 starts + o) offs) _ Hi) as R.
    eapply Forall_impl; [|exact R]. intros ks [H _]. exact H.
Qed.

(* ... and no token is lost or duplicated: with own schedules every instance handles the whole
   profile (offsets from its start), with the shared one every token is handled exactly once. *)
Lemma run_pool_tokens : forall v p starts offs durs,
  Forall (Forall (fun x => 0 <= x)) durs -> starts <> [] ->
  map (fun ks : nat * shot => s_tok (snd ks)) (run_pool v p starts offs durs) =
  if p_per_instance p then concat (map (fun s => map (fun o => is_free s + o) offs) (init_states starts durs))
  else map (fun o => hd 0 starts + o) offs.
Proof.
  intros v p starts offs durs Hd Hne. unfold run_pool. destruct (p_per_instance p).
  - apply tag_own_tokens.
  - apply run_shared_tokens; [apply init_states_inv; exact Hd|].
    intro E. pose proof (init_states_length starts durs) as L. rewrite E in L. destruct starts; [congruence|discriminate].
Qed.

(* ---- shared schedule, any hand-out ---- *)
Lemma taken_by_Forall : forall {A} (P : A -> Prop) i assign toks, Forall P toks -> Forall P (taken_by i assign toks).
Proof.
  intros A P i assign. induction assign as [|a ar IH]; intros toks H; cbn [taken_by]; [constructor|].
  destruct toks as [|t tr]; [constructor|]. inversion H; subst.
  destruct (Nat.eqb a i); [constructor|]; auto.
Qed.

Lemma shared_any_assignment_ok : forall v p i assign toks start durs,
  Forall (fun q : Z * Z => 0 <= fst q) toks -> Forall (fun x => 0 <= x) durs ->
  Forall (shot_ok v (p_discard p))
         (run_inst v (instance_discard p) wstate_init start (taken_by i assign toks) durs).
Proof.
  intros. unfold instance_discard. apply run_inst_ok; [apply last_le_init|apply taken_by_Forall; assumption|assumption].
Qed.

Lemma taken_by_concat_perm : forall {A} (assign : list nat) (toks : list A) (l : list nat),
  NoDup l -> (forall a, In a assign -> In a l) -> length assign = length toks ->
  Permutation (concat (map (fun i => taken_by i assign toks) l)) toks.
Proof.
  intros A assign. induction assign as [|a ar IH]; intros toks l Hnd Hin Hlen.
  - destruct toks; [|discriminate]. cbn [taken_by].
    assert (E : forall l' : list nat, concat (map (fun i => @taken_by A i [] []) l') = []) by (induction l'; cbn; auto).
    rewrite E. constructor.
  - destruct toks as [|t tr]; [discriminate|]. cbn in Hlen. injection Hlen as Hlen.
    assert (Hr : Permutation (concat (map (fun i => taken_by i ar tr) l)) tr).
    { apply IH; auto. intros x Hx. apply Hin. right. exact Hx. }
    assert (Ha : In a l) by (apply Hin; left; reflexivity).
    clear Hin IH. rewrite <- Hr. clear Hr.
    induction l as [|i r IHl]; [contradiction|].
    inversion Hnd as [|x xs Hni Hnd']; subst. cbn [map concat].
    replace (taken_by i (a :: ar) (t :: tr)) with (if Nat.eqb a i then t :: taken_by i ar tr else taken_by i ar tr) by reflexivity.
    destruct (Nat.eqb a i) eqn:E.
    + apply Nat.eqb_eq in E. subst i. cbn [app]. constructor.
      apply Permutation_app_head.
      assert (Hsame : map (fun i => taken_by i (a :: ar) (t :: tr)) r = map (fun i => taken_by i ar tr) r).
      { apply map_ext_in. intros j Hj. cbn [taken_by].
        destruct (Nat.eqb a j) eqn:E2; [apply Nat.eqb_eq in E2; subst; contradiction|reflexivity]. }
      rewrite Hsame. reflexivity.
    + destruct Ha as [Ha|Ha]; [subst; rewrite Nat.eqb_refl in E; discriminate|].
      rewrite (IHl Hnd' Ha). symmetry. apply Permutation_middle.
Qed.

(* ---- the length of a run ---- *)
(* run_steps is run_inst on tokens taken as soon as the instance is free *)
Lemma run_steps_run_inst : forall v d toks s,
  fst (run_steps v d s toks) = run_inst v d (is_w s) (is_free s) (map (pair 0) toks) (is_durs s).
Proof.
  intros v d toks. induction toks as [|next r IH]; intros s; cbn [run_steps map run_inst]; [reflexivity|].
  unfold step_inst. rewrite Z.add_0_r.
  destruct (wait v (is_w s) _) as [st' o].
  destruct (decide d (is_slow_down st')).
  - match goal with |- context [run_steps v d ?S r] => pose proof (IH S) as R; destruct (run_steps v d S r) as [l s''] end.
    cbn [fst] in *. rewrite R. reflexivity.
  - match goal with |- context [run_steps v d ?S r] => pose proof (IH S) as R; destruct (run_steps v d S r) as [l s''] end.
    cbn [fst] in *. rewrite R. reflexivity.
Qed.

Definition durs_le (dmax : Z) (s : istate) : Prop := Forall (fun x => 0 <= x <= dmax) (is_durs s).

(* one token, discard_overflow enabled, current tree: the instance is free again within
   2 s + one response time of the token's time (or was free later than that already) *)
Lemma step_inst_bound : forall s next sh s' tmax dmax M,
  inst_inv s -> durs_le dmax s -> 0 <= dmax -> step_inst wfixed true s next = (sh, s') ->
  next <= tmax -> tmax + max_overdue + dmax <= M -> is_free s <= M ->
  is_free s' <= M /\ durs_le dmax s'.
Proof.
  intros s next sh s' tmax dmax M Hinv Hd Hdm Hs Hn HM Hf.
  destruct (step_inst_ok _ _ _ _ _ _ Hinv Hs) as [Hok _].
  destruct Hok as [_ [_ [Hdisc [_ [Hfire _]]]]].
  unfold step_inst in Hs.
  set (c := {| c_ctx_done := false; c_tok := Some next; c_now := is_free s; c_cancel_in_sleep := false; c_wake := next |}) in *.
  destruct (wait wfixed (is_w s) c) as [st' o] eqn:Ew.
  destruct Hinv as [Hl _].
  pose proof (ideal_return _ _ _ _ _ _ Hl Ew) as Hret. fold c in Hret.
  unfold durs_le in *.
  destruct (decide true (is_slow_down st')); injection Hs as <- <-; cbn [s_entry s_tok s_dec is_free is_durs] in *.
  - specialize (Hfire eq_refl eq_refl eq_refl). split.
    + assert (match is_durs s with x :: _ => x | [] => 0 end <= dmax).
      { destruct (is_durs s); [lia|]. inversion Hd; lia. }
      lia.
    + destruct (is_durs s); [constructor|]. inversion Hd; assumption.
  - destruct (Hdisc eq_refl) as [_ Hlate]. split; [|exact Hd].
    rewrite Hret in *. unfold max_overdue in *. lia.
Qed.

Lemma run_steps_bound : forall toks s tmax dmax M,
  inst_inv s -> durs_le dmax s -> 0 <= dmax -> Forall (fun x => x <= tmax) toks ->
  tmax + max_overdue + dmax <= M -> is_free s <= M ->
  is_free (snd (run_steps wfixed true s toks)) <= M.
Proof.
  induction toks as [|next r IH]; intros s tmax dmax M Hinv Hd Hdm Ht HM Hf; cbn [run_steps]; [exact Hf|].
  inversion Ht; subst.
  destruct (step_inst wfixed true s next) as [sh s'] eqn:Es.
  destruct (step_inst_bound _ _ _ _ _ _ _ Hinv Hd Hdm Es H1 HM Hf) as [Hf' Hd'].
  destruct (step_inst_ok _ _ _ _ _ _ Hinv Es) as [_ [_ Hinv']].
  pose proof (IH s' tmax dmax M Hinv' Hd' Hdm H2 HM Hf') as R.
  destruct (run_steps wfixed true s' r) as [l s'']. exact R.
Qed.

Lemma shared_final_bound : forall toks sts tmax dmax M,
  Forall inst_inv sts -> Forall (durs_le dmax) sts -> 0 <= dmax -> Forall (fun x => x <= tmax) toks ->
  tmax + max_overdue + dmax <= M -> Forall (fun s => is_free s <= M) sts ->
  Forall (fun s => is_free s <= M) (shared_final wfixed true sts toks).
Proof.
  induction toks as [|next r IH]; intros sts tmax dmax M Hinv Hd Hdm Ht HM Hf; cbn [shared_final]; [exact Hf|].
  inversion Ht; subst.
  destruct (nth_error sts (argmin sts)) as [s|] eqn:En; [|exact Hf].
  pose proof (nth_error_In _ _ En) as Hin.
  assert (Hi : inst_inv s) by (eapply Forall_forall in Hinv; eauto).
  assert (Hds : durs_le dmax s) by (eapply Forall_forall in Hd; eauto).
  assert (Hfs : is_free s <= M) by (eapply Forall_forall in Hf; eauto; exact Hf).
  destruct (step_inst wfixed true s next) as [sh s'] eqn:Es. cbn [snd].
  destruct (step_inst_bound _ _ _ _ _ _ _ Hi Hds Hdm Es H1 HM Hfs) as [Hf' Hd'].
  destruct (step_inst_ok _ _ _ _ _ _ Hi Es) as [_ [_ Hinv']].
  eapply IH; eauto using Forall_update.
Qed.

Lemma init_states_durs : forall starts durs dmax,
  Forall (Forall (fun x => 0 <= x <= dmax)) durs -> Forall (durs_le dmax) (init_states starts durs).
Proof.
  intros starts durs dmax Hd. unfold init_states. apply Forall_forall. intros s Hin.
  apply in_map_iff in Hin. destruct Hin as [[st du] [<- Hin]]. unfold durs_le. cbn [is_durs snd].
  apply in_combine_r in Hin. apply in_app_or in Hin. destruct Hin as [Hin|Hin].
  - eapply Forall_forall in Hd; eauto.
  - apply repeat_spec in Hin. subst. constructor.
Qed.

Lemma init_states_free : forall starts durs smax,
  Forall (fun s => s <= smax) starts -> Forall (fun s => is_free s <= smax) (init_states starts durs).
Proof.
  intros starts durs smax Hs. unfold init_states. apply Forall_forall. intros s Hin.
  apply in_map_iff in Hin. destruct Hin as [[st du] [<- Hin]]. cbn [is_free fst].
  apply in_combine_l in Hin. eapply Forall_forall in Hs; eauto.
Qed.

(* The run-length bound of the property, for whole pools: discard_overflow enabled (current tree),
   every instance is done within 2 s + one response time of the end of the profile, counted from
   the start of the last instance -- however slow the target is (dmax bounds ONE response, not
   their sum). *)
Lemma pool_run_length : forall p starts offs durs smax omax dmax,
  p_discard p = true ->
  Forall (Forall (fun x => 0 <= x <= dmax)) durs -> 0 <= dmax ->
  Forall (fun s => s <= smax) starts -> Forall (fun o => o <= omax) offs -> 0 <= omax ->
  Forall (fun s => is_free s <= smax + omax + max_overdue + dmax) (pool_final wfixed p starts offs durs).
Proof.
  intros p starts offs durs smax omax dmax Hp Hd Hdm Hs Ho Hom. unfold pool_final, instance_discard. rewrite Hp.
  assert (Hd0 : Forall (Forall (fun x => 0 <= x)) durs).
  { eapply Forall_impl; [|exact Hd]. intros l Hl. eapply Forall_impl; [|exact Hl]. cbn. intros; lia. }
  pose proof (init_states_inv starts durs Hd0) as Hi.
  pose proof (init_states_durs starts durs dmax Hd) as Hdu.
  pose proof (init_states_free starts durs smax Hs) as Hf.
  destruct (p_per_instance p).
  - apply Forall_forall. intros s' Hin. apply in_map_iff in Hin. destruct Hin as [s [<- Hin]].
    eapply Forall_forall in Hi; eauto. eapply Forall_forall in Hdu; eauto. eapply Forall_forall in Hf; eauto. cbn in Hf.
    apply run_steps_bound with (tmax := smax + omax) (dmax := dmax); auto.
    + apply Forall_forall. intros x Hx. apply in_map_iff in Hx. destruct Hx as [o [<- Ho']].
      eapply Forall_forall in Ho; eauto. cbn in Ho. lia.
    + lia.
    + unfold max_overdue. lia.
  - destruct starts as [|s0 sr].
    { unfold init_states. cbn. destruct offs; cbn; constructor. }
    apply shared_final_bound with (tmax := smax + omax) (dmax := dmax); auto.
    + apply Forall_forall. intros x Hx. apply in_map_iff in Hx. destruct Hx as [o [<- Ho']].
      eapply Forall_forall in Ho; eauto. cbn in Ho.
      assert (s0 <= smax) by (inversion Hs; assumption). cbn [hd]. lia.
    + lia.
    + eapply Forall_impl; [|exact Hf]. cbn. intros. unfold max_overdue. lia.
Qed.

(* ---- never ahead of the configured profile ---- *)
Lemma due_by_paired : forall toks ats x, Forall2 Z.le toks ats -> (due_by x ats <= due_by x toks)%nat.
Proof.
  intros toks ats x H. unfold due_by. induction H as [|t a tl al Hle _ IH]; cbn [filter length]; [lia|].
  destruct (a <=? x) eqn:Ea.
  - apply Z.leb_le in Ea. assert (E : t <=? x = true) by (apply Z.leb_le; lia). rewrite E. cbn [length]. lia.
  - destruct (t <=? x); cbn [length]; lia.
Qed.

Lemma due_by_perm : forall x l l', Permutation l l' -> due_by x l = due_by x l'.
Proof.
  intros x l l' H. unfold due_by. induction H; cbn [filter]; auto.
  - destruct (x0 <=? x); cbn [length]; auto.
  - destruct (y <=? x), (x0 <=? x); reflexivity.
  - congruence.
Qed.

(* whatever the hand-out: if every shot is at or after the time of the token it consumed, the run
   is never ahead of the profile *)
Lemma paired_never_ahead : forall toks toks' ats,
  Permutation toks' toks -> Forall2 Z.le toks' ats -> never_ahead_b toks ats = true.
Proof.
  intros toks toks' ats Hp H. unfold never_ahead_b. apply forallb_forall. intros x _.
  apply Nat.leb_le. rewrite <- (due_by_perm x _ _ Hp). apply due_by_paired. exact H.
Qed.

Lemma shots_paired : forall v d (l : list (nat * shot)),
  Forall (fun ks => shot_ok v d (snd ks)) l ->
  Forall2 Z.le (map (fun ks => s_tok (snd ks)) l) (map (fun ks => s_entry (snd ks)) l).
Proof.
  intros v d l H. induction H as [|ks r Hk _ IH]; cbn [map]; constructor; [|exact IH].
  destruct Hk as [Hk _]. exact Hk.
Qed.

(* the pool model is never ahead of its profile *)
Lemma run_pool_never_ahead : forall v p starts offs durs,
  Forall (Forall (fun x => 0 <= x)) durs ->
  never_ahead_b (map (fun ks : nat * shot => s_tok (snd ks)) (run_pool v p starts offs durs))
                (map (fun ks : nat * shot => s_entry (snd ks)) (run_pool v p starts offs durs)) = true.
Proof.
  intros. eapply paired_never_ahead; [apply Permutation_refl|].
  eapply shots_paired. apply run_pool_ok. assumption.
Qed.
