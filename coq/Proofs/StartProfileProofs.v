(* C12, round 7: the token count of a const profile (truncation = whole periods that fit), the count of a
   configured profile, and the start loop over such a profile. *)
From Coq Require Import List ZArith Bool Arith Lia.
From PV Require Import Model.StartLoop Model.StartProfile Proofs.StartLoopProofs.
Import ListNotations.
Local Open Scope Z_scope.

Lemma ns_per_s_pos : 0 < ns_per_s.
Proof. reflexivity. Qed.

Lemma const_count_unfold opn opd d : 0 < opn ->
  const_count opn opd d = (opn * d) / (opd * ns_per_s).
Proof.
  intros H. unfold const_count, const_count_by. destruct (opn <=? 0) eqn:E; [apply Z.leb_le in E; lia|reflexivity].
Qed.

(* n = floor(ops * duration): never more tokens than rate x duration, and not one whole period less *)
Theorem const_count_floor opn opd d : 0 < opn -> 0 < opd -> 0 <= d ->
  0 <= const_count opn opd d
  /\ const_count opn opd d * (opd * ns_per_s) <= opn * d < (const_count opn opd d + 1) * (opd * ns_per_s).
Proof.
  intros Hn Hd H0. rewrite (const_count_unfold opn opd d Hn).
  pose proof ns_per_s_pos as Hs.
  assert (Hc : 0 < opd * ns_per_s) by nia.
  set (c := opd * ns_per_s) in *. set (x := opn * d).
  assert (Hx : 0 <= x) by (unfold x; nia).
  pose proof (Z.div_mod x c ltac:(lia)) as E. pose proof (Z.mod_pos_bound x c Hc) as B.
  pose proof (Z.div_pos x c Hx Hc) as P.
  split; [exact P|]. split; nia.
Qed.

(* token number i of a const profile: its whole period lies inside the duration; it is released at
   floor(i/ops) - not before i/ops minus 1 ns, so by its instant o at most ops*(o + 1ns) tokens precede it -
   and strictly inside the duration *)
Theorem const_token_period opn opd d i : 0 < opn -> 0 < opd -> 0 <= d -> 0 <= i < const_count opn opd d ->
  (i + 1) * (opd * ns_per_s) <= opn * d
  /\ opn * const_offset opn opd i <= i * (opd * ns_per_s) < opn * (const_offset opn opd i + 1)
  /\ 0 <= const_offset opn opd i < d.
Proof.
  intros Hn Hd H0 Hi. destruct (const_count_floor opn opd d Hn Hd H0) as (_ & Hlo & _).
  pose proof ns_per_s_pos as Hs.
  assert (Hc : 0 < opd * ns_per_s) by nia.
  unfold const_offset. set (c := opd * ns_per_s) in *. set (n := const_count opn opd d) in *.
  assert (A : (i + 1) * c <= opn * d) by nia.
  set (y := i * c). assert (Hy : 0 <= y) by (unfold y; nia).
  pose proof (Z.div_mod y opn ltac:(lia)) as E. pose proof (Z.mod_pos_bound y opn Hn) as B.
  pose proof (Z.div_pos y opn Hy Hn) as P.
  split; [exact A|]. split; [split; nia|]. split; [exact P|].
  assert (opn * (y / opn) < opn * d) by (unfold y in *; nia). nia.
Qed.

Lemma const_tokens_length start opn opd d :
  length (const_tokens start opn opd d) = Z.to_nat (const_count opn opd d).
Proof. unfold const_tokens, const_tokens_by. rewrite map_length, seq_length. reflexivity. Qed.

(* every token of a const profile started at [start] lies in [start, start + d) *)
Theorem const_tokens_inside start opn opd d tk : 0 < opn -> 0 < opd -> 0 <= d ->
  In tk (const_tokens start opn opd d) -> start <= tk < start + d.
Proof.
  intros Hn Hd H0 Hin. unfold const_tokens, const_tokens_by in Hin. apply in_map_iff in Hin.
  destruct Hin as (i & E & Hi). apply in_seq in Hi.
  assert (R : 0 <= Z.of_nat i < const_count opn opd d).
  { change (const_count_by Truncate opn opd d) with (const_count opn opd d) in Hi.
    destruct (const_count_floor opn opd d Hn Hd H0) as (P & _). lia. }
  destruct (const_token_period opn opd d (Z.of_nat i) Hn Hd H0 R) as (_ & _ & B). lia.
Qed.

(* the number of tokens of a configured profile is the sum of the counts of its parts *)
Theorem pflatten_length : forall ps start, Z.of_nat (length (pflatten start ps)) = profile_count ps.
Proof.
  induction ps as [|p r IH]; intros start; [reflexivity|].
  unfold pflatten in *.
  destruct p as [q|opn opd d]; cbn [pflatten_by profile_count fold_right]; rewrite app_length, Nat2Z.inj_add.
  - rewrite (IH (start + part_dur q)). unfold profile_count. f_equal.
    destruct q as [n|dd|n per dd]; cbn [flatten ppart_count part_count app].
    + rewrite app_nil_r, repeat_length. lia.
    + reflexivity.
    + rewrite app_nil_r, map_length, seq_length. lia.
  - rewrite (IH (start + d)). unfold profile_count. f_equal.
    change (const_tokens_by Truncate start opn opd d) with (const_tokens start opn opd d).
    rewrite const_tokens_length. cbn [ppart_count]. lia.
Qed.

(* the start loop never has more instances than its token stream has tokens *)
Lemma started_le_tokens toks l t0 s :
  srun l (sinit toks t0) = Some s -> (length (started s) <= length toks)%nat.
Proof.
  intros H. destruct (ids_consecutive toks l t0 s H) as [Hids _].
  unfold creations in Hids. rewrite rev_length in Hids.
  destruct (length (started s)) as [|m] eqn:En; [lia|].
  assert (Hin : In m (map fst (rev (started s)))).
  { rewrite Hids. apply in_seq. lia. }
  apply in_map_iff in Hin. destruct Hin as ((id & c) & Eid & Hin). cbn in Eid. subst id.
  apply in_rev in Hin.
  destruct (created_after_token toks l t0 s H m c Hin) as (tk & Hn & _).
  assert (m < length toks)%nat by (apply nth_error_Some; congruence). lia.
Qed.

(* start loop over a configured profile: in every reachable state the instances are at most the count of
   the configured profile *)
Theorem profile_never_more ps l t0 s :
  srun l (sinit (pflatten t0 ps) t0) = Some s ->
  Z.of_nat (length (started s)) <= profile_count ps.
Proof.
  intros H. rewrite <- (pflatten_length ps t0). apply inj_le. exact (started_le_tokens _ l t0 s H).
Qed.

(* ... for a const startup profile: never more instances than rate x duration, at any point of any run *)
Theorem const_startup_never_more opn opd d l t0 s : 0 < opn -> 0 < opd -> 0 <= d ->
  srun l (sinit (pflatten t0 [PRate opn opd d]) t0) = Some s ->
  Z.of_nat (length (started s)) * (opd * ns_per_s) <= opn * d.
Proof.
  intros Hn Hd H0 H. pose proof (profile_never_more _ l t0 s H) as P.
  cbn [profile_count fold_right ppart_count] in P.
  destruct (const_count_floor opn opd d Hn Hd H0) as (Q & Hlo & _).
  pose proof ns_per_s_pos. assert (0 < opd * ns_per_s) by nia.
  rewrite Z.max_r in P by lia. nia.
Qed.
