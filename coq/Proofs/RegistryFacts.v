(* Facts about one step of the plugin registry model (property C18), by exhaustive case
   analysis over the constructor shapes. *)
From Coq Require Import List Arith Bool NArith Lia.
From PV Require Import Model.Registry.
Import ListNotations.

(* ---------- reflexivity of the decidable equalities ---------- *)

Lemma cfgv_eqb_refl v : cfgv_eqb v v = true.
Proof. unfold cfgv_eqb. rewrite !N.eqb_refl. reflexivity. Qed.

Lemma cfgv_eqb_eq a b : cfgv_eqb a b = true -> a = b.
Proof.
  destruct a as [a1 a2 a3], b as [b1 b2 b3]; unfold cfgv_eqb; cbn; intros H.
  apply andb_prop in H; destruct H as [H H3]. apply andb_prop in H; destruct H as [H1 H2].
  apply N.eqb_eq in H1, H2, H3. subst. reflexivity.
Qed.

Global Arguments cfgv_eqb : simpl never.

Lemma conf_eqb_refl c : conf_eqb c c = true.
Proof. unfold conf_eqb. rewrite Nat.eqb_refl, cfgv_eqb_refl. reflexivity. Qed.
Lemma carg_eqb_refl a : carg_eqb a a = true.
Proof. destruct a; cbn [carg_eqb]; auto using conf_eqb_refl, cfgv_eqb_refl. Qed.
Lemma err_eqb_refl e : err_eqb e e = true.
Proof. destruct e; cbn [err_eqb]; apply Nat.eqb_refl. Qed.
Global Arguments conf_eqb : simpl never.
Global Arguments carg_eqb : simpl never.
Global Arguments err_eqb : simpl never.

Lemma nat_nodup_b_sound l : nat_nodup_b l = true -> NoDup l.
Proof.
  induction l as [|x r IH]; cbn [nat_nodup_b]; intros H; constructor.
  - apply andb_prop in H; destruct H as [H _]. intros Hin.
    apply negb_true_iff in H. assert (existsb (Nat.eqb x) r = true); [|congruence].
    apply existsb_exists. exists x. split; [exact Hin|apply Nat.eqb_refl].
  - apply andb_prop in H; destruct H as [_ H]. apply IH, H.
Qed.

Lemma nat_nodup_b_app a b :
  nat_nodup_b a = true -> nat_nodup_b b = true ->
  (forall x y, In x a -> In y b -> x < y) -> nat_nodup_b (a ++ b) = true.
Proof.
  induction a as [|x r IH]; cbn [nat_nodup_b app]; intros Ha Hb Hd; [exact Hb|].
  apply andb_prop in Ha; destruct Ha as [Hx Hr].
  apply andb_true_intro; split.
  - apply negb_true_iff. apply negb_true_iff in Hx.
    rewrite existsb_app, Hx. cbn [orb].
    destruct (existsb (Nat.eqb x) b) eqn:E; [|reflexivity].
    apply existsb_exists in E. destruct E as [y [Hy Exy]]. apply Nat.eqb_eq in Exy. subst y.
    specialize (Hd x x (or_introl eq_refl) Hy). lia.
  - apply IH; auto. intros a0 b0 Ha0 Hb0. apply Hd; [right; exact Ha0|exact Hb0].
Qed.

(* ---------- generic runs of a step function ---------- *)

Section Run.
  Variable step : st -> st * op.

  Fixpoint run (s : st) (k : nat) : list op :=
    match k with
    | O => []
    | S k' => let '(s1, x) := step s in x :: run s1 k'
    end.

  Lemma run_forallb (P : op -> bool) :
    (forall s, P (snd (step s)) = true) -> forall k s, forallb P (run s k) = true.
  Proof.
    intros H k; induction k as [|k IH]; intros s; cbn [run forallb]; [reflexivity|].
    specialize (H s). destruct (step s) as [s1 x]. cbn [forallb snd] in *. rewrite H, IH. reflexivity.
  Qed.

  Lemma run_length k : forall s, length (run s k) = k.
  Proof. induction k as [|k IH]; intros s; cbn [run length]; [reflexivity|]. destruct (step s). cbn [length]. rewrite IH. reflexivity. Qed.

  (* identities drawn from a counter that only grows: pairwise distinct over the whole run *)
  Lemma run_nodup (lo : st -> nat) (f : op -> list nat) :
    (forall s, nat_nodup_b (f (snd (step s))) = true /\
               lo s <= lo (fst (step s)) /\
               forall y, In y (f (snd (step s))) -> lo s <= y < lo (fst (step s))) ->
    forall k s, nat_nodup_b (flat_map f (run s k)) = true /\
                forall y, In y (flat_map f (run s k)) -> lo s <= y.
  Proof.
    intros H k; induction k as [|k IH]; intros s; cbn [run flat_map].
    - split; [reflexivity|intros y []].
    - specialize (H s). destruct (step s) as [s1 x]. cbn [fst snd flat_map] in *.
      destruct H as [Hn [Hle Hr]]. destruct (IH s1) as [IHn IHlo]. split.
      + apply nat_nodup_b_app; auto. intros a b Ha Hb. apply Hr in Ha. apply IHlo in Hb. lia.
      + intros y Hy. apply in_app_or in Hy. destruct Hy as [Hy|Hy]; [apply Hr in Hy; lia|apply IHlo in Hy; lia].
  Qed.
End Run.

Definition step_new sh hf o : st -> st * op :=
  fun s => let '(s1, ev, out) := reg_new sh hf o s in (s1, (ev, out)).
Definition step_call sh we hf o f : st -> st * op :=
  fun s => let '(s1, ev, out) := call_factory sh we hf o s f in (s1, (ev, out)).

Lemma run_news_run sh hf o k : forall s, run_news sh hf o s k = run (step_new sh hf o) s k.
Proof.
  induction k as [|k IH]; intros s; cbn [run_news run]; [reflexivity|].
  unfold step_new at 1. destruct (reg_new sh hf o s) as [[s1 ev] out]. rewrite IH. reflexivity.
Qed.
Lemma run_calls_run sh we hf o f k : forall s, run_calls sh we hf o f s k = run (step_call sh we hf o f) s k.
Proof.
  induction k as [|k IH]; intros s; cbn [run_calls run]; [reflexivity|].
  unfold step_call at 1. destruct (call_factory sh we hf o s f) as [[s1 ev] out]. rewrite IH. reflexivity.
Qed.

(* ---------- one round, by exhaustive case analysis over the shape ---------- *)

Ltac refls := rewrite ?Nat.eqb_refl, ?cfgv_eqb_refl, ?carg_eqb_refl, ?err_eqb_refl, ?Nat.leb_refl.

Ltac crunch :=
  cbv -[Nat.eqb Nat.leb cfgv_eqb carg_eqb err_eqb conf_eqb o_ffail ctor_fails prod_fails o_fill o_dflt same_type_name].

Ltac oracle_split :=
  match goal with
  | |- context [o_ffail ?o ?n] => destruct (o_ffail o n) eqn:?
  | |- context [same_type_name ?a ?b] => destruct (same_type_name a b) eqn:?
  | |- context [ctor_fails ?sh ?o ?n] =>
      let b := eval cbv [sh_cerr] in (sh_cerr sh) in
      match b with
      | false => change (ctor_fails sh o n) with false
      | _ => destruct (ctor_fails sh o n) eqn:?
      end
  | |- context [prod_fails ?sh ?o ?n] =>
      let b := eval cbv [sh_perr] in (sh_perr sh) in
      match b with
      | false => change (prod_fails sh o n) with false
      | _ => destruct (prod_fails sh o n) eqn:?
      end
  end.

(* the model and the specification compute; the oracle's answers are split when met *)
Ltac use_known :=
  repeat match goal with
         | H : o_ffail ?o ?n = _ |- context [o_ffail ?o ?n] => rewrite H
         | H : same_type_name ?a ?b = _ |- context [same_type_name ?a ?b] => rewrite H
         | H : ctor_fails ?sh ?o ?n = _ |- context [ctor_fails ?sh ?o ?n] => rewrite H
         | H : prod_fails ?sh ?o ?n = _ |- context [prod_fails ?sh ?o ?n] => rewrite H
         end.
Ltac norm := crunch; repeat (first [progress use_known | oracle_split]; crunch); refls; cbn.

Ltac ranges :=
  repeat match goal with
         | |- _ /\ _ => split
         | |- true = true => reflexivity
         | |- forall y : nat, _ -> _ /\ _ => let y := fresh "y" in let H := fresh "H" in intros y H; cbn in H; intuition lia
         | |- false = true -> _ => discriminate
         | |- _ = _ -> _ => intros _
         | |- _ <= _ => lia
         | |- _ => reflexivity
         end.

(* everything the three theorems need to know about one step from s to s1 producing x
   (a round: get a config, construct).  [hfr]: is the fill part of the round. *)
Definition step_facts (sh : shape) (hf hfr : bool) (o : oracle) (we : bool) (with_prod : bool)
           (s : st) (r : st * op) : Prop :=
  match r with (s1, (ev, out)) =>
  op_configured sh hf o None (ev, out) = true /\
  op_errors sh o we (ev, out) = true /\
  round_counts sh hfr o ev = true /\ one_id ev = true /\
  (if with_prod then Nat.leb (count_ev is_prod ev) 1 else Nat.eqb (count_ev is_prod ev) 0) = true /\
  nat_nodup_b (round_id ev) = true /\ nat_nodup_b (ctor_idx ev) = true /\
  s_alloc s <= s_alloc s1 /\ s_ctor s <= s_ctor s1 /\
  (forall y, In y (round_id ev) -> s_alloc s <= y < s_alloc s1) /\
  (forall y, In y (ctor_idx ev) -> s_ctor s <= y < s_ctor s1)
  end.

Lemma new_step_facts sh hf o s :
  step_facts sh hf hf o true (match sh_ret sh with RFactory => true | RPlugin => false end) s (step_new sh hf o s).
Proof.
  destruct s as [a d f c p].
  destruct sh as [[] [] cerr perr [] rt nm]; destruct hf;
    unfold step_facts; norm; ranges.
Qed.

(* one call of a factory made from a factory constructor, whose creation produced [cev] *)
Definition fcall_facts (sh : shape) (hf : bool) (o : oracle) (we : bool) (cev : list event)
           (s : st) (r : st * op) : Prop :=
  match r with (s1, (ev, out)) =>
  op_configured sh hf o (Some cev) (ev, out) = true /\
  op_errors sh o we (ev, out) = true /\
  (match ev with [EvProd m n] => existsb (Nat.eqb n) (ctor_idx cev) | _ => false end) = true /\
  nat_nodup_b (prod_idx ev) = true /\
  s_prod s <= s_prod s1 /\
  (forall y, In y (prod_idx ev) -> s_prod s <= y < s_prod s1)
  end.

Definition creation_facts (sh : shape) (hf : bool) (o : oracle) (cev : list event) (cr : created) : Prop :=
  stops_at_error sh o cev = true /\
  ctor_args_configured sh hf o cev = true /\
  errors_evs sh o cev = match cr with CrErr e => Some e | CrOk _ => None end /\
  match sh_ret sh with
  | RPlugin =>
      Nat.eqb (count_ev is_ctor cev) 0 = true /\ Nat.eqb (count_ev is_prod cev) 0 = true /\
      (is_nocfg (sh_cfg sh) = true -> Nat.eqb (count_ev is_fill cev) (b2n hf) = true)
  | RFactory =>
      round_counts sh hf o cev = true /\ one_id cev = true /\ Nat.eqb (count_ev is_prod cev) 0 = true
  end.

Definition factory_facts_stmt sh we named hf o s0 s : Prop :=
  match reg_new_factory sh we named hf o s0 with
  | (_, cev, cr) =>
      creation_facts sh hf o cev cr /\
      match cr with
      | CrErr _ => True
      | CrOk f =>
          match sh_ret sh with
          | RPlugin => step_facts sh hf (if is_nocfg (sh_cfg sh) then false else hf) o we false s (step_call sh we hf o f s)
          | RFactory => fcall_facts sh hf o we cev s (step_call sh we hf o f s)
          end
      end
  end.

Lemma factory_facts_plugin cfg cerr perr def rt nm we named hf o s0 s :
  factory_facts_stmt (mkShape RPlugin cfg cerr perr def rt nm) we named hf o s0 s.
Proof.
  destruct s0 as [a0 d0 f0 c0 p0]. destruct s as [a d f c p].
  destruct cfg, cerr, def, rt, hf, we;
    unfold factory_facts_stmt, creation_facts, step_facts, fcall_facts; norm; ranges.
Qed.

Lemma factory_facts_factory cfg cerr perr def rt nm we named hf o s0 s :
  factory_facts_stmt (mkShape RFactory cfg cerr perr def rt nm) we named hf o s0 s.
Proof.
  destruct s0 as [a0 d0 f0 c0 p0]. destruct s as [a d f c p].
  destruct cfg, perr, def, rt, hf, we;
    unfold factory_facts_stmt, creation_facts, step_facts, fcall_facts; norm; ranges.
Qed.

Lemma factory_facts sh we named hf o s0 s : factory_facts_stmt sh we named hf o s0 s.
Proof. destruct sh as [[] cfg cerr perr def rt nm]; [apply factory_facts_plugin|apply factory_facts_factory]. Qed.

