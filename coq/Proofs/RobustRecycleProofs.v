From Coq Require Import List ZArith Bool Lia.
From PV Require Import Model.Robust Model.RobustRecycle.
Import ListNotations.
Local Open Scope Z_scope.

Lemma report_independent : forall prev1 prev2 ops, report acquire prev1 ops = report acquire prev2 ops.
Proof. reflexivity. Qed.

Definition fresh : sobj := {| so_net := 0; so_proto := 0; so_err := false |}.

Lemma run_pool_independent : forall hist prev, run_pool acquire prev hist = map (report acquire fresh) hist.
Proof. induction hist as [|ops r IH]; intro prev; cbn [run_pool map]; [reflexivity|]. rewrite IH. reflexivity. Qed.

Lemma report_own_outcome : forall prev r net,
  let s := report acquire prev (ops_of r net) in
  (conn_ok (rs_conn r) = false -> s = {| so_net := net; so_proto := 0; so_err := true |}) /\
  (conn_ok (rs_conn r) = true -> rs_body_ok r = true -> s = {| so_net := 0; so_proto := rs_status r; so_err := false |}) /\
  (conn_ok (rs_conn r) = true -> rs_body_ok r = false -> s = {| so_net := net; so_proto := rs_status r; so_err := true |}).
Proof.
  intros prev r net. unfold report, ops_of. destruct (conn_ok (rs_conn r)), (rs_body_ok r); cbn;
    repeat split; intros; try discriminate; reflexivity.
Qed.

(* the contrast: with the two codes left alone, a refused request after an answered one carries the old status, and an
   answered one after a refused one carries the old net code *)
Lemma keeping_codes_leaks :
  let ok200 := {| rs_conn := ConnOk; rs_status := 200; rs_body_ok := true; rs_h2 := false |} in
  let refused := {| rs_conn := ConnRefused; rs_status := 0; rs_body_ok := false; rs_h2 := false |} in
  run_pool acquire_keeping_codes fresh [ops_of ok200 111; ops_of refused 111; ops_of ok200 111] =
    [{| so_net := 0; so_proto := 200; so_err := false |}; {| so_net := 111; so_proto := 200; so_err := true |};
     {| so_net := 111; so_proto := 200; so_err := false |}] /\
  run_pool acquire fresh [ops_of ok200 111; ops_of refused 111; ops_of ok200 111] =
    [{| so_net := 0; so_proto := 200; so_err := false |}; {| so_net := 111; so_proto := 0; so_err := true |};
     {| so_net := 0; so_proto := 200; so_err := false |}].
Proof. split; reflexivity. Qed.
