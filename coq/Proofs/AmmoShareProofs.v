(* Proofs about Model/AmmoShare.v: with the capacity of shared value slices clipped (EnrichRequestWithHeaders) and
   middlewares that only Add / Set, the pointer-level provider refines the value-level specification for every
   sequence of operations of any number of instances; both conditions are necessary (witnesses). *)
From Coq Require Import List Bool Arith Lia.
From PV Require Import Model.AmmoShare.
Import ListNotations.

Section Proofs.
Variables K V : Type.
Variable keqb : K -> K -> bool.
Hypothesis keqb_eq : forall a b, keqb a b = true <-> a = b.

Local Notation heap := (heap V).
Local Notation hmap := (hmap K).
Local Notation vmap := (vmap K V).
Local Notation arr := (arr V).
Local Notation read := (read V).
Local Notation hm_set := (hm_set K keqb).
Local Notation vm_set := (vm_set K V keqb).
Local Notation render := (render K V).
Local Notation vrender := (vrender K V).

Lemma keqb_refl k : keqb k k = true.
Proof. apply keqb_eq. reflexivity. Qed.

Lemma keqb_false a b : keqb a b = false -> a <> b.
Proof. intros E ->. rewrite keqb_refl in E. discriminate. Qed.

(* ---------- heaps ---------- *)

Definition ext (H H' : heap) := length H <= length H' /\ forall p, p < length H -> arr H' p = arr H p.

Lemma ext_refl H : ext H H.
Proof. split; auto. Qed.

Lemma ext_trans H1 H2 H3 : ext H1 H2 -> ext H2 H3 -> ext H1 H3.
Proof. intros [L1 A1] [L2 A2]. split; [lia|]. intros p Hp. rewrite A2 by lia. apply A1. exact Hp. Qed.

Lemma ext_app H vs : ext H (H ++ [vs]).
Proof. split; [rewrite app_length; lia|]. intros p Hp. unfold AmmoShare.arr. apply app_nth1. exact Hp. Qed.

Lemma arr_app_new (H : heap) vs : arr (H ++ [vs]) (length H) = vs.
Proof. unfold AmmoShare.arr. rewrite app_nth2 by lia. rewrite Nat.sub_diag. reflexivity. Qed.

Lemma upd_heap_length (H : heap) p a : length (upd_heap V H p a) = length H.
Proof. revert p; induction H as [|x t IH]; intros [|p]; cbn; auto. Qed.

Lemma arr_upd_same (H : heap) p a : p < length H -> arr (upd_heap V H p a) p = a.
Proof.
  revert p; induction H as [|x t IH]; intros [|p] Hp; cbn in *; try lia; auto.
  apply IH. lia.
Qed.

Lemma arr_upd_other (H : heap) p q a : p <> q -> arr (upd_heap V H p a) q = arr H q.
Proof.
  revert p q; induction H as [|x t IH]; intros [|p] [|q] N; cbn; auto; try congruence.
  apply IH. congruence.
Qed.

Lemma read_ext H H' s : ext H H' -> s_ptr s < length H -> read H' s = read H s.
Proof. intros [_ A] Hp. unfold AmmoShare.read. rewrite A by exact Hp. reflexivity. Qed.

(* ---------- maps ---------- *)

Definition bounded (H : heap) (m : hmap) :=
  forall k s, hm_get K m k = Some s -> s_ptr s < length H /\ s_len s <= length (arr H (s_ptr s)).

Definition refines (H : heap) (m : hmap) (vm : vmap) :=
  hm_keys K m = vm_keys K V vm /\ forall k, option_map (read H) (hm_get K m k) = vm_get K V vm k.

Lemma bounded_ext H H' m : ext H H' -> bounded H m -> bounded H' m.
Proof.
  intros E B k s G. destruct (B k s G) as [P L]. destruct E as [L1 A]. split; [lia|]. rewrite A by exact P. exact L.
Qed.

Lemma refines_ext H H' m vm : ext H H' -> bounded H m -> refines H m vm -> refines H' m vm.
Proof.
  intros E B [Ks G]. split; [exact Ks|]. intros k. rewrite <- G. destruct (hm_get K m k) as [s|] eqn:Es; cbn; [|reflexivity].
  f_equal. apply read_ext; [exact E|]. apply (B k s Es).
Qed.

Lemma render_refines H m vm : refines H m vm -> render H m = vrender vm.
Proof.
  intros [Ks G]. unfold AmmoShare.render, AmmoShare.vrender. rewrite Ks. apply map_ext. intros k.
  rewrite <- G. destruct (hm_get K m k); reflexivity.
Qed.

Lemma render_ext H H' m : ext H H' -> bounded H m -> render H' m = render H m.
Proof.
  intros E B. unfold AmmoShare.render. apply map_ext. intros k. destruct (hm_get K m k) as [s|] eqn:Es; [|reflexivity].
  f_equal. apply read_ext; [exact E|]. apply (B k s Es).
Qed.

Lemma refines_empty H : refines H hm_empty vm_empty.
Proof. split; reflexivity. Qed.

(* ---------- one Acquire: invariant of the request under construction ---------- *)

Record Q (H0 H : heap) (req : hmap) (vreq : vmap) : Prop := {
  q_ext : ext H0 H;
  q_ref : refines H req vreq;
  q_bnd : bounded H req;
  (* slices into arrays that existed before this Acquire have no spare capacity *)
  q_old : forall k s, hm_get K req k = Some s -> s_ptr s < length H0 -> s_cap s <= s_len s;
  (* an array made during this Acquire is referenced by one key only *)
  q_uniq : forall k1 k2 s1 s2, hm_get K req k1 = Some s1 -> hm_get K req k2 = Some s2 ->
            length H0 <= s_ptr s1 -> s_ptr s1 = s_ptr s2 -> k1 = k2 }.

Lemma Q_empty H : Q H H hm_empty vm_empty.
Proof. split; [apply ext_refl|apply refines_empty| | |]; intros; discriminate. Qed.

Lemma Q_set H0 H H1 req vreq k s vs :
  Q H0 H req vreq ->
  ext H0 H1 ->
  (forall k' s', keqb k k' = false -> hm_get K req k' = Some s' ->
     read H1 s' = read H s' /\ s_ptr s' < length H1 /\ s_len s' <= length (arr H1 (s_ptr s')) /\
     ((length H0 <= s_ptr s \/ length H0 <= s_ptr s') -> s_ptr s <> s_ptr s')) ->
  read H1 s = vs -> s_ptr s < length H1 -> s_len s <= length (arr H1 (s_ptr s)) ->
  (s_ptr s < length H0 -> s_cap s <= s_len s) ->
  Q H0 H1 (hm_set k s req) (vm_set k vs vreq).
Proof.
  intros [E [Ks G] B O U] E1 Oth R P L C. split.
  - exact E1.
  - split.
    + cbn. rewrite <- (G k). destruct (hm_get K req k); cbn; rewrite Ks; reflexivity.
    + intros k'. cbn. destruct (keqb k k') eqn:Ek; cbn; [rewrite R; reflexivity|].
      rewrite <- G. destruct (hm_get K req k') as [s'|] eqn:Es; cbn; [|reflexivity].
      f_equal. apply (Oth k' s' Ek Es).
  - intros k' s'. cbn. destruct (keqb k k') eqn:Ek.
    + intros X; injection X as <-. split; assumption.
    + intros Es. destruct (Oth k' s' Ek Es) as (_ & P' & L' & _). split; assumption.
  - intros k' s'. cbn. destruct (keqb k k') eqn:Ek.
    + intros X; injection X as <-. exact C.
    + intros Es. apply (O k' s' Es).
  - intros k1 k2 s1 s2. cbn. destruct (keqb k k1) eqn:E1k; destruct (keqb k k2) eqn:E2k.
    + intros _ _ _ _. apply keqb_eq in E1k, E2k. congruence.
    + intros X Es2 Pv Eq. injection X as <-. destruct (Oth k2 s2 E2k Es2) as (_ & _ & _ & N). exfalso. apply N; [left; exact Pv|exact Eq].
    + intros Es1 X Pv Eq. injection X as <-. destruct (Oth k1 s1 E1k Es1) as (_ & _ & _ & N). exfalso. apply N; [right; exact Pv|symmetry; exact Eq].
    + intros Es1 Es2. apply (U k1 k2 s1 s2 Es1 Es2).
Qed.

(* a value list put into a new array *)
Lemma Q_set_fresh H0 H req vreq k vs c :
  Q H0 H req vreq ->
  Q H0 (H ++ [vs]) (hm_set k {| s_ptr := length H; s_len := length vs; s_cap := c |} req) (vm_set k vs vreq).
Proof.
  intros q. pose proof (q_ext _ _ _ _ q) as E. pose proof (q_bnd _ _ _ _ q) as B.
  apply (Q_set H0 H); try exact q.
  - eapply ext_trans; [exact E|apply ext_app].
  - intros k' s' _ Es. destruct (B k' s' Es) as [P L]. cbn [s_ptr]. repeat split.
    + apply read_ext; [apply ext_app|exact P].
    + rewrite app_length; lia.
    + destruct (ext_app H vs) as [_ A]. rewrite A by exact P. exact L.
    + lia.
  - unfold AmmoShare.read. cbn [s_ptr s_len]. rewrite arr_app_new. apply firstn_all.
  - cbn [s_ptr]. rewrite app_length. cbn. lia.
  - cbn [s_ptr s_len]. rewrite arr_app_new. lia.
  - cbn [s_ptr]. destruct E as [L _]. lia.
Qed.

Lemma Q_alloc_map H0 sp : forall H m vm H1 m1,
  Q H0 H m vm -> alloc_map K V keqb H sp m = (H1, m1) -> Q H0 H1 m1 (vmap_of K V keqb sp vm).
Proof.
  induction sp as [|[[k vs] slack] t IH]; intros H m vm H1 m1 q; cbn.
  - intros X; injection X as <- <-. exact q.
  - intros X. eapply IH; [|exact X]. apply Q_set_fresh. exact q.
Qed.

Lemma Q_enrich H0 stored vstored ks : forall H req vreq,
  refines H0 stored vstored -> bounded H0 stored ->
  Q H0 H req vreq -> Q H0 H (enrich K keqb true ks stored req) (venrich K V keqb ks vstored vreq).
Proof.
  induction ks as [|k t IH]; intros H req vreq RS BS q; cbn; [exact q|].
  destruct RS as [KS GS]. pose proof (GS k) as Gk. pose proof (q_ref _ _ _ _ q) as [_ GR]. pose proof (GR k) as Rk.
  destruct (hm_get K stored k) as [s|] eqn:Es; cbn in Gk; rewrite <- Gk.
  2:{ apply IH; [split; assumption|exact BS|exact q]. }
  destruct (hm_get K req k) as [s'|] eqn:Er; cbn in Rk; rewrite <- Rk.
  { apply IH; [split; assumption|exact BS|exact q]. }
  apply IH; [split; assumption|exact BS|].
  destruct (BS k s Es) as [P L]. pose proof (q_ext _ _ _ _ q) as E. pose proof (q_bnd _ _ _ _ q) as B.
  apply (Q_set H0 H); try exact q; cbn [clip_slice s_ptr s_len s_cap].
  - exact E.
  - intros k' s'' _ Es'. destruct (B k' s'' Es') as [P' L']. repeat split; try assumption. lia.
  - unfold AmmoShare.read. cbn [s_ptr s_len]. destruct E as [_ A]. rewrite A by exact P. reflexivity.
  - destruct E as [LE _]. lia.
  - destruct E as [_ A]. rewrite A by exact P. exact L.
  - lia.
Qed.

Definition safe_mw (m : mw K) : Prop := match m with MwRefresh _ => False | _ => True end.

Lemma Q_go_add gc k v H0 H req vreq H1 req1 :
  Q H0 H req vreq -> go_add K V keqb gc k v H req = (H1, req1) ->
  Q H0 H1 req1 (vm_set k (match vm_get K V vreq k with Some vs => vs ++ [v] | None => [v] end) vreq).
Proof.
  intros q. pose proof (q_ref _ _ _ _ q) as [_ GR]. pose proof (GR k) as Rk.
  pose proof (q_ext _ _ _ _ q) as E. pose proof (q_bnd _ _ _ _ q) as B.
  unfold AmmoShare.go_add. destruct (hm_get K req k) as [s|] eqn:Es; cbn in Rk; rewrite <- Rk.
  2:{ cbn. intros X; injection X as <- <-. apply (Q_set_fresh H0 H req vreq k [v]). exact q. }
  destruct (B k s Es) as [P L].
  destruct (s_len s <? s_cap s) eqn:Ec.
  - (* in place: the array was made during this Acquire *)
    apply Nat.ltb_lt in Ec. intros X; injection X as <- <-.
    assert (Pv : length H0 <= s_ptr s).
    { destruct (Nat.lt_ge_cases (s_ptr s) (length H0)) as [Lt|Ge]; [|exact Ge]. pose proof (q_old _ _ _ _ q k s Es Lt). lia. }
    apply (Q_set H0 H); try exact q; cbn [s_ptr s_len s_cap].
    + destruct E as [LE A]. split; [rewrite upd_heap_length; exact LE|]. intros p Hp.
      rewrite arr_upd_other by lia. apply A. exact Hp.
    + intros k' s' Ek Es'. assert (N : s_ptr s <> s_ptr s').
      { intros Eq. apply (keqb_false _ _ Ek). apply (q_uniq _ _ _ _ q k k' s s' Es Es' Pv Eq). }
      destruct (B k' s' Es') as [P' L']. unfold AmmoShare.read. rewrite upd_heap_length, arr_upd_other by exact N.
      repeat split; try assumption. intros _. exact N.
    + unfold AmmoShare.read. cbn [s_ptr s_len]. rewrite arr_upd_same by exact P. unfold upd_arr.
      rewrite firstn_app, firstn_length_le by exact L.
      rewrite firstn_all2 by (rewrite firstn_length_le by exact L; lia).
      replace (S (s_len s) - s_len s) with 1 by lia. reflexivity.
    + rewrite upd_heap_length. exact P.
    + rewrite arr_upd_same by exact P. unfold upd_arr. rewrite app_length, firstn_length_le by exact L. cbn. lia.
    + lia.
  - cbn. intros X; injection X as <- <-.
    pose proof (Q_set_fresh H0 H req vreq k (read H s ++ [v]) (S (s_len s) + gc (S (s_len s))) q) as q'.
    assert (EL : length (read H s ++ [v]) = S (s_len s)).
    { rewrite app_length. unfold AmmoShare.read. rewrite firstn_length_le by exact L. cbn. lia. }
    rewrite EL in q'. exact q'.
Qed.

Lemma Q_mw_step gc m v H0 H req vreq H1 req1 :
  safe_mw m -> Q H0 H req vreq -> mw_step K V keqb gc m v H req = (H1, req1) -> Q H0 H1 req1 (vmw_step K V keqb m v vreq).
Proof.
  destruct m as [k|k|k]; cbn; intros S q; [|intros X; injection X as <- <-|destruct S].
  - apply Q_go_add. exact q.
  - apply (Q_set_fresh H0 H req vreq k [v]). exact q.
Qed.

Lemma Q_mw_run gc v H0 ms : forall H req vreq H1 req1,
  Forall safe_mw ms -> Q H0 H req vreq -> mw_run K V keqb gc ms v H req = (H1, req1) ->
  Q H0 H1 req1 (fold_left (fun r m => vmw_step K V keqb m v r) ms vreq).
Proof.
  induction ms as [|m t IH]; intros H req vreq H1 req1 S q; cbn.
  - intros X; injection X as <- <-. exact q.
  - destruct (mw_step K V keqb gc m v H req) as [H2 r2] eqn:Em. intros X.
    eapply IH; [inversion S; assumption| |exact X]. eapply Q_mw_step; [inversion S; assumption|exact q|exact Em].
Qed.

Lemma acquire_refines (c : pcfg K V) a v H stored H1 req :
  p_clip K V c = true -> Forall safe_mw (p_mws K V c) ->
  refines H stored (vmap_of K V keqb (p_stored K V c a) vm_empty) -> bounded H stored ->
  acquire K V keqb c a v H stored = (H1, req) ->
  ext H H1 /\ refines H1 req (spec_request K V keqb c a v) /\ bounded H1 req.
Proof.
  intros Cl Sf RS BS. unfold AmmoShare.acquire.
  destruct (alloc_map K V keqb H (p_own K V c a) hm_empty) as [H2 own] eqn:Eo. rewrite Cl. intros X.
  pose proof (Q_alloc_map H (p_own K V c a) H hm_empty vm_empty H2 own (Q_empty H) Eo) as q1.
  pose proof (Q_enrich H stored _ (hm_keys K stored) H2 own _ RS BS q1) as q2.
  pose proof (Q_mw_run _ v H _ _ _ _ _ _ Sf q2 X) as q3.
  unfold AmmoShare.spec_request. destruct RS as [KS _]. rewrite <- KS.
  split; [apply (q_ext _ _ _ _ q3)|]. split; [apply (q_ref _ _ _ _ q3)|apply (q_bnd _ _ _ _ q3)].
Qed.

(* ---------- all operations of all instances ---------- *)

Definition G (c : pcfg K V) (st : pstate K V) (dec : nat -> bool) (vh : nat -> option (list (K * list V))) : Prop :=
  (forall a, match st_stored K V st a with
             | Some m => dec a = true /\ refines (st_heap K V st) m (vmap_of K V keqb (p_stored K V c a) vm_empty) /\ bounded (st_heap K V st) m
             | None => dec a = false
             end) /\
  (forall i, match st_held K V st i, vh i with
             | Some req, Some r => render (st_heap K V st) req = r /\ bounded (st_heap K V st) req
             | None, None => True
             | _, _ => False
             end).

Lemma G_ext c H H' sto hel dec vh :
  ext H H' ->
  G c {| st_heap := H; st_stored := sto; st_held := hel |} dec vh ->
  G c {| st_heap := H'; st_stored := sto; st_held := hel |} dec vh.
Proof.
  intros E [GS GH]. split; cbn in *.
  - intros a. specialize (GS a). destruct (sto a) as [m|]; [|exact GS]. destruct GS as (D & R & B).
    split; [exact D|]. split; [apply (refines_ext H); assumption|apply (bounded_ext H); assumption].
  - intros i. specialize (GH i). destruct (hel i) as [req|], (vh i) as [r|]; try exact GH. destruct GH as [R B].
    split; [rewrite (render_ext H) by assumption; exact R|apply (bounded_ext H); assumption].
Qed.

Theorem prun_refines_spec (c : pcfg K V) :
  p_clip K V c = true -> Forall safe_mw (p_mws K V c) ->
  forall ops st dec vh, G c st dec vh -> prun K V keqb c st ops = spec_run K V keqb c dec vh ops.
Proof.
  intros Cl Sf. induction ops as [|o t IH]; intros [H sto hel] dec vh g; [reflexivity|].
  destruct o as [a|i a v|i]; cbn [prun pstep spec_run st_heap st_stored st_held].
  - destruct (alloc_map K V keqb H (p_stored K V c a) hm_empty) as [H1 m] eqn:Ea. f_equal. apply IH.
    pose proof (Q_alloc_map H _ H hm_empty vm_empty H1 m (Q_empty H) Ea) as q.
    pose proof (G_ext c H H1 sto hel dec vh (q_ext _ _ _ _ q) g) as [GS GH]. split; cbn in *.
    + intros a'. unfold fupd. destruct (Nat.eqb a a') eqn:Ee.
      * apply Nat.eqb_eq in Ee. subst a'. cbn. split; [reflexivity|]. split; [apply (q_ref _ _ _ _ q)|apply (q_bnd _ _ _ _ q)].
      * cbn. apply GS.
    + exact GH.
  - destruct g as [GS GH]. pose proof (GS a) as Ga. cbn in Ga. destruct (sto a) as [stored|] eqn:Es.
    + destruct Ga as (D & R & B). rewrite D.
      destruct (acquire K V keqb c a v H stored) as [H1 req] eqn:Eq.
      destruct (acquire_refines c a v H stored H1 req Cl Sf R B Eq) as (E & R1 & B1).
      rewrite (render_refines _ _ _ R1). f_equal. apply IH.
      pose proof (G_ext c H H1 sto hel dec vh E (conj GS GH)) as [GS' GH']. split; cbn in *; [exact GS'|].
      intros j. unfold fupd. destruct (Nat.eqb i j); [|apply GH']. split; [apply render_refines; exact R1|exact B1].
    + rewrite Ga. f_equal. apply IH. split; assumption.
  - destruct g as [GS GH]. pose proof (GH i) as Gi. cbn in Gi. destruct (hel i) as [req|] eqn:Eh, (vh i) as [r|] eqn:Ev; try contradiction.
    + destruct Gi as [R B]. rewrite R. f_equal. apply IH. split; cbn; [exact GS|].
      intros j. unfold fupd. destruct (Nat.eqb i j); [exact I|apply GH].
    + f_equal. apply IH. split; assumption.
Qed.

Lemma G_init c : G c pinit (fun _ => false) (fun _ => None).
Proof. split; intros; cbn; auto. Qed.

Theorem share_isolated (c : pcfg K V) ops :
  p_clip K V c = true -> Forall safe_mw (p_mws K V c) ->
  prun K V keqb c pinit ops = spec_run K V keqb c (fun _ => false) (fun _ => None) ops.
Proof. intros Cl Sf. apply prun_refines_spec; [exact Cl|exact Sf|apply G_init]. Qed.

End Proofs.

(* ---------- both conditions are needed ---------- *)

Definition wit_ops : list (pop nat) := [ODecode 0; OAcq 0 0 100; OAcq 1 0 200; OShoot 0].
Definition wit_cfg (clip : bool) (m : mw nat) (slack : nat) : pcfg nat nat :=
  {| p_clip := clip; p_gc := fun _ => 0; p_mws := [m]; p_own := fun _ => []; p_stored := fun _ => [(0, [7], slack)] |}.

(* instance 0 acquired [7; 100] and finds [7; 200] when it shoots *)
Lemma share_unclipped_capacity_refuted :
  prun nat nat Nat.eqb (wit_cfg false (MwAdd 0) 1) pinit wit_ops
  = [None; Some [(0, [7; 100])]; Some [(0, [7; 200])]; Some [(0, [7; 200])]].
Proof. vm_compute. reflexivity. Qed.

Lemma share_refresh_in_place_refuted :
  prun nat nat Nat.eqb (wit_cfg true (MwRefresh 0) 0) pinit wit_ops
  = [None; Some [(0, [100])]; Some [(0, [200])]; Some [(0, [200])]].
Proof. vm_compute. reflexivity. Qed.

Lemma share_spec_example :
  spec_run nat nat Nat.eqb (wit_cfg true (MwAdd 0) 1) (fun _ => false) (fun _ => None) wit_ops
  = [None; Some [(0, [7; 100])]; Some [(0, [7; 200])]; Some [(0, [7; 100])]].
Proof. vm_compute. reflexivity. Qed.
