(* Lemmas about NextIterator.Next under any interleaving and the `next` index (C15). *)
From Coq Require Import List NArith ZArith Bool Lia Arith PeanoNat.
From PV Require Import Model.Iterator.
Import ListNotations.

Lemma seg_eqb_refl' a : seg_eqb a a = true.
Proof. induction a as [|x a IH]; cbn [seg_eqb]; [reflexivity|]. rewrite N.eqb_refl, IH. reflexivity. Qed.

Lemma seg_eqb_true a b : seg_eqb a b = true -> a = b.
Proof.
  revert b; induction a as [|x a IH]; intros [|y b]; cbn [seg_eqb]; try discriminate; [reflexivity|].
  intros H. apply andb_prop in H. destruct H as [H1 H2]. apply N.eqb_eq in H1. apply IH in H2. congruence.
Qed.

Lemma it_get_set st s v s' :
  it_get (it_set st s v) s' = if seg_eqb s s' then Some v else it_get st s'.
Proof.
  induction st as [|[k x] st IH]; cbn [it_set it_get].
  - destruct (seg_eqb s s'); reflexivity.
  - destruct (seg_eqb k s) eqn:Eks.
    + apply seg_eqb_true in Eks. subst k. cbn [it_get]. destruct (seg_eqb s s'); reflexivity.
    + cbn [it_get]. rewrite IH. destruct (seg_eqb k s') eqn:Eks'; [|reflexivity].
      apply seg_eqb_true in Eks'. subst k.
      destruct (seg_eqb s s') eqn:E; [apply seg_eqb_true in E; subst s'; rewrite seg_eqb_refl' in Eks; discriminate|reflexivity].
Qed.

(* st holds, for every segment, the number of Next calls made so far (c0) *)
Definition repr (st : iter_state) (c0 : seg -> nat) : Prop :=
  forall s, it_get st s = match c0 s with
                          | O => None
                          | S n => Some (N.of_nat n mod two64)%N
                          end.

Definition bump (c0 : seg -> nat) (s : seg) : seg -> nat :=
  fun x => (c0 x + if seg_eqb s x then 1 else 0)%nat.

Lemma two64_pos : (two64 <> 0)%N.
Proof. unfold two64. discriminate. Qed.

Lemma it_next_repr st c0 s :
  repr st c0 ->
  fst (it_next st s) = (N.of_nat (c0 s) mod two64)%N /\ repr (snd (it_next st s)) (bump c0 s).
Proof.
  intros H. unfold it_next. pose proof (H s) as Hs.
  destruct (c0 s) as [|n] eqn:Ec; rewrite Hs.
  - cbn [fst snd]. split; [reflexivity|].
    intros x. rewrite it_get_set. unfold bump.
    destruct (seg_eqb s x) eqn:E.
    + apply seg_eqb_true in E. subst x. rewrite Ec. reflexivity.
    + rewrite Nat.add_0_r. apply H.
  - cbn [fst snd].
    assert (E1 : ((N.of_nat n mod two64 + 1) mod two64 = N.of_nat (S n) mod two64)%N).
    { rewrite N.add_mod_idemp_l by exact two64_pos. f_equal. lia. }
    split; [exact E1|].
    intros x. rewrite it_get_set. unfold bump.
    destruct (seg_eqb s x) eqn:E.
    + apply seg_eqb_true in E. subst x. rewrite Ec. rewrite Nat.add_1_r. rewrite E1. reflexivity.
    + rewrite Nat.add_0_r. apply H.
Qed.

(* what every critical section returns, as a function of the history alone *)
Fixpoint spec_run (c0 : seg -> nat) (tr : list (nat * seg)) : list (nat * seg * N) :=
  match tr with
  | [] => []
  | (t, s) :: r => (t, s, (N.of_nat (c0 s) mod two64)%N) :: spec_run (bump c0 s) r
  end.

Lemma it_run_spec tr : forall st c0, repr st c0 -> fst (it_run st tr) = spec_run c0 tr.
Proof.
  induction tr as [|[t s] tr IH]; intros st c0 H; [reflexivity|].
  cbn [it_run spec_run]. pose proof (it_next_repr st c0 s H) as [Hv Hr].
  destruct (it_next st s) as [v st1]. cbn [fst snd] in Hv, Hr.
  specialize (IH st1 (bump c0 s) Hr). destruct (it_run st1 tr) as [out st2]. cbn [fst] in *.
  rewrite Hv, IH. reflexivity.
Qed.

Lemma spec_run_nth tr : forall c0 p t s v,
  nth_error (spec_run c0 tr) p = Some (t, s, v) ->
  nth_error tr p = Some (t, s) /\
  v = (N.of_nat (c0 s + count_seg s (firstn p tr)) mod two64)%N.
Proof.
  induction tr as [|[t0 s0] tr IH]; intros c0 p t s v H.
  - destruct p; discriminate.
  - destruct p as [|p]; cbn [spec_run nth_error firstn count_seg] in *.
    + injection H as <- <- <-. split; [reflexivity|]. rewrite Nat.add_0_r. reflexivity.
    + destruct (IH _ _ _ _ _ H) as [H1 H2]. split; [exact H1|]. rewrite H2. unfold bump.
      f_equal. f_equal. lia.
Qed.

Lemma repr_fresh : repr [] (fun _ => O).
Proof. intros s. reflexivity. Qed.

(* the p-th critical section of ANY history, on segment s, returns the number of earlier
   critical sections on s (modulo 2^64) *)
Lemma it_run_values tr p t s v :
  nth_error (fst (it_run [] tr)) p = Some (t, s, v) ->
  nth_error tr p = Some (t, s) /\ v = (N.of_nat (count_seg s (firstn p tr)) mod two64)%N.
Proof.
  rewrite (it_run_spec tr [] (fun _ => O) repr_fresh). intros H.
  destruct (spec_run_nth tr _ p t s v H) as [H1 H2]. split; [exact H1|]. rewrite H2. reflexivity.
Qed.

(* ---------- the row chosen by calcIndex("next") ---------- *)

Lemma next_row_k len k : (0 < len)%nat -> (N.of_nat k < two63)%N ->
  next_row len (N.of_nat k mod two64) = NxRow (k mod len).
Proof.
  intros Hlen Hk. unfold next_row.
  assert (Hsm : (N.of_nat k mod two64 = N.of_nat k)%N).
  { apply N.mod_small. unfold two63, two64 in *. lia. }
  rewrite Hsm. unfold as_int. destruct (N.ltb_spec (N.of_nat k) two63) as [_|Hge]; [|lia].
  rewrite nat_N_Z.
  destruct (Z.leb_spec (Z.of_nat len) (Z.of_nat k)) as [Hle|Hlt].
  - destruct (Z.eqb_spec (Z.of_nat len) 0); [lia|].
    f_equal. rewrite Z.rem_mod_nonneg by lia.
    rewrite <- Nat2Z.inj_mod. apply Nat2Z.id.
  - destruct (Z.ltb_spec (Z.of_nat k) 0); [lia|].
    f_equal. rewrite Nat2Z.id. symmetry. apply Nat.mod_small. lia.
Qed.

Lemma next_row_empty v : (v < two63)%N -> next_row 0 v = NxPanic.
Proof.
  intros Hv. unfold next_row, as_int. destruct (N.ltb_spec v two63); [|lia].
  cbn [Z.of_nat]. destruct (Z.leb_spec 0 (Z.of_N v)); [reflexivity|lia].
Qed.

(* consecutive evaluations get consecutive rows (cyclically) *)
Lemma rows_consecutive len k : (0 < len)%nat -> (S k mod len = (k mod len + 1) mod len)%nat.
Proof. intros H. rewrite Nat.add_mod_idemp_l by lia. f_equal. lia. Qed.

(* within one turn (fewer than len evaluations apart) no row is handed out twice *)
Lemma rows_distinct_in_turn len k1 k2 :
  (0 < len)%nat -> (k1 < k2)%nat -> (k2 < k1 + len)%nat -> (k1 mod len <> k2 mod len)%nat.
Proof.
  intros Hlen H12 H21 E.
  pose proof (Nat.div_mod k1 len ltac:(lia)) as D1. pose proof (Nat.div_mod k2 len ltac:(lia)) as D2.
  pose proof (Nat.mod_upper_bound k1 len ltac:(lia)) as B1.
  rewrite <- E in D2.
  set (q1 := (k1 / len)%nat) in *. set (q2 := (k2 / len)%nat) in *. set (m := (k1 mod len)%nat) in *.
  assert (q1 < q2)%nat by nia. nia.
Qed.

(* every turn covers all rows: the rows of len consecutive evaluations are a permutation of
   0..len-1 (stated as: every row r < len is hit by exactly the evaluation k0 + ((r + len - k0 mod len) mod len)) *)
Lemma rows_cover_turn len k0 r : (0 < len)%nat -> (r < len)%nat ->
  exists d, (d < len)%nat /\ ((k0 + d) mod len = r)%nat.
Proof.
  intros Hlen Hr. exists ((r + len - k0 mod len) mod len)%nat.
  split; [apply Nat.mod_upper_bound; lia|].
  pose proof (Nat.mod_upper_bound k0 len ltac:(lia)) as B.
  rewrite Nat.add_mod_idemp_r by lia.
  rewrite (Nat.div_mod k0 len) at 1 by lia.
  replace (len * (k0 / len) + k0 mod len + (r + len - k0 mod len))%nat
    with (r + (k0 / len + 1) * len)%nat by nia.
  rewrite Nat.mod_add by lia. apply Nat.mod_small. exact Hr.
Qed.

(* merge_of_b is sound: a merge uses every program entry exactly once, so the number of
   critical sections on s is the total number of s-entries of the programs *)
Fixpoint count_prog (s : seg) (p : list seg) : nat :=
  match p with [] => O | x :: r => (if seg_eqb x s then 1 else 0) + count_prog s r end.
Fixpoint count_progs (s : seg) (ps : list (list seg)) : nat :=
  match ps with [] => O | p :: r => count_prog s p + count_progs s r end.

Lemma take_head_count progs : forall t s0 progs',
  take_head progs t = Some (s0, progs') ->
  forall s, count_progs s progs = ((if seg_eqb s0 s then 1 else 0) + count_progs s progs')%nat.
Proof.
  induction progs as [|p rest IH]; intros t s0 progs' H s; [destruct t; discriminate|].
  destruct t as [|t']; cbn [take_head] in H.
  - destruct p as [|x p']; [discriminate|]. injection H as <- <-. cbn [count_progs count_prog]. lia.
  - destruct (take_head rest t') as [[s1 rest']|] eqn:E; [|discriminate].
    injection H as <- <-. cbn [count_progs]. rewrite (IH _ _ _ E s). lia.
Qed.

Lemma merge_counts tr : forall progs, merge_of_b tr progs = true ->
  forall s, count_seg s tr = count_progs s progs.
Proof.
  induction tr as [|[t s0] tr IH]; intros progs H s.
  - cbn [merge_of_b] in H. cbn [count_seg]. induction progs as [|p rest IHp]; [reflexivity|].
    cbn [forallb] in H. apply andb_prop in H. destruct H as [Hp Hr]. destruct p; [|discriminate].
    cbn [count_progs count_prog]. apply IHp, Hr.
  - cbn [merge_of_b] in H. destruct (take_head progs t) as [[s' progs']|] eqn:E; [|discriminate].
    apply andb_prop in H. destruct H as [Hs Hm]. apply seg_eqb_true in Hs. subst s'.
    cbn [count_seg]. rewrite (IH _ Hm s). rewrite (take_head_count _ _ _ _ E s). reflexivity.
Qed.

(* ---------- the concrete preprocessor path source.<src>[next].<field> ---------- *)
From PV Require Import Model.Scenario.

(* With k earlier evaluations on this iterator and table (k < 2^63) and a non-empty table, the
   path yields the field of row k mod len, consumes exactly one counter value of that
   segment and leaves every other counter alone. *)
Lemma eval_next_row own src field (t : ctree) (w : cworld) rows c0 :
  assoc_table (cs_tables (t_src t)) src = Some rows -> rows <> [] ->
  repr (w_iter w) c0 -> (N.of_nat (c0 (seg_next own src)) < two63)%N ->
  exists w',
    eval_pexpr own (PNext src field) t w =
      Some (w', row_field rows (c0 (seg_next own src) mod length rows) field) /\
    repr (w_iter w') (bump c0 (seg_next own src)) /\
    w_arr w' = w_arr w /\ w_script w' = w_script w.
Proof.
  intros Ht Hne Hr Hk. unfold eval_pexpr. rewrite Ht.
  pose proof (it_next_repr (w_iter w) c0 (seg_next own src) Hr) as [Hv Hr'].
  destruct (it_next (w_iter w) (seg_next own src)) as [v st]. cbn [fst snd] in Hv, Hr'.
  rewrite Hv. rewrite next_row_k; [|destruct rows; [contradiction|cbn [length]; lia]|exact Hk].
  eexists. split; [reflexivity|]. split; [exact Hr'|split; reflexivity].
Qed.

(* the same for a list variable of a `variables` source, source.<src>.<lst>[next]: element
   k mod len of THAT list, one counter value of the segment that names the source AND the list *)
Lemma eval_vnext_row own src lst (t : ctree) (w : cworld) ls elems c0 :
  assoc_vsrc (cs_vlists (t_src t)) src = Some ls -> assoc_vlist ls lst = Some elems -> elems <> [] ->
  repr (w_iter w) c0 -> (N.of_nat (c0 (seg_vnext own src lst)) < two63)%N ->
  exists w',
    eval_pexpr own (PVNext src lst) t w =
      Some (w', nth_error elems (c0 (seg_vnext own src lst) mod length elems)) /\
    repr (w_iter w') (bump c0 (seg_vnext own src lst)) /\
    w_arr w' = w_arr w /\ w_script w' = w_script w.
Proof.
  intros Hs Hl Hne Hr Hk. unfold eval_pexpr. rewrite Hs, Hl.
  destruct elems as [|e0 elems]; [contradiction|].
  pose proof (it_next_repr (w_iter w) c0 (seg_vnext own src lst) Hr) as [Hv Hr'].
  destruct (it_next (w_iter w) (seg_vnext own src lst)) as [v st]. cbn [fst snd] in Hv, Hr'.
  rewrite Hv. rewrite next_row_k; [|cbn [length]; lia|exact Hk].
  eexists. split; [reflexivity|]. split; [exact Hr'|split; reflexivity].
Qed.

(* the segments of different (source, list) pairs are different: lists that share only their
   name do not share a counter *)
Lemma seg_vnext_inj own s1 l1 s2 l2 :
  ~ In 46%N s1 -> ~ In 46%N s2 -> ~ In 91%N l1 -> ~ In 91%N l2 ->
  seg_vnext own s1 l1 = seg_vnext own s2 l2 -> s1 = s2 /\ l1 = l2.
Proof.
  intros H1 H2 H3 H4 E. unfold seg_vnext in E. injection E as E.
  assert (A : forall (c : N) (a b x y : list N), ~ In c a -> ~ In c b -> a ++ c :: x = b ++ c :: y -> a = b /\ x = y).
  { intros c a. induction a as [|p a IH]; intros [|q b] x y Ha Hb F; cbn [app] in F.
    - injection F as ->. split; reflexivity.
    - injection F as <- _. exfalso. apply Hb. left. reflexivity.
    - injection F as -> _. exfalso. apply Ha. left. reflexivity.
    - injection F as <- F. destruct (IH b x y) as [-> ->]; try assumption.
      + intros G; apply Ha; right; exact G.
      + intros G; apply Hb; right; exact G.
      + split; reflexivity. }
  cbn [app] in E.
  destruct (A 46%N s1 s2 _ _ H1 H2 E) as [-> E2]. split; [reflexivity|].
  destruct (A 91%N l1 l2 _ _ H3 H4 E2) as [-> _]. reflexivity.
Qed.

(* no other path expression touches the iterator *)
Lemma eval_other_keeps_iter own e (t : ctree) (w w' : cworld) r :
  (forall src field, e <> PNext src field) -> (forall src lst, e <> PVNext src lst) ->
  eval_pexpr own e t w = Some (w', r) -> w' = w.
Proof.
  intros Hn Hv. destruct e as [src f|src f|src i f|k|src lst|rq v|rq v|v]; cbn [eval_pexpr].
  - exfalso. eapply Hn. reflexivity.
  - destruct (assoc_table _ src) as [[|row rows]|]; intros H; try discriminate; injection H as <- _; reflexivity.
  - destruct (assoc_table _ src) as [[|row rows]|]; intros H; try discriminate; injection H as <- _; reflexivity.
  - intros H; injection H as <- _; reflexivity.
  - exfalso. eapply Hv. reflexivity.
  - intros H; injection H as <- _; reflexivity.
  - intros H; injection H as <- _; reflexivity.
  - intros H; injection H as <- _; reflexivity.
Qed.

(* Without the single critical section the property is false: two instances whose first
   lookups both miss both receive 0 (the same row). *)
Lemma split_next_refuted :
  exists ops, split_run [] [] ops = [(0%nat, 0%N); (1%nat, 0%N)].
Proof.
  exists [OpLookup 0 [1%N]; OpLookup 1 [1%N]; OpFinish 0 [1%N]; OpFinish 1 [1%N]]. reflexivity.
Qed.
