(* C02, concurrency: what each atomic section of composite.go does to the abstract token
   stream (pop / finish / Left / stutter), and the thread-local invariants. *)
From Coq Require Import List ZArith Bool Arith Lia.
From PV Require Import Model.SchedTree Model.SchedConc
  Proofs.SchedTreeProofs Proofs.SchedTreeSeq Proofs.SchedTreeRun.
Import ListNotations.
Local Open Scope Z_scope.

(* ---------- the head of a composite ---------- *)
Definition hexh (lo : Z) (c : sched) : Prop :=
  match c with Comp (h :: _) _ _ => drop_closed lo (absp 0 h) = [] | _ => False end.
Definition hfin (c : sched) : Z :=
  match c with Comp (h :: _) _ _ => afin 0 h | _ => 0 end.

Lemma started_cs h r la cs : started (Comp (h :: r) la cs) -> cs = true /\ started h.
Proof. intros S; inversion S; auto. Qed.

Lemma dc_nil_mono lo now a : lo <= now -> drop_closed lo a = [] -> drop_closed now a = [].
Proof. intros L H. rewrite <- (dc_mono lo now a L), H. reflexivity. Qed.

(* one Next on the head child *)
Lemma head_next fuel now p h r cs h' tx ok :
  wf (Comp (h :: r) (la_of (h :: r)) cs) -> pst (Comp (h :: r) (la_of (h :: r)) cs) p now ->
  s_next fuel now h = Ok (h', tx, ok) ->
  let c := Comp (h :: r) (la_of (h :: r)) cs in
  let c' := Comp (h' :: r) (la_of (h :: r)) true in
  wf c' /\ started c' /\ afin p c' = afin p c /\ afin p h' = afin p h /\
  (ok = true -> exists its', abs_next now (afin p c) (absp p c) = (its', tx, true) /\
                             drop_closed now its' = drop_closed now (absp p c')) /\
  (ok = false -> drop_closed now (absp p h) = [] /\ drop_closed now (absp p h') = [] /\ tx = afin p h /\
                 drop_closed now (absp p c') = drop_closed now (absp p c)).
Proof.
  intros W P E c c'. inversion W as [| |? ? ? Wh Fr Hf Hs]; subst.
  pose proof (next_sound fuel now p h h' tx ok Wh (pst_head _ _ _ _ _ _ W P) E) as (Wh' & Sh' & Fh' & A' & AN & DC).
  split; [unfold c'; change (la_of (h :: r)) with (la_of (h' :: r)); apply wf_comp; auto; discriminate|]. split; [constructor; auto|].
  split; [unfold c, c'; rewrite !afin_comp, Fh'; reflexivity|]. split; [exact Fh'|]. split.
  - intros ->. unfold c, c'. rewrite !absp_comp, afin_comp, Fh'.
    exists (A' ++ fst (items_from (afin p h) (flatl r))). split; [eapply an_app_ok; eauto|].
    rewrite !dc_app, DC. reflexivity.
  - intros ->. apply an_fail in AN. destruct AN as (-> & -> & DCh). cbn [drop_closed] in DC.
    split; [exact DCh|]. split; [symmetry; exact DC|]. split; [reflexivity|].
    unfold c, c'. rewrite !absp_comp, Fh', !dc_app, DCh, <- DC. reflexivity.
Qed.

(* startNext when the head is exhausted and tx is its finish time *)
Lemma shift_sound now h h2 r2 tx :
  wf (Comp (h :: h2 :: r2) (la_of (h :: h2 :: r2)) true) -> started h ->
  drop_closed now (absp 0 h) = [] -> tx = afin 0 h ->
  let c := Comp (h :: h2 :: r2) (la_of (h :: h2 :: r2)) true in
  exists h2s, shift c tx = Ok (Comp (h2s :: r2) (la_of (h2s :: r2)) true) /\
    let c1 := Comp (h2s :: r2) (la_of (h2s :: r2)) true in
    wf c1 /\ started c1 /\ afin 0 c1 = afin 0 c /\
    drop_closed now (absp 0 c1) = drop_closed now (absp 0 c) /\ (size c1 <= size c)%nat.
Proof.
  intros W Sh DCh -> c. inversion W as [| |? ? ? Wh Fr Hf Hs]; subst.
  inversion Fr as [|? ? Fh2 Fr2]; subst.
  destruct (start_fresh h2 Fh2 (afin 0 h)) as (h2s & E & Sh2 & Wh2 & I2).
  exists h2s. unfold c at 1. cbn [shift la_of tl]. rewrite E. cbn [bind]. split; [reflexivity|].
  cbn zeta. split; [apply wf_comp; auto; discriminate|]. split; [constructor; auto|].
  assert (EA : absp 0 c = absp 0 h ++ absp 0 h2s ++ fst (items_from (afin 0 h2s) (flatl r2))).
  { unfold c. rewrite absp_comp. f_equal. cbn [flatl flat_map]. rewrite items_app.
    unfold absp, afin. rewrite !(I2 0). reflexivity. }
  assert (EF : afin 0 c = snd (items_from (afin 0 h2s) (flatl r2))).
  { unfold c. rewrite afin_comp. cbn [flatl flat_map]. rewrite items_app.
    unfold afin. rewrite !(I2 0). reflexivity. }
  split; [rewrite afin_comp, EF; reflexivity|]. split.
  - rewrite EA, absp_comp, (dc_app now (absp 0 h)), DCh. reflexivity.
  - unfold c. rewrite !size_comp, !sizel_cons, (size_start _ _ _ E). pose proof (size_pos h). lia.
Qed.

(* ---------- thread-local invariants ---------- *)
(* N1 tx k : k >= 2 is the length seen; either somebody shifted since, or the head is still the
   exhausted one and tx is its finish time.  L1 k : the same without tx. *)
Definition Jn (lo : Z) (c : sched) (tx : Z) (k : nat) : Prop :=
  (2 <= k)%nat /\ ((comp_len c < k)%nat \/ (comp_len c = k /\ hexh lo c /\ tx = hfin c)).
Definition Jl (lo : Z) (c : sched) (k : nat) : Prop :=
  (2 <= k)%nat /\ ((comp_len c < k)%nat \/ (comp_len c = k /\ hexh lo c)).

Definition Jpc (lo : Z) (c : sched) (p : pc) : Prop :=
  match p with PIdle => True | N1 tx k => Jn lo c tx k | L1 k => Jl lo c k end.

(* how the shared state can evolve in one section: it never grows, and an exhausted head
   stays exhausted with the same finish time until it is shifted away *)
Definition evol (lo now : Z) (c c' : sched) : Prop :=
  (comp_len c' < comp_len c)%nat \/
  (comp_len c' = comp_len c /\ (hexh lo c -> hexh now c' /\ hfin c' = hfin c)).

Lemma evol_J lo now c c' p : evol lo now c c' -> Jpc lo c p -> Jpc now c' p.
Proof.
  intros E J. destruct p as [|tx k|k]; cbn [Jpc] in *; [exact I| |].
  - destruct J as [K [L|(L & X & T)]]; split; try exact K.
    + left. destruct E as [E|[E _]]; lia.
    + destruct E as [E|[E F]]; [left; lia|]. destruct (F X) as [X' T']. right. repeat split; try lia; auto; congruence.
  - destruct J as [K [L|(L & X)]]; split; try exact K.
    + left. destruct E as [E|[E _]]; lia.
    + destruct E as [E|[E F]]; [left; lia|]. destruct (F X) as [X' T']. right. repeat split; try lia; auto.
Qed.

Lemma evol_refl lo now c : lo <= now -> evol lo now c c.
Proof.
  intros L. right. split; [reflexivity|]. intros X. split; [|reflexivity].
  destruct c as [| |[|h r] la cs]; cbn [hexh] in *; try tauto. eapply dc_nil_mono; eauto.
Qed.

(* ---------- the relation to the abstract stream, for a started composite ---------- *)
Definition relS (lo : Z) (c : sched) (its : list item) : Prop :=
  wf c /\ started c /\ drop_closed lo its = drop_closed lo (absp 0 c).

Lemma wf_comp_inv l la cs : wf (Comp l la cs) -> exists h r, l = h :: r /\ la = la_of (h :: r).
Proof. intros W; inversion W; subst; eauto. Qed.

(* one Next on the head of a started composite *)
Lemma head_step fuel lo now h r h' tx ok :
  let c := Comp (h :: r) (la_of (h :: r)) true in
  let c' := Comp (h' :: r) (la_of (h :: r)) true in
  wf c -> started c -> lo <= now -> s_next fuel now h = Ok (h', tx, ok) -> (size h' <= size h)%nat ->
  wf c' /\ started c' /\ afin 0 c' = afin 0 c /\ (size c' <= size c)%nat /\ evol lo now c c' /\
  (ok = true -> exists its', abs_next now (afin 0 c) (absp 0 c) = (its', tx, true) /\
                             drop_closed now its' = drop_closed now (absp 0 c')) /\
  (ok = false -> drop_closed now (absp 0 c') = drop_closed now (absp 0 c) /\ hexh now c' /\ tx = hfin c' /\
                 (r = [] -> abs_next now (afin 0 c) (absp 0 c) = ([], tx, false))).
Proof.
  intros c c' W S L E Sz.
  destruct (head_next fuel now 0 h r true h' tx ok W (or_introl S) E) as (W' & S' & Fc & Fh & Hok & Hno).
  split; [exact W'|]. split; [exact S'|]. split; [exact Fc|].
  split; [unfold c, c'; rewrite !size_comp, !sizel_cons; lia|]. split.
  - right. split; [reflexivity|]. cbn [hexh hfin]. intros X. apply (dc_nil_mono lo now _ L) in X.
    destruct ok.
    + exfalso. inversion W as [| |? ? ? Wh Fr Hf Hs]; subst.
      pose proof (next_sound fuel now 0 h h' tx true Wh (or_introl (proj2 (started_cs _ _ _ _ S))) E) as (_ & _ & _ & A2 & AN2 & _).
      rewrite an_nil_closed in AN2 by exact X. discriminate.
    + destruct (Hno eq_refl) as (_ & D2 & _ & _). split; [exact D2|exact Fh].
  - split; [exact Hok|]. intros ->. destruct (Hno eq_refl) as (D1 & D2 & T & D3).
    split; [exact D3|]. split; [exact D2|]. split; [unfold c'; cbn [hfin]; rewrite Fh; exact T|].
    intros ->. unfold c. rewrite absp_comp, afin_comp. cbn [flatl flat_map items_from fst snd].
    rewrite app_nil_r, T. apply an_nil_closed. exact D1.
Qed.

Lemma relS_next lo now c its : relS lo c its -> lo <= now ->
  abs_next now (afin 0 c) its = abs_next now (afin 0 c) (absp 0 c).
Proof. intros (_ & _ & DC) L. apply an_dc_eq. eapply dc_lift; eauto. Qed.

(* sec_next0 on a started composite *)
Lemma sec_next0_S fuel lo now c its :
  relS lo c its -> lo <= now -> (size c <= S fuel)%nat -> comp_len c <> 0%nat ->
  exists c' out, sec_next0 fuel now c = Ok (c', out) /\ (size c' <= size c)%nat /\ evol lo now c c' /\
    afin 0 c' = afin 0 c /\
    match out with
    | RetN t ok => exists its', abs_next now (afin 0 c) its = (its', t, ok) /\ relS now c' its'
    | Goto (N1 tx k) => relS now c' its /\ Jn now c' tx k
    | _ => False
    end.
Proof.
  intros R L Sz NZ. pose proof R as (W & S & DC).
  destruct c as [| |l la cs]; try (cbn in NZ; congruence).
  destruct (wf_comp_inv _ _ _ W) as (h & r & -> & ->).
  destruct (started_cs _ _ _ _ S) as [-> Sh].
  inversion W as [| |? ? ? Wh Fr Hf Hs]; subst.
  rewrite size_comp, sizel_cons in Sz.
  destruct (next_total fuel now h Wh ltac:(lia)) as (h' & tx & ok & E & Szh).
  destruct (head_step fuel lo now h r h' tx ok W S L E Szh) as (W' & S' & Fc & Szc & EV & Hok & Hno).
  cbn [sec_next0]. rewrite E. cbn [bind].
  destruct ok.
  - do 2 eexists. split; [reflexivity|]. split; [exact Szc|]. split; [exact EV|]. split; [exact Fc|].
    destruct (Hok eq_refl) as (its' & AN & DC'). exists its'. split.
    + rewrite (relS_next lo now _ its R L). exact AN.
    + repeat split; assumption.
  - destruct (Hno eq_refl) as (D3 & X & T & Last).
    destruct r as [|h2 r2].
    + cbn [length Nat.eqb]. do 2 eexists. split; [reflexivity|]. split; [exact Szc|]. split; [exact EV|]. split; [exact Fc|].
      exists []. split.
      * rewrite (relS_next lo now _ its R L). apply Last. reflexivity.
      * repeat split; try assumption. cbn [drop_closed].
        destruct (Hno eq_refl) as (D3' & X' & _ & _). cbn [hexh] in X'.
        rewrite absp_comp. cbn [flatl flat_map items_from fst]. rewrite app_nil_r. symmetry. exact X'.
    + cbn [length Nat.eqb]. do 2 eexists. split; [reflexivity|]. split; [exact Szc|]. split; [exact EV|]. split; [exact Fc|].
      split.
      * repeat split; try assumption. rewrite D3. eapply dc_lift; eauto.
      * split; [cbn; lia|]. right. cbn [comp_len length]. repeat split; auto.
Qed.

(* an exhausted head cannot give a token *)
Lemma exhausted_head_fails fuel now h h' tx ok :
  wf h -> started h -> drop_closed now (absp 0 h) = [] -> s_next fuel now h = Ok (h', tx, ok) -> ok = false.
Proof.
  intros W S X E. pose proof (next_sound fuel now 0 h h' tx ok W (or_introl S) E) as (_ & _ & _ & A2 & AN2 & _).
  rewrite an_nil_closed in AN2 by exact X. inversion AN2; reflexivity.
Qed.

Lemma relS_lift lo now c its : relS lo c its -> lo <= now -> relS now c its.
Proof. intros (W & S & DC) L. repeat split; auto. eapply dc_lift; eauto. Qed.

(* sec_next1 on a started composite, under the thread invariant of N1 *)
Lemma sec_next1_S fuel lo now c its tx k :
  relS lo c its -> Jn lo c tx k -> lo <= now -> (size c <= S fuel)%nat -> comp_len c <> 0%nat ->
  exists c' out, sec_next1 fuel now c tx k = Ok (c', out) /\ (size c' <= size c)%nat /\ evol lo now c c' /\
    afin 0 c' = afin 0 c /\
    match out with
    | RetN t ok => exists its', abs_next now (afin 0 c) its = (its', t, ok) /\ relS now c' its'
    | Goto PIdle => relS now c' its
    | _ => False
    end.
Proof.
  intros R J L Sz NZ. pose proof R as (W & S & DC).
  destruct c as [| |l la cs]; try (cbn in NZ; congruence).
  destruct (wf_comp_inv _ _ _ W) as (h & r & -> & ->).
  destruct (started_cs _ _ _ _ S) as [-> Sh].
  inversion W as [| |? ? ? Wh Fr Hf Hs]; subst.
  unfold sec_next1. cbn [comp_len].
  destruct (Nat.ltb_spec (length (h :: r)) k) as [Lt|Ge].
  - (* somebody shifted before us: just take a token *)
    rewrite size_comp, sizel_cons in Sz.
    destruct (next_total fuel now h Wh ltac:(lia)) as (h' & tx2 & ok2 & E & Szh).
    destruct (head_step fuel lo now h r h' tx2 ok2 W S L E Szh) as (W' & S' & Fc & Szc & EV & Hok & Hno).
    rewrite E. cbn [bind].
    destruct ok2; cbn [orb].
    + do 2 eexists. split; [reflexivity|]. split; [exact Szc|]. split; [exact EV|]. split; [exact Fc|].
      destruct (Hok eq_refl) as (its' & AN & DC'). exists its'. split.
      * rewrite (relS_next lo now _ its R L). exact AN.
      * repeat split; assumption.
    + destruct (Hno eq_refl) as (D3 & X & T & Last).
      destruct r as [|h2 r2]; cbn [length Nat.eqb].
      * do 2 eexists. split; [reflexivity|]. split; [exact Szc|]. split; [exact EV|]. split; [exact Fc|].
        exists []. split; [rewrite (relS_next lo now _ its R L); apply Last; reflexivity|].
        repeat split; try assumption. cbn [drop_closed]. cbn [hexh] in X.
        rewrite absp_comp. cbn [flatl flat_map items_from fst]. rewrite app_nil_r. symmetry. exact X.
      * do 2 eexists. split; [reflexivity|]. split; [exact Szc|]. split; [exact EV|]. split; [exact Fc|].
        repeat split; try assumption. rewrite D3. eapply dc_lift; eauto.
  - (* nobody shifted: the head is the exhausted one we saw; shift and take a token *)
    destruct J as [K [Lt|(Ek & X & T)]]; [cbn [comp_len] in Lt; lia|].
    cbn [comp_len] in Ek. cbn [hexh hfin] in X, T.
    destruct r as [|h2 r2]; [cbn in Ek; lia|].
    apply (dc_nil_mono lo now _ L) in X.
    destruct (shift_sound now h h2 r2 tx W Sh X T) as (h2s & Esh & W1 & S1 & F1 & D1 & Sz1).
    rewrite Esh. cbn [bind].
    inversion W1 as [| |? ? ? Wh2 Fr2 Hf2 Hs2]; subst.
    rewrite !size_comp, !sizel_cons in Sz1. rewrite !size_comp, !sizel_cons in Sz.
    destruct (next_total fuel now h2s Wh2 ltac:(lia)) as (h2' & tx2 & ok2 & E & Szh).
    destruct (head_step fuel now now h2s r2 h2' tx2 ok2 W1 S1 (Z.le_refl _) E Szh) as (W' & S' & Fc & Szc & EV & Hok & Hno).
    rewrite E. cbn [bind].
    assert (EVs : evol lo now (Comp (h :: h2 :: r2) (la_of (h :: h2 :: r2)) true)
                           (Comp (h2' :: r2) (la_of (h2s :: r2)) true)) by (left; cbn; lia).
    assert (R1 : drop_closed now its = drop_closed now (absp 0 (Comp (h2s :: r2) (la_of (h2s :: r2)) true))).
    { rewrite D1. eapply dc_lift; eauto. }
    destruct ok2; cbn [negb andb].
    + do 2 eexists. split; [reflexivity|]. split; [rewrite !size_comp, !sizel_cons in *; lia|]. split; [exact EVs|].
      split; [rewrite Fc; exact F1|].
      destruct (Hok eq_refl) as (its' & AN & DC'). exists its'. split.
      * rewrite <- F1, <- AN. apply an_dc_eq. exact R1.
      * repeat split; assumption.
    + replace (1 <? length (h :: h2 :: r2))%nat with true by (symmetry; apply Nat.ltb_lt; cbn; lia).
      destruct (Hno eq_refl) as (D3 & _).
      do 2 eexists. split; [reflexivity|]. split; [rewrite !size_comp, !sizel_cons in *; lia|]. split; [exact EVs|].
      split; [rewrite Fc; exact F1|].
      repeat split; try assumption. rewrite D3. exact R1.
Qed.

(* ---------- Left ---------- *)
Lemma sec_left0_ret fuel now c c' v :
  sec_left0 fuel now c = Ok (c', RetL v) -> s_left (S fuel) now c = Ok (c', v).
Proof.
  destruct c as [| |[|h r] [|la0 la'] cs]; try discriminate.
  cbn [sec_left0 s_left]. destruct (s_left fuel now h) as [[h' lft]| |]; cbn [bind]; try discriminate.
  destruct r as [|h2 r2]; cbn [length Nat.eqb].
  - intros H; inversion H; reflexivity.
  - destruct (lft =? 0).
    + destruct (0 <=? la0); [intros H; inversion H; reflexivity|].
      destruct cs; cbn [negb]; [discriminate|intros H; inversion H; reflexivity].
    + destruct ((lft <? 0) || (la0 <? 0)); intros H; inversion H; reflexivity.
Qed.

Lemma abs_left_zero_dc now a : abs_left now a = 0 -> drop_closed now a = [].
Proof.
  unfold abs_left. destruct (existsb is_window (drop_closed now a)); [discriminate|].
  destruct (drop_closed now a); [reflexivity|cbn; lia].
Qed.

Lemma sec_left0_S fuel lo now c its :
  relS lo c its -> lo <= now -> (size c <= S fuel)%nat -> comp_len c <> 0%nat ->
  exists c' out, sec_left0 fuel now c = Ok (c', out) /\ (size c' <= size c)%nat /\ evol lo now c c' /\
    afin 0 c' = afin 0 c /\
    match out with
    | RetL v => v = abs_left now its /\ relS now c' its
    | Goto (L1 k) => relS now c' its /\ Jl now c' k
    | _ => False
    end.
Proof.
  intros R L Sz NZ. pose proof R as (W & S & DC).
  destruct c as [| |l la cs]; try (cbn in NZ; congruence).
  destruct (wf_comp_inv _ _ _ W) as (h & r & -> & ->).
  destruct (started_cs _ _ _ _ S) as [-> Sh].
  inversion W as [| |? ? ? Wh Fr Hf Hs]; subst.
  rewrite size_comp, sizel_cons in Sz.
  destruct (left_total fuel now h Wh Sh ltac:(lia)) as (h' & lft & E & Szh).
  pose proof (left_sound fuel now 0 h h' lft Wh Sh E) as (Wh' & Sh' & Fh' & Kh & DCh).
  set (c := Comp (h :: r) (la_of (h :: r)) true) in *.
  set (c' := Comp (h' :: r) (la_of (h :: r)) true).
  assert (W' : wf c') by (unfold c'; change (la_of (h :: r)) with (la_of (h' :: r)); apply wf_comp; auto; discriminate).
  assert (S' : started c') by (constructor; auto).
  assert (Fc : afin 0 c' = afin 0 c) by (unfold c, c'; rewrite !afin_comp, Fh'; reflexivity).
  assert (Dc : drop_closed now (absp 0 c') = drop_closed now (absp 0 c)).
  { unfold c, c'. rewrite !absp_comp, Fh', !dc_app, DCh. reflexivity. }
  assert (Szc : (size c' <= size c)%nat) by (unfold c, c'; rewrite !size_comp, !sizel_cons; lia).
  assert (EV : evol lo now c c').
  { right. split; [reflexivity|]. unfold c, c'. cbn [hexh hfin]. intros X. apply (dc_nil_mono lo now _ L) in X.
    split; [rewrite DCh; exact X|exact Fh']. }
  assert (RS : relS now c' its).
  { repeat split; auto. rewrite Dc. eapply dc_lift; eauto. }
  (* every outcome that returns agrees with the sequential Left, hence with the stream *)
  assert (Ret : forall v, sec_left0 fuel now c = Ok (c', RetL v) -> v = abs_left now its).
  { intros v H. apply sec_left0_ret in H.
    pose proof (left_sound (Datatypes.S fuel) now 0 c c' v W S H) as (_ & _ & _ & K & _).
    rewrite K. apply abs_left_dc. symmetry. eapply dc_lift; eauto. }
  unfold c at 1 in Ret. unfold c at 1. cbn [sec_left0 la_of] in Ret |- *. rewrite E in Ret |- *. cbn [bind] in Ret |- *.
  fold c' in Ret |- *.
  assert (Fin : forall v, (forall v', Ok (c', RetL v) = Ok (c', RetL v') -> v' = abs_left now its) ->
           exists c'0 out, Ok (c', RetL v) = Ok (c'0, out) /\ (size c'0 <= size c)%nat /\ evol lo now c c'0 /\
             afin 0 c'0 = afin 0 c /\
             match out with
             | RetL v0 => v0 = abs_left now its /\ relS now c'0 its
             | Goto (L1 k) => relS now c'0 its /\ Jl now c'0 k
             | _ => False
             end).
  { intros v Hv. exists c', (RetL v). split; [reflexivity|]. split; [exact Szc|]. split; [exact EV|].
    split; [exact Fc|]. split; [apply Hv; reflexivity|exact RS]. }
  destruct r as [|h2 r2]; cbn [length Nat.eqb] in Ret |- *.
  - apply Fin. exact Ret.
  - destruct (lft =? 0) eqn:E0.
    + destruct (0 <=? statl (flatl (h2 :: r2))).
      * apply Fin. exact Ret.
      * cbn [negb] in Ret |- *. exists c', (Goto (L1 (Datatypes.S (Datatypes.S (length r2))))).
        split; [reflexivity|]. split; [exact Szc|]. split; [exact EV|]. split; [exact Fc|].
        split; [exact RS|]. split; [lia|]. right. split; [reflexivity|]. unfold c'. cbn [hexh].
        apply Z.eqb_eq in E0. rewrite E0 in Kh. symmetry in Kh. apply abs_left_zero_dc in Kh.
        rewrite DCh. exact Kh.
    + destruct ((lft <? 0) || (statl (flatl (h2 :: r2)) <? 0)); apply Fin; exact Ret.
Qed.

Lemma sec_left1_S fuel lo now c its k :
  relS lo c its -> Jl lo c k -> lo <= now -> (size c <= S fuel)%nat -> comp_len c <> 0%nat ->
  exists c', sec_left1 fuel now c k = Ok (c', Goto PIdle) /\ (size c' <= size c)%nat /\ evol lo now c c' /\
    afin 0 c' = afin 0 c /\ relS now c' its.
Proof.
  intros R J L Sz NZ. pose proof R as (W & S & DC).
  unfold sec_left1. destruct (Nat.eqb_spec (comp_len c) k) as [Ek|Nk].
  - destruct c as [| |l la cs]; try (cbn in NZ; congruence).
    destruct (wf_comp_inv _ _ _ W) as (h & r & -> & ->).
    destruct (started_cs _ _ _ _ S) as [-> Sh].
    inversion W as [| |? ? ? Wh Fr Hf Hs]; subst.
    destruct J as [K [Lt|(_ & X)]]; [lia|]. cbn [hexh comp_len] in *.
    apply (dc_nil_mono lo now _ L) in X.
    rewrite size_comp, sizel_cons in Sz.
    destruct (next_total fuel now h Wh ltac:(lia)) as (h' & fin & ok & E & Szh).
    pose proof (exhausted_head_fails fuel now h h' fin ok Wh Sh X E) as ->.
    destruct (head_step fuel lo now h r h' fin false W S L E Szh) as (W' & S' & Fc & Szc & EV & _ & Hno).
    destruct (Hno eq_refl) as (D3 & X' & T & _). cbn [hexh hfin] in X', T.
    rewrite E. cbn [bind].
    destruct r as [|h2 r2]; [cbn in K; lia|].
    destruct (started_cs _ _ _ _ S') as [_ Sh'].
    destruct (shift_sound now h' h2 r2 fin W' Sh' X' T) as (h2s & Esh & W1 & S1 & F1 & D1 & Sz1).
    change (la_of (h' :: h2 :: r2)) with (la_of (h :: h2 :: r2)) in Esh. rewrite Esh. cbn [bind].
    eexists. split; [reflexivity|]. split; [rewrite !size_comp in *; lia|]. split; [left; cbn; lia|].
    split; [rewrite F1; exact Fc|]. repeat split; auto.
    rewrite D1. change (la_of (h' :: h2 :: r2)) with (la_of (h :: h2 :: r2)). rewrite D3. eapply dc_lift; eauto.
  - exists c. split; [reflexivity|]. split; [lia|]. split; [apply evol_refl; exact L|]. split; [reflexivity|].
    eapply relS_lift; eauto.
Qed.

(* ---------- sections on a composite that has not been started ---------- *)
Lemma fresh_comp_inv l la cs : fresh (Comp l la cs) ->
  exists h r, l = h :: r /\ la = la_of (h :: r) /\ cs = false /\ fresh h /\ Forall fresh r.
Proof.
  intros F; inversion F as [| |l' Fl Hne]; subst. destruct l as [|h r]; [congruence|].
  inversion Fl; subst. exists h, r. auto.
Qed.

Lemma sec_next0_F fuel now c :
  fresh c -> comp_len c <> 0%nat -> (size c <= S fuel)%nat ->
  exists c' out, sec_next0 fuel now c = Ok (c', out) /\ (size c' <= size c)%nat /\ afin 0 c' = afin now c /\
    match out with
    | RetN t ok => exists its', abs_next now (afin now c) (absp now c) = (its', t, ok) /\ relS now c' its'
    | Goto (N1 tx k) => relS now c' (absp now c) /\ Jn now c' tx k
    | _ => False
    end.
Proof.
  intros F NZ Sz. destruct c as [| |l la cs]; try (cbn in NZ; congruence).
  destruct (fresh_comp_inv _ _ _ F) as (h & r & -> & -> & -> & Fh & Fr).
  pose proof (fresh_wf _ F) as W.
  rewrite size_comp, sizel_cons in Sz.
  destruct (next_total fuel now h (fresh_wf _ Fh) ltac:(lia)) as (h' & tx & ok & E & Szh).
  destruct (head_next fuel now now h r false h' tx ok W (or_intror eq_refl) E) as (W' & S' & Fc & Fh' & Hok & Hno).
  set (c := Comp (h :: r) (la_of (h :: r)) false) in *.
  set (c' := Comp (h' :: r) (la_of (h :: r)) true) in *.
  assert (P0 : absp now c' = absp 0 c' /\ afin now c' = afin 0 c').
  { unfold absp, afin. rewrite (absp_param c' now 0 S'). split; reflexivity. }
  destruct P0 as [PA PF].
  assert (Szc : (size c' <= size c)%nat) by (unfold c, c'; rewrite !size_comp, !sizel_cons; lia).
  assert (ES : sec_next0 fuel now c = (if ok then Ok (c', RetN tx true) else if (length (h :: r) =? 1)%nat then Ok (c', RetN tx false) else Ok (c', Goto (N1 tx (length (h :: r)))))).
  { unfold c. cbn [sec_next0]. rewrite E. reflexivity. }
  rewrite ES. clear ES.
  destruct ok.
  - exists c', (RetN tx true). split; [reflexivity|]. split; [exact Szc|]. split; [rewrite <- PF; exact Fc|].
    destruct (Hok eq_refl) as (its' & AN & DC'). exists its'. split; [exact AN|].
    repeat split; auto. rewrite <- PA. exact DC'.
  - destruct (Hno eq_refl) as (D1 & D2 & T & D3).
    destruct (started_cs _ _ _ _ S') as [_ Sh'].
    assert (Ph : absp now h' = absp 0 h' /\ afin now h' = afin 0 h').
    { unfold absp, afin. rewrite (absp_param h' now 0 Sh'). split; reflexivity. }
    destruct Ph as [PhA PhF].
    destruct r as [|h2 r2]; cbn [length Nat.eqb].
    + exists c', (RetN tx false). split; [reflexivity|]. split; [exact Szc|]. split; [rewrite <- PF; exact Fc|].
      exists []. split.
      * unfold c. rewrite absp_comp, afin_comp. cbn [flatl flat_map items_from fst snd].
        rewrite app_nil_r, T. apply an_nil_closed. exact D1.
      * repeat split; auto. cbn [drop_closed]. rewrite <- PA. unfold c'. rewrite absp_comp.
        cbn [flatl flat_map items_from fst]. rewrite app_nil_r. symmetry. exact D2.
    + exists c', (Goto (N1 tx (S (S (length r2))))). split; [reflexivity|]. split; [exact Szc|].
      split; [rewrite <- PF; exact Fc|]. split.
      * repeat split; auto. rewrite <- PA. symmetry. exact D3.
      * split; [lia|]. right. split; [reflexivity|]. unfold c'. cbn [hexh hfin].
        split; [rewrite <- PhA; exact D2|]. rewrite <- PhF, Fh'. exact T.
Qed.

Lemma sec_left0_of_s_left fuel now l la c' v :
  s_left (S fuel) now (Comp l la false) = Ok (c', v) -> sec_left0 fuel now (Comp l la false) = Ok (c', RetL v).
Proof.
  destruct l as [|h r]; [discriminate|]. destruct la as [|la0 la']; [discriminate|].
  cbn [sec_left0 s_left]. destruct (s_left fuel now h) as [[h' lft]| |]; cbn [bind]; try discriminate.
  destruct r as [|h2 r2]; cbn [length Nat.eqb].
  - intros H; inversion H; reflexivity.
  - destruct (lft =? 0).
    + destruct (0 <=? la0); [intros H; inversion H; reflexivity|].
      cbn [negb]. intros H; inversion H; reflexivity.
    + destruct ((lft <? 0) || (la0 <? 0)); intros H; inversion H; reflexivity.
Qed.

Lemma sec_left0_F fuel now c :
  fresh c -> comp_len c <> 0%nat -> (size c <= S fuel)%nat ->
  sec_left0 fuel now c = Ok (c, RetL (statl (flatten c))).
Proof.
  intros F NZ Sz. destruct c as [| |l la cs]; try (cbn in NZ; congruence).
  destruct (fresh_comp_inv _ _ _ F) as (h & r & -> & -> & -> & Fh & Fr).
  apply sec_left0_of_s_left. apply left_fresh_total; assumption.
Qed.
