(* Proofs about Model/ProviderScan.v: the grpc/json provider with the line scanner as state.
   Whatever `maxammosize` is, a file whose entries fit the limit the configuration asks for is
   read the same way in EVERY pass, so the run with sizes is the run of Model/Provider.v and all of
   C08 carries over. *)
From Coq Require Import List Arith Bool NArith Lia.
From PV Require Import Model.Provider Model.ProviderFile Model.ProviderScan Proofs.ProviderProofs.
Import ListNotations.

(* two machines that move in lock step produce the same result *)
Definition sres_rel {A B : Type} (R : A -> B -> Prop) (x : sres A) (y : sres B) : Prop :=
  match x, y with
  | Cont a, Cont b => R a b
  | Emit e a, Emit e' b => e = e' /\ R a b
  | Stop o c, Stop o' c' => o = o' /\ c = c'
  | _, _ => False
  end.

Lemma run_steps_lockstep : forall (A B : Type) (sa : bool -> A -> sres A) (sb : bool -> B -> sres B)
    (R : A -> B -> Prop),
  (forall c a b, R a b -> sres_rel R (sa c a) (sb c b)) ->
  forall cancel fuel sent a b, R a b ->
    run_steps sa cancel fuel sent a = run_steps sb cancel fuel sent b.
Proof.
  intros A B sa sb R Hstep cancel fuel.
  induction fuel as [|f IH]; intros sent a b HR; [reflexivity|].
  cbn [run_steps].
  specialize (Hstep (is_cancelled cancel sent) a b HR).
  destruct (sa (is_cancelled cancel sent) a) as [a'|e a'|o c],
           (sb (is_cancelled cancel sent) b) as [b'|e' b'|o' c']; cbn in Hstep; try contradiction.
  - now rewrite (IH sent a' b' Hstep).
  - destruct Hstep as [-> HR']. now rewrite (IH (S sent) a' b' HR').
  - now destruct Hstep as [-> ->].
Qed.

(* every entry fits the scanner of every pass *)
Definition fits_every_pass (capf : nat -> N) (szs : list N) : Prop :=
  forall p i, token_fits (capf p) (nth i szs 0%N) = true.

(* the scanner in use inside a pass is the one made at the head of that pass *)
Definition ZR (capf : nat -> N) (z : zstate) (g : gstate) : Prop :=
  z_g z = g /\ (g_inner g = true -> z_cap z = capf (g_pass g)).

Lemma grpcjson_step_inner_keeps_pass : forall cf es c g,
  g_inner g = true ->
  match grpcjson_step cf es c g with
  | Cont g' | Emit _ g' => g_inner g' = true -> g_pass g' = g_pass g
  | Stop _ _ => True
  end.
Proof.
  intros cf es c g Hin. unfold grpcjson_step. rewrite Hin. cbn [negb].
  destruct (nth_error es (g_pos g)) as [e|].
  - destruct ((limit cf =? 0) || (g_ammo g <? limit cf)).
    + destruct (negb (is_chosen (e_tag e) (chosen cf))); [cbn; auto|].
      destruct c; cbn; auto.
    + unfold g_after. cbn [g_ammo g_pass].
      repeat match goal with |- context [if ?b then _ else _] => destruct b end; cbn; auto.
  - unfold g_after.
    repeat match goal with |- context [if ?b then _ else _] => destruct b end; cbn; auto.
Qed.

Lemma gz_lockstep : forall capf cf es szs,
  fits_every_pass capf szs ->
  forall c z g, ZR capf z g ->
    sres_rel (ZR capf) (gz_step capf cf es szs c z) (grpcjson_step cf es c g).
Proof.
  intros capf cf es szs Hfit c z g [Hg Hcap]. subst g.
  unfold gz_step.
  destruct (g_inner (z_g z)) eqn:Hin; cbn [negb].
  - (* inside a pass *)
    specialize (Hcap eq_refl).
    pose proof (grpcjson_step_inner_keeps_pass cf es c (z_g z) Hin) as Hk.
    assert (Hl : sres_rel (ZR capf) (zlift (z_cap z) (grpcjson_step cf es c (z_g z)))
                          (grpcjson_step cf es c (z_g z))).
    { destruct (grpcjson_step cf es c (z_g z)) as [g'|e g'|o cl]; cbn.
      - split; [reflexivity|]. cbn. intro Hi. rewrite (Hk Hi). exact Hcap.
      - split; [reflexivity|]. split; [reflexivity|]. cbn. intro Hi. rewrite (Hk Hi). exact Hcap.
      - auto. }
    destruct (nth_error es (g_pos (z_g z))); [|exact Hl].
    rewrite Hcap in Hl |- *. rewrite Hfit. exact Hl.
  - (* head of the pass loop *)
    unfold grpcjson_step. rewrite Hin. cbn. split; [reflexivity|]. cbn. auto.
Qed.

(* The run with sizes IS the run of Model/Provider.v as soon as every entry fits the scanner of
   every pass *)
Lemma gz_run_refines : forall capf cf es szs cancel fuel,
  fits_every_pass capf szs ->
  gz_run capf cf es szs cancel fuel = grpcjson_run cf es cancel fuel.
Proof.
  intros. unfold gz_run, grpcjson_run.
  apply run_steps_lockstep with (R := ZR capf).
  - intros c a b HR. now apply gz_lockstep.
  - split; [reflexivity|]. cbn. discriminate.
Qed.

Lemma forallb_nth_fits : forall cap szs,
  (0 < cap)%N -> forallb (token_fits cap) szs = true ->
  forall i, token_fits cap (nth i szs 0%N) = true.
Proof.
  intros cap szs Hpos Hall i.
  destruct (nth_in_or_default i szs 0%N) as [Hin | ->].
  - rewrite forallb_forall in Hall. now apply Hall.
  - unfold token_fits. now apply N.ltb_lt.
Qed.

Lemma new_scanner_cap_pos : forall maxsz, (0 < new_scanner_cap maxsz)%N.
Proof.
  intro maxsz. unfold new_scanner_cap. destruct (N.eqb maxsz 0) eqn:E.
  - reflexivity.
  - apply N.eqb_neq in E. lia.
Qed.

(* ... which the code guarantees for every file its configuration accepts: EVERY provider kind,
   every `maxammosize`, every sizes — the run is the one C08_count / C08_clean_end / C08_no_spin
   speak about *)
Lemma run_sz_is_run : forall k maxsz cf es szs cancel fuel,
  all_fit_b k maxsz szs = true ->
  run_sz k maxsz cf es szs cancel fuel = run k cf es cancel fuel.
Proof.
  intros k maxsz cf es szs cancel fuel Hfit.
  destruct k; try reflexivity.
  cbn [run_sz run]. apply gz_run_refines.
  intros p i. unfold code_capf. apply forallb_nth_fits; [apply new_scanner_cap_pos | exact Hfit].
Qed.

Lemma run_file_sz_is_run_file : forall fs k maxsz cf es szs cancel fuel,
  all_fit_b k maxsz szs = true ->
  run_file_sz fs k maxsz cf es szs cancel fuel = run_file fs k cf es cancel fuel.
Proof. intros. unfold run_file_sz, run_file. now rewrite run_sz_is_run. Qed.

(* the statement of C08 for a bounded run, with the option and the sizes in it *)
Lemma c08_sized : forall k maxsz es szs lim pas b fuel,
  es <> [] -> all_fit_b k maxsz szs = true ->
  bound lim pas (length es) = Some b -> step_const * (b + length es + 1) < fuel ->
  let r := run_sz k maxsz (cfg0 lim pas) es szs None fuel in
  delivered r = cyc_prefix es b /\ out r = Ok /\ closed r = true /\ acquire_after r = AcqEndOfAmmo.
Proof.
  intros k maxsz es szs lim pas b fuel Hne Hfit Hb Hfuel. cbn zeta.
  rewrite run_sz_is_run by exact Hfit.
  destruct (c08_count k es lim pas Hne) as [Hc _].
  destruct (Hc b fuel Hb Hfuel) as [Hd _].
  destruct (c08_clean_end k es lim pas b fuel Hne Hb Hfuel) as [Ho [Hcl Ha]].
  auto.
Qed.

(* a scanner that cannot hold an entry ends the run at that entry with the scanner's error, in
   whichever pass it is met: nothing is delivered past it *)
Lemma gz_step_too_long : forall capf cf es szs c z e,
  g_inner (z_g z) = true -> nth_error es (g_pos (z_g z)) = Some e ->
  token_fits (z_cap z) (nth (g_pos (z_g z)) szs 0%N) = false ->
  gz_step capf cf es szs c z = Stop (Failed EScan) true.
Proof.
  intros capf cf es szs c z e Hin He Hf. unfold gz_step. rewrite Hin, He, Hf. reflexivity.
Qed.

Lemma c08_sizes_change_nothing : forall (k : pkind) (maxsz : N) cf es (szs : list N) cancel fuel,
  all_fit_b k maxsz szs = true ->
  run_sz k maxsz cf es szs cancel fuel = run k cf es cancel fuel
  /\ forall fs, run_file_sz fs k maxsz cf es szs cancel fuel = run_file fs k cf es cancel fuel.
Proof.
  intros k maxsz cf es szs cancel fuel H. split.
  - now apply run_sz_is_run.
  - intro fs. now apply run_file_sz_is_run_file.
Qed.

Lemma c08_scanner_of_every_pass : forall (capf : nat -> N) cf es (szs : list N),
  ((forall p i, token_fits (capf p) (nth i szs 0%N) = true) ->
   forall cancel fuel, gz_run capf cf es szs cancel fuel = grpcjson_run cf es cancel fuel)
  /\ (forall c z e, g_inner (z_g z) = true -> nth_error es (g_pos (z_g z)) = Some e ->
        token_fits (z_cap z) (nth (g_pos (z_g z)) szs 0%N) = false ->
        gz_step capf cf es szs c z = Stop (Failed EScan) true).
Proof.
  intros capf cf es szs. split.
  - intros H cancel fuel. now apply gz_run_refines.
  - intros c z e. apply gz_step_too_long.
Qed.
