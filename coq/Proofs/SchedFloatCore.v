(* Property C01, floating-point side: IEEE-754 binary64 arithmetic as Go performs it.

   MODELLING ASSUMPTION (named [go_float64_correctly_rounded] in the design note): every Go
   float64 operation used by core/schedule (times, divide, plus, minus, math.Sqrt, int64 -> float64 conversion)
   returns the real result rounded to the nearest binary64 number, ties to even, as IEEE-754
   requires and the Go specification + amd64/arm64 hardware provide (no fused multiply-add is
   formed across the statements of const.go/line.go on amd64; math.Sqrt is SQRTSD).
   float64 -> int64 / time.Duration conversion truncates toward zero when the value is in
   int64 range (the theorems prove it is).

   binary64 = Flocq's FLT format, radix 2, precision 53, minimal exponent -1074.  FLT has no
   largest exponent, so the theorems also bound every result (far) below 2^1024: no overflow.

   This file: the format, the operations, and the standard model  rnd x = x (1 + e), |e| <= u
   with u = 2^-53, valid when 2^-1022 <= |x| (normal range).  Uses Coq's Reals + Flocq. *)
From Coq Require Import ZArith Reals Lra Lia Psatz.
From Flocq Require Import Core Relative.
Local Open Scope R_scope.

Definition b64_emin : Z := (-1074)%Z.
Definition b64_prec : Z := 53%Z.
Definition b64_exp : Z -> Z := FLT_exp b64_emin b64_prec.

#[global] Instance b64_prec_gt_0 : Prec_gt_0 b64_prec.
Proof. unfold Prec_gt_0, b64_prec. lia. Qed.

#[global] Instance b64_valid_exp : Valid_exp b64_exp.
Proof. unfold b64_exp. apply FLT_exp_valid. exact b64_prec_gt_0. Qed.

(* x is a binary64 number (sign, 53-bit significand, exponent >= -1074; magnitude unbounded) *)
Definition is_b64 (x : R) : Prop := generic_format radix2 b64_exp x.

(* round to nearest, ties to even *)
Definition rnd (x : R) : R := round radix2 b64_exp ZnearestE x.

(* Go's float64 operations *)
Definition fmul (x y : R) : R := rnd (x * y).
Definition fdiv (x y : R) : R := rnd (x / y).
Definition fadd (x y : R) : R := rnd (x + y).
Definition fsub (x y : R) : R := rnd (x - y).
Definition fsqrt (x : R) : R := rnd (sqrt x).
Definition of_int (i : Z) : R := rnd (IZR i).          (* float64(i) for an int64 i *)
Definition to_int (x : R) : Z := Ztrunc x.             (* int64(x) / time.Duration(x), |x| < 2^63 *)

(* unit roundoff *)
Definition u : R := bpow radix2 (-53).
Definition tiny : R := bpow radix2 (-1022).            (* smallest normal number *)

Definition billion : R := 1000000000.

Lemma u_val : u = / 9007199254740992.
Proof. unfold u. simpl bpow. reflexivity. Qed.

Lemma u_pos : 0 < u.
Proof. rewrite u_val. lra. Qed.

Lemma tiny_pos : 0 < tiny.
Proof. apply bpow_gt_0. Qed.

(* tiny is below every power of two we use *)
Lemma tiny_le_bpow e : (-1022 <= e)%Z -> tiny <= bpow radix2 e.
Proof. intros H. apply bpow_le. exact H. Qed.

Lemma tiny_le_2m100 : tiny <= / 1267650600228229401496703205376.
Proof.
  replace (/ 1267650600228229401496703205376) with (bpow radix2 (-100)).
  - apply tiny_le_bpow. lia.
  - simpl bpow. reflexivity.
Qed.

Lemma rnd_0 : rnd 0 = 0.
Proof. apply round_0. apply valid_rnd_N. Qed.

Lemma rnd_le x y : x <= y -> rnd x <= rnd y.
Proof. apply round_le; [exact b64_valid_exp|apply valid_rnd_N]. Qed.

Lemma rnd_id x : is_b64 x -> rnd x = x.
Proof. apply round_generic. apply valid_rnd_N. Qed.

Lemma is_b64_rnd x : is_b64 (rnd x).
Proof. apply generic_format_round; [exact b64_valid_exp|apply valid_rnd_N]. Qed.

Lemma rnd_nonneg x : 0 <= x -> 0 <= rnd x.
Proof. intros H. rewrite <- rnd_0. apply rnd_le. exact H. Qed.

(* the standard model of floating-point arithmetic, normal range *)
Lemma rnd_rel x : tiny <= Rabs x -> exists e, Rabs e <= u /\ rnd x = x * (1 + e).
Proof.
  intros H.
  destruct (relative_error_N_FLT_ex radix2 b64_emin b64_prec b64_prec_gt_0 (fun z => negb (Z.even z)) x) as (e & He & E).
  - exact H.
  - exists e. split; [|exact E].
    replace u with (/ 2 * bpow radix2 (- b64_prec + 1)); [exact He|].
    unfold u, b64_prec. simpl bpow. lra.
Qed.

Lemma rnd_pos_bounds x : tiny <= x -> x * (1 - u) <= rnd x <= x * (1 + u).
Proof.
  intros H. pose proof tiny_pos as Ht.
  destruct (rnd_rel x) as (e & He & E).
  - rewrite Rabs_pos_eq; lra.
  - rewrite E. apply Rabs_le_inv in He. split; apply Rmult_le_compat_l; lra.
Qed.

(* integers below 2^53 are binary64 numbers: the int64 -> float64 conversion is exact on them *)
Lemma is_b64_int i : (Z.abs i < 2 ^ 53)%Z -> is_b64 (IZR i).
Proof.
  intros H. apply generic_format_FLT.
  apply (FLT_spec radix2 b64_emin b64_prec (IZR i) (Float radix2 i 0)).
  - unfold F2R; cbn. lra.
  - cbn. exact H.
  - cbn. unfold b64_emin. lia.
Qed.

Lemma of_int_exact i : (Z.abs i < 2 ^ 53)%Z -> of_int i = IZR i.
Proof. intros H. apply rnd_id. apply is_b64_int. exact H. Qed.

Lemma is_b64_billion : is_b64 billion.
Proof. unfold billion. apply is_b64_int. lia. Qed.

(* truncation of a non-negative real is its floor *)
Lemma to_int_floor x : 0 <= x -> to_int x = Zfloor x.
Proof. intros H. unfold to_int. apply Ztrunc_floor. exact H. Qed.

(* two reals within delta of each other have floors within 1 + delta *)
Lemma floor_close p X d : Rabs (p - X) <= d -> IZR (Z.abs (Zfloor p - Zfloor X)) < 1 + d.
Proof.
  intros H. apply Rabs_le_inv in H.
  pose proof (Zfloor_lb p). pose proof (Zfloor_ub p). pose proof (Zfloor_lb X). pose proof (Zfloor_ub X).
  rewrite abs_IZR, minus_IZR. apply Rabs_def1; lra.
Qed.

(* ... hence within the integer tolerance 1 + D/2^k used by the correspondence driver as soon as
   the real deviation is at most D * 2^-k *)
Lemma floor_close_tol p X (D : Z) (k : Z) : (0 <= k)%Z ->
  Rabs (p - X) <= IZR D * / IZR (2 ^ k) ->
  (Z.abs (Zfloor p - Zfloor X) <= 1 + D / 2 ^ k)%Z.
Proof.
  intros Hk H. pose proof (floor_close p X _ H) as Hc.
  set (d := Z.abs (Zfloor p - Zfloor X)) in *.
  assert (Hp : (0 < 2 ^ k)%Z) by (apply Z.pow_pos_nonneg; lia).
  assert (HpR : 0 < IZR (2 ^ k)) by (apply IZR_lt; exact Hp).
  assert (Hlt : IZR ((d - 1) * 2 ^ k) < IZR D).
  { rewrite mult_IZR, minus_IZR.
    apply (Rmult_lt_reg_r (/ IZR (2 ^ k))); [apply Rinv_0_lt_compat; exact HpR|].
    rewrite Rmult_assoc, Rinv_r by lra. lra. }
  apply lt_IZR in Hlt.
  assert ((d - 1) <= D / 2 ^ k)%Z; [|lia].
  apply Z.div_le_lower_bound; [exact Hp|lia].
Qed.

(* ------------------------------------------------------------------------------------ *)
(* Absolute-error forms (used for the subtraction in lineDoAt).                          *)
From Flocq Require Import Plus_error Mult_error.

Definition eta : R := bpow radix2 (-1075).            (* half the smallest subnormal *)

Lemma tiny_is_b64 : is_b64 tiny.
Proof. apply generic_format_bpow. unfold b64_exp, FLT_exp, b64_emin, b64_prec. lia. Qed.

Lemma rnd_ge_tiny x : tiny <= x -> tiny <= rnd x.
Proof. intros H. rewrite <- (rnd_id tiny) by exact tiny_is_b64. apply rnd_le. exact H. Qed.

Lemma rnd_opp x : rnd (- x) = - rnd x.
Proof. unfold rnd. apply round_NE_opp. Qed.

(* any real: relative error u plus at most eta (underflow) *)
Lemma rnd_abs_err x : Rabs (rnd x - x) <= u * Rabs x + eta.
Proof.
  destruct (error_N_FLT radix2 b64_emin b64_prec b64_prec_gt_0 (fun z => negb (Z.even z)) x)
    as (e & t & He & Ht & _ & E).
  unfold rnd, b64_exp. rewrite E.
  replace (x * (1 + e) + t - x) with (x * e + t) by ring.
  apply Rle_trans with (Rabs (x * e) + Rabs t); [apply Rabs_triang|].
  rewrite Rabs_mult.
  assert (Hu : / 2 * bpow radix2 (- b64_prec + 1) = u) by (unfold u, b64_prec; simpl bpow; lra).
  assert (Het : / 2 * bpow radix2 b64_emin = eta) by (unfold eta, b64_emin; simpl bpow; lra).
  rewrite Hu in He. rewrite Het in Ht.
  assert (Rabs x * Rabs e <= Rabs x * u) by (apply Rmult_le_compat_l; [apply Rabs_pos|exact He]).
  lra.
Qed.

(* the difference of two binary64 numbers never underflows: pure relative error *)
Lemma fsub_err x y : is_b64 x -> is_b64 y -> Rabs (fsub x y - (x - y)) <= u * Rabs (x - y).
Proof.
  intros Hx Hy. unfold fsub.
  assert (Hy' : is_b64 (- y)) by (apply generic_format_opp; exact Hy).
  destruct (FLT_plus_error_N_ex radix2 b64_emin b64_prec (fun z => negb (Z.even z)) x (- y) Hx Hy') as (e & He & E).
  change (rnd (x - y)) with (rnd (x + - y)). unfold rnd, b64_exp. rewrite E.
  replace ((x + - y) * (1 + e) - (x - y)) with ((x - y) * e) by ring.
  rewrite Rabs_mult, Rmult_comm. apply Rmult_le_compat_r; [apply Rabs_pos|].
  apply Rle_trans with (1 := He).
  assert (Hu : u_ro radix2 b64_prec = u) by (unfold u_ro, u, b64_prec; change (-53 + 1)%Z with (-52)%Z; simpl bpow; lra).
  rewrite Hu. pose proof u_pos.
  apply (Rmult_le_reg_r (1 + u)); [lra|]. unfold Rdiv. rewrite Rmult_assoc, Rinv_l by lra. nra.
Qed.

(* doubling a binary64 number is exact *)
Lemma is_b64_double x : is_b64 x -> is_b64 (2 * x).
Proof.
  intros H. replace (2 * x) with (x * bpow radix2 1) by (change (bpow radix2 1) with 2; ring).
  apply mult_bpow_pos_exact_FLT; [exact H|lia].
Qed.

Lemma tiny_le_sqrt x : tiny <= x -> tiny <= sqrt x.
Proof.
  intros H. pose proof tiny_pos as Ht. pose proof tiny_le_2m100 as Ht1.
  destruct (Rle_or_lt x 1) as [Hx|Hx].
  - destruct (Req_dec x 1) as [->|Hne]; [rewrite sqrt_1; lra|].
    assert (x < sqrt x) by (apply sqrt_more; lra). lra.
  - apply Rle_trans with 1; [lra|]. rewrite <- sqrt_1 at 1. apply sqrt_le_1_alt. lra.
Qed.

(* truncation toward zero against the floor of a non-negative reference *)
Lemma trunc_close p Y d : 0 <= Y -> Rabs (p - Y) <= d -> IZR (Z.abs (to_int p - Zfloor Y)) < 1 + d.
Proof.
  intros HY H. destruct (Rle_or_lt 0 p) as [Hp|Hp].
  - rewrite to_int_floor by exact Hp. apply floor_close. exact H.
  - unfold to_int. rewrite Ztrunc_ceil by lra. apply Rabs_le_inv in H.
    pose proof (Zceil_ub p). pose proof (Zfloor_lb Y). pose proof (Zfloor_ub Y).
    assert (Hc : (Zceil p <= 0)%Z) by (apply Zceil_glb; simpl; lra).
    assert (Hf : (0 <= Zfloor Y)%Z) by (apply Zfloor_lub; simpl; exact HY).
    rewrite Z.abs_neq by lia. rewrite opp_IZR, minus_IZR. lra.
Qed.

Lemma trunc_close_tol p Y (A : Z) (k : Z) : (0 <= k)%Z -> 0 <= Y ->
  Rabs (p - Y) <= IZR A * / IZR (2 ^ k) ->
  (Z.abs (to_int p - Zfloor Y) <= 1 + A / 2 ^ k)%Z.
Proof.
  intros Hk HY H. pose proof (trunc_close p Y _ HY H) as Hc.
  set (d := Z.abs (to_int p - Zfloor Y)) in *.
  assert (Hp : (0 < 2 ^ k)%Z) by (apply Z.pow_pos_nonneg; lia).
  assert (HpR : 0 < IZR (2 ^ k)) by (apply IZR_lt; exact Hp).
  assert (Hlt : IZR ((d - 1) * 2 ^ k) < IZR A).
  { rewrite mult_IZR, minus_IZR.
    apply (Rmult_lt_reg_r (/ IZR (2 ^ k))); [apply Rinv_0_lt_compat; exact HpR|].
    rewrite Rmult_assoc, Rinv_r by lra. lra. }
  apply lt_IZR in Hlt.
  assert ((d - 1) <= A / 2 ^ k)%Z; [|lia].
  apply Z.div_le_lower_bound; [exact Hp|lia].
Qed.
