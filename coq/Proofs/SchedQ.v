(* Rational-number plumbing for the schedule proofs (property C01): comparisons of fractions
   of integers, floor/truncation, and the integrals [cum_const]/[cum_line] written as one
   fraction of integers. *)
From Coq Require Import ZArith QArith Qround Lia Psatz Qfield.
From PV Require Import Model.Sched Proofs.SchedArith.
Local Open Scope Z_scope.
Lemma qz_nonzero b : b <> 0 -> ~ (qz b == 0)%Q.
Proof. unfold qz, Qeq, inject_Z; cbn. lia. Qed.

Lemma Qdiv_z_le a b k : 0 < b -> ((qz a / qz b <= qz k)%Q <-> a <= k * b).
Proof.
  intros Hb. unfold qz.
  destruct b as [|b|b]; try lia.
  rewrite <- (Qmake_Qdiv a b). unfold Qle, inject_Z; cbn. lia.
Qed.

Lemma Qdiv_z_lt a b k : 0 < b -> ((qz k < qz a / qz b)%Q <-> k * b < a).
Proof.
  intros Hb. unfold qz.
  destruct b as [|b|b]; try lia.
  rewrite <- (Qmake_Qdiv a b). unfold Qlt, inject_Z; cbn. lia.
Qed.

Lemma Qdiv_z_le2 a b c d : 0 < b -> 0 < d -> ((qz a / qz b <= qz c / qz d)%Q <-> a * d <= c * b).
Proof.
  intros Hb Hd. unfold qz.
  destruct b as [|b|b]; try lia. destruct d as [|d|d]; try lia.
  rewrite <- (Qmake_Qdiv a b), <- (Qmake_Qdiv c d). unfold Qle; cbn. lia.
Qed.

Lemma Qdiv_z_lt2 a b c d : 0 < b -> 0 < d -> ((qz a / qz b < qz c / qz d)%Q <-> a * d < c * b).
Proof.
  intros Hb Hd. unfold qz.
  destruct b as [|b|b]; try lia. destruct d as [|d|d]; try lia.
  rewrite <- (Qmake_Qdiv a b), <- (Qmake_Qdiv c d). unfold Qlt; cbn. lia.
Qed.

Lemma Qfloor_div_z a b : 0 < b -> Qfloor (qz a / qz b) = a / b.
Proof.
  intros Hb. unfold qz. destruct b as [|b|b]; try lia.
  rewrite <- (Qmake_Qdiv a b). reflexivity.
Qed.

Lemma Qtrunc_floor q : (0 <= q)%Q -> Qtrunc q = Qfloor q.
Proof.
  destruct q as [n d]. unfold Qle, Qtrunc, Qfloor; cbn. intros H.
  apply Z.quot_div_nonneg; lia.
Qed.

Lemma Qtrunc_comp_nonneg p q : (0 <= p)%Q -> (p == q)%Q -> Qtrunc p = Qtrunc q.
Proof.
  intros Hp E. rewrite !Qtrunc_floor; [apply Qfloor_comp; exact E| rewrite <- E; exact Hp|exact Hp].
Qed.

Lemma q_as_div (q : Q) : (q == qz (Qnum q) / qz (Zpos (Qden q)))%Q.
Proof. destruct q as [n d]. cbn [Qnum Qden]. unfold qz. apply Qmake_Qdiv. Qed.

Lemma cum_const_frac ops x :
  (cum_const ops x == qz (Qnum ops * x) / qz (Zpos (Qden ops) * ns_per_s))%Q.
Proof.
  unfold cum_const. rewrite (q_as_div ops) at 1. unfold qz.
  rewrite !inject_Z_mult. field. split; apply qz_nonzero; unfold ns_per_s; lia.
Qed.

Lemma line_scale_pos f t D : 0 < D -> 0 < line_scale f t D.
Proof. unfold line_scale, line_scale_z, rn_den, ns_per_s. lia. Qed.

Lemma inject_Z_sub a b : (inject_Z (a - b) == inject_Z a - inject_Z b)%Q.
Proof. unfold Z.sub. rewrite inject_Z_plus, inject_Z_opp. reflexivity. Qed.

Ltac qz_push := unfold qz; rewrite ?inject_Z_plus, ?inject_Z_mult, ?inject_Z_sub, ?inject_Z_plus, ?inject_Z_mult, ?inject_Z_sub, ?inject_Z_mult.

Lemma cum_line_frac f t D x : 0 < D ->
  (cum_line f t D x == qz (Npoly (rn_to f t - rn_from f t) (rn_from f t) D x) / qz (line_scale f t D))%Q.
Proof.
  intros HD. unfold cum_line, Npoly, line_scale, line_scale_z, rn_to, rn_from, rn_den.
  destruct f as [a b], t as [c d]. cbn [Qnum Qden].
  rewrite (Qmake_Qdiv a b), (Qmake_Qdiv c d).
  rewrite Pos2Z.inj_mul. qz_push.
  field. repeat split; apply qz_nonzero; unfold ns_per_s; lia.
Qed.

(* truncation toward zero depends on the value of the rational only *)
Lemma Qtrunc_opp q : Qtrunc (- q) = - Qtrunc q.
Proof. destruct q as [n d]. unfold Qtrunc, Qopp; cbn. apply Z.quot_opp_l. lia. Qed.

Lemma Qtrunc_comp p q : (p == q)%Q -> Qtrunc p = Qtrunc q.
Proof.
  intros E. destruct (Qlt_le_dec p 0) as [Hneg|Hpos].
  - assert (H : Qtrunc (- p) = Qtrunc (- q)).
    { apply Qtrunc_comp_nonneg; [|rewrite E; reflexivity].
      apply Qlt_le_weak in Hneg. apply Qopp_le_compat in Hneg. exact Hneg. }
    rewrite !Qtrunc_opp in H. lia.
  - apply Qtrunc_comp_nonneg; assumption.
Qed.
