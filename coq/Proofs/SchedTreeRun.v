(* C02: totality (no panic, fuel bound), construction, and the refinement of whole runs. *)
From Coq Require Import List ZArith Bool Arith Lia.
From PV Require Import Model.SchedTree Proofs.SchedTreeProofs Proofs.SchedTreeSeq.
Import ListNotations.
Local Open Scope Z_scope.

(* ---------- sizes ---------- *)
Definition sizel (l : list sched) : nat := fold_right (fun x a => size x + a)%nat 0%nat l.
Lemma size_comp l la cs : size (Comp l la cs) = S (sizel l).
Proof. reflexivity. Qed.
Lemma sizel_cons x r : sizel (x :: r) = (size x + sizel r)%nat.
Proof. reflexivity. Qed.
Lemma size_pos s : (1 <= size s)%nat.
Proof. destruct s; cbn; lia. Qed.

Lemma size_start t s s' : s_start t s = Ok s' -> size s' = size s.
Proof.
  revert s'. induction s as [| |l la cs IH] using sched_ind'; intros s' H.
  - destruct st; cbn in H; inversion H; reflexivity.
  - destruct f; cbn in H; inversion H; reflexivity.
  - destruct l as [|h r]; [discriminate|]. cbn [s_start] in H.
    apply bind_ok in H. destruct H as (h' & E & H). inversion H; subst.
    inversion IH as [|? ? IHh _]; subst. rewrite !size_comp, !sizel_cons, (IHh _ E). reflexivity.
Qed.

(* ---------- Next: total under the fuel bound, size does not grow ---------- *)
Lemma next_total : forall fuel now s, wf s -> (size s <= fuel)%nat ->
  exists s' t ok, s_next fuel now s = Ok (s', t, ok) /\ (size s' <= size s)%nat.
Proof.
  induction fuel as [|f IH]; intros now s W L; [pose proof (size_pos s); lia|].
  destruct s as [n d a i st|d fin|l la cs].
  - cbn [s_next]. destruct (i <? n)%nat; do 3 eexists; split; try reflexivity; cbn; lia.
  - cbn [s_next]. destruct (now <? _); do 3 eexists; split; try reflexivity; cbn; lia.
  - inversion W as [| |h r cs' Wh Fr Hf Hs]; subst.
    rewrite size_comp, sizel_cons in L.
    destruct (IH now h Wh ltac:(lia)) as (h' & tx & okh & E1 & S1).
    pose proof (next_sound f now now h h' tx okh Wh (or_intror eq_refl) E1) as (Wh' & Sh' & _).
    cbn [s_next]. rewrite E1. cbn [bind].
    destruct okh.
    + do 3 eexists. split; [reflexivity|]. rewrite !size_comp, !sizel_cons. lia.
    + destruct r as [|h2 r2].
      * do 3 eexists. split; [reflexivity|]. rewrite !size_comp, !sizel_cons. lia.
      * inversion Fr as [|? ? Fh2 Fr2]; subst.
        destruct (start_fresh h2 Fh2 tx) as (h2s & E2 & Sh2 & Wh2 & _).
        rewrite E2. cbn [bind]. pose proof (size_start _ _ _ E2) as Z2.
        rewrite sizel_cons in L. pose proof (size_pos h) as Ph.
        destruct (IH now h2s Wh2 ltac:(lia)) as (h2' & tx2 & ok2 & E3 & S3).
        pose proof (next_sound f now now h2s h2' tx2 ok2 Wh2 (or_introl Sh2) E3) as (Wh2' & Sh2' & _).
        rewrite E3. cbn [bind].
        destruct (negb ok2 && (1 <? length (h :: h2 :: r2))%nat).
        -- assert (Wc : wf (Comp (h2' :: r2) (tl (la_of (h :: h2 :: r2))) true)).
           { cbn [la_of tl]. apply wf_comp; auto; discriminate. }
           destruct (IH now _ Wc) as (s' & t & ok & E4 & S4).
           { rewrite size_comp, sizel_cons. lia. }
           do 3 eexists. split; [exact E4|].
           rewrite size_comp, sizel_cons in S4. rewrite size_comp, !sizel_cons. lia.
        -- do 3 eexists. split; [reflexivity|]. rewrite !size_comp, !sizel_cons. lia.
Qed.

Lemma left_fresh_total : forall fuel now s, fresh s -> (size s <= fuel)%nat ->
  s_left fuel now s = Ok (s, statl (flatten s)).
Proof.
  induction fuel as [|f IH]; intros now s F L; [pose proof (size_pos s); lia|].
  assert (G : exists x, s_left (S f) now s = Ok x).
  { inversion F as [n d a|d|l Fl Hne]; subst; try (eexists; reflexivity).
    destruct l as [|h r]; [congruence|]. inversion Fl as [|? ? Fh Fr]; subst.
    rewrite size_comp, sizel_cons in L.
    cbn [s_left la_of]. rewrite (IH now h Fh ltac:(lia)). cbn [bind].
    destruct r as [|h2 r2]; [eexists; reflexivity|].
    destruct (statl (flatten h) =? 0).
    - destruct (0 <=? _); [eexists; reflexivity|]. cbn [negb]. eexists; reflexivity.
    - destruct (_ || _); eexists; reflexivity. }
  destruct G as ([s' k] & E). destruct (left_fresh _ _ _ _ _ F E) as [-> ->]. exact E.
Qed.

Lemma left_total : forall fuel now s, wf s -> started s -> (size s <= fuel)%nat ->
  exists s' k, s_left fuel now s = Ok (s', k) /\ (size s' <= size s)%nat.
Proof.
  induction fuel as [|f IH]; intros now s W S L; [pose proof (size_pos s); lia|].
  destruct s as [n d a i st|d fin|l la cs].
  - do 2 eexists. split; [reflexivity|lia].
  - inversion S; subst. do 2 eexists. split; [reflexivity|lia].
  - inversion W as [| |h r cs' Wh Fr Hf Hs]; subst. inversion S as [| |? ? ? Sh]; subst.
    rewrite size_comp, sizel_cons in L.
    destruct (IH now h Wh Sh ltac:(lia)) as (h' & lft & E1 & S1).
    pose proof (left_sound f now 0 h h' lft Wh Sh E1) as (Wh' & Sh' & _ & Kh & DCh).
    cbn [s_left la_of]. rewrite E1. cbn [bind].
    destruct r as [|h2 r2].
    + do 2 eexists. split; [reflexivity|]. rewrite !size_comp, !sizel_cons. lia.
    + destruct (lft =? 0) eqn:E0.
      * destruct (0 <=? _).
        -- do 2 eexists. split; [reflexivity|]. rewrite !size_comp, !sizel_cons. lia.
        -- cbn [negb].
           destruct (next_total f now h' Wh' ltac:(lia)) as (h'' & fin & ok & E2 & S2).
           pose proof (next_sound f now 0 h' h'' fin ok Wh' (or_introl Sh') E2) as (_ & _ & _ & A' & AN & _).
           apply Z.eqb_eq in E0. rewrite E0 in Kh.
           assert (DC0 : drop_closed now (absp 0 h) = []).
           { symmetry in Kh. unfold abs_left in Kh.
             destruct (existsb is_window (drop_closed now (absp 0 h))); [discriminate|].
             destruct (drop_closed now (absp 0 h)); [reflexivity|cbn in Kh; lia]. }
           rewrite an_nil_closed in AN by (rewrite DCh; exact DC0).
           inversion AN; subst. rewrite E2. cbn [bind].
           inversion Fr as [|? ? Fh2 Fr2]; subst.
           destruct (start_fresh h2 Fh2 (afin 0 h')) as (h2s & E3 & Sh2 & Wh2 & _).
           rewrite E3. cbn [bind]. pose proof (size_start _ _ _ E3) as Z3.
           rewrite sizel_cons in L. pose proof (size_pos h).
           assert (Wc : wf (Comp (h2s :: r2) (la_of (h2 :: r2)) true)).
           { change (la_of (h2 :: r2)) with (la_of (h2s :: r2)). constructor; auto. discriminate. }
           destruct (IH now _ Wc ltac:(constructor; auto)) as (s' & k & E4 & S4).
           { rewrite size_comp, sizel_cons. lia. }
           do 2 eexists. split; [exact E4|].
           rewrite size_comp, sizel_cons in S4. rewrite size_comp, !sizel_cons. lia.
      * destruct (_ || _); do 2 eexists; (split; [reflexivity|]); rewrite !size_comp, !sizel_cons; lia.
Qed.

Lemma start_started t s : started s -> s_start t s = Panic PStarted.
Proof.
  induction s as [| |l la cs IH] using sched_ind'; intros S; inversion S; subst; try reflexivity.
  inversion IH as [|? ? IHh _]; subst. cbn [s_start]. rewrite (IHh H0). reflexivity.
Qed.

(* ---------- construction ---------- *)
Section CfgInd.
  Variable P : cfg -> Prop.
  Hypothesis HD : forall n d a, P (CDoAt n d a).
  Hypothesis HU : forall d, P (CUnlim d).
  Hypothesis HC : forall l, Forall P l -> P (CComp l).
  Fixpoint cfg_ind' (c : cfg) : P c :=
    match c with
    | CDoAt n d a => HD n d a
    | CUnlim d => HU d
    | CComp l =>
        HC l ((fix go (l : list cfg) : Forall P l :=
                 match l with
                 | [] => Forall_nil _
                 | x :: r => Forall_cons _ (cfg_ind' x) (go r)
                 end) l)
    end.
End CfgInd.

Lemma nc_loop_fresh fuel now l : Forall fresh l -> Forall (fun x => (size x <= fuel)%nat) l ->
  nc_loop fuel now l = Ok (l, la_of l, statl (flatl l) <? 0, statl (flatl l)).
Proof.
  induction 1 as [|x r Fx Fr IH]; intros Hs; [reflexivity|].
  inversion Hs as [|? ? Sx Sr]; subst.
  cbn [nc_loop]. rewrite (IH Sr). cbn [bind].
  rewrite (left_fresh_total fuel now x Fx Sx). cbn [bind la_of flatl flat_map].
  fold (flatl r). rewrite statl_app.
  pose proof (statl_ge (flatten x)). pose proof (statl_ge (flatl r)).
  destruct (statl (flatten x) <? 0) eqn:E1; cbn [orb]; [reflexivity|].
  destruct (statl (flatl r) <? 0) eqn:E2.
  - apply Z.ltb_lt in E2. replace (statl (flatl r)) with (-1) by lia. reflexivity.
  - apply Z.ltb_ge in E1, E2.
    replace (statl (flatl r) + statl (flatten x) <? 0) with false by (symmetry; apply Z.ltb_ge; lia).
    replace (statl (flatten x) + statl (flatl r) <? 0) with false by (symmetry; apply Z.ltb_ge; lia).
    rewrite (Z.add_comm (statl (flatl r))). reflexivity.
Qed.

Definition built_ok (c : cfg) (s : sched) : Prop :=
  fresh s /\ flatten s = flatten_cfg c /\ (size s <= size_cfg c)%nat.

Definition sizel_cfg (l : list cfg) : nat := fold_right (fun x a => size_cfg x + a)%nat 0%nat l.

Lemma built_list lc l fuel : Forall2 built_ok lc l -> (sizel_cfg lc <= fuel)%nat ->
  Forall fresh l /\ Forall (fun x => (size x <= fuel)%nat) l /\
  flatl l = flat_map flatten_cfg lc /\ (sizel l <= sizel_cfg lc)%nat.
Proof.
  induction 1 as [|c x lc' l' Bx F2 IH]; intros L.
  - repeat split; try constructor.
  - destruct Bx as (Fx & Ex & Sx).
    cbn [sizel_cfg fold_right] in L. fold (sizel_cfg lc') in L.
    destruct (IH ltac:(lia)) as (F1 & F2' & F3 & F4).
    split; [constructor; auto|]. split; [constructor; [lia|auto]|]. split.
    + cbn [flatl flat_map]. rewrite Ex. f_equal. exact F3.
    + cbn [sizel sizel_cfg fold_right]. fold (sizel l') (sizel_cfg lc'). lia.
Qed.

Lemma new_composite_ok fuel now lc l :
  Forall2 built_ok lc l -> (sizel_cfg lc <= fuel)%nat ->
  exists s, new_composite fuel now l = Ok s /\ built_ok (CComp lc) s.
Proof.
  intros F2 L.
  destruct (built_list lc l fuel F2 L) as (Ffresh & Fsize & Fflat & Fsz).
  destruct F2 as [|c x lc' l' Bx F2'].
  - exists (once 0). split; [reflexivity|]. split; [constructor|]. split; [reflexivity|cbn; lia].
  - destruct F2' as [|c2 x2 lc'' l'' Bx2 F2''].
    + exists x. split; [reflexivity|]. destruct Bx as (Fx & Ex & Sx).
      split; [exact Fx|]. split.
      * cbn [flatten_cfg flat_map]. rewrite app_nil_r. exact Ex.
      * cbn [size_cfg fold_right]. lia.
    + unfold new_composite. rewrite (nc_loop_fresh fuel now _ Ffresh Fsize). cbn [bind].
      eexists. split; [reflexivity|]. split; [constructor; [exact Ffresh|discriminate]|]. split.
      * cbn [flatten]. exact Fflat.
      * rewrite size_comp. change (size_cfg (CComp (c :: c2 :: lc''))) with (S (sizel_cfg (c :: c2 :: lc''))). lia.
Qed.

Lemma build_ok : forall c fuel now, (size_cfg c <= fuel)%nat ->
  exists s, build fuel now c = Ok s /\ built_ok c s.
Proof.
  induction c as [n d a|d|l IH] using cfg_ind'; intros fuel now L.
  - eexists. split; [reflexivity|]. repeat split; try constructor.
  - eexists. split; [reflexivity|]. repeat split; try constructor.
  - change (size_cfg (CComp l)) with (S (sizel_cfg l)) in L.
    cbn [build].
    set (go := fix go (l0 : list cfg) : res (list sched) :=
                 match l0 with
                 | [] => Ok []
                 | x :: r => do x' <- build fuel now x;; do r' <- go r;; Ok (x' :: r')
                 end).
    assert (G : forall l0, Forall (fun c => forall fuel now, (size_cfg c <= fuel)%nat ->
                                   exists s, build fuel now c = Ok s /\ built_ok c s) l0 ->
                 (sizel_cfg l0 <= fuel)%nat -> exists l', go l0 = Ok l' /\ Forall2 built_ok l0 l').
    { induction 1 as [|x r Hx Hr IHr]; intros L0; [exists []; split; [reflexivity|constructor]|].
      cbn [sizel_cfg fold_right] in L0. fold (sizel_cfg r) in L0.
      destruct (Hx fuel now ltac:(lia)) as (x' & Ex & Bx).
      destruct (IHr ltac:(lia)) as (r' & Er & Br).
      exists (x' :: r'). cbn [go]. fold go. rewrite Ex. cbn [bind]. rewrite Er. cbn [bind].
      split; [reflexivity|constructor; auto]. }
    destruct (G l IH ltac:(lia)) as (l' & El & Bl). rewrite El. cbn [bind].
    apply new_composite_ok; [exact Bl|lia].
Qed.

(* ---------- whole runs ---------- *)
Fixpoint clock_ok (lo : Z) (ops : list (Z * op)) : Prop :=
  match ops with
  | [] => True
  | (now, _) :: r => lo <= now /\ clock_ok now r
  end.

Inductive rel (lo : Z) : sched -> astate -> Prop :=
| rel_fresh s its f : fresh s ->
    rel lo s {| a_started := false; a_items := its; a_fin := f; a_flat := flatten s |}
| rel_started s its fl : wf s -> started s ->
    drop_closed lo its = drop_closed lo (absp 0 s) ->
    rel lo s {| a_started := true; a_items := its; a_fin := afin 0 s; a_flat := fl |}.

Lemma abs_left_dc now a b : drop_closed now a = drop_closed now b -> abs_left now a = abs_left now b.
Proof. unfold abs_left. intros ->. reflexivity. Qed.

Lemma an_dc_eq now f a b : drop_closed now a = drop_closed now b -> abs_next now f a = abs_next now f b.
Proof. intros H. rewrite (an_dc now f a), (an_dc now f b), H. reflexivity. Qed.

Lemma dc_lift lo now a b : lo <= now -> drop_closed lo a = drop_closed lo b -> drop_closed now a = drop_closed now b.
Proof. intros L H. rewrite <- (dc_mono lo now a L), <- (dc_mono lo now b L), H. reflexivity. Qed.

Definition static_left (fl : list sched) : Z :=
  let its := fst (items_from 0 fl) in
  if existsb is_window its then -1 else Z.of_nat (length its).

Lemma run_abs_left_unstarted now its f fl r :
  run_abs {| a_started := false; a_items := its; a_fin := f; a_flat := fl |} ((now, OLeft) :: r) =
  RLeft (static_left fl) :: run_abs {| a_started := false; a_items := its; a_fin := f; a_flat := fl |} r.
Proof. reflexivity. Qed.

Lemma static_left_fresh s : fresh s -> static_left (flatten s) = statl (flatten s).
Proof.
  intros _. unfold static_left. cbn zeta. rewrite (items_windows _ (flatten_leaves s)). unfold statl.
  destruct (existsb unknown_part (flatten s)) eqn:U; [reflexivity|].
  apply items_length; [apply flatten_leaves|exact U].
Qed.

Lemma run_refines : forall ops fuel lo s a,
  rel lo s a -> clock_ok lo ops -> (size s <= fuel)%nat -> run_tree fuel s ops = run_abs a ops.
Proof.
  induction ops as [|[now o] r IH]; intros fuel lo s a R C L; [reflexivity|].
  destruct C as [Hlo C].
  destruct R as [s its f F|s its fl W S DC].
  - (* not started yet *)
    destruct o as [t| |]; [| |rewrite run_abs_left_unstarted]; cbn [run_tree run_abs a_started a_items a_fin a_flat].
    + destruct (start_fresh s F t) as (s' & E & S' & W' & I').
      rewrite E. f_equal. apply (IH fuel now); auto.
      * unfold a_start. cbn [a_flat]. rewrite <- (I' 0).
        destruct (items_from 0 (flatten s')) as [its' f'] eqn:EI.
        replace f' with (afin 0 s') by (unfold afin; rewrite EI; reflexivity).
        apply rel_started; auto. unfold absp. rewrite EI. reflexivity.
      * rewrite (size_start _ _ _ E). exact L.
    + destruct (next_total fuel now s (fresh_wf s F) L) as (s' & t & ok & E & Sz).
      pose proof (next_sound fuel now now s s' t ok (fresh_wf s F) (or_intror eq_refl) E) as (W' & S' & Fin & A' & AN & DC').
      rewrite E. unfold a_start. cbn [a_flat].
      destruct (items_from now (flatten s)) as [its0 f0] eqn:EI. cbn [a_items a_fin a_flat].
      assert (E1 : its0 = absp now s) by (unfold absp; rewrite EI; reflexivity).
      assert (E2 : f0 = afin now s) by (unfold afin; rewrite EI; reflexivity).
      subst its0 f0. rewrite AN. f_equal.
      apply (IH fuel now); [|exact C|lia].
      replace (afin now s) with (afin 0 s').
      * apply rel_started; auto. rewrite DC'. unfold absp. rewrite (absp_param s' now 0 S'). reflexivity.
      * rewrite <- Fin. unfold afin. rewrite (absp_param s' 0 now S'). reflexivity.
    + rewrite (left_fresh_total fuel now s F L). rewrite (static_left_fresh s F). f_equal.
      apply (IH fuel now); auto. apply rel_fresh; auto.
  - (* started *)
    destruct o as [t| |]; cbn [run_tree run_abs a_started a_items a_fin a_flat].
    + rewrite (start_started t s S). reflexivity.
    + destruct (next_total fuel now s W L) as (s' & t & ok & E & Sz).
      pose proof (next_sound fuel now 0 s s' t ok W (or_introl S) E) as (W' & S' & Fin & A' & AN & DC').
      rewrite E. rewrite (an_dc_eq now (afin 0 s) its (absp 0 s) (dc_lift lo now _ _ Hlo DC)), AN.
      f_equal. rewrite <- Fin. apply (IH fuel now); [|exact C|lia].
      apply rel_started; auto.
    + destruct (left_total fuel now s W S L) as (s' & k & E & Sz).
      pose proof (left_sound fuel now 0 s s' k W S E) as (W' & S' & Fin & K & DC').
      rewrite E. rewrite (abs_left_dc now its (absp 0 s) (dc_lift lo now _ _ Hlo DC)), <- K.
      f_equal. rewrite <- Fin. apply (IH fuel now); [|exact C|lia].
      apply rel_started; auto. rewrite DC'. apply (dc_lift lo now); auto.
Qed.

(* Any configuration, any sequence of Start/Next/Left with a non-decreasing clock: the tree
   built by the constructors never panics, never runs out of fuel and answers exactly as the
   abstract token stream of the flattened configuration. *)
Theorem seq_refines : forall c fuel now0,
  (size_cfg c <= fuel)%nat ->
  exists s, build fuel now0 c = Ok s /\
    forall lo ops, clock_ok lo ops ->
      run_tree fuel s ops = run_abs (a_init (flatten_cfg c)) ops.
Proof.
  intros c fuel now0 L. destruct (build_ok c fuel now0 L) as (s & E & F & Fl & Sz).
  exists s. split; [exact E|]. intros lo ops C.
  apply (run_refines ops fuel lo); [|exact C|lia].
  unfold a_init. rewrite <- Fl. apply rel_fresh. exact F.
Qed.
