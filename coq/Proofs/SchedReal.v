(* Property C01, real-number side: the expression lineDoAt evaluates,
       X = (sqrt(2*a*i + b*b) - b) * (1e9 / a)      (ns),
   read over the real numbers, (1) inverts the integral of the line rate, and (2) its truncation
   is what Model/Sched.v line_at_z computes with the integer square root. So the executable
   integer formula is not a specification in disguise: it is the source expression.
   Uses Coq's Reals (classical axioms, see Print Assumptions in Properties/C01.v). *)
From Coq Require Import ZArith Reals Lra Lia Psatz.
From PV Require Import Model.Sched Proofs.SchedArith.
Local Open Scope R_scope.

(* (1) with rate(x) = a*x + b (x in seconds), the integral over [0,x] is a*x^2/2 + b*x;
       the closed form x = (sqrt(2 a i + b^2) - b)/a is the instant at which it equals i *)
Lemma closed_form_inverts a b i :
  a <> 0 -> 0 <= 2 * a * i + b * b ->
  let x := (sqrt (2 * a * i + b * b) - b) / a in
  a * x * x / 2 + b * x = i.
Proof.
  intros Ha Hr x. subst x.
  set (s := sqrt (2 * a * i + b * b)).
  assert (Hs : s * s = 2 * a * i + b * b) by (apply sqrt_sqrt; exact Hr).
  clearbody s.
  replace i with ((s * s - b * b) / (2 * a)) by (rewrite Hs; field; exact Ha).
  field. exact Ha.
Qed.

(* integer square roots bracket the real one *)
Lemma sqrt_floor_bracket R : (0 <= R)%Z ->
  IZR (Z.sqrt R) <= sqrt (IZR R) < IZR (Z.sqrt R) + 1.
Proof.
  intros HR. pose proof (Z.sqrt_spec R HR) as [H1 H2]. pose proof (Z.sqrt_nonneg R) as H0.
  set (s := Z.sqrt R) in *.
  assert (Hs0 : 0 <= IZR s) by (apply IZR_le; exact H0).
  split.
  - rewrite <- (sqrt_square (IZR s)) by exact Hs0. apply sqrt_le_1_alt.
    rewrite <- mult_IZR. apply IZR_le. exact H1.
  - replace (IZR s + 1) with (IZR (Z.succ s)) by (rewrite succ_IZR; ring).
    assert (Hs1 : 0 <= IZR (Z.succ s)) by (apply IZR_le; lia).
    rewrite <- (sqrt_square (IZR (Z.succ s))) by exact Hs1.
    apply sqrt_lt_1_alt. split; [apply IZR_le; exact HR|].
    rewrite <- mult_IZR. apply IZR_lt. exact H2.
Qed.

Lemma sqrt_ceil_bracket R : (0 <= R)%Z ->
  IZR (csqrt R) - 1 < sqrt (IZR R) <= IZR (csqrt R).
Proof.
  intros HR. pose proof (sqrt_floor_bracket R HR) as [H1 H2].
  pose proof (Z.sqrt_spec R HR) as [Hz1 Hz2]. unfold csqrt.
  destruct (Z.eqb_spec (Z.sqrt R * Z.sqrt R) R) as [E|NE].
  - split; [lra|]. rewrite <- E at 1. rewrite mult_IZR. rewrite sqrt_square; [lra|].
    apply IZR_le. apply Z.sqrt_nonneg.
  - rewrite plus_IZR. split; [|lra].
    (* strict: s < sqrt R because s*s < R *)
    assert (Hlt : (Z.sqrt R * Z.sqrt R < R)%Z) by lia.
    assert (Hs0 : 0 <= IZR (Z.sqrt R)) by (apply IZR_le; apply Z.sqrt_nonneg).
    rewrite <- (sqrt_square (IZR (Z.sqrt R))) at 1 by exact Hs0.
    assert (sqrt (IZR (Z.sqrt R) * IZR (Z.sqrt R)) < sqrt (IZR R)); [|lra].
    apply sqrt_lt_1_alt. split; [apply Rmult_le_pos; exact Hs0|].
    rewrite <- mult_IZR. apply IZR_lt. exact Hlt.
Qed.

Definition billionR : R := 1000000000.

(* the slope and intercept NewLine hands to lineDoAt, for rates fn/M -> tn/M over D ns *)
Definition slopeR (fn tn M D : Z) : R := (IZR tn / IZR M - IZR fn / IZR M) / (IZR D / billionR).
Definition interceptR (fn M : Z) : R := IZR fn / IZR M.

(* the expression of lineDoAt (before the conversion to time.Duration) *)
Definition line_at_R (a b i : R) : R := (sqrt (2 * a * i + b * b) - b) * (billionR / a).

Lemma line_at_R_normal fn tn M D k :
  (0 < M)%Z -> (0 < D)%Z -> (0 <= fn)%Z -> fn <> tn ->
  (0 <= line_radicand_z fn tn M D k)%Z ->
  line_at_R (slopeR fn tn M D) (interceptR fn M) (IZR k) =
  (sqrt (IZR (line_radicand_z fn tn M D k)) - IZR fn * IZR D) / (IZR tn - IZR fn).
Proof.
  intros HM HD Hfn Hne HR.
  assert (HMr : 0 < IZR M) by (apply IZR_lt; exact HM).
  assert (HDr : 0 < IZR D) by (apply IZR_lt; exact HD).
  assert (Hfr : 0 <= IZR fn) by (apply IZR_le; exact Hfn).
  assert (Hner : IZR tn - IZR fn <> 0).
  { intros E. apply Hne. symmetry. apply eq_IZR. lra. }
  unfold line_at_R, slopeR, interceptR, billionR.
  set (R := line_radicand_z fn tn M D k) in *.
  assert (HRr : 0 <= IZR R) by (apply IZR_le; exact HR).
  (* the radicand of the source expression is R / (M D)^2 *)
  assert (Erad : 2 * ((IZR tn / IZR M - IZR fn / IZR M) / (IZR D / 1000000000)) * IZR k
                 + IZR fn / IZR M * (IZR fn / IZR M)
                 = IZR R / ((IZR M * IZR D) * (IZR M * IZR D))).
  { unfold R, line_radicand_z, line_scale_z, ns_per_s.
    rewrite !plus_IZR, !mult_IZR, minus_IZR. field. repeat split; (intro; lra). }
  rewrite Erad.
  assert (Esq : sqrt (IZR R / ((IZR M * IZR D) * (IZR M * IZR D))) = sqrt (IZR R) / (IZR M * IZR D)).
  { assert (HMD : 0 < IZR M * IZR D) by (apply Rmult_lt_0_compat; assumption).
    apply sqrt_lem_1.
    - apply Rmult_le_pos; [exact HRr|]. apply Rlt_le. apply Rinv_0_lt_compat. apply Rmult_lt_0_compat; exact HMD.
    - apply Rmult_le_pos; [apply sqrt_pos|]. apply Rlt_le. apply Rinv_0_lt_compat. exact HMD.
    - unfold Rdiv. replace (sqrt (IZR R) * / (IZR M * IZR D) * (sqrt (IZR R) * / (IZR M * IZR D)))
        with ((sqrt (IZR R) * sqrt (IZR R)) * (/ (IZR M * IZR D) * / (IZR M * IZR D))) by ring.
      rewrite sqrt_sqrt by exact HRr. rewrite <- Rinv_mult. reflexivity. }
  rewrite Esq. field. repeat split; (intro; lra).
Qed.

Lemma div_bracket_R n d q : 0 < d -> q * d <= n -> n < (q + 1) * d -> q <= n / d < q + 1.
Proof.
  intros Hd H1 H2. assert (Hd0 : d <> 0) by (apply Rgt_not_eq; lra).
  assert (Hi : 0 < / d) by (apply Rinv_0_lt_compat; lra).
  split.
  - replace q with (q * d / d) at 1 by (field; exact Hd0). unfold Rdiv.
    apply Rmult_le_compat_r; [lra|exact H1].
  - replace (q + 1) with ((q + 1) * d / d) by (field; exact Hd0). unfold Rdiv.
    apply Rmult_lt_compat_r; [exact Hi|exact H2].
Qed.

(* (2) the integer formula of the model is the truncation of the real-number expression *)
Theorem line_at_z_is_trunc fn tn M D k x :
  (0 < M)%Z -> (0 < D)%Z -> (0 <= fn)%Z -> (0 <= tn)%Z -> fn <> tn -> (0 <= k)%Z ->
  line_at_z fn tn M D k = Some x ->
  let X := line_at_R (slopeR fn tn M D) (interceptR fn M) (IZR k) in
  IZR x <= X < IZR x + 1.
Proof.
  intros HM HD Hfn Htn Hne Hk Hat X. unfold line_at_z in Hat.
  set (R := line_radicand_z fn tn M D k) in *.
  destruct (Z.ltb_spec R 0) as [|HR]; [discriminate|].
  subst X. rewrite line_at_R_normal by assumption. fold R.
  destruct (Z.ltb_spec fn tn) as [Hlt|Hge]; injection Hat as <-.
  - (* increasing *)
    destruct (sqrt_floor_bracket R HR) as [H1 H2].
    set (s := Z.sqrt R) in *. set (Dl := (tn - fn)%Z).
    assert (HDl : (0 < Dl)%Z) by (unfold Dl; lia).
    assert (Hq1 : (Dl * ((s - fn * D) / Dl) <= s - fn * D)%Z) by (apply Z.mul_div_le; exact HDl).
    assert (Hq2 : (s - fn * D < Dl * Z.succ ((s - fn * D) / Dl))%Z) by (apply Z.mul_succ_div_gt; exact HDl).
    set (q := ((s - fn * D) / Dl)%Z) in *.
    assert (Hq3 : (s - fn * D + 1 <= Dl * Z.succ q)%Z) by lia. clear Hq2. rename Hq3 into Hq2.
    apply IZR_le in Hq1. apply IZR_le in Hq2.
    rewrite mult_IZR, minus_IZR, mult_IZR in Hq1. rewrite mult_IZR, succ_IZR, plus_IZR, minus_IZR, mult_IZR in Hq2.
    assert (HDlr : 0 < IZR tn - IZR fn) by (rewrite <- minus_IZR; apply IZR_lt; exact HDl).
    unfold Dl in *. rewrite minus_IZR in Hq1, Hq2.
    apply div_bracket_R; [exact HDlr|rewrite Rmult_comm; lra|rewrite (Rmult_comm (IZR q + 1)); lra].
  - (* decreasing: (sqrt R - fn D)/(tn - fn) = (fn D - sqrt R)/(fn - tn) *)
    destruct (sqrt_ceil_bracket R HR) as [H1 H2].
    set (c := csqrt R) in *. set (Dm := (fn - tn)%Z).
    assert (HDm : (0 < Dm)%Z) by (unfold Dm; lia).
    assert (Hq1 : (Dm * ((fn * D - c) / Dm) <= fn * D - c)%Z) by (apply Z.mul_div_le; exact HDm).
    assert (Hq2 : (fn * D - c < Dm * Z.succ ((fn * D - c) / Dm))%Z) by (apply Z.mul_succ_div_gt; exact HDm).
    set (q := ((fn * D - c) / Dm)%Z) in *.
    assert (Hq3 : (fn * D - c + 1 <= Dm * Z.succ q)%Z) by lia. clear Hq2. rename Hq3 into Hq2.
    apply IZR_le in Hq1. apply IZR_le in Hq2.
    rewrite mult_IZR, minus_IZR, mult_IZR in Hq1. rewrite mult_IZR, succ_IZR, plus_IZR, minus_IZR, mult_IZR in Hq2.
    assert (HDmr : 0 < IZR fn - IZR tn) by (rewrite <- minus_IZR; apply IZR_lt; exact HDm).
    unfold Dm in *. rewrite minus_IZR in Hq1, Hq2.
    replace ((sqrt (IZR R) - IZR fn * IZR D) / (IZR tn - IZR fn))
      with ((IZR fn * IZR D - sqrt (IZR R)) / (IZR fn - IZR tn)) by (field; split; intro; lra).
    apply div_bracket_R; [exact HDmr|rewrite Rmult_comm; lra|rewrite (Rmult_comm (IZR q + 1)); lra].
Qed.

(* the same for the model's line_at over rational rates from = fn/M, to = tn/M *)
From Coq Require Import QArith.
From PV Require Import Proofs.SchedQ Proofs.SchedProofs.

Theorem line_at_is_trunc (f t : Q) (D k x : Z) :
  valid (PLine f t D) -> ~ (f == t)%Q -> (0 <= k)%Z -> line_at f t D k = Some x ->
  let X := line_at_R (slopeR (rn_from f t) (rn_to f t) (rn_den f t) D)
                     (interceptR (rn_from f t) (rn_den f t)) (IZR k) in
  (IZR x <= X < IZR x + 1)%R.
Proof.
  intros (Hf & Ht & HD) Hne Hk Hat. apply min_dur_pos in HD.
  destruct (rn_nonneg f t Hf Ht) as [Hfn Htn]. rewrite Qeq_rn in Hne.
  apply line_at_z_is_trunc; try assumption. unfold rn_den. lia.
Qed.
