(* strconv.Atoi inverts decimal rendering. *)
From Coq Require Import List NArith ZArith Bool Lia.
From PV Require Import Lib.AmmoBytes Lib.AmmoDecimal Proofs.AmmoBytesProofs.
Import ListNotations.

Lemma digits_val_app x y a :
  digits_val a (x ++ y) = match digits_val a x with Some v => digits_val v y | None => None end.
Proof.
  revert a; induction x as [|c x IH]; intros a; [reflexivity|].
  cbn [app digits_val]. destruct (is_digit c); [apply IH|reflexivity].
Qed.

Lemma is_digit_48 m : (m < 10)%N -> is_digit (48 + m) = true.
Proof. intros H. unfold is_digit. apply andb_true_intro. split; apply N.leb_le; lia. Qed.

Lemma is_digit_not_sp c : is_digit c = true -> N.eqb c SP = false.
Proof.
  unfold is_digit, SP. intros H. apply andb_prop in H. destruct H as [H1 H2].
  apply N.leb_le in H1. apply N.eqb_neq. lia.
Qed.

Lemma dec_aux_S f n acc :
  dec_aux (S f) n acc =
    if N.eqb (n / 10) 0 then (48 + n mod 10)%N :: acc else dec_aux f (n / 10)%N ((48 + n mod 10)%N :: acc).
Proof. reflexivity. Qed.

(* what dec_aux produces: digits in front of the accumulator, whose value is n *)
Lemma dec_aux_spec f : forall n acc,
  (n < 2 ^ N.of_nat (S f))%N ->
  exists ds, dec_aux (S f) n acc = ds ++ acc /\ ds <> [] /\ forallb is_digit ds = true /\
    forall a, digits_val a ds = Some (a * 10 ^ Z.of_nat (length ds) + Z.of_N n)%Z.
Proof.
  induction f as [|f IH]; intros n acc Hn.
  - (* n < 2 *)
    assert (Hn' : (n < 2)%N) by (cbn in Hn; lia).
    rewrite dec_aux_S.
    assert (Hq : (n / 10 = 0)%N) by (apply N.div_small; lia).
    assert (Hm : (n mod 10 = n)%N) by (apply N.mod_small; lia).
    rewrite Hq, Hm. cbn [N.eqb].
    exists [(48 + n)%N]. split; [reflexivity|]. split; [discriminate|].
    split; [cbn [forallb]; rewrite is_digit_48 by lia; reflexivity|].
    intros a. cbn [digits_val length]. rewrite is_digit_48 by lia.
    f_equal. change (10 ^ Z.of_nat 1)%Z with 10%Z. lia.
  - rewrite dec_aux_S.
    pose proof (N.div_mod n 10 ltac:(lia)) as Hdm.
    pose proof (N.mod_lt n 10 ltac:(lia)) as Hml.
    set (q := (n / 10)%N) in *. set (m := (n mod 10)%N) in *.
    destruct (N.eqb_spec q 0) as [Hq|Hq].
    + exists [(48 + m)%N]. split; [reflexivity|]. split; [discriminate|].
      split; [cbn [forallb]; rewrite is_digit_48 by lia; reflexivity|].
      intros a. cbn [digits_val length]. rewrite is_digit_48 by lia.
      f_equal. change (10 ^ Z.of_nat 1)%Z with 10%Z. lia.
    + assert (Hqb : (q < 2 ^ N.of_nat (S f))%N).
      { assert (H2 : (2 ^ N.of_nat (S (S f)) = 2 * 2 ^ N.of_nat (S f))%N).
        { rewrite (Nat2N.inj_succ (S f)). apply N.pow_succ_r'. }
        rewrite H2 in Hn. lia. }
      destruct (IH q ((48 + m)%N :: acc) Hqb) as [ds [E [Hne [Hd Hv]]]].
      exists (ds ++ [(48 + m)%N]). split; [rewrite E, <- app_assoc; reflexivity|].
      split; [destruct ds; discriminate|].
      split; [rewrite forallb_app, Hd; cbn [forallb]; rewrite is_digit_48 by lia; reflexivity|].
      intros a. rewrite digits_val_app, Hv. cbn [digits_val]. rewrite is_digit_48 by lia.
      f_equal. rewrite app_length. cbn [length]. rewrite Nat.add_1_r, Nat2Z.inj_succ, Z.pow_succ_r by lia.
      lia.
Qed.

Lemma dec_spec n :
  exists ds, dec n = ds /\ ds <> [] /\ forallb is_digit ds = true /\
    digits_val 0 ds = Some (Z.of_N n).
Proof.
  unfold dec.
  assert (Hn : (n < 2 ^ N.of_nat (S (N.to_nat (N.size n))))%N).
  { rewrite Nat2N.inj_succ, N2Nat.id, N.pow_succ_r'.
    destruct n as [|p]; [cbn; lia|]. pose proof (N.size_gt (N.pos p)). lia. }
  destruct (dec_aux_spec _ n [] Hn) as [ds [E [Hne [Hd Hv]]]].
  exists ds. rewrite E, app_nil_r. split; [reflexivity|]. split; [exact Hne|]. split; [exact Hd|].
  rewrite Hv. f_equal.
Qed.

Lemma dec_digits n : forallb is_digit (dec n) = true.
Proof. destruct (dec_spec n) as [ds [-> [_ [H _]]]]. exact H. Qed.

Lemma dec_nonempty n : dec n <> [].
Proof. destruct (dec_spec n) as [ds [-> [H _]]]. exact H. Qed.

Lemma atoi_dec n : (Z.of_N n <= max_int)%Z -> atoi (dec n) = Some (Z.of_N n).
Proof.
  intros Hr. destruct (dec_spec n) as [ds [E [Hne [Hd Hv]]]]. rewrite E.
  unfold atoi. destruct ds as [|c r]; [contradiction|].
  cbn [forallb] in Hd. apply andb_prop in Hd. destruct Hd as [Hc _].
  unfold is_digit in Hc. apply andb_prop in Hc. destruct Hc as [H1 H2].
  apply N.leb_le in H1, H2.
  destruct (N.eqb_spec c 45) as [->|_]; [lia|].
  destruct (N.eqb_spec c 43) as [->|_]; [lia|].
  rewrite Hv.
  assert (Hlo : (min_int <=? Z.of_N n)%Z = true) by (apply Z.leb_le; unfold min_int; lia).
  assert (Hhi : (Z.of_N n <=? max_int)%Z = true) by (apply Z.leb_le; exact Hr).
  rewrite Hlo, Hhi. reflexivity.
Qed.

Lemma digits_no c ds : forallb is_digit ds = true -> is_digit c = false -> has c ds = false.
Proof.
  intros H Hc. induction ds as [|d ds IH]; [reflexivity|].
  cbn [forallb] in H. apply andb_prop in H. destruct H as [Hd Hr].
  cbn [has]. rewrite IH by exact Hr.
  destruct (N.eqb_spec d c) as [->|]; [congruence|reflexivity].
Qed.
