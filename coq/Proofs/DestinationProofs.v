(* Lemmas about result destinations (property C06): what a file / a shared stream holds after
   the aggregator's Run returned, for every history of the queue model. *)
From Coq Require Import List NArith ZArith Bool Lia.
From PV Require Import Lib.Decimal Model.Phout Model.Aggregator Model.Destination
  Proofs.PhoutProofs Proofs.AggregatorProofs.
Import ListNotations.
Local Open Scope N_scope.

(* ---------- prefixes ---------- *)

Lemma strip_prefix_app p l : strip_prefix p (p ++ l) = Some l.
Proof. induction p as [|x p IH]; cbn [app strip_prefix]; [reflexivity|]. rewrite N.eqb_refl. exact IH. Qed.

Lemma strip_prefix_sound p : forall l r, strip_prefix p l = Some r -> l = p ++ r.
Proof.
  induction p as [|x p IH]; intros l r H.
  - cbn in H. injection H as <-. reflexivity.
  - destruct l as [|y l]; [discriminate|]. cbn [strip_prefix] in H.
    destruct (N.eqb_spec x y) as [->|]; [|discriminate]. cbn [app]. f_equal. apply IH. exact H.
Qed.

Lemma this_run_content {A} d old (s : st A) : this_run d old (content d old s) = Some (sink s).
Proof. destruct d; unfold this_run, content, opened; [reflexivity|apply strip_prefix_app]. Qed.

(* what [this_run] accepts is the earlier content of the destination (nothing for a file that
   was truncated, everything for a stream) followed by what it returns *)
Lemma this_run_sound d old obs r : this_run d old obs = Some r -> obs = opened d old ++ r.
Proof.
  destruct d; unfold this_run, opened; intros H; [injection H as <-; reflexivity|].
  apply strip_prefix_sound. exact H.
Qed.

(* ---------- the destination after Run ---------- *)

Section DestProofs.
  Variable A : Type.
  Variable enc : A -> option (list N).
  Variable k : kind.
  Variable Q : nat.

  (* C06_destination_complete *)
  Theorem destination_complete d old h s :
    run A enc k Q (init A) h = Some s ->
    reports_first A false h = true ->
    Forall (enc_ok A enc) (reports_of A h) ->
    ph s = Done ->
    content d old s = opened d old ++ enc_all A enc (acc_log s)
    /\ this_run d old (content d old s) = Some (enc_all A enc (acc_log s))
    /\ buf s = [] /\ queue s = []
    /\ N.of_nat (length (acc_log s)) + dropped s = N.of_nat (length (reports_of A h))
    /\ (k = Blocking -> acc_log s = reports_of A h).
  Proof.
    intros H Ho He Hd.
    destruct (queue_complete A enc k Q h s H Ho He Hd) as (Es & Eb & Eq & _ & _ & _ & En & Ebl & _).
    split; [unfold content; rewrite Es; reflexivity|].
    split; [rewrite this_run_content, Es; reflexivity|].
    split; [exact Eb|]. split; [exact Eq|]. split; [exact En|].
    intros K. destruct (Ebl K) as [E _]. exact E.
  Qed.
End DestProofs.

(* ---------- phout lines in a destination ---------- *)

Lemma all_some_app {T} (a b : list (option T)) x y :
  all_some a = Some x -> all_some b = Some y -> all_some (a ++ b) = Some (x ++ y).
Proof.
  revert x. induction a as [|o a IH]; intros x Ha Hb.
  - cbn in Ha. injection Ha as <-. exact Hb.
  - cbn [all_some app] in *. destruct o as [v|]; [|discriminate].
    destruct (all_some a) as [xs|]; [|discriminate]. injection Ha as <-.
    rewrite (IH xs eq_refl Hb). reflexivity.
Qed.

Lemma split_lines_concat a : forall acc b la lb,
  split_lines acc a = Some la -> split_lines [] b = Some lb -> split_lines acc (a ++ b) = Some (la ++ lb).
Proof.
  induction a as [|c a IH]; intros acc b la lb Ha Hb.
  - cbn [split_lines] in Ha. destruct acc; [|discriminate]. injection Ha as <-. exact Hb.
  - cbn [app split_lines] in *. destruct (c =? LF).
    + destruct (split_lines [] a) as [ls|] eqn:E; [|discriminate]. injection Ha as <-.
      rewrite (IH [] b ls lb E Hb). reflexivity.
    + apply IH; assumption.
Qed.

Lemma parse_file_app withid a b x y :
  parse_file withid a = Some x -> parse_file withid b = Some y -> parse_file withid (a ++ b) = Some (x ++ y).
Proof.
  unfold parse_file. intros Ha Hb.
  destruct (split_lines [] a) as [la|] eqn:Ea; [|discriminate].
  destruct (split_lines [] b) as [lb|] eqn:Eb; [|discriminate].
  rewrite (split_lines_concat a [] b la lb Ea Eb). rewrite map_app. apply all_some_app; assumption.
Qed.

Lemma phout_enc_ok withid s : sample_ok s = true -> phout_enc withid s = Some (line_of withid s ++ [LF]).
Proof. intros H. unfold phout_enc. destruct (line_roundtrip withid s H) as (E & _ & _). rewrite E. reflexivity. Qed.

Lemma phout_enc_all_parse withid ss : forallb sample_ok ss = true ->
  parse_file withid (enc_all psample (phout_enc withid) ss) = Some (map (norm withid) ss).
Proof.
  induction ss as [|s r IH]; intros H; [reflexivity|].
  cbn [forallb] in H. apply andb_prop in H. destruct H as [Hs Hr].
  unfold enc_all. cbn [flat_map]. rewrite (phout_enc_ok withid s Hs).
  replace ((line_of withid s ++ [LF]) ++ flat_map (fun x => match phout_enc withid x with Some b => b | None => [] end) r)
    with ((line_of withid s ++ [LF]) ++ enc_all psample (phout_enc withid) r) by reflexivity.
  apply (parse_file_app withid (line_of withid s ++ [LF]) _ [norm withid s] (map (norm withid) r)); [|exact (IH Hr)].
  destruct (line_roundtrip withid s Hs) as (_ & E2 & E3).
  unfold parse_file. replace (line_of withid s ++ [LF]) with (line_of withid s ++ LF :: []) by reflexivity.
  rewrite split_lines_app by exact E3. cbn [split_lines]. rewrite app_nil_r, rev_involutive.
  cbn [map all_some]. rewrite E2. reflexivity.
Qed.

(* C06_destination_lines: phout (blocking queue, the real line encoder), every destination kind,
   every earlier content of a stream that consists of complete lines: after Run the destination
   parses, line by line, to the earlier lines (stream) / nothing (file) followed by exactly the
   reported samples, each once, in queue order. *)
Theorem destination_lines withid Q d old olds h s :
  run psample (phout_enc withid) Blocking Q (init psample) h = Some s ->
  reports_first psample false h = true ->
  forallb sample_ok (reports_of psample h) = true ->
  ph s = Done ->
  parse_file withid old = Some olds ->
  parse_file withid (content d old s)
  = Some ((match d with DFile => [] | DStream => olds end) ++ map (norm withid) (reports_of psample h)).
Proof.
  intros H Ho Hs Hd Hold.
  assert (He : Forall (enc_ok psample (phout_enc withid)) (reports_of psample h)).
  { rewrite Forall_forall. intros x Hx. rewrite forallb_forall in Hs. unfold enc_ok.
    rewrite (phout_enc_ok withid x (Hs x Hx)). discriminate. }
  destruct (destination_complete psample (phout_enc withid) Blocking Q d old h s H Ho He Hd) as (Ec & _ & _ & _ & _ & Ebl).
  rewrite Ec, (Ebl eq_refl).
  apply parse_file_app; [|apply phout_enc_all_parse; exact Hs].
  destruct d; [reflexivity|exact Hold].
Qed.

(* the configuration of the source: phout without a destination writes to the shared stream *)
Lemma phout_dest_default : phout_dest [] = DStream /\ forall c r, phout_dest (c :: r) = DFile.
Proof. split; reflexivity. Qed.

(* A destination that lacks the final flush is rejected by the specification side: if the
   observed stream is the earlier content plus a proper prefix of what was accepted, the part
   of this run is not the encoding of the accepted samples. *)
Lemma this_run_detects_missing_tail d old written rest :
  rest <> [] -> this_run d old (opened d old ++ written) <> Some (written ++ rest).
Proof.
  intros Hr H. assert (E : this_run d old (opened d old ++ written) = Some written).
  { destruct d; unfold this_run, opened; [reflexivity|apply strip_prefix_app]. }
  rewrite E in H. injection H as H. apply Hr.
  assert (L : length written = length (written ++ rest)) by (rewrite <- H; reflexivity).
  rewrite app_length in L. destruct rest; [reflexivity|cbn in L; lia].
Qed.

(* ---------- at any moment; a failing destination ---------- *)

Lemma prefix_b_app p r : prefix_b p (p ++ r) = true.
Proof. induction p as [|x p IH]; [reflexivity|]. cbn [app prefix_b]. rewrite N.eqb_refl. exact IH. Qed.

Lemma prefix_b_sound p : forall l, prefix_b p l = true -> exists r, l = p ++ r.
Proof.
  induction p as [|x p IH]; intros l H; [exists l; reflexivity|].
  destruct l as [|y l]; [discriminate|]. cbn [prefix_b] in H. apply andb_prop in H. destruct H as [E H].
  apply N.eqb_eq in E. subst y. destruct (IH l H) as (r & ->). exists r. reflexivity.
Qed.

(* C06_written_is_prefix_always: in EVERY state an execution reaches (not only when Run has returned -
   at any instant at which the process may be stopped), whatever the destination holds, and whatever
   a destination that failed after n bytes holds, is a prefix of the encodings of the accepted samples
   in queue order: no foreign byte, nothing twice, nothing out of order; what is missing is exactly
   what is still buffered or queued. *)
Theorem written_is_prefix_always (A : Type) (enc : A -> option (list N)) (k : kind) (Q : nat) d old h s n :
  run A enc k Q (init A) h = Some s ->
  reports_first A false h = true ->
  Forall (enc_ok A enc) (reports_of A h) ->
  enc_all A enc (acc_log s) = sink s ++ buf s ++ enc_all A enc (queue s)
  /\ (exists rest, opened d old ++ enc_all A enc (acc_log s) = content d old s ++ rest)
  /\ prefix_b (failing n (sink s)) (enc_all A enc (acc_log s)) = true.
Proof.
  intros H Ho He.
  pose proof (run_inv A enc k Q h (init A) s H (inv_init A enc k Q) Ho He) as I.
  pose proof (inv_bytes A enc k Q s I) as Eb.
  split; [exact Eb|]. split.
  - exists (buf s ++ enc_all A enc (queue s)). unfold content. rewrite Eb, <- app_assoc. reflexivity.
  - rewrite Eb. unfold failing. rewrite <- (firstn_skipn n (sink s)) at 2. rewrite <- app_assoc. apply prefix_b_app.
Qed.
