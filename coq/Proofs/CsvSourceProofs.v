(* Proofs about the file/csv variable source (Model/CsvSource.v): for every valid delimiter the reader
   inverts the printer, so the source holds exactly the cells of the file under the configured names. *)
From Coq Require Import List NArith Bool Lia.
From PV Require Import Lib.Decimal Model.Scenario Model.CsvSource Proofs.ScenarioParseProofs.
Import ListNotations.

Lemma negb_eqb_neq a b : negb (N.eqb a b) = true -> a <> b.
Proof. destruct (N.eqb_spec a b); [discriminate|auto]. Qed.

Lemma clean_cell_notin d c x :
  clean_cell d c = true -> (x = d \/ x = c_nl \/ x = c_cr \/ x = c_quote) -> ~ In x c.
Proof.
  unfold clean_cell. intros H Hx Hin.
  rewrite forallb_forall in H. specialize (H x Hin).
  repeat (apply andb_prop in H; destruct H as [H ?]).
  apply negb_eqb_neq in H.
  repeat match goal with h : negb _ = true |- _ => apply negb_eqb_neq in h end.
  destruct Hx as [->| [->| [->| ->]]]; congruence.
Qed.

Lemma valid_delim_neq d : valid_delim d = true -> d <> c_quote /\ d <> c_cr /\ d <> c_nl.
Proof.
  unfold valid_delim. intros H.
  repeat (apply andb_prop in H; destruct H as [H ?]).
  repeat match goal with h : negb _ = true |- _ => apply negb_eqb_neq in h end.
  auto.
Qed.

(* a byte that is neither the delimiter nor inside a cell is not in the printed line *)
Lemma join_notin d x l :
  x <> d -> Forall (fun c => ~ In x c) l -> ~ In x (join_cells d l).
Proof.
  intros Hd H. induction H as [|c l Hc Hl IH]; [intros []|].
  destruct l as [|c2 l]; [exact Hc|].
  change (join_cells d (c :: c2 :: l)) with (c ++ d :: join_cells d (c2 :: l)).
  intros Hin. apply in_app_or in Hin. destruct Hin as [Hin|[E|Hin]]; [auto|congruence|auto].
Qed.

Lemma line_cells d w l : line_ok d w l = true ->
  length l = w /\ Forall (fun c => clean_cell d c = true) l /\ join_cells d l <> [].
Proof.
  unfold line_ok. intros H.
  apply andb_prop in H. destruct H as [H Hn]. apply andb_prop in H. destruct H as [Hw Hc].
  split; [apply PeanoNat.Nat.eqb_eq, Hw|]. split.
  - apply Forall_forall. rewrite forallb_forall in Hc. exact Hc.
  - destruct (join_cells d l); [discriminate|discriminate].
Qed.

Lemma line_notin d w l x : valid_delim d = true -> line_ok d w l = true ->
  (x = c_nl \/ x = c_cr \/ x = c_quote) -> ~ In x (join_cells d l).
Proof.
  intros Hv Hl Hx. destruct (valid_delim_neq d Hv) as (Hq & Hc & Hn).
  destruct (line_cells d w l Hl) as (_ & Hcl & _).
  apply join_notin.
  - destruct Hx as [->| [->| ->]]; congruence.
  - eapply Forall_impl; [|exact Hcl]. intros c Hcc. apply (clean_cell_notin d c x Hcc). tauto.
Qed.

(* the reader splits a printed line back into its cells *)
Lemma split_join d l :
  l <> [] -> Forall (fun c => ~ In d c) l -> split d (join_cells d l) = l.
Proof.
  intros Hne H. induction H as [|c l Hc Hl IH]; [congruence|].
  destruct l as [|c2 l]; [apply split_none, Hc|].
  change (join_cells d (c :: c2 :: l)) with (c ++ d :: join_cells d (c2 :: l)).
  rewrite split_app by exact Hc. f_equal. apply IH. discriminate.
Qed.

Lemma strip_cr_id l : ~ In c_cr l -> strip_cr l = l.
Proof.
  intros H. unfold strip_cr. destruct (rev l) as [|c r] eqn:E; [reflexivity|].
  destruct (N.eqb_spec c c_cr) as [->|]; [|reflexivity].
  exfalso. apply H. apply in_rev. rewrite E. left. reflexivity.
Qed.

Lemma split_print d w lines :
  valid_delim d = true -> forallb (line_ok d w) lines = true ->
  split c_nl (print_csv d lines) = map (join_cells d) lines ++ [[]].
Proof.
  intros Hv. induction lines as [|l ls IH]; intros H; [reflexivity|].
  cbn [forallb] in H. apply andb_prop in H. destruct H as [Hl Hls].
  unfold print_csv. cbn [map concat]. rewrite <- app_assoc. cbn [app].
  rewrite split_app by (apply (line_notin d w l c_nl Hv Hl); tauto).
  cbn [map app]. f_equal. apply IH, Hls.
Qed.

Lemma csv_lines_print d w lines :
  valid_delim d = true -> forallb (line_ok d w) lines = true ->
  csv_lines (print_csv d lines) = map (join_cells d) lines.
Proof.
  intros Hv H. unfold csv_lines. rewrite (split_print d w lines Hv H).
  rewrite map_app, filter_app. cbn [map filter strip_cr rev is_nil negb]. rewrite app_nil_r.
  induction lines as [|l ls IH]; [reflexivity|].
  cbn [forallb] in H. apply andb_prop in H. destruct H as [Hl Hls].
  cbn [map filter]. rewrite strip_cr_id by (apply (line_notin d w l c_cr Hv Hl); tauto).
  destruct (line_cells d w l Hl) as (_ & _ & Hne).
  destruct (join_cells d l) eqn:E; [congruence|]. cbn [is_nil negb]. f_equal. apply IH, Hls.
Qed.

Lemma existsb_quote_false l : ~ In c_quote l -> existsb (N.eqb c_quote) l = false.
Proof.
  intros H. destruct (existsb (N.eqb c_quote) l) eqn:E; [|reflexivity].
  apply existsb_exists in E. destruct E as (x & Hin & Hx). apply N.eqb_eq in Hx. subst x. contradiction.
Qed.

Lemma read_records_print d w lines want :
  valid_delim d = true -> forallb (line_ok d w) lines = true ->
  (want = None \/ want = Some w) ->
  read_records d want (map (join_cells d) lines) = RdOk lines.
Proof.
  intros Hv. revert want. induction lines as [|l ls IH]; intros want H Hw; [reflexivity|].
  cbn [forallb] in H. apply andb_prop in H. destruct H as [Hl Hls].
  cbn [map read_records].
  rewrite existsb_quote_false by (apply (line_notin d w l c_quote Hv Hl); tauto).
  destruct (line_cells d w l Hl) as (Hlen & Hcl & Hne).
  assert (Hsp : split d (join_cells d l) = l).
  { apply split_join.
    - intros ->. apply Hne. reflexivity.
    - eapply Forall_impl; [|exact Hcl]. intros c Hc. apply (clean_cell_notin d c d Hc). tauto. }
  rewrite Hsp.
  assert (Hgo : read_records d (Some (match want with Some n => n | None => length l end)) (map (join_cells d) ls) = RdOk ls).
  { apply IH; [exact Hls|]. right. destruct Hw as [->| ->]; [rewrite Hlen|]; reflexivity. }
  rewrite Hgo. destruct Hw as [->| ->]; [reflexivity|].
  rewrite Hlen, PeanoNat.Nat.eqb_refl. reflexivity.
Qed.

Lemma rows_go_named fields recs :
  fields <> [] -> rows_go fields false recs = map (fun l => mk_row fields 0 l []) recs.
Proof.
  intros Hf. induction recs as [|rc rest IH]; [reflexivity|].
  cbn [rows_go map]. destruct fields as [|f fs]; [congruence|]. f_equal. exact IH.
Qed.

Lemma rows_go_spec fields ignore lines :
  Forall (fun l => l <> []) lines ->
  rows_go (map under fields) ignore lines = csv_spec fields ignore lines.
Proof.
  intros Hne. unfold csv_spec. destruct fields as [|f fs].
  - cbn [map]. destruct lines as [|h t]; [destruct ignore; reflexivity|].
    cbn [rows_go]. inversion Hne as [|? ? Hh Ht]; subst.
    assert (Hu : map under h <> []) by (destruct h; [congruence|discriminate]).
    destruct ignore; cbn [tl map]; [apply rows_go_named, Hu|].
    f_equal. apply rows_go_named, Hu.
  - assert (Hu : map under (f :: fs) <> []) by discriminate.
    destruct lines as [|h t]; [destruct ignore; reflexivity|].
    cbn [rows_go]. destruct (map under (f :: fs)) as [|u us] eqn:E; [congruence|].
    destruct ignore; cbn [tl map]; [apply rows_go_named; discriminate|].
    f_equal. apply rows_go_named; discriminate.
Qed.

(* the csv source holds the cells of the file, whatever valid delimiter the option names *)
Theorem csv_source_correct d w lines dopt fields ignore :
  valid_delim d = true -> (d < 128)%N -> comma_of dopt = d ->
  forallb (line_ok d w) lines = true ->
  read_csv {| co_delim := dopt; co_fields := fields; co_ignore := ignore |} (print_csv d lines)
  = CsvOk (csv_spec fields ignore lines).
Proof.
  intros Hv Hd Hc H. unfold read_csv, read_csv_with. cbn [co_delim co_fields co_ignore]. rewrite Hc.
  destruct (N.leb_spec 128 d); [lia|]. rewrite Hv. cbn [negb].
  rewrite (csv_lines_print d w lines Hv H), (read_records_print d w lines None Hv H) by (left; reflexivity).
  f_equal. apply rows_go_spec.
  apply Forall_forall. intros l Hin. rewrite forallb_forall in H.
  destruct (line_cells d w l (H l Hin)) as (_ & _ & Hne). intros ->. apply Hne. reflexivity.
Qed.


(* ---- what a row gives for a field name ---- *)
From PV Require Import Model.Iterator Proofs.IteratorProofs.

Lemma beq_false_of_neq a b : a <> b -> beq a b = false.
Proof. intros H. unfold beq. destruct (seg_eqb a b) eqn:E; [apply seg_eqb_true in E; contradiction|reflexivity]. Qed.

Lemma beq_refl a : beq a a = true.
Proof. unfold beq. apply seg_eqb_refl'. Qed.

Lemma row_set_get acc k v k' :
  row_get (row_set acc k v) k' = if beq k k' then Some v else row_get acc k'.
Proof.
  unfold row_get. induction acc as [|[a b] r IH]; cbn [row_set assoc]; [reflexivity|].
  destruct (beq a k) eqn:E.
  - unfold beq in E. apply seg_eqb_true in E. subst a. cbn [assoc]. destruct (beq k k'); reflexivity.
  - cbn [assoc]. destruct (beq a k') eqn:E2; [|exact IH].
    unfold beq in E2. apply seg_eqb_true in E2. subst a.
    destruct (beq k k') eqn:E3; [|reflexivity].
    unfold beq in E3. apply seg_eqb_true in E3. subst k'. rewrite beq_refl in E. discriminate.
Qed.

Lemma mk_row_other fields : forall i rc acc k,
  Forall (fun f => f <> []) fields -> ~ In k fields ->
  row_get (mk_row fields i rc acc) k = row_get acc k.
Proof.
  induction fields as [|f fs IH]; intros i rc acc k Hne Hin; [reflexivity|].
  inversion Hne as [|? ? Hf Hfs]; subst. cbn [mk_row].
  destruct f as [|c f']; [congruence|].
  rewrite IH by (auto; intros X; apply Hin; right; exact X).
  rewrite row_set_get, beq_false_of_neq; [reflexivity|]. intros E. apply Hin. left. exact E.
Qed.

(* distinct non-empty names: the j-th name maps to the j-th cell of the line ("" past its end) *)
Theorem mk_row_nth fields : forall i rc acc j k,
  Forall (fun f => f <> []) fields -> NoDup fields -> nth_error fields j = Some k ->
  row_get (mk_row fields i rc acc) k = Some (nth j rc []).
Proof.
  induction fields as [|f fs IH]; intros i rc acc j k Hne Hnd Hj; [destruct j; discriminate|].
  inversion Hne as [|? ? Hf Hfs]; subst. inversion Hnd as [|? ? Hnotin Hnd']; subst.
  cbn [mk_row]. destruct f as [|c f']; [congruence|].
  destruct j as [|j]; cbn [nth_error] in Hj.
  - injection Hj as <-. rewrite mk_row_other by assumption. rewrite row_set_get, beq_refl.
    destruct rc; reflexivity.
  - rewrite (IH _ _ _ j k Hfs Hnd' Hj). destruct rc; [destruct j; reflexivity|reflexivity].
Qed.
