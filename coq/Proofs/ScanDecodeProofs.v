(* Lemmas about the decode provider on the scan decoder (Model/ScanDecode.v). *)
From Coq Require Import List Arith Bool Lia.
From PV Require Import Model.ScanDecode.
Import ListNotations.

Lemma dp_run_skip : forall fuel v r e d, dp_run fuel v (CkSkip :: r) e d = dp_run fuel v r e d.
Proof. intros [|f] v r e d; reflexivity. Qed.

(* the repaired decoder: the provider stops after at most one call per chunk plus one, fails exactly when something is
   wrong with the input, and has handed out exactly the ammo before the first broken chunk *)
Lemma dp_run_fixed_spec : forall l e fuel d,
  length l < fuel ->
  dp_run fuel sd_fixed l e d = (if sd_spec_fails l e then PFail else PNil, d + sd_spec_delivered l).
Proof.
  induction l as [|c r IH]; intros e fuel d Hf.
  - destruct fuel as [|f]; [cbn in Hf; lia|]. cbn. destruct e; cbn; rewrite Nat.add_0_r; reflexivity.
  - destruct c.
    + destruct fuel as [|f]; [cbn in Hf; lia|]. cbn [dp_run sd_decode]. rewrite IH by (cbn in Hf; lia).
      cbn [sd_spec_fails existsb ck_bad orb sd_spec_delivered]. unfold sd_spec_fails. f_equal. lia.
    + rewrite dp_run_skip. rewrite IH by (cbn in Hf; lia). reflexivity.
    + destruct fuel as [|f]; [cbn in Hf; lia|]. cbn. rewrite Nat.add_0_r. reflexivity.
Qed.

Lemma dp_run_fixed_terminates : forall l e, fst (dp_run (S (length l)) sd_fixed l e 0) <> POutOfFuel.
Proof.
  intros l e. rewrite dp_run_fixed_spec by lia. destruct (sd_spec_fails l e); discriminate.
Qed.

(* the decoder before the repair: once the input has ended cleanly the provider hands out one more (blank) ammo per
   call, for ever -- whatever the fuel, it is used up *)
Lemma dp_run_orig_end_never_reached : forall fuel d, dp_run fuel sd_orig [] false d = (POutOfFuel, d + fuel).
Proof.
  induction fuel as [|f IH]; intros d; cbn.
  - rewrite Nat.add_0_r. reflexivity.
  - rewrite IH. f_equal. lia.
Qed.

Lemma dp_run_orig_healthy_file_never_ends : forall l fuel d,
  existsb ck_bad l = false ->
  fst (dp_run fuel sd_orig l false d) = POutOfFuel.
Proof.
  induction l as [|c r IH]; intros fuel d Hb.
  - rewrite dp_run_orig_end_never_reached. reflexivity.
  - destruct c; cbn in Hb; try discriminate.
    + destruct fuel as [|f]; [reflexivity|]. cbn [dp_run sd_decode]. apply IH, Hb.
    + rewrite dp_run_skip. apply IH, Hb.
Qed.
