(* Lemmas about Model/GrpcTime.v (property C20, "within the configured timeout"): with the deadline
   context created per call, what a call is given and what its sample says do not depend on the clock,
   on think time or on how long earlier calls took. *)
From Coq Require Import List NArith ZArith Bool Lia.
From PV Require Import Model.GrpcCall Model.GrpcWire Model.GrpcTime Proofs.GrpcCallProofs Proofs.GrpcWireProofs.
Import ListNotations.
Local Open Scope Z_scope.

Lemma deadline_scope_some sites inv sc : deadline_scope sites inv = Some sc -> sc = PerCall.
Proof. unfold deadline_scope. destruct (_ && _); [intros H; injection H as <-; reflexivity|discriminate]. Qed.

(* a deadline handed down to an invoking function (no site of its own) is not PerCall *)
Lemma deadline_scope_needs_site sites inv f :
  In f inv -> site_in f sites = false -> deadline_scope sites inv = None.
Proof.
  intros Hin Hs. unfold deadline_scope.
  destruct (forallb (fun f0 => site_in f0 sites) inv) eqn:E; [|reflexivity].
  rewrite forallb_forall in E. rewrite (E f Hin) in Hs. discriminate.
Qed.

Section TimedProofs.
  Variable msg : Type.
  Variable code_of_status : N -> N.
  Variable target : list (sent msg) -> sent msg -> N.
  Variable latency : list (sent msg) -> sent msg -> Z.

  Notation timed_call := (timed_call msg code_of_status target latency).
  Notation timed_steps := (timed_steps msg code_of_status target latency).
  Notation timed_shots := (timed_shots msg code_of_status target latency).
  Notation spec_call := (spec_call msg code_of_status target latency).
  Notation spec_timed := (spec_timed msg code_of_status target latency).
  Notation spec_timed_shots := (spec_timed_shots msg code_of_status target latency).

  Lemma timed_call_per_call now hist s :
    drop_clock (timed_call (now + s_timeout s) now hist s) = spec_call hist s.
  Proof.
    unfold GrpcTime.timed_call, GrpcTime.spec_call, drop_clock.
    replace (now + s_timeout s - now) with (s_timeout s) by lia.
    destruct (s_timeout s <=? 0); [reflexivity|].
    destruct (latency hist s <? s_timeout s); reflexivity.
  Qed.

  Lemma timed_call_clock dl now hist s : now <= fst (fst (timed_call dl now hist s)).
  Proof.
    unfold GrpcTime.timed_call. destruct (dl - now <=? 0) eqn:E; cbn [fst]; [lia|].
    apply Z.leb_gt in E. destruct (latency hist s <? dl - now); cbn [fst]; lia.
  Qed.

  Lemma timed_steps_per_call steps : forall shot_dl now hist,
    drop_clock (timed_steps PerCall shot_dl now hist steps) = spec_timed hist (map fst steps).
  Proof.
    induction steps as [|[o sl] r IH]; intros shot_dl now hist; [reflexivity|].
    cbn [GrpcTime.timed_steps map fst GrpcTime.spec_timed].
    destruct o as [| | |s].
    1-3: specialize (IH shot_dl now hist); unfold drop_clock in *;
         destruct (timed_steps PerCall shot_dl now hist r) as [[n2 h2] xs]; cbn [fst snd] in *;
         rewrite <- IH; reflexivity.
    cbn [step_deadline].
    pose proof (timed_call_per_call now hist s) as E. unfold drop_clock in E.
    destruct (timed_call (now + s_timeout s) now hist s) as [[n1 h1] x]. cbn [fst snd] in E.
    rewrite <- E.
    specialize (IH shot_dl (n1 + Z.max 0 sl) h1). unfold drop_clock in *.
    destruct (timed_steps PerCall shot_dl (n1 + Z.max 0 sl) h1 r) as [[n2 h2] xs]. cbn [fst snd] in *.
    rewrite <- IH. reflexivity.
  Qed.

  Lemma timed_shots_per_call shots : forall budget now hist,
    drop_clock (timed_shots PerCall budget now hist shots) = spec_timed_shots hist (map (map fst) shots).
  Proof.
    induction shots as [|st r IH]; intros budget now hist; [reflexivity|].
    cbn [GrpcTime.timed_shots map GrpcTime.spec_timed_shots].
    pose proof (timed_steps_per_call st (now + budget) now hist) as E. unfold drop_clock in E.
    destruct (timed_steps PerCall (now + budget) now hist st) as [[n1 h1] xs]. cbn [fst snd] in E.
    rewrite <- E.
    specialize (IH budget n1 h1). unfold drop_clock in *.
    destruct (timed_shots PerCall budget n1 h1 r) as [[n2 h2] xss]. cbn [fst snd] in *.
    rewrite <- IH. reflexivity.
  Qed.

  (* frame: the clock a shot starts at, the think time of its steps and the deadline a whole-shot
     context would have do not matter *)
  Lemma timed_steps_frame steps steps' shot_dl shot_dl' now now' hist :
    map fst steps = map fst steps' ->
    drop_clock (timed_steps PerCall shot_dl now hist steps) =
    drop_clock (timed_steps PerCall shot_dl' now' hist steps').
  Proof. intros E. rewrite !timed_steps_per_call, E. reflexivity. Qed.

  (* the clock never runs backwards *)
  Lemma timed_steps_clock sc steps : forall shot_dl now hist,
    now <= fst (fst (timed_steps sc shot_dl now hist steps)).
  Proof.
    induction steps as [|[o sl] r IH]; intros shot_dl now hist; cbn [GrpcTime.timed_steps]; [cbn; lia|].
    destruct o as [| | |s].
    1-3: specialize (IH shot_dl now hist); destruct (timed_steps sc shot_dl now hist r) as [[n2 h2] xs]; exact IH.
    pose proof (timed_call_clock (step_deadline msg sc shot_dl now s) now hist s) as C.
    destruct (timed_call (step_deadline msg sc shot_dl now s) now hist s) as [[n1 h1] x]. cbn [fst] in C.
    specialize (IH shot_dl (n1 + Z.max 0 sl) h1).
    destruct (timed_steps sc shot_dl (n1 + Z.max 0 sl) h1 r) as [[n2 h2] xs]. cbn [fst] in *. lia.
  Qed.

  (* ---------- what the specification says about each call ---------- *)

  (* every arrival is one of the calls that were to be sent, with its WHOLE timeout as budget; its sample
     is the conversion of the target's answer when that comes within the timeout, 504's status if not *)
  Lemma spec_timed_arrival os : forall hist c a,
    In (c, Some a) (snd (spec_timed hist os)) ->
    In (Sent (a_call a)) os /\ a_budget a = s_timeout (a_call a) /\ 0 < a_budget a /\
    c = code_of_status (a_status a) /\
    exists h, (latency h (a_call a) < s_timeout (a_call a) /\ a_status a = target h (a_call a)) \/
              (s_timeout (a_call a) <= latency h (a_call a) /\ a_status a = st_deadline).
  Proof.
    induction os as [|o r IH]; intros hist c a; cbn [GrpcTime.spec_timed]; [intros []|].
    destruct o as [| | |s].
    1-3: destruct (spec_timed hist r) as [h2 xs] eqn:E; cbn [snd]; intros [H|H]; [discriminate|];
         specialize (IH hist c a); rewrite E in IH; destruct (IH H) as [I R]; split; [right; exact I|exact R].
    destruct (spec_call hist s) as [h1 x] eqn:Ec.
    destruct (spec_timed h1 r) as [h2 xs] eqn:E. cbn [snd]. intros [H|H].
    - subst x. unfold GrpcTime.spec_call in Ec.
      destruct (s_timeout s <=? 0) eqn:Eb; [discriminate|]. apply Z.leb_gt in Eb.
      destruct (latency hist s <? s_timeout s) eqn:El; injection Ec as _ Ec1 Ec2; subst c a; cbn [a_call a_budget a_status].
      + apply Z.ltb_lt in El. repeat split; try (left; reflexivity); try assumption.
        exists hist. left. split; [assumption|reflexivity].
      + apply Z.ltb_ge in El. repeat split; try (left; reflexivity); try assumption.
        exists hist. right. split; [assumption|reflexivity].
    - specialize (IH h1 c a). rewrite E in IH. destruct (IH H) as [I R]. split; [right; exact I|exact R].
  Qed.

  (* a target that answers every call within its timeout: the timed specification is the wire
     specification of Model/GrpcWire.v (one call per sent outcome, code = conversion of the answer) *)
  Lemma spec_timed_fast os : forall hist,
    (forall h s, In (Sent s) os -> 0 < s_timeout s /\ latency h s < s_timeout s) ->
    fst (spec_timed hist os) = hist ++ sent_of os /\
    map fst (snd (spec_timed hist os)) = spec_codes msg code_of_status target hist os.
  Proof.
    induction os as [|o r IH]; intros hist Hf; cbn [GrpcTime.spec_timed sent_of GrpcWire.spec_codes].
    - rewrite app_nil_r. split; reflexivity.
    - assert (Hr : forall h s, In (Sent s) r -> 0 < s_timeout s /\ latency h s < s_timeout s)
        by (intros h s Hin; apply Hf; right; exact Hin).
      destruct o as [| | |s].
      1-3: destruct (IH hist Hr) as [A B]; destruct (spec_timed hist r) as [h2 xs]; cbn [fst snd map] in *;
           rewrite A, B; split; reflexivity.
      destruct (Hf hist s (or_introl eq_refl)) as [Hp Hl].
      unfold GrpcTime.spec_call.
      destruct (s_timeout s <=? 0) eqn:Eb; [apply Z.leb_le in Eb; lia|].
      destruct (latency hist s <? s_timeout s) eqn:El; [|apply Z.ltb_ge in El; lia].
      destruct (IH (hist ++ [s]) Hr) as [A B].
      destruct (spec_timed (hist ++ [s]) r) as [h2 xs]. cbn [fst snd map] in *.
      rewrite A, B, <- app_assoc. split; reflexivity.
  Qed.

  (* a call that is not answered in time is a 504-status sample for THAT step; the steps after it are
     specified as if it had been answered (they see one more call in the target's history, nothing else) *)
  Lemma spec_timed_slow_step hist s r :
    0 < s_timeout s -> s_timeout s <= latency hist s ->
    spec_timed hist (Sent s :: r) =
      (fst (spec_timed (hist ++ [s]) r),
       (code_of_status st_deadline, Some (mkArr s (s_timeout s) st_deadline)) :: snd (spec_timed (hist ++ [s]) r)).
  Proof.
    intros Hp Hl. cbn [GrpcTime.spec_timed]. unfold GrpcTime.spec_call.
    destruct (s_timeout s <=? 0) eqn:Eb; [apply Z.leb_le in Eb; lia|].
    destruct (latency hist s <? s_timeout s) eqn:El; [apply Z.ltb_lt in El; lia|].
    destruct (spec_timed (hist ++ [s]) r) as [h2 xs]. reflexivity.
  Qed.
End TimedProofs.

(* ---------- scenario steps: the budget of every call is the configured timeout ---------- *)
Section ScenarioTimedProofs.
  Variables desc msg tmpl vars : Type.
  Variable parse_t : gbytes -> option tmpl.
  Variable exec_t : tmpl -> vars -> option gbytes.
  Variable fits_text : desc -> gbytes -> option msg.
  Variable code_of_status : N -> N.
  Variable target : list (sent msg) -> sent msg -> N.
  Variable latency : list (sent msg) -> sent msg -> Z.

  Notation spec_step := (spec_step desc msg tmpl vars parse_t exec_t fits_text).
  Notation spec_scenario := (spec_scenario desc msg tmpl vars parse_t exec_t fits_text).

  Lemma spec_step_timeout t timeout h st v s :
    spec_step t timeout h st v = Sent s -> s_timeout s = eff_timeout timeout.
  Proof.
    unfold GrpcCall.spec_step.
    destruct (render_spec tmpl vars parse_t exec_t (st_payload st) v); [|discriminate].
    destruct (render_meta_spec tmpl vars parse_t exec_t (heap_get h (st_cell st)) v); [|discriminate].
    destruct (find_method t (st_call st)); [|discriminate].
    destruct (fits_text d g); [|discriminate].
    intros H; injection H as <-. reflexivity.
  Qed.

  Lemma spec_scenario_timeout t timeout h sts : forall s,
    In (Sent s) (spec_scenario t timeout h sts) -> s_timeout s = eff_timeout timeout.
  Proof.
    induction sts as [|[st v] r IH]; intros s; cbn [GrpcCall.spec_scenario]; [intros []|].
    destruct (spec_step t timeout h st v) as [| | |s0] eqn:E.
    1-3: intros [H|[]]; discriminate.
    intros [H|H]; [injection H as <-; eapply spec_step_timeout; exact E|apply IH; exact H].
  Qed.

  (* a whole scenario shot of any gun satisfying the cache invariant, started at any time, with any
     think time after its steps, against any target taking any time: every call that arrives is a
     specified step's call and is given eff_timeout(timeout) — however much of it the steps before used *)
  Lemma scenario_call_budget h S (t : mtable desc) timeout scn (sts : list (step * vars)) :
    steps_wf h S -> Forall (fun sv => In (fst sv) S) sts ->
    forall g, gun_ok desc tmpl parse_t h S t timeout g ->
    forall (sleeps : list Z) shot_dl now hist c a,
    In (c, Some a)
       (snd (timed_steps msg code_of_status target latency PerCall shot_dl now hist
               (combine (snd (shoot_scenario desc msg tmpl vars parse_t exec_t fits_text h g scn sts)) sleeps))) ->
    In (Sent (a_call a)) (spec_scenario t timeout h sts) /\
    a_budget a = eff_timeout timeout /\ c = code_of_status (a_status a).
  Proof.
    intros Hwf Hin g Hg sleeps shot_dl now hist c a H.
    destruct (shoot_scenario_ok desc msg tmpl vars parse_t exec_t fits_text h S t timeout scn sts Hwf Hin g Hg) as [g' [E _]].
    rewrite E in H. cbn [snd] in H.
    pose proof (timed_steps_per_call msg code_of_status target latency
                  (combine (spec_scenario t timeout h sts) sleeps) shot_dl now hist) as P.
    unfold drop_clock in P. apply (f_equal snd) in P. cbn [snd] in P. rewrite P in H.
    apply spec_timed_arrival in H. destruct H as [I [B [_ [C _]]]].
    assert (I' : In (Sent (a_call a)) (spec_scenario t timeout h sts)).
    { clear -I. set (os := spec_scenario t timeout h sts) in *. clearbody os.
      revert sleeps I. induction os as [|o r IH]; intros [|x sl] I; cbn in I; try contradiction.
      destruct I as [I|I]; [left; exact I|right; eapply IH; exact I]. }
    split; [exact I'|]. split; [|exact C].
    rewrite B. eapply spec_scenario_timeout. exact I'.
  Qed.
End ScenarioTimedProofs.

(* ---------- the replays of the correspondence driver (Model/GrpcTimeExample.v) ---------- *)
From PV Require Import Model.GrpcExample Model.GrpcTimeExample.

Section TimedReplayProofs.
  Variable code_of_status : N -> N.
  Variable target : list (sent msg_c) -> sent msg_c -> N.
  Variable latency : list (sent msg_c) -> sent msg_c -> Z.

  Lemma zip_sleeps_fst os : forall sl, map fst (zip_sleeps os sl) = os.
  Proof. induction os as [|o r IH]; intros [|s sl]; cbn [zip_sleeps map fst]; try rewrite IH; reflexivity. Qed.

  Lemma attach_sleeps_fst ss shots : forall j, map (map fst) (attach_sleeps ss j shots) = shots.
  Proof.
    induction shots as [|os r IH]; intros j; cbn [attach_sleeps map]; [reflexivity|].
    rewrite zip_sleeps_fst, IH. reflexivity.
  Qed.

  Lemma scen_timed_per_call timeout ss shots :
    scen_timed code_of_status target latency PerCall timeout ss shots =
      scen_timed_spec code_of_status target latency shots.
  Proof.
    unfold scen_timed, scen_timed_spec.
    pose proof (timed_shots_per_call msg_c code_of_status target latency (attach_sleeps ss 0 shots)
                  (eff_timeout timeout) 0 []) as P.
    unfold drop_clock in P. apply (f_equal snd) in P. cbn [snd] in P.
    rewrite P, attach_sleeps_fst. reflexivity.
  Qed.

  Lemma json_timed_per_call timeout os :
    json_timed code_of_status target latency PerCall timeout os =
      json_timed_spec code_of_status target latency os.
  Proof.
    unfold json_timed, json_timed_spec.
    pose proof (timed_shots_per_call msg_c code_of_status target latency (map (fun o => [(o, 0)]) os)
                  (eff_timeout timeout) 0 []) as P.
    unfold drop_clock in P. apply (f_equal snd) in P. cbn [snd] in P.
    rewrite P, map_map. reflexivity.
  Qed.
End TimedReplayProofs.
