(* Lemmas of property C04, round 7: Waiters on a shared self-starting leaf schedule (Model/WaiterLeaf.v).
   The leaf-level invariant is C02's (Proofs/SchedLeafConcProofs.v: leaf_one_start); here it is composed
   with the per-call Waiter lemmas and refuted for the leaf that looks at the started flag first. *)
From Coq Require Import List ZArith Bool Arith Lia.
From PV Require Import Model.SchedTree Model.SchedLeafConc Model.Waiter Model.WaiterLeaf.
From PV Require Import Proofs.SchedLeafConcProofs Proofs.WaiterProofs Model.WaiterPool Proofs.WaiterPoolProofs.
From Coq Require Import Permutation.
Import ListNotations.
Local Open Scope Z_scope.

(* Every token any caller was handed by the self-starting leaf carries  start + doAt(i)  for one
   reading [start] of the run's clock (lo <= start <= present), whatever the interleaving; so any Waiter,
   in any state, that waits for it returns no earlier than start + doAt(i), and judges it slow only when
   that instant is >= 2 s in the past. *)
Lemma first_tokens_configured n d a zero lo plans g :
  Forall (Forall nl_op) plans ->
  lreach n d a doat_progs (linit zero lo plans) g ->
  forall j th t, nth_error (lg_threads g) j = Some th -> In (RNext t true) (lt_hist th) ->
  let S := l_start (lg_s g) in
  lo <= S <= lg_lo g /\
  exists i, (i < n)%nat /\ t = S + a i /\
    forall v st enter c st' o,
      c_tok c = Some t -> wf_call st enter c -> wait v st c = (st', o) -> w_ok o = true ->
      S + a i <= return_lower enter c o /\
      (is_slow_down st' = true -> max_overdue <= return_lower enter c o - (S + a i)) /\
      (0 <= a i -> is_slow_down st' = true -> max_overdue <= return_lower enter c o - lo).
Proof.
  intros F R j th t Hn Hin S.
  destruct (leaf_one_start n d a zero lo plans g F R j th t true Hn Hin) as [Hs [i [Hi Et]]].
  fold S in Hs, Et. split; [exact Hs|].
  exists i. split; [exact Hi|]. split; [exact Et|].
  intros v st enter c st' o Hc W E Hok.
  pose proof (wait_no_early v st enter c st' o t W E Hok Hc) as H1.
  split; [lia|]. split.
  - intro Hsl. pose proof (wait_slow_is_late v st enter c st' o t W E Hok Hc Hsl). lia.
  - intros Ha Hsl. pose proof (wait_slow_is_late v st enter c st' o t W E Hok Hc Hsl). lia.
Qed.

(* the executable schedulers of the model only produce reachable states *)
Lemma drain_reach n d a P i now : forall fuel g0 g g',
  lreach n d a P g0 g -> drain fuel n d a P i now g = Some g' -> lreach n d a P g0 g'.
Proof.
  induction fuel as [|f IH]; intros g0 g g' R H; cbn [drain] in H; [discriminate|].
  destruct (nth_error (lg_threads g) i) as [th|]; [|discriminate].
  destruct (lt_todo th).
  - inversion H; subst; exact R.
  - destruct (lrun n d a P [(i, now)] g) as [g1|] eqn:E; [|discriminate].
    eapply IH; [|exact H]. eapply lrun_reach; [exact R|exact E].
Qed.

Lemma seq_callers_reach n d a P fuel : forall nows k g0 g g',
  lreach n d a P g0 g -> seq_callers fuel n d a P k nows g = Some g' -> lreach n d a P g0 g'.
Proof.
  induction nows as [|now r IH]; intros k g0 g g' R H; cbn [seq_callers] in H.
  - inversion H; subst; exact R.
  - destruct (drain fuel n d a P k now g) as [g1|] eqn:E; [|discriminate].
    eapply IH; [|exact H]. eapply drain_reach; [exact R|exact E].
Qed.

(* ---------------------------------------------------------------------------------------- *)
(* const 1 rps, 3 tokens (ns); the zero time.Time = year 1 = -62135596800 s of the Unix epoch *)
Definition ex1_a (i : nat) : Z := Z.of_nat i * 1000000000.
Definition ex1_zero : Z := -62135596800000000000.
Definition ex1_plans : list (list op) := [[ONext]; [ONext]; [ONext]].
(* caller 0 looks at the flag, enters the Once, marks the schedule started (clock 100..101); callers 1 and 2
   arrive, see the flag, skip the Once and take the indices 0 and 1 (102..104); only then does caller 0 store
   start = 105, leave the Once and take index 2 *)
Definition ex1_sched : list (nat * Z) := zsch
  [(0, 100); (0, 100); (0, 101); (1, 102); (1, 103); (1, 104); (2, 104); (2, 104); (2, 104);
   (0, 105); (0, 106); (0, 107); (0, 108)].

(* The started-flag fast path in front of the Once: caller 2 is handed token 1 stamped  zero + 1 s ; its
   fresh Waiter returns at once at 104 ns - a whole second before the token's configured time 105 ns + 1 s -
   and IsSlowDown holds although the token is not late at all (discard_overflow reports it 777/discarded). *)
Lemma flagfirst_early_and_false_discard :
  exists g th t,
    lreach 3 3000000000 ex1_a flagfirst_progs (linit ex1_zero 100 ex1_plans) g /\
    nth_error (lg_threads g) 2 = Some th /\ lt_hist th = [RNext t true] /\
    let S := l_start (lg_s g) in
    let f := first_wait wcurrent (RNext t true) 104 104 104 in
    S = 105 /\ t = ex1_zero + ex1_a 1 /\
    fs_fired f = true /\ fs_at f < S + ex1_a 1 /\
    fs_slow f = true /\ fs_at f - (S + ex1_a 1) < max_overdue /\
    decide true (fs_slow f) = Discard.
Proof.
  destruct (lrun 3 3000000000 ex1_a flagfirst_progs ex1_sched (linit ex1_zero 100 ex1_plans)) as [g|] eqn:E;
    [|vm_compute in E; discriminate].
  assert (R : lreach 3 3000000000 ex1_a flagfirst_progs (linit ex1_zero 100 ex1_plans) g)
    by (eapply lrun_reach; [apply lreach_refl|exact E]).
  vm_compute in E. inversion E; subst g.
  eexists _, _, _. split; [exact R|]. split; [reflexivity|]. split; [reflexivity|].
  vm_compute. repeat split; congruence.
Qed.

(* the same interleaving is impossible on the tree as it is: callers 1 and 2 wait on the Once (no step) *)
Lemma doat_same_schedule_blocked :
  lrun 3 3000000000 ex1_a doat_progs ex1_sched (linit ex1_zero 100 ex1_plans) = None /\
  lrun 3 3000000000 ex1_a doat_progs (zsch [(0, 100); (0, 101); (1, 102)]) (linit ex1_zero 100 ex1_plans) = None.
Proof. split; vm_compute; reflexivity. Qed.

(* non-vacuity of first_tokens_configured + the planned timeline of the correspondence cases: three callers at
   t0 = 100 on const 1 rps: one fires at t0, the others sleep to +1 s / +2 s, nobody is judged slow *)
Lemma first_shots_example :
  first_shots wcurrent doat_progs [0; 1000000000; 2000000000] 3000000000 ex1_zero 100 3 =
    Some [ {| fs_fired := true; fs_slow := false; fs_at := 100 |};
           {| fs_fired := true; fs_slow := false; fs_at := 1000000100 |};
           {| fs_fired := true; fs_slow := false; fs_at := 2000000100 |} ] /\
  exists g, seq_callers 16 3 3000000000 (offs_fn [0; 1000000000; 2000000000]) doat_progs 0 [100; 100; 100]
              (linit ex1_zero 100 ex1_plans) = Some g /\
            lreach 3 3000000000 (offs_fn [0; 1000000000; 2000000000]) doat_progs (linit ex1_zero 100 ex1_plans) g /\
            Forall (Forall nl_op) ex1_plans /\
            map lt_hist (lg_threads g) = [[RNext 100 true]; [RNext 1000000100 true]; [RNext 2000000100 true]].
Proof.
  split; [vm_compute; reflexivity|].
  destruct (seq_callers 16 3 3000000000 (offs_fn [0; 1000000000; 2000000000]) doat_progs 0 [100; 100; 100]
              (linit ex1_zero 100 ex1_plans)) as [g|] eqn:E; [|vm_compute in E; discriminate].
  exists g. split; [reflexivity|]. split; [eapply seq_callers_reach; [apply lreach_refl|exact E]|].
  split; [repeat constructor|].
  vm_compute in E. inversion E; subst g. reflexivity.
Qed.

Lemma spec_first_b_true_iff ahead slow :
  spec_first_b ahead slow = true <-> (forall x, In x ahead -> x = true) /\ (forall x, In x slow -> x = true).
Proof.
  unfold spec_first_b. rewrite andb_true_iff, !forallb_forall. tauto.
Qed.

(* ---------------------------------------------------------------------------------------- *)
(* Soundness of the attribution-free criterion of the `first` cases: only SOME tokens of the profile are fired in
   the observed instant (the others are still waited for), the profile really started at S, the harness counts
   the configured offsets from an instant t0 <= S.  If every fired request is at or after the time of the token it
   consumed, under any hand-out, then never_ahead_b holds against t0 + offsets: a 0 bit is an early shot. *)
Lemma due_by_app x l r : (due_by x (l ++ r) = due_by x l + due_by x r)%nat.
Proof. unfold due_by. rewrite filter_app, app_length. reflexivity. Qed.

Lemma due_by_shift x t0 S offs : t0 <= S ->
  (due_by x (map (fun o => (S + o)%Z) offs) <= due_by x (map (fun o => (t0 + o)%Z) offs))%nat.
Proof.
  intro H. unfold due_by. induction offs as [|o r IH]; cbn [map filter length]; [lia|].
  destruct (S + o <=? x) eqn:E1.
  - apply Z.leb_le in E1. assert (E2 : t0 + o <=? x = true) by (apply Z.leb_le; lia). rewrite E2. cbn [length]. lia.
  - destruct (t0 + o <=? x); cbn [length]; lia.
Qed.

Lemma part_never_ahead : forall t0 S offs fired rest ats,
  t0 <= S -> Permutation (fired ++ rest) (map (fun o => S + o) offs) -> Forall2 Z.le fired ats ->
  never_ahead_b (map (fun o => t0 + o) offs) ats = true.
Proof.
  intros t0 S offs fired rest ats Ht Hp H. unfold never_ahead_b. apply forallb_forall. intros x _.
  apply Nat.leb_le.
  pose proof (due_by_paired fired ats x H) as H1.
  pose proof (due_by_perm x _ _ Hp) as H2. rewrite due_by_app in H2.
  pose proof (due_by_shift x t0 S offs Ht). lia.
Qed.
