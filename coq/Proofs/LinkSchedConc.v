(* Link L1, concurrent callers: the composite the real constructors build for a profile with two
   or more leaves (a step profile with two or more rate levels) satisfies the hypotheses of
   C02_conc_flat, so under ANY interleaving of the atomic sections of any number of callers the
   tokens handed out, in linearisation order, are exactly the C01 tokens of the profile, each
   once, and every caller sees non-decreasing times. *)
From Coq Require Import ZArith QArith Lia List Bool Arith.
From PV Require Import Model.Sched Model.SchedTree Model.SchedConc Proofs.SchedProofs Proofs.SchedStep
  Proofs.SchedTreeProofs Proofs.SchedTreeSeq Proofs.SchedTreeRun Proofs.SchedTreeSpec
  Proofs.SchedConcSections Proofs.SchedConcProofs Proofs.SchedConcCor Proofs.LinkSched.
Import ListNotations.
Local Open Scope Z_scope.

Lemma flatl_leaf_scheds ls : flat_map flatten (map leaf_sched ls) = map leaf_sched ls.
Proof. induction ls as [|l r IH]; [reflexivity|]. cbn [map flat_map flatten leaf_sched app]. rewrite IH. reflexivity. Qed.

Lemma size_leaf_scheds ls : size (Comp (map leaf_sched ls) (la_of (map leaf_sched ls)) false) = S (length ls).
Proof.
  cbn [size]. f_equal. induction ls as [|l r IH]; [reflexivity|]. cbn [map fold_right size leaf_sched length]. rewrite IH. reflexivity.
Qed.

Theorem profile_conc p ls fuel now0 : valid p -> leaves p = Some ls -> (2 <= length ls)%nat -> (length ls <= fuel)%nat ->
  let c0 := Comp (map leaf_sched ls) (la_of (map leaf_sched ls)) false in
  build fuel now0 (CComp (map leaf_cfg ls)) = Ok c0 /\
  exists d xs, drain p = Some d /\ d_tokens d = map Some xs /\
  forall lo0 ths st, init_threads ths ->
    ireach fuel {| i_g := {| g_c := c0; g_lo := lo0; g_threads := ths |};
                   i_a := a_init (flatten c0); i_log := [] |} st ->
    conc_conclusion fuel c0 lo0 ths st /\
    (exists t0, let n := length (next_nows (map evt (i_log st))) in
       next_results (map eres (i_log st)) =
       firstn n (map (fun x => (t0 + x, true)) xs) ++ repeat (t0 + d_finish d, false) (n - length xs)) /\
    (exists t0, forall i th, nth_error (g_threads (i_g st)) i = Some th -> nondecr t0 (next_results (t_hist th))).
Proof.
  intros Hv El Hlen Hfuel c0.
  destruct (leaves_good p Hv) as (ls' & El' & Hg). rewrite El in El'. inversion El'; subst ls'. clear El'.
  destruct (leaf_scheds_ok ls Hg) as (A & B & C & D & E).
  split; [apply build_profile_comp; lia|].
  destruct (comp_items ls Hg 0 0) as (xs & E1 & _ & _).
  eexists. exists xs. split; [unfold drain; rewrite El; reflexivity|]. cbn [d_tokens d_finish]. split; [exact E1|].
  intros lo0 ths st Hi Hr.
  assert (Hfresh : fresh c0).
  { apply fr_comp; [exact E|]. destruct ls; cbn [length] in Hlen; [lia|discriminate]. }
  assert (Hcl : comp_len c0 <> 0%nat) by (cbn [c0 comp_len]; rewrite map_length; lia).
  assert (Hsz : (size c0 <= S fuel)%nat) by (unfold c0; rewrite size_leaf_scheds; lia).
  assert (Hfl : flatten c0 = map leaf_sched ls) by (cbn [c0 flatten]; apply flatl_leaf_scheds).
  pose proof (conc_flat fuel c0 lo0 ths st Hfresh Hcl D Hsz Hi Hr) as Hc.
  split; [exact Hc|]. split.
  - destruct (conc_exactly_once fuel c0 lo0 ths st Hc) as (t0 & Ht0); [rewrite Hfl; exact C|].
    exists t0. cbn zeta in Ht0. rewrite Ht0. rewrite Hfl.
    destruct (comp_items ls Hg t0 0) as (xs' & E1' & E2' & _).
    rewrite E1 in E1'. assert (xs' = xs) as ->.
    { clear -E1'. revert xs' E1'. induction xs as [|x q IH]; intros [|y q'] Eq; try discriminate; [reflexivity|].
      cbn in Eq. inversion Eq; subst. f_equal. apply IH. assumption. }
    rewrite Z.add_0_r in E2'. rewrite E2'. cbn [fst snd]. rewrite map_map, map_length. reflexivity.
  - apply (conc_thread_mono fuel c0 lo0 ths st Hc); rewrite Hfl; assumption.
Qed.
