(* C12, round 7: instances firing their own RPS profile (Model/StartPerInst.v). *)
From Coq Require Import List Arith Bool Lia.
From PV Require Import Model.StartPerInst.
Import ListNotations.

Section OwnProfile.
Variable f : factory.
Variable T : nat.
Hypothesis own : forall i j, obj_of f i = obj_of f j -> i = j.   (* every instance has its own object *)

Definition piinv (s : pistate) : Prop :=
  forall id, shots_of id s + rem s (obj_of f id) = T /\ (In id (pleft s) -> rem s (obj_of f id) = 0).

Lemma piinv_init : piinv (piinit T).
Proof. intros id. split; [reflexivity|intros []]. Qed.

Lemma existsb_eqb_false id l : existsb (Nat.eqb id) l = false -> ~ In id l.
Proof.
  intros E Hin. assert (existsb (Nat.eqb id) l = true) by (apply existsb_exists; exists id; split; [exact Hin|apply Nat.eqb_refl]).
  congruence.
Qed.

Lemma piinv_step a s s' : piinv s -> pistep f a s = Some s' -> piinv s'.
Proof.
  intros I H. destruct a as [id0]. cbn [pistep] in H.
  destruct (existsb (Nat.eqb id0) (pleft s)) eqn:Ex; [discriminate|].
  apply existsb_eqb_false in Ex.
  destruct (rem s (obj_of f id0)) as [|n] eqn:Er; inversion H; subst s'; clear H; intros id;
    destruct (I id) as [A B]; unfold shots_of in *; cbn [rem pshots pleft].
  - split; [exact A|]. intros [E|Hin]; [subst id; exact Er|exact (B Hin)].
  - destruct (Nat.eq_dec id id0) as [E|N].
    + subst id. rewrite Nat.eqb_refl. cbn [count_occ]. destruct (Nat.eq_dec id0 id0) as [_|C]; [|contradiction].
      split; [lia|]. intros Hin. contradiction.
    + assert (No : obj_of f id <> obj_of f id0) by (intros C; apply N, own, C).
      apply Nat.eqb_neq in No. rewrite No. cbn [count_occ].
      destruct (Nat.eq_dec id0 id) as [C|_]; [symmetry in C; contradiction|]. split; assumption.
Qed.

Lemma pirun_inv l : forall s s', piinv s -> pirun f l s = Some s' -> piinv s'.
Proof.
  induction l as [|a r IH]; intros s s' I H; cbn [pirun] in H; [inversion H; subst; exact I|].
  destruct (pistep f a s) as [s1|] eqn:E; [|discriminate]. exact (IH s1 s' (piinv_step a s s1 I E) H).
Qed.

(* an instance never fires more than its own profile, has fired exactly what is missing from its own schedule
   object, and one that found its profile exhausted and left has fired all T tokens of it - whatever the other
   instances did, whenever they were started *)
Theorem perinst_own_profile l s : pirun f l (piinit T) = Some s ->
  forall id, shots_of id s + rem s (obj_of f id) = T
             /\ shots_of id s <= T
             /\ (In id (pleft s) -> shots_of id s = T).
Proof.
  intros H id. destruct (pirun_inv l _ s piinv_init H id) as [A B].
  split; [exact A|]. split; [lia|]. intros Hin. specialize (B Hin). lia.
Qed.

(* ... and an instance that has not fired its whole profile yet gets a token whenever it asks: it keeps firing *)
Theorem perinst_keeps_firing l s id : pirun f l (piinit T) = Some s ->
  shots_of id s < T ->
  ~ In id (pleft s)
  /\ exists s', pistep f (PINext id) s = Some s' /\ shots_of id s' = S (shots_of id s) /\ pleft s' = pleft s.
Proof.
  intros H Hlt. destruct (pirun_inv l _ s piinv_init H id) as [A B].
  assert (Nl : ~ In id (pleft s)) by (intros Hin; specialize (B Hin); lia).
  split; [exact Nl|]. cbn [pistep].
  destruct (existsb (Nat.eqb id) (pleft s)) eqn:Ex.
  - apply existsb_exists in Ex. destruct Ex as (x & Hin & E). apply Nat.eqb_eq in E. subst x. contradiction.
  - destruct (rem s (obj_of f id)) as [|n] eqn:Er; [lia|]. eexists. split; [reflexivity|].
    unfold shots_of. cbn [pshots pleft count_occ]. destruct (Nat.eq_dec id id) as [_|C]; [|contradiction].
    split; reflexivity.
Qed.
End OwnProfile.

Lemma fresh_own : forall i j, obj_of Fresh i = obj_of Fresh j -> i = j.
Proof. intros i j H. exact H. Qed.
