(* Lemmas about the model of the grpc gun's warm-up (Model/GrpcWarmUp.v), property C05. *)
From Coq Require Import List Arith Bool Lia.
From PV Require Import Model.Pool Proofs.PoolProofs Model.GrpcWarmUp.
Import ListNotations.

(* ---- the method table ---- *)

Lemma mkey_eqb_eq : forall a b, mkey_eqb a b = true <-> a = b.
Proof.
  intros [a1 a2] [b1 b2]. unfold mkey_eqb. cbn [fst snd]. rewrite andb_true_iff, !Nat.eqb_eq.
  split; [intros [-> ->]; reflexivity|intros H; inversion H; auto].
Qed.

Lemma tbl_add_In : forall k k' t, In k (tbl_add k' t) <-> k = k' \/ In k t.
Proof.
  intros k k' t. induction t as [|x r IH]; cbn [tbl_add].
  - cbn. intuition.
  - destruct (mkey_eqb x k') eqn:E.
    + apply mkey_eqb_eq in E. subst x. cbn. intuition.
    + cbn. rewrite IH. intuition.
Qed.

Lemma tbl_add_NoDup : forall k t, NoDup t -> NoDup (tbl_add k t).
Proof.
  intros k t H. induction H as [|x r Hx Hr IH]; cbn [tbl_add].
  - constructor; [intros []|constructor].
  - destruct (mkey_eqb x k) eqn:E.
    + constructor; assumption.
    + constructor; [|exact IH]. rewrite tbl_add_In. intros [->|Hin]; [|exact (Hx Hin)].
      assert (mkey_eqb k k = true) by (apply mkey_eqb_eq; reflexivity). congruence.
Qed.

Lemma tbl_add_all_In : forall s ms t k,
  In k (tbl_add_all s ms t) <-> In k (map (pair s) ms) \/ In k t.
Proof.
  intros s ms. unfold tbl_add_all. induction ms as [|m r IH]; intros t k; cbn [fold_left map].
  - cbn. intuition.
  - rewrite IH, tbl_add_In. cbn [In]. intuition.
Qed.

Lemma tbl_add_all_NoDup : forall s ms t, NoDup t -> NoDup (tbl_add_all s ms t).
Proof.
  intros s ms. unfold tbl_add_all. induction ms as [|m r IH]; intros t H; cbn [fold_left]; [exact H|].
  apply IH, tbl_add_NoDup, H.
Qed.

Definition svc_methods (sr : nat * resolve) : list mkey :=
  match snd sr with RsOk ms => map (pair (fst sr)) ms | RsErr _ => [] end.

(* whatever the policy: a successful loop knows exactly the methods of the services whose
   descriptors were served (plus what it started with), each once *)
Lemma resolve_loop_ok_table : forall pol svcs t t',
  resolve_loop pol svcs t = WOk t' ->
  forall k, In k t' <-> In k t \/ In k (flat_map svc_methods svcs).
Proof.
  intros pol svcs. induction svcs as [|[s r] rest IH]; intros t t' H k; cbn [resolve_loop] in H.
  - inversion H. subst. cbn. intuition.
  - destruct r as [ms|c].
    + rewrite (IH _ _ H k), tbl_add_all_In. cbn [flat_map]. unfold svc_methods at 2. cbn [fst snd].
      rewrite in_app_iff. intuition.
    + destruct (err_action pol c); [|discriminate].
      rewrite (IH _ _ H k). cbn [flat_map]. unfold svc_methods at 2. cbn [snd app]. reflexivity.
Qed.

Lemma resolve_loop_ok_NoDup : forall pol svcs t t',
  resolve_loop pol svcs t = WOk t' -> NoDup t -> NoDup t'.
Proof.
  intros pol svcs. induction svcs as [|[s r] rest IH]; intros t t' H Hn; cbn [resolve_loop] in H.
  - inversion H. subst. exact Hn.
  - destruct r as [ms|c].
    + eapply IH; [exact H|]. apply tbl_add_all_NoDup, Hn.
    + destruct (err_action pol c); [|discriminate]. eapply IH; eassumption.
Qed.

(* ---- the tree's policy: the loop fails exactly at the first refusal that counts ---- *)

Lemma tree_action : forall c, err_action tree_policy c = if refusal_is_failure c then RaFail else RaSkip.
Proof. intros c. unfold err_action, refusal_is_failure, tree_policy. cbn. destruct (c =? code_not_found); reflexivity. Qed.

Lemma resolve_loop_tree_first : forall svcs t,
  match first_refused svcs with
  | Some (s, c) => resolve_loop tree_policy svcs t = WFail (WcResolve s c)
  | None => exists t', resolve_loop tree_policy svcs t = WOk t'
  end.
Proof.
  induction svcs as [|[s r] rest IH]; intros t; cbn [first_refused resolve_loop].
  - eexists. reflexivity.
  - destruct r as [ms|c]; [apply IH|].
    rewrite tree_action. destruct (refusal_is_failure c); [reflexivity|apply IH].
Qed.

Lemma first_refused_existsb : forall svcs,
  existsb svc_refused svcs = match first_refused svcs with Some _ => true | None => false end.
Proof.
  induction svcs as [|[s r] rest IH]; [reflexivity|]. cbn [existsb first_refused]. unfold svc_refused at 1. cbn [snd].
  destruct r as [ms|c]; [exact IH|]. destruct (refusal_is_failure c); [reflexivity|exact IH].
Qed.

Lemma first_refused_sound : forall svcs s c,
  first_refused svcs = Some (s, c) ->
  refusal_is_failure c = true /\
  exists pre post, svcs = pre ++ (s, RsErr c) :: post /\ existsb svc_refused pre = false.
Proof.
  induction svcs as [|[s0 r] rest IH]; intros s c H; cbn [first_refused] in H; [discriminate|].
  destruct r as [ms|c0].
  - destruct (IH _ _ H) as [Hc [pre [post [-> Hp]]]]. split; [exact Hc|].
    exists ((s0, RsOk ms) :: pre), post. split; [reflexivity|]. cbn [existsb]. unfold svc_refused at 1. cbn [snd]. exact Hp.
  - destruct (refusal_is_failure c0) eqn:E.
    + inversion H. subst. split; [exact E|]. exists [], rest. split; reflexivity.
    + destruct (IH _ _ H) as [Hc [pre [post [-> Hp]]]]. split; [exact Hc|].
      exists ((s0, RsErr c0) :: pre), post. split; [reflexivity|]. cbn [existsb]. unfold svc_refused at 1. cbn [snd]. rewrite E. exact Hp.
Qed.

(* the client pool cannot fail once the reflection connection could be made *)
Lemma client_pool_ok : forall rf cp, rf_connect rf = true -> exists n, prepare_client_pool rf cp = WOk n.
Proof.
  intros rf cp H. unfold prepare_client_pool. destruct (cp_enabled cp); cbn [negb]; [|eexists; reflexivity].
  rewrite H. cbn [negb].
  destruct (cp_number cp <? 1) eqn:E; cbn; [eexists; reflexivity|].
  apply Nat.ltb_ge in E. destruct (cp_number cp <=? 0) eqn:E2; [apply Nat.leb_le in E2; lia|eexists; reflexivity].
Qed.

(* WarmUp returns exactly the cause the specification names, and nil iff it names none *)
Lemma warm_up_tree_cause : forall rf cp,
  match gw_spec_cause rf with
  | Some c => warm_up tree_policy rf cp = WFail c
  | None => exists t n, warm_up tree_policy rf cp = WOk (t, n)
  end.
Proof.
  intros rf cp. unfold gw_spec_cause, warm_up, prepare_method_list.
  destruct (rf_connect rf) eqn:Hc; cbn [negb]; [|reflexivity].
  destruct (rf_list rf) as [c|]; [reflexivity|].
  pose proof (resolve_loop_tree_first (rf_services rf) []) as H.
  destruct (first_refused (rf_services rf)) as [[s c]|].
  - rewrite H. reflexivity.
  - destruct H as [t' ->]. destruct (client_pool_ok rf cp Hc) as [n ->]. eexists. eexists. reflexivity.
Qed.

Lemma gw_spec_fails_cause : forall rf,
  gw_spec_fails rf = match gw_spec_cause rf with Some _ => true | None => false end.
Proof.
  intros rf. unfold gw_spec_fails, gw_spec_cause.
  destruct (rf_connect rf); cbn [negb orb]; [|reflexivity].
  destruct (rf_list rf); [reflexivity|]. cbn [orb].
  rewrite first_refused_existsb. destruct (first_refused (rf_services rf)) as [[s c]|]; reflexivity.
Qed.

Lemma warm_up_failure_iff_spec : forall rf cp,
  wres_failed (warm_up tree_policy rf cp) = gw_spec_fails rf.
Proof.
  intros rf cp. rewrite gw_spec_fails_cause. pose proof (warm_up_tree_cause rf cp) as H.
  destruct (gw_spec_cause rf); [rewrite H; reflexivity|destruct H as [t [n ->]]; reflexivity].
Qed.

Lemma warm_up_cause_is_spec_cause : forall rf cp c,
  warm_up tree_policy rf cp = WFail c <-> gw_spec_cause rf = Some c.
Proof.
  intros rf cp c. pose proof (warm_up_tree_cause rf cp) as H.
  destruct (gw_spec_cause rf) as [c'|].
  - rewrite H. split; intros E; inversion E; reflexivity.
  - destruct H as [t [n ->]]. split; discriminate.
Qed.

(* a refusal that counts is never swallowed: the warm-up fails, and with the FIRST such refusal *)
Lemma warm_up_refusal_never_swallowed : forall rf cp s c,
  rf_connect rf = true -> rf_list rf = None ->
  In (s, RsErr c) (rf_services rf) -> refusal_is_failure c = true ->
  exists s' c' pre post, warm_up tree_policy rf cp = WFail (WcResolve s' c') /\ refusal_is_failure c' = true /\
    rf_services rf = pre ++ (s', RsErr c') :: post /\ existsb svc_refused pre = false.
Proof.
  intros rf cp s c Hc Hl Hin Hr.
  assert (Hex : existsb svc_refused (rf_services rf) = true).
  { apply existsb_exists. exists (s, RsErr c). split; [exact Hin|]. unfold svc_refused. cbn [snd]. exact Hr. }
  rewrite first_refused_existsb in Hex.
  destruct (first_refused (rf_services rf)) as [[s' c']|] eqn:E; [|discriminate].
  destruct (first_refused_sound _ _ _ E) as [Hc' [pre [post [Hs Hp]]]].
  exists s', c', pre, post. split; [|auto].
  apply warm_up_cause_is_spec_cause. unfold gw_spec_cause. rewrite Hc, Hl, E. reflexivity.
Qed.

(* nil: every listed service was resolved or is not there, and the table is the specification's *)
Lemma warm_up_nil_complete : forall rf cp t n,
  warm_up tree_policy rf cp = WOk (t, n) ->
  rf_connect rf = true /\ rf_list rf = None /\
  (forall s r, In (s, r) (rf_services rf) -> (exists ms, r = RsOk ms) \/ r = RsErr code_not_found) /\
  (forall k, In k t <-> In k (gw_spec_methods rf)) /\ NoDup t.
Proof.
  intros rf cp t n H.
  assert (Hf : gw_spec_fails rf = false) by (rewrite <- (warm_up_failure_iff_spec rf cp), H; reflexivity).
  unfold gw_spec_fails in Hf. apply orb_false_iff in Hf. destruct Hf as [Hf Hex].
  apply orb_false_iff in Hf. destruct Hf as [Hc Hl]. apply negb_false_iff in Hc.
  assert (Hl' : rf_list rf = None) by (destruct (rf_list rf); [discriminate|reflexivity]).
  split; [exact Hc|]. split; [exact Hl'|]. split.
  - intros s r Hin. destruct r as [ms|c]; [left; eexists; reflexivity|right].
    assert (svc_refused (s, RsErr c) = false).
    { destruct (svc_refused (s, RsErr c)) eqn:E; [|reflexivity].
      assert (existsb svc_refused (rf_services rf) = true) by (apply existsb_exists; eexists; split; eassumption). congruence. }
    unfold svc_refused, refusal_is_failure in H0. cbn [snd] in H0. apply negb_false_iff, Nat.eqb_eq in H0. subst. reflexivity.
  - unfold warm_up, prepare_method_list in H. rewrite Hc, Hl' in H. cbn [negb] in H.
    destruct (resolve_loop tree_policy (rf_services rf) []) as [t0|] eqn:E; [|discriminate].
    destruct (prepare_client_pool rf cp); [|discriminate]. inversion H. subst. split.
    + intros k. rewrite (resolve_loop_ok_table _ _ _ _ E k). cbn [In]. unfold gw_spec_methods. intuition.
    + eapply resolve_loop_ok_NoDup; [exact E|constructor].
Qed.

(* the causes of prepareClientPool cannot be what WarmUp returns: the dial that would fail there is
   the dial that failed for the reflection connection first *)
Lemma warm_up_never_pool_cause : forall pol rf cp,
  warm_up pol rf cp <> WFail WcPoolNew /\ warm_up pol rf cp <> WFail WcPoolConnect.
Proof.
  intros pol rf cp. unfold warm_up, prepare_method_list.
  destruct (rf_connect rf) eqn:Hc; cbn [negb]; [|split; discriminate].
  destruct (rf_list rf); [split; discriminate|].
  assert (Hloop : forall svcs t, resolve_loop pol svcs t <> WFail WcPoolNew /\ resolve_loop pol svcs t <> WFail WcPoolConnect).
  { induction svcs as [|[s r] rest IH]; intros t; cbn [resolve_loop]; [split; discriminate|].
    destruct r; [apply IH|]. destruct (err_action pol code); [apply IH|split; discriminate]. }
  destruct (resolve_loop pol (rf_services rf) []) eqn:E.
  - destruct (client_pool_ok rf cp Hc) as [n ->]. split; discriminate.
  - pose proof (Hloop (rf_services rf) []) as HL. rewrite E in HL. destruct HL as [H1 H2].
    split; intros X; inversion X; subst; [apply H1|apply H2]; reflexivity.
Qed.

(* ---- every policy ---- *)

Lemma resolve_loop_other_fail : forall pol svcs t,
  on_other pol = RaFail -> existsb svc_refused svcs = true -> wres_failed (resolve_loop pol svcs t) = true.
Proof.
  intros pol svcs t Ho. revert t. induction svcs as [|[s r] rest IH]; intros t H; cbn [existsb] in H; [discriminate|].
  cbn [resolve_loop]. unfold svc_refused at 1 in H. cbn [snd] in H. destruct r as [ms|c]; [apply IH, H|].
  unfold err_action, refusal_is_failure in *. destruct (c =? code_not_found); cbn [negb orb] in H.
  - destruct (on_not_found pol); [apply IH, H|reflexivity].
  - rewrite Ho. reflexivity.
Qed.

Definition one_service (c : nat) : reflsrv := {| rf_connect := true; rf_list := None; rf_services := [(0, RsErr c)] |}.

(* a policy never swallows a failing warm-up iff it fails on the errors that are not NOT_FOUND *)
Lemma policy_never_swallows_iff : forall pol,
  (forall rf cp, gw_spec_fails rf = true -> wres_failed (warm_up pol rf cp) = true) <-> on_other pol = RaFail.
Proof.
  intros pol. split.
  - intros H. specialize (H (one_service 7) {| cp_enabled := false; cp_number := 0 |} eq_refl).
    unfold warm_up, prepare_method_list, one_service in H. cbn in H. unfold err_action in H. cbn in H.
    destruct (on_other pol); [discriminate|reflexivity].
  - intros Ho rf cp H. unfold gw_spec_fails in H. unfold warm_up, prepare_method_list.
    destruct (rf_connect rf); cbn [negb orb] in *; [|reflexivity].
    destruct (rf_list rf); [reflexivity|]. cbn [orb] in H.
    pose proof (resolve_loop_other_fail pol (rf_services rf) [] Ho H) as Hf.
    destruct (resolve_loop pol (rf_services rf) []); [discriminate|reflexivity].
Qed.

(* ... and it lets a warm-up succeed against every endpoint the specification accepts iff it skips
   the services that are not there *)
Lemma policy_tolerates_not_found_iff : forall pol,
  (forall rf cp, gw_spec_fails rf = false -> wres_failed (warm_up pol rf cp) = false) <-> on_not_found pol = RaSkip.
Proof.
  intros pol. split.
  - intros H. specialize (H (one_service code_not_found) {| cp_enabled := false; cp_number := 0 |} eq_refl).
    unfold warm_up, prepare_method_list, one_service in H. cbn in H. unfold err_action in H. cbn in H.
    destruct (on_not_found pol); [reflexivity|discriminate].
  - intros Hn rf cp H. unfold gw_spec_fails in H. apply orb_false_iff in H. destruct H as [H Hex].
    apply orb_false_iff in H. destruct H as [Hc Hl]. apply negb_false_iff in Hc.
    unfold warm_up, prepare_method_list. rewrite Hc. cbn [negb]. destruct (rf_list rf); [discriminate|].
    assert (Hloop : forall svcs t, existsb svc_refused svcs = false -> exists t', resolve_loop pol svcs t = WOk t').
    { induction svcs as [|[s r] rest IH]; intros t He; cbn [resolve_loop]; [eexists; reflexivity|].
      cbn [existsb] in He. apply orb_false_iff in He. destruct He as [He1 He2].
      destruct r as [ms|c]; [apply IH, He2|].
      unfold svc_refused, refusal_is_failure in He1. cbn [snd] in He1. apply negb_false_iff in He1.
      unfold err_action. rewrite He1, Hn. apply IH, He2. }
    destruct (Hloop _ [] Hex) as [t' ->]. destruct (client_pool_ok rf cp Hc) as [n ->]. reflexivity.
Qed.

(* the policy "log and skip whatever the error": a refused service is swallowed *)
Definition skip_all_policy : rpolicy := {| on_not_found := RaSkip; on_other := RaSkip |}.

Lemma skip_all_swallows :
  gw_spec_fails (one_service 7) = true /\
  warm_up skip_all_policy (one_service 7) {| cp_enabled := false; cp_number := 0 |} = WOk ([], 0).
Proof. split; reflexivity. Qed.

(* ---- the pool and the engine: a failed warm-up cannot end in a successful run ---- *)

Lemma pstep_prefailed_stays : forall v n par s e s',
  pstep v n par s e = Some s' -> ph s = PhPreFailed -> ph s' = PhPreFailed.
Proof.
  intros v n par s e s' H Hp. destruct e; cbn [pstep] in H; rewrite Hp in H; try discriminate.
Qed.

Definition pool_prefailed (g : gstate) (p : nat) : Prop :=
  exists s, nth_error (pools g) p = Some s /\ ph s = PhPreFailed.

Lemma gstep_prefailed_stays : forall v cfg g e g' p,
  gstep v cfg g e = Some g' -> pool_prefailed g p -> pool_prefailed g' p.
Proof.
  intros v cfg g e g' p H [s [Hs Hp]]. destruct e as [q pe| |q|]; cbn [gstep] in H.
  - destruct (nth_error (pools g) q) as [sq|] eqn:Eq; [|discriminate].
    destruct (nth_error cfg q); [|discriminate].
    destruct (pstep v n (parent_done g) sq pe) as [sq'|] eqn:Es; [|discriminate]. inversion H. subst g'. unfold pool_prefailed. cbn [pools].
    destruct (Nat.eq_dec q p) as [->|Hne].
    + rewrite Hs in Eq. inversion Eq. subst sq. exists sq'. split; [eapply nth_error_upd_eq; exact Hs|].
      eapply pstep_prefailed_stays; eassumption.
    + exists s. split; [rewrite nth_error_upd_neq; assumption|exact Hp].
  - destruct (cancelled g); [discriminate|]. inversion H. subst. exists s. auto.
  - destruct (eng g); [discriminate|]. destruct (nth_error (pools g) q) as [sq|] eqn:Eq; [|discriminate].
    destruct (front sq) as [r|]; [|discriminate]. destruct (taken sq); [discriminate|].
    assert (Hupd : pool_prefailed {| pools := upd q (set_taken sq) (pools g); cancelled := cancelled g; eng := None |} p).
    { unfold pool_prefailed. cbn [pools]. destruct (Nat.eq_dec q p) as [->|Hne].
      - rewrite Hs in Eq. inversion Eq. subst sq. exists (set_taken s). split; [eapply nth_error_upd_eq; exact Hs|exact Hp].
      - exists s. split; [rewrite nth_error_upd_neq; assumption|exact Hp]. }
    destruct Hupd as [s2 [Hs2 Hp2]]. cbn [pools] in Hs2.
    destruct r; [destruct (all_taken _)|..]; inversion H; subst g'; exists s2; split; assumption.
  - destruct (eng g); [discriminate|]. destruct (cancelled g); [|discriminate]. inversion H. subst. exists s. auto.
Qed.

Lemma grun_prefailed_stays : forall v cfg tr g g' p,
  grun v cfg g tr = Some g' -> pool_prefailed g p -> pool_prefailed g' p.
Proof.
  intros v cfg tr. induction tr as [|e r IH]; intros g g' p H Hp; cbn [grun] in H.
  - inversion H. subst. exact Hp.
  - destruct (gstep v cfg g e) as [g1|] eqn:E; [|discriminate]. eapply IH; [exact H|]. eapply gstep_prefailed_stays; eassumption.
Qed.

Lemma gstep_warmfail_prefailed : forall v cfg g g' p,
  gstep v cfg g (GvPool p (PvPre PreWarmFail)) = Some g' -> pool_prefailed g' p.
Proof.
  intros v cfg g g' p H. cbn [gstep] in H.
  destruct (nth_error (pools g) p) as [s|] eqn:Es; [|discriminate]. destruct (nth_error cfg p); [|discriminate].
  cbn [pstep] in H. destruct (ph s); try discriminate. inversion H. subst g'. unfold pool_prefailed. cbn [pools].
  eexists. split; [eapply nth_error_upd_eq; exact Es|reflexivity].
Qed.

Lemma grun_split : forall v cfg tr1 tr2 g g',
  grun v cfg g (tr1 ++ tr2) = Some g' -> exists g1, grun v cfg g tr1 = Some g1 /\ grun v cfg g1 tr2 = Some g'.
Proof.
  intros v cfg tr1. induction tr1 as [|e r IH]; intros tr2 g g' H; cbn [app grun] in *.
  - eexists. split; [reflexivity|exact H].
  - destruct (gstep v cfg g e); [|discriminate]. apply IH, H.
Qed.

(* In EVERY history of the engine (any number of pools, any interleaving) in which the warm-up of the
   grpc gun of some pool ran against an endpoint the specification says it cannot succeed against,
   Engine.Run does not return nil. *)
Lemma failed_warm_up_never_a_successful_run : forall cfg tr g er p rf cp,
  grun fixed cfg (ginit cfg) tr = Some g -> eng g = Some er ->
  In (GvPool p (PvPre (gw_pre_outcome (warm_up tree_policy rf cp)))) tr ->
  gw_spec_fails rf = true ->
  er_res er <> RNil.
Proof.
  intros cfg tr g er p rf cp Hrun Heng Hin Hf Hnil.
  unfold gw_pre_outcome in Hin. rewrite warm_up_failure_iff_spec, Hf in Hin.
  destruct (in_split _ _ Hin) as [tr1 [tr2 ->]].
  destruct (grun_split _ _ _ _ _ _ Hrun) as [g1 [H1 H2]]. cbn [grun] in H2.
  destruct (gstep fixed cfg g1 (GvPool p (PvPre PreWarmFail))) as [g2|] eqn:E; [|discriminate].
  pose proof (grun_prefailed_stays _ _ _ _ _ p H2 (gstep_warmfail_prefailed _ _ _ _ _ E)) as [s [Hs Hp]].
  assert (Hreach : reachable cfg g) by (eexists; exact Hrun).
  destruct (outcome_nil_complete cfg g er Hreach Heng Hnil) as [Hall _].
  assert (Hlen : p < length cfg).
  { cbn [gstep] in E. destruct (nth_error (pools g1) p); [|discriminate].
    destruct (nth_error cfg p) eqn:En; [|discriminate]. apply nth_error_Some. congruence. }
  destruct (nth_error cfg p) as [n|] eqn:En; [|apply nth_error_None in En; lia].
  destruct (Hall p s n Hs En) as [_ [Hd _]]. congruence.
Qed.
