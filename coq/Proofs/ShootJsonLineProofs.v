(* Proofs about Model/ShootJsonLine.v (property C10, round 8): the tag of the entity a jsonline
   line decodes to is the tag written on THAT line; what a decoder that reuses its target does. *)
From Coq Require Import List NArith Bool.
From PV Require Import Lib.Table Lib.AmmoBytes Lib.AmmoLines Model.Sample Model.Shoot Model.AmmoCommon Model.AmmoUri Model.AmmoJson
  Model.ShootAmmo Model.ShootJsonLine Proofs.ShootAmmoProofs Proofs.AmmoJsonProofs.
Import ListNotations.

(* decoding into ANY target: the tag afterwards is the last tag member written, and the
   target's own tag when the line writes none *)
Lemma decode_into_tag l : forall e,
  j_tag (decode_into e l) = match written_tag l with Some t => t | None => j_tag e end.
Proof.
  induction l as [|m r IH]; intros e; [reflexivity|].
  unfold decode_into in *. cbn [fold_left written_tag]. rewrite IH.
  destruct (written_tag r); [reflexivity|]. destruct m; reflexivity.
Qed.

Lemma line_entity_tag l : j_tag (line_entity l) = line_tag l.
Proof. unfold line_entity, line_tag. rewrite decode_into_tag. destruct (written_tag l); reflexivity. Qed.

Lemma lines_entities_tags ls : map j_tag (lines_entities ls) = map line_tag ls.
Proof. unfold lines_entities. rewrite map_map. apply map_ext. exact line_entity_tag. Qed.

Lemma lines_entities_length ls : length (lines_entities ls) = length ls.
Proof. apply map_length. Qed.

(* a line without a tag member means an ammo without tag, whatever the other lines say *)
Lemma untagged_line_no_tag l : written_tag l = None -> j_tag (line_entity l) = [].
Proof. intros H. rewrite line_entity_tag. unfold line_tag. rewrite H. reflexivity. Qed.

(* one target for all lines is the same thing exactly when it is reset to the zero value *)
Lemma reuse_reset_all clear : (forall e, clear e = fresh_entity) ->
  forall ls cur, reuse_entities clear cur ls = lines_entities ls.
Proof.
  intros Hc. induction ls as [|l r IH]; intros cur; [reflexivity|].
  cbn [reuse_entities lines_entities map]. rewrite Hc. f_equal. apply IH.
Qed.

(* the tags a reusing decoder yields when `clear` leaves the tag alone: the tag of a line
   that writes none is the one CARRIED from the lines before *)
Fixpoint carried_tags (cur : bytes) (ls : list jline) : list bytes :=
  match ls with
  | [] => []
  | l :: r => let t := match written_tag l with Some t => t | None => cur end in t :: carried_tags t r
  end.

Lemma reuse_keeping_tag clear : (forall e, j_tag (clear e) = j_tag e) ->
  forall ls cur, map j_tag (reuse_entities clear cur ls) = carried_tags (j_tag cur) ls.
Proof.
  intros Hc. induction ls as [|l r IH]; intros cur; [reflexivity|].
  cbn [reuse_entities map carried_tags]. rewrite IH, decode_into_tag, Hc. reflexivity.
Qed.

Lemma reuse_keeping_tag_wrong clear t : (forall e, j_tag (clear e) = j_tag e) -> t <> [] ->
  map j_tag (reuse_entities clear fresh_entity [[MTag t]; []]) <> map line_tag [[MTag t]; []].
Proof.
  intros Hc Ht. rewrite (reuse_keeping_tag clear Hc). cbn. intros H. inversion H. apply Ht. assumption.
Qed.

Section File.
  Variable cfg : autotag_cfg.
  Variable url_parse : bytes -> option (bytes * bytes).

  (* from the members written on the lines to the samples *)
  Lemma json_lines_file_samples path_of xof ls es k :
    read_array url_parse (lines_entities ls) = Some es -> es <> [] ->
    shoot_deliveries cfg e_tag path_of xof 0 1 (json_stream_decode url_parse cfg0 k (lines_entities ls) JEof) =
      ammo_spec cfg e_tag path_of xof 0 1 (cycle_take k es es) /\
    map e_tag es = map line_tag ls /\ length es = length ls.
  Proof.
    intros H Hne. split; [apply json_file_samples; assumption|].
    pose proof (read_array_tags url_parse _ _ H) as Ht. rewrite lines_entities_tags in Ht.
    split; [exact Ht|]. rewrite <- (map_length e_tag es), Ht. apply map_length.
  Qed.

  (* the same members as the elements of one JSON array (readArray + scanAmmos) *)
  Lemma json_array_file_samples path_of xof ls es k :
    read_array url_parse (lines_entities ls) = Some es -> es <> [] ->
    exists ds, json_array_decode url_parse cfg0 k (lines_entities ls) = Some ds /\
      shoot_deliveries cfg e_tag path_of xof 0 1 ds = ammo_spec cfg e_tag path_of xof 0 1 (cycle_take k es es) /\
      map e_tag es = map line_tag ls.
  Proof.
    intros H Hne. exists (map SDeliver (cycle_take k es es)).
    split; [apply json_array_cyclic; assumption|]. split; [apply shoot_deliveries_spec|].
    rewrite (read_array_tags url_parse _ _ H). apply lines_entities_tags.
  Qed.
End File.

(* the source's way of holding the decode target (translate jsontarget) *)
Lemma scan_entities_zeroed t : target_zeroed t = true -> forall ls, scan_entities t ls = lines_entities ls.
Proof.
  destruct t as [|fs]; intros H ls; [reflexivity|].
  cbn [scan_entities]. apply reuse_reset_all. intros e.
  cbn [target_zeroed forallb] in H. repeat (apply andb_prop in H; destruct H as [?H H]).
  unfold clear_fields, fresh_entity.
  repeat match goal with Hx : resets _ _ = true |- _ => rewrite Hx; clear Hx end. reflexivity.
Qed.

(* a reused target whose tag field is not among the reset ones carries tags over *)
Lemma scan_entities_tag_kept fs : resets fs FTag = false ->
  forall ls, map j_tag (scan_entities (TReused fs) ls) = carried_tags [] ls.
Proof.
  intros H ls. cbn [scan_entities].
  rewrite (reuse_keeping_tag (clear_fields fs)); [reflexivity|].
  intros e. unfold clear_fields. cbn [j_tag]. rewrite H. reflexivity.
Qed.
