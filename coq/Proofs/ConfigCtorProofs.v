(* Lemmas for property C17, round 5:
   (1) constraints enforced by a component's constructor (the `headers` list of the http providers: every line
       must decode, whatever its position in the list);
   (2) the property-file reader behind ${property:FILE#KEY} (KEY=data lines, cut at the first '='). *)
From Coq Require Import List NArith ZArith Bool QArith Lia.
From PV Require Import Model.ConfigDecode Proofs.ConfigDecodeProofs.
Import ListNotations.
Local Open Scope N_scope.

(* ---------------------------------------------------------------- (1a) the header loop *)
Definition hdr_ok (h : str) : bool := match hdr_line h with inl _ => true | inr _ => false end.

Lemma hdr_loop_none : forall l acc, snd (hdr_loop acc l) = None <-> forallb hdr_ok l = true.
Proof.
  induction l as [|h r IH]; intro acc; cbn.
  - split; reflexivity.
  - unfold hdr_ok at 1. destruct (hdr_line h) as [kv|e]; cbn.
    + apply IH.
    + split; discriminate.
Qed.

(* success: every line decoded, in order, after what was there *)
Lemma hdr_loop_all : forall l acc,
  forallb hdr_ok l = true ->
  exists kvs, hdr_loop acc l = (acc ++ kvs, None) /\ map (@inl (str * str) herr) kvs = map hdr_line l.
Proof.
  induction l as [|h r IH]; intros acc H; cbn in *.
  - exists []. rewrite app_nil_r. split; reflexivity.
  - apply andb_true_iff in H. destruct H as [Hh Hr]. unfold hdr_ok in Hh.
    destruct (hdr_line h) as [kv|e] eqn:E; [|discriminate].
    destruct (IH (acc ++ [kv]) Hr) as [kvs [H1 H2]]. exists (kv :: kvs). split.
    + rewrite H1, <- app_assoc. reflexivity.
    + cbn. rewrite H2. reflexivity.
Qed.

(* failure: the error is that of the FIRST line that does not decode; the lines before it were taken *)
Lemma hdr_loop_first_bad : forall pre h post acc e,
  forallb hdr_ok pre = true -> hdr_line h = inr e ->
  exists kvs, hdr_loop acc (pre ++ h :: post) = (acc ++ kvs, Some e) /\ map (@inl (str * str) herr) kvs = map hdr_line pre.
Proof.
  induction pre as [|p pre IH]; intros h post acc e Hp Hh; cbn in *.
  - rewrite Hh. exists []. rewrite app_nil_r. split; reflexivity.
  - apply andb_true_iff in Hp. destruct Hp as [Hp1 Hp2]. unfold hdr_ok in Hp1.
    destruct (hdr_line p) as [kv|e1] eqn:E; [|discriminate].
    destruct (IH h post (acc ++ [kv]) e Hp2 Hh) as [kvs [H1 H2]]. exists (kv :: kvs). split.
    + rewrite H1, <- app_assoc. reflexivity.
    + cbn. rewrite H2. reflexivity.
Qed.

(* a malformed line at ANY position of the list is an error of the whole list *)
Theorem hdr_bad_anywhere : forall pre h post,
  hdr_ok h = false -> snd (hdr_decode (pre ++ h :: post)) <> None.
Proof.
  intros pre h post Hh Hn. unfold hdr_decode in Hn. apply hdr_loop_none in Hn.
  rewrite forallb_app in Hn. apply andb_true_iff in Hn. destruct Hn as [_ Hn]. cbn in Hn.
  rewrite Hh in Hn. discriminate.
Qed.

Theorem hdr_decode_spec : forall l,
  (forallb hdr_ok l = true ->
     exists kvs, hdr_decode l = (kvs, None) /\ map (@inl (str * str) herr) kvs = map hdr_line l)
  /\ (forallb hdr_ok l = false -> exists e, snd (hdr_decode l) = Some e).
Proof.
  intro l. split.
  - intro H. destruct (hdr_loop_all l [] H) as [kvs [H1 H2]]. exists kvs. split; assumption.
  - intro H. unfold hdr_decode. destruct (snd (hdr_loop [] l)) as [e|] eqn:E; [eauto|].
    apply hdr_loop_none in E. congruence.
Qed.

(* what a well-formed line is: brackets around NAME ':' VALUE, NAME not blank, cut at the first colon *)
Lemma split_colon_first : forall k v acc,
  forallb (fun c => negb (c =? 58)) k = true -> split_colon acc (k ++ 58 :: v) = Some (rev acc ++ k, v).
Proof.
  induction k as [|c k IH]; intros v acc H; cbn in *.
  - rewrite app_nil_r. reflexivity.
  - apply andb_true_iff in H. destruct H as [Hc Hk]. apply negb_true_iff in Hc.
    unfold c_colon. rewrite Hc. rewrite IH by assumption. cbn. rewrite <- app_assoc. reflexivity.
Qed.

Theorem hdr_line_wellformed : forall k v,
  forallb (fun c => negb (c =? 58)) k = true -> trim k <> [] ->
  hdr_line (91 :: k ++ 58 :: v ++ [93]) = inl (trim k, trim v).
Proof.
  intros k v Hk Ht. unfold hdr_line.
  assert (Hlen : Nat.ltb (length (91 :: k ++ 58 :: v ++ [93])) 3 = false).
  { apply Nat.ltb_ge. cbn [length]. rewrite app_length. cbn [length]. rewrite app_length. cbn. lia. }
  rewrite Hlen. cbn [N.eqb negb Pos.eqb].
  replace (k ++ 58 :: v ++ [93]) with ((k ++ 58 :: v) ++ [93]) by (rewrite <- app_assoc; reflexivity).
  rewrite rev_app_distr. cbn [rev app N.eqb negb Pos.eqb]. rewrite rev_involutive.
  rewrite (split_colon_first k v [] Hk). cbn [rev app].
  destruct (trim k) eqn:E; [congruence|reflexivity].
Qed.

(* ---------------------------------------------------------------- (1b) the constructor step of a plugin node *)
Lemma ctor_fields_nth : forall ffs rs i r f,
  ctor_fields rs ffs = true -> nth_error rs i = Some r -> nth_error ffs i = Some f ->
  ctor_field_ok (f_tags f) r = true.
Proof.
  induction ffs as [|f0 ffs IH]; intros rs i r f H Hr Hf; destruct i; cbn in Hf; try discriminate.
  - inversion Hf; subst. destruct rs as [|r0 rs]; cbn in Hr; [discriminate|]. inversion Hr; subst.
    cbn in H. apply andb_true_iff in H. tauto.
  - destruct rs as [|r0 rs]; cbn in Hr; [discriminate|].
    cbn in H. apply andb_true_iff in H. destruct H as [_ H]. eapply IH; eauto.
Qed.

Section Ctor.
Variable env : str -> option str.
Variable prop : str -> str -> option str.
Variable orc : okind -> str -> option Z.
Variable orcq : str -> option Q.
Variable reg : list entry.
Variable lz : bool.
Variable uq : bool.

Notation D := (decode env prop orc orcq reg lz).

(* a written option of a component whose decoded value fails a constraint enforced by the constructor: the plugin
   node is refused ... *)
Theorem ctor_plugin : forall iface fk kvs e nl fs d i f k' x,
  plugin_entry reg iface kvs = Some e -> e_conf e = Some (SStruct nl fs, d) -> entry_lazy lz fk e = false ->
  nth_error (flat_fields (SStruct nl fs)) i = Some f ->
  find_key (f_key f) (filter (fun kv => negb (is_type_key kv)) kvs) = Some (k', x) ->
  (forall F' c', D F' (f_schema f) (cur_at (struct_cur (SStruct nl fs) d) i f) x = Ok c' ->
              ctor_field_ok (f_tags f) c' = false) ->
  forall F c, notok (D F (SPlugin iface fk) c (VMap kvs)).
Proof.
  intros iface fk kvs e nl fs d i f k' x Hp Hc Hl Hf Hk Hv [|F] c; [exact I|].
  rewrite D_plugin. unfold dec_plugin.
  destruct (plugin_entry_inv _ _ _ _ Hp) as [k1 [name [H1 H2]]]. rewrite H1, H2, Hc.
  unfold entry_lazy in Hl. rewrite Hl.
  destruct (D F (SStruct nl fs) d (VMap (filter (fun kv => negb (is_type_key kv)) kvs))) as [r| |] eqn:E; try exact I.
  destruct F as [|F]; [cbn in E; discriminate|].
  rewrite D_struct in E. destruct (dec_struct_ok _ _ _ _ _ E) as [rs [-> Hd]].
  destruct (dec_fields_nth _ _ _ _ _ _ _ Hd Hf) as [r1 [Hr Hx]]. rewrite Hk in Hx.
  destruct (validate orc (CStruct rs) (SStruct nl fs)); [|exact I].
  destruct (ctor_ok (SStruct nl fs) (CStruct rs)) eqn:Hct; [|exact I].
  cbn [ctor_ok] in Hct. apply andb_true_iff in Hct. destruct Hct as [Hct _]. pose proof (ctor_fields_nth _ _ _ _ _ Hct Hr Hf) as Hc1.
  rewrite (Hv _ _ Hx) in Hc1. discriminate.
Qed.

(* ... and so is the whole configuration, wherever the component sits *)
Theorem ctor_at : forall p s cur v iface fk tags d0 kvs e nl fs d i f k' x,
  reach reg lz uq p [] s cur v = Some (SPlugin iface fk, tags, d0, VMap kvs) ->
  plugin_entry reg iface kvs = Some e -> e_conf e = Some (SStruct nl fs, d) -> entry_lazy lz fk e = false ->
  nth_error (flat_fields (SStruct nl fs)) i = Some f ->
  find_key (f_key f) (filter (fun kv => negb (is_type_key kv)) kvs) = Some (k', x) ->
  (forall F' c', D F' (f_schema f) (cur_at (struct_cur (SStruct nl fs) d) i f) x = Ok c' ->
              ctor_field_ok (f_tags f) c' = false) ->
  forall F c, notok (D F s c v).
Proof.
  intros. eapply propagate; eauto. intros F' c'. eapply ctor_plugin; eauto.
Qed.

(* the list of header lines: written as a list of strings without "${", it decodes to exactly those strings *)
Lemma strs_of_map : forall ls, strs_of (map CStr ls) = Some ls.
Proof. induction ls as [|x r IH]; cbn; [reflexivity|rewrite IH; reflexivity]. Qed.

Lemma dec_elems_strings : forall F ls cur,
  forallb (fun x => negb (has_dollar_brace x)) ls = true ->
  dec_elems (D (S F)) (SScalar KString) cur (map VStr ls) = Ok (map CStr ls).
Proof.
  induction ls as [|x r IH]; intros cur H; cbn [map dec_elems]; [reflexivity|].
  cbn in H. apply andb_true_iff in H. destruct H as [Hx Hr]. apply negb_true_iff in Hx.
  rewrite IH by assumption.
  assert (Hd : forall c, D (S F) (SScalar KString) c (VStr x) = Ok (CStr x)).
  { intro c. cbn [decode]. unfold hooks. rewrite (no_placeholder_unchanged env prop orc orcq _ _ Hx). reflexivity. }
  rewrite Hd. reflexivity.
Qed.

Theorem headers_list_refused : forall F ls cur c',
  forallb (fun x => negb (has_dollar_brace x)) ls = true ->
  forallb hdr_ok ls = false ->
  D F (SSlice (SScalar KString)) cur (VList (map VStr ls)) = Ok c' ->
  ctor_field_ok [TCtorHeaders] c' = false.
Proof.
  intros F ls cur c' Hd Hb H. destruct F as [|[|F]]; [discriminate| |].
  - destruct ls as [|x r]; [discriminate|]. cbn in H. discriminate.
  - rewrite D_slice in H. unfold dec_slice in H. rewrite dec_elems_strings in H by assumption.
    cbn in H. inversion H; subst. cbn. rewrite strs_of_map.
    destruct (proj2 (hdr_decode_spec ls) Hb) as [e He]. rewrite He. reflexivity.
Qed.

End Ctor.

(* ---------------------------------------------------------------- (2) property files *)
Definition no_byte (b : N) (s : str) : bool := forallb (fun c => negb (c =? b)) s.

Lemma rev_append_nil : forall (A : Type) (l : list A), rev_append l [] = rev l.
Proof. intros. rewrite rev_append_rev. apply app_nil_r. Qed.

(* the file made of the given lines, each ended by '\n', is read back as those lines *)
Lemma raw_lines_acc : forall l acc rest,
  no_byte 10 l = true -> raw_lines acc (l ++ 10 :: rest) = (rev acc ++ l) :: raw_lines [] rest.
Proof.
  induction l as [|c l IH]; intros acc rest H; cbn in *.
  - rewrite rev_append_nil, app_nil_r. reflexivity.
  - apply andb_true_iff in H. destruct H as [Hc Hl]. apply negb_true_iff in Hc. rewrite Hc.
    rewrite IH by assumption. cbn. rewrite <- app_assoc. reflexivity.
Qed.

Definition render (lines : list str) : str := flat_map (fun l => l ++ [10]) lines.

Theorem raw_lines_render : forall lines,
  forallb (no_byte 10) lines = true -> raw_lines [] (render lines) = lines.
Proof.
  unfold render. induction lines as [|l r IH]; intro H; cbn [flat_map forallb] in *; [reflexivity|].
  apply andb_true_iff in H. destruct H as [Hl Hr].
  rewrite <- app_assoc. cbn [app]. rewrite raw_lines_acc by assumption. cbn [rev app]. rewrite IH by assumption. reflexivity.
Qed.

(* ... and a last line without the final '\n' counts too *)
Lemma raw_lines_tail : forall l acc, no_byte 10 l = true -> (acc <> [] \/ l <> []) ->
  raw_lines acc l = [rev acc ++ l].
Proof.
  induction l as [|c l IH]; intros acc H Hne; cbn in *.
  - destruct acc; [destruct Hne; congruence|]. rewrite rev_append_nil, app_nil_r. reflexivity.
  - apply andb_true_iff in H. destruct H as [Hc Hl]. apply negb_true_iff in Hc. rewrite Hc.
    rewrite IH; [|assumption|left; discriminate]. cbn. rewrite <- app_assoc. reflexivity.
Qed.

Lemma split_eq_first : forall k data acc,
  no_byte 61 k = true -> split_eq acc (k ++ 61 :: data) = Some (rev acc ++ k, data).
Proof.
  induction k as [|c k IH]; intros data acc H; cbn in *.
  - rewrite rev_append_nil, app_nil_r. reflexivity.
  - apply andb_true_iff in H. destruct H as [Hc Hk]. apply negb_true_iff in Hc. rewrite Hc.
    rewrite IH by assumption. cbn. rewrite <- app_assoc. reflexivity.
Qed.

Lemma split_eq_none : forall l acc, no_byte 61 l = true -> split_eq acc l = None.
Proof.
  induction l as [|c l IH]; intros acc H; cbn in *; [reflexivity|].
  apply andb_true_iff in H. destruct H as [Hc Hl]. apply negb_true_iff in Hc. rewrite Hc. apply IH. assumption.
Qed.

(* the key a line defines (None: the line has no '=') *)
Definition line_key (l : str) : option str := option_map fst (split_eq [] (drop_cr l)).

(* KEY=data with KEY free of '=' : the data is EVERYTHING after the first '=', further '=' signs included *)
Theorem prop_scan_hit : forall key data pre post,
  no_byte 61 key = true ->
  drop_cr (key ++ 61 :: data) = key ++ 61 :: data ->                 (* the line does not end in CR *)
  line_fits (key ++ 61 :: data) = true ->
  forallb line_fits pre = true ->
  forallb (fun l => match line_key l with Some k => negb (str_eqb k key) | None => true end) pre = true ->
  prop_scan key (pre ++ (key ++ 61 :: data) :: post) = Some data.
Proof.
  intros key data pre post Hk Hcr Hfit. induction pre as [|l pre IH]; intros Hf Hn; cbn [app prop_scan].
  - rewrite Hfit, Hcr, (split_eq_first key data [] Hk). cbn. rewrite str_eqb_refl. reflexivity.
  - cbn in Hf, Hn. apply andb_true_iff in Hf. destruct Hf as [Hf1 Hf2].
    apply andb_true_iff in Hn. destruct Hn as [Hn1 Hn2]. rewrite Hf1.
    unfold line_key in Hn1. destruct (split_eq [] (drop_cr l)) as [[k d]|]; cbn in Hn1.
    + apply negb_true_iff in Hn1. rewrite Hn1. apply IH; assumption.
    + apply IH; assumption.
Qed.

(* no line defines the key: the property is missing *)
Theorem prop_scan_miss : forall key lines,
  forallb (fun l => match line_key l with Some k => negb (str_eqb k key) | None => true end) lines = true ->
  prop_scan key lines = None.
Proof.
  intros key. induction lines as [|l r IH]; intro H; cbn in *; [reflexivity|].
  apply andb_true_iff in H. destruct H as [H1 H2]. destruct (line_fits l); [|reflexivity].
  unfold line_key in H1. destruct (split_eq [] (drop_cr l)) as [[k d]|]; cbn in H1.
  - apply negb_true_iff in H1. rewrite H1. apply IH. assumption.
  - apply IH. assumption.
Qed.

(* a key with '=' in it is never found *)
Theorem prop_scan_eq_key : forall key lines, no_byte 61 key = false -> prop_scan key lines = None.
Proof.
  intros key lines Hk. apply prop_scan_miss. apply forallb_forall. intros l _.
  unfold line_key. destruct (split_eq [] (drop_cr l)) as [[k d]|] eqn:E; cbn; [|reflexivity].
  apply negb_true_iff. destruct (str_eqb k key) eqn:Ek; [|reflexivity].
  apply str_eqb_eq in Ek. subst k. exfalso.
  assert (Hg : forall s acc k d, split_eq acc s = Some (k, d) -> no_byte 61 acc = true -> no_byte 61 k = true).
  { induction s as [|c s IHs]; intros acc k0 d0 Hs Ha; cbn in Hs; [discriminate|].
    destruct (c =? 61) eqn:Ec.
    - inversion Hs; subst. rewrite rev_append_nil. unfold no_byte. rewrite forallb_forall. intros y Hy.
      apply in_rev in Hy. unfold no_byte in Ha. rewrite forallb_forall in Ha. auto.
    - eapply IHs; [exact Hs|]. cbn. rewrite Ec. exact Ha. }
  rewrite (Hg _ _ _ _ E eq_refl) in Hk. discriminate.
Qed.

Lemma drop_cr_id : forall l, no_byte 13 l = true -> drop_cr l = l.
Proof.
  induction l as [|c r IH]; intro H; [reflexivity|].
  cbn in H. apply andb_true_iff in H. destruct H as [Hc Hr]. apply negb_true_iff in Hc.
  cbn [drop_cr]. destruct r as [|c2 r2]; [rewrite Hc; reflexivity|]. rewrite IH by assumption. reflexivity.
Qed.

(* one trailing CR (a CRLF file) is not part of the data *)
Lemma drop_cr_crlf : forall l, no_byte 13 l = true -> drop_cr (l ++ [13]) = l.
Proof.
  induction l as [|c r IH]; intro H; [reflexivity|].
  cbn in H. apply andb_true_iff in H. destruct H as [Hc Hr].
  cbn [app]. change (drop_cr (c :: r ++ [13])) with (match r ++ [13] with [] => if c =? 13 then [] else [c] | _ => c :: drop_cr (r ++ [13]) end).
  destruct (r ++ [13]) eqn:E; [destruct r; discriminate|]. rewrite IH by assumption. reflexivity.
Qed.

Definition other_key (key : str) (l : str) : bool :=
  match line_key l with Some k => negb (str_eqb k key) | None => true end.

(* whole files: lines ended by '\n' *)
Theorem prop_file_hit : forall files file key data pre post,
  files file = Some (render (pre ++ (key ++ 61 :: data) :: post)) ->
  forallb (no_byte 10) (pre ++ (key ++ 61 :: data) :: post) = true ->
  no_byte 61 key = true -> no_byte 13 (key ++ 61 :: data) = true ->
  forallb line_fits (pre ++ [key ++ 61 :: data]) = true ->
  forallb (other_key key) pre = true ->
  prop_of_files files file key = Some data.
Proof.
  intros files file key data pre post Hf Hnl Hk Hcr Hfit Ho. unfold prop_of_files. rewrite Hf.
  rewrite raw_lines_render by assumption.
  rewrite forallb_app in Hfit. apply andb_true_iff in Hfit. destruct Hfit as [Hfp Hfl]. cbn in Hfl.
  apply andb_true_iff in Hfl. destruct Hfl as [Hfl _].
  apply prop_scan_hit; auto. apply drop_cr_id. assumption.
Qed.

Theorem prop_file_miss : forall files file key,
  (files file = None -> prop_of_files files file key = None)
  /\ (forall lines, files file = Some (render lines) -> forallb (no_byte 10) lines = true ->
        forallb (other_key key) lines = true -> prop_of_files files file key = None)
  /\ (no_byte 61 key = false -> prop_of_files files file key = None).
Proof.
  intros files file key. unfold prop_of_files. split; [intros ->; reflexivity|]. split.
  - intros lines Hf Hnl Ho. rewrite Hf, raw_lines_render by assumption. apply prop_scan_miss. exact Ho.
  - intro Hk. destruct (files file); [|reflexivity]. apply prop_scan_eq_key. exact Hk.
Qed.
