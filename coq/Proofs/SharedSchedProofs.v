(* Proofs about Model/SharedSched.v: what any instance sees of a shared unlimited schedule that some
   other instance starts, for every interleaving of any number of instances and any clock. *)
From Coq Require Import List ZArith Bool Arith Lia.
From PV Require Import Model.SharedSched.
Import ListNotations.
Local Open Scope Z_scope.

(* ---------------------------------------------------------------- lists *)
Lemma nth_error_lupd_same : forall A (l : list A) i x y,
  nth_error l i = Some x -> nth_error (lupd i y l) i = Some y.
Proof. induction l; destruct i; cbn; intros; try discriminate; eauto. Qed.

Lemma nth_error_lupd_other : forall A (l : list A) i j y,
  i <> j -> nth_error (lupd i y l) j = nth_error l j.
Proof. induction l; destruct i, j; cbn; intros; try congruence; eauto. Qed.

(* ---------------------------------------------------------------- positions of unlilmited.go *)
Inductive pos : Type := PIdle | PB3 | PB2 | PB1 | PExit | PAfter | PRetN | PL1 | PL2.

Definition next_tail : list kont := [KAct AReadNow; KAct ARetNext].
Definition code_of (p : pos) : list kont :=
  match p with
  | PIdle => []
  | PB3 => KAct AReadNow :: KAct AStoreFinishLocal :: KAct AMarkStarted :: KOnceExit :: next_tail
  | PB2 => KAct AStoreFinishLocal :: KAct AMarkStarted :: KOnceExit :: next_tail
  | PB1 => KAct AMarkStarted :: KOnceExit :: next_tail
  | PExit => KOnceExit :: next_tail
  | PAfter => next_tail
  | PRetN => [KAct ARetNext]
  | PL1 => [KAct AReadNow; KAct ARetLeft]
  | PL2 => [KAct ARetLeft]
  end.

Section Inv.
Variable d lo0 : Z.

Definition pinv (s : ustate) (lo : Z) (st : option Z) (i : nat) (th : uthread) (p : pos) : Prop :=
  match p with
  | PIdle => True
  | PB3 => u_once s = OBusy i /\ u_started s = false
  | PB2 => u_once s = OBusy i /\ u_started s = false /\ lo0 <= t_loc th <= lo
  | PB1 => u_once s = OBusy i /\ u_started s = false /\
           exists s0, st = Some s0 /\ u_finish s = s0 + d /\ lo0 <= s0 <= lo
  | PExit => u_once s = OBusy i /\ u_started s = true
  | PAfter => u_once s = ODone
  | PRetN => u_once s = ODone /\ exists s0, st = Some s0 /\ s0 <= t_loc th <= lo
  | PL1 => u_started s = true
  | PL2 => u_started s = true /\ t_loc th <= lo
  end.

Definition hist_ok (st : option Z) (started : bool) (lo : Z) (h : list (ures * Z)) : Prop :=
  forall r a, In (r, a) h ->
    res_ok d st r a /\ a <= lo /\ (started = false -> r = RLeft (-1)).

Definition T (s : ustate) (lo : Z) (st : option Z) (j : nat) (th : uthread) : Prop :=
  (exists p, t_k th = code_of p /\ pinv s lo st j th p) /\
  forallb (fun o => negb (is_start o)) (t_todo th) = true /\
  hist_ok st (u_started s) lo (t_hist th).

Definition G (s : ustate) (lo : Z) (st : option Z) : Prop :=
  (u_started s = true -> exists s0, st = Some s0 /\ u_finish s = s0 + d /\ lo0 <= s0 <= lo) /\
  (u_once s = ODone -> u_started s = true) /\
  (u_once s = OFresh -> u_started s = false) /\
  lo0 <= lo.

Definition Inv (g : gstate) : Prop :=
  G (g_s g) (g_lo g) (g_start g) /\
  forall j th, nth_error (g_threads g) j = Some th -> T (g_s g) (g_lo g) (g_start g) j th.

(* ---- stability of another thread's invariant under each kind of shared change ---- *)
Ltac stab_tac H :=
  let p := fresh "p" in let Hk := fresh "Hk" in let Hp := fresh "Hp" in
  let Htodo := fresh "Htodo" in let Hh := fresh "Hh" in
  destruct H as [[p [Hk Hp]] [Htodo Hh]]; split; [|split];
  [ exists p; split; auto; destruct p; cbn in *;
    repeat match goal with
           | H : _ /\ _ |- _ => destruct H
           | H : exists _, _ |- _ => destruct H
           end;
    try congruence; repeat split; try congruence; try lia;
    try (eexists; repeat split; eauto; lia)
  | exact Htodo
  | let r := fresh "r" in let a := fresh "a" in let Hin := fresh "Hin" in
    intros r a Hin; specialize (Hh r a Hin); cbn in *; intuition (try congruence; try lia) ].

Lemma T_time : forall s lo lo' st j th, lo <= lo' -> T s lo st j th -> T s lo' st j th.
Proof. intros s lo lo' st j th Hle H. stab_tac H. Qed.

Lemma T_enter : forall s lo st i j th, u_once s = OFresh -> i <> j ->
  T s lo st j th -> T (set_once s (OBusy i)) lo st j th.
Proof. intros s lo st i j th Hf Hij H. stab_tac H. Qed.

Lemma T_store : forall s lo st i j th f t, u_once s = OBusy i -> u_started s = false -> i <> j ->
  T s lo st j th -> T (set_finish s f) lo (Some t) j th.
Proof.
  intros s lo st i j th f t Ho Hs Hij H.
  destruct H as [[p [Hk Hp]] [Htodo Hh]]; split; [|split]; auto.
  - exists p; split; auto. destruct p; cbn in *; intuition (try congruence).
  - intros r a Hin. destruct (Hh r a Hin) as [_ [Ha Htriv]]. cbn.
    rewrite (Htriv Hs). cbn. intuition.
Qed.

Lemma T_mark : forall s lo st i j th, u_once s = OBusy i -> i <> j ->
  T s lo st j th -> T (set_started s) lo st j th.
Proof. intros s lo st i j th Ho Hij H. stab_tac H. Qed.

Lemma T_exit : forall s lo st i j th, u_once s = OBusy i -> i <> j ->
  T s lo st j th -> T (set_once s ODone) lo st j th.
Proof. intros s lo st i j th Ho Hij H. stab_tac H. Qed.

(* ---- results added to a history ---- *)
Lemma hist_ok_time : forall st b lo lo' h, lo <= lo' -> hist_ok st b lo h -> hist_ok st b lo' h.
Proof. intros st b lo lo' h Hle H r a Hin. specialize (H r a Hin). intuition lia. Qed.

Lemma hist_ok_snoc : forall st b lo h r a,
  hist_ok st b lo h -> res_ok d st r a -> a <= lo -> (b = false -> r = RLeft (-1)) ->
  hist_ok st b lo (h ++ [(r, a)]).
Proof.
  intros st b lo h r a H Hr Ha Hb r' a' Hin. apply in_app_or in Hin. destruct Hin as [Hin|Hin].
  - auto.
  - cbn in Hin. destruct Hin as [E|[]]. inversion E; subst. auto.
Qed.

(* ---- one step preserves the invariant ---- *)
Lemma Inv_after : forall g i th now s' th' e,
  nth_error (g_threads g) i = Some th ->
  G s' now (match e with Some t => Some t | None => g_start g end) ->
  T s' now (match e with Some t => Some t | None => g_start g end) i th' ->
  (forall j thj, i <> j -> nth_error (g_threads g) j = Some thj ->
     T s' now (match e with Some t => Some t | None => g_start g end) j thj) ->
  Inv (g_after g i now s' th' e).
Proof.
  intros g i th now s' th' e Hnth HG HT Hoth. split; cbn; auto.
  intros j thj Hj. destruct (Nat.eq_dec i j) as [->|Hne].
  - rewrite (nth_error_lupd_same _ _ _ _ _ Hnth) in Hj. inversion Hj; subst. auto.
  - rewrite nth_error_lupd_other in Hj by auto. eauto.
Qed.

Lemma todo_tl : forall o l, forallb (fun o => negb (is_start o)) (o :: l) = true ->
  forallb (fun o => negb (is_start o)) l = true.
Proof. intros o l H. cbn in H. apply andb_true_iff in H. tauto. Qed.

Ltac solveG :=
  match goal with
  | HG : G _ _ _ |- G _ _ _ =>
      destruct HG as [HG1 [HG2 [HG3 HG4]]]; unfold G; cbn in *;
      repeat split; intros; try congruence; try lia; auto;
      try (match goal with H : ?a = true -> exists _, _, H' : ?a = true |- _ =>
             let z := fresh "z" in destruct (H H') as [z [? [? ?]]]; exists z; intuition (try congruence; try lia) end)
  end.

Lemma step_inv : forall g g', Inv g -> gstep d unl_progs g g' -> Inv g'.
Proof.
  intros g g' [HG HT] Hstep. inversion Hstep as [g0 i th now s' th' e Hnth Hlo Hst]; subst g0 g'.
  pose proof (HT i th Hnth) as Hi.
  destruct Hi as [[p [Hk Hp]] [Htodo Hh]].
  assert (Hlo0 : lo0 <= now) by (destruct HG as [_ [_ [_ ?]]]; lia).
  unfold ustep in Hst. destruct (t_todo th) as [|o todo] eqn:Etodo; [discriminate|].
  pose proof (todo_tl _ _ Htodo) as Htl.
  assert (Hh' : hist_ok (g_start g) (u_started (g_s g)) now (t_hist th)) by (apply hist_ok_time with (lo := g_lo g); auto).
  destruct p; rewrite Hk in Hst; cbn [code_of next_tail] in Hst.
  - (* idle: the first instruction of the operation *)
    destruct o as [| |t0]; [| |cbn in Htodo; discriminate]; cbn in Hst.
    + (* Next: the Once *)
      destruct (u_once (g_s g)) eqn:Eo; [| discriminate |].
      * inversion Hst; subst; clear Hst. eapply Inv_after; eauto.
        -- solveG.
        -- split; [|split]; cbn; rewrite ?Etodo; auto.
           exists PB3. split; auto. cbn. destruct HG as [_ [_ [HG3 _]]]. auto.
        -- intros j thj Hne Hj. apply T_enter; auto. apply T_time with (lo := g_lo g); auto.
      * inversion Hst; subst; clear Hst. eapply Inv_after; eauto.
        -- solveG.
        -- split; [|split]; cbn; rewrite ?Etodo; auto. exists PAfter. split; auto.
        -- intros j thj Hne Hj. apply T_time with (lo := g_lo g); auto.
    + (* Left: the started flag *)
      destruct (u_started (g_s g)) eqn:Es; inversion Hst; subst; clear Hst; eapply Inv_after; eauto.
      * solveG.
      * split; [|split]; cbn; rewrite ?Etodo, ?Es; auto. exists PL1. split; auto.
      * intros j thj Hne Hj. apply T_time with (lo := g_lo g); auto.
      * solveG.
      * split; [|split]; cbn; rewrite ?Etodo, ?Es; auto.
        -- exists PIdle. split; [reflexivity|exact I].
        -- apply hist_ok_snoc; auto; try lia. cbn. auto.
      * intros j thj Hne Hj. apply T_time with (lo := g_lo g); auto.
  - (* PB3: time.Now() inside the Once *)
    cbn in Hst. inversion Hst; subst; clear Hst. cbn in Hp. eapply Inv_after; eauto.
    + solveG.
    + split; [|split]; cbn; rewrite ?Etodo, ?Es; auto. exists PB2. split; auto. cbn. intuition lia.
    + intros j thj Hne Hj. apply T_time with (lo := g_lo g); auto.
  - (* PB2: finish.Store *)
    cbn in Hst. inversion Hst; subst; clear Hst. cbn in Hp. destruct Hp as [Ho [Hs Hl]].
    eapply Inv_after; eauto.
    + destruct HG as [HG1 [HG2 [HG3 HG4]]]. unfold G; cbn. repeat split; intros; try congruence; try lia; auto.
    + split; [|split]; cbn; rewrite ?Etodo; auto.
      * exists PB1. split; auto. cbn. repeat split; auto. exists (t_loc th). intuition lia.
      * intros r a Hin. destruct (Hh' r a Hin) as [_ [Ha Htriv]]. rewrite (Htriv Hs). cbn. intuition.
    + intros j thj Hne Hj. eapply T_store; eauto. apply T_time with (lo := g_lo g); auto.
  - (* PB1: MarkStarted *)
    cbn in Hp. destruct Hp as [Ho [Hs [s0 [Hst0 [Hf Hr]]]]].
    cbn in Hst. rewrite Hs in Hst. inversion Hst; subst; clear Hst.
    eapply Inv_after; eauto.
    + destruct HG as [HG1 [HG2 [HG3 HG4]]]. unfold G; cbn. repeat split; intros; try congruence; try lia.
      exists s0. intuition lia.
    + split; [|split]; cbn; rewrite ?Etodo; auto.
      * exists PExit. split; auto. cbn. auto.
      * intros r a Hin. destruct (Hh' r a Hin) as [H1 [H2 H3]]. intuition congruence.
    + intros j thj Hne Hj. eapply T_mark; eauto. apply T_time with (lo := g_lo g); auto.
  - (* PExit *)
    cbn in Hp. destruct Hp as [Ho Hs].
    cbn in Hst. inversion Hst; subst; clear Hst. eapply Inv_after; eauto.
    + destruct HG as [HG1 [HG2 [HG3 HG4]]]. unfold G; cbn. repeat split; intros; try congruence; try lia.
      destruct (HG1 H) as [s0 [? [? ?]]]. exists s0. intuition lia.
    + split; [|split]; cbn; rewrite ?Etodo; auto. exists PAfter. split; [reflexivity|]. cbn. reflexivity.
    + intros j thj Hne Hj. eapply T_exit; eauto. apply T_time with (lo := g_lo g); auto.
  - (* PAfter: now := time.Now() *)
    cbn in Hp. cbn in Hst. inversion Hst; subst; clear Hst. eapply Inv_after; eauto.
    + solveG.
    + split; [|split]; cbn; rewrite ?Etodo; auto. exists PRetN. split; auto. cbn. split; auto.
      destruct HG as [HG1 [HG2 _]]. destruct (HG1 (HG2 Hp)) as [s0 [? [? ?]]]. exists s0. intuition lia.
    + intros j thj Hne Hj. apply T_time with (lo := g_lo g); auto.
  - (* PRetN: finish.Load and the result of Next *)
    cbn in Hp. destruct Hp as [Ho [s0 [Hs0 Hr]]].
    cbn in Hst. inversion Hst; subst; clear Hst. eapply Inv_after; eauto.
    + solveG.
    + destruct HG as [HG1 [HG2 _]]. pose proof (HG2 Ho) as Hs. destruct (HG1 Hs) as [s1 [Hs1 [Hf Hr1]]].
      assert (s1 = s0) by congruence. subst s1.
      split; [|split]; cbn; rewrite ?Etodo; auto.
      * exists PIdle. split; [reflexivity|exact I].
      * apply hist_ok_snoc; auto; try lia; [|intros; congruence].
        unfold next_res. rewrite Hf.
        destruct (Z.ltb_spec (t_loc th) (s0 + d)).
        -- destruct (Z.ltb_spec (t_loc th) (s0 + d - d)); [lia|]. cbn. exists s0. intuition lia.
        -- cbn. exists s0. intuition lia.
    + intros j thj Hne Hj. apply T_time with (lo := g_lo g); auto.
  - (* PL1: time.Now() of Left *)
    cbn in Hp. cbn in Hst. inversion Hst; subst; clear Hst. eapply Inv_after; eauto.
    + solveG.
    + split; [|split]; cbn; rewrite ?Etodo; auto. exists PL2. split; auto. cbn. split; auto. lia.
    + intros j thj Hne Hj. apply T_time with (lo := g_lo g); auto.
  - (* PL2: finish.Load and the result of Left *)
    cbn in Hp. destruct Hp as [Hs Hl].
    cbn in Hst. inversion Hst; subst; clear Hst. eapply Inv_after; eauto.
    + solveG.
    + destruct HG as [HG1 _]. destruct (HG1 Hs) as [s0 [Hs0 [Hf Hr]]].
      split; [|split]; cbn; rewrite ?Etodo; auto.
      * exists PIdle. split; [reflexivity|exact I].
      * apply hist_ok_snoc; auto; try lia; [|intros; congruence].
        unfold left_res. rewrite Hf. destruct (Z.ltb_spec (t_loc th) (s0 + d)); cbn; auto.
        right. split; auto. exists s0. intuition lia.
    + intros j thj Hne Hj. apply T_time with (lo := g_lo g); auto.
Qed.

(* no step of an instance panics ("schedule is already started") *)
Lemma inv_no_panic : forall g, Inv g -> ~ ustuck d unl_progs g.
Proof.
  intros g [HG HT] [i [th [now [Hnth [Hlo Hst]]]]].
  destruct (HT i th Hnth) as [[p [Hk Hp]] [Htodo Hh]].
  unfold ustep in Hst. destruct (t_todo th) as [|o todo]; [discriminate|].
  destruct p; rewrite Hk in Hst; cbn [code_of next_tail] in Hst; cbn in Hp.
  - destruct o as [| |t0]; [| |cbn in Htodo; discriminate]; cbn in Hst.
    + destruct (u_once (g_s g)); discriminate.
    + destruct (u_started (g_s g)); discriminate.
  - discriminate.
  - discriminate.
  - cbn in Hst. destruct Hp as [_ [Hs _]]. rewrite Hs in Hst. discriminate.
  - discriminate.
  - discriminate.
  - discriminate.
  - discriminate.
  - discriminate.
Qed.
End Inv.

Lemma init_inv : forall d c0 lo plans, inst_plans plans = true -> Inv d lo (uinit c0 lo plans).
Proof.
  intros d c0 lo plans Hp. split; cbn.
  - unfold G; cbn. repeat split; intros; try congruence; try lia.
  - intros j th Hj. apply nth_error_In in Hj. apply in_map_iff in Hj. destruct Hj as [ops [E Hin]]. subst th.
    split; [|split]; cbn.
    + exists PIdle. split; [reflexivity|exact I].
    + unfold inst_plans in Hp. rewrite forallb_forall in Hp. auto.
    + intros r a [].
Qed.

Lemma reach_inv : forall d c0 lo plans g, inst_plans plans = true ->
  ureach d unl_progs (uinit c0 lo plans) g -> Inv d lo g.
Proof.
  intros d c0 lo plans g Hp H. induction H.
  - apply init_inv; auto.
  - eapply step_inv; eauto.
Qed.

(* Every result any instance got is consistent with ONE start instant, which lies between the
   beginning of the run and the present: Left() = 0 / Next() = _, false only when the whole duration
   since that instant has elapsed, Next() = t, true only with t inside [start, start + d). *)
Theorem shared_unl_consistent : forall d c0 lo plans g,
  inst_plans plans = true -> ureach d unl_progs (uinit c0 lo plans) g ->
  (forall i th r a, nth_error (g_threads g) i = Some th -> In (r, a) (t_hist th) ->
     res_ok d (g_start g) r a /\ a <= g_lo g) /\
  (forall s0, g_start g = Some s0 -> lo <= s0 <= g_lo g \/ u_started (g_s g) = false) /\
  ~ ustuck d unl_progs g.
Proof.
  intros d c0 lo plans g Hp H. pose proof (reach_inv _ _ _ _ _ Hp H) as HI. split; [|split].
  - intros i th r a Hnth Hin. destruct HI as [_ HT]. destruct (HT i th Hnth) as [_ [_ Hh]].
    destruct (Hh r a Hin) as [? [? _]]. auto.
  - intros s0 Hs0. destruct HI as [[HG1 _] _]. destruct (u_started (g_s g)) eqn:E; auto.
    destruct (HG1 eq_refl) as [s1 [? [? ?]]]. left. assert (s1 = s0) by congruence. subst. lia.
  - eapply inv_no_panic; eauto.
Qed.

(* The clause of C11: as long as less than the duration has passed since the instances began, no
   instance is told that the shared schedule is finished, whatever the other instances do (in
   particular while one of them is starting it), whatever the construction instant [c0]. *)
Theorem shared_unl_window : forall d c0 lo plans g,
  inst_plans plans = true -> ureach d unl_progs (uinit c0 lo plans) g -> g_lo g < lo + d ->
  forall i th r a, nth_error (g_threads g) i = Some th -> In (r, a) (t_hist th) -> says_finished r = false.
Proof.
  intros d c0 lo plans g Hp H Hw i th r a Hnth Hin.
  pose proof (reach_inv _ _ _ _ _ Hp H) as [[HG1 _] HT].
  destruct (HT i th Hnth) as [_ [_ Hh]]. destruct (Hh r a Hin) as [Hr [Ha Htriv]].
  destruct (u_started (g_s g)) eqn:Es.
  - destruct (HG1 eq_refl) as [s0 [Hs0 [_ Hrange]]].
    destruct r as [t ok|v|]; cbn in *; auto.
    + destruct ok; auto. destruct Hr as [s [E [? ?]]]. assert (s = s0) by congruence. subst. lia.
    + destruct Hr as [->|[-> [s [E ?]]]]; auto. assert (s = s0) by congruence. subst. lia.
  - rewrite (Htriv eq_refl). reflexivity.
Qed.

(* the executable scheduler produces reachable states *)
Lemma urun_sound : forall d P sch g g', urun d P sch g = Some g' -> ureach d P g g'.
Proof.
  intros d P sch. induction sch as [|[i now] r IH]; cbn; intros g g' H.
  - inversion H; subst. constructor.
  - destruct (nth_error (g_threads g) i) as [th|] eqn:Eth; [|discriminate].
    destruct (Z.ltb_spec now (g_lo g)); [discriminate|].
    destruct (ustep d P now i (g_s g) th) as [[[[s' th'] e]|]|] eqn:Es; try discriminate.
    assert (Hs : gstep d P g (g_after g i now s' th' e)) by (econstructor; eauto).
    specialize (IH _ _ H). clear - IH Hs.
    induction IH.
    + econstructor; [constructor|eauto].
    + econstructor; eauto.
Qed.

(* With "started" published before the finish time the clause is false: one instance starts a one
   hour schedule constructed at instant 0, another one is told at instant 10 that it is finished. *)
Definition swapped_witness : list (nat * Z) := [(0%nat, 10); (0%nat, 10); (1%nat, 10); (1%nat, 10); (1%nat, 10)].

Theorem swapped_refuted :
  exists g, ureach 3600 swapped_progs (uinit 0 10 [[UNext]; [ULeft]]) g /\ g_lo g < 10 + 3600 /\
    exists th, nth_error (g_threads g) 1 = Some th /\ In (RLeft 0, 10) (t_hist th).
Proof.
  destruct (urun 3600 swapped_progs swapped_witness (uinit 0 10 [[UNext]; [ULeft]])) as [g|] eqn:E;
    [|vm_compute in E; discriminate].
  exists g. split; [eapply urun_sound; eauto|].
  vm_compute in E. inversion E; subst; clear E. cbn. split; [lia|].
  eexists. split; [reflexivity|]. cbn. auto.
Qed.

(* meaning of the executable judgment applied to the runs of the real code *)
Lemma shared_seen_ok_b_sound : forall within fin_seen next_false,
  shared_seen_ok_b within fin_seen next_false = true -> within = true -> fin_seen = false /\ next_false = false.
Proof. intros [] [] []; cbn; intros; auto; discriminate. Qed.
