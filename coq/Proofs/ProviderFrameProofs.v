(* Proofs about Model/ProviderFrame.v: with the statements of Run in the order of the sources,
   EVERY return of Run closes the sink — bounds reached, cancelled at any moment including before
   Run started, source that does not open — and a context test above the `defer` does not. *)
From Coq Require Import List Arith Bool Lia.
From PV Require Import Model.Provider Model.ProviderFrame Proofs.ProviderProofs.
Import ListNotations.

(* a machine all of whose Stops report the sink closed *)
Definition stops_closed {St : Type} (step : bool -> St -> sres St) : Prop :=
  forall c s o cl, step c s = Stop o cl -> cl = true.

Lemma run_steps_returned_closed : forall (St : Type) (step : bool -> St -> sres St) cancel,
  stops_closed step ->
  forall fuel sent s, out (run_steps step cancel fuel sent s) <> OutOfFuel ->
    closed (run_steps step cancel fuel sent s) = true.
Proof.
  intros St step cancel Hs fuel. induction fuel as [|f IH]; intros sent s Ho.
  - cbn in Ho. congruence.
  - cbn [run_steps] in *. destruct (step (is_cancelled cancel sent) s) as [s'|e s'|o cl] eqn:E.
    + cbn [bump closed out] in *. now apply IH.
    + cbn [push closed out] in *. now apply IH.
    + cbn. now apply (Hs _ _ _ _ E).
Qed.

Ltac stop_cases H :=
  repeat match type of H with
         | context [match ?x with _ => _ end] => destruct x eqn:?
         | context [if ?b then _ else _] => destruct b eqn:?
         end;
  try discriminate; try (inversion H; subst; reflexivity).

Lemma g_after_closed : forall cf g o cl, g_after cf g = Stop o cl -> cl = true.
Proof. intros cf g o cl H. unfold g_after in H. stop_cases H. Qed.

Lemma grpcjson_stops_closed : forall cf es, stops_closed (grpcjson_step cf es).
Proof.
  intros cf es c s o cl H. unfold grpcjson_step in H.
  destruct (negb (g_inner s)); [discriminate|].
  destruct (nth_error es (g_pos s)) as [e|]; [|now apply g_after_closed in H].
  destruct ((limit cf =? 0) || (g_ammo s <? limit cf)); [|now apply g_after_closed in H].
  stop_cases H.
Qed.

Lemma scen_stops_closed : forall cf es, stops_closed (scen_step cf es).
Proof. intros cf es c s o cl H. unfold scen_step in H. stop_cases H. Qed.

Lemma decode_stops_closed : forall cf es, stops_closed (decode_step cf es).
Proof. intros cf es c s o cl H. unfold decode_step in H. stop_cases H. Qed.

Lemma http_stops_closed : forall k cf es, stops_closed (http_step k cf es).
Proof.
  intros k cf es c s o cl H. unfold http_step in H.
  destruct s as [d dl|d acc|ammos a].
  - destruct (negb (inloop d) && c); [inversion H; reflexivity|].
    destruct (negb (inloop d) && nz (limit cf) && (limit cf <=? dl)); [inversion H; reflexivity|].
    destruct (dec_step k c 0 (passes cf) es d); stop_cases H.
  - destruct (dec_step k c 0 1 es d) as [d'|e d'|e]; try discriminate.
    destruct e; stop_cases H.
  - stop_cases H.
Qed.

(* every provider kind: when the loop returns it reports the sink closed *)
Lemma run_returned_closed : forall k cf es cancel fuel,
  out (run k cf es cancel fuel) <> OutOfFuel -> closed (run k cf es cancel fuel) = true.
Proof.
  intros k cf es cancel fuel. destruct k as [d pre| | |]; cbn [run].
  - unfold http_run. apply run_steps_returned_closed, http_stops_closed.
  - unfold scen_run. apply run_steps_returned_closed, scen_stops_closed.
  - unfold grpcjson_run. apply run_steps_returned_closed, grpcjson_stops_closed.
  - unfold decode_run. apply run_steps_returned_closed, decode_stops_closed.
Qed.

(* a prologue that defers the close before anything that can return: every return closes *)
Lemma defers_first_prologue : forall c opens ps d,
  (d = true \/ defers_first ps = true) ->
  match run_prologue c opens ps d with PGo d' => d' = true | PReturn _ d' => d' = true end.
Proof.
  intros c opens ps. induction ps as [|p r IH]; intros d Hd.
  - cbn. destruct Hd as [H|H]; [exact H | discriminate].
  - destruct p; cbn [run_prologue].
    + apply IH. now left.
    + destruct Hd as [->|H]; [|discriminate]. destruct c; [reflexivity|]. apply IH. now left.
    + destruct Hd as [->|H]; [|discriminate]. destruct opens; [|reflexivity]. apply IH. now left.
    + apply IH. destruct Hd as [H|H]; [now left | now right].
Qed.

Lemma prologue_of_defers_first : forall k, defers_first (prologue_of k) = true.
Proof. destruct k; reflexivity. Qed.

(* EVERY return of Run — any kind, any configuration, any cancellation point (before Run started
   included), any fuel, source opening or not — closes the sink: the next Acquire is end of ammo *)
Lemma c08_every_return_closes : forall k opens cf es cancel fuel,
  let r := run_framed k opens cf es cancel fuel in
  out r <> OutOfFuel -> closed r = true /\ acquire_after r = AcqEndOfAmmo.
Proof.
  intros k opens cf es cancel fuel. cbn zeta. unfold run_framed, frame_run.
  pose proof (defers_first_prologue (is_cancelled cancel 0) opens (prologue_of k) false
                (or_intror (prologue_of_defers_first k))) as Hp.
  destruct (run_prologue (is_cancelled cancel 0) opens (prologue_of k) false) as [d|o d].
  - subst d. pose proof (run_returned_closed k cf es cancel fuel) as Hc.
    destruct (out (run k cf es cancel fuel)) eqn:Eo; cbn [out closed].
    + intros _. unfold acquire_after. cbn [closed]. rewrite Hc by congruence. auto.
    + intros _. unfold acquire_after. cbn [closed]. rewrite Hc by congruence. auto.
    + rewrite Eo. congruence.
  - subst d. cbn. auto.
Qed.

(* a source that opens: the frame adds nothing, Run is the loop of Model/Provider.v (so C08_count /
   C08_clean_end / C08_no_spin speak about Run as a whole, cancel = Some 0 included) *)
Lemma run_framed_is_run : forall k cf es cancel fuel,
  run_framed k true cf es cancel fuel = run k cf es cancel fuel.
Proof.
  intros k cf es cancel fuel. unfold run_framed, frame_run.
  assert (Hp : run_prologue (is_cancelled cancel 0) true (prologue_of k) false = PGo true)
    by (destruct k; reflexivity).
  rewrite Hp.
  destruct (run k cf es cancel fuel) as [dl o cl st] eqn:E. cbn [out delivered closed steps].
  destruct o; try reflexivity; now rewrite andb_true_r.
Qed.

(* a source that does not open (grpc/json, the generic JSON provider): Run fails, sink closed *)
Lemma open_failure_closes : forall k cf es cancel fuel,
  k = KGrpcJson \/ k = KDecode ->
  let r := run_framed k false cf es cancel fuel in
  out r = Failed EOpen /\ closed r = true /\ delivered r = [].
Proof. intros k cf es cancel fuel [->| ->]; cbn; auto. Qed.

(* The order matters.  ANY prologue in which a context test stands above the `defer`: a run whose
   context is already done when Run starts returns with the sink open — whatever the loop would
   have done, every instance waiting in Acquire stays blocked. *)
Lemma ctx_check_above_defer_blocks : forall ps1 ps2 opens loop,
  (forall p, In p ps1 -> p = PPrepare) ->
  let r := frame_run (ps1 ++ PCtxCheck :: ps2) opens (Some 0) loop in
  out r = Failed ECtx /\ closed r = false /\ acquire_after r = AcqBlocked.
Proof.
  intros ps1 ps2 opens loop Hp. cbn zeta. unfold frame_run. cbn [is_cancelled Nat.leb].
  assert (H : run_prologue true opens (ps1 ++ PCtxCheck :: ps2) false = PReturn (Failed ECtx) false).
  { induction ps1 as [|p r IH]; [reflexivity|].
    rewrite (Hp p (or_introl eq_refl)). cbn. apply IH. intros q Hq. apply Hp. now right. }
  rewrite H. cbn. auto.
Qed.
