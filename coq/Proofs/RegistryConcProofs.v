(* Property C18, concurrent products (Model/RegistryConc.v): for EVERY schedule, every finished
   round built its product from its own config - the default value of its own invocation
   overlaid by the settings of its own section; no two rounds share a default value or a config.
   Invariant [inv] over the shared state and the rounds' local states; preserved by every step of
   every thread. *)
From Coq Require Import List Arith Bool NArith Lia.
From PV Require Import Model.Registry Model.RegistryConc.
Import ListNotations.

Definition past_default (p : cpc) : bool := match p with PcDefault => false | _ => true end.
Definition past_alloc (p : cpc) : bool := match p with PcDefault | PcAlloc => false | _ => true end.

Definition base_of (sh : shape) (o : oracle) (dn : option nat) : cfgv :=
  match sh_def sh, dn with DefVal, Some n => o_dflt o n | _, _ => vzero end.

Definition def_ok (sh : shape) (G : cstate) (th : cthread) : Prop :=
  match sh_def sh with
  | DefNone => ct_def th = None
  | _ => exists n, ct_def th = Some n /\ n < cs_def G
  end.

Definition heap_ok (sh : shape) (d : nat -> tdesc) (t : nat) (G : cstate) (th : cthread) : Prop :=
  match ct_pc th with
  | PcDecoder => cs_heap G (ct_tgt th) = ct_base th
  | PcWrite => ct_res th = ct_tgt th /\ cs_heap G (ct_tgt th) = ct_base th
  | PcCtor => cs_heap G (ct_tgt th) = td_fill (d t) (ct_base th)
  | PcDone => ct_arg th = if td_trial (d t) then ANone
                          else mk_arg (sh_cfg sh) (ct_tgt th) (td_fill (d t) (ct_base th))
  | _ => True
  end.

Record inv (sh : shape) (o : oracle) (d : nat -> tdesc) (G : cstate) (T : nat -> cthread) : Prop := mkInv {
  i_def : forall t, past_default (ct_pc (T t)) = true ->
                    def_ok sh G (T t) /\ ct_base (T t) = base_of sh o (ct_def (T t));
  i_defs : forall t t' n, t <> t' -> past_default (ct_pc (T t)) = true -> past_default (ct_pc (T t')) = true ->
                          ct_def (T t) = Some n -> ct_def (T t') <> Some n;
  i_tgt : forall t, past_alloc (ct_pc (T t)) = true -> ct_tgt (T t) < cs_alloc G /\ heap_ok sh d t G (T t);
  i_tgts : forall t t', t <> t' -> past_alloc (ct_pc (T t)) = true -> past_alloc (ct_pc (T t')) = true ->
                        ct_tgt (T t) <> ct_tgt (T t')
}.

Lemma upd_same {A} (f : nat -> A) t v : upd f t v t = v.
Proof. unfold upd. now rewrite Nat.eqb_refl. Qed.
Lemma upd_other {A} (f : nat -> A) t v x : x <> t -> upd f t v x = f x.
Proof. unfold upd. intros H. apply Nat.eqb_neq in H. now rewrite H. Qed.

Lemma inv_init sh o d G T : (forall t, ct_pc (T t) = PcDefault) -> inv sh o d G T.
Proof.
  intros H. constructor; intros; repeat match goal with
    | Hp : past_default (ct_pc (T ?x)) = true |- _ => rewrite (H x) in Hp; discriminate
    | Hp : past_alloc (ct_pc (T ?x)) = true |- _ => rewrite (H x) in Hp; discriminate end.
Qed.

Lemma def_ok_mono sh G G' th : cs_def G <= cs_def G' -> def_ok sh G th -> def_ok sh G' th.
Proof.
  unfold def_ok. intros Hle. destruct (sh_def sh); auto; intros [n [H1 H2]]; exists n; split; auto; lia.
Qed.

(* the step of thread [t] leaves what another round [x] relies on in the heap untouched *)
Lemma heap_ok_frame sh d x G G' th :
  cs_heap G' (ct_tgt th) = cs_heap G (ct_tgt th) -> heap_ok sh d x G th -> heap_ok sh d x G' th.
Proof. unfold heap_ok. intros E. destruct (ct_pc th); auto; rewrite E; auto. Qed.

Ltac other_thread x t :=
  let Hne := fresh "Hne" in
  destruct (Nat.eq_dec x t) as [->|Hne]; [ rewrite ?upd_same in * | rewrite ?(upd_other _ _ _ _ Hne) in * ].

Lemma inv_step sh o d t G T : inv sh o d G T -> inv sh o d (fst (cstep sh o d t G T)) (snd (cstep sh o d t G T)).
Proof.
  intros [Hdef Hdefs Htgt Htgts].
  unfold cstep. destruct (ct_pc (T t)) eqn:Hpc.
  - (* the default-config function is invoked *)
    assert (Hnp : past_default (ct_pc (T t)) = false) by now rewrite Hpc.
    assert (Hna : past_alloc (ct_pc (T t)) = false) by now rewrite Hpc.
    destruct (sh_def sh) eqn:Hsd; cbn [fst snd]; constructor.
    (* DefNone *)
    + intros x Hx. other_thread x t.
      * cbn [ct_def ct_base]. unfold def_ok, base_of. rewrite Hsd. auto.
      * apply Hdef; auto.
    + intros x x' n Hxx Hx Hx' E. other_thread x t; [cbn in E; discriminate|].
      other_thread x' t; [cbn; discriminate|]. eapply Hdefs; eauto.
    + intros x Hx. other_thread x t; [cbn in Hx; discriminate|]. apply Htgt; auto.
    + intros x x' Hxx Hx Hx'. other_thread x t; [cbn in Hx; discriminate|].
      other_thread x' t; [cbn in Hx'; discriminate|]. apply Htgts; auto.
    (* DefVal *)
    + intros x Hx. other_thread x t.
      * cbn [ct_def ct_base cs_def]. unfold def_ok, base_of. rewrite Hsd. split; auto.
        exists (cs_def G). cbn. split; auto.
      * destruct (Hdef x Hx) as [H1 H2]. split; auto. eapply def_ok_mono; [|exact H1]. cbn; lia.
    + intros x x' n Hxx Hx Hx' E. other_thread x t.
      * cbn in E. injection E as <-. other_thread x' t; [congruence|].
        destruct (Hdef x' Hx') as [H1 _]. unfold def_ok in H1. rewrite Hsd in H1.
        destruct H1 as [n' [E' Hlt]]. rewrite E'. intros E2. injection E2 as ->. lia.
      * other_thread x' t.
        -- cbn. destruct (Hdef x Hx) as [H1 _]. unfold def_ok in H1. rewrite Hsd in H1.
           destruct H1 as [n' [E' Hlt]]. rewrite E' in E. injection E as <-. intros E2. injection E2 as E2. lia.
        -- eapply Hdefs; eauto.
    + intros x Hx. other_thread x t; [cbn in Hx; discriminate|].
      destruct (Htgt x Hx) as [H1 H2]. split; auto.
    + intros x x' Hxx Hx Hx'. other_thread x t; [cbn in Hx; discriminate|].
      other_thread x' t; [cbn in Hx'; discriminate|]. apply Htgts; auto.
    (* DefNil *)
    + intros x Hx. other_thread x t.
      * cbn [ct_def ct_base cs_def]. unfold def_ok, base_of. rewrite Hsd. split; auto.
        exists (cs_def G). cbn. split; auto.
      * destruct (Hdef x Hx) as [H1 H2]. split; auto. eapply def_ok_mono; [|exact H1]. cbn; lia.
    + intros x x' n Hxx Hx Hx' E. other_thread x t.
      * cbn in E. injection E as <-. other_thread x' t; [congruence|].
        destruct (Hdef x' Hx') as [H1 _]. unfold def_ok in H1. rewrite Hsd in H1.
        destruct H1 as [n' [E' Hlt]]. rewrite E'. intros E2. injection E2 as ->. lia.
      * other_thread x' t.
        -- cbn. destruct (Hdef x Hx) as [H1 _]. unfold def_ok in H1. rewrite Hsd in H1.
           destruct H1 as [n' [E' Hlt]]. rewrite E' in E. injection E as <-. intros E2. injection E2 as E2. lia.
        -- eapply Hdefs; eauto.
    + intros x Hx. other_thread x t; [cbn in Hx; discriminate|].
      destruct (Htgt x Hx) as [H1 H2]. split; auto.
    + intros x x' Hxx Hx Hx'. other_thread x t; [cbn in Hx; discriminate|].
      other_thread x' t; [cbn in Hx'; discriminate|]. apply Htgts; auto.
  - (* a fresh config is allocated and initialised *)
    assert (Hp : past_default (ct_pc (T t)) = true) by now rewrite Hpc.
    cbn [fst snd]; constructor.
    + intros x Hx. other_thread x t.
      * cbn [ct_def ct_base]. destruct (Hdef t Hp) as [H1 H2]. split; auto.
      * destruct (Hdef x Hx) as [H1 H2]. split; auto.
    + intros x x' n Hxx Hx Hx' E. other_thread x t.
      * cbn in E. other_thread x' t; [congruence|]. eapply (Hdefs t x'); eauto.
      * other_thread x' t; [cbn; eapply (Hdefs x t); eauto|]. eapply Hdefs; eauto.
    + intros x Hx. other_thread x t.
      * cbn [ct_tgt cs_alloc]. split; [lia|]. unfold heap_ok. cbn. apply upd_same.
      * destruct (Htgt x Hx) as [H1 H2]. cbn [cs_alloc]. split; [lia|].
        eapply heap_ok_frame; [|exact H2]. cbn [cs_heap]. apply upd_other. lia.
    + intros x x' Hxx Hx Hx'. other_thread x t.
      * cbn [ct_tgt]. other_thread x' t; [congruence|]. destruct (Htgt x' Hx') as [H1 _]. lia.
      * other_thread x' t; [cbn [ct_tgt]; destruct (Htgt x Hx) as [H1 _]; lia|]. apply Htgts; auto.
  - (* the decoder is made: its result is the round's own config *)
    assert (Hp : past_default (ct_pc (T t)) = true) by now rewrite Hpc.
    assert (Ha : past_alloc (ct_pc (T t)) = true) by now rewrite Hpc.
    cbn [fst snd]; constructor.
    + intros x Hx. other_thread x t; [cbn [ct_def ct_base]; apply (Hdef t Hp)|apply Hdef; auto].
    + intros x x' n Hxx Hx Hx' E. other_thread x t.
      * cbn in E. other_thread x' t; [congruence|]. eapply (Hdefs t x'); eauto.
      * other_thread x' t; [cbn; eapply (Hdefs x t); eauto|]. eapply Hdefs; eauto.
    + intros x Hx. other_thread x t.
      * destruct (Htgt t Ha) as [H1 H2]. cbn [ct_tgt]. split; auto.
        unfold heap_ok in *. rewrite Hpc in H2. cbn. auto.
      * apply Htgt; auto.
    + intros x x' Hxx Hx Hx'. other_thread x t.
      * cbn [ct_tgt]. other_thread x' t; [congruence|]. apply Htgts; auto.
      * other_thread x' t; [cbn [ct_tgt]|]; apply Htgts; auto.
  - (* the decoder overlays the settings on what its result holds *)
    assert (Hp : past_default (ct_pc (T t)) = true) by now rewrite Hpc.
    assert (Ha : past_alloc (ct_pc (T t)) = true) by now rewrite Hpc.
    destruct (Htgt t Ha) as [Ht1 Ht2]. unfold heap_ok in Ht2. rewrite Hpc in Ht2. destruct Ht2 as [Hres Hheap].
    cbn [fst snd]; constructor.
    + intros x Hx. other_thread x t; [cbn [ct_def ct_base]; apply (Hdef t Hp)|].
      destruct (Hdef x Hx) as [H1 H2]. split; auto.
    + intros x x' n Hxx Hx Hx' E. other_thread x t.
      * cbn in E. other_thread x' t; [congruence|]. eapply (Hdefs t x'); eauto.
      * other_thread x' t; [cbn; eapply (Hdefs x t); eauto|]. eapply Hdefs; eauto.
    + intros x Hx. other_thread x t.
      * cbn [ct_tgt cs_alloc]. split; auto. unfold heap_ok. cbn. rewrite Hres, upd_same, Hheap. reflexivity.
      * destruct (Htgt x Hx) as [H1 H2]. cbn [cs_alloc]. split; auto.
        eapply heap_ok_frame; [|exact H2]. cbn [cs_heap]. apply upd_other.
        rewrite Hres. apply Htgts; auto.
    + intros x x' Hxx Hx Hx'. other_thread x t.
      * cbn [ct_tgt]. other_thread x' t; [congruence|]. apply Htgts; auto.
      * other_thread x' t; [cbn [ct_tgt]|]; apply Htgts; auto.
  - (* the constructor is called with the round's config *)
    assert (Hp : past_default (ct_pc (T t)) = true) by now rewrite Hpc.
    assert (Ha : past_alloc (ct_pc (T t)) = true) by now rewrite Hpc.
    destruct (Htgt t Ha) as [Ht1 Ht2]. unfold heap_ok in Ht2. rewrite Hpc in Ht2.
    cbn [fst snd]; constructor.
    + intros x Hx. other_thread x t; [cbn [ct_def ct_base]; apply (Hdef t Hp)|apply Hdef; auto].
    + intros x x' n Hxx Hx Hx' E. other_thread x t.
      * cbn in E. other_thread x' t; [congruence|]. eapply (Hdefs t x'); eauto.
      * other_thread x' t; [cbn; eapply (Hdefs x t); eauto|]. eapply Hdefs; eauto.
    + intros x Hx. other_thread x t.
      * cbn [ct_tgt]. split; auto. unfold heap_ok. cbn. rewrite Ht2. reflexivity.
      * apply Htgt; auto.
    + intros x x' Hxx Hx Hx'. other_thread x t.
      * cbn [ct_tgt]. other_thread x' t; [congruence|]. apply Htgts; auto.
      * other_thread x' t; [cbn [ct_tgt]|]; apply Htgts; auto.
  - cbn [fst snd]. constructor; auto.
Qed.

Lemma inv_run sh o d sched : forall G T,
  inv sh o d G T -> inv sh o d (fst (run_sched sh o d sched G T)) (snd (run_sched sh o d sched G T)).
Proof.
  induction sched as [|t r IH]; intros G T H; cbn [run_sched]; auto.
  pose proof (inv_step sh o d t G T H) as H1.
  destruct (cstep sh o d t G T) as [G1 T1]. cbn [fst snd] in H1. apply IH; auto.
Qed.

(* ---------- from the invariant to the specification of the observation ---------- *)

Lemma cfgv_eqb_refl v : cfgv_eqb v v = true.
Proof. unfold cfgv_eqb. now rewrite !N.eqb_refl. Qed.

Lemma nat_nodup_b_NoDup l : NoDup l -> nat_nodup_b l = true.
Proof.
  induction 1 as [|x l Hn Hd IH]; cbn; auto. rewrite IH, andb_true_r. apply negb_true_iff.
  destruct (existsb (Nat.eqb x) l) eqn:E; auto. apply existsb_exists in E. destruct E as [y [Hy E]].
  apply Nat.eqb_eq in E. subst. contradiction.
Qed.

Lemma nodup_app (xs ys : list nat) :
  NoDup xs -> NoDup ys -> (forall x, In x xs -> ~ In x ys) -> NoDup (xs ++ ys).
Proof.
  induction 1 as [|z zs Hz Hzs IHz]; cbn; intros Hys Hnot; auto. constructor.
  - intros Hin. apply in_app_or in Hin. destruct Hin as [Hin|Hin]; [contradiction|].
    apply (Hnot z); auto.
  - apply IHz; auto.
Qed.

(* at most one element per index, elements of different indices differ: no duplicates *)
Lemma flat_map_nodup (f : nat -> list nat) (l : list nat) :
  NoDup l -> (forall t, NoDup (f t)) ->
  (forall t t' x, t <> t' -> In x (f t) -> ~ In x (f t')) ->
  NoDup (flat_map f l).
Proof.
  intros Hl Hf Hdis. induction Hl as [|a l Ha Hl IH]; cbn; [constructor|].
  apply nodup_app; auto. intros x Hx Hin. apply in_flat_map in Hin. destruct Hin as [b [Hb Hxb]].
  apply (Hdis a b x); auto. intros ->. contradiction.
Qed.

Lemma flat_map_flat_map {A B C} (f : A -> list B) (g : B -> list C) l :
  flat_map g (flat_map f l) = flat_map (fun a => flat_map g (f a)) l.
Proof. induction l as [|a l IH]; cbn; auto. now rewrite flat_map_app, IH. Qed.

Theorem conc_holds sh o d m sched G0 T0 :
  is_nocfg (sh_cfg sh) = false ->
  (forall t, ct_pc (T0 t) = PcDefault) ->
  conc_b sh o d (observe_conc d m (snd (run_sched sh o d sched G0 T0))) = true.
Proof.
  intros Hcfg Hinit.
  pose proof (inv_run sh o d sched G0 T0 (inv_init sh o d G0 T0 Hinit)) as Hinv.
  destruct (run_sched sh o d sched G0 T0) as [G T]. cbn [fst snd] in *.
  destruct Hinv as [Hdef Hdefs Htgt Htgts].
  assert (Hdone : forall t, is_done (ct_pc (T t)) = true -> ct_pc (T t) = PcDone)
    by (intros t; destruct (ct_pc (T t)); cbn; congruence).
  unfold conc_b, observe_conc. rewrite !andb_true_iff. repeat split.
  - (* every product from its own config *)
    apply forallb_forall. intros r Hr. apply in_flat_map in Hr. destruct Hr as [t [_ Hr]].
    destruct (is_done (ct_pc (T t))) eqn:Hd; cbn [andb] in Hr; [|destruct Hr].
    destruct (td_trial (d t)) eqn:Htr; cbn [negb] in Hr; [destruct Hr|].
    destruct Hr as [<-|[]]. apply Hdone in Hd.
    assert (Hp : past_default (ct_pc (T t)) = true) by now rewrite Hd.
    assert (Ha : past_alloc (ct_pc (T t)) = true) by now rewrite Hd.
    destruct (Hdef t Hp) as [H1 H2]. destruct (Htgt t Ha) as [_ H3].
    unfold heap_ok in H3. rewrite Hd, Htr in H3.
    unfold crec_ok, conc_want. cbn [cr_tid cr_def cr_arg]. rewrite H3, H2.
    unfold def_ok in H1. unfold base_of.
    destruct (sh_def sh); [rewrite H1|destruct H1 as [n [-> _]]|destruct H1 as [n [-> _]]];
      destruct (sh_cfg sh); try discriminate; cbn; apply cfgv_eqb_refl.
  - (* no default value used twice *)
    apply nat_nodup_b_NoDup. unfold rec_defs. rewrite flat_map_flat_map.
    apply flat_map_nodup; [apply seq_NoDup| |].
    + intros t. destruct (is_done (ct_pc (T t)) && negb (td_trial (d t))); cbn; [|constructor].
      destruct (ct_def (T t)); cbn; repeat constructor; auto.
    + intros t t' x Hne Hin Hin'.
      destruct (is_done (ct_pc (T t))) eqn:Hd; cbn [andb] in Hin; [|destruct Hin].
      destruct (is_done (ct_pc (T t'))) eqn:Hd'; cbn [andb] in Hin'; [|destruct Hin'].
      apply Hdone in Hd. apply Hdone in Hd'.
      destruct (negb (td_trial (d t))); [|destruct Hin]. destruct (negb (td_trial (d t'))); [|destruct Hin'].
      cbn in Hin, Hin'. rewrite app_nil_r in Hin, Hin'.
      destruct (ct_def (T t)) as [n|] eqn:E; [|destruct Hin]. destruct (ct_def (T t')) as [n'|] eqn:E'; [|destruct Hin'].
      destruct Hin as [Hx|[]]. destruct Hin' as [Hx'|[]].
      apply (Hdefs t t' n Hne); [now rewrite Hd|now rewrite Hd'|auto|congruence].
  - (* no config handed to two products *)
    apply nat_nodup_b_NoDup. unfold rec_ids. rewrite flat_map_flat_map.
    assert (Harg : forall t, ct_pc (T t) = PcDone -> td_trial (d t) = false ->
                   forall x, In x (match ct_arg (T t) with AConf c => [c_id c] | _ => [] end) -> x = ct_tgt (T t)).
    { intros t Hd Htr x Hin. assert (Ha : past_alloc (ct_pc (T t)) = true) by now rewrite Hd.
      destruct (Htgt t Ha) as [_ H3]. unfold heap_ok in H3. rewrite Hd, Htr in H3. rewrite H3 in Hin.
      unfold mk_arg in Hin. destruct (sh_cfg sh); cbn in Hin; intuition. }
    apply flat_map_nodup; [apply seq_NoDup| |].
    + intros t. destruct (is_done (ct_pc (T t)) && negb (td_trial (d t))); cbn; [|constructor].
      destruct (ct_arg (T t)); cbn; repeat constructor; auto.
    + intros t t' x Hne Hin Hin'.
      destruct (is_done (ct_pc (T t))) eqn:Hd; cbn [andb] in Hin; [|destruct Hin].
      destruct (is_done (ct_pc (T t'))) eqn:Hd'; cbn [andb] in Hin'; [|destruct Hin'].
      apply Hdone in Hd. apply Hdone in Hd'.
      destruct (td_trial (d t)) eqn:Htr; cbn [negb] in Hin; [destruct Hin|].
      destruct (td_trial (d t')) eqn:Htr'; cbn [negb] in Hin'; [destruct Hin'|].
      cbn in Hin, Hin'. rewrite app_nil_r in Hin, Hin'.
      apply (Harg t Hd Htr) in Hin. apply (Harg t' Hd' Htr') in Hin'.
      apply (Htgts t t' Hne); [now rewrite Hd|now rewrite Hd'|congruence].
Qed.

(* functional reading: whatever the interleaving, a finished round's constructor received the
   config with the round's own identity holding ITS default overlaid by ITS settings *)
Theorem conc_product_arg sh o d sched G0 T0 t :
  (forall x, ct_pc (T0 x) = PcDefault) ->
  let T := snd (run_sched sh o d sched G0 T0) in
  ct_pc (T t) = PcDone -> td_trial (d t) = false ->
  ct_arg (T t) = mk_arg (sh_cfg sh) (ct_tgt (T t)) (td_fill (d t) (base_of sh o (ct_def (T t)))).
Proof.
  intros Hinit T Hd Htr.
  pose proof (inv_run sh o d sched G0 T0 (inv_init sh o d G0 T0 Hinit)) as Hinv.
  fold T in Hinv. destruct Hinv as [Hdef _ Htgt _].
  assert (Hp : past_default (ct_pc (T t)) = true) by now rewrite Hd.
  assert (Ha : past_alloc (ct_pc (T t)) = true) by now rewrite Hd.
  destruct (Hdef t Hp) as [_ H2]. destruct (Htgt t Ha) as [_ H3].
  unfold heap_ok in H3. rewrite Hd, Htr in H3. now rewrite H3, H2.
Qed.
