(* Lemmas about Model/HttpConns.v (property C09, keep-alive / connection sentence). *)
From Coq Require Import List Arith ZArith Bool Lia PeanoNat FinFun.
From PV Require Import Model.HttpConns.
Import ListNotations.

(* ---------- clients ---------- *)
Lemma client_eqb_eq : forall a b, client_eqb a b = true <-> a = b.
Proof.
  intros [i| i |] [j| j |]; cbn; split; intro H; try discriminate; try reflexivity;
    try (apply Nat.eqb_eq in H; subst; reflexivity); inversion H; apply Nat.eqb_refl.
Qed.

Lemma client_eqb_refl : forall a, client_eqb a a = true.
Proof. intro a. apply client_eqb_eq. reflexivity. Qed.

Lemma client_eqb_neq : forall a b, a <> b -> client_eqb a b = false.
Proof. intros a b H. destruct (client_eqb a b) eqn:E; [apply client_eqb_eq in E; contradiction|reflexivity]. Qed.

Lemma prepare_pool_disabled : forall c, sc_enabled c = false -> prepare_pool c = None.
Proof. intros c H. unfold prepare_pool. rewrite H. reflexivity. Qed.

Lemma prepare_pool_enabled : forall c, sc_enabled c = true ->
  prepare_pool c = Some (Nat.max 1 (Z.to_nat (sc_number c))).
Proof.
  intros c H. unfold prepare_pool. rewrite H. f_equal.
  destruct (Z.ltb_spec (sc_number c) 1); lia.
Qed.

Lemma per_instance_clients : forall c, sc_enabled c = false ->
  forall i j, client_of (prepare_pool c) i = client_of (prepare_pool c) j -> i = j.
Proof. intros c H i j E. rewrite (prepare_pool_disabled c H) in E. cbn in E. inversion E. reflexivity. Qed.

Lemma per_instance_clients_own : forall c, sc_enabled c = false -> forall i, client_of (prepare_pool c) i = COwn i.
Proof. intros c H i. rewrite (prepare_pool_disabled c H). reflexivity. Qed.

Lemma client_of_pool : forall m k, (0 < m)%nat -> client_of (Some m) k = CPool (Nat.modulo (S k) m).
Proof. intros m k H. destruct m; [lia|reflexivity]. Qed.

Lemma shared_clients : forall c, sc_enabled c = true ->
  let m := Nat.max 1 (Z.to_nat (sc_number c)) in
  (forall k, exists s, client_of (prepare_pool c) k = CPool s /\ (s < m)%nat) /\
  (forall k, client_of (prepare_pool c) (k + m) = client_of (prepare_pool c) k).
Proof.
  intros c H m. rewrite (prepare_pool_enabled c H). fold m. assert (Hm : (0 < m)%nat) by (unfold m; lia). split.
  - intro k. rewrite client_of_pool by exact Hm. eexists. split; [reflexivity|]. apply Nat.mod_upper_bound. lia.
  - intro k. rewrite !client_of_pool by exact Hm. f_equal.
    replace (S (k + m)) with (S k + 1 * m)%nat by lia. apply Nat.mod_add. lia.
Qed.

(* distinct_clients *)
Lemma existsb_client_In : forall x l, existsb (client_eqb x) l = true <-> In x l.
Proof.
  intros x l. rewrite existsb_exists. split.
  - intros [y [Hy E]]. apply client_eqb_eq in E. subst. exact Hy.
  - intro H. exists x. split; [exact H|apply client_eqb_refl].
Qed.

Lemma distinct_clients_In : forall l x, In x (distinct_clients l) <-> In x l.
Proof.
  induction l as [|y r IH]; intro x; cbn; [tauto|].
  destruct (existsb (client_eqb y) r) eqn:E.
  - rewrite IH. split; [tauto|]. intros [->|H]; [apply existsb_client_In; exact E|exact H].
  - cbn. rewrite IH. tauto.
Qed.

Lemma distinct_clients_NoDup : forall l, NoDup (distinct_clients l).
Proof.
  induction l as [|y r IH]; cbn; [constructor|].
  destruct (existsb (client_eqb y) r) eqn:E; [exact IH|].
  constructor; [|exact IH]. rewrite distinct_clients_In. intro H. apply existsb_client_In in H. congruence.
Qed.

Lemma distinct_clients_of_NoDup : forall l, NoDup l -> distinct_clients l = l.
Proof.
  induction l as [|y r IH]; intro H; cbn; [reflexivity|]. inversion H; subst.
  destruct (existsb (client_eqb y) r) eqn:E; [apply existsb_client_In in E; contradiction|].
  rewrite IH by assumption. reflexivity.
Qed.

Lemma distinct_per_instance : forall c n, sc_enabled c = false ->
  length (distinct_clients (instance_clients c n)) = n.
Proof.
  intros c n H. unfold instance_clients. rewrite distinct_clients_of_NoDup.
  - rewrite map_length, seq_length. reflexivity.
  - apply Injective_map_NoDup; [|apply seq_NoDup]. intros i j E. exact (per_instance_clients c H i j E).
Qed.

Lemma distinct_shared : forall c n, sc_enabled c = true ->
  (length (distinct_clients (instance_clients c n)) <= Nat.max 1 (Z.to_nat (sc_number c)))%nat.
Proof.
  intros c n H. set (m := Nat.max 1 (Z.to_nat (sc_number c))).
  replace m with (length (map CPool (seq 0 m))) by (rewrite map_length, seq_length; reflexivity).
  apply NoDup_incl_length; [apply distinct_clients_NoDup|].
  intros x Hx. apply (proj1 (distinct_clients_In _ _)) in Hx. unfold instance_clients in Hx. apply in_map_iff in Hx.
  destruct Hx as [k [Hk _]]. destruct (shared_clients c H) as [Hs _]. destruct (Hs k) as [s [E Hlt]].
  rewrite <- Hk, E. apply in_map. apply in_seq. fold m in Hlt. lia.
Qed.

Lemma clients_ok_model : forall c n,
  clients_ok c n (length (distinct_clients (instance_clients c n))) = true.
Proof.
  intros c n. unfold clients_ok. destruct (sc_enabled c) eqn:H.
  - apply Nat.leb_le. apply distinct_shared. exact H.
  - apply Nat.eqb_eq. apply distinct_per_instance. exact H.
Qed.

(* ---------- busy list ---------- *)
Lemma busy_find_none : forall i b, busy_find i b = None <-> ~ In i (map fst b).
Proof.
  intros i b. induction b as [|[j x] r IH]; cbn; [tauto|].
  destruct (Nat.eqb_spec j i).
  - split; [discriminate|]. intro H. exfalso. apply H. left. exact e.
  - rewrite IH. tauto.
Qed.

Lemma busy_find_some_in : forall i x b, busy_find i b = Some x -> In (i, x) b.
Proof.
  intros i x b. induction b as [|[j y] r IH]; cbn; [discriminate|].
  destruct (Nat.eqb_spec j i); intro H.
  - inversion H; subst. left. reflexivity.
  - right. exact (IH H).
Qed.

Lemma busy_remove_in : forall i j y b, In (j, y) (busy_remove i b) -> In (j, y) b.
Proof.
  intros i j y b. induction b as [|[k x] r IH]; cbn; [tauto|].
  destruct (Nat.eqb_spec k i); [tauto|]. cbn. intros [H|H]; [left; exact H|right; exact (IH H)].
Qed.

Lemma busy_remove_fst : forall i j b, In j (map fst (busy_remove i b)) -> In j (map fst b).
Proof.
  intros i j b H. apply in_map_iff in H. destruct H as [[k y] [E H]]. cbn in E. subst k.
  apply in_map_iff. exists (j, y). split; [reflexivity|exact (busy_remove_in _ _ _ _ H)].
Qed.

Lemma busy_remove_NoDup : forall i b, NoDup (map fst b) -> NoDup (map fst (busy_remove i b)).
Proof.
  intros i b. induction b as [|[k x] r IH]; cbn; intro H; [constructor|].
  inversion H; subst. destruct (Nat.eqb_spec k i); [assumption|]. cbn. constructor; [|exact (IH H3)].
  intro Hin. apply H2. exact (busy_remove_fst _ _ _ Hin).
Qed.

Lemma busy_remove_not_in : forall i b, NoDup (map fst b) -> ~ In i (map fst (busy_remove i b)).
Proof.
  intros i b. induction b as [|[k x] r IH]; cbn; intro H; [tauto|].
  inversion H; subst. destruct (Nat.eqb_spec k i); [subst; assumption|]. cbn. intros [E|Hin]; [contradiction|].
  exact (IH H3 Hin).
Qed.

Lemma busy_remove_keeps : forall i j b, j <> i -> In j (map fst b) -> In j (map fst (busy_remove i b)).
Proof.
  intros i j b Hne. induction b as [|[k x] r IH]; cbn; [tauto|].
  destruct (Nat.eqb_spec k i).
  - intros [E|H]; [subst; contradiction|exact H].
  - cbn. intros [E|H]; [left; exact E|right; exact (IH H)].
Qed.

Lemma upd_same : forall f c v, upd f c v c = v.
Proof. intros. unfold upd. rewrite client_eqb_refl. reflexivity. Qed.

Lemma upd_other : forall f c v c', c' <> c -> upd f c v c' = f c'.
Proof. intros. unfold upd. rewrite client_eqb_neq by assumption. reflexivity. Qed.

(* ---------- facts about every history, whatever the clients ---------- *)
Section AnyClients.
Variable cl : nat -> client.
Variable keepalive : bool.
Variable max_idle : nat.

Lemma step_dials : forall st e st', t_step cl keepalive max_idle st e = Some st' ->
  (t_dials st' <= t_dials st + (if is_begin e then 1 else 0) /\ t_dials st <= t_dials st')%nat.
Proof.
  intros st [i|i] st'; cbn.
  - destruct (busy_find i (t_busy st)); [discriminate|].
    destruct (t_idle st (cl i)); intro H; inversion H; subst; cbn; lia.
  - destruct (busy_find i (t_busy st)); [|discriminate]. intro H; inversion H; subst; cbn; lia.
Qed.

Lemma run_dials_le_requests : forall h st st', t_run cl keepalive max_idle st h = Some st' ->
  (t_dials st' <= t_dials st + requests_of h)%nat.
Proof.
  induction h as [|e r IH]; intros st st'; cbn.
  - intro H; inversion H; subst. unfold requests_of. cbn. lia.
  - destruct (t_step cl keepalive max_idle st e) as [st1|] eqn:E; [|discriminate]. intro H.
    apply IH in H. apply step_dials in E. unfold requests_of in *. cbn. destruct (is_begin e); cbn; lia.
Qed.

Lemma run_log_insts : forall h st st', t_run cl keepalive max_idle st h = Some st' ->
  forall i, In i (map fst (t_log st')) -> In i (map fst (t_log st)) \/ In i (map ev_inst h).
Proof.
  induction h as [|e r IH]; intros st st'; cbn.
  - intro H; inversion H; subst. tauto.
  - destruct (t_step cl keepalive max_idle st e) as [st1|] eqn:E; [|discriminate]. intros H i Hi.
    destruct (IH _ _ H i Hi) as [H1|H1]; [|tauto].
    destruct e as [j|j]; cbn in E.
    + destruct (busy_find j (t_busy st)); [discriminate|].
      destruct (t_idle st (cl j)); inversion E; subst; cbn in H1; tauto.
    + destruct (busy_find j (t_busy st)); [|discriminate]. inversion E; subst; cbn in H1; tauto.
Qed.
End AnyClients.

(* keep-alives disabled: nothing is ever parked, every request dials *)
Lemma run_no_keepalive : forall cl mi h st st',
  (forall c, t_idle st c = []) ->
  t_run cl false mi st h = Some st' ->
  t_dials st' = (t_dials st + requests_of h)%nat /\ (forall c, t_idle st' c = []).
Proof.
  intros cl mi. induction h as [|e r IH]; intros st st' Hidle; cbn.
  - intro H; inversion H; subst. unfold requests_of. cbn. split; [lia|exact Hidle].
  - destruct (t_step cl false mi st e) as [st1|] eqn:E; [|discriminate]. intro H.
    assert (H1 : t_dials st1 = (t_dials st + (if is_begin e then 1 else 0))%nat /\ forall c, t_idle st1 c = []).
    { destruct e as [j|j]; cbn in E.
      - destruct (busy_find j (t_busy st)); [discriminate|]. rewrite Hidle in E. inversion E; subst; cbn. split; [lia|exact Hidle].
      - destruct (busy_find j (t_busy st)); [|discriminate]. inversion E; subst; cbn. split; [lia|exact Hidle]. }
    destruct H1 as [Hd Hi]. destruct (IH _ _ Hi H) as [Hd' Hi']. split; [|exact Hi'].
    unfold requests_of in *. cbn. destruct (is_begin e); cbn; lia.
Qed.

(* ---------- per-instance clients with keep-alives: the invariant ---------- *)
Section PerInstance.
Variable cl : nat -> client.
Hypothesis cl_inj : forall i j, cl i = cl j -> i = j.
Variable max_idle : nat.
Hypothesis max_idle_pos : (0 < max_idle)%nat.

Definition one_conn (st : tstate) (i x : nat) : Prop := forall x', In (i, x') (t_log st) -> x' = x.

Record Inv (st : tstate) : Prop := {
  inv_nodup : NoDup (map fst (t_busy st));
  inv_busy : forall i x, In (i, x) (t_busy st) -> t_idle st (cl i) = [] /\ In (i, x) (t_log st) /\ one_conn st i x;
  inv_free : forall i, ~ In i (map fst (t_busy st)) ->
             (t_idle st (cl i) = [] /\ ~ In i (map fst (t_log st))) \/
             (exists x, t_idle st (cl i) = [x] /\ In i (map fst (t_log st)) /\ one_conn st i x);
  inv_dials : t_dials st = length (nodup Nat.eq_dec (map fst (t_log st))) }.

Lemma inv_init : Inv t_init.
Proof.
  constructor; cbn.
  - constructor.
  - tauto.
  - intros i _. left. tauto.
  - reflexivity.
Qed.

Lemma cl_neq : forall i j, j <> i -> cl j <> cl i.
Proof. intros i j H E. apply H. exact (cl_inj _ _ E). Qed.

Lemma inv_step : forall st e st', Inv st -> t_step cl true max_idle st e = Some st' -> Inv st'.
Proof.
  intros st [i|i] st' [Hnd Hbusy Hfree Hdials]; cbn.
  - (* Begin *)
    destruct (busy_find i (t_busy st)) eqn:Ef; [discriminate|]. apply busy_find_none in Ef.
    destruct (Hfree i Ef) as [[Hid Hnl]|[x [Hid [Hl Hone]]]]; rewrite Hid; intro H; inversion H; subst; clear H.
    + (* dial *)
      constructor; cbn.
      * constructor; assumption.
      * intros j y [E|Hin].
        -- inversion E; subst. split; [exact Hid|]. split; [left; reflexivity|].
           intros x' [E'|Hin']; [inversion E'; reflexivity|]. exfalso. apply Hnl. apply in_map_iff. exists (j, x'). tauto.
        -- destruct (Hbusy j y Hin) as [H1 [H2 H3]]. split; [exact H1|]. split; [right; exact H2|].
           intros x' [E'|Hin']; [|exact (H3 x' Hin')]. inversion E'; subst. exfalso. apply Ef. apply in_map_iff. exists (j, y). tauto.
      * intros j Hj. assert (Hne : j <> i) by (intro; subst; apply Hj; left; reflexivity).
        assert (Hj' : ~ In j (map fst (t_busy st))) by (intro; apply Hj; right; assumption).
        destruct (Hfree j Hj') as [[H1 H2]|[x [H1 [H2 H3]]]].
        -- left. split; [exact H1|]. intros [E|Hin]; [congruence|contradiction].
        -- right. exists x. split; [exact H1|]. split; [right; exact H2|].
           intros x' [E'|Hin']; [inversion E'; congruence|exact (H3 x' Hin')].
      * destruct (in_dec Nat.eq_dec i (map fst (t_log st))); [contradiction|]. cbn. rewrite Hdials. reflexivity.
    + (* reuse of the parked connection *)
      constructor; cbn.
      * constructor; assumption.
      * intros j y [E|Hin].
        -- inversion E; subst. split; [apply upd_same|]. split; [left; reflexivity|].
           intros x' [E'|Hin']; [inversion E'; reflexivity|exact (Hone x' Hin')].
        -- assert (Hne : j <> i) by (intro; subst; apply Ef; apply in_map_iff; exists (i, y); tauto).
           destruct (Hbusy j y Hin) as [H1 [H2 H3]]. rewrite upd_other by (apply cl_neq; exact Hne).
           split; [exact H1|]. split; [right; exact H2|].
           intros x' [E'|Hin']; [inversion E'; congruence|exact (H3 x' Hin')].
      * intros j Hj. assert (Hne : j <> i) by (intro; subst; apply Hj; left; reflexivity).
        assert (Hj' : ~ In j (map fst (t_busy st))) by (intro; apply Hj; right; assumption).
        rewrite upd_other by (apply cl_neq; exact Hne).
        destruct (Hfree j Hj') as [[H1 H2]|[x0 [H1 [H2 H3]]]].
        -- left. split; [exact H1|]. intros [E|Hin]; [congruence|contradiction].
        -- right. exists x0. split; [exact H1|]. split; [right; exact H2|].
           intros x' [E'|Hin']; [inversion E'; congruence|exact (H3 x' Hin')].
      * destruct (in_dec Nat.eq_dec i (map fst (t_log st))); [|contradiction]. exact Hdials.
  - (* End *)
    destruct (busy_find i (t_busy st)) as [x|] eqn:Ef; [|discriminate]. apply busy_find_some_in in Ef.
    destruct (Hbusy i x Ef) as [Hid [Hlog Hone]]. rewrite Hid. cbn [length].
    destruct max_idle as [|mi']; [lia|]. cbn [Nat.leb].
    intro H; inversion H; subst; clear H.
    constructor; cbn.
    + apply busy_remove_NoDup. exact Hnd.
    + intros j y Hin. assert (Hne : j <> i).
      { intro; subst. apply (busy_remove_not_in i (t_busy st) Hnd). apply in_map_iff. exists (i, y). tauto. }
      apply busy_remove_in in Hin. rewrite upd_other by (apply cl_neq; exact Hne). exact (Hbusy j y Hin).
    + intros j Hj. destruct (Nat.eq_dec j i) as [->|Hne].
      * right. exists x. split; [apply upd_same|]. split; [|exact Hone]. apply in_map_iff. exists (i, x). tauto.
      * rewrite upd_other by (apply cl_neq; exact Hne). apply Hfree. intro Hin. apply Hj.
        apply busy_remove_keeps; assumption.
    + exact Hdials.
Qed.

Lemma inv_run : forall h st st', Inv st -> t_run cl true max_idle st h = Some st' -> Inv st'.
Proof.
  induction h as [|e r IH]; intros st st' Hinv; cbn.
  - intro H; inversion H; subst. exact Hinv.
  - destruct (t_step cl true max_idle st e) as [st1|] eqn:E; [|discriminate].
    apply IH. exact (inv_step _ _ _ Hinv E).
Qed.

(* every request of an instance went over the same connection *)
Lemma inv_one_connection : forall st, Inv st ->
  forall i x y, In (i, x) (t_log st) -> In (i, y) (t_log st) -> x = y.
Proof.
  intros st [Hnd Hbusy Hfree Hdials] i x y Hx Hy.
  destruct (in_dec Nat.eq_dec i (map fst (t_busy st))) as [Hin|Hnin].
  - apply in_map_iff in Hin. destruct Hin as [[j z] [E Hin]]. cbn in E. subst j.
    destruct (Hbusy i z Hin) as [_ [_ H3]]. rewrite (H3 x Hx), (H3 y Hy). reflexivity.
  - destruct (Hfree i Hnin) as [[_ H2]|[z [_ [_ H3]]]].
    + exfalso. apply H2. apply in_map_iff. exists (i, x). tauto.
    + rewrite (H3 x Hx), (H3 y Hy). reflexivity.
Qed.

Lemma nodup_bounded_length : forall n l, (forall i, In i l -> (i < n)%nat) -> (length (nodup Nat.eq_dec l) <= n)%nat.
Proof.
  intros n l H. replace n with (length (seq 0 n)) by apply seq_length.
  apply NoDup_incl_length; [apply NoDup_nodup|]. intros i Hi. apply nodup_In in Hi. apply in_seq. specialize (H i Hi). lia.
Qed.

Lemma per_instance_run : forall n h st,
  Forall (fun e => (ev_inst e < n)%nat) h ->
  t_run cl true max_idle t_init h = Some st ->
  (t_dials st <= n)%nat /\
  (forall i x y, In (i, x) (t_log st) -> In (i, y) (t_log st) -> x = y) /\
  t_dials st = length (nodup Nat.eq_dec (map fst (t_log st))).
Proof.
  intros n h st Hall Hrun. pose proof (inv_run h t_init st inv_init Hrun) as Hinv. split; [|split].
  - rewrite (inv_dials st Hinv). apply nodup_bounded_length. intros i Hi.
    destruct (run_log_insts cl true max_idle h t_init st Hrun i Hi) as [H|H]; [cbn in H; tauto|].
    apply in_map_iff in H. destruct H as [e [E He]]. rewrite Forall_forall in Hall. subst i. exact (Hall e He).
  - exact (inv_one_connection st Hinv).
  - exact (inv_dials st Hinv).
Qed.
End PerInstance.

(* ---------- the statements of Properties/C09_conns.v ---------- *)
Lemma conns_per_instance : forall c mi n h st,
  sc_enabled c = false -> (0 < mi)%nat ->
  Forall (fun e => (ev_inst e < n)%nat) h ->
  t_run (client_of (prepare_pool c)) true mi t_init h = Some st ->
  (t_dials st <= n)%nat /\
  (forall i x y, In (i, x) (t_log st) -> In (i, y) (t_log st) -> x = y).
Proof.
  intros c mi n h st Hc Hmi Hall Hrun.
  destruct (per_instance_run (client_of (prepare_pool c)) (per_instance_clients c Hc) mi Hmi n h st Hall Hrun) as [H1 [H2 _]].
  split; assumption.
Qed.

Lemma conns_no_keepalive : forall cl mi h st,
  t_run cl false mi t_init h = Some st -> t_dials st = requests_of h.
Proof.
  intros cl mi h st Hrun. destruct (run_no_keepalive cl mi h t_init st (fun _ => eq_refl) Hrun) as [H _]. exact H.
Qed.

Lemma conn_ok_sound : forall c ka mi n h st,
  (0 < mi)%nat ->
  Forall (fun e => (ev_inst e < n)%nat) h ->
  t_run (client_of (prepare_pool c)) ka mi t_init h = Some st ->
  conn_ok ka (sc_enabled c) n (requests_of h) (t_dials st) = true.
Proof.
  intros c ka mi n h st Hmi Hall Hrun. unfold conn_ok. destruct ka.
  - destruct (sc_enabled c) eqn:Hc.
    + apply Nat.leb_le. pose proof (run_dials_le_requests _ _ _ _ _ _ Hrun) as H. cbn in H. exact H.
    + apply Nat.leb_le. exact (proj1 (conns_per_instance c mi n h st Hc Hmi Hall Hrun)).
  - apply Nat.eqb_eq. exact (conns_no_keepalive _ _ _ _ Hrun).
Qed.

(* ---------- scripted histories ---------- *)
Lemma run_log_length : forall cl ka mi h st st', t_run cl ka mi st h = Some st' ->
  length (t_log st') = (length (t_log st) + requests_of h)%nat.
Proof.
  intros cl ka mi. induction h as [|e r IH]; intros st st'; cbn.
  - intro H; inversion H; subst. unfold requests_of. cbn. lia.
  - destruct (t_step cl ka mi st e) as [st1|] eqn:E; [|discriminate]. intro H. rewrite (IH _ _ H).
    unfold requests_of. destruct e as [j|j]; cbn in E |- *.
    + destruct (busy_find j (t_busy st)); [discriminate|].
      destruct (t_idle st (cl j)); inversion E; subst; cbn; lia.
    + destruct (busy_find j (t_busy st)); [|discriminate]. inversion E; subst; cbn; lia.
Qed.

Lemma log_one_conn_true : forall l,
  (forall i x y, In (i, x) l -> In (i, y) l -> x = y) -> log_one_conn l = true.
Proof.
  intros l H. unfold log_one_conn. apply forallb_forall. intros [i x] Hp. apply forallb_forall. intros [j y] Hq. cbn.
  destruct (Nat.eqb_spec i j) as [->|Hne]; cbn; [|reflexivity]. apply Nat.eqb_eq. exact (H j x y Hp Hq).
Qed.

Lemma hist_ok_sound : forall c ka mi n h st,
  (0 < mi)%nat ->
  Forall (fun e => (ev_inst e < n)%nat) h ->
  t_run (client_of (prepare_pool c)) ka mi t_init h = Some st ->
  hist_ok ka (sc_enabled c) n (requests_of h) (t_dials st) (rev (t_log st)) = true.
Proof.
  intros c ka mi n h st Hmi Hall Hrun. unfold hist_ok.
  rewrite (conn_ok_sound c ka mi n h st Hmi Hall Hrun). rewrite rev_length.
  rewrite (run_log_length _ _ _ _ _ _ Hrun). cbn [t_init t_log length Nat.add]. rewrite Nat.eqb_refl. cbn [andb].
  destruct ka; [|reflexivity]. destruct (sc_enabled c) eqn:Hc; [reflexivity|]. cbn [andb negb].
  apply log_one_conn_true. intros i x y Hx Hy. apply in_rev in Hx. apply in_rev in Hy.
  exact (proj2 (conns_per_instance c mi n h st Hc Hmi Hall Hrun) i x y Hx Hy).
Qed.
