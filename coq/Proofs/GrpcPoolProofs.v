(* C20 (round 8): pooled ammo objects — the pointer-level provider refines the value-level one as long as every
   acquired object is released ONCE (extra = 0). *)
From Coq Require Import List Arith Bool Lia Permutation.
From PV Require Import Model.GrpcPool.
Import ListNotations.

Section PoolProofs.
Variable A : Type.

Lemma set_nth_length : forall (l : list A) n x, length (set_nth l n x) = length l.
Proof. induction l; destruct n; simpl; intros; auto. Qed.

Lemma set_nth_same : forall (l : list A) n x, n < length l -> nth_error (set_nth l n x) n = Some x.
Proof. induction l; destruct n; simpl; intros; try lia; auto. apply IHl. lia. Qed.

Lemma set_nth_other : forall (l : list A) n m x, n <> m -> nth_error (set_nth l n x) m = nth_error l m.
Proof. induction l; destruct n, m; simpl; intros; try congruence; auto. Qed.

Lemma remove_nth_split : forall (l : list nat) k o, nth_error l k = Some o ->
  exists l1 l2, l = l1 ++ o :: l2 /\ remove_nth l k = l1 ++ l2.
Proof.
  induction l; destruct k; simpl; intros; try discriminate.
  - inversion H; subst. exists [], l. auto.
  - destruct (IHl _ _ H) as (l1 & l2 & E1 & E2). exists (a :: l1), l2. simpl. rewrite <- E1, E2. auto.
Qed.

Lemma nth_some_lt : forall (l : list A) n a, nth_error l n = Some a -> n < length l.
Proof. intros. apply nth_error_Some. congruence. Qed.

Record R (s : pstate A) (v : vstate A) : Prop := mkR {
  r_rest : ps_rest s = vs_rest v;
  r_out : ps_out s = vs_out v;
  r_queue : Forall2 (fun o a => nth_error (ps_cells s) o = Some a) (ps_queue s) (vs_queue v);
  r_held : forall i, match ps_held s i, vs_held v i with
                     | Some o, Some a => nth_error (ps_cells s) o = Some a
                     | None, None => True
                     | _, _ => False
                     end;
  r_nodup : NoDup (ps_free s ++ ps_queue s);
  r_sep : forall i o, ps_held s i = Some o -> ~ In o (ps_free s ++ ps_queue s);
  r_inj : forall i j o, ps_held s i = Some o -> ps_held s j = Some o -> i = j;
  r_bound : forall o, In o (ps_free s) -> o < length (ps_cells s) }.

Lemma R_init : forall input, R (pinit input) (vinit input).
Proof.
  intros. constructor; simpl; auto; try constructor; try discriminate; try tauto.
Qed.

Lemma queue_lt : forall cells q vq, Forall2 (fun o (a : A) => nth_error cells o = Some a) q vq ->
  forall o, In o q -> o < length cells.
Proof. induction 1; simpl; intros; try tauto. destruct H1; subst; eauto using nth_some_lt. Qed.

Lemma F2_snoc : forall (P : nat -> A -> Prop) q vq o a, Forall2 P q vq -> P o a -> Forall2 P (q ++ [o]) (vq ++ [a]).
Proof. intros. apply Forall2_app; auto. Qed.

Lemma F2_weaken : forall (P Q : nat -> A -> Prop) q vq, Forall2 P q vq ->
  (forall o a, In o q -> P o a -> Q o a) -> Forall2 Q q vq.
Proof. induction 1; intros; constructor; auto. apply H1; simpl; auto. apply IHForall2. intros. apply H1; simpl; auto. Qed.

Lemma step_sim : forall s v e, R s v ->
  match pstep 0 s e, vstep v e with
  | Some s', Some v' => R s' v'
  | None, None => True
  | _, _ => False
  end.
Proof.
  intros s v e [Hrest Hout Hq Hh Hnd Hsep Hinj Hb]. destruct e as [k | i | i | i | i]; simpl.
  - (* decode *)
    rewrite <- Hrest. destruct (ps_rest s) as [| a rest] eqn:Er; auto.
    destruct (nth_error (ps_free s) k) as [o |] eqn:Ek.
    + destruct (remove_nth_split _ _ _ Ek) as (l1 & l2 & E1 & E2).
      assert (Hof : In o (ps_free s)) by (rewrite E1; apply in_or_app; simpl; auto).
      assert (Holt : o < length (ps_cells s)) by auto.
      assert (Honq : ~ In o (ps_queue s)).
      { intro Hin. rewrite E1 in Hnd. rewrite <- app_assoc in Hnd. simpl in Hnd.
        apply NoDup_remove_2 in Hnd. apply Hnd. apply in_or_app. right. apply in_or_app. auto. }
      constructor; simpl; auto.
      * apply F2_snoc.
        -- eapply F2_weaken; eauto. simpl. intros o' a' Hin HP. rewrite set_nth_other; auto. congruence.
        -- apply set_nth_same; auto.
      * intro i. specialize (Hh i). destruct (ps_held s i) as [o' |] eqn:Ei; destruct (vs_held v i); auto.
        rewrite set_nth_other; auto. intro; subst o'. apply (Hsep _ _ Ei). apply in_or_app; auto.
      * rewrite E2. rewrite E1 in Hnd. eapply Permutation_NoDup; [| exact Hnd].
        rewrite <- !app_assoc. apply Permutation_app_head. simpl.
        rewrite app_assoc. apply Permutation_cons_append.
      * intros i o' Ei Hin. rewrite E2 in Hin. rewrite app_assoc in Hin. apply in_app_or in Hin. destruct Hin as [Hin | Hin].
        -- apply (Hsep _ _ Ei). rewrite E1. rewrite <- app_assoc in Hin. apply in_app_or in Hin.
           apply in_or_app. destruct Hin as [Hin | Hin]; [left | ].
           ++ apply in_or_app; auto.
           ++ apply in_app_or in Hin. destruct Hin; [left; apply in_or_app; simpl; auto | auto].
        -- simpl in Hin. destruct Hin as [-> | []]. apply (Hsep _ _ Ei). apply in_or_app; auto.
      * intros o' Hin. rewrite set_nth_length. apply Hb. rewrite E1. rewrite E2 in Hin.
        apply in_app_or in Hin. apply in_or_app. simpl. tauto.
    + assert (Hql := queue_lt _ _ _ Hq).
      constructor; simpl; auto.
      * apply F2_snoc.
        -- eapply F2_weaken; eauto. simpl. intros o' a' Hin HP. rewrite nth_error_app1; eauto using nth_some_lt.
        -- rewrite nth_error_app2; auto. rewrite Nat.sub_diag. reflexivity.
      * intro i. specialize (Hh i). destruct (ps_held s i) as [o' |] eqn:Ei; destruct (vs_held v i); auto.
        rewrite nth_error_app1; eauto using nth_some_lt.
      * rewrite app_assoc. eapply Permutation_NoDup; [apply Permutation_cons_append |].
        constructor; auto. intro Hin. apply in_app_or in Hin. destruct Hin as [Hin | Hin].
        -- apply Hb in Hin. lia.
        -- apply Hql in Hin. lia.
      * intros i o' Ei Hin. rewrite app_assoc in Hin. apply in_app_or in Hin. destruct Hin as [Hin | Hin].
        -- apply (Hsep _ _ Ei); auto.
        -- simpl in Hin. destruct Hin as [<- | []]. specialize (Hh i). rewrite Ei in Hh.
           destruct (vs_held v i); try tauto. apply nth_some_lt in Hh. lia.
      * intros o' Hin. rewrite app_length. simpl. apply Hb in Hin. lia.
  - (* acquire *)
    pose proof (Hh i) as Hi. destruct (ps_held s i) as [o' |] eqn:Ei; destruct (vs_held v i) eqn:Evi; try tauto.
    destruct (ps_queue s) as [| o q] eqn:Eq; inversion Hq as [| o1 a q1 vq HP Hq' E1 E2]; subst; auto.
    constructor; simpl; auto.
    + intro j. unfold upd. destruct (Nat.eqb j i) eqn:Eji; auto. apply Hh.
    + apply NoDup_remove_1 in Hnd. auto.
    + intros j o1. unfold upd. destruct (Nat.eqb j i) eqn:Eji.
      * intro E; inversion E; subst o1. apply NoDup_remove_2 in Hnd. auto.
      * intros Ej Hin. apply (Hsep _ _ Ej). apply in_app_or in Hin. apply in_or_app. simpl. tauto.
    + intros j j' o1. unfold upd. destruct (Nat.eqb j i) eqn:Eji; destruct (Nat.eqb j' i) eqn:Eji'.
      * apply Nat.eqb_eq in Eji, Eji'. congruence.
      * intros E Ej'. inversion E; subst o1. exfalso. apply (Hsep _ _ Ej'). apply in_or_app. simpl. auto.
      * intros Ej E. inversion E; subst o1. exfalso. apply (Hsep _ _ Ej). apply in_or_app. simpl. auto.
      * apply Hinj.
  - (* shoot *)
    pose proof (Hh i) as Hi. destruct (ps_held s i) as [o |] eqn:Ei; destruct (vs_held v i) eqn:Evi; try tauto.
    rewrite Hi. constructor; simpl; auto. congruence.
  - (* discard *)
    pose proof (Hh i) as Hi. destruct (ps_held s i) as [o |] eqn:Ei; destruct (vs_held v i) eqn:Evi; try tauto.
    constructor; simpl; auto. congruence.
  - (* release *)
    pose proof (Hh i) as Hi. destruct (ps_held s i) as [o |] eqn:Ei; destruct (vs_held v i) eqn:Evi; try tauto.
    constructor; simpl; auto.
    + intro j. unfold upd. destruct (Nat.eqb j i) eqn:Eji; auto. apply Hh.
    + constructor; auto. apply (Hsep _ _ Ei).
    + intros j o1. unfold upd. destruct (Nat.eqb j i) eqn:Eji; try discriminate.
      intros Ej [E | Hin].
      * subst o1. apply Nat.eqb_neq in Eji. apply Eji. eapply Hinj; eauto.
      * apply (Hsep _ _ Ej); auto.
    + intros j j' o1. unfold upd. destruct (Nat.eqb j i) eqn:Eji; destruct (Nat.eqb j' i) eqn:Eji'; try discriminate.
      apply Hinj.
    + intros o1 [<- | Hin]; auto. eapply nth_some_lt; eauto.
Qed.

Lemma run_sim : forall evs s v, R s v ->
  match prun 0 s evs, vrun v evs with
  | Some s', Some v' => R s' v'
  | None, None => True
  | _, _ => False
  end.
Proof.
  induction evs as [| e evs IH]; simpl; intros; auto.
  pose proof (step_sim s v e H) as Hs.
  destruct (pstep 0 s e), (vstep v e); try tauto. apply IH; auto.
Qed.

(* any interleaving of decoder and instances, any choices of the pool: what is shot through the pooled objects is
   what the value-level specification shoots *)
Theorem pool_refines : forall input evs,
  option_map (@ps_out A) (prun 0 (pinit input) evs) = option_map (@vs_out A) (vrun (vinit input) evs).
Proof.
  intros. pose proof (run_sim evs _ _ (R_init input)) as H.
  destruct (prun 0 (pinit input) evs), (vrun (vinit input) evs); simpl; try tauto.
  f_equal. apply r_out; auto.
Qed.

(* value level: lines are handed out in file order, each to one acquisition; a shot sends an acquired line *)
Record VI (input : list A) (v : vstate A) : Prop := mkVI {
  vi_order : vs_acq v ++ vs_queue v ++ vs_rest v = input;
  vi_held : forall i a, vs_held v i = Some a -> In a (vs_acq v);
  vi_out : forall a, In a (shots_of (vs_out v)) -> In a (vs_acq v) }.

Lemma shots_of_app : forall (o1 o2 : list (shot A)), shots_of (o1 ++ o2) = shots_of o1 ++ shots_of o2.
Proof. intros. unfold shots_of. apply flat_map_app. Qed.

Lemma vstep_inv : forall input v e v', VI input v -> vstep v e = Some v' -> VI input v'.
Proof.
  intros input v e v' [Ho Hh Hout] Hs. destruct e as [k | i | i | i | i]; simpl in Hs.
  - destruct (vs_rest v) eqn:Er; inversion Hs; subst v'; clear Hs. constructor; simpl; auto.
    rewrite <- Ho. rewrite <- !app_assoc. reflexivity.
  - destruct (vs_held v i) eqn:Ei; try discriminate. destruct (vs_queue v) eqn:Eq; inversion Hs; subst v'; clear Hs.
    constructor; simpl.
    + rewrite <- Ho. rewrite <- !app_assoc. reflexivity.
    + intros j a0. unfold upd. destruct (Nat.eqb j i).
      * intro E; injection E as <-. apply in_or_app. simpl. auto.
      * intro E. apply in_or_app. left. eauto.
    + intros. apply in_or_app. left. auto.
  - destruct (vs_held v i) eqn:Ei; inversion Hs; subst v'; clear Hs. constructor; simpl; auto.
    intros a0. rewrite shots_of_app. simpl. intro Hin. apply in_app_or in Hin. destruct Hin as [Hin | [<- | []]]; eauto.
  - destruct (vs_held v i) eqn:Ei; inversion Hs; subst v'; clear Hs. constructor; simpl; auto.
    intros a0. rewrite shots_of_app. simpl. rewrite app_nil_r. auto.
  - destruct (vs_held v i) eqn:Ei; inversion Hs; subst v'; clear Hs. constructor; simpl; auto.
    intros j a0. unfold upd. destruct (Nat.eqb j i); try discriminate. eauto.
Qed.

Theorem lines_in_file_order : forall (input : list A) evs (v : vstate A), vrun (vinit input) evs = Some v ->
  vs_acq v ++ vs_queue v ++ vs_rest v = input /\
  (forall a, In a (shots_of (vs_out v)) -> In a (vs_acq v)) /\
  length (shots_of (vs_out v)) <= length (vs_out v).
Proof.
  intros input evs v Hr.
  assert (VI input v).
  { assert (G : forall evs v0, VI input v0 -> vrun v0 evs = Some v -> VI input v).
    { induction evs0 as [| e evs0 IH]; simpl; intros v0 H0 Hrun.
      - injection Hrun as Ev. rewrite <- Ev. exact H0.
      - destruct (vstep v0 e) eqn:Es; try discriminate. eapply IH; [eapply vstep_inv; [exact H0 | exact Es] | exact Hrun]. }
    eapply G; eauto. constructor; simpl; auto; try discriminate; tauto. }
  destruct H. repeat split; auto.
  clear. induction (vs_out v) as [| x l IH]; simpl; auto. destruct x; simpl; lia.
Qed.

End PoolProofs.

(* the refinement needs the single Release: with one more Release in the discard branch (extra = 1) the same object is
   pooled twice, two lines are decoded into it and a queued line is overwritten: line 2 is never sent, line 3 twice *)
Definition double_release_events : list ev :=
  [EDecode 0; EAcquire 0; EDiscard 0; ERelease 0; EDecode 0; EDecode 0; EAcquire 0; EShoot 0; ERelease 0; EAcquire 1; EShoot 1; ERelease 1].

Lemma double_release_refuted :
  option_map (@ps_out nat) (prun 1 (pinit [1; 2; 3; 4]) double_release_events) = Some [Discarded; Shot 3; Shot 3] /\
  option_map (@vs_out nat) (vrun (vinit [1; 2; 3; 4]) double_release_events) = Some [Discarded; Shot 2; Shot 3] /\
  option_map (@ps_out nat) (prun 0 (pinit [1; 2; 3; 4]) double_release_events) = Some [Discarded; Shot 2; Shot 3].
Proof. repeat split; vm_compute; reflexivity. Qed.

Lemma extra_releases_shape : forall sites n, extra_releases sites = Some n ->
  length (filter (fun s => snd s) sites) = 1 /\ n = length (filter (fun s => negb (snd s)) sites).
Proof.
  unfold extra_releases. intros sites n. destruct (filter (fun s => snd s) sites) as [| x [| y l]]; try discriminate.
  intro H; inversion H; auto.
Qed.

(* ---- each line is sent at most once (instances that follow the program of instance.Run) ---- *)
Section Once.
Variable A : Type.
Variable input : list A.
Hypothesis Hnd : NoDup input.

Record OI (ph : nat -> nat) (v : vstate A) : Prop := mkOI {
  oi_vi : VI A input v;
  oi_idle : forall i, ph i = 0 <-> vs_held v i = None;
  oi_fresh : forall i a, ph i = 1 -> vs_held v i = Some a -> ~ In a (shots_of (vs_out v));
  oi_inj : forall i j a, vs_held v i = Some a -> vs_held v j = Some a -> i = j;
  oi_nodup : NoDup (shots_of (vs_out v)) }.

Lemma nodup_app_l : forall (l1 l2 : list A), NoDup (l1 ++ l2) -> NoDup l1 /\ (forall a, In a l1 -> ~ In a l2).
Proof.
  induction l1 as [| x l1 IH]; simpl; intros l2 H.
  - split; [constructor | tauto].
  - inversion H; subst. destruct (IH _ H3) as [N1 N2]. split.
    + constructor; auto. intro Hin. apply H2. apply in_or_app. auto.
    + intros a [<- | Ha]; auto. intro Hin. apply H2. apply in_or_app. auto.
Qed.

Lemma acq_nodup : forall v, VI A input v -> NoDup (vs_acq v) /\ (forall a, In a (vs_acq v) -> ~ In a (vs_queue v)).
Proof.
  intros v [Ho _ _]. rewrite <- Ho in Hnd. destruct (nodup_app_l _ _ Hnd) as [N1 N2]. split; auto.
  intros a Ha Hq. apply (N2 _ Ha). apply in_or_app. auto.
Qed.

Lemma shots_snoc_shot : forall (o : list (shot A)) a, shots_of (o ++ [Shot a]) = shots_of o ++ [a].
Proof. intros. rewrite shots_of_app. reflexivity. Qed.
Lemma shots_snoc_disc : forall (o : list (shot A)), shots_of (o ++ [Discarded]) = shots_of o.
Proof. intros. rewrite shots_of_app. simpl. apply app_nil_r. Qed.

Lemma once_step : forall ph v e ph' v', OI ph v -> phase_step ph e = Some ph' -> vstep v e = Some v' -> OI ph' v'.
Proof.
  intros ph v e ph' v' [Hvi Hidle Hfresh Hinj Hnds] Hp Hs.
  assert (Hvi' : VI A input v') by (eapply vstep_inv; eauto).
  destruct (acq_nodup v Hvi) as [Hna Haq].
  destruct e as [k | i | i | i | i]; simpl in Hp, Hs.
  - inversion Hp; subst ph'; clear Hp. destruct (vs_rest v); inversion Hs; subst v'; clear Hs.
    constructor; simpl; auto.
  - destruct (Nat.eqb (ph i) 0) eqn:Ep; inversion Hp; subst ph'; clear Hp.
    destruct (vs_held v i) eqn:Ei; try discriminate. destruct (vs_queue v) as [| a q] eqn:Eq; inversion Hs; subst v'; clear Hs.
    assert (Hnew : ~ In a (vs_acq v)). { intro Hin. apply (Haq _ Hin). simpl. auto. }
    destruct Hvi as [Ho Hheld Hout].
    constructor; simpl; auto.
    + intro j. unfold upd. destruct (Nat.eqb j i) eqn:Eji.
      * split; intro; discriminate.
      * apply Hidle.
    + intros j a0. unfold upd. destruct (Nat.eqb j i) eqn:Eji.
      * intros _ E. injection E as <-. intro Hin. apply Hnew. auto.
      * apply Hfresh.
    + intros j j' a0. unfold upd. destruct (Nat.eqb j i) eqn:Eji; destruct (Nat.eqb j' i) eqn:Eji'.
      * apply Nat.eqb_eq in Eji, Eji'. congruence.
      * intros E Ej'. injection E as <-. exfalso. apply Hnew. eauto.
      * intros Ej E. injection E as <-. exfalso. apply Hnew. eauto.
      * apply Hinj.
  - destruct (Nat.eqb (ph i) 1) eqn:Ep; inversion Hp; subst ph'; clear Hp. apply Nat.eqb_eq in Ep.
    destruct (vs_held v i) as [a |] eqn:Ei; inversion Hs; subst v'; clear Hs.
    constructor; simpl; auto.
    + intro j. destruct (Nat.eqb j i) eqn:Eji.
      * apply Nat.eqb_eq in Eji. subst j. split; intro; try discriminate. congruence.
      * apply Hidle.
    + intros j a0. destruct (Nat.eqb j i) eqn:Eji; try discriminate.
      intros Ej Hj. rewrite shots_snoc_shot. intro Hin. apply in_app_or in Hin. destruct Hin as [Hin | [<- | []]].
      * eapply Hfresh; eauto.
      * apply Nat.eqb_neq in Eji. apply Eji. eapply Hinj; eauto.
    + rewrite shots_snoc_shot.
      assert (P : forall l (x : A), NoDup l -> ~ In x l -> NoDup (l ++ [x])).
      { induction l as [| y l IHl]; simpl; intros x Hn Hx.
        - constructor; [simpl; tauto | constructor].
        - inversion Hn; subst. constructor.
          + intro Hin. apply in_app_or in Hin. simpl in Hin. destruct Hin as [Hin | [E | []]]; [tauto | subst; apply Hx; auto].
          + apply IHl; auto. }
      apply P; auto. eapply Hfresh; eauto.
  - destruct (Nat.eqb (ph i) 1) eqn:Ep; inversion Hp; subst ph'; clear Hp. apply Nat.eqb_eq in Ep.
    destruct (vs_held v i) as [a |] eqn:Ei; inversion Hs; subst v'; clear Hs.
    constructor; simpl; auto.
    + intro j. destruct (Nat.eqb j i) eqn:Eji.
      * apply Nat.eqb_eq in Eji. subst j. split; intro; try discriminate. congruence.
      * apply Hidle.
    + intros j a0. destruct (Nat.eqb j i) eqn:Eji; try discriminate.
      rewrite shots_snoc_disc. apply Hfresh.
    + rewrite shots_snoc_disc. auto.
  - destruct (Nat.eqb (ph i) 2) eqn:Ep; inversion Hp; subst ph'; clear Hp.
    destruct (vs_held v i) as [a |] eqn:Ei; inversion Hs; subst v'; clear Hs.
    constructor; simpl; auto.
    + intro j. unfold upd. destruct (Nat.eqb j i) eqn:Eji.
      * tauto.
      * apply Hidle.
    + intros j a0. unfold upd. destruct (Nat.eqb j i) eqn:Eji; try discriminate. apply Hfresh.
    + intros j j' a0. unfold upd. destruct (Nat.eqb j i) eqn:Eji; destruct (Nat.eqb j' i) eqn:Eji'; try discriminate. apply Hinj.
Qed.

Theorem sent_at_most_once : forall evs v, disciplined evs = true -> vrun (vinit input) evs = Some v ->
  NoDup (shots_of (vs_out v)).
Proof.
  intros evs v Hd Hr.
  assert (G : forall evs ph v0, OI ph v0 -> disciplined_from ph evs = true -> vrun v0 evs = Some v -> NoDup (shots_of (vs_out v))).
  { induction evs0 as [| e evs0 IH]; simpl; intros ph v0 H0 Hdisc Hrun.
    - injection Hrun as Ev. rewrite <- Ev. apply oi_nodup with (ph := ph). exact H0.
    - destruct (phase_step ph e) eqn:Ep; try discriminate. destruct (vstep v0 e) eqn:Es; try discriminate.
      eapply IH; [eapply once_step; [exact H0 | exact Ep | exact Es] | exact Hdisc | exact Hrun]. }
  eapply G; [| exact Hd | exact Hr].
  constructor; simpl; try tauto; try discriminate; try constructor; simpl; auto; try tauto; try discriminate.
Qed.
End Once.
