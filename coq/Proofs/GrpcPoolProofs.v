(* C20 (round 8): pooled ammo objects — the pointer-level provider refines the value-level one as long as every
   acquired object is released ONCE (extra = 0). *)
From Coq Require Import List Arith Bool Lia Permutation.
From PV Require Import Model.GrpcPool.
Import ListNotations.

Section PoolProofs.
Variable A : Type.

Lemma set_nth_length : forall (l : list A) n x, length (set_nth l n x) = length l.
Proof. induction l; destruct n; simpl; intros; auto. Qed.

Lemma set_nth_same : forall (l : list A) n x, n < length l -> nth_error (set_nth l n x) n = Some x.
Proof. induction l; destruct n; simpl; intros; try lia; auto. apply IHl. lia. Qed.

Lemma set_nth_other : forall (l : list A) n m x, n <> m -> nth_error (set_nth l n x) m = nth_error l m.
Proof. induction l; destruct n, m; simpl; intros; try congruence; auto. Qed.

Lemma remove_nth_split : forall (l : list nat) k o, nth_error l k = Some o ->
  exists l1 l2, l = l1 ++ o :: l2 /\ remove_nth l k = l1 ++ l2.
Proof.
  induction l; destruct k; simpl; intros; try discriminate.
  - inversion H; subst. exists [], l. auto.
  - destruct (IHl _ _ H) as (l1 & l2 & E1 & E2). exists (a :: l1), l2. simpl. rewrite <- E1, E2. auto.
Qed.

Lemma nth_some_lt : forall (l : list A) n a, nth_error l n = Some a -> n < length l.
Proof. intros. apply nth_error_Some. congruence. Qed.

Record R (s : pstate A) (v : vstate A) : Prop := mkR {
  r_rest : ps_rest s = vs_rest v;
  r_out : ps_out s = vs_out v;
  r_queue : Forall2 (fun o a => nth_error (ps_cells s) o = Some a) (ps_queue s) (vs_queue v);
  r_held : forall i, match ps_held s i, vs_held v i with
                     | Some o, Some a => nth_error (ps_cells s) o = Some a
                     | None, None => True
                     | _, _ => False
                     end;
  r_nodup : NoDup (ps_free s ++ ps_queue s);
  r_sep : forall i o, ps_held s i = Some o -> ~ In o (ps_free s ++ ps_queue s);
  r_inj : forall i j o, ps_held s i = Some o -> ps_held s j = Some o -> i = j;
  r_bound : forall o, In o (ps_free s) -> o < length (ps_cells s) }.

Lemma R_init : forall input, R (pinit input) (vinit input).
Proof.
  intros. constructor; simpl; auto; try constructor; try discriminate; try tauto.
Qed.

Lemma queue_lt : forall cells q vq, Forall2 (fun o (a : A) => nth_error cells o = Some a) q vq ->
  forall o, In o q -> o < length cells.
Proof. induction 1; simpl; intros; try tauto. destruct H1; subst; eauto using nth_some_lt. Qed.

Lemma F2_snoc : forall (P : nat -> A -> Prop) q vq o a, Forall2 P q vq -> P o a -> Forall2 P (q ++ [o]) (vq ++ [a]).
Proof. intros. apply Forall2_app; auto. Qed.

Lemma F2_weaken : forall (P Q : nat -> A -> Prop) q vq, Forall2 P q vq ->
  (forall o a, In o q -> P o a -> Q o a) -> Forall2 Q q vq.
Proof. induction 1; intros; constructor; auto. apply H1; simpl; auto. apply IHForall2. intros. apply H1; simpl; auto. Qed.

Lemma step_sim : forall s v e, R s v ->
  match pstep 0 s e, vstep v e with
  | Some s', Some v' => R s' v'
  | None, None => True
  | _, _ => False
  end.
Proof.
  intros s v e [Hrest Hout Hq Hh Hnd Hsep Hinj Hb]. destruct e as [k | i | i | i | i]; simpl.
  - (* decode *)
    rewrite <- Hrest. destruct (ps_rest s) as [| a rest] eqn:Er; auto.
    destruct (nth_error (ps_free s) k) as [o |] eqn:Ek.
    + destruct (remove_nth_split _ _ _ Ek) as (l1 & l2 & E1 & E2).
      assert (Hof : In o (ps_free s)) by (rewrite E1; apply in_or_app; simpl; auto).
      assert (Holt : o < length (ps_cells s)) by auto.
      assert (Honq : ~ In o (ps_queue s)).
      { intro Hin. rewrite E1 in Hnd. rewrite <- app_assoc in Hnd. simpl in Hnd.
        apply NoDup_remove_2 in Hnd. apply Hnd. apply in_or_app. right. apply in_or_app. auto. }
      constructor; simpl; auto.
      * apply F2_snoc.
        -- eapply F2_weaken; eauto. simpl. intros o' a' Hin HP. rewrite set_nth_other; auto. congruence.
        -- apply set_nth_same; auto.
      * intro i. specialize (Hh i). destruct (ps_held s i) as [o' |] eqn:Ei; destruct (vs_held v i); auto.
        rewrite set_nth_other; auto. intro; subst o'. apply (Hsep _ _ Ei). apply in_or_app; auto.
      * rewrite E2. rewrite E1 in Hnd. eapply Permutation_NoDup; [| exact Hnd].
        rewrite <- !app_assoc. apply Permutation_app_head. simpl.
        rewrite app_assoc. apply Permutation_cons_append.
      * intros i o' Ei Hin. rewrite E2 in Hin. rewrite app_assoc in Hin. apply in_app_or in Hin. destruct Hin as [Hin | Hin].
        -- apply (Hsep _ _ Ei). rewrite E1. rewrite <- app_assoc in Hin. apply in_app_or in Hin.
           apply in_or_app. destruct Hin as [Hin | Hin]; [left | ].
           ++ apply in_or_app; auto.
           ++ apply in_app_or in Hin. destruct Hin; [left; apply in_or_app; simpl; auto | auto].
        -- simpl in Hin. destruct Hin as [-> | []]. apply (Hsep _ _ Ei). apply in_or_app; auto.
      * intros o' Hin. rewrite set_nth_length. apply Hb. rewrite E1. rewrite E2 in Hin.
        apply in_app_or in Hin. apply in_or_app. simpl. tauto.
    + assert (Hql := queue_lt _ _ _ Hq).
      constructor; simpl; auto.
      * apply F2_snoc.
        -- eapply F2_weaken; eauto. simpl. intros o' a' Hin HP. rewrite nth_error_app1; eauto using nth_some_lt.
        -- rewrite nth_error_app2; auto. rewrite Nat.sub_diag. reflexivity.
      * intro i. specialize (Hh i). destruct (ps_held s i) as [o' |] eqn:Ei; destruct (vs_held v i); auto.
        rewrite nth_error_app1; eauto using nth_some_lt.
      * rewrite app_assoc. eapply Permutation_NoDup; [apply Permutation_cons_append |].
        constructor; auto. intro Hin. apply in_app_or in Hin. destruct Hin as [Hin | Hin].
        -- apply Hb in Hin. lia.
        -- apply Hql in Hin. lia.
      * intros i o' Ei Hin. rewrite app_assoc in Hin. apply in_app_or in Hin. destruct Hin as [Hin | Hin].
        -- apply (Hsep _ _ Ei); auto.
        -- simpl in Hin. destruct Hin as [<- | []]. specialize (Hh i). rewrite Ei in Hh.
           destruct (vs_held v i); try tauto. apply nth_some_lt in Hh. lia.
      * intros o' Hin. rewrite app_length. simpl. apply Hb in Hin. lia.
  - (* acquire *)
    pose proof (Hh i) as Hi. destruct (ps_held s i) as [o' |] eqn:Ei; destruct (vs_held v i) eqn:Evi; try tauto.
    destruct (ps_queue s) as [| o q] eqn:Eq; inversion Hq as [| o1 a q1 vq HP Hq' E1 E2]; subst; auto.
    constructor; simpl; auto.
    + intro j. unfold upd. destruct (Nat.eqb j i) eqn:Eji; auto. apply Hh.
    + apply NoDup_remove_1 in Hnd. auto.
    + intros j o1. unfold upd. destruct (Nat.eqb j i) eqn:Eji.
      * intro E; inversion E; subst o1. apply NoDup_remove_2 in Hnd. auto.
      * intros Ej Hin. apply (Hsep _ _ Ej). apply in_app_or in Hin. apply in_or_app. simpl. tauto.
    + intros j j' o1. unfold upd. destruct (Nat.eqb j i) eqn:Eji; destruct (Nat.eqb j' i) eqn:Eji'.
      * apply Nat.eqb_eq in Eji, Eji'. congruence.
      * intros E Ej'. inversion E; subst o1. exfalso. apply (Hsep _ _ Ej'). apply in_or_app. simpl. auto.
      * intros Ej E. inversion E; subst o1. exfalso. apply (Hsep _ _ Ej). apply in_or_app. simpl. auto.
      * apply Hinj.
  - (* shoot *)
    pose proof (Hh i) as Hi. destruct (ps_held s i) as [o |] eqn:Ei; destruct (vs_held v i) eqn:Evi; try tauto.
    rewrite Hi. constructor; simpl; auto. congruence.
  - (* discard *)
    pose proof (Hh i) as Hi. destruct (ps_held s i) as [o |] eqn:Ei; destruct (vs_held v i) eqn:Evi; try tauto.
    constructor; simpl; auto. congruence.
  - (* release *)
    pose proof (Hh i) as Hi. destruct (ps_held s i) as [o |] eqn:Ei; destruct (vs_held v i) eqn:Evi; try tauto.
    constructor; simpl; auto.
    + intro j. unfold upd. destruct (Nat.eqb j i) eqn:Eji; auto. apply Hh.
    + constructor; auto. apply (Hsep _ _ Ei).
    + intros j o1. unfold upd. destruct (Nat.eqb j i) eqn:Eji; try discriminate.
      intros Ej [E | Hin].
      * subst o1. apply Nat.eqb_neq in Eji. apply Eji. eapply Hinj; eauto.
      * apply (Hsep _ _ Ej); auto.
    + intros j j' o1. unfold upd. destruct (Nat.eqb j i) eqn:Eji; destruct (Nat.eqb j' i) eqn:Eji'; try discriminate.
      apply Hinj.
    + intros o1 [<- | Hin]; auto. eapply nth_some_lt; eauto.
Qed.

Lemma run_sim : forall evs s v, R s v ->
  match prun 0 s evs, vrun v evs with
  | Some s', Some v' => R s' v'
  | None, None => True
  | _, _ => False
  end.
Proof.
  induction evs as [| e evs IH]; simpl; intros; auto.
  pose proof (step_sim s v e H) as Hs.
  destruct (pstep 0 s e), (vstep v e); try tauto. apply IH; auto.
Qed.

(* any interleaving of decoder and instances, any choices of the pool: what is shot through the pooled objects is
   what the value-level specification shoots *)
Theorem pool_refines : forall input evs,
  option_map (@ps_out A) (prun 0 (pinit input) evs) = option_map (@vs_out A) (vrun (vinit input) evs).
Proof.
  intros. pose proof (run_sim evs _ _ (R_init input)) as H.
  destruct (prun 0 (pinit input) evs), (vrun (vinit input) evs); simpl; try tauto.
  f_equal. apply r_out; auto.
Qed.

(* value level: lines are handed out in file order, each to one acquisition; a shot sends an acquired line *)
Record VI (input : list A) (v : vstate A) : Prop := mkVI {
  vi_order : vs_acq v ++ vs_queue v ++ vs_rest v = input;
  vi_held : forall i a, vs_held v i = Some a -> In a (vs_acq v);
  vi_out : forall a, In a (shots_of (vs_out v)) -> In a (vs_acq v) }.

Lemma shots_of_app : forall (o1 o2 : list (shot A)), shots_of (o1 ++ o2) = shots_of o1 ++ shots_of o2.
Proof. intros. unfold shots_of. apply flat_map_app. Qed.

Lemma vstep_inv : forall input v e v', VI input v -> vstep v e = Some v' -> VI input v'.
Proof.
  intros input v e v' [Ho Hh Hout] Hs. destruct e as [k | i | i | i | i]; simpl in Hs.
  - destruct (vs_rest v) eqn:Er; inversion Hs; subst v'; clear Hs. constructor; simpl; auto.
    rewrite <- Ho. rewrite <- !app_assoc. reflexivity.
  - destruct (vs_held v i) eqn:Ei; try discriminate. destruct (vs_queue v) eqn:Eq; inversion Hs; subst v'; clear Hs.
    constructor; simpl.
    + rewrite <- Ho. rewrite <- !app_assoc. reflexivity.
    + intros j a0. unfold upd. destruct (Nat.eqb j i).
      * intro E; injection E as <-. apply in_or_app. simpl. auto.
      * intro E. apply in_or_app. left. eauto.
    + intros. apply in_or_app. left. auto.
  - destruct (vs_held v i) eqn:Ei; inversion Hs; subst v'; clear Hs. constructor; simpl; auto.
    intros a0. rewrite shots_of_app. simpl. intro Hin. apply in_app_or in Hin. destruct Hin as [Hin | [<- | []]]; eauto.
  - destruct (vs_held v i) eqn:Ei; inversion Hs; subst v'; clear Hs. constructor; simpl; auto.
    intros a0. rewrite shots_of_app. simpl. rewrite app_nil_r. auto.
  - destruct (vs_held v i) eqn:Ei; inversion Hs; subst v'; clear Hs. constructor; simpl; auto.
    intros j a0. unfold upd. destruct (Nat.eqb j i); try discriminate. eauto.
Qed.

Theorem lines_in_file_order : forall (input : list A) evs (v : vstate A), vrun (vinit input) evs = Some v ->
  vs_acq v ++ vs_queue v ++ vs_rest v = input /\
  (forall a, In a (shots_of (vs_out v)) -> In a (vs_acq v)) /\
  length (shots_of (vs_out v)) <= length (vs_out v).
Proof.
  intros input evs v Hr.
  assert (VI input v).
  { assert (G : forall evs v0, VI input v0 -> vrun v0 evs = Some v -> VI input v).
    { induction evs0 as [| e evs0 IH]; simpl; intros v0 H0 Hrun.
      - injection Hrun as Ev. rewrite <- Ev. exact H0.
      - destruct (vstep v0 e) eqn:Es; try discriminate. eapply IH; [eapply vstep_inv; [exact H0 | exact Es] | exact Hrun]. }
    eapply G; eauto. constructor; simpl; auto; try discriminate; tauto. }
  destruct H. repeat split; auto.
  clear. induction (vs_out v) as [| x l IH]; simpl; auto. destruct x; simpl; lia.
Qed.

End PoolProofs.

(* the refinement needs the single Release: with one more Release in the discard branch (extra = 1) the same object is
   pooled twice, two lines are decoded into it and a queued line is overwritten: line 2 is never sent, line 3 twice *)
Definition double_release_events : list ev :=
  [EDecode 0; EAcquire 0; EDiscard 0; ERelease 0; EDecode 0; EDecode 0; EAcquire 0; EShoot 0; ERelease 0; EAcquire 1; EShoot 1; ERelease 1].

Lemma double_release_refuted :
  option_map (@ps_out nat) (prun 1 (pinit [1; 2; 3; 4]) double_release_events) = Some [Discarded; Shot 3; Shot 3] /\
  option_map (@vs_out nat) (vrun (vinit [1; 2; 3; 4]) double_release_events) = Some [Discarded; Shot 2; Shot 3] /\
  option_map (@ps_out nat) (prun 0 (pinit [1; 2; 3; 4]) double_release_events) = Some [Discarded; Shot 2; Shot 3].
Proof. repeat split; vm_compute; reflexivity. Qed.

Lemma extra_releases_shape : forall sites n, extra_releases sites = Some n ->
  length (filter (fun s => snd s) sites) = 1 /\ n = length (filter (fun s => negb (snd s)) sites).
Proof.
  unfold extra_releases. intros sites n. destruct (filter (fun s => snd s) sites) as [| x [| y l]]; try discriminate.
  intro H; inversion H; auto.
Qed.
