(* The fine-grained unlimitedSchedule (Model/SchedLeafConc.v, [unl_progs]) is a linearizable
   implementation of the atomic leaf [Unlim] of Model/SchedTree.v: whatever the interleaving of the
   micro-steps of any number of threads calling Next / Left on a leaf nobody called Start on, nothing
   panics and the ghost history - with the start made explicit as Start(finish - duration) in the step
   in which the schedule is marked started - is a run of the atomic leaf at the clock readings of the
   steps.  The order "store the finish time, THEN mark started" inside the Once is what makes this
   true: a Left that sees the flag set reads the final finish time. *)
From Coq Require Import List ZArith Bool Arith Lia.
From PV Require Import Model.SchedTree Model.SchedLeafConc Proofs.SchedLeafConcProofs.
Import ListNotations.
Local Open Scope Z_scope.

Definition uB1 := [KAct AStoreFinNow; KAct AMarkStartedU; KOnceExit; KAct AReadNow; KAct ARetUnl].
Definition uB2 := [KAct AMarkStartedU; KOnceExit; KAct AReadNow; KAct ARetUnl].
Definition uB3 := [KOnceExit; KAct AReadNow; KAct ARetUnl].
Definition uA1 := [KAct AReadNow; KAct ARetUnl].
Definition uA2 := [KAct ARetUnl].
Definition uL2 := [KAct ALeftUnlB].

Definition is_uA2 (k : list kont) : bool := match k with [KAct ARetUnl] => true | _ => false end.
Definition okL (th : lthread) : Prop := lt_k th = [] \/ lt_k th = uL2.
Definition ok3 (th : lthread) : Prop := lt_k th = [] \/ lt_k th = uA1 \/ lt_k th = uA2 \/ lt_k th = uL2.

Section Unl.
Variables (n : nat) (d : Z) (a : nat -> Z).

Definition upend (fin : Z) (th : lthread) : list obs :=
  if is_uA2 (lt_k th) then [unl_next_res d (lt_now th) fin] else [].

(* the ghost history is a run of the atomic leaf from the state [fin] (None = not started) *)
Fixpoint uspec (fin : option Z) (gh : list (nat * Z * op * obs)) : Prop :=
  match gh with
  | [] => True
  | (_, c, o, r) :: t =>
      match o, fin with
      | OLeft, None => r = RLeft (-1) /\ uspec None t
      | OLeft, Some f => r = RLeft (if c <? f then -1 else 0) /\ uspec fin t
      | ONext, Some f => r = unl_next_res d c f /\ uspec fin t
      | ONext, None => False
      | OStart t0, None => r = RStart /\ uspec (Some (t0 + d)) t
      | OStart _, Some _ => False
      end
  end.
(* the state of the atomic leaf after the history *)
Fixpoint ufin (fin : option Z) (gh : list (nat * Z * op * obs)) : option Z :=
  match gh with
  | [] => fin
  | (_, _, OStart t0, _) :: t => ufin (match fin with None => Some (t0 + d) | _ => fin end) t
  | _ :: t => ufin fin t
  end.

Lemma uspec_app gh : forall fin e, uspec fin gh -> uspec (ufin fin gh) [e] -> uspec fin (gh ++ [e]).
Proof.
  induction gh as [|[[[j c] o] r] t IH]; intros fin e H1 H2; [exact H2|].
  cbn [app]. destruct o, fin; cbn in H1 |- *; try tauto; destruct H1 as [E H1]; split; auto.
Qed.

Lemma ufin_app gh : forall fin e, ufin fin (gh ++ [e]) = ufin (ufin fin gh) [e].
Proof.
  induction gh as [|[[[j c] o] r] t IH]; intros fin e; [reflexivity|].
  cbn [app]. destruct o; cbn [ufin]; apply IH.
Qed.

Lemma uspec_run_tree fuel gh : forall fin,
  uspec fin gh -> run_tree (S fuel) (Unlim d fin) (map clk_op gh) = map snd gh.
Proof.
  induction gh as [|[[[j c] o] r] t IH]; intros fin H; auto.
  unfold clk_op at 1. cbn [map fst snd].
  destruct o, fin; cbn in H; try tauto; destruct H as [E H]; subst r.
  - cbn [run_tree s_start]. cbn [map snd]. f_equal. apply IH; auto.
  - cbn [run_tree s_next]. unfold unl_next_res. destruct (c <? z); cbn [map snd]; f_equal; apply IH; auto.
  - cbn [run_tree s_left]. cbn [map snd]. f_equal. apply IH; auto.
  - cbn [run_tree s_left]. cbn [map snd]. f_equal. apply IH; auto.
Qed.

(* ---------------------------------------------------------------- invariant *)
Variable fin0 : option Z.   (* None: nobody called Start; Some f: after a sequential Start(f - d) *)

Definition uphase (g : lgstate) : Prop :=
  let s := lg_s g in let ths := lg_threads g in
  (l_started s = false /\ l_done s = false /\ l_busy s = false /\ Forall idle ths)
  \/ (l_started s = false /\ l_done s = false /\ l_busy s = true /\ exists j th, nth_error ths j = Some th /\
       (lt_k th = uB1 \/ lt_k th = uB2) /\
       forall j' th', nth_error ths j' = Some th' -> j' <> j -> idle th')
  \/ (l_started s = true /\ l_done s = false /\ l_busy s = true /\ exists j th, nth_error ths j = Some th /\
       lt_k th = uB3 /\
       forall j' th', nth_error ths j' = Some th' -> j' <> j -> okL th')
  \/ (l_started s = true /\ l_done s = true /\ l_busy s = false /\ Forall ok3 ths).

Record UInv (g : lgstate) : Prop := {
  ui_nl : Forall nl_thread (lg_threads g);
  ui_phase : uphase g;
  ui_spec : uspec fin0 (lg_ghost g);
  ui_fin : ufin fin0 (lg_ghost g) = if l_started (lg_s g) then Some (l_fin (lg_s g)) else None;
  ui_clk : Forall (fun x => snd (fst (fst x)) <= lg_lo g) (lg_ghost g);
  ui_hist : forall j th, nth_error (lg_threads g) j = Some th ->
            ghost_of j (lg_ghost g) = lt_hist th ++ upend (l_fin (lg_s g)) th
}.

Lemma upend_not_ret fin th : is_uA2 (lt_k th) = false -> upend fin th = [].
Proof. unfold upend. intros ->. reflexivity. Qed.

Lemma clk_weaken (gh : list (nat * Z * op * obs)) lo lo' :
  lo <= lo' -> Forall (fun x => snd (fst (fst x)) <= lo) gh -> Forall (fun x => snd (fst (fst x)) <= lo') gh.
Proof. intros L F. eapply Forall_impl; [|exact F]. cbn. intros; lia. Qed.

Ltac u_simpl := cbn [lg_after lg_s lg_lo lg_threads lg_ghost l_started l_done l_busy l_start l_i l_fin] in *.

Lemma uinv_step : forall g g', UInv g -> lgstep n d a unl_progs g g' -> UInv g'.
Proof.
  intros g g' I St. destruct St as [g i th now s' th' e Hn Hlo Hst].
  assert (Hnl : nl_thread th) by (eapply Forall_nth; [apply (ui_nl _ I)|eauto]).
  unfold lstep in Hst. destruct (lt_todo th) as [|o r0] eqn:Ht; [discriminate|].
  assert (No : nl_op o) by (unfold nl_thread in Hnl; rewrite Ht in Hnl; inversion Hnl; auto).
  destruct I as [Inl Iph Isp Ifi Icl Ihi]. unfold uphase in Iph.
  assert (Hgoto : forall idx k, k <> [] -> nl_thread (lt_goto th idx k)).
  { intros idx k Nk. unfold nl_thread, lt_goto. destruct k; [congruence|]. exact Hnl. }
  assert (Hclk : Forall (fun x => snd (fst (fst x)) <= now) (lg_ghost g)) by (eapply clk_weaken; eauto).
  assert (Hclk1 : forall o1 r1, Forall (fun x => snd (fst (fst x)) <= now) (lg_ghost g ++ [(i, now, o1, r1)])).
  { intros. apply Forall_app. split; auto. constructor; auto. cbn. lia. }
  (* history equations when the step logs nothing and leaves the finish time alone *)
  assert (Hh0 : forall th1, upend (l_fin (lg_s g)) th1 = upend (l_fin (lg_s g)) th -> lt_hist th1 = lt_hist th ->
            forall j th2, nth_error (lupd i th1 (lg_threads g)) j = Some th2 ->
            ghost_of j (lg_ghost g) = lt_hist th2 ++ upend (l_fin (lg_s g)) th2).
  { intros th1 E1 E2 j th2 H'. apply nth_lupd_inv in H'. destruct H' as [[-> ->]|[Nj H']]; auto.
    rewrite E1, E2. auto. }
  (* ... and when it logs the result [r1] of an operation of this thread *)
  assert (Hh1 : forall th1 o1 r1, is_ostart o1 = false ->
            lt_hist th1 ++ upend (l_fin (lg_s g)) th1 = (lt_hist th ++ upend (l_fin (lg_s g)) th) ++ [r1] ->
            forall j th2, nth_error (lupd i th1 (lg_threads g)) j = Some th2 ->
            ghost_of j (lg_ghost g ++ [(i, now, o1, r1)]) = lt_hist th2 ++ upend (l_fin (lg_s g)) th2).
  { intros th1 o1 r1 Eo E1 j th2 H'. rewrite ghost_of_app, Eo. cbn [negb]. rewrite andb_true_r.
    apply nth_lupd_inv in H'. destruct H' as [[-> ->]|[Nj H']].
    - rewrite Nat.eqb_refl. rewrite (Ihi _ _ Hn). auto.
    - apply Nat.eqb_neq in Nj. rewrite Nj. auto. }
  destruct (lt_k th) as [|c k0] eqn:Hk.
  - (* the thread begins an operation *)
    destruct o; [destruct No| |].
    + (* Next: the Once *)
      cbn in Hst. destruct (l_done (lg_s g)) eqn:Hd.
      * inversion Hst; subst s' th' e; clear Hst.
        destruct Iph as [(A & B & C & F)|[(A & B & C & _)|[(A & B & C & _)|(A & B & C & F)]]]; try congruence.
        constructor; u_simpl.
        -- apply Forall_lupd; auto; try (apply Hgoto; discriminate).
        -- unfold uphase. u_simpl. right; right; right. repeat split; auto.
           apply Forall_lupd; auto. right; left. reflexivity.
        -- exact Isp.
        -- exact Ifi.
        -- exact Hclk.
        -- apply Hh0; auto. unfold upend. rewrite Hk. reflexivity.
      * destruct (l_busy (lg_s g)) eqn:Hb; [discriminate|].
        inversion Hst; subst s' th' e; clear Hst.
        destruct Iph as [(A & B & C & F)|[(A & B & C & _)|[(A & B & C & _)|(A & B & C & F)]]]; try congruence.
        constructor; u_simpl.
        -- apply Forall_lupd; auto; try (apply Hgoto; discriminate).
        -- unfold uphase. u_simpl. right; left. repeat split; auto.
           eexists i, _. split; [eapply nth_lupd_same; eauto|]. split.
           ++ left. reflexivity.
           ++ intros j' th' H' Nj. rewrite nth_lupd_other in H' by auto. eapply Forall_nth; eauto.
        -- exact Isp.
        -- exact Ifi.
        -- exact Hclk.
        -- apply Hh0; auto. unfold upend. rewrite Hk. reflexivity.
    + (* Left: the started flag *)
      cbn in Hst. destruct (l_started (lg_s g)) eqn:Hs.
      * (* set: go on to read the finish time *)
        inversion Hst; subst s' th' e; clear Hst.
        constructor; u_simpl.
        -- apply Forall_lupd; auto; try (apply Hgoto; discriminate).
        -- unfold uphase. u_simpl.
           destruct Iph as [(A & B & C & F)|[(A & B & C & _)|[(A & B & C & j & thj & Hj & Hp & Hoth)|(A & B & C & F)]]]; try congruence.
           ++ right; right; left. repeat split; auto.
              assert (i <> j) by (intros ->; rewrite Hn in Hj; inversion Hj; subst thj; rewrite Hk in Hp; discriminate).
              exists j, thj. rewrite nth_lupd_other by auto. repeat split; auto.
              intros j' th' H' Nj. apply nth_lupd_inv in H'. destruct H' as [[-> ->]|[_ H']]; [right; reflexivity|eauto].
           ++ right; right; right. repeat split; auto. apply Forall_lupd; auto. right; right; right. reflexivity.
        -- exact Isp.
        -- first [exact Ifi | rewrite Hs; exact Ifi | rewrite Hs in Ifi; exact Ifi | rewrite Hs; rewrite Hs in Ifi; exact Ifi].
        -- exact Hclk.
        -- apply Hh0; auto. unfold upend. rewrite Hk. reflexivity.
      * (* not set: -1 at once *)
        inversion Hst; subst s' th' e; clear Hst.
        assert (Hret : lt_k (lt_return th (RLeft (-1))) = []) by reflexivity.
        constructor; u_simpl.
        -- apply Forall_lupd; auto; try (apply nl_tl; auto).
        -- unfold uphase. u_simpl.
           destruct Iph as [(A & B & C & F)|[(A & B & C & j & thj & Hj & Hp & Hoth)|[(A & B & C & _)|(A & B & C & F)]]]; try congruence.
           ++ left. repeat split; auto. apply Forall_lupd; auto.
           ++ right; left. repeat split; auto.
              assert (i <> j) by (intros ->; rewrite Hn in Hj; inversion Hj; subst thj; rewrite Hk in Hp; destruct Hp; discriminate).
              exists j, thj. rewrite nth_lupd_other by auto. repeat split; auto.
              intros j' th' H' Nj. apply nth_lupd_inv in H'. destruct H' as [[-> ->]|[_ H']]; [exact Hret|eauto].
        -- apply uspec_app; auto. rewrite Ifi; try rewrite Hs. cbn. auto.
        -- rewrite ufin_app, Ifi; try rewrite Hs. reflexivity.
        -- apply Hclk1.
        -- apply Hh1; auto. unfold upend. rewrite Hk. cbn. now rewrite !app_nil_r.
  - (* in the middle of an operation *)
    assert (Hpos :
      (c :: k0 = uB1 /\ l_started (lg_s g) = false /\ l_done (lg_s g) = false /\ l_busy (lg_s g) = true /\
         (forall j' th', nth_error (lg_threads g) j' = Some th' -> j' <> i -> idle th'))
      \/ (c :: k0 = uB2 /\ l_started (lg_s g) = false /\ l_done (lg_s g) = false /\ l_busy (lg_s g) = true /\
         (forall j' th', nth_error (lg_threads g) j' = Some th' -> j' <> i -> idle th'))
      \/ (c :: k0 = uB3 /\ l_started (lg_s g) = true /\ l_done (lg_s g) = false /\ l_busy (lg_s g) = true /\
         (forall j' th', nth_error (lg_threads g) j' = Some th' -> j' <> i -> okL th'))
      \/ ((c :: k0 = uA1 \/ c :: k0 = uA2) /\ l_started (lg_s g) = true /\ l_done (lg_s g) = true /\
          l_busy (lg_s g) = false /\ Forall ok3 (lg_threads g))
      \/ (c :: k0 = uL2 /\ l_started (lg_s g) = true)).
    { destruct Iph as [(A & B & C & F)|[(A & B & C & j & thj & Hj & Hp & Hoth)|[(A & B & C & j & thj & Hj & Hp & Hoth)|(A & B & C & F)]]].
      - pose proof (Forall_nth _ _ _ _ F Hn) as Hi. unfold idle in Hi. congruence.
      - destruct (Nat.eq_dec i j) as [->|Nij].
        + rewrite Hn in Hj. inversion Hj; subst thj. rewrite Hk in Hp.
          destruct Hp as [P|P]; [left|right; left]; repeat split; auto.
        + pose proof (Hoth _ _ Hn Nij) as Hi. unfold idle in Hi. congruence.
      - destruct (Nat.eq_dec i j) as [->|Nij].
        + rewrite Hn in Hj. inversion Hj; subst thj. rewrite Hk in Hp.
          right; right; left. repeat split; auto.
        + pose proof (Hoth _ _ Hn Nij) as Hi. destruct Hi as [Hi|Hi]; [congruence|].
          right; right; right; right. rewrite Hk in Hi. split; auto.
      - pose proof (Forall_nth _ _ _ _ F Hn) as Hi. unfold ok3 in Hi. rewrite Hk in Hi.
        destruct Hi as [Hi|[Hi|[Hi|Hi]]]; [discriminate| | |].
        + right; right; right; left. repeat split; auto.
        + right; right; right; left. repeat split; auto.
        + right; right; right; right. split; auto. }
    destruct Hpos as [(K & A & B & C & Hoth)|[(K & A & B & C & Hoth)|[(K & A & B & C & Hoth)|[(K & A & B & C & F)|(K & A)]]]].
    + (* finish.Store(now + d) *)
      inversion K; subst c k0. cbn in Hst. inversion Hst; subst s' th' e; clear Hst.
      constructor; u_simpl.
      * apply Forall_lupd; auto; try (apply Hgoto; discriminate).
      * unfold uphase. u_simpl. right; left. repeat split; auto.
        eexists i, _. split; [eapply nth_lupd_same; eauto|]. split.
        -- right. reflexivity.
        -- intros j' th' H' Nj. rewrite nth_lupd_other in H' by auto. eauto.
      * exact Isp.
      * rewrite Ifi; try rewrite A. reflexivity.
      * exact Hclk.
      * intros j th' H'. apply nth_lupd_inv in H'. destruct H' as [[-> ->]|[Nj H']].
        -- rewrite (Ihi _ _ Hn). unfold upend. rewrite Hk. reflexivity.
        -- rewrite (Ihi _ _ H'). pose proof (Hoth _ _ H' (not_eq_sym Nj)) as Hi. unfold idle in Hi.
           unfold upend. rewrite Hi. reflexivity.
    + (* MarkStarted: the schedule starts for everybody *)
      inversion K; subst c k0. cbn in Hst. rewrite A in Hst. inversion Hst; subst s' th' e; clear Hst.
      constructor; u_simpl.
      * apply Forall_lupd; auto; try (apply Hgoto; discriminate).
      * unfold uphase. u_simpl. right; right; left. repeat split; auto.
        eexists i, _. split; [eapply nth_lupd_same; eauto|]. split; [reflexivity|].
        intros j' th' H' Nj. rewrite nth_lupd_other in H' by auto. left. apply (Hoth _ _ H'). auto.
      * apply uspec_app; auto. rewrite Ifi; try rewrite A. cbn. auto.
      * rewrite ufin_app, Ifi; try rewrite A. cbn. f_equal. lia.
      * apply Hclk1.
      * intros j th' H'. rewrite ghost_of_app. cbn [is_ostart negb]. rewrite andb_false_r.
        apply nth_lupd_inv in H'. destruct H' as [[-> ->]|[Nj H']]; auto.
        rewrite (Ihi _ _ Hn). unfold upend. rewrite Hk. reflexivity.
    + (* end of the Once body *)
      inversion K; subst c k0. cbn in Hst. inversion Hst; subst s' th' e; clear Hst.
      constructor; u_simpl.
      * apply Forall_lupd; auto; try (apply Hgoto; discriminate).
      * unfold uphase. u_simpl. right; right; right. repeat split; auto.
        apply Forall_from_nth. intros j th' H'. apply nth_lupd_inv in H'. destruct H' as [[-> ->]|[Nj H']].
        -- right; left. reflexivity.
        -- destruct (Hoth _ _ H' (not_eq_sym Nj)) as [Hi|Hi]; [left; auto|right; right; right; auto].
      * exact Isp.
      * first [exact Ifi | rewrite A; exact Ifi | rewrite A in Ifi; exact Ifi | rewrite A; rewrite A in Ifi; exact Ifi].
      * exact Hclk.
      * apply Hh0; auto. unfold upend. rewrite Hk. reflexivity.
    + destruct K as [K|K]; inversion K; subst c k0; cbn in Hst; inversion Hst; subst s' th' e; clear Hst.
      * (* now := time.Now(): the Next takes effect *)
        constructor; u_simpl.
        -- apply Forall_lupd; auto; try (apply Hgoto; discriminate).
        -- unfold uphase. u_simpl. right; right; right. repeat split; auto.
           apply Forall_lupd; auto. right; right; left. reflexivity.
        -- apply uspec_app; auto. rewrite Ifi; try rewrite A. cbn. auto.
        -- rewrite ufin_app, Ifi; try rewrite A. reflexivity.
        -- apply Hclk1.
        -- apply Hh1; auto. unfold upend. rewrite Hk. cbn. now rewrite app_nil_r.
      * (* return *)
        constructor; u_simpl.
        -- apply Forall_lupd; auto; try (apply nl_tl; auto).
        -- unfold uphase. u_simpl. right; right; right. repeat split; auto.
           apply Forall_lupd; auto. left. reflexivity.
        -- exact Isp.
        -- first [exact Ifi | rewrite A; exact Ifi | rewrite A in Ifi; exact Ifi | rewrite A; rewrite A in Ifi; exact Ifi].
        -- exact Hclk.
        -- intros j th' H'. apply nth_lupd_inv in H'. destruct H' as [[-> ->]|[Nj H']]; auto.
           rewrite (Ihi _ _ Hn). unfold upend. rewrite Hk. cbn. now rewrite app_nil_r.
    + (* Left: time.Now().Before(finish.Load()) *)
      inversion K; subst c k0. cbn in Hst. inversion Hst; subst s' th' e; clear Hst.
      set (v := RLeft (if now <? l_fin (lg_s g) then -1 else 0)).
      assert (Hret : lt_k (lt_return th v) = []) by reflexivity.
      constructor; u_simpl.
      * apply Forall_lupd; auto; try (apply nl_tl; auto).
      * unfold uphase. u_simpl.
        destruct Iph as [(A' & B & C & F)|[(A' & B & C & _)|[(A' & B & C & j & thj & Hj & Hp & Hoth)|(A' & B & C & F)]]]; try congruence.
        -- right; right; left. repeat split; auto.
           assert (i <> j) by (intros ->; rewrite Hn in Hj; inversion Hj; subst thj; rewrite Hk in Hp; discriminate).
           exists j, thj. rewrite nth_lupd_other by auto. repeat split; auto.
           intros j' th' H' Nj. apply nth_lupd_inv in H'. destruct H' as [[-> ->]|[_ H']]; [left; exact Hret|eauto].
        -- right; right; right. repeat split; auto. apply Forall_lupd; auto. left. reflexivity.
      * apply uspec_app; auto. rewrite Ifi; try rewrite A. cbn. auto.
      * rewrite ufin_app, Ifi; try rewrite A. reflexivity.
      * apply Hclk1.
      * apply Hh1; auto. unfold upend. rewrite Hk. cbn. now rewrite !app_nil_r.
Qed.

Lemma uinv_reach g0 g : UInv g0 -> lreach n d a unl_progs g0 g -> UInv g.
Proof. intros I R. induction R; auto. eapply uinv_step; eauto. Qed.

Lemma uinv_safe g : UInv g -> ~ lstuck n d a unl_progs g.
Proof.
  intros I (i & th & now & k & Hn & Hlo & Hst).
  unfold lstep in Hst. destruct (lt_todo th) as [|o r0] eqn:Ht; [discriminate|].
  assert (Hnl : nl_thread th) by (eapply Forall_nth; [apply (ui_nl _ I)|eauto]).
  assert (No : nl_op o) by (unfold nl_thread in Hnl; rewrite Ht in Hnl; inversion Hnl; auto).
  pose proof (ui_phase _ I) as Iph. unfold uphase in Iph.
  destruct (lt_k th) as [|c k0] eqn:Hk.
  - destruct o; [destruct No| |]; cbn in Hst.
    + destruct (l_done (lg_s g)); [discriminate|]. destruct (l_busy (lg_s g)); discriminate.
    + destruct (l_started (lg_s g)); discriminate.
  - destruct Iph as [(A & B & C & F)|[(A & B & C & j & thj & Hj & Hp & Hoth)|[(A & B & C & j & thj & Hj & Hp & Hoth)|(A & B & C & F)]]].
    + pose proof (Forall_nth _ _ _ _ F Hn) as Hi. unfold idle in Hi. congruence.
    + destruct (Nat.eq_dec i j) as [->|Nij].
      * rewrite Hn in Hj. inversion Hj; subst thj. rewrite Hk in Hp.
        destruct Hp as [P|P]; inversion P; subst c k0; cbn in Hst; [discriminate|].
        rewrite A in Hst. discriminate.
      * pose proof (Hoth _ _ Hn Nij) as Hi. unfold idle in Hi. congruence.
    + destruct (Nat.eq_dec i j) as [->|Nij].
      * rewrite Hn in Hj. inversion Hj; subst thj. rewrite Hk in Hp. inversion Hp; subst c k0. cbn in Hst. discriminate.
      * destruct (Hoth _ _ Hn Nij) as [Hi|Hi]; [congruence|]. rewrite Hk in Hi. inversion Hi; subst c k0. cbn in Hst. discriminate.
    + pose proof (Forall_nth _ _ _ _ F Hn) as Hi. unfold ok3 in Hi. rewrite Hk in Hi.
      destruct Hi as [Hi|[Hi|[Hi|Hi]]]; [discriminate| | |]; inversion Hi; subst c k0; cbn in Hst; discriminate.
Qed.

End Unl.

(* ---------------------------------------------------------------- initial states, theorem *)
Lemma uinv_init d zero lo plans :
  Forall (Forall nl_op) plans -> UInv d None (linit zero lo plans).
Proof.
  intros F. constructor; cbn; auto.
  - apply Forall_map_init. intros p Hp. unfold nl_thread. cbn. rewrite Forall_forall in F. auto.
  - unfold uphase. cbn. left. repeat split; auto. apply Forall_map_init. reflexivity.
  - intros j th H. apply nth_error_In, in_map_iff in H. destruct H as (p & <- & _). reflexivity.
Qed.

(* after a sequential Start(t): started, Once done, finish = t + d *)
Definition linit_unl_started (d t lo : Z) (plans : list (list op)) : lgstate :=
  {| lg_s := {| l_started := true; l_done := true; l_busy := false; l_start := 0; l_i := 0; l_fin := t + d |};
     lg_lo := lo; lg_threads := map lthread_init plans; lg_ghost := [] |}.

Lemma uinv_init_started d t lo plans :
  Forall (Forall nl_op) plans -> UInv d (Some (t + d)) (linit_unl_started d t lo plans).
Proof.
  intros F. constructor; cbn; auto.
  - apply Forall_map_init. intros p Hp. unfold nl_thread. cbn. rewrite Forall_forall in F. auto.
  - unfold uphase. cbn. right; right; right. repeat split; auto. apply Forall_map_init. intros; left; reflexivity.
  - intros j th H. apply nth_error_In, in_map_iff in H. destruct H as (p & <- & _). reflexivity.
Qed.

Definition unl_conclusion (d : Z) (fin0 : option Z) (g : lgstate) : Prop :=
  (* the ghost history (start explicit) is a run of the atomic leaf at the clock readings of the steps *)
  (forall fuel, run_tree (S fuel) (Unlim d fin0) (map clk_op (lg_ghost g)) = map snd (lg_ghost g)) /\
  (* the readings are those of the run: none is later than the present clock *)
  Forall (fun x => snd (fst (fst x)) <= lg_lo g) (lg_ghost g) /\
  (* every thread got exactly the results of its own operations in that history, in order *)
  (forall j th, nth_error (lg_threads g) j = Some th ->
     exists p, ghost_of j (lg_ghost g) = lt_hist th ++ p /\ (length p <= 1)%nat /\ (lt_k th = [] -> p = [])).

Lemma uinv_conclusion d f0 g : UInv d f0 g -> unl_conclusion d f0 g.
Proof.
  intros I. split; [|split].
  - intros fuel. exact (uspec_run_tree 0%nat d (fun _ => 0) fuel _ _ (ui_spec _ _ _ I)).
  - apply (ui_clk _ _ _ I).
  - intros j th H. exists (upend d (l_fin (lg_s g)) th). split; [apply (ui_hist _ _ _ I); auto|].
    unfold upend. split.
    + destruct (is_uA2 (lt_k th)); cbn; lia.
    + intros ->. reflexivity.
Qed.

Lemma unl_linearizable n d a zero lo plans g :
  Forall (Forall nl_op) plans ->
  lreach n d a unl_progs (linit zero lo plans) g ->
  ~ lstuck n d a unl_progs g /\ unl_conclusion d None g.
Proof.
  intros F R. pose proof (uinv_reach n d a _ _ _ (uinv_init d zero lo plans F) R) as I.
  split; [eapply uinv_safe; eauto|eapply uinv_conclusion; eauto].
Qed.

Lemma unl_linearizable_started n d a t lo plans g :
  Forall (Forall nl_op) plans ->
  lreach n d a unl_progs (linit_unl_started d t lo plans) g ->
  ~ lstuck n d a unl_progs g /\ unl_conclusion d (Some (t + d)) g.
Proof.
  intros F R. pose proof (uinv_reach n d a _ _ _ (uinv_init_started d t lo plans F) R) as I.
  split; [eapply uinv_safe; eauto|eapply uinv_conclusion; eauto].
Qed.

(* ---------------------------------------------------------------- Left is 0 only after the window *)
Lemma uspec_left_in d gh : forall fin j c k,
  uspec d fin gh -> In (j, c, OLeft, RLeft k) gh ->
  k = -1 \/ (k = 0 /\ exists f, ufin d fin gh = Some f /\ f <= c).
Proof.
  induction gh as [|[[[j0 c0] o0] r0] t IH]; intros fin j c k H Hin; [destruct Hin|].
  destruct Hin as [E|Hin].
  - inversion E; subst. destruct fin as [f|]; cbn in H; destruct H as [E1 H].
    + inversion E1. destruct (c <? f) eqn:L; [left; reflexivity|right].
      split; [reflexivity|]. exists f. split; [|apply Z.ltb_ge; auto].
      clear -H. revert H. generalize t. induction t0 as [|[[[j1 c1] o1] r1] t1 IH1]; intros H; [reflexivity|].
      destruct o1; cbn in H |- *; try tauto; destruct H as [_ H]; auto.
    + inversion E1. left; reflexivity.
  - destruct o0, fin as [f|]; cbn in H; try tauto; destruct H as [_ H]; cbn [ufin]; eapply IH; eauto.
Qed.

Lemma unl_left_zero_only_closed n d a zero lo plans g :
  Forall (Forall nl_op) plans ->
  lreach n d a unl_progs (linit zero lo plans) g ->
  forall j th k, nth_error (lg_threads g) j = Some th -> In (RLeft k) (lt_hist th) ->
  k = -1 \/ (k = 0 /\ l_started (lg_s g) = true /\ l_fin (lg_s g) <= lg_lo g).
Proof.
  intros F R j th k Hn Hin.
  pose proof (uinv_reach n d a _ _ _ (uinv_init d zero lo plans F) R) as I.
  assert (H : In (RLeft k) (ghost_of j (lg_ghost g))).
  { rewrite (ui_hist _ _ _ I _ _ Hn). apply in_or_app. auto. }
  apply ghost_of_in in H. destruct H as (c & o & H).
  assert (o = OLeft).
  { pose proof (ui_spec _ _ _ I) as Sp. clear -Sp H. revert Sp. generalize (@None Z).
    induction (lg_ghost g) as [|[[[j1 c1] o1] r1] t1 IH1]; intros fin Sp; [destruct H|].
    destruct H as [E|H].
    - inversion E; subst. destruct o, fin; cbn in Sp; try tauto; destruct Sp as [E1 _]; try discriminate; auto.
      unfold unl_next_res in E1. destruct (c <? z); discriminate.
    - destruct o1, fin; cbn in Sp; try tauto; destruct Sp as [_ Sp]; eapply IH1; eauto. }
  subst o.
  destruct (uspec_left_in _ _ _ _ _ _ (ui_spec _ _ _ I) H) as [E|(E & f & Ef & Lf)]; [left; auto|right].
  split; auto. rewrite (ui_fin _ _ _ I) in Ef.
  destruct (l_started (lg_s g)); [|discriminate]. inversion Ef; subst f. split; auto.
  pose proof (ui_clk _ _ _ I) as Cl. rewrite Forall_forall in Cl. specialize (Cl _ H). cbn in Cl. lia.
Qed.

(* ---------------------------------------------------------------- concrete runs *)
Definition ux_plans : list (list op) := [[ONext; ONext]; [OLeft; OLeft; OLeft]].
(* thread 0 enters the Once and stores finish = 100 + 50; thread 1's Left sees the flag not set: -1;
   thread 0 marks started; thread 1's Left sees the flag and reads the finish time at clock 120: -1;
   thread 0 leaves the Once, reads the clock 130: token 130; again at 160: (150, false);
   thread 1's Left at 170: 0 *)
Definition ux_sched : list (nat * Z) := zsch
  [(0, 100); (0, 100); (1, 101); (0, 102); (1, 110); (1, 120); (0, 125); (0, 130); (0, 131);
   (0, 140); (0, 160); (0, 161); (1, 165); (1, 170)].

Lemma unl_example :
  Forall (Forall nl_op) ux_plans /\
  match lrun 0 50 (fun _ => 0) unl_progs ux_sched (linit (-1000) 100 ux_plans) with
  | Some g => (map lt_hist (lg_threads g), map (fun x => snd (fst x)) (lg_ghost g))
  | None => ([], [])
  end = ([[RNext 130 true; RNext 150 false]; [RLeft (-1); RLeft (-1); RLeft 0]],
         [OLeft; OStart 100; OLeft; ONext; ONext; OLeft]).
Proof. split; [repeat constructor|vm_compute; reflexivity]. Qed.

(* The order inside the Once matters: with MarkStarted BEFORE the store of the finish time a Left that
   runs in between sees the flag together with the stale finish time (here the zero time -1000) and
   answers 0 although the whole window lies ahead. *)
Definition unl_swapped_progs : lprogs :=
  {| p_next := [LOnce [AMarkStartedU; AStoreFinNow]; LAct AReadNow; LAct ARetUnl];
     p_start := unl_start_prog; p_left := unl_left_prog |}.

Lemma unl_store_before_mark_needed :
  match lrun 0 50 (fun _ => 0) unl_swapped_progs (zsch [(0, 100); (0, 101); (1, 102); (1, 103); (0, 104); (0, 105); (0, 106); (0, 107)])
              (linit (-1000) 100 [[ONext]; [OLeft]]) with
  | Some g => map lt_hist (lg_threads g)
  | None => []
  end = [[RNext 106 true]; [RLeft 0]].
Proof. vm_compute. reflexivity. Qed.
