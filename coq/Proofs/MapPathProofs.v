(* Lemmas about the model of lib/mp GetMapValue (Model/MapPath.v): which [next] counter a path
   expression uses (property C15). *)
From Coq Require Import List NArith ZArith Bool Lia Arith PeanoNat.
From PV Require Import Model.Iterator Model.Scenario Model.MapPath.
From PV Require Import Proofs.IteratorProofs Proofs.ScenarioParseProofs.
Import ListNotations.

(* ------------------------------------------------------------------------------------ *)
(** * A. Any path: the iterator is touched only through the keys of the path's own [next]
      segments, and a key determines the text of the path walked so far *)

Lemma it_run_app st a : forall b,
  snd (it_run st (a ++ b)) = snd (it_run (snd (it_run st a)) b).
Proof.
  revert st; induction a as [|[t s] a IH]; intros st b; [reflexivity|].
  cbn [app it_run]. destruct (it_next st s) as [v st1]. specialize (IH st1 b).
  destruct (it_run st1 (a ++ b)) as [o1 s1]. destruct (it_run st1 a) as [o2 s2]. cbn [snd] in *.
  rewrite IH. destruct (it_run s2 b). reflexivity.
Qed.

Definition tag (ks : list seg) : list (nat * seg) := map (fun k => (O, k)) ks.

Lemma tag_app a b : tag (a ++ b) = tag a ++ tag b.
Proof. apply map_app. Qed.

Lemma calc_index_keys ix key len st r st' ks :
  calc_index ix key len st = (r, st', ks) ->
  g_iter st' = snd (it_run (g_iter st) (tag ks)) /\
  (ks = [] \/ (ks = [key] /\ classify ix = INext)).
Proof.
  unfold calc_index. destruct len as [|len]; [intros E; injection E as <- <- <-; split; [reflexivity|left; reflexivity]|].
  destruct (classify ix) eqn:Ec.
  - destruct (it_next (g_iter st) key) as [v it'] eqn:En.
    destruct (next_row (S len) v); intros E; injection E as <- <- <-; cbn [tag map it_run g_iter];
      rewrite En; cbn [snd]; (split; [reflexivity|right; split; reflexivity]).
  - destruct (g_draws st) as [|d r0]; [intros E; injection E as <- <- <-; split; [reflexivity|left; reflexivity]|].
    destruct (Nat.ltb d (S len)); intros E; injection E as <- <- <-; (split; [reflexivity|left; reflexivity]).
  - intros E; injection E as <- <- <-; split; [reflexivity|left; reflexivity].
  - intros E; injection E as <- <- <-; split; [reflexivity|left; reflexivity].
  - intros E; injection E as <- <- <-; split; [reflexivity|left; reflexivity].
Qed.

Definition next_seg (sg : pseg) : Prop :=
  exists ix, ps_idx sg = Some ix /\ classify ix = INext.

Lemma seg_step_keys cur sg key' last st r st' ks :
  seg_step cur sg key' last st = (r, st', ks) ->
  g_iter st' = snd (it_run (g_iter st) (tag ks)) /\
  (ks = [] \/ (ks = [key'] /\ next_seg sg)).
Proof.
  unfold seg_step. destruct (vassoc cur (ps_name sg)) as [pv|];
    [|intros E; injection E as <- <- <-; split; [reflexivity|left; reflexivity]].
  destruct (ps_idx sg) as [ix|] eqn:Ei;
    [|intros E; injection E as <- <- <-; split; [reflexivity|left; reflexivity]].
  destruct pv as [s| |m|l]; try (intros E; injection E as <- <- <-; split; [reflexivity|left; reflexivity]).
  destruct (calc_index ix key' (length l) st) as [[ci st1] ks1] eqn:Ec.
  pose proof (calc_index_keys _ _ _ _ _ _ _ Ec) as [H1 H2].
  assert (H2' : ks1 = [] \/ ks1 = [key'] /\ next_seg sg).
  { destruct H2 as [->|[-> Hn]]; [left; reflexivity|right; split; [reflexivity|exists ix; split; [exact Ei|exact Hn]]]. }
  destruct ci; [| | |destruct (nth_error l i)]; intros E; injection E as <- <- <-; split; assumption.
Qed.

(* the key the code has accumulated after walking the first segments of a path *)
Definition key_after (kext : seg -> bytes -> seg) (key : seg) (texts : list bytes) : seg :=
  fold_left kext texts key.

(* Every evaluation changes the iterator exactly as the critical sections on its ghost keys do,
   and every such key is the key accumulated up to one of the path's own [next] segments. *)
Lemma gmv_go_keys kext segs : forall cur key st r st' ks,
  gmv_go kext cur segs key st = (r, st', ks) ->
  g_iter st' = snd (it_run (g_iter st) (tag ks)) /\
  Forall (fun k => exists i sg, nth_error segs i = Some sg /\ next_seg sg /\
                                k = key_after kext key (map ps_text (firstn (S i) segs))) ks.
Proof.
  induction segs as [|sg rest IH]; intros cur key st r st' ks; cbn [gmv_go].
  - intros E; injection E as <- <- <-. split; [reflexivity|constructor].
  - destruct (seg_step cur sg (kext key (ps_text sg)) (is_nil rest) st) as [[sr st1] ks1] eqn:Es.
    pose proof (seg_step_keys _ _ _ _ _ _ _ _ Es) as [H1 H2].
    assert (Hk1 : Forall (fun k => exists i sg0, nth_error (sg :: rest) i = Some sg0 /\ next_seg sg0 /\
                                   k = key_after kext key (map ps_text (firstn (S i) (sg :: rest)))) ks1).
    { destruct H2 as [->|[-> Hn]]; [constructor|]. constructor; [|constructor].
      exists O, sg. split; [reflexivity|]. split; [exact Hn|]. reflexivity. }
    destruct sr as [r0|m].
    + intros E; injection E as <- <- <-. split; assumption.
    + destruct (gmv_go kext m rest (kext key (ps_text sg)) st1) as [[r2 st2] ks2] eqn:Eg.
      intros E; injection E as <- <- <-.
      destruct (IH _ _ _ _ _ _ Eg) as [G1 G2]. split.
      * rewrite tag_app, it_run_app, <- H1. exact G1.
      * apply Forall_app. split; [exact Hk1|].
        eapply Forall_impl; [|exact G2]. cbn beta. intros k (i & sg0 & Hi & Hn & ->).
        exists (S i), sg0. split; [exact Hi|]. split; [exact Hn|]. reflexivity.
Qed.

(* The code's key: a dot and the trimmed text of every segment walked so far. *)
Definition enc (texts : list bytes) : seg := flat_map (fun t => c_dot :: t) texts.

Lemma key_after_go texts : forall key, key_after kext_go key texts = key ++ enc texts.
Proof.
  induction texts as [|t r IH]; intros key; cbn [key_after fold_left enc flat_map].
  - rewrite app_nil_r. reflexivity.
  - fold (key_after kext_go (kext_go key t) r). rewrite IH. unfold kext_go. rewrite <- app_assoc. reflexivity.
Qed.

Definition dotfree (t : bytes) : Prop := ~ In c_dot t.

Lemma enc_head_inj a b r1 r2 :
  dotfree a -> dotfree b ->
  (r1 = [] \/ exists x, r1 = c_dot :: x) -> (r2 = [] \/ exists x, r2 = c_dot :: x) ->
  a ++ r1 = b ++ r2 -> a = b /\ r1 = r2.
Proof.
  revert b; induction a as [|x a IH]; intros [|y b] Ha Hb H1 H2 E; cbn [app] in E.
  - split; [reflexivity|exact E].
  - exfalso. destruct H1 as [->|[z ->]]; [discriminate|]. injection E as <- _. apply Hb. left. reflexivity.
  - exfalso. destruct H2 as [->|[z ->]]; [discriminate|]. injection E as -> _. apply Ha. left. reflexivity.
  - injection E as <- E. destruct (IH b) as [-> ->]; try assumption.
    + intros Hin; apply Ha; right; exact Hin.
    + intros Hin; apply Hb; right; exact Hin.
    + split; reflexivity.
Qed.

Lemma enc_shape l : enc l = [] \/ exists x, enc l = c_dot :: x.
Proof. destruct l as [|t r]; [left; reflexivity|right]. cbn [enc flat_map]. eexists. reflexivity. Qed.

(* two keys are equal exactly when the segment texts walked so far are equal *)
Lemma enc_inj l1 : forall l2, Forall dotfree l1 -> Forall dotfree l2 -> enc l1 = enc l2 -> l1 = l2.
Proof.
  induction l1 as [|a l1 IH]; intros [|b l2] H1 H2 E; cbn [enc flat_map] in E; try discriminate; [reflexivity|].
  injection E as E. inversion H1 as [|? ? Ha H1']; subst. inversion H2 as [|? ? Hb H2']; subst.
  destruct (enc_head_inj a b (enc l1) (enc l2) Ha Hb (enc_shape l1) (enc_shape l2) E) as [-> E'].
  f_equal. apply IH; assumption.
Qed.

Lemma split_dotfree sep s : Forall (fun t => ~ In sep t) (split sep s).
Proof.
  induction s as [|c r IH]; cbn [split].
  - constructor; [intros []|constructor].
  - destruct (N.eqb_spec c sep) as [->|Hne].
    + constructor; [intros []|exact IH].
    + destruct (split sep r) as [|h t]; [constructor; [|constructor]|].
      * intros [E|[]]. apply Hne. exact E.
      * inversion IH as [|? ? Hh Ht]; subst. constructor; [|exact Ht].
        intros [E|Hin]; [apply Hne; exact E|apply Hh; exact Hin].
Qed.

Lemma trim_incl c s : In c (trim s) -> In c s.
Proof. unfold trim. intros H. apply trim_left_incl. eapply trim_right_incl. exact H. Qed.

Lemma parse_seg_text raw : ps_text (parse_seg raw) = trim raw.
Proof.
  unfold parse_seg. destruct (break_at c_lb (trim raw)) as [[n rest]|]; [|reflexivity].
  destruct (ends_with c_rb (trim raw)); reflexivity.
Qed.

Lemma parse_path_dotfree p : Forall dotfree (map ps_text (parse_path p)).
Proof.
  unfold parse_path. rewrite map_map.
  pose proof (split_dotfree c_dot (trim_prefix_dot p)) as H.
  induction H as [|t l Ht _ IH]; [constructor|]. cbn [map]. constructor; [|exact IH].
  rewrite parse_seg_text. intros Hin. apply Ht. apply trim_incl. exact Hin.
Qed.

(* ------------------------------------------------------------------------------------ *)
(** * B. Canonical paths: printing, parsing, and the key of the [next] list *)

Definition name_of (c : cseg) : bytes :=
  match c with CPlain n | CAt n _ | CNext n => n end.

Definition pseg_of (c : cseg) : pseg :=
  {| ps_text := print_cseg c; ps_name := name_of c;
     ps_idx := match c with CPlain _ => None | CAt _ ds => Some ds | CNext _ => Some s_next end |}.

Definition nchar (c : N) : Prop := is_space c = false /\ c <> c_dot /\ c <> c_lb.

Lemma name_char_spec c : name_char c = true -> nchar c.
Proof.
  unfold name_char, nchar. intros H. apply andb_prop in H. destruct H as [H H3].
  apply andb_prop in H. destruct H as [H1 H2].
  apply negb_true_iff in H1, H2, H3. apply N.eqb_neq in H2, H3. repeat split; assumption.
Qed.

Lemma name_ok_spec n : cname_ok n = true -> n <> [] /\ Forall nchar n.
Proof.
  destruct n as [|c r]; [discriminate|]. unfold cname_ok. intros H. split; [discriminate|].
  apply Forall_forall. intros x Hx. apply name_char_spec. eapply forallb_forall in H; [exact H|exact Hx].
Qed.

Lemma lit_ok_spec ds : lit_ok ds = true -> ds <> [] /\ digits ds /\ (dval ds <= int64_max)%Z.
Proof.
  destruct ds as [|c r]; [discriminate|]. unfold lit_ok. intros H. apply andb_prop in H. destruct H as [H1 H2].
  split; [discriminate|]. split.
  - apply Forall_forall. intros x Hx. eapply forallb_forall in H1; [exact H1|exact Hx].
  - apply Z.leb_le in H2. exact H2.
Qed.

Lemma digit_nchar c : is_digit c = true -> nchar c /\ c <> c_rb.
Proof.
  intros H. destruct (digit_facts c H) as (Hs & _). unfold is_digit in H. apply andb_prop in H. destruct H as [H1 H2].
  apply N.leb_le in H1, H2. unfold nchar, c_dot, c_lb, c_rb. repeat split; try assumption; lia.
Qed.

Lemma s_next_nchar : Forall nchar s_next.
Proof. unfold s_next. repeat constructor; unfold c_dot, c_lb; try reflexivity; discriminate. Qed.

(* the characters of a printed segment: no blank, no dot *)
Definition pchar (c : N) : Prop := is_space c = false /\ c <> c_dot.

Lemma nchar_pchar c : nchar c -> pchar c.
Proof. intros (H1 & H2 & _). split; assumption. Qed.

Lemma print_cseg_pchar c : cseg_ok c = true -> Forall pchar (print_cseg c) /\ print_cseg c <> [].
Proof.
  assert (Hlb : pchar c_lb) by (split; [reflexivity|discriminate]).
  assert (Hrb : pchar c_rb) by (split; [reflexivity|discriminate]).
  destruct c as [n|n ds|n]; cbn [cseg_ok print_cseg]; intros H.
  - destruct (name_ok_spec n H) as [Hne Hn]. split; [|exact Hne].
    eapply Forall_impl; [|exact Hn]. apply nchar_pchar.
  - apply andb_prop in H. destruct H as [H1 H2]. destruct (name_ok_spec n H1) as [Hne Hn].
    destruct (lit_ok_spec ds H2) as (_ & Hd & _). split.
    + apply Forall_app. split; [eapply Forall_impl; [|exact Hn]; apply nchar_pchar|].
      constructor; [exact Hlb|]. apply Forall_app. split; [|constructor; [exact Hrb|constructor]].
      eapply Forall_impl; [|exact Hd]. cbn beta. intros a Ha. apply nchar_pchar. apply digit_nchar. exact Ha.
    + destruct n; [contradiction|discriminate].
  - destruct (name_ok_spec n H) as [Hne Hn]. split.
    + apply Forall_app. split; [eapply Forall_impl; [|exact Hn]; apply nchar_pchar|].
      constructor; [exact Hlb|]. apply Forall_app. split; [|constructor; [exact Hrb|constructor]].
      eapply Forall_impl; [|exact s_next_nchar]. apply nchar_pchar.
    + destruct n; [contradiction|discriminate].
Qed.

Lemma pchar_tight s : Forall pchar s -> tight s.
Proof.
  intros H. split.
  - destruct s as [|c r]; [exact I|]. cbn [nb_head]. apply (Forall_inv H).
  - assert (H' : Forall pchar (rev s)) by (apply Forall_rev; exact H).
    destruct (rev s) as [|c r]; [exact I|]. cbn [nb_head]. apply (Forall_inv H').
Qed.

Lemma pchar_dotfree s : Forall pchar s -> dotfree s.
Proof. intros H Hin. rewrite Forall_forall in H. destruct (H _ Hin) as [_ Hd]. apply Hd. reflexivity. Qed.

Lemma nchar_no_lb n : Forall nchar n -> ~ In c_lb n.
Proof. intros H Hin. rewrite Forall_forall in H. destruct (H _ Hin) as (_ & _ & Hd). apply Hd. reflexivity. Qed.

Lemma ends_with_snoc c a : ends_with c (a ++ [c]) = true.
Proof. unfold ends_with. rewrite rev_app_distr. cbn [rev app]. apply N.eqb_refl. Qed.

Lemma lower_digits ds : digits ds -> map ascii_lower ds = ds.
Proof.
  intros H. induction H as [|c r Hc _ IH]; [reflexivity|]. cbn [map]. rewrite IH. f_equal.
  unfold ascii_lower. unfold is_digit in Hc. apply andb_prop in Hc. destruct Hc as [H1 H2].
  apply N.leb_le in H1, H2. destruct (N.leb_spec 65 c); [lia|]. reflexivity.
Qed.

Lemma parse_seg_print c : cseg_ok c = true -> parse_seg (print_cseg c) = pseg_of c.
Proof.
  intros Hok. destruct (print_cseg_pchar c Hok) as [Hp _].
  unfold parse_seg. rewrite (trim_tight _ (pchar_tight _ Hp)).
  destruct c as [n|n ds|n]; cbn [cseg_ok] in Hok; cbn [print_cseg pseg_of name_of].
  - destruct (name_ok_spec n Hok) as [_ Hn].
    rewrite (break_at_none c_lb n (nchar_no_lb n Hn)). reflexivity.
  - apply andb_prop in Hok. destruct Hok as [H1 H2]. destruct (name_ok_spec n H1) as [_ Hn].
    destruct (lit_ok_spec ds H2) as (Hne & Hd & _).
    rewrite (break_at_app c_lb n (ds ++ [c_rb]) (nchar_no_lb n Hn)).
    replace (n ++ c_lb :: ds ++ [c_rb]) with ((n ++ c_lb :: ds) ++ [c_rb]) by (rewrite <- app_assoc; reflexivity).
    rewrite ends_with_snoc. rewrite removelast_last.
    assert (Hpd : Forall pchar ds).
    { eapply Forall_impl; [|exact Hd]. cbn beta. intros a Ha. apply nchar_pchar, digit_nchar, Ha. }
    rewrite (trim_tight _ (pchar_tight _ Hpd)). rewrite (lower_digits ds Hd).
    rewrite <- app_assoc. reflexivity.
  - destruct (name_ok_spec n Hok) as [_ Hn].
    rewrite (break_at_app c_lb n (s_next ++ [c_rb]) (nchar_no_lb n Hn)).
    replace (n ++ c_lb :: s_next ++ [c_rb]) with ((n ++ c_lb :: s_next) ++ [c_rb]) by (rewrite <- app_assoc; reflexivity).
    rewrite ends_with_snoc. rewrite removelast_last. rewrite <- app_assoc. reflexivity.
Qed.

Lemma split_print cp : cp <> [] -> forallb cseg_ok cp = true ->
  split c_dot (print_cpath cp) = map print_cseg cp.
Proof.
  induction cp as [|c r IH]; [contradiction|]. intros _ H. cbn [forallb] in H. apply andb_prop in H. destruct H as [Hc Hr].
  destruct (print_cseg_pchar c Hc) as [Hp _]. pose proof (pchar_dotfree _ Hp) as Hd.
  destruct r as [|c2 r].
  - cbn [print_cpath map]. apply split_none. exact Hd.
  - change (print_cpath (c :: c2 :: r)) with (print_cseg c ++ c_dot :: print_cpath (c2 :: r)).
    rewrite split_app by exact Hd. cbn [map]. f_equal. apply IH; [discriminate|exact Hr].
Qed.

Lemma print_cpath_head cp : cp <> [] -> forallb cseg_ok cp = true ->
  trim_prefix_dot (print_cpath cp) = print_cpath cp.
Proof.
  destruct cp as [|c r]; [contradiction|]. intros _ H. cbn [forallb] in H. apply andb_prop in H. destruct H as [Hc _].
  destruct (print_cseg_pchar c Hc) as [Hp Hne].
  assert (E : exists x y, print_cpath (c :: r) = x :: y /\ x <> c_dot).
  { destruct (print_cseg c) as [|x y] eqn:Ep; [contradiction|]. exists x.
    destruct r as [|c2 r]; cbn [print_cpath]; rewrite Ep; eexists; (split; [reflexivity|]); apply (Forall_inv Hp). }
  destruct E as (x & y & -> & Hx). unfold trim_prefix_dot. destruct (N.eqb_spec x c_dot); [contradiction|reflexivity].
Qed.

Lemma parse_print cp : cp <> [] -> forallb cseg_ok cp = true ->
  parse_path (print_cpath cp) = map pseg_of cp.
Proof.
  intros Hne Hok. unfold parse_path. rewrite print_cpath_head, split_print by assumption.
  rewrite map_map. apply map_ext_in. intros c Hc. apply parse_seg_print.
  eapply forallb_forall in Hok; [exact Hok|exact Hc].
Qed.

(* ---------- index classification of the canonical forms ---------- *)
Lemma classify_next : classify s_next = INext.
Proof. reflexivity. Qed.

Lemma classify_lit ds : lit_ok ds = true -> classify ds = IInt (lit_val ds).
Proof.
  intros H. destruct (lit_ok_spec ds H) as (Hne & Hd & Hr). unfold classify.
  destruct ds as [|c r]; [contradiction|]. pose proof (Forall_inv Hd) as Hc.
  unfold is_digit in Hc. apply andb_prop in Hc. destruct Hc as [H1 H2]. apply N.leb_le in H1, H2.
  assert (E1 : beq (c :: r) s_next = false).
  { unfold beq, s_next. cbn [seg_eqb]. destruct (N.eqb_spec c 110); [lia|reflexivity]. }
  assert (E2 : beq (c :: r) s_rand = false).
  { unfold beq, s_rand. cbn [seg_eqb]. destruct (N.eqb_spec c 114); [lia|reflexivity]. }
  assert (E3 : beq (c :: r) s_last = false).
  { unfold beq, s_last. cbn [seg_eqb]. destruct (N.eqb_spec c 108); [lia|reflexivity]. }
  rewrite E1, E2, E3. rewrite atoi_digits by assumption. reflexivity.
Qed.

Lemma norm_index_mod z len : (0 <= z)%Z -> (0 < len)%nat ->
  norm_index z len = Z.to_nat (z mod Z.of_nat len).
Proof.
  intros Hz Hl. unfold norm_index.
  destruct (Z.leb_spec 0 z); [|lia]. destruct (Z.ltb_spec z (Z.of_nat len)); cbn [andb].
  - rewrite Z.mod_small by lia. reflexivity.
  - rewrite Z.rem_mod_nonneg by lia.
    pose proof (Z.mod_pos_bound z (Z.of_nat len) ltac:(lia)).
    destruct (Z.ltb_spec (z mod Z.of_nat len) 0); [lia|reflexivity].
Qed.

(* ---------- one evaluation of a canonical path ---------- *)
Definition nonext (cp : list cseg) : Prop := filter is_cnext cp = [].

Lemma is_nil_map {A B} (f : A -> B) l : is_nil (map f l) = is_nil l.
Proof. destruct l; reflexivity. Qed.

Lemma calc_index_lit ds key len st : lit_ok ds = true -> (0 < len)%nat ->
  calc_index ds key len st = (CiIdx (Z.to_nat (lit_val ds mod Z.of_nat len)), st, []).
Proof.
  intros Hl Hlen. unfold calc_index. destruct len as [|len]; [lia|].
  rewrite (classify_lit ds Hl). rewrite norm_index_mod; [reflexivity| |lia].
  apply (dval_nonneg ds).
Qed.

Lemma calc_index_next key len st c0 : (0 < len)%nat ->
  repr (g_iter st) c0 -> (N.of_nat (c0 key) < two63)%N ->
  exists st', calc_index s_next key len st = (CiIdx (c0 key mod len), st', [key]) /\
              g_draws st' = g_draws st /\ repr (g_iter st') (bump c0 key).
Proof.
  intros Hlen Hr Hb. unfold calc_index. destruct len as [|len]; [lia|].
  change (classify s_next) with INext. cbv iota.
  pose proof (it_next_repr (g_iter st) c0 key Hr) as [Hv Hr'].
  destruct (it_next (g_iter st) key) as [v it']. cbn [fst snd] in Hv, Hr'. subst v.
  rewrite next_row_k by (lia || assumption).
  eexists. split; [reflexivity|]. split; [reflexivity|exact Hr'].
Qed.

Lemma sstep_nonext cur c k last : is_cnext c = false ->
  sstep cur c k last = sstep cur c 0 last /\ snd (sstep cur c 0 last) = false.
Proof.
  destruct c as [n|n ds|n]; cbn [is_cnext]; [| |discriminate]; intros _; (split; [reflexivity|]); cbn [sstep].
  - destruct (vassoc cur n); reflexivity.
  - destruct (vassoc cur n) as [[s| |m|l]|]; try reflexivity.
    destruct l as [|e0 l]; [reflexivity|]. destruct (nth_error _ _); reflexivity.
Qed.

Lemma seg_step_static cur c key' last st : cseg_ok c = true -> is_cnext c = false ->
  seg_step cur (pseg_of c) key' last st = (fst (sstep cur c 0 last), st, []).
Proof.
  destruct c as [n|n ds|n]; cbn [is_cnext cseg_ok]; [| |discriminate]; intros Hok _;
    unfold seg_step, pseg_of; cbn [ps_name ps_idx name_of sstep].
  - destruct (vassoc cur n); reflexivity.
  - apply andb_prop in Hok. destruct Hok as [_ Hl].
    destruct (vassoc cur n) as [[s| |m|l]|]; try reflexivity.
    destruct l as [|e0 l]; [reflexivity|].
    rewrite calc_index_lit by (assumption || (cbn [length]; lia)).
    destruct (nth_error _ _); reflexivity.
Qed.

Lemma nonext_cons c r : nonext (c :: r) <-> is_cnext c = false /\ nonext r.
Proof.
  unfold nonext. cbn [filter]. destruct (is_cnext c); split.
  - discriminate.
  - intros [H _]; discriminate.
  - intros H; split; [reflexivity|exact H].
  - intros [_ H]; exact H.
Qed.

Lemma sgmv_nonext cp : nonext cp -> forall cur k, sgmv cur cp k = sgmv cur cp 0 /\ snd (sgmv cur cp 0) = false.
Proof.
  induction cp as [|c r IH]; intros Hn cur k; [split; reflexivity|].
  apply nonext_cons in Hn. destruct Hn as [Hc Hr]. cbn [sgmv].
  destruct (sstep_nonext cur c k (is_nil r) Hc) as [E1 E2]. rewrite E1.
  destruct (sstep cur c 0 (is_nil r)) as [[r0|m] b]; cbn [snd] in E2; subst b; [split; reflexivity|].
  destruct (IH Hr m k) as [F1 F2]. rewrite F1. destruct (sgmv m r 0) as [r2 b2]. cbn [snd] in F2. subst b2.
  split; reflexivity.
Qed.

Lemma gmv_static cp : forall cur key st, forallb cseg_ok cp = true -> nonext cp ->
  gmv_go kext_go cur (map pseg_of cp) key st = (fst (sgmv cur cp 0), st, []).
Proof.
  induction cp as [|c r IH]; intros cur key st Hok Hn; [reflexivity|].
  cbn [forallb] in Hok. apply andb_prop in Hok. destruct Hok as [Hc Hr].
  apply nonext_cons in Hn. destruct Hn as [Hnc Hnr].
  cbn [map gmv_go sgmv]. rewrite is_nil_map. rewrite seg_step_static by assumption.
  destruct (sstep cur c 0 (is_nil r)) as [[r0|m] b]; cbn [fst]; [reflexivity|].
  rewrite IH by assumption. destruct (sgmv m r 0) as [r2 b2]. reflexivity.
Qed.

Lemma filter_le1_cons c r : (length (filter is_cnext (c :: r)) <= 1)%nat ->
  (is_cnext c = true /\ nonext r) \/ (is_cnext c = false /\ (length (filter is_cnext r) <= 1)%nat).
Proof.
  cbn [filter]. destruct (is_cnext c); cbn [length]; intros H.
  - left. split; [reflexivity|]. unfold nonext. destruct (filter is_cnext r); [reflexivity|cbn [length] in H; lia].
  - right. split; [reflexivity|exact H].
Qed.

Lemma gmv_canon cp : forall cur key st c0,
  forallb cseg_ok cp = true -> (length (filter is_cnext cp) <= 1)%nat ->
  repr (g_iter st) c0 -> (N.of_nat (c0 (nkey key cp)) < two63)%N ->
  exists st' ks,
    gmv_go kext_go cur (map pseg_of cp) key st = (fst (sgmv cur cp (c0 (nkey key cp))), st', ks) /\
    g_draws st' = g_draws st /\
    repr (g_iter st') (if snd (sgmv cur cp (c0 (nkey key cp))) then bump c0 (nkey key cp) else c0).
Proof.
  induction cp as [|c r IH]; intros cur key st c0 Hok Hone Hr Hb.
  - exists st, []. split; [reflexivity|]. split; [reflexivity|exact Hr].
  - cbn [forallb] in Hok. apply andb_prop in Hok. destruct Hok as [Hc Hrok].
    destruct (filter_le1_cons c r Hone) as [[Hn Hnr]|[Hn Hle]].
    + (* the [next] segment *)
      destruct c as [n|n ds|n]; cbn [is_cnext] in Hn; try discriminate.
      cbn [nkey is_cnext] in *. set (key' := kext_go key (print_cseg (CNext n))) in *.
      cbn [map gmv_go sgmv]. rewrite is_nil_map. fold key'.
      unfold seg_step. cbn [pseg_of ps_name ps_idx name_of ps_text sstep]. fold key'.
      destruct (vassoc cur n) as [[s| |m|l]|];
        try (exists st, []; split; [reflexivity|]; split; [reflexivity|exact Hr]).
      destruct l as [|e0 l]; [exists st, []; split; [reflexivity|]; split; [reflexivity|exact Hr]|].
      destruct (calc_index_next key' (length (e0 :: l)) st c0 ltac:(cbn [length]; lia) Hr Hb) as (st' & Ec & Hd & Hr').
      rewrite Ec.
      destruct (nth_error (e0 :: l) (c0 key' mod length (e0 :: l))) as [e|];
        [|exists st', [key']; split; [reflexivity|]; split; [exact Hd|exact Hr']].
      destruct (settle e (is_nil r)) as [r0|m];
        [exists st', [key']; split; [reflexivity|]; split; [exact Hd|exact Hr']|].
      rewrite (gmv_static r m key' st' Hrok Hnr).
      destruct (sgmv_nonext r Hnr m (c0 key')) as [F1 _]. rewrite F1.
      destruct (sgmv m r 0) as [r2 b2]. cbn [fst snd orb].
      exists st', ([key'] ++ []). split; [reflexivity|]. split; [exact Hd|exact Hr'].
    + (* a segment before the [next] segment *)
      assert (En : nkey key (c :: r) = nkey (kext_go key (print_cseg c)) r) by (cbn [nkey]; rewrite Hn; reflexivity).
      rewrite En in *. set (key' := kext_go key (print_cseg c)) in *. set (K := c0 (nkey key' r)) in *.
      cbn [map gmv_go sgmv]. rewrite is_nil_map.
      change (ps_text (pseg_of c)) with (print_cseg c). fold key'.
      rewrite seg_step_static by assumption.
      destruct (sstep_nonext cur c K (is_nil r) Hn) as [E1 E2]. rewrite E1.
      destruct (sstep cur c 0 (is_nil r)) as [[r0|m] b]; cbn [snd] in E2; subst b; cbn [fst].
      * exists st, []. split; [reflexivity|]. split; [reflexivity|exact Hr].
      * destruct (IH m key' st c0 Hrok Hle Hr Hb) as (st' & ks & Eg & Hd & Hr'). fold K in Eg, Hr'.
        rewrite Eg. destruct (sgmv m r K) as [r2 b2]. cbn [fst snd orb] in *.
        exists st', ([] ++ ks). split; [reflexivity|]. split; [exact Hd|exact Hr'].
Qed.

(* ---------- the key of a [next] list determines the list's address ---------- *)
Lemma next_loc_nil cp : next_loc cp = [] <-> nonext cp.
Proof.
  induction cp as [|c r IH]; [split; reflexivity|].
  rewrite nonext_cons. cbn [next_loc]. destruct (is_cnext c).
  - split; [discriminate|intros [H _]; discriminate].
  - destruct (next_loc r) as [|x l].
    + split; [intros _; split; [reflexivity|apply IH; reflexivity]|reflexivity].
    + split; [discriminate|]. intros [_ H]. apply IH in H. discriminate.
Qed.

Lemma enc_one t : enc [t] = c_dot :: t.
Proof. cbn [enc flat_map]. rewrite app_nil_r. reflexivity. Qed.

Lemma enc_cons t l : enc (t :: l) = c_dot :: t ++ enc l.
Proof. reflexivity. Qed.

Lemma nkey_enc cp : forall key, next_loc cp <> [] ->
  nkey key cp = key ++ enc (map print_cseg (next_loc cp)).
Proof.
  induction cp as [|c r IH]; intros key H; [contradiction|].
  cbn [nkey next_loc] in *. destruct (is_cnext c).
  - cbn [map]. rewrite enc_one. reflexivity.
  - destruct (next_loc r) as [|x l] eqn:E; [contradiction|].
    rewrite IH by discriminate. unfold kext_go. cbn [map]. rewrite (enc_cons (print_cseg c)).
    rewrite <- app_assoc. reflexivity.
Qed.

Lemma next_loc_ok cp : forallb cseg_ok cp = true -> forallb cseg_ok (next_loc cp) = true.
Proof.
  induction cp as [|c r IH]; [reflexivity|]. cbn [forallb next_loc]. intros H.
  apply andb_prop in H. destruct H as [Hc Hr]. destruct (is_cnext c).
  - cbn [forallb]. rewrite Hc. reflexivity.
  - specialize (IH Hr). destruct (next_loc r) as [|x l]; [reflexivity|].
    cbn [forallb] in *. rewrite Hc. exact IH.
Qed.

Lemma lit_ok_next : lit_ok s_next = false.
Proof. reflexivity. Qed.

Lemma print_cseg_inj a b : cseg_ok a = true -> cseg_ok b = true -> print_cseg a = print_cseg b -> a = b.
Proof.
  intros Ha Hb E.
  assert (P : pseg_of a = pseg_of b) by (rewrite <- (parse_seg_print a Ha), <- (parse_seg_print b Hb), E; reflexivity).
  assert (Pn : name_of a = name_of b) by (change (ps_name (pseg_of a) = ps_name (pseg_of b)); rewrite P; reflexivity).
  assert (Pi : ps_idx (pseg_of a) = ps_idx (pseg_of b)) by (rewrite P; reflexivity).
  destruct a as [n|n ds|n], b as [m|m es|m]; cbn [name_of pseg_of ps_idx] in Pn, Pi; subst; try discriminate;
    try reflexivity.
  - injection Pi as ->. reflexivity.
  - injection Pi as ->. cbn [cseg_ok] in Ha. apply andb_prop in Ha. destruct Ha as [_ Ha].
    rewrite lit_ok_next in Ha. discriminate.
  - injection Pi as <-. cbn [cseg_ok] in Hb. apply andb_prop in Hb. destruct Hb as [_ Hb].
    rewrite lit_ok_next in Hb. discriminate.
Qed.

Lemma map_print_inj l1 : forall l2, forallb cseg_ok l1 = true -> forallb cseg_ok l2 = true ->
  map print_cseg l1 = map print_cseg l2 -> l1 = l2.
Proof.
  induction l1 as [|a l1 IH]; intros [|b l2] H1 H2 E; cbn [map] in E; try discriminate; [reflexivity|].
  cbn [forallb] in H1, H2. apply andb_prop in H1, H2. destruct H1 as [Ha H1], H2 as [Hb H2].
  injection E as E0 E. f_equal; [apply print_cseg_inj; assumption|apply IH; assumption].
Qed.

Lemma map_print_dotfree l : forallb cseg_ok l = true -> Forall dotfree (map print_cseg l).
Proof.
  induction l as [|c r IH]; intros H; [constructor|]. cbn [forallb] in H. apply andb_prop in H. destruct H as [Hc Hr].
  cbn [map]. constructor; [|apply IH; exact Hr]. apply pchar_dotfree. apply (print_cseg_pchar c Hc).
Qed.

Lemma cseg_eqb_eq a b : cseg_eqb a b = true <-> a = b.
Proof.
  destruct a as [n|n d|n], b as [m|m e|m]; cbn [cseg_eqb]; split; intros H; try discriminate.
  - apply beq_eq in H. subst. reflexivity.
  - injection H as ->. apply beq_refl.
  - apply andb_prop in H. destruct H as [H1 H2]. apply beq_eq in H1, H2. subst. reflexivity.
  - injection H as -> ->. rewrite !beq_refl. reflexivity.
  - apply beq_eq in H. subst. reflexivity.
  - injection H as ->. apply beq_refl.
Qed.

Lemma loc_eqb_eq a : forall b, loc_eqb a b = true <-> a = b.
Proof.
  induction a as [|x a IH]; intros [|y b]; cbn [loc_eqb]; split; intros H; try discriminate; try reflexivity.
  - apply andb_prop in H. destruct H as [H1 H2]. apply cseg_eqb_eq in H1. apply IH in H2. subst. reflexivity.
  - injection H as -> ->. apply andb_true_intro. split; [apply cseg_eqb_eq; reflexivity|apply IH; reflexivity].
Qed.

(* Two canonical paths use the same counter exactly when they address the same list: same
   parents, same list name.  (The bare-segment key of the contrast model identifies lists that
   only share their last name.) *)
Lemma nkey_eqb pfx cp1 cp2 :
  forallb cseg_ok cp1 = true -> forallb cseg_ok cp2 = true -> next_loc cp1 <> [] -> next_loc cp2 <> [] ->
  seg_eqb (nkey pfx cp1) (nkey pfx cp2) = loc_eqb (next_loc cp1) (next_loc cp2).
Proof.
  intros H1 H2 N1 N2. rewrite !nkey_enc by assumption.
  destruct (loc_eqb (next_loc cp1) (next_loc cp2)) eqn:E.
  - apply loc_eqb_eq in E. rewrite E. apply seg_eqb_refl.
  - destruct (seg_eqb _ _) eqn:F; [|reflexivity]. exfalso.
    apply seg_eqb_eq in F. apply app_inv_head in F.
    apply enc_inj in F; try (apply map_print_dotfree, next_loc_ok; assumption).
    apply map_print_inj in F; try (apply next_loc_ok; assumption).
    rewrite F in E. assert (T : loc_eqb (next_loc cp2) (next_loc cp2) = true) by (apply loc_eqb_eq; reflexivity).
    rewrite T in E. discriminate.
Qed.

(* whether the [next] list is reached does not depend on the counter *)
Lemma sgmv_reach_indep cp : (length (filter is_cnext cp) <= 1)%nat ->
  forall cur k, snd (sgmv cur cp k) = snd (sgmv cur cp 0).
Proof.
  induction cp as [|c r IH]; intros Hone cur k; [reflexivity|].
  destruct (filter_le1_cons c r Hone) as [[Hn Hnr]|[Hn Hle]].
  - destruct c as [n|n ds|n]; cbn [is_cnext] in Hn; try discriminate.
    assert (G : forall k', snd (sgmv cur (CNext n :: r) k') =
                           match vassoc cur n with Some (VList (_ :: _)) => true | _ => false end).
    { intros k'. cbn [sgmv sstep]. destruct (vassoc cur n) as [[s| |m|l]|]; try reflexivity.
      destruct l as [|e0 l]; [reflexivity|].
      destruct (nth_error (e0 :: l) (k' mod length (e0 :: l))) as [e|]; [|reflexivity].
      destruct (settle e (is_nil r)) as [r0|m]; [reflexivity|].
      destruct (sgmv m r k'). reflexivity. }
    rewrite (G k), (G 0%nat). reflexivity.
  - cbn [sgmv]. destruct (sstep_nonext cur c k (is_nil r) Hn) as [E1 _]. rewrite E1.
    destruct (sstep cur c 0 (is_nil r)) as [[r0|m] b]; [reflexivity|].
    specialize (IH Hle m k). destruct (sgmv m r k) as [r1 b1]. destruct (sgmv m r 0) as [r2 b2].
    cbn [snd] in *. rewrite IH. reflexivity.
Qed.

Lemma cpath_ok_spec cp : cpath_ok cp = true ->
  cp <> [] /\ forallb cseg_ok cp = true /\ (length (filter is_cnext cp) <= 1)%nat.
Proof.
  unfold cpath_ok. intros H. apply andb_prop in H. destruct H as [H H3]. apply andb_prop in H. destruct H as [H1 H2].
  split; [destruct cp; [discriminate|discriminate]|]. split; [exact H2|]. apply Nat.leb_le. exact H3.
Qed.

(* ---------- histories ---------- *)
Lemma run_paths_spec pfx h : forall done st c0,
  Forall (fun e => cpath_ok (snd e) = true) h ->
  repr (g_iter st) c0 ->
  (forall cp, cpath_ok cp = true -> next_loc cp <> [] -> c0 (nkey pfx cp) = count_loc (next_loc cp) done) ->
  (forall s, (c0 s <= length done)%nat) ->
  (N.of_nat (length done + length h) < two63)%N ->
  run_paths pfx (to_paths h) st = spec_paths done h.
Proof.
  induction h as [|[t cp] r IH]; intros done st c0 Hok Hr Hc Hle Hb; [reflexivity|].
  inversion Hok as [|? ? Hcp Hrest]; subst. cbn [snd] in Hcp.
  destruct (cpath_ok_spec cp Hcp) as (Hne & Hsegs & Hone).
  cbn [to_paths map fst snd run_paths spec_paths]. fold (to_paths r).
  unfold get_map_value. rewrite parse_print by assumption.
  assert (Hbk : (N.of_nat (c0 (nkey pfx cp)) < two63)%N).
  { specialize (Hle (nkey pfx cp)). cbn [length] in Hb. unfold two63 in *. lia. }
  destruct (gmv_canon cp t pfx st c0 Hsegs Hone Hr Hbk) as (st' & ks & Eg & _ & Hr').
  rewrite Eg. f_equal.
  - (* the result of this evaluation *)
    destruct (next_loc cp) as [|x l] eqn:El.
    + apply next_loc_nil in El. destruct (sgmv_nonext cp El t (c0 (nkey pfx cp))) as [E1 _].
      destruct (sgmv_nonext cp El t (count_loc [] done)) as [E2 _]. rewrite E1, E2. reflexivity.
    + rewrite (Hc cp Hcp) by (rewrite El; discriminate). rewrite El. reflexivity.
  - (* the rest of the history *)
    rewrite (sgmv_reach_indep cp Hone t (c0 (nkey pfx cp))) in Hr'. fold (reaches t cp) in Hr'.
    apply (IH ((t, cp) :: done) st' _ Hrest Hr').
    + intros cp2 Hcp2 Hn2. destruct (cpath_ok_spec cp2 Hcp2) as (_ & Hsegs2 & _).
      cbn [count_loc]. destruct (reaches t cp) eqn:Ere.
      * assert (Hn1 : next_loc cp <> []).
        { intros En. apply next_loc_nil in En. destruct (sgmv_nonext cp En t 0%nat) as [_ F].
          unfold reaches in Ere. rewrite F in Ere. discriminate. }
        unfold bump. rewrite (nkey_eqb pfx cp cp2 Hsegs Hsegs2 Hn1 Hn2). rewrite (Hc cp2 Hcp2 Hn2).
        cbn [andb]. lia.
      * cbn [andb]. rewrite (Hc cp2 Hcp2 Hn2). reflexivity.
    + intros s. cbn [length]. destruct (reaches t cp); [|specialize (Hle s); lia].
      unfold bump. specialize (Hle s). destruct (seg_eqb (nkey pfx cp) s); lia.
    + cbn [length] in *. replace (S (length done) + length r)%nat with (length done + S (length r))%nat by lia. exact Hb.
Qed.

(* Every list addressed with [next] hands out its own consecutive elements, whatever other
   lists (same last name or not) are used in between. *)
Lemma paths_per_list pfx h draws :
  Forall (fun e => cpath_ok (snd e) = true) h -> (N.of_nat (length h) < two63)%N ->
  run_paths pfx (to_paths h) {| g_iter := []; g_draws := draws |} = spec_paths [] h.
Proof.
  intros Hok Hb. apply (run_paths_spec pfx h [] _ (fun _ => O) Hok).
  - exact repr_fresh.
  - intros cp _ _. reflexivity.
  - intros s. cbn [length]. lia.
  - cbn [length]. exact Hb.
Qed.

(* what a list hands out depends only on the evaluations that address this list *)
Lemma count_loc_own L done :
  count_loc L (filter (fun e => loc_eqb (next_loc (snd e)) L) done) = count_loc L done.
Proof.
  induction done as [|[t cp] r IH]; [reflexivity|]. cbn [filter snd count_loc].
  destruct (loc_eqb (next_loc cp) L) eqn:E.
  - cbn [count_loc]. rewrite E, IH. reflexivity.
  - rewrite andb_false_r, IH. reflexivity.
Qed.

(* ---------- the general statement for arbitrary path strings ---------- *)
Definition texts (p : bytes) : list bytes := map ps_text (parse_path p).

Lemma Forall_firstn' {A} (P : A -> Prop) n : forall l, Forall P l -> Forall P (firstn n l).
Proof.
  induction n as [|n IH]; intros l H; [constructor|]. destruct l as [|x l]; [constructor|].
  inversion H; subst. cbn [firstn]. constructor; [assumption|apply IH; assumption].
Qed.

Lemma gmv_keys_general tree path pfx st r st' ks :
  get_map_value tree path pfx st = (r, st', ks) ->
  g_iter st' = snd (it_run (g_iter st) (tag ks)) /\
  Forall (fun k => exists i sg, nth_error (parse_path path) i = Some sg /\ next_seg sg /\
                                k = pfx ++ enc (firstn (S i) (texts path))) ks.
Proof.
  unfold get_map_value. intros E. destruct (gmv_go_keys _ _ _ _ _ _ _ _ E) as [H1 H2]. split; [exact H1|].
  eapply Forall_impl; [|exact H2]. cbn beta. intros k (i & sg & Hi & Hn & ->).
  exists i, sg. split; [exact Hi|]. split; [exact Hn|].
  rewrite key_after_go. unfold texts. rewrite firstn_map. reflexivity.
Qed.

Lemma key_text_inj pfx p q i j :
  pfx ++ enc (firstn i (texts p)) = pfx ++ enc (firstn j (texts q)) ->
  firstn i (texts p) = firstn j (texts q).
Proof.
  intros E. apply app_inv_head in E. apply enc_inj in E; [exact E| |];
    apply Forall_firstn'; apply parse_path_dotfree.
Qed.

(* one evaluation of a canonical path string in any iterator state *)
Lemma gmv_canon_path cp t pfx st c0 :
  cpath_ok cp = true -> repr (g_iter st) c0 -> (N.of_nat (c0 (nkey pfx cp)) < two63)%N ->
  exists st' ks,
    get_map_value t (print_cpath cp) pfx st = (fst (sgmv t cp (c0 (nkey pfx cp))), st', ks) /\
    g_draws st' = g_draws st /\
    repr (g_iter st') (if reaches t cp then bump c0 (nkey pfx cp) else c0).
Proof.
  intros Hcp Hr Hb. destruct (cpath_ok_spec cp Hcp) as (Hne & Hsegs & Hone).
  unfold get_map_value. rewrite parse_print by assumption.
  destruct (gmv_canon cp t pfx st c0 Hsegs Hone Hr Hb) as (st' & ks & Eg & Hd & Hr').
  exists st', ks. split; [exact Eg|]. split; [exact Hd|].
  rewrite (sgmv_reach_indep cp Hone t (c0 (nkey pfx cp))) in Hr'. exact Hr'.
Qed.

(* ---------- a concrete tree: two sources with a list of the same name ---------- *)
Definition ex_source : bytes := [115;111;117;114;99;101]%N.
Definition ex_users : bytes := [117;115;101;114;115]%N.
Definition ex_eu : bytes := [101;117]%N.
Definition ex_us : bytes := [117;115]%N.
Definition ex_tree : list (bytes * val) :=
  [(ex_source, VMap [(ex_eu, VMap [(ex_users, VList [VStr [101;48]; VStr [101;49]; VStr [101;50]]%N)]);
                     (ex_us, VMap [(ex_users, VList [VStr [117;48]; VStr [117;49]]%N)])])].
Definition ex_path (src : bytes) : list cseg := [CPlain ex_source; CPlain src; CNext ex_users].
Definition ex_hist : list (list (bytes * val) * list cseg) :=
  [(ex_tree, ex_path ex_eu); (ex_tree, ex_path ex_us); (ex_tree, ex_path ex_eu); (ex_tree, ex_path ex_us)].
Definition st_fresh : gstate := {| g_iter := []; g_draws := [] |}.

(* with the bare segment as the key (the parents forgotten) the two lists share one counter:
   the per-list statement fails *)
Lemma bare_key_refuted :
  Forall (fun e => cpath_ok (snd e) = true) ex_hist /\
  run_paths_bare [] (to_paths ex_hist) st_fresh <> spec_paths [] ex_hist /\
  run_paths_bare [] (to_paths ex_hist) st_fresh =
    [GvOk (VStr [101;48]%N); GvOk (VStr [117;49]%N); GvOk (VStr [101;50]%N); GvOk (VStr [117;49]%N)].
Proof.
  split; [repeat constructor|]. split; [vm_compute; discriminate|vm_compute; reflexivity].
Qed.

(* ---------- the keys of the concrete scenario instance (Model/Scenario.v) ---------- *)
(* The segments used by the preprocessor paths of the scenario model are the keys the path model
   computes for the documented spellings source.<src>[next].<field> and source.<src>.<lst>[next]
   (iterator number [own] as the prefix). *)
Lemma scenario_keys own src field lst :
  seg_next own src = nkey [own] [CPlain ex_source; CNext src; CPlain field] /\
  seg_vnext own src lst = nkey [own] [CPlain ex_source; CPlain src; CNext lst].
Proof.
  split.
  - unfold seg_next, nkey, kext_go, is_cnext, print_cseg, ex_source, s_next, c_dot, c_lb, c_rb.
    cbn [app]. repeat (rewrite <- app_assoc; cbn [app]). reflexivity.
  - unfold seg_vnext, nkey, kext_go, is_cnext, print_cseg, ex_source, s_next, c_dot, c_lb, c_rb.
    cbn [app]. repeat (rewrite <- app_assoc; cbn [app]). reflexivity.
Qed.
