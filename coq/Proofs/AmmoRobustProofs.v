(* C13 for the non-ammo input handlers of Model/AmmoRobust.v. *)
From Coq Require Import List NArith ZArith Bool Lia.
From PV Require Import Lib.AmmoBytes Lib.AmmoDecimal Lib.AmmoLines Model.AmmoCommon Model.AmmoRobust
  Proofs.AmmoBytesProofs.
Import ListNotations.
Local Open Scope Z_scope.

(* ---------- request list ---------- *)
Lemma parse_string_func_no_panic s : parse_string_func s <> VPanic.
Proof.
  unfold parse_string_func. destruct (cut LPAR s) as [[b a] f].
  destruct (negb f); [destruct (has RPAR s); discriminate|].
  destruct (cut RPAR (trim a)) as [[i r] cf].
  destruct (negb cf || negb (is_nil r))%bool; discriminate.
Qed.

Lemma parse_shoot_name_no_panic s : parse_shoot_name s <> VPanic.
Proof.
  unfold parse_shoot_name. pose proof (parse_string_func_no_panic s) as H.
  destruct (parse_string_func s) as [[name args]| |]; [|discriminate|contradiction].
  destruct (arg_int args 0 1); [|discriminate]. destruct (arg_int args 1 0); discriminate.
Qed.

Lemma convert_no_panic known reqs : forall acc allocs, convert known reqs acc allocs <> VPanic.
Proof.
  induction reqs as [|sh r IH]; intros acc allocs; cbn [convert]; [discriminate|].
  pose proof (parse_shoot_name_no_panic sh) as H.
  destruct (parse_shoot_name sh) as [[[name cnt] sleep]| |]; [|discriminate|contradiction].
  destruct (beq name SLEEP).
  - destruct acc; [discriminate|apply IH].
  - destruct (negb (known name)); [discriminate|]. destruct (0 <? cnt); apply IH.
Qed.

(* every allocation made while building the scenario is a count written in the input *)
Lemma convert_allocs known reqs : forall acc allocs steps allocs',
  convert known reqs acc allocs = VOk (steps, allocs') ->
  exists extra, allocs' = allocs ++ extra /\
    Forall (fun n => exists sh name sl, In sh reqs /\ parse_shoot_name sh = VOk (name, n, sl) /\ 0 < n) extra.
Proof.
  induction reqs as [|sh r IH]; intros acc allocs steps allocs' H; cbn [convert] in H.
  - inversion H; subst. exists []. rewrite app_nil_r. split; [reflexivity|constructor].
  - destruct (parse_shoot_name sh) as [[[name cnt] sleep]| |] eqn:Ep; try discriminate.
    assert (Hin : forall extra,
      Forall (fun n => exists sh0 name0 sl, In sh0 r /\ parse_shoot_name sh0 = VOk (name0, n, sl) /\ 0 < n) extra ->
      Forall (fun n => exists sh0 name0 sl, In sh0 (sh :: r) /\ parse_shoot_name sh0 = VOk (name0, n, sl) /\ 0 < n) extra).
    { intros extra HF. eapply Forall_impl; [|exact HF]. intros n [sh0 [n0 [sl [Hi Hp]]]].
      exists sh0, n0, sl. split; [right; exact Hi|exact Hp]. }
    destruct (beq name SLEEP).
    + destruct acc; [discriminate|]. destruct (IH _ _ _ _ H) as [extra [E HF]].
      exists extra. split; [exact E|apply Hin; exact HF].
    + destruct (negb (known name)); [discriminate|].
      destruct (0 <? cnt) eqn:Ec.
      * destruct (IH _ _ _ _ H) as [extra [E HF]].
        exists (cnt :: extra). split; [rewrite E, <- app_assoc; reflexivity|].
        constructor; [|apply Hin; exact HF].
        exists sh, name, sleep. split; [left; reflexivity|]. split; [exact Ep|]. apply Z.ltb_lt. exact Ec.
      * destruct (IH _ _ _ _ H) as [extra [E HF]].
        exists extra. split; [exact E|apply Hin; exact HF].
Qed.

(* ---------- index arithmetic ---------- *)
Definition idx_ok (len : Z) (r : rres Z) : Prop :=
  match r with VPanic => False | VOk i => 0 <= i < len | VErr => True end.

Lemma calc_index_safe idx len nxt rnd :
  0 <= len -> 0 <= nxt -> (0 < len -> 0 <= rnd < len) ->
  idx_ok len (calc_index idx len nxt rnd).
Proof.
  intros Hlen Hnxt Hrnd. unfold calc_index.
  destruct (Z.eqb_spec len 0) as [Hz|Hnz]; [exact I|].
  assert (Hpos : 0 < len) by lia. specialize (Hrnd Hpos).
  destruct (beq idx NEXT || beq idx RAND || beq idx LAST)%bool eqn:Ekw.
  - assert (Hgoal : idx_ok len
      (if beq idx LAST then VOk (len - 1)
       else if beq idx RAND then (if len <=? 0 then VPanic else VOk rnd)
       else if nxt <? len then VOk nxt
       else VOk (Z.rem nxt len))).
    { destruct (beq idx LAST); [cbn; lia|].
      destruct (beq idx RAND).
      - destruct (Z.leb_spec len 0); [lia|exact Hrnd].
      - destruct (Z.ltb_spec nxt len); [cbn; lia|].
        cbn. apply Z.rem_bound_pos; lia. }
    destruct (atoi idx); exact Hgoal.
  - destruct (atoi idx) as [i|]; [|exact I].
    destruct ((0 <=? i) && (i <? len))%bool eqn:Er.
    + apply andb_prop in Er. destruct Er as [E1 E2].
      apply Z.leb_le in E1. apply Z.ltb_lt in E2. cbn. lia.
    + cbn.
      destruct (Z.ltb_spec (Z.rem i len) 0) as [Hneg|Hnn].
      * destruct (Z.le_gt_cases 0 i) as [Hi|Hi].
        -- pose proof (Z.rem_bound_pos i len Hi Hpos). lia.
        -- pose proof (Z.rem_bound_pos_neg i len Hpos ltac:(lia)). lia.
      * destruct (Z.le_gt_cases 0 i) as [Hi|Hi].
        -- pose proof (Z.rem_bound_pos i len Hi Hpos). lia.
        -- pose proof (Z.rem_bound_pos_neg i len Hpos ltac:(lia)). lia.
Qed.

Lemma extract_index_safe idx len nxt rnd :
  0 <= len -> 0 <= nxt -> (0 < len -> 0 <= rnd < len) ->
  idx_ok len (extract_index idx len nxt rnd).
Proof.
  intros H1 H2 H3. unfold extract_index.
  pose proof (calc_index_safe idx len nxt rnd H1 H2 H3) as Hc.
  destruct (calc_index idx len nxt rnd) as [i| |]; [|exact I|contradiction].
  cbn [idx_ok] in Hc.
  assert (Hin : ((0 <=? i) && (i <? len))%bool = true).
  { apply andb_true_intro. split; [apply Z.leb_le|apply Z.ltb_lt]; lia. }
  rewrite Hin. exact Hc.
Qed.

(* ---------- property placeholder ---------- *)
Lemma property_resolve_no_panic fl inp : property_resolve fl inp <> VPanic.
Proof.
  unfold property_resolve. destruct (cut HASH inp) as [[f k] found].
  destruct (negb found); [discriminate|]. destruct (fl f) as [ls|]; [|discriminate].
  destruct (lookup_prop ls k); discriminate.
Qed.

(* ---------- RandStringRunes ---------- *)
Lemma rand_string_alloc_safe n : 4 * n <= max_alloc -> rand_string_alloc n <> VPanic.
Proof.
  intros H. unfold rand_string_alloc. destruct (n <=? 0); [discriminate|].
  destruct (Z.ltb_spec max_alloc (4 * n)); [lia|discriminate].
Qed.

(* ---------- randInt ---------- *)
Lemma rand_int_range_safe f t :
  min_int <= f <= max_int -> min_int <= t <= max_int ->
  match rand_int_range f t with
  | VPanic => False
  | VErr => True
  | VOk (lo, w) => 0 < w /\ Z.min f t <= lo /\ lo + w - 1 <= Z.max (Z.max f t) 10
  end.
Proof.
  unfold min_int, max_int. intros Hf Ht. unfold rand_int_range.
  assert (Hw : forall a b, -9223372036854775808 <= a -> a < b -> b <= 9223372036854775807 ->
             (wrap64 (b - a) <=? 0) = false -> wrap64 (b - a) = b - a).
  { intros a b Ha Hab Hb Hpos. apply Z.leb_gt in Hpos. unfold wrap64 in *.
    destruct (Z.lt_ge_cases (b - a) 9223372036854775808) as [Hs|Hl].
    - rewrite Z.mod_small by lia. lia.
    - exfalso.
      replace (b - a + 9223372036854775808) with ((b - a - 9223372036854775808) + 1 * 18446744073709551616) in Hpos by lia.
      rewrite Z.mod_add in Hpos by lia. rewrite Z.mod_small in Hpos by lia. lia. }
  destruct (Z.ltb_spec t f) as [Hlt|Hge].
  - (* swapped: bounds t < f *)
    destruct ((t =? 0) && (f =? 0))%bool eqn:E0.
    + apply andb_prop in E0. destruct E0 as [E1 E2]. apply Z.eqb_eq in E1, E2. lia.
    + destruct (Z.eqb_spec f t) as [E|E]; [lia|].
      destruct (wrap64 (f - t) <=? 0) eqn:Ew; [exact I|].
      rewrite (Hw t f) by (try lia; exact Ew). lia.
  - destruct ((f =? 0) && (t =? 0))%bool eqn:E0.
    + apply andb_prop in E0. destruct E0 as [E1 E2]. apply Z.eqb_eq in E1, E2. subst.
      cbn. lia.
    + destruct (Z.eqb_spec t f) as [E|E]; [subst; lia|].
      destruct (wrap64 (t - f) <=? 0) eqn:Ew; [exact I|].
      rewrite (Hw f t) by (try lia; exact Ew). lia.
Qed.

(* ---------- MultiPassReader: a Read that returns (0, nil) is followed by progress ---------- *)
Lemma mp_read_progress len limit m s :
  0 < m ->
  let '(n1, e1, s1) := mp_read len limit m s in
  n1 = 0 -> e1 = false ->
  let '(n2, e2, _) := mp_read len limit m s1 in 0 < n2 \/ e2 = true.
Proof.
  intros Hm. unfold mp_read at 1.
  destruct (Z.ltb_spec 0 (len - mp_pos s)) as [Ha|Ha].
  - intros Hn. lia.
  - destruct (negb (mp_read_in_pass s)); [intros _ H; discriminate|].
    destruct ((limit <=? 0) || (mp_passes s + 1 <? limit))%bool; [|intros _ H; discriminate].
    intros _ _. unfold mp_read. cbn [mp_pos mp_read_in_pass mp_passes negb].
    destruct (Z.ltb_spec 0 (len - 0)) as [Hb|Hb]; [left; lia|right; reflexivity].
Qed.

(* and every Read returns at most what was asked for *)
Lemma mp_read_bounds len limit m s :
  0 < m -> 0 <= mp_pos s -> let '(n, _, s') := mp_read len limit m s in 0 <= n <= m /\ 0 <= mp_pos s'.
Proof.
  intros Hm Hp. unfold mp_read. destruct (Z.ltb_spec 0 (len - mp_pos s)); [cbn [mp_pos]; lia|].
  destruct (negb (mp_read_in_pass s)); [cbn [mp_pos]; lia|].
  destruct ((limit <=? 0) || (mp_passes s + 1 <? limit))%bool; cbn [mp_pos]; lia.
Qed.

(* ---------- grpc/json: the pass loop never repeats without delivering ---------- *)
Lemma grpc_run_no_spin um ce k : forall all e left, ~ In GSpin (grpc_run um ce k all e left).
Proof.
  induction k as [|k IH]; intros all e left; cbn [grpc_run]; [intros []|].
  assert (Hstep : forall l r, ~ In GSpin (match um (drop_cr l) with
                                          | Some (t, c) => GDeliver t c :: grpc_run um ce k all e r
                                          | None => if ce then GInvalid :: grpc_run um ce k all e r else [GErr] end)).
  { intros l r. destruct (um (drop_cr l)) as [[t c]|].
    - intros [H|H]; [discriminate|exact (IH _ _ _ H)].
    - destruct ce; [intros [H|H]; [discriminate|exact (IH _ _ _ H)]|intros [H|[]]; discriminate]. }
  destruct left as [|l r]; [|apply Hstep].
  destruct e; [|intros [H|[]]; discriminate].
  destruct all as [|l r]; [intros [H|[]]; discriminate|apply Hstep].
Qed.

(* ---------- scenario weights ---------- *)
Lemma go_gcd_pos a b : 0 < a -> 0 < b -> 0 < go_gcd a b.
Proof.
  intros Ha Hb. unfold go_gcd.
  assert (H1 : (0 <? a) = true) by (apply Z.ltb_lt; exact Ha).
  assert (H2 : (0 <? b) = true) by (apply Z.ltb_lt; exact Hb).
  rewrite H1, H2. cbn [andb].
  pose proof (Z.gcd_nonneg a b). assert (Z.gcd a b <> 0); [|lia].
  intros E. apply Z.gcd_eq_0_l in E. lia.
Qed.

Lemma go_gcdm_rev_pos ws :
  Forall (fun w => 0 < w) ws -> (2 <= length ws)%nat -> 0 < go_gcdm_rev ws.
Proof.
  induction ws as [|x tl IH]; intros HF Hl; [cbn in Hl; lia|].
  destruct tl as [|y r]; [cbn in Hl; lia|].
  inversion HF as [|? ? Hx HF']; subst. inversion HF' as [|? ? Hy HF'']; subst.
  cbn [go_gcdm_rev]. destruct r as [|z r'].
  - apply go_gcd_pos; assumption.
  - apply go_gcd_pos; [|apply go_gcd_pos; assumption].
    apply IH; [exact HF'|cbn; lia].
Qed.

Lemma fold_add_nonneg cs : forall a, 0 <= a -> Forall (fun c => 0 <= c) cs -> 0 <= fold_left Z.add cs a.
Proof.
  induction cs as [|c r IH]; intros a Ha HF; [exact Ha|].
  inversion HF; subst. cbn [fold_left]. apply IH; [lia|assumption].
Qed.

(* with the negative weights rejected, the only way left to a makeslice failure is a
   capacity beyond what can be allocated *)
Lemma spread_counts_panic ws :
  spread_counts ws = VPanic ->
  exists g cs, 0 < g /\ Forall (fun c => 0 <= c) cs /\ max_alloc < 8 * fold_left Z.add cs 0.
Proof.
  unfold spread_counts. destruct (existsb (fun w => w <? 0) ws) eqn:En; [discriminate|].
  destruct ws as [|w1 [|w2 r]]; [discriminate|discriminate|].
  set (ws := w1 :: w2 :: r) in *.
  set (ws' := map (fun w => if w =? 0 then 1 else w) ws).
  assert (Hpos : Forall (fun w => 0 < w) ws').
  { unfold ws'. apply Forall_forall. intros x Hx. apply in_map_iff in Hx. destruct Hx as [w [E Hw]].
    assert (Hw0 : (w <? 0) = false).
    { destruct (w <? 0) eqn:E0; [|reflexivity].
      assert (existsb (fun w => w <? 0) ws = true) by (apply existsb_exists; exists w; auto). congruence. }
    apply Z.ltb_ge in Hw0. destruct (Z.eqb_spec w 0); lia. }
  assert (Hg : 0 < go_gcdm_rev (rev ws')).
  { apply go_gcdm_rev_pos.
    - apply Forall_forall. intros x Hx. apply in_rev in Hx. rewrite Forall_forall in Hpos. auto.
    - rewrite rev_length. unfold ws'. rewrite map_length. cbn. lia. }
  set (g := go_gcdm_rev (rev ws')) in *.
  destruct (Z.eqb_spec g 0); [lia|].
  set (cs := map (fun w => Z.quot w g) ws').
  assert (Hcs : Forall (fun c => 0 <= c) cs).
  { unfold cs. apply Forall_forall. intros c Hc. apply in_map_iff in Hc. destruct Hc as [w [E Hw]].
    subst c. rewrite Forall_forall in Hpos. specialize (Hpos w Hw). apply Z.quot_pos; lia. }
  pose proof (fold_add_nonneg cs 0 ltac:(lia) Hcs) as Ht.
  destruct (Z.ltb_spec (fold_left Z.add cs 0) 0); [lia|]. cbn [orb].
  destruct (Z.ltb_spec max_alloc (8 * fold_left Z.add cs 0)); [|discriminate].
  intros _. exists g, cs. auto.
Qed.
