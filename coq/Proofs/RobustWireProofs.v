(* Lemmas about Model/RobustWire.v (property C19: announced versus arriving body bytes). *)
From Coq Require Import List ZArith Bool Lia.
From PV Require Import Model.Robust Model.RobustWire Proofs.RobustProofs.
Import ListNotations.
Local Open Scope Z_scope.

(* a wire as net/http hands it to the gun: lengths are not negative (a negative or overflowing Content-Length is a
   protocol error of Client.Do, i.e. rs_conn = ConnProto, and no body is read at all) *)
Definition wire_wf (w : body_wire) : Prop :=
  0 <= bw_arrives w /\ forall n, bw_announced w = Some n -> 0 <= n.

Lemma delivered_bounds : forall w, wire_wf w -> 0 <= delivered w <= bw_arrives w.
Proof.
  intros w [Ha Hn]. unfold delivered. destruct (bw_announced w) as [n|]; [|lia].
  specialize (Hn n eq_refl). lia.
Qed.

Lemma readall_cap_bound : forall d, 0 <= d -> d < readall_cap d <= 2 * d + 512.
Proof.
  intros d Hd. unfold readall_cap. destruct (Z.ltb_spec d 512); [lia|].
  assert (0 < d) as Hp by lia. pose proof (Z.log2_spec d Hp) as [L U].
  rewrite Z.pow_succ_r in U by apply Z.log2_nonneg.
  replace (Z.log2 d + 1) with (Z.succ (Z.log2 d)) by lia.
  rewrite Z.pow_succ_r by apply Z.log2_nonneg. lia.
Qed.

(* every request of the reading code is bounded by what ARRIVED - whatever was announced *)
Lemma sink_request_bound : forall k w, wire_wf w -> 0 < sink_request k w <= 2 * bw_arrives w + discard_buf.
Proof.
  intros k w Hw. pose proof (delivered_bounds w Hw) as [D0 D1]. unfold sink_request, discard_buf.
  destruct k; [destruct Hw; lia|]. pose proof (readall_cap_bound _ D0). lia.
Qed.

Lemma read_body_safe : forall mem k w, wire_wf w ->
  2 * bw_arrives w + discard_buf <= mem -> mem <= max_alloc ->
  read_body mem k w = BodyRead (body_complete w).
Proof.
  intros mem k w Hw Hm Hx. pose proof (sink_request_bound k w Hw) as [R0 R1].
  unfold read_body, go_make.
  destruct (Z.ltb_spec (sink_request k w) 0); [lia|].
  destruct (Z.ltb_spec max_alloc (sink_request k w)); [lia|]. cbn [orb].
  destruct (Z.ltb_spec mem (sink_request k w)); [lia|]. reflexivity.
Qed.

(* the outcome does not depend on the announced number beyond "did everything announced arrive" *)
Lemma read_body_ignores_announced : forall mem k w n m, wire_wf w ->
  2 * bw_arrives w + discard_buf <= mem -> mem <= max_alloc ->
  bw_arrives w < n -> bw_arrives w < m ->
  read_body mem k {| bw_announced := Some n; bw_arrives := bw_arrives w; bw_clean_end := bw_clean_end w |} =
  read_body mem k {| bw_announced := Some m; bw_arrives := bw_arrives w; bw_clean_end := bw_clean_end w |}.
Proof.
  intros mem k w n m [Ha _] Hm Hx Hn Hm2.
  rewrite !read_body_safe; try assumption; try (split; cbn; [assumption|intros ? E; injection E as <-; lia]).
  unfold body_complete. cbn.
  destruct (Z.leb_spec n (bw_arrives w)); [lia|]. destruct (Z.leb_spec m (bw_arrives w)); [lia|]. reflexivity.
Qed.

(* ---------- shoot_step does not look at rs_body_ok before the body stage ---------- *)
Lemma side_branches_body_irrelevant : forall o r b, side_branches o (with_body_ok r b) = side_branches o r.
Proof. reflexivity. Qed.

Lemma shoot_step_unreached : forall s b, step_reaches_body s = false -> shoot_step (step_with_body s b) = shoot_step s.
Proof.
  intros s b H. unfold step_reaches_body in H. unfold shoot_step, step_with_body.
  cbn [si_pre si_tmpl_ok si_prep_ok si_opts si_resp si_pps]. rewrite side_branches_body_irrelevant.
  cbn [with_body_ok rs_conn rs_body_ok rs_status].
  destruct (si_pre s) as [u| |]; cbn [is_panic negb] in *; try reflexivity.
  destruct (si_tmpl_ok s); cbn [negb andb] in *; try reflexivity.
  destruct (si_prep_ok s); cbn [negb andb] in *; try reflexivity.
  destruct (is_panic (side_branches (si_opts s) (si_resp s))); cbn [negb andb] in *; try reflexivity.
  rewrite H. reflexivity.
Qed.

Lemma shoot_step_wire_refines : forall mem s w, wire_wf w ->
  2 * bw_arrives w + discard_buf <= mem -> mem <= max_alloc ->
  shoot_step_wire mem s w = WStep (shoot_step (step_with_body s (body_complete w))).
Proof.
  intros mem s w Hw Hm Hx. unfold shoot_step_wire.
  destruct (step_reaches_body s) eqn:E.
  - rewrite read_body_safe by assumption. reflexivity.
  - rewrite shoot_step_unreached by exact E. reflexivity.
Qed.

Lemma step_with_body_safe : forall s b, pps_safe s -> pps_safe (step_with_body s b).
Proof. intros s b H. exact H. Qed.

Lemma shoot_step_wire_safe : forall mem s w, pps_safe s -> wire_wf w ->
  2 * bw_arrives w + discard_buf <= mem -> mem <= max_alloc ->
  exists o, shoot_step_wire mem s w = WStep o /\ o <> StepPanic.
Proof.
  intros mem s w Hs Hw Hm Hx. rewrite shoot_step_wire_refines by assumption.
  eexists. split; [reflexivity|]. apply shoot_step_safe, step_with_body_safe, Hs.
Qed.

Lemma base_shoot_unreached : forall c inv r b, base_reaches_body c inv r = false ->
  base_shoot c inv (with_body_ok r b) = base_shoot c inv r.
Proof.
  intros c inv r b H. unfold base_reaches_body in H. unfold base_shoot.
  rewrite side_branches_body_irrelevant. cbn [with_body_ok rs_conn rs_body_ok rs_status rs_h2].
  destruct (bc_bound c); cbn [negb andb] in *; try reflexivity.
  destruct (bc_connect c) as [[|]|]; cbn [negb andb] in *; try reflexivity;
  (destruct inv; cbn [negb andb] in *; try reflexivity;
   destruct (bc_http2 c && negb (rs_h2 r) && conn_ok (rs_conn r)); cbn [negb andb] in *; try reflexivity;
   destruct (is_panic (side_branches (bc_opts c) r)); cbn [negb andb] in *; try reflexivity;
   rewrite H; reflexivity).
Qed.

Lemma base_shoot_wire_refines : forall mem c inv r w, wire_wf w ->
  2 * bw_arrives w + discard_buf <= mem -> mem <= max_alloc ->
  base_shoot_wire mem c inv r w = WShot (base_shoot c inv (with_body_ok r (body_complete w))).
Proof.
  intros mem c inv r w Hw Hm Hx. unfold base_shoot_wire.
  destruct (base_reaches_body c inv r) eqn:E.
  - rewrite read_body_safe by assumption. reflexivity.
  - rewrite base_shoot_unreached by exact E. reflexivity.
Qed.

(* ---------- the contrast: a reader sized by the announced length ---------- *)
Lemma read_body_announced_panics : forall mem w n, bw_announced w = Some n -> max_alloc < n ->
  read_body_announced mem w = BodyPanic.
Proof.
  intros mem w n E H. unfold read_body_announced. rewrite E.
  assert (0 < n) as Hp by (unfold max_alloc in H; lia).
  destruct (Z.ltb_spec 0 n); [|lia]. unfold go_make.
  destruct (Z.ltb_spec n 0); [lia|]. destruct (Z.ltb_spec max_alloc n); [|lia]. reflexivity.
Qed.

Lemma read_body_announced_dies : forall mem w n, bw_announced w = Some n -> 0 <= mem -> mem < n -> n <= max_alloc ->
  read_body_announced mem w = BodyFatal.
Proof.
  intros mem w n E H0 H1 H2. unfold read_body_announced. rewrite E.
  destruct (Z.ltb_spec 0 n); [|lia]. unfold go_make.
  destruct (Z.ltb_spec n 0); [lia|]. destruct (Z.ltb_spec max_alloc n); [lia|]. cbn [orb].
  destruct (Z.ltb_spec mem n); [|lia]. reflexivity.
Qed.
