(* Links L1 + L2 under concurrent instances: the joint system over the schedule of a REAL profile
   (Model/Sched.v), the C03 accounting with the C01 count formula. *)
From Coq Require Import ZArith QArith Qround Lia List Bool Arith.
From PV Require Import Model.Sched Model.SchedTree Model.SchedConc Model.SchedNested Proofs.SchedProofs Proofs.SchedStep
  Proofs.SchedTreeProofs Proofs.SchedTreeSeq Proofs.SchedTreeRun Proofs.SchedTreeSpec Proofs.LinkSched.
From PV Require Import Model.Waiter Model.Instance Proofs.InstanceProofs Proofs.LinkEngine Proofs.LinkProfile
  Proofs.LinkConcSys Proofs.LinkConcProofs.
Import ListNotations.

Theorem joint_profile p (sc : SchedTree.cfg) (c : Instance.cfg) fuel now0 :
  valid p -> profile_cfg p = Some sc -> prof c = Z.to_nat (profile_count p) -> per_inst c = false ->
  (size_cfg sc <= S fuel)%nat ->
  exists tree, build (S fuel) now0 sc = Ok tree /\
    (comp_len tree <> 0%nat -> forall lo0 k,
       kreach c (flatten_cfg sc) fuel (kinit c tree lo0) k -> terminal (k_s k) ->
       reach c (k_s k) /\
       ((length (insts (k_s k)) >= 1)%nat ->
        (fired (sh (k_s k)) + discarded (sh (k_s k)))%nat = Nat.min (Z.to_nat (profile_count p)) (ammo0 c))).
Proof.
  intros Hv Hc Hp Hper Hsz.
  pose proof (profile_sched_cfg_ok p sc c Hv Hc Hp) as Hok.
  destruct (build_ok sc (S fuel) now0 Hsz) as (tree & E & F & Fl & Sz).
  exists tree. split; [exact E|]. intros NZ lo0 k R T.
  assert (Hs : shared_tree_ok c (flatten_cfg sc) fuel tree).
  { split; [exact Hper|]. split; [exact Hok|]. split; [exact F|]. split; [exact NZ|]. split; [lia|exact Fl]. }
  split; [eapply joint_terminal; eauto|]. intros Hn.
  destruct (joint_accounting c _ fuel tree lo0 k Hs R T) as [A _]. destruct (A Hn) as [A1 _].
  rewrite A1. destruct Hok as (_ & _ & Hprof). rewrite <- Hprof, Hp. reflexivity.
Qed.
