(* Lemmas about the phout renderer/parser model (property C06, part a). *)
From Coq Require Import List NArith ZArith Bool Lia ZifyN ZifyNat.
From PV Require Import Lib.Decimal Gen.PhoutGen Model.Phout.
Import ListNotations.
Local Open Scope N_scope.

Ltac Zify.zify_post_hook ::= Z.div_mod_to_equations.

(* ---------- bytes that do not occur ---------- *)

Lemma no_byte_app x a b : no_byte x (a ++ b) = no_byte x a && no_byte x b.
Proof. unfold no_byte. apply forallb_app. Qed.

Lemma no_byte_cons x c l : no_byte x (c :: l) = negb (c =? x) && no_byte x l.
Proof. reflexivity. Qed.

Lemma no_byte_rev x l : no_byte x l = true -> no_byte x (rev l) = true.
Proof.
  unfold no_byte. rewrite !forallb_forall. intros H b Hb. apply H. apply in_rev. exact Hb.
Qed.

Lemma num_no_byte x l : num_byte x = false -> forallb num_byte l = true -> no_byte x l = true.
Proof.
  intros Hx H. unfold no_byte. rewrite forallb_forall in *. intros b Hb.
  destruct (N.eqb_spec b x) as [->|]; [|reflexivity]. rewrite (H x Hb) in Hx. discriminate.
Qed.

Lemma digits_num l : forallb is_digit l = true -> forallb num_byte l = true.
Proof. rewrite !forallb_forall. intros H b Hb. unfold num_byte. rewrite (H b Hb). reflexivity. Qed.

Lemma dec_N_no_byte x n : num_byte x = false -> no_byte x (dec_N n) = true.
Proof. intros Hx. apply num_no_byte; [exact Hx|]. apply digits_num. apply dec_N_digits. Qed.

Lemma dec_Z_no_byte x z : num_byte x = false -> no_byte x (dec_Z z) = true.
Proof. intros Hx. apply num_no_byte; [exact Hx|]. apply dec_Z_bytes. Qed.

Lemma is_digit_digit_byte d : d < 10 -> is_digit (digit_byte d) = true.
Proof.
  intros H. unfold is_digit, digit_byte.
  destruct (N.leb_spec 48 (48 + d)); [|lia]. destruct (N.leb_spec (48 + d) 57); [reflexivity|lia].
Qed.

Lemma pad3_digits r : r < 1000 -> forallb is_digit (pad3 r) = true.
Proof.
  intros H. unfold pad3. cbn [forallb].
  rewrite !is_digit_digit_byte; [reflexivity| | |].
  - apply N.mod_lt; lia.
  - apply N.mod_lt; lia.
  - apply N.div_lt_upper_bound; lia.
Qed.

Lemma undec_pad3 r : r < 1000 -> undec_N (pad3 r) = Some r.
Proof.
  intros H. unfold pad3, undec_N. cbn [undec_acc].
  rewrite !is_digit_digit_byte.
  - f_equal. unfold digit_byte. lia.
  - apply N.mod_lt; lia.
  - apply N.mod_lt; lia.
  - apply N.div_lt_upper_bound; lia.
Qed.

(* ---------- splitting ---------- *)

Definition join_sep (sep : N) (x : bytes) (r : list bytes) : bytes := x ++ flat_map (fun y => sep :: y) r.

Lemma split_sep_app sep l : no_byte sep l = true ->
  forall acc r, split_sep sep acc (l ++ r) = split_sep sep (rev l ++ acc) r.
Proof.
  induction l as [|c l IH]; intros H acc r; [reflexivity|].
  rewrite no_byte_cons in H. apply andb_prop in H. destruct H as [Hc Hl].
  cbn [app split_sep]. apply negb_true_iff in Hc. rewrite Hc.
  rewrite IH by exact Hl. cbn [rev]. rewrite <- app_assoc. reflexivity.
Qed.

Lemma split_join sep r : forall x, no_byte sep x = true -> Forall (fun y => no_byte sep y = true) r ->
  split_sep sep [] (join_sep sep x r) = x :: r.
Proof.
  induction r as [|a r IH]; intros x Hx Hr; unfold join_sep; cbn [flat_map].
  - rewrite split_sep_app by exact Hx. cbn [split_sep]. rewrite app_nil_r, rev_involutive. reflexivity.
  - rewrite split_sep_app by exact Hx. cbn [app split_sep]. rewrite N.eqb_refl.
    rewrite app_nil_r, rev_involutive. f_equal.
    inversion Hr; subst. apply (IH a); assumption.
Qed.

Lemma split_first_app sep l : no_byte sep l = true ->
  forall acc r, split_first sep acc (l ++ sep :: r) = Some (rev (rev l ++ acc), r).
Proof.
  induction l as [|c l IH]; intros H acc r.
  - cbn [app split_first rev]. rewrite N.eqb_refl. reflexivity.
  - rewrite no_byte_cons in H. apply andb_prop in H. destruct H as [Hc Hl].
    cbn [app split_first]. apply negb_true_iff in Hc. rewrite Hc.
    rewrite IH by exact Hl. cbn [rev]. rewrite <- app_assoc. reflexivity.
Qed.

Lemma rsplit_app sep a b : no_byte sep b = true -> rsplit sep (a ++ sep :: b) = Some (a, b).
Proof.
  intros Hb. unfold rsplit.
  rewrite rev_app_distr. cbn [rev]. rewrite <- app_assoc. cbn [app].
  rewrite split_first_app by (apply no_byte_rev; exact Hb).
  rewrite app_nil_r, !rev_involutive. reflexivity.
Qed.

Lemma all_some_undec fs : all_some (map undec_Z (map dec_Z fs)) = Some fs.
Proof.
  induction fs as [|z r IH]; [reflexivity|]. cbn [map all_some]. rewrite undec_Z_dec, IH. reflexivity.
Qed.

Lemma render_fields_join fs : render_fields fs = flat_map (fun y => TAB :: y) (map dec_Z fs).
Proof. unfold render_fields. induction fs as [|z r IH]; [reflexivity|]. cbn [flat_map map]. rewrite IH. reflexivity. Qed.

(* ---------- timestamp ---------- *)

Lemma insert_dot_3 a x y z : insert_dot (a ++ [x; y; z]) = Ok (a ++ DOT :: [x; y; z]).
Proof.
  unfold insert_dot. rewrite app_length. cbn [length].
  destruct (Nat.ltb_spec (length a + 3) 3); [lia|].
  replace (length a + 3 - 3)%nat with (length a) by lia.
  rewrite firstn_app, skipn_app, firstn_all, skipn_all, Nat.sub_diag. cbn [firstn skipn app].
  rewrite app_nil_r. reflexivity.
Qed.

Lemma render_ts_big ms : (1000 <= ms)%Z ->
  render_ts ms = Ok (dec_N (Z.to_N ms / 1000) ++ DOT :: pad3 (Z.to_N ms mod 1000)).
Proof.
  intros H. unfold render_ts.
  assert (E : dec_Z ms = dec_N (Z.to_N ms)) by (destruct ms; try lia; reflexivity).
  rewrite E, dec_N_split1000 by lia. unfold pad3. apply insert_dot_3.
Qed.

Lemma parse_ts_big n : 1000 <= n ->
  parse_ts (dec_N (n / 1000) ++ DOT :: pad3 (n mod 1000)) = Some (Z.of_N n).
Proof.
  intros H. unfold parse_ts.
  assert (Hr : n mod 1000 < 1000) by (apply N.mod_lt; lia).
  assert (Hj : dec_N (n / 1000) ++ DOT :: pad3 (n mod 1000) = join_sep DOT (dec_N (n / 1000)) [pad3 (n mod 1000)]).
  { unfold join_sep. cbn [flat_map]. rewrite app_nil_r. reflexivity. }
  rewrite Hj, split_join.
  - change (length (pad3 (n mod 1000)) =? 3)%nat with true. cbn iota.
    rewrite undec_N_dec, undec_pad3 by exact Hr. f_equal. f_equal. lia.
  - apply dec_N_no_byte. reflexivity.
  - constructor; [|constructor]. apply num_no_byte; [reflexivity|]. apply digits_num. apply pad3_digits. exact Hr.
Qed.

(* ---------- the line ---------- *)

Definition norm (withid : bool) (s : psample) : psample :=
  if withid then s else {| ps_ms := ps_ms s; ps_tag := ps_tag s; ps_id := 0; ps_fields := ps_fields s |}.

Definition ts_bytes (ms : Z) : bytes := dec_N (Z.to_N ms / 1000) ++ DOT :: pad3 (Z.to_N ms mod 1000).

Definition line_of (withid : bool) (s : psample) : bytes :=
  join_sep TAB (ts_bytes (ps_ms s)) (render_tagid withid (ps_tag s) (ps_id s) :: map dec_Z (ps_fields s)).

Lemma sample_ok_inv s : sample_ok s = true ->
  (1000 <= ps_ms s)%Z /\ no_byte TAB (ps_tag s) = true /\ no_byte LF (ps_tag s) = true
  /\ ps_id s < 9223372036854775808 /\ length (ps_fields s) = 10%nat.
Proof.
  unfold sample_ok, tag_ok. intros H.
  apply andb_prop in H. destruct H as [H Hlen].
  apply andb_prop in H. destruct H as [H Hid].
  apply andb_prop in H. destruct H as [Hms Htag].
  apply andb_prop in Htag. destruct Htag as [Htab Hlf].
  split; [apply Z.leb_le; exact Hms|]. split; [exact Htab|]. split; [exact Hlf|].
  split; [apply N.ltb_lt; exact Hid|apply Nat.eqb_eq; exact Hlen].
Qed.

Lemma render_phout_ok withid s : (1000 <= ps_ms s)%Z -> render_phout withid s = Ok (line_of withid s).
Proof.
  intros H. unfold render_phout. rewrite render_ts_big by exact H.
  unfold line_of, join_sep, ts_bytes. cbn [flat_map]. rewrite render_fields_join. reflexivity.
Qed.

Lemma render_phout_norm withid s : render_phout withid (norm withid s) = render_phout withid s.
Proof. destruct withid; reflexivity. Qed.

Lemma ts_bytes_no_byte x ms : num_byte x = false -> (x =? DOT) = false -> no_byte x (ts_bytes ms) = true.
Proof.
  intros Hx Hd. unfold ts_bytes. rewrite no_byte_app, no_byte_cons.
  rewrite dec_N_no_byte by exact Hx. rewrite N.eqb_sym, Hd. cbn [negb andb].
  apply num_no_byte; [exact Hx|]. apply digits_num. apply pad3_digits. apply N.mod_lt. lia.
Qed.

Lemma tagid_no_byte x withid tag id : num_byte x = false -> (x =? HASH) = false -> no_byte x tag = true ->
  no_byte x (render_tagid withid tag id) = true.
Proof.
  intros Hx Hh Ht. unfold render_tagid. destruct withid; [|exact Ht].
  rewrite no_byte_app, no_byte_cons, Ht, N.eqb_sym, Hh. cbn [negb andb]. apply dec_Z_no_byte. exact Hx.
Qed.

Lemma cols_no_byte x fs : num_byte x = false -> Forall (fun y => no_byte x y = true) (map dec_Z fs).
Proof. intros Hx. induction fs; constructor; [apply dec_Z_no_byte; exact Hx|assumption]. Qed.

Lemma parse_tagid_ok withid tag id : id < 9223372036854775808 ->
  parse_tagid withid (render_tagid withid tag id) = Some (tag, if withid then id else 0).
Proof.
  intros Hid. unfold parse_tagid, render_tagid. destruct withid; [|reflexivity].
  unfold int64_of_uint64. destruct (N.ltb_spec id 9223372036854775808); [|lia].
  assert (E : dec_Z (Z.of_N id) = dec_N id) by (destruct id; reflexivity).
  rewrite E, rsplit_app by (apply dec_N_no_byte; reflexivity).
  rewrite undec_N_dec. reflexivity.
Qed.

Lemma parse_line_of withid s : sample_ok s = true -> parse_phout withid (line_of withid s) = Some (norm withid s).
Proof.
  intros Hok. destruct (sample_ok_inv s Hok) as (Hms & Htab & Hlf & Hid & Hlen).
  unfold parse_phout, line_of.
  rewrite split_join.
  - rewrite map_length, Hlen. change (10 =? 10)%nat with true. cbn iota.
    unfold ts_bytes. rewrite parse_ts_big by lia. rewrite parse_tagid_ok by exact Hid. rewrite all_some_undec.
    rewrite Z2N.id by lia.
    assert (En : {| ps_ms := ps_ms s; ps_tag := ps_tag s; ps_id := if withid then ps_id s else 0; ps_fields := ps_fields s |} = norm withid s)
      by (destruct withid, s; reflexivity).
    rewrite En, render_phout_norm, render_phout_ok by exact Hms.
    unfold out_eqb, line_of, ts_bytes. rewrite bytes_eqb_refl. reflexivity.
  - apply ts_bytes_no_byte; reflexivity.
  - constructor; [apply tagid_no_byte; [reflexivity|reflexivity|exact Htab]|apply cols_no_byte; reflexivity].
Qed.

Lemma flat_map_no_byte x (ls : list bytes) : Forall (fun y => no_byte x y = true) ls -> (x =? TAB) = false ->
  no_byte x (flat_map (fun y => TAB :: y) ls) = true.
Proof.
  intros H Hx. induction H as [|y r Hy Hr IH]; [reflexivity|].
  cbn [flat_map app]. rewrite no_byte_cons, no_byte_app, Hy, IH, N.eqb_sym, Hx. reflexivity.
Qed.

Lemma line_of_no_lf withid s : no_byte LF (ps_tag s) = true -> no_byte LF (line_of withid s) = true.
Proof.
  intros Hlf. unfold line_of, join_sep. rewrite no_byte_app.
  rewrite ts_bytes_no_byte by reflexivity. cbn [andb].
  apply flat_map_no_byte; [|reflexivity].
  constructor; [apply tagid_no_byte; [reflexivity|reflexivity|exact Hlf]|apply cols_no_byte; reflexivity].
Qed.

(* C06_line_roundtrip *)
Lemma line_roundtrip withid s : sample_ok s = true ->
  render_phout withid s = Ok (line_of withid s)
  /\ parse_phout withid (line_of withid s) = Some (norm withid s)
  /\ no_byte LF (line_of withid s) = true.
Proof.
  intros Hok. destruct (sample_ok_inv s Hok) as (Hms & Htab & Hlf & Hid & Hlen).
  split; [apply render_phout_ok; exact Hms|]. split; [apply parse_line_of; exact Hok|apply line_of_no_lf; exact Hlf].
Qed.

(* A parsed line is the rendering of the parsed sample: the parser accepts nothing else. *)
Lemma parse_phout_sound withid line s : parse_phout withid line = Some s -> render_phout withid s = Ok line.
Proof.
  unfold parse_phout. destruct (split_sep TAB [] line) as [|ts [|tagid cols]]; try discriminate.
  destruct (length cols =? 10)%nat; [|discriminate].
  destruct (parse_ts ts) as [ms|]; [|discriminate].
  destruct (parse_tagid withid tagid) as [[tag id]|]; [|discriminate].
  destruct (all_some (map undec_Z cols)) as [fs|]; [|discriminate].
  set (s0 := {| ps_ms := ms; ps_tag := tag; ps_id := id; ps_fields := fs |}).
  destruct (render_phout withid s0) as [b|] eqn:E; cbn [out_eqb]; [|discriminate].
  destruct (bytes_eqb b line) eqn:Eb; [|discriminate].
  intros H; injection H as <-. rewrite E. f_equal. apply bytes_eqb_eq. exact Eb.
Qed.

(* ---------- timestamps outside the guard ---------- *)

Lemma small_ts_panics withid s : (0 <= ps_ms s < 100)%Z -> render_phout withid s = Panic.
Proof.
  intros H. unfold render_phout, render_ts, insert_dot.
  assert (E : dec_Z (ps_ms s) = dec_N (Z.to_N (ps_ms s))) by (destruct (ps_ms s); try lia; reflexivity).
  rewrite E. pose proof (dec_N_length_lt3 (Z.to_N (ps_ms s)) ltac:(lia)) as L.
  destruct (Nat.ltb_spec (length (dec_N (Z.to_N (ps_ms s)))) 3); [reflexivity|lia].
Qed.

Lemma three_digit_ts ms : (100 <= ms < 1000)%Z -> render_ts ms = Ok (DOT :: dec_Z ms).
Proof.
  intros H. unfold render_ts, insert_dot.
  assert (E : dec_Z ms = dec_N (Z.to_N ms)) by (destruct ms; try lia; reflexivity).
  rewrite E. set (n := Z.to_N ms). assert (Hn : 100 <= n < 1000) by lia.
  assert (L : length (dec_N n) = 3%nat).
  { rewrite (dec_N_big n) by lia. rewrite (dec_N_big (n / 10)) by (apply N.div_le_lower_bound; lia).
    rewrite (dec_N_small (n / 10 / 10)) by (apply N.div_lt_upper_bound; [lia|]; apply N.div_lt_upper_bound; lia).
    reflexivity. }
  rewrite L. cbn [Nat.ltb Nat.leb Nat.sub firstn skipn app]. reflexivity.
Qed.

(* id >= 2^63: the int64 conversion wraps, the line carries a negative id *)
Lemma big_id_wraps tag id : 9223372036854775808 <= id ->
  render_tagid true tag id = tag ++ HASH :: dec_Z (Z.of_N id - 18446744073709551616).
Proof.
  intros H. unfold render_tagid, int64_of_uint64. destruct (N.ltb_spec id 9223372036854775808); [lia|reflexivity].
Qed.

(* ---------- files ---------- *)

Lemma split_lines_app l : no_byte LF l = true -> forall acc rest,
  split_lines acc (l ++ LF :: rest) =
  match split_lines [] rest with Some ls => Some (rev (rev l ++ acc) :: ls) | None => None end.
Proof.
  induction l as [|c l IH]; intros H acc rest.
  - cbn [app split_lines rev]. rewrite N.eqb_refl. reflexivity.
  - rewrite no_byte_cons in H. apply andb_prop in H. destruct H as [Hc Hl].
    cbn [app split_lines]. apply negb_true_iff in Hc. rewrite Hc.
    rewrite IH by exact Hl. cbn [rev]. rewrite <- app_assoc. reflexivity.
Qed.

Lemma file_roundtrip withid ss : forallb sample_ok ss = true ->
  exists file, render_file withid ss = Some file /\ parse_file withid file = Some (map (norm withid) ss).
Proof.
  induction ss as [|s r IH]; intros H.
  - exists []. split; reflexivity.
  - cbn [forallb] in H. apply andb_prop in H. destruct H as [Hs Hr].
    destruct (IH Hr) as (rest & Er & Ep).
    destruct (line_roundtrip withid s Hs) as (E1 & E2 & E3).
    exists (line_of withid s ++ LF :: rest). split.
    + cbn [render_file]. rewrite E1, Er. reflexivity.
    + unfold parse_file in *. rewrite split_lines_app by exact E3.
      destruct (split_lines [] rest) as [ls|]; [|discriminate].
      rewrite app_nil_r, rev_involutive. cbn [map all_some]. rewrite E2, Ep. reflexivity.
Qed.

(* ---------- documented column order ---------- *)

Lemma fields_array_documented v : fields_array v = documented_columns v.
Proof. destruct v. reflexivity. Qed.
