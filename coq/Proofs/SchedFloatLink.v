(* Property C01, floating-point side: the float64 evaluation of const.go against the exact
   model of Model/Sched.v ([const_at], [const_n], [cum_const], [count_ok] of the executable
   specification).  The configured rate is the rational q of the model; the code computes with
   a float64 [ops] that is q up to one rounding ([near (Q2R q) ops]). *)
From Coq Require Import ZArith QArith Qround Qreals Reals Lra Lia Psatz.
From Flocq Require Import Core.
From PV Require Import Model.Sched Proofs.SchedQ Proofs.SchedProofs
  Proofs.SchedFloatCore Proofs.SchedFloatRel Proofs.SchedFloatConst.
Local Open Scope R_scope.

Lemma Zfloor_Q2R q : Zfloor (Q2R q) = Qfloor q.
Proof.
  destruct q as [n d]. unfold Q2R, Qfloor. cbn [Qnum Qden].
  change (IZR n * / IZR (Z.pos d)) with (IZR n / IZR (Z.pos d)).
  apply Zfloor_div. lia.
Qed.

Lemma Q2R_qz z : Q2R (qz z) = IZR z.
Proof. unfold qz, Q2R, inject_Z. cbn. field. Qed.

Lemma Q2R_nonneg q : (0 <= q)%Q -> 0 <= Q2R q.
Proof. intros H. apply Qle_Rle in H. rewrite RMicromega.Q2R_0 in H. exact H. Qed.

Lemma Q2R_pos q : (0 < q)%Q -> 0 < Q2R q.
Proof. intros H. apply Qlt_Rlt in H. rewrite RMicromega.Q2R_0 in H. exact H. Qed.

Lemma Q2R_cum_const q x : Q2R (cum_const q x) = Q2R q * IZR x / billion.
Proof.
  unfold cum_const. unfold Qdiv. rewrite !Q2R_mult, Q2R_inv, !Q2R_qz.
  - unfold ns_per_s, billion. field.
  - apply qz_nonzero. unfold ns_per_s. lia.
Qed.

(* the model's integer formulas are the floors of the real-number expressions *)
Lemma const_n_floor q D : (0 <= q)%Q -> (0 <= D)%Z -> const_n q D = Zfloor (Q2R q * IZR D / billion).
Proof.
  intros Hq HD. rewrite const_n_spec by assumption. rewrite <- Zfloor_Q2R, Q2R_cum_const. reflexivity.
Qed.

Lemma const_at_floor q k : (0 < q)%Q -> (0 <= k)%Z -> const_at q k = Zfloor (IZR k * billion / Q2R q).
Proof.
  intros Hq Hk. destruct q as [a b].
  assert (Ha : (0 < a)%Z) by (unfold Qlt in Hq; cbn in Hq; lia).
  rewrite const_at_z by assumption.
  rewrite <- (Zfloor_div (k * ns_per_s * Z.pos b) a) by lia. f_equal.
  unfold Q2R. cbn [Qnum Qden]. rewrite !mult_IZR. unfold ns_per_s, billion.
  assert (IZR a <> 0) by (apply not_0_IZR; lia).
  assert (IZR (Z.pos b) <> 0) by (apply not_0_IZR; lia).
  field. split; assumption.
Qed.

(* constDoAt in float64 against the model: for every operation k of the exact schedule the
   float64 nanosecond is within the driver's tolerance 1 + D/2^40 of the model's, and the
   converted value fits int64 *)
Theorem float_const_at_model q ops D k :
  valid (PConst q D) -> near (Q2R q) ops -> rate_guard ops ->
  (D <= 2 ^ 62)%Z -> (0 <= k < count (PConst q D))%Z -> (k < 2 ^ 53)%Z ->
  (Z.abs (go_const_at ops k - const_at q k) <= 1 + D / 2 ^ 40)%Z /\
  (0 <= go_const_at ops k < 2 ^ 63)%Z.
Proof.
  intros Hv Hn Hg HD Hk Hk53.
  assert (Ho : 0 < ops) by (destruct Hg as [Hg _]; unfold p2_20 in Hg; lra).
  pose proof (near_pos _ _ Ho Hn) as Hr.
  assert (Hq : (0 < q)%Q).
  { destruct (Qlt_le_dec 0 q) as [H|H]; [exact H|]. apply Qle_Rle in H. rewrite RMicromega.Q2R_0 in H. lra. }
  destruct (at_bracket (PConst q D) k Hv eq_refl Hk) as (x & Hat & Hx0 & Hx1 & _).
  unfold at_, the_leaf, leaf_const in Hat. cbn [l_at] in Hat.
  destruct Hv as [Hq0 HDm]. rewrite clamp0_nonneg in Hat by exact Hq0. injection Hat as Hat.
  cbn [dur the_leaf leaf_const l_dur] in Hx1.
  rewrite const_at_floor in * by (try exact Hq; lia).
  apply const_at_tol; try assumption; [lia|].
  (* X < floor X + 1 <= D *)
  set (X := IZR k * billion / Q2R q) in *.
  pose proof (Zfloor_ub X) as Hub. rewrite Hat in Hub.
  apply Rlt_le. apply Rlt_le_trans with (IZR x + 1); [exact Hub|].
  rewrite <- plus_IZR. apply IZR_le. exact Hx1.
Qed.

(* NewConst in float64 against the executable specification: the float64 count passes the
   count check of spec_b with the driver's relative tolerance 2^-40 on the integral *)
Theorem float_const_count_ok q ops D :
  valid (PConst q D) -> near (Q2R q) ops -> ops = 0 \/ rate_guard ops -> (D < 2 ^ 63)%Z ->
  count_ok (cum_const q D) (1 # 1099511627776) (go_const_n ops D) = true.
Proof.
  intros [Hq HDm] Hn Hg HD. unfold min_dur in HDm.
  destruct (const_n_err (Q2R q) ops D Hn Hg) as ([H1 H2] & _); [lia|].
  set (I := Q2R q * IZR D / billion) in *.
  assert (HI : 0 <= I).
  { unfold I, Rdiv, billion. apply Rmult_le_pos; [apply Rmult_le_pos; [apply Q2R_nonneg; exact Hq|apply IZR_le; lia]|lra]. }
  assert (Heps : bpow radix2 (-50) = / 1125899906842624) by (simpl bpow; reflexivity).
  rewrite Heps in *.
  unfold count_ok. apply andb_true_intro. split; apply Z.leb_le.
  - rewrite <- Zfloor_Q2R, Q2R_mult, Q2R_minus, Q2R_cum_const. fold I.
    apply Z.le_trans with (Zfloor (I * (1 - / 1125899906842624))); [|exact H1].
    apply Zfloor_le. unfold Q2R. cbn. nra.
  - rewrite <- Zfloor_Q2R, Q2R_mult, Q2R_plus, Q2R_cum_const. fold I.
    apply Z.le_trans with (Zfloor (I * (1 + / 1125899906842624))); [exact H2|].
    apply Zfloor_le. unfold Q2R. cbn. nra.
Qed.

(* the float64 count equals the model's count unless the exact integral is within relative
   2^-50 of an integer *)
Theorem float_const_count_model q ops D :
  valid (PConst q D) -> near (Q2R q) ops -> ops = 0 \/ rate_guard ops -> (D < 2 ^ 63)%Z ->
  let I := Q2R (cum_const q D) in
  (go_const_n ops D <> count (PConst q D) -> exists m : Z, Rabs (IZR m - I) <= I * bpow radix2 (-50)) /\
  (I <= bpow radix2 62 -> (0 <= go_const_n ops D < 2 ^ 63)%Z).
Proof.
  intros [Hq HDm] Hn Hg HD I. unfold min_dur in HDm.
  destruct (const_n_err (Q2R q) ops D Hn Hg) as (_ & H2 & H3); [lia|].
  unfold I. rewrite Q2R_cum_const.
  unfold count, the_leaf, leaf_const. cbn [l_n]. rewrite clamp0_nonneg by exact Hq.
  rewrite const_n_floor by (try exact Hq; lia). split; assumption.
Qed.

(* ------------------------------------------------------------------------------------ *)
(* a rate given by a decimal / a quotient, rounded once to float64, is inside the guard *)
Lemma rate_guard_rnd r : rate_guard r -> rate_guard (rnd r).
Proof.
  unfold rate_guard, p2_20, p2_40. intros [H1 H2]. split.
  - replace (/ 1048576) with (rnd (bpow radix2 (-20))).
    + apply rnd_le. simpl bpow. exact H1.
    + rewrite rnd_id; [simpl bpow; reflexivity|].
      apply generic_format_bpow. unfold b64_exp, FLT_exp, b64_emin, b64_prec. lia.
  - replace 1099511627776 with (rnd (bpow radix2 40)).
    + apply rnd_le. simpl bpow. exact H2.
    + rewrite rnd_id; [simpl bpow; reflexivity|].
      apply generic_format_bpow. unfold b64_exp, FLT_exp, b64_emin, b64_prec. lia.
Qed.

Lemma near_rnd_guard r : rate_guard r -> near r (rnd r).
Proof.
  intros [H _]. apply near_rnd. pose proof tiny_le_2m100. unfold p2_20 in H. lra.
Qed.

(* non-vacuity, concrete profile: 0.3 requests per second for 7.001 s.  0.3 is not a binary64
   number; the code computes with ops = rnd(3/10).  Exact schedule: 2 operations, at 0 and
   3 333 333 333 ns.  The float64 evaluation yields exactly 2 operations, the second one within
   1 ns (= 1 + 7001000000/2^40) of 3 333 333 333. *)
Example float_const_example :
  let q := (3 # 10)%Q in let D := 7001000000%Z in let ops := rnd (3 / 10) in
  valid (PConst q D) /\ near (Q2R q) ops /\ rate_guard ops /\
  count (PConst q D) = 2%Z /\ const_at q 1 = 3333333333%Z /\
  go_const_n ops D = 2%Z /\
  (Z.abs (go_const_at ops 1 - 3333333333) <= 1)%Z.
Proof.
  intros q D ops.
  assert (Hv : valid (PConst q D)) by (split; [unfold Qle; cbn; lia|unfold min_dur, D; lia]).
  assert (Eq : Q2R q = 3 / 10) by (unfold q, Q2R; cbn; lra).
  assert (Hg0 : rate_guard (3 / 10)) by (unfold rate_guard, p2_20, p2_40; lra).
  assert (Hn : near (Q2R q) ops) by (rewrite Eq; apply near_rnd_guard; exact Hg0).
  assert (Hg : rate_guard ops) by (apply rate_guard_rnd; exact Hg0).
  assert (Hc : count (PConst q D) = 2%Z) by (vm_compute; reflexivity).
  assert (Ha : const_at q 1 = 3333333333%Z) by (vm_compute; reflexivity).
  split; [exact Hv|]. split; [exact Hn|]. split; [exact Hg|]. split; [exact Hc|]. split; [exact Ha|].
  split.
  - destruct (float_const_count_model q ops D Hv Hn (or_intror Hg)) as [H _]; [unfold D; lia|].
    destruct (Z.eq_dec (go_const_n ops D) 2) as [E|NE]; [exact E|exfalso].
    rewrite Hc in H. destruct (H NE) as (m & Hm). rewrite Q2R_cum_const, Eq in Hm.
    unfold D, billion in Hm. simpl bpow in Hm. apply Rabs_le_inv in Hm.
    (* I = 2.1003: no integer within 2.1003 * 2^-50 of it *)
    destruct (Z_lt_le_dec m 3) as [Hlt|Hge].
    + assert (IZR m <= 2) by (apply IZR_le; lia). lra.
    + assert (3 <= IZR m) by (apply IZR_le; lia). lra.
  - destruct (float_const_at_model q ops D 1 Hv Hn Hg) as [H _]; [unfold D; lia|rewrite Hc; lia|lia|].
    rewrite Ha in H. replace (D / 2 ^ 40)%Z with 0%Z in H by (vm_compute; reflexivity). exact H.
Qed.
