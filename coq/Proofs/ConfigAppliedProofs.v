(* C17, round 6: lemmas about the options applied to a component (Model/ConfigApplied.v). *)
From Coq Require Import List NArith ZArith Bool QArith Lia.
From PV Require Import Model.ConfigDecode Model.ConfigApplied Proofs.ConfigDecodeProofs.
Import ListNotations.
Local Open Scope N_scope.

Lemma field_index_nth : forall k ffs i, field_index k ffs = Some i ->
  exists f, nth_error ffs i = Some f /\ f_key f = k.
Proof.
  induction ffs as [|f0 ffs IH]; intros i H; cbn in H; [discriminate|].
  destruct (str_eqb (f_key f0) k) eqn:E.
  - inversion H; subst. exists f0. split; [reflexivity|]. apply str_eqb_eq. exact E.
  - destruct (field_index k ffs) as [j|] eqn:Ej; cbn in H; [|discriminate]. inversion H; subst.
    destruct (IH j eq_refl) as [f [Hf Hk]]. exists f. split; assumption.
Qed.

Section Applied.
Variable env : str -> option str.
Variable prop : str -> str -> option str.
Variable orc : okind -> str -> option Z.
Variable orcq : str -> option Q.
Variable reg : list entry.
Variable lz : bool.
Notation D := (decode env prop orc orcq reg lz).

(* one struct level: the decoded field is the current one when its key is not written, else the decoding of what is
   written onto the current one *)
Lemma struct_level : forall F s cs kvs c k i f c0,
  D F s (CStruct cs) (VMap kvs) = Ok c ->
  field_index k (flat_fields s) = Some i -> nth_error (flat_fields s) i = Some f -> nth_error cs i = Some c0 ->
  exists F' rs r, F = S F' /\ c = CStruct rs /\ nth_error rs i = Some r /\
    match find_key k kvs with
    | None => r = c0
    | Some (_, x) => D F' (f_schema f) c0 x = Ok r
    end.
Proof.
  intros F s cs kvs c k i f c0 H Hi Hf Hc.
  destruct (field_index_nth _ _ _ Hi) as [f' [Hf' Hk]]. rewrite Hf in Hf'. inversion Hf'; subst f'.
  assert (Hs : exists nl fs, s = SStruct nl fs).
  { destruct s; cbn in Hf; try (destruct i; discriminate). eauto. }
  destruct Hs as [nl [fs ->]].
  destruct F as [|F']; [cbn in H; discriminate|].
  rewrite D_struct in H.
  destruct (dec_struct_ok _ _ _ _ _ H) as [rs [-> Hd]].
  destruct (dec_fields_nth _ _ _ _ _ _ _ Hd Hf) as [r [Hr Hx]].
  exists F', rs, r. split; [reflexivity|]. split; [reflexivity|]. split; [exact Hr|].
  rewrite Hk in Hx. unfold cur_at, struct_cur in Hx. rewrite Hc in Hx. exact Hx.
Qed.

(* an option the section does not write keeps the value it has in the config the section is decoded onto *)
Theorem opt_unwritten_kept : forall p F s d v c s' d',
  D F s d v = Ok c -> unwritten_path p v = true -> opt_at p s d = Some (s', d') -> opt_at p s c = Some (s', d').
Proof.
  induction p as [|k p IH]; intros F s d v c s' d' H Hu Ho.
  - destruct v; cbn in Hu; try discriminate. apply D_null in H. subst. exact Ho.
  - destruct v; cbn [unwritten_path] in Hu; try discriminate.
    + apply D_null in H. subst. exact Ho.
    + cbn [opt_at] in Ho. destruct d as [| | | | |cs| | | |]; try discriminate.
      destruct (field_index k (flat_fields s)) as [i|] eqn:Hi; [|discriminate].
      destruct (nth_error (flat_fields s) i) as [f|] eqn:Hf; [|discriminate].
      destruct (nth_error cs i) as [c0|] eqn:Hc; [|discriminate].
      destruct (struct_level _ _ _ _ _ _ _ _ _ H Hi Hf Hc) as [F' [rs [r [-> [-> [Hr Hx]]]]]].
      cbn [opt_at]. rewrite Hi, Hf, Hr.
      destruct (find_key k kvs) as [[k' x]|].
      * eapply IH; eauto.
      * subst. exact Ho.
Qed.

(* an option the section writes is the decoding of what is written onto the value it had *)
Theorem opt_written_decoded : forall p F s d v c s' d' x,
  D F s d v = Ok c -> written_path p v = Some x -> opt_at p s d = Some (s', d') ->
  exists F' c', opt_at p s c = Some (s', c') /\ D F' s' d' x = Ok c'.
Proof.
  induction p as [|k p IH]; intros F s d v c s' d' x H Hw Ho.
  - cbn in Hw, Ho. inversion Hw; inversion Ho; subst. exists F, c. split; [reflexivity|exact H].
  - cbn [written_path] in Hw. destruct v; try discriminate.
    cbn [opt_at] in Ho. destruct d as [| | | | |cs| | | |]; try discriminate.
    destruct (field_index k (flat_fields s)) as [i|] eqn:Hi; [|discriminate].
    destruct (nth_error (flat_fields s) i) as [f|] eqn:Hf; [|discriminate].
    destruct (nth_error cs i) as [c0|] eqn:Hc; [|discriminate].
    destruct (struct_level _ _ _ _ _ _ _ _ _ H Hi Hf Hc) as [F' [rs [r [-> [-> [Hr Hx]]]]]].
    destruct (find_key k kvs) as [[k' x1]|]; [|discriminate].
    destruct (IH _ _ _ _ _ _ _ _ Hx Hw Ho) as [F'' [c' [Hc' Hd]]].
    exists F'', c'. split; [|exact Hd]. cbn [opt_at]. rewrite Hi, Hf, Hr. exact Hc'.
Qed.

(* what is handed on by a rule is the component's own option *)
Lemma forwarded_in : forall rules s c dst src,
  In (dst, src) rules -> In (dst, option_map snd (opt_at src s c)) (forwarded rules s c).
Proof.
  intros rules s c dst src H. unfold forwarded.
  apply (in_map (fun r => (fst r, option_map snd (opt_at (snd r) s c)))) in H. exact H.
Qed.

Lemma path_eqb_eq : forall a b, path_eqb a b = true -> a = b.
Proof.
  induction a as [|x a IH]; destruct b as [|y b]; cbn; intro H; try discriminate; [reflexivity|].
  apply andb_true_iff in H. destruct H as [H1 H2]. apply str_eqb_eq in H1. subst. f_equal. apply IH. exact H2.
Qed.

Lemma path_eqb_refl : forall a, path_eqb a a = true.
Proof. induction a as [|x a IH]; cbn; [reflexivity|]. rewrite str_eqb_refl. exact IH. Qed.

Lemma path_mem_in : forall p l, In p l -> path_mem p l = true.
Proof.
  induction l as [|q l IH]; cbn; intro H; [contradiction|]. destruct H as [->|H].
  - rewrite path_eqb_refl. reflexivity.
  - rewrite (IH H). apply orb_true_r.
Qed.

(* with distinct destinations the held configuration is a function of the destination *)
Theorem forwarded_functional : forall rules s c dst a b,
  paths_nodup (map fst rules) = true ->
  In (dst, a) (forwarded rules s c) -> In (dst, b) (forwarded rules s c) -> a = b.
Proof.
  induction rules as [|r rules IH]; intros s c dst a b Hn Ha Hb; [contradiction|].
  cbn [map paths_nodup] in Hn. apply andb_true_iff in Hn. destruct Hn as [Hn1 Hn2].
  assert (Hfst : forall x, In (dst, x) (forwarded rules s c) -> In dst (map fst rules)).
  { intros x Hx. unfold forwarded in Hx. apply in_map_iff in Hx. destruct Hx as [r0 [Hr0 Hin]].
    inversion Hr0; subst. apply in_map. exact Hin. }
  cbn in Ha, Hb. destruct Ha as [Ha|Ha]; destruct Hb as [Hb|Hb].
  - inversion Ha; inversion Hb; subst. reflexivity.
  - inversion Ha; subst. apply Hfst in Hb. apply path_mem_in in Hb. rewrite Hb in Hn1. discriminate.
  - inversion Hb; subst. apply Hfst in Ha. apply path_mem_in in Ha. rewrite Ha in Hn1. discriminate.
  - eapply IH; eauto.
Qed.

(* The component level: a section decoded by the plugin hook (parseConf: onto the REGISTERED default, then validate,
   then the constructor).  Every option a rule hands on arrives as written -- the decoding of what the section writes
   at the rule's source onto the registered default there -- and an option the section does not write arrives as the
   registered default. *)
Theorem applied_plugin : forall F iface fk cur kvs r e cs d rules,
  D (S F) (SPlugin iface fk) cur (VMap kvs) = Ok r ->
  plugin_entry reg iface kvs = Some e -> e_conf e = Some (cs, d) -> entry_lazy lz fk e = false ->
  exists name c, r = CPlugin name false c /\ validate orc c cs = true /\ ctor_ok cs c = true /\
    forall dst src s' d', In (dst, src) rules -> opt_at src cs d = Some (s', d') ->
      let sec := VMap (filter (fun kv => negb (is_type_key kv)) kvs) in
      (unwritten_path src sec = true -> In (dst, Some d') (forwarded rules cs c))
      /\ (forall x, written_path src sec = Some x ->
            exists F' c', In (dst, Some c') (forwarded rules cs c) /\ D F' s' d' x = Ok c').
Proof.
  intros F iface fk cur kvs r e cs d rules H Hp Hc Hl. rewrite D_plugin in H. unfold dec_plugin in H.
  destruct (plugin_entry_inv _ _ _ _ Hp) as [k1 [name [H1 H2]]]. rewrite H1, H2, Hc in H.
  unfold entry_lazy in Hl. rewrite Hl in H.
  destruct (D F cs d (VMap (filter (fun kv => negb (is_type_key kv)) kvs))) as [c| |] eqn:E; try discriminate.
  destruct (validate orc c cs) eqn:Hv; try discriminate.
  destruct (ctor_ok cs c) eqn:Hct; try discriminate. inversion H; subst.
  exists name, c. split; [reflexivity|]. split; [exact Hv|]. split; [exact Hct|].
  intros dst src s' d' Hin Ho sec. split.
  - intro Hu. pose proof (opt_unwritten_kept _ _ _ _ _ _ _ _ E Hu Ho) as Hk.
    pose proof (forwarded_in rules cs c dst src Hin) as Hf. rewrite Hk in Hf. exact Hf.
  - intros x Hw. destruct (opt_written_decoded _ _ _ _ _ _ _ _ _ E Hw Ho) as [F' [c' [Hk Hd]]].
    exists F', c'. split; [|exact Hd].
    pose proof (forwarded_in rules cs c dst src Hin) as Hf. rewrite Hk in Hf. exact Hf.
Qed.

End Applied.
