(* Link L2/L3 under concurrent instances: forward simulation from the joint system of
   Proofs/LinkConcSys.v (C03 instance sections x nested schedule sections) to the atomic-stream
   engine of Proofs/LinkEngine.v.

   Ghost: a state G of the atomic-stream engine.  It takes its whole Check / Wait section in the
   joint step in which the schedule operation RETURNS (the linearisation point found by the
   C02_conc_nested proof: nsec_S / nsec_F give the answer as abs_left / abs_next of the stream at
   that step); the later "consume" section of the instance is a stutter; every non-schedule
   section is the same section of G.  The relation [Jrel]: the shared C03 state (counters, log)
   is IDENTICAL; an instance with an unconsumed answer differs from its ghost only in
   instance-local state (pc, Waiter), by exactly [consume_inst] / [consume_aux].  That is the
   commutation argument: schedule steps touch the tree, the schedule pcs and the schedule's two
   accounting fields; non-schedule sections touch the instance and the provider/counter fields;
   neither reads what the other writes.

   Start instant: the engine never calls Start, the tree starts itself at the first Next.  The
   atomic engine is parameterised by the start instant p0 from the beginning (cinit c fl p0).
   Until the tree is started the ghost is therefore kept for EVERY p0 at once ([greach false]:
   the same trace from cinit p, for all p; before the start no section depends on p because a
   finite stream answers Left() by its length); the step that starts the tree picks p0 = its clock. *)
From Coq Require Import List ZArith Bool Arith Lia.
From PV Require Import Model.SchedTree Model.SchedConc Model.SchedNested
  Proofs.SchedTreeProofs Proofs.SchedTreeSeq Proofs.SchedTreeRun Proofs.SchedTreeSpec
  Proofs.SchedConcSections Proofs.SchedConcProofs Proofs.SchedNestedSections Proofs.SchedNestedSteps
  Proofs.SchedNestedProofs.
From PV Require Import Model.Waiter Proofs.WaiterProofs.
From PV Require Import Model.Instance Proofs.InstanceProofs Proofs.LinkEngine Proofs.LinkConcSys.
Import ListNotations.

(* ---------------------------------------------------------------- the sections of the atomic engine, computed *)
Lemma cstep_check c i w ts x :
  nth_error (insts (t_s ts)) i = Some x -> pc x = Check -> per_inst c = false ->
  cstep_inst c i w ts =
  Some (mkT (mkSt (sh (t_s ts))
                  (Instance.upd (insts (t_s ts)) i (set_pc x (if (abs_left (w_clock w) (t_its ts) =? 0)%Z then Done else Acq)))
                  (start_open (t_s ts)))
            (t_its ts) (t_fin ts) (t_aux ts) (t_shots ts)).
Proof.
  intros Ex Epc Hper. unfold cstep_inst. rewrite Ex. cbv zeta. rewrite Hper. unfold comp_local. rewrite Epc. reflexivity.
Qed.

Lemma cstep_wait c i w ts x a its' t ok :
  nth_error (insts (t_s ts)) i = Some x -> pc x = Wait a -> per_inst c = false ->
  abs_next (w_clock w) (t_fin ts) (t_its ts) = (its', t, ok) ->
  world_ok (ax_w (t_aux ts i)) w (if ok then Some t else None) = true ->
  cstep_inst c i w ts =
  Some (mkT (mkSt (tally ok (sh (t_s ts)))
                  (Instance.upd (insts (t_s ts)) i (set_pc x (if ok then Dec a else Rel a)))
                  (start_open (t_s ts)))
            its' (t_fin ts) (set_aux (t_aux ts) i (consume_aux (t_aux ts i) (SRN t ok w))) (t_shots ts)).
Proof.
  intros Ex Epc Hper AN Hw. unfold cstep_inst. rewrite Ex. cbv zeta. rewrite Hper, AN. cbn [fst snd].
  unfold comp_local. rewrite Epc. rewrite Hw. unfold consume_aux. cbv zeta.
  destruct ok; unfold draw, waste, tally; rewrite ?Hper; reflexivity.
Qed.

Lemma cstep_other c i w ts x :
  nth_error (insts (t_s ts)) i = Some x -> sched_op (pc x) = None ->
  cstep_inst c i w ts =
  match local_step c i (is_slow_down (ax_w (t_aux ts i))) (sh (t_s ts)) x with
  | Some (sh', x') =>
      Some (mkT (mkSt sh' (Instance.upd (insts (t_s ts)) i x') (start_open (t_s ts))) (t_its ts) (t_fin ts) (t_aux ts)
                (match pc x with
                 | Dec a => mkshot i a (ax_pend (t_aux ts i))
                                   (decide (discard_overflow c) (is_slow_down (ax_w (t_aux ts i)))) :: t_shots ts
                 | _ => t_shots ts
                 end))
  | None => None
  end.
Proof.
  intros Ex Eo. unfold cstep_inst. rewrite Ex. cbv zeta. unfold comp_local.
  destruct (pc x) eqn:Epc; try discriminate;
    destruct (local_step c i _ (sh (t_s ts)) x) as [[sh' x']|]; reflexivity.
Qed.

Lemma crun_app c fl l1 : forall l2 ts,
  crun c fl (l1 ++ l2) ts = match crun c fl l1 ts with Some t => crun c fl l2 t | None => None end.
Proof.
  induction l1 as [|a r IH]; intros l2 ts; cbn [app crun]; [reflexivity|].
  destruct (capply c fl a ts); [apply IH|reflexivity].
Qed.

Lemma upd_same {A} (l : list A) x : forall i, nth_error l i = Some x -> Instance.upd l i x = l.
Proof.
  induction l as [|y r IH]; intros [|i] H; cbn in *; try discriminate.
  - inversion H; reflexivity.
  - f_equal. apply IH. exact H.
Qed.

Lemma upd_length {A} (l : list A) x : forall i, length (Instance.upd l i x) = length l.
Proof. induction l as [|y r IH]; intros [|i]; cbn; auto. Qed.

Lemma nth_error_ext_eq {A} : forall (l1 l2 : list A), length l1 = length l2 ->
  (forall i x, nth_error l1 i = Some x -> nth_error l2 i = Some x) -> l1 = l2.
Proof.
  induction l1 as [|a r IH]; intros [|b q] L H; cbn in L; try discriminate; [reflexivity|].
  f_equal.
  - specialize (H 0 a eq_refl). cbn in H. inversion H; reflexivity.
  - apply IH; [lia|]. intros i x Hx. apply (H (S i) x Hx).
Qed.

Lemma Z_nat_eqb0 z : (0 <= z)%Z -> (z =? 0)%Z = (Z.to_nat z =? 0).
Proof.
  intros H. destruct (Z.eqb_spec z 0) as [->|N]; [reflexivity|].
  symmetry. apply Nat.eqb_neq. lia.
Qed.

Definition w_dummy (now : Z) : world :=
  mkWorld now 0 {| c_ctx_done := false; c_tok := None; c_now := 0; c_cancel_in_sleep := false; c_wake := 0 |}.

Section Sim.
  Variable c : cfg.
  Variable fl : list sched.
  Variable fuel : nat.
  Hypothesis Hper : per_inst c = false.
  Hypothesis Hok : sched_cfg_ok c fl.

  (* ---------------------------------------------------------------- the ghost *)
  Definition rebase (p : Z) (G : tstate) : tstate :=
    mkT (t_s G) (fst (items_from p fl)) (snd (items_from p fl)) (t_aux G) (t_shots G).

  Definition gsel (st : bool) (p : Z) (G : tstate) : tstate := if st then G else rebase p G.

  (* G is a reachable state of the atomic-stream engine; before the tree is started, for every
     start instant *)
  Definition greach (st : bool) (G : tstate) : Prop :=
    exists l, if st then exists p0, crun c fl l (cinit c fl p0) = Some G
              else forall p, crun c fl l (cinit c fl p) = Some (rebase p G).

  Lemma greach_init : greach false (cinit c fl 0).
  Proof. exists []. intros p. reflexivity. Qed.

  Lemma greach_step st G G' a :
    greach st G -> (forall p, capply c fl a (gsel st p G) = Some (gsel st p G')) -> greach st G'.
  Proof.
    intros [l H] Ha. exists (l ++ [a]). destruct st; cbn [gsel] in Ha.
    - destruct H as [p0 H]. exists p0. rewrite crun_app, H. cbn [crun]. rewrite (Ha 0%Z). reflexivity.
    - intros p. rewrite crun_app, (H p). cbn [crun]. rewrite (Ha p). reflexivity.
  Qed.

  Lemma greach_start G now : greach false G -> greach true (rebase now G).
  Proof. intros [l H]. exists l, now. apply H. Qed.

  (* ---------------------------------------------------------------- the relation *)
  Definition Jpt (ik : list inst) (thr : list jthr) (ak : nat -> aux) (ig : list inst) (ag : nat -> aux) : Prop :=
    forall i x th, nth_error ik i = Some x -> nth_error thr i = Some th ->
      match jres th with
      | None => nth_error ig i = Some x /\ ag i = ak i
      | Some r => jq th = QIdle /\ res_fits (pc x) r /\
                  nth_error ig i = Some (consume_inst x r) /\ ag i = consume_aux (ak i) r
      end.

  Definition Jrel (k : kstate) (G : tstate) : Prop :=
    sh (t_s G) = sh (k_s k) /\ start_open (t_s G) = start_open (k_s k) /\ t_shots G = k_shots k /\
    length (insts (t_s G)) = length (insts (k_s k)) /\ length (k_thr k) = length (insts (k_s k)) /\
    Jpt (insts (k_s k)) (k_thr k) (k_aux k) (insts (t_s G)) (t_aux G).

  (* the schedule side: the C02 relation between the tree and the ghost's stream, and the
     validity of every instance's schedule pc *)
  Definition Slink (st : bool) (k : kstate) (G : tstate) : Prop :=
    comp_len (k_tree k) <> 0 /\ size (k_tree k) <= S fuel /\
    (forall i th, nth_error (k_thr k) i = Some th -> Jq (k_lo k) (k_tree k) (jq th)) /\
    if st then relS (k_lo k) (k_tree k) (t_its G) /\ t_fin G = afin 0 (k_tree k)
    else fresh (k_tree k) /\ flatten (k_tree k) = fl.

  Definition KInv (k : kstate) : Prop := exists st G, greach st G /\ Jrel k G /\ Slink st k G.

  Lemma Jpt_change ik thr ak ig ag ik' thr' ak' ig' ag' i :
    Jpt ik thr ak ig ag ->
    (forall j, j <> i -> nth_error ik' j = nth_error ik j /\ nth_error thr' j = nth_error thr j /\
                         nth_error ig' j = nth_error ig j /\ ak' j = ak j /\ ag' j = ag j) ->
    (forall x th, nth_error ik' i = Some x -> nth_error thr' i = Some th ->
       match jres th with
       | None => nth_error ig' i = Some x /\ ag' i = ak' i
       | Some r => jq th = QIdle /\ res_fits (pc x) r /\
                   nth_error ig' i = Some (consume_inst x r) /\ ag' i = consume_aux (ak' i) r
       end) ->
    Jpt ik' thr' ak' ig' ag'.
  Proof.
    intros H Ho Hi j x th Hx Hth. destruct (Nat.eq_dec j i) as [->|Ne]; [apply Hi; assumption|].
    destruct (Ho j Ne) as (E1 & E2 & E3 & E4 & E5). rewrite E1 in Hx. rewrite E2 in Hth.
    specialize (H j x th Hx Hth). rewrite E3, E4, E5. exact H.
  Qed.

  Lemma nth_upd_neq {A} (l : list A) i j x : j <> i -> nth_error (Instance.upd l i x) j = nth_error l j.
  Proof. intros Ne. rewrite nth_upd. destruct (Nat.eqb_spec j i); [contradiction|reflexivity]. Qed.

  Lemma nth_upd_eq {A} (l : list A) i x y : nth_error l i = Some y -> nth_error (Instance.upd l i x) i = Some x.
  Proof. intros H. rewrite nth_upd, Nat.eqb_refl, H. reflexivity. Qed.

  Lemma nth_upd_inv {A} (l : list A) i x z : nth_error (Instance.upd l i x) i = Some z -> z = x.
  Proof. rewrite nth_upd, Nat.eqb_refl. destruct (nth_error l i); intros H; inversion H; reflexivity. Qed.

  Lemma others_ge thr i j th : nth_error thr j = Some th -> j <> i ->
    depth_in (jq th) <= others_depth i (map jn thr).
  Proof.
    intros H Ne. apply (others_depth_ge (map jn thr) i j (jn th)); [|exact Ne].
    rewrite nth_error_map, H. reflexivity.
  Qed.

  (* Left() on a finite stream does not depend on the start instant nor on the clock *)
  Lemma left_static p now : (abs_left now (fst (items_from p fl)) =? 0)%Z = (statl fl =? 0)%Z.
  Proof.
    destruct Hok as (Hl & Hu & _).
    rewrite (tok_abs_left _ _ now (finite_stream fl p Hl Hu)).
    unfold statl. rewrite Hu. symmetry. apply Z_nat_eqb0. apply sumcnt_nonneg.
  Qed.

  (* ---------------------------------------------------------------- steps that do not touch the schedule *)
  Lemma Slink_keep st k k' G G' :
    Slink st k G -> k_tree k' = k_tree k -> k_lo k' = k_lo k ->
    (forall i th, nth_error (k_thr k') i = Some th -> th = mkJT QIdle None \/ exists th0, nth_error (k_thr k) i = Some th0 /\ jq th0 = jq th) ->
    t_its G' = t_its G -> t_fin G' = t_fin G -> Slink st k' G'.
  Proof.
    intros (NZ & Sz & J & R) Et El Hth Ei Ef. unfold Slink. rewrite Et, El, Ei, Ef.
    split; [exact NZ|]. split; [exact Sz|]. split; [|exact R].
    intros i th Hi. destruct (Hth i th Hi) as [->|(th0 & H0 & Eq)]; [exact I|].
    rewrite <- Eq. apply (J i th0 H0).
  Qed.

  Lemma step_spawn k k' : KInv k -> kspawn c fl k = Some k' -> KInv k'.
  Proof.
    intros (st & G & GR & (Esh & Eso & Eshots & Elen & Elt & Pt) & SL) H.
    unfold kspawn, spawn in H. destruct (start_open (k_s k)) eqn:Eopen; [|discriminate]. inversion H; subst k'; clear H.
    set (ax0 := mkAux (fst (items_from 0 fl)) (snd (items_from 0 fl)) wstate_init None).
    set (G' := mkT (mkSt (sh (t_s G)) (insts (t_s G) ++ [new_inst c]) true) (t_its G) (t_fin G)
                   (set_aux (t_aux G) (length (insts (t_s G))) ax0) (t_shots G)).
    exists st, G'. split; [|split].
    - apply (greach_step st G G' (CSpawn 0) GR). intros p.
      destruct st; cbn [gsel capply rebase t_s]; unfold spawn; rewrite Eso; reflexivity.
    - unfold Jrel, G'. cbn [t_s sh start_open t_shots insts k_s k_shots k_thr k_aux t_aux].
      split; [exact Esh|]. split; [reflexivity|]. split; [exact Eshots|].
      split; [rewrite !app_length, Elen; reflexivity|]. split; [rewrite !app_length, Elt; reflexivity|].
      intros i x th Hx Hth.
      destruct (Nat.lt_ge_cases i (length (insts (k_s k)))) as [Lt|Ge].
      + rewrite nth_error_app1 in Hx by exact Lt. rewrite nth_error_app1 in Hth by lia.
        specialize (Pt i x th Hx Hth).
        rewrite nth_error_app1 by lia. rewrite !set_aux_neq by lia. exact Pt.
      + assert (Ei : i = length (insts (k_s k))).
        { assert (Hn : nth_error (insts (k_s k) ++ [new_inst c]) i <> None) by congruence.
          apply nth_error_Some in Hn. rewrite app_length in Hn. cbn in Hn. lia. }
        subst i. rewrite nth_error_app2 in Hx by lia. rewrite Nat.sub_diag in Hx. cbn in Hx. inversion Hx; subst x.
        rewrite nth_error_app2 in Hth by lia. rewrite Elt, Nat.sub_diag in Hth. cbn in Hth. inversion Hth; subst th.
        cbn [jres]. rewrite nth_error_app2 by lia. rewrite Elen, Nat.sub_diag. cbn [nth_error].
        split; [reflexivity|]. rewrite !set_aux_eq. reflexivity.
    - eapply Slink_keep; [exact SL|reflexivity|reflexivity| |reflexivity|reflexivity].
      cbn [k_thr]. intros i th Hi.
      destruct (Nat.lt_ge_cases i (length (k_thr k))) as [Lt|Ge].
      + rewrite nth_error_app1 in Hi by exact Lt. right. exists th. split; [exact Hi|reflexivity].
      + rewrite nth_error_app2 in Hi by exact Ge. left.
        destruct (i - length (k_thr k)) as [|n]; cbn in Hi; [inversion Hi; reflexivity|destruct n; discriminate].
  Qed.

  Lemma step_close k : KInv k ->
    KInv (mkK (close_start (k_s k)) (k_aux k) (k_shots k) (k_tree k) (k_lo k) (k_thr k)).
  Proof.
    intros (st & G & GR & (Esh & Eso & Eshots & Elen & Elt & Pt) & SL).
    set (G' := mkT (close_start (t_s G)) (t_its G) (t_fin G) (t_aux G) (t_shots G)).
    exists st, G'. split; [|split].
    - apply (greach_step st G G' CClose GR). intros p. destruct st; reflexivity.
    - unfold Jrel, G'. cbn [t_s close_start sh start_open insts t_shots t_aux k_s k_shots k_thr k_aux].
      split; [exact Esh|]. split; [reflexivity|]. split; [exact Eshots|]. split; [exact Elen|]. split; [exact Elt|exact Pt].
    - eapply Slink_keep; [exact SL|reflexivity|reflexivity| |reflexivity|reflexivity].
      intros i th Hi. right. exists th. split; [exact Hi|reflexivity].
  Qed.

  (* ---------------------------------------------------------------- instance sections *)
  Lemma thr_keep (thr : list jthr) i th0 th' :
    nth_error thr i = Some th0 -> jq th' = jq th0 ->
    forall j th, nth_error (Instance.upd thr i th') j = Some th ->
      th = mkJT QIdle None \/ exists t0, nth_error thr j = Some t0 /\ jq t0 = jq th.
  Proof.
    intros H0 Eq j th Hj. right. destruct (Nat.eq_dec j i) as [->|Ne].
    - apply nth_upd_inv in Hj. subst th. exists th0. split; [exact H0|symmetry; exact Eq].
    - rewrite nth_upd_neq in Hj by exact Ne. exists th. split; [exact Hj|reflexivity].
  Qed.

  Lemma step_inst k k' i : KInv k -> kinst c i k = Some k' -> KInv k'.
  Proof.
    intros (st & G & GR & (Esh & Eso & Eshots & Elen & Elt & Pt) & SL) H.
    unfold kinst in H.
    destruct (nth_error (insts (k_s k)) i) as [x|] eqn:Ex; [|discriminate].
    destruct (nth_error (k_thr k) i) as [th|] eqn:Eth; [|discriminate].
    pose proof (Pt i x th Ex Eth) as Pi. cbv zeta in H.
    destruct (sched_op (pc x)) as [o|] eqn:Eo.
    - (* Check / Wait: consume the answer; the ghost has taken the section already *)
      assert (Hc : exists r, jres th = Some r /\
               (k' = mkK (mkSt (sh (k_s k)) (Instance.upd (insts (k_s k)) i (consume_inst x r)) (start_open (k_s k)))
                         (set_aux (k_aux k) i (consume_aux (k_aux k i) r)) (k_shots k) (k_tree k) (k_lo k)
                         (Instance.upd (k_thr k) i (mkJT (jq th) None)) \/
                (exists v, r = SRL v) /\
                k' = mkK (mkSt (sh (k_s k)) (Instance.upd (insts (k_s k)) i (consume_inst x r)) (start_open (k_s k)))
                         (k_aux k) (k_shots k) (k_tree k) (k_lo k) (Instance.upd (k_thr k) i (mkJT (jq th) None)))).
      { destruct (pc x) eqn:Epc; try discriminate Eo.
        - destruct (jres th) as [[v|t ok w]|]; try discriminate. inversion H; subst k'.
          exists (SRL v). split; [reflexivity|]. right. split; [eexists; reflexivity|reflexivity].
        - destruct (jres th) as [[v|t ok w]|]; try discriminate. inversion H; subst k'.
          exists (SRN t ok w). split; [reflexivity|]. left. reflexivity. }
      destruct Hc as (r & Er & Hk). rewrite Er in Pi. destruct Pi as (Eq & _ & Eg & Ea).
      exists st, G. split; [exact GR|].
      destruct Hk as [->|[[v ->] ->]]; (split;
        [|eapply Slink_keep; [exact SL|reflexivity|reflexivity| |reflexivity|reflexivity];
          cbn [k_thr]; apply (thr_keep _ _ th); [exact Eth|reflexivity]]);
        unfold Jrel; cbn [k_s sh start_open insts k_shots k_thr k_aux];
        (split; [exact Esh|]); (split; [exact Eso|]); (split; [exact Eshots|]);
        (split; [rewrite upd_length; exact Elen|]); (split; [rewrite !upd_length; exact Elt|]);
        eapply (Jpt_change _ _ _ _ _ _ _ _ _ _ i Pt).
      + intros j Ne. rewrite !nth_upd_neq by exact Ne. rewrite set_aux_neq by exact Ne. repeat split; reflexivity.
      + intros x1 th1 H1 H2. apply nth_upd_inv in H1. apply nth_upd_inv in H2. subst x1 th1. cbn [jres].
        split; [exact Eg|]. rewrite set_aux_eq. exact Ea.
      + intros j Ne. rewrite !nth_upd_neq by exact Ne. repeat split; reflexivity.
      + intros x1 th1 H1 H2. apply nth_upd_inv in H1. apply nth_upd_inv in H2. subst x1 th1. cbn [jres].
        split; [exact Eg|]. exact Ea.
    - (* a section that does not use the schedule: the same section of the ghost *)
      assert (Er : jres th = None).
      { destruct (jres th) as [r|]; [|reflexivity]. destruct Pi as (_ & Hf & _).
        destruct r, (pc x); cbn in Hf, Eo; try contradiction; discriminate. }
      rewrite Er in Pi. destruct Pi as [Eg Ea].
      set (slow := is_slow_down (ax_w (k_aux k i))) in *.
      assert (H' : match local_step c i slow (sh (k_s k)) x with
                   | Some (sh', x') =>
                       Some (mkK (mkSt sh' (Instance.upd (insts (k_s k)) i x') (start_open (k_s k))) (k_aux k)
                                 (match pc x with
                                  | Dec a => mkshot i a (ax_pend (k_aux k i)) (decide (discard_overflow c) slow) :: k_shots k
                                  | _ => k_shots k
                                  end) (k_tree k) (k_lo k) (k_thr k))
                   | None => None
                   end = Some k') by (destruct (pc x); try discriminate Eo; exact H).
      clear H. destruct (local_step c i slow (sh (k_s k)) x) as [[sh' x']|] eqn:El; [|discriminate].
      inversion H'; subst k'; clear H'.
      set (shots' := match pc x with
                     | Dec a => mkshot i a (ax_pend (k_aux k i)) (decide (discard_overflow c) slow) :: k_shots k
                     | _ => k_shots k
                     end).
      set (G' := mkT (mkSt sh' (Instance.upd (insts (t_s G)) i x') (start_open (t_s G))) (t_its G) (t_fin G) (t_aux G) shots').
      exists st, G'. split; [|split].
      + apply (greach_step st G G' (CStep i (w_dummy 0)) GR). intros p. cbn [capply].
        rewrite (cstep_other c i (w_dummy 0) (gsel st p G) x);
          [|destruct st; exact Eg|exact Eo].
        assert (E1 : t_aux (gsel st p G) i = k_aux k i) by (destruct st; exact Ea).
        assert (E2 : sh (t_s (gsel st p G)) = sh (k_s k)) by (destruct st; exact Esh).
        rewrite E1, E2. fold slow. rewrite El. unfold G', shots'. rewrite <- Eshots.
        destruct st; reflexivity.
      + unfold Jrel, G'. cbn [t_s sh start_open insts t_shots t_aux k_s k_shots k_thr k_aux].
        split; [reflexivity|]. split; [exact Eso|]. split; [reflexivity|].
        split; [rewrite !upd_length; exact Elen|]. split; [rewrite upd_length; exact Elt|].
        eapply (Jpt_change _ _ _ _ _ _ _ _ _ _ i Pt).
        * intros j Ne. rewrite !nth_upd_neq by exact Ne. repeat split; reflexivity.
        * intros x1 th1 H1 H2. apply nth_upd_inv in H1. subst x1. rewrite Eth in H2. inversion H2; subst th1.
          rewrite Er. split; [apply (nth_upd_eq _ _ _ x); exact Eg|exact Ea].
      + eapply Slink_keep; [exact SL|reflexivity|reflexivity| |reflexivity|reflexivity].
        intros j t Hj. right. exists t. split; [exact Hj|reflexivity].
  Qed.
  (* ---------------------------------------------------------------- schedule steps: the ghost *)
  Lemma Jrel_sched k G i x th s' tree' lo' th' G' :
    Jrel k G -> nth_error (insts (k_s k)) i = Some x -> nth_error (k_thr k) i = Some th -> jres th = None ->
    insts s' = insts (k_s k) -> start_open s' = start_open (k_s k) -> sh (t_s G') = sh s' ->
    start_open (t_s G') = start_open (t_s G) -> t_shots G' = t_shots G ->
    length (insts (t_s G')) = length (insts (t_s G)) ->
    (forall j, j <> i -> nth_error (insts (t_s G')) j = nth_error (insts (t_s G)) j /\ t_aux G' j = t_aux G j) ->
    match jres th' with
    | None => nth_error (insts (t_s G')) i = Some x /\ t_aux G' i = k_aux k i
    | Some r => jq th' = QIdle /\ res_fits (pc x) r /\
                nth_error (insts (t_s G')) i = Some (consume_inst x r) /\ t_aux G' i = consume_aux (k_aux k i) r
    end ->
    Jrel (set_thr k s' tree' lo' i th') G'.
  Proof.
    intros (Esh & Eso & Eshots & Elen & Elt & Pt) Ex Eth Er Ei Eo' Es' Eso' Esh' El' Hoth Hi.
    unfold Jrel, set_thr. cbn [k_s k_shots k_thr k_aux]. rewrite Ei, Eo'.
    split; [exact Es'|]. split; [rewrite Eso'; exact Eso|]. split; [rewrite Esh'; exact Eshots|].
    split; [rewrite El'; exact Elen|]. split; [rewrite upd_length; exact Elt|].
    eapply (Jpt_change _ _ _ _ _ _ _ _ _ _ i Pt).
    - intros j Ne. rewrite nth_upd_neq by exact Ne. destruct (Hoth j Ne) as [H1 H2]. repeat split; auto.
    - intros x1 th1 H1 H2. rewrite Ex in H1. inversion H1; subst x1. apply nth_upd_inv in H2. subst th1. exact Hi.
  Qed.

  Lemma Jrel_rebase k G p : Jrel k G -> Jrel k (rebase p G).
  Proof. intros H. exact H. Qed.

  Lemma Jrel_goto k G i x th tree' lo' q' :
    Jrel k G -> nth_error (insts (k_s k)) i = Some x -> nth_error (k_thr k) i = Some th -> jres th = None ->
    Jrel (set_thr k (k_s k) tree' lo' i (mkJT q' None)) G.
  Proof.
    intros JR Ex Eth Er. pose proof JR as (_ & _ & _ & _ & _ & Pt).
    pose proof (Pt i x th Ex Eth) as Pi. rewrite Er in Pi.
    apply (Jrel_sched k G i x th _ _ _ _ G JR Ex Eth Er); try reflexivity.
    - apply JR.
    - intros j Ne. split; reflexivity.
    - exact Pi.
  Qed.

  Lemma op_left_pc x : sched_op (pc x) = Some SchedTree.OLeft -> pc x = Check.
  Proof. destruct (pc x); cbn; intros H; try discriminate; reflexivity. Qed.
  Lemma op_next_pc x : sched_op (pc x) = Some SchedTree.ONext -> exists a, pc x = Wait a.
  Proof. destruct (pc x) as [| |a| | | | |]; cbn; intros H; try discriminate. exists a. reflexivity. Qed.

  (* Left() returned v: the ghost takes its whole Check section *)
  Lemma ghost_retL st G k i x th v tree' now :
    greach st G -> Jrel k G -> nth_error (insts (k_s k)) i = Some x -> nth_error (k_thr k) i = Some th ->
    jres th = None -> pc x = Check ->
    (forall p, (abs_left now (t_its (gsel st p G)) =? 0)%Z = (v =? 0)%Z) ->
    exists G', greach st G' /\ Jrel (set_thr k (k_s k) tree' now i (mkJT QIdle (Some (SRL v)))) G' /\
               t_its G' = t_its G /\ t_fin G' = t_fin G.
  Proof.
    intros GR JR Ex Eth Er Epc Hlz. pose proof JR as (Esh & Eso & Eshots & Elen & Elt & Pt).
    pose proof (Pt i x th Ex Eth) as Pi. rewrite Er in Pi. destruct Pi as [Eg Ea].
    set (G' := mkT (mkSt (sh (t_s G)) (Instance.upd (insts (t_s G)) i (consume_inst x (SRL v))) (start_open (t_s G)))
                   (t_its G) (t_fin G) (t_aux G) (t_shots G)).
    exists G'. split; [|split; [|split; reflexivity]].
    - apply (greach_step st G G' (CStep i (w_dummy now)) GR). intros p. cbn [capply].
      rewrite (cstep_check c i (w_dummy now) (gsel st p G) x); [|destruct st; exact Eg|exact Epc|exact Hper].
      cbn [w_dummy w_clock]. rewrite (Hlz p). unfold G', consume_inst. destruct st; reflexivity.
    - apply (Jrel_sched k G i x th _ _ _ _ G' JR Ex Eth Er); try reflexivity.
      + unfold G'. cbn [t_s sh]. exact Esh.
      + unfold G'. cbn [t_s insts]. apply upd_length.
      + intros j Ne. unfold G'. cbn [t_s insts t_aux]. rewrite nth_upd_neq by exact Ne. split; reflexivity.
      + cbn [jres jq]. split; [reflexivity|]. split; [rewrite Epc; exact I|].
        unfold G'. cbn [t_s insts t_aux]. split; [apply (nth_upd_eq _ _ _ x); exact Eg|exact Ea].
  Qed.

  (* Next() returned (t, ok): the ghost takes its whole Wait section, with the world of that Wait *)
  Lemma ghost_retN G k i x th a t ok w its' tree' now :
    greach true G -> Jrel k G -> nth_error (insts (k_s k)) i = Some x -> nth_error (k_thr k) i = Some th ->
    jres th = None -> pc x = Wait a -> w_clock w = now ->
    abs_next now (t_fin G) (t_its G) = (its', t, ok) ->
    world_ok (ax_w (k_aux k i)) w (if ok then Some t else None) = true ->
    exists G', greach true G' /\
      Jrel (set_thr k (mkSt (tally ok (sh (k_s k))) (insts (k_s k)) (start_open (k_s k))) tree' now i
                    (mkJT QIdle (Some (SRN t ok w)))) G' /\
      t_its G' = its' /\ t_fin G' = t_fin G.
  Proof.
    intros GR JR Ex Eth Er Epc Hc AN Hw. pose proof JR as (Esh & Eso & Eshots & Elen & Elt & Pt).
    pose proof (Pt i x th Ex Eth) as Pi. rewrite Er in Pi. destruct Pi as [Eg Ea].
    set (G' := mkT (mkSt (tally ok (sh (t_s G))) (Instance.upd (insts (t_s G)) i (set_pc x (if ok then Dec a else Rel a)))
                         (start_open (t_s G)))
                   its' (t_fin G) (set_aux (t_aux G) i (consume_aux (t_aux G i) (SRN t ok w))) (t_shots G)).
    exists G'. split; [|split; [|split; reflexivity]].
    - apply (greach_step true G G' (CStep i w) GR). intros p. cbn [capply gsel].
      apply (cstep_wait c i w G x a its' t ok Eg Epc Hper); [rewrite Hc; exact AN|rewrite Ea; exact Hw].
    - apply (Jrel_sched k G i x th _ _ _ _ G' JR Ex Eth Er); try reflexivity.
      + unfold G'. cbn [t_s sh]. rewrite Esh. reflexivity.
      + unfold G'. cbn [t_s insts]. apply upd_length.
      + intros j Ne. unfold G'. cbn [t_s insts t_aux]. rewrite nth_upd_neq by exact Ne.
        rewrite set_aux_neq by exact Ne. split; reflexivity.
      + cbn [jres jq]. split; [reflexivity|]. split; [rewrite Epc; exact I|].
        unfold G'. cbn [t_s insts t_aux]. rewrite set_aux_eq, Ea. split; [|reflexivity].
        unfold consume_inst. rewrite Epc. apply (nth_upd_eq _ _ _ x). exact Eg.
  Qed.

  (* ---------------------------------------------------------------- schedule steps *)
  Lemma step_sched k k' i now w : KInv k -> ksched fuel i now w k = Some k' -> KInv k'.
  Proof.
    intros (st & G & GR & JR & SL) H. pose proof JR as (Esh & Eso & Eshots & Elen & Elt & Pt).
    unfold ksched in H.
    destruct (nth_error (insts (k_s k)) i) as [x|] eqn:Ex; [|discriminate].
    destruct (nth_error (k_thr k) i) as [th|] eqn:Eth; [|discriminate].
    destruct (sched_op (pc x)) as [o|] eqn:Eo; [|discriminate].
    destruct (jres th) eqn:Er; [discriminate|].
    destruct (Z.leb_spec (k_lo k) now) as [L|]; [|discriminate].
    pose proof (Pt i x th Ex Eth) as Pi. rewrite Er in Pi. destruct Pi as [Eg Ea].
    destruct SL as (NZ & Sz & J & R).
    pose proof (J i th Eth) as Ji.
    set (others := others_depth i (map jn (k_thr k))) in *.
    destruct (nsec fuel now o others (jq th) (k_tree k)) as [r0|] eqn:E; [|discriminate].
    assert (StabT : forall tree', (forall q2, depth_in q2 <= others -> Jq (k_lo k) (k_tree k) q2 -> Jq now tree' q2) ->
              forall q', Jq now tree' q' -> forall res j t0,
                nth_error (Instance.upd (k_thr k) i (mkJT q' res)) j = Some t0 -> Jq now tree' (jq t0)).
    { intros tree' Stab q' Jq' res j t0 Hj. destruct (Nat.eq_dec j i) as [->|Ne].
      - apply nth_upd_inv in Hj. subst t0. exact Jq'.
      - rewrite nth_upd_neq in Hj by exact Ne. apply Stab; [eapply others_ge; eauto|apply (J j t0 Hj)]. }
    destruct st.
    - (* the tree is started *)
      destruct R as [RS Fa]. pose proof RS as (W & St & DC).
      destruct (nsec_S fuel (jq th) (k_tree k) (k_lo k) now o others r0 W St NZ Sz L Ji E)
        as (c1 & out & -> & W' & S' & NZ' & Sz1 & [Fc SE] & Stab & M).
      assert (DCn : drop_closed now (t_its G) = drop_closed now (absp 0 (k_tree k))) by (eapply dc_lift; eauto).
      assert (Sz' : size c1 <= S fuel) by lia.
      destruct out as [q'|t ok|v].
      + inversion H; subst k'; clear H. destruct M as [D Jq'].
        exists true, G. split; [exact GR|]. split; [eapply Jrel_goto; eauto|].
        unfold Slink, set_thr; cbn [k_tree k_lo k_thr].
        split; [exact NZ'|]. split; [exact Sz'|]. split; [apply (StabT c1 Stab q' Jq')|].
        split; [|rewrite Fa; symmetry; exact Fc]. split; [exact W'|]. split; [exact S'|]. rewrite D. exact DCn.
      + destruct M as (-> & its' & AN & D). destruct (op_next_pc x Eo) as [a Epc].
        destruct ((w_clock w =? now)%Z && world_ok (ax_w (k_aux k i)) w (if ok then Some t else None)) eqn:Hw; [|discriminate].
        apply andb_prop in Hw. destruct Hw as [Hc Hw]. apply Z.eqb_eq in Hc.
        inversion H; subst k'; clear H.
        rewrite <- (relS_next _ now _ _ RS L), <- Fa in AN.
        destruct (ghost_retN G k i x th a t ok w its' c1 now GR JR Ex Eth Er Epc Hc AN Hw) as (G' & GR' & JR' & Ei & Ef).
        exists true, G'. split; [exact GR'|]. split; [exact JR'|].
        unfold Slink, set_thr; cbn [k_tree k_lo k_thr].
        split; [exact NZ'|]. split; [exact Sz'|]. split; [apply (StabT c1 Stab QIdle I)|].
        rewrite Ei, Ef. split; [repeat split; auto|rewrite Fa; symmetry; exact Fc].
      + destruct M as (-> & Ev & D). pose proof (op_left_pc x Eo) as Epc.
        inversion H; subst k'; clear H.
        assert (Hlz : forall p, (abs_left now (t_its (gsel true p G)) =? 0)%Z = (v =? 0)%Z).
        { intros p. cbn [gsel]. rewrite Ev. f_equal. apply abs_left_dc. exact DCn. }
        destruct (ghost_retL true G k i x th v c1 now GR JR Ex Eth Er Epc Hlz) as (G' & GR' & JR' & Ei & Ef).
        exists true, G'. split; [exact GR'|]. split; [exact JR'|].
        unfold Slink, set_thr; cbn [k_tree k_lo k_thr].
        split; [exact NZ'|]. split; [exact Sz'|]. split; [apply (StabT c1 Stab QIdle I)|].
        rewrite Ei, Ef. split; [|rewrite Fa; symmetry; exact Fc]. split; [exact W'|]. split; [exact S'|]. rewrite D. exact DCn.
    - (* the tree has not been started *)
      destruct R as [F Fl].
      destruct (nsec_F fuel (jq th) (k_tree k) (k_lo k) now o others r0 F NZ Sz Ji E)
        as (c1 & out & -> & W' & NZ' & Sz1 & Stab & M).
      assert (Sz' : size c1 <= S fuel) by lia.
      assert (Estream : forall p, t_its (rebase p G) = absp p (k_tree k) /\ t_fin (rebase p G) = afin p (k_tree k)).
      { intros p. unfold rebase, absp, afin. cbn [t_its t_fin]. rewrite Fl. split; reflexivity. }
      destruct out as [q'|t ok|v].
      + inversion H; subst k'; clear H. destruct M as [Jq' [->|(_ & S' & Ff & D)]].
        * (* a read lock was taken, nothing else *)
          exists false, G. split; [exact GR|]. split; [eapply Jrel_goto; eauto|].
          unfold Slink, set_thr; cbn [k_tree k_lo k_thr].
        split; [exact NZ|]. split; [exact Sz|]. split; [apply (StabT (k_tree k) Stab q' Jq')|]. split; assumption.
        * (* this step starts the tree: the ghost's start instant is its clock *)
          exists true, (rebase now G). split; [apply greach_start; exact GR|].
          split; [eapply Jrel_goto; eauto|].
          unfold Slink, set_thr; cbn [k_tree k_lo k_thr].
        split; [exact NZ'|]. split; [exact Sz'|]. split; [apply (StabT c1 Stab q' Jq')|].
          destruct (Estream now) as [E1 E2]. rewrite E1, E2. split; [|symmetry; exact Ff].
          split; [exact W'|]. split; [exact S'|]. symmetry. exact D.
      + destruct M as (-> & S' & Ff & its' & AN & D). destruct (op_next_pc x Eo) as [a Epc].
        destruct ((w_clock w =? now)%Z && world_ok (ax_w (k_aux k i)) w (if ok then Some t else None)) eqn:Hw; [|discriminate].
        apply andb_prop in Hw. destruct Hw as [Hc Hw]. apply Z.eqb_eq in Hc.
        inversion H; subst k'; clear H.
        destruct (Estream now) as [E1 E2].
        assert (AN' : abs_next now (t_fin (rebase now G)) (t_its (rebase now G)) = (its', t, ok)) by (rewrite E1, E2; exact AN).
        destruct (ghost_retN (rebase now G) k i x th a t ok w its' c1 now (greach_start G now GR) (Jrel_rebase k G now JR)
                             Ex Eth Er Epc Hc AN' Hw) as (G' & GR' & JR' & Ei & Ef).
        exists true, G'. split; [exact GR'|]. split; [exact JR'|].
        unfold Slink, set_thr; cbn [k_tree k_lo k_thr].
        split; [exact NZ'|]. split; [exact Sz'|]. split; [apply (StabT c1 Stab QIdle I)|].
        rewrite Ei, Ef, E2. split; [repeat split; auto|symmetry; exact Ff].
      + destruct M as (-> & -> & ->). pose proof (op_left_pc x Eo) as Epc.
        inversion H; subst k'; clear H.
        assert (Hlz : forall p, (abs_left now (t_its (gsel false p G)) =? 0)%Z = (statl (flatten (k_tree k)) =? 0)%Z).
        { intros p. cbn [gsel]. unfold rebase. cbn [t_its]. rewrite Fl. apply left_static. }
        destruct (ghost_retL false G k i x th _ (k_tree k) now GR JR Ex Eth Er Epc Hlz) as (G' & GR' & JR' & Ei & Ef).
        exists false, G'. split; [exact GR'|]. split; [exact JR'|].
        unfold Slink, set_thr; cbn [k_tree k_lo k_thr].
        split; [exact NZ|]. split; [exact Sz|]. split; [apply (StabT (k_tree k) Stab QIdle I)|]. split; assumption.
  Qed.

  Lemma step_kapply k k' a : KInv k -> kapply c fl fuel a k = Some k' -> KInv k'.
  Proof.
    intros I H. destruct a as [| |i now w|i]; cbn [kapply] in H.
    - eapply step_spawn; eauto.
    - inversion H; subst. apply step_close. exact I.
    - eapply step_sched; eauto.
    - eapply step_inst; eauto.
  Qed.
End Sim.

(* ---------------------------------------------------------------- all interleavings *)
Lemma kinv_init c fl fuel tree lo0 :
  fresh tree -> comp_len tree <> 0 -> size tree <= S fuel -> flatten tree = fl ->
  KInv c fl fuel (kinit c tree lo0).
Proof.
  intros F NZ Sz Fl. exists false, (cinit c fl 0). split; [apply greach_init|]. split.
  - unfold Jrel, kinit, cinit. cbn [t_s k_s sh start_open t_shots k_shots insts k_thr length].
    repeat (split; [reflexivity|]). intros i x th Hx. destruct i; discriminate.
  - unfold Slink, kinit. cbn [k_tree k_thr k_lo]. split; [exact NZ|]. split; [exact Sz|].
    split; [intros i th Hi; destruct i; discriminate|]. split; assumption.
Qed.

Lemma kreach_inv c fl fuel k0 k :
  per_inst c = false -> sched_cfg_ok c fl -> KInv c fl fuel k0 -> kreach c fl fuel k0 k -> KInv c fl fuel k.
Proof.
  intros Hper Hok I0 R. induction R as [|k a k' R IH H]; [exact I0|].
  eapply step_kapply; eauto.
Qed.

(* the hypotheses on the shared schedule *)
Definition shared_tree_ok (c : cfg) (fl : list sched) (fuel : nat) (tree : sched) : Prop :=
  per_inst c = false /\ sched_cfg_ok c fl /\
  fresh tree /\ comp_len tree <> 0 /\ size tree <= S fuel /\ flatten tree = fl.

(* every reachable state of the joint system is related to a reachable state of the
   atomic-stream engine *)
Theorem joint_simulation c fl fuel tree lo0 k :
  shared_tree_ok c fl fuel tree -> kreach c fl fuel (kinit c tree lo0) k ->
  exists G l p0, crun c fl l (cinit c fl p0) = Some G /\ Jrel k G.
Proof.
  intros (Hper & Hok & F & NZ & Sz & Fl) R.
  destruct (kreach_inv c fl fuel _ k Hper Hok (kinv_init c fl fuel tree lo0 F NZ Sz Fl) R) as (st & G & [l GR] & JR & _).
  destruct st.
  - destruct GR as [p0 GR]. exists G, l, p0. split; assumption.
  - exists (rebase fl 0 G), l, 0%Z. split; [apply GR|exact JR].
Qed.

(* no schedule step of any instance panics or runs out of fuel *)
Theorem joint_safe c fl fuel tree lo0 k :
  shared_tree_ok c fl fuel tree -> kreach c fl fuel (kinit c tree lo0) k -> ~ kstuck fuel k.
Proof.
  intros (Hper & Hok & F & NZ & Sz & Fl) R (i & x & th & o & now & Ex & Eth & Eo & Er & L & Hs).
  destruct (kreach_inv c fl fuel _ k Hper Hok (kinv_init c fl fuel tree lo0 F NZ Sz Fl) R)
    as (st & G & _ & _ & (NZ' & Sz' & J & Rl)).
  pose proof (J i th Eth) as Ji.
  destruct (nsec fuel now o _ (jq th) (k_tree k)) as [r0|] eqn:E; [|exact Hs].
  destruct st.
  - destruct Rl as [(W & St & _) _].
    destruct (nsec_S fuel _ _ (k_lo k) now o _ _ W St NZ' Sz' L Ji E) as (c1 & out & -> & _). exact Hs.
  - destruct Rl as [F' _].
    destruct (nsec_F fuel _ _ (k_lo k) now o _ _ F' NZ' Sz' Ji E) as (c1 & out & -> & _). exact Hs.
Qed.

(* ---------------------------------------------------------------- what the relation gives *)
(* the C03 state of the joint system, with every unconsumed answer consumed *)
Definition kview_inst (x : inst) (th : jthr) : inst :=
  match jres th with None => x | Some r => consume_inst x r end.

(* at every reachable state: the counters and the log ARE those of a reachable state of the C03
   model, whose instances are the joint system's with the pending answers consumed *)
Theorem joint_reach c fl fuel tree lo0 k :
  shared_tree_ok c fl fuel tree -> kreach c fl fuel (kinit c tree lo0) k ->
  exists s, reach c s /\ sh s = sh (k_s k) /\ start_open s = start_open (k_s k) /\
    length (insts s) = length (insts (k_s k)) /\
    (forall i x th, nth_error (insts (k_s k)) i = Some x -> nth_error (k_thr k) i = Some th ->
       nth_error (insts s) i = Some (kview_inst x th)) /\
    Forall (shot_fact c) (k_shots k) /\
    disc_recs (k_shots k) = disc_evs (log (sh (k_s k))) /\
    length (filter is_disc (k_shots k)) = discarded (sh (k_s k)) /\
    length (filter (fun r => negb (is_disc r)) (k_shots k)) = request (sh (k_s k)).
Proof.
  intros Hs R. pose proof Hs as (_ & Hok & _).
  destruct (joint_simulation c fl fuel tree lo0 k Hs R) as (G & l & p0 & HR & (Esh & Eso & Eshots & Elen & Elt & Pt)).
  destruct (composed_run c fl p0 l G Hok HR) as (Rc & _ & F1 & F2 & F3 & F4).
  exists (t_s G). split; [exact Rc|]. split; [exact Esh|]. split; [exact Eso|]. split; [exact Elen|]. split.
  - intros i x th Hx Hth. specialize (Pt i x th Hx Hth). unfold kview_inst.
    destruct (jres th); [destruct Pt as (_ & _ & H & _); exact H|destruct Pt as [H _]; exact H].
  - rewrite <- Eshots, <- Esh. repeat split; assumption.
Qed.

(* at the end (start loop over, every instance finished): the C03 state of the joint system IS a
   reachable state of the C03 model *)
Theorem joint_terminal c fl fuel tree lo0 k :
  shared_tree_ok c fl fuel tree -> kreach c fl fuel (kinit c tree lo0) k -> terminal (k_s k) ->
  reach c (k_s k).
Proof.
  intros Hs R [To Td]. pose proof Hs as (_ & Hok & _).
  destruct (joint_simulation c fl fuel tree lo0 k Hs R) as (G & l & p0 & HR & (Esh & Eso & Eshots & Elen & Elt & Pt)).
  destruct (composed_run c fl p0 l G Hok HR) as (Rc & _).
  assert (E : t_s G = k_s k).
  { assert (Ei : insts (k_s k) = insts (t_s G)).
    { apply nth_error_ext_eq; [symmetry; exact Elen|]. intros i x Hx.
      assert (Hlt : i < length (k_thr k)).
      { rewrite Elt. apply nth_error_Some. congruence. }
      destruct (nth_error (k_thr k) i) as [th|] eqn:Eth; [|apply nth_error_None in Eth; lia].
      specialize (Pt i x th Hx Eth).
      destruct (jres th) as [r|]; [|exact (proj1 Pt)].
      destruct Pt as (_ & Hf & _). rewrite Forall_forall in Td.
      rewrite (Td x (nth_error_In _ _ Hx)) in Hf. destruct r; contradiction. }
    destruct (t_s G) as [s1 i1 o1], (k_s k) as [s2 i2 o2]. cbn in *. subst. reflexivity. }
  rewrite <- E. exact Rc.
Qed.

(* the C03 theorems for the joint system, shared schedule of any nesting depth *)
Theorem joint_accounting c fl fuel tree lo0 k :
  shared_tree_ok c fl fuel tree -> kreach c fl fuel (kinit c tree lo0) k -> terminal (k_s k) ->
  let s := k_s k in
  (length (insts s) >= 1 ->
     fired (sh s) + discarded (sh s) = Nat.min (Z.to_nat (sumcnt fl)) (ammo0 c) /\
     acquired (sh s) - (fired (sh s) + discarded (sh s)) <= length (insts s) - 1) /\
  request (sh s) = fired (sh s) /\ response (sh s) = fired (sh s) /\
  (discard_overflow c = false -> discarded (sh s) = 0) /\
  acquired (sh s) = released (sh s) /\
  (forall a, a < acquired (sh s) -> item_history_ok a (proj a (events s))) /\
  (forall a, acquired (sh s) <= a -> proj a (events s) = []).
Proof.
  intros Hs R T s. pose proof (joint_terminal c fl fuel tree lo0 k Hs R T) as Rc.
  destruct Hs as (Hper & (_ & _ & Hprof) & _).
  split.
  - intros Hn. split.
    + rewrite (conservation c s Rc T Hn). unfold tokens. rewrite Hper, Hprof. reflexivity.
    + apply (proj1 (unfired_bound c s Rc T Hn) Hper).
  - destruct (counters c s Rc T) as (C1 & C2 & C3). destruct (acquire_release c s Rc T) as (A1 & A2 & A3).
    repeat split; assumption.
Qed.

(* the shared schedule built by the constructors from any configuration tree without unlimited
   part (NewComposite of NewComposite ... of leaves, any depth) *)
Theorem joint_cfg (c : cfg) (sc : SchedTree.cfg) fuel now0 :
  per_inst c = false -> size_cfg sc <= S fuel -> existsb unknown_part (flatten_cfg sc) = false ->
  prof c = Z.to_nat (sumcnt (flatten_cfg sc)) ->
  exists tree, build (S fuel) now0 sc = Ok tree /\
    (comp_len tree <> 0 -> shared_tree_ok c (flatten_cfg sc) fuel tree).
Proof.
  intros Hper Hsz Hu Hp. destruct (build_ok sc (S fuel) now0 Hsz) as (tree & E & F & Fl & Sz).
  exists tree. split; [exact E|]. intros NZ.
  split; [exact Hper|]. split; [split; [apply flatten_cfg_leaves|split; assumption]|].
  split; [exact F|]. split; [exact NZ|]. split; [lia|exact Fl].
Qed.

Lemma krun_reach c fl fuel : forall l k0 k k', kreach c fl fuel k0 k -> krun c fl fuel l k = Some k' -> kreach c fl fuel k0 k'.
Proof.
  induction l as [|a r IH]; intros k0 k k' R H; cbn [krun] in H.
  - inversion H; subst. exact R.
  - destruct (kapply c fl fuel a k) as [k1|] eqn:E; [|discriminate].
    eapply IH; [eapply kreach_step; eauto|exact H].
Qed.
