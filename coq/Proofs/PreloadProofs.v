(* Proofs for property C14 (preload is behaviour-preserving; chosencases selects exactly the
   listed tags), on top of Proofs/ProviderProofs.v:
   - the distance to the next chosen entry (termination measure of the streaming path under a filter);
   - both paths deliver the cyclic replay of the chosen entries (c08_spec over [chosen_entries]);
   - a filter matching nothing: both paths end with ErrNoAmmo, nothing delivered, sink closed,
     within a number of steps linear in the file size;
   - equivalence of the two paths. *)
From Coq Require Import List Arith Bool Lia PeanoNat.
From PV Require Import Model.Provider Model.Preload Proofs.ProviderProofs.
Import ListNotations.

Lemma chosen_entries_is_filter ch es : chosen_entries ch es = filter (chosenb ch) es.
Proof. reflexivity. Qed.

(* ---------------------------------------------------------------------------------- *)
(* distance to the first chosen position, cyclically *)

Fixpoint first_idx (f : entry -> bool) (l : list entry) : nat :=
  match l with
  | [] => 0
  | x :: r => if f x then 0 else S (first_idx f r)
  end.

Lemma first_idx_spec f l :
  filter f l <> [] ->
  first_idx f l < length l /\ f (nth (first_idx f l) l dummy_entry) = true.
Proof.
  induction l as [|x r IH]; cbn [filter first_idx length nth]; [congruence|].
  destruct (f x) eqn:Ex; intros H.
  - split; [lia|exact Ex].
  - destruct (IH H) as (H1 & H2). split; [lia|exact H2].
Qed.

Lemma mod_succ a n :
  0 < n -> S a mod n = if a mod n =? n - 1 then 0 else S (a mod n).
Proof.
  intros Hn. pose proof (Nat.div_mod a n ltac:(lia)) as E.
  pose proof (Nat.mod_upper_bound a n ltac:(lia)) as Hr.
  destruct (a mod n =? n - 1) eqn:Eb.
  - apply Nat.eqb_eq in Eb. symmetry. apply (Nat.mod_unique (S a) n (S (a / n)) 0); lia.
  - apply Nat.eqb_neq in Eb. symmetry. apply (Nat.mod_unique (S a) n (a / n) (S (a mod n))); lia.
Qed.

Definition distf (ch : list nat) (es : list entry) (a : nat) : nat :=
  (first_idx (chosenb ch) es + length es - a mod length es) mod length es.

Lemma dist_val r0 n p :
  r0 < n -> p < n -> (r0 + n - p) mod n = if p <=? r0 then r0 - p else r0 + n - p.
Proof.
  intros H0 Hp. destruct (p <=? r0) eqn:E.
  - apply Nat.leb_le in E. replace (r0 + n - p) with ((r0 - p) + 1 * n) by lia.
    rewrite Nat.mod_add by lia. apply Nat.mod_small. lia.
  - apply Nat.leb_gt in E. apply Nat.mod_small. lia.
Qed.

Lemma distf_dec ch es a :
  filter (chosenb ch) es <> [] ->
  chosenb ch (cyc es a) = false -> distf ch es (S a) < distf ch es a.
Proof.
  intros Hsrc Hc.
  destruct (first_idx_spec (chosenb ch) es Hsrc) as (H0 & Hf).
  set (r0 := first_idx (chosenb ch) es) in *. set (n := length es) in *.
  assert (Hn : 0 < n) by lia.
  pose proof (Nat.mod_upper_bound a n ltac:(lia)) as Hp.
  assert (Hne : a mod n <> r0).
  { intros E. unfold cyc in Hc. fold n in Hc. rewrite E in Hc. congruence. }
  unfold distf. fold r0 n. rewrite (mod_succ a n Hn).
  destruct (a mod n =? n - 1) eqn:Eb.
  - apply Nat.eqb_eq in Eb.
    rewrite (dist_val r0 n 0) by lia. rewrite (dist_val r0 n (a mod n)) by lia.
    cbn [Nat.leb]. destruct (a mod n <=? r0) eqn:E; [apply Nat.leb_le in E|apply Nat.leb_gt in E]; lia.
  - apply Nat.eqb_neq in Eb.
    rewrite (dist_val r0 n (S (a mod n))) by lia. rewrite (dist_val r0 n (a mod n)) by lia.
    destruct (a mod n <=? r0) eqn:E; destruct (S (a mod n) <=? r0) eqn:E';
      try apply Nat.leb_le in E; try apply Nat.leb_gt in E;
      try apply Nat.leb_le in E'; try apply Nat.leb_gt in E'; lia.
Qed.

Lemma distf_le ch es a : es <> [] -> distf ch es a <= length es - 1.
Proof.
  intros Hn. assert (0 < length es) by (destruct es; [congruence|cbn; lia]).
  unfold distf. pose proof (Nat.mod_upper_bound (first_idx (chosenb ch) es + length es - a mod length es) (length es) ltac:(lia)). lia.
Qed.

(* ---------------------------------------------------------------------------------- *)
(* something matches: both paths satisfy c08_spec over the chosen entries *)

Definition cfgc (lim pas : nat) (ch : list nat) : cfg := {| limit := lim; passes := pas; chosen := ch |}.

Definition dkind_cD (k : dkind) : nat := match k with DJsonArr => 0 | _ => 1 end.

Lemma dkind_contract k es lim pas :
  es <> [] -> exists DI, contract (dec_step k) es (dkind_cD k) lim pas DI.
Proof.
  intros Hn. destruct k; cbn [dkind_cD dec_step].
  - eexists. apply uri_contract. exact Hn.
  - eexists. apply uripost_contract. exact Hn.
  - eexists. apply raw_contract. exact Hn.
  - eexists. apply jsonl_contract. exact Hn.
  - eexists. apply jsonarr_contract. exact Hn.
Qed.

Lemma dkind_cD_le k : dkind_cD k <= 1.
Proof. destruct k; cbn; lia. Qed.

Definition c14_const (n : nat) : nat := 2 * n + 4.

Lemma deliver_spec k preload es lim pas ch :
  es <> [] -> chosen_entries ch es <> [] ->
  c08_spec (deliver k preload (cfgc lim pas ch) es) (chosen_entries ch es)
           (bound lim pas (length (chosen_entries ch es))) (length es) (c14_const (length es)).
Proof.
  intros Hn Hsrc. rewrite chosen_entries_is_filter in *.
  assert (Hlen : 0 < length es) by (destruct es; [congruence|cbn; lia]).
  destruct preload; unfold deliver, cfgc.
  - destruct (dkind_contract k es 0 1 Hn) as (DI & K).
    apply (c08_spec_mono _ _ _ _ 4); [unfold c14_const; lia|].
    apply (http_preload_spec k es lim pas (dkind_cD k) ch DI (dkind_cD_le k) Hn Hsrc K).
  - destruct (dkind_contract k es 0 pas Hn) as (DI & K).
    apply (c08_spec_mono _ _ _ _ (2 * length es)); [unfold c14_const; lia|].
    apply (http_stream_spec k es lim pas (dkind_cD k) ch DI (distf ch es) (length es - 1) (2 * length es) K Hn).
    + intros a. apply distf_dec. exact Hsrc.
    + intros a. apply distf_le. exact Hn.
    + destruct (filter (chosenb ch) es); [congruence|cbn; lia].
    + intros len. pose proof (dkind_cD_le k). nia.
Qed.

(* ---------------------------------------------------------------------------------- *)
(* nothing matches *)

Section Silent.
  Context {St : Type}.
  Variable step : bool -> St -> sres St.
  Variable Q : nat -> St -> Prop.
  Hypothesis Qcont : forall m s s', Q m s -> step false s = Cont s' -> exists m', m' < m /\ Q m' s'.
  Hypothesis Qemit : forall m s e s', Q m s -> step false s = Emit e s' -> False.
  Hypothesis Qstop : forall m s o cl, Q m s -> step false s = Stop o cl -> o = Failed ENoAmmo /\ cl = true.

  (* never cancelled: cancel = None, or Some (S j) while nothing is ever sent *)
  Lemma silent_run cancel fuel m s :
    is_cancelled cancel 0 = false -> Q m s ->
    let x := run_steps step cancel fuel 0 s in
    delivered x = [] /\ steps x <= m + 1
    /\ (m < fuel -> out x = Failed ENoAmmo /\ closed x = true).
  Proof.
    intros Hc. revert m s. induction fuel as [|f IH]; intros m s HQ; cbn [run_steps].
    - cbn. repeat split; try lia.
    - rewrite Hc. destruct (step false s) as [s'|e s'|o cl] eqn:Es.
      + destruct (Qcont _ _ _ HQ Es) as (m' & Hm & HQ').
        destruct (IH m' s' HQ') as (I1 & I2 & I3). cbn [bump delivered steps out closed].
        split; [exact I1|]. split; [lia|]. intros Hf. apply I3. lia.
      + exfalso. eapply Qemit; eauto.
      + destruct (Qstop _ _ _ _ HQ Es) as (-> & ->). cbn. repeat split; lia.
  Qed.
End Silent.

Lemma silent_nodeliver {St} (step : bool -> St -> sres St) (Q : St -> Prop) :
  (forall cc s s', Q s -> step cc s = Cont s' -> Q s') ->
  (forall cc s e s', Q s -> step cc s = Emit e s' -> False) ->
  forall cancel fuel sent s, Q s -> delivered (run_steps step cancel fuel sent s) = [].
Proof.
  intros Hc He cancel fuel. induction fuel as [|f IH]; intros sent s HQ; cbn [run_steps]; [reflexivity|].
  destruct (step (is_cancelled cancel sent) s) as [s'|e s'|o cl] eqn:Es.
  - cbn [bump delivered]. apply IH. eapply Hc; eauto.
  - exfalso. eapply He; eauto.
  - reflexivity.
Qed.

Section NoMatch.
  Variable k : dkind.
  Variable es : list entry.
  Variables lim pas : nat.
  Variable ch : list nat.
  Hypothesis Hn : es <> [].
  Hypothesis Hnone : filter (chosenb ch) es = [].

  Local Notation n := (length es).
  Local Notation cf := {| limit := lim; passes := pas; chosen := ch |}.

  Lemma none_chosen a : chosenb ch (cyc es a) = false.
  Proof.
    assert (Hl : 0 < n) by (destruct es; [congruence|cbn; lia]).
    destruct (chosenb ch (cyc es a)) eqn:E; [|reflexivity]. exfalso.
    assert (In (cyc es a) (filter (chosenb ch) es)).
    { apply filter_In. split; [|exact E]. unfold cyc. apply nth_In. apply Nat.mod_upper_bound. lia. }
    rewrite Hnone in H. exact H.
  Qed.

  (* streaming: at most n+1 entries are decoded *)
  Variable cD : nat.
  Variable DIs : nat -> nat -> dstate -> Prop.
  Hypothesis Ks : contract (dec_step k) es cD 0 pas DIs.

  Definition Q_stream (m : nat) (s : hstate) : Prop :=
    exists d a md, s = HStream d 0 /\ DIs a md d /\ a <= n
                   /\ (n + 1 - a) * (cD + 1) + md + 1 <= m.

  Lemma qs_cont m s s' :
    Q_stream m s -> http_step k cf es false s = Cont s' -> exists m', m' < m /\ Q_stream m' s'.
  Proof.
    intros (d & a & md & -> & HI & Ha & Hm) Hs. cbn [http_step] in Hs.
    rewrite andb_false_r in Hs. cbn [limit passes chosen] in Hs.
    destruct (negb (inloop d) && nz lim && (lim <=? 0)); [discriminate|].
    destruct (dec_step k false 0 pas es d) as [d'|e d'|e] eqn:Ed; [| |discriminate].
    - injection Hs as <-. destruct (k_again _ _ _ _ _ _ Ks _ _ _ _ _ HI Ed) as (md' & Hlt & HI').
      exists ((n + 1 - a) * (cD + 1) + md' + 1). split; [lia|].
      exists d', a, md'. repeat split; auto.
    - destruct (k_ammo _ _ _ _ _ _ Ks _ _ _ _ _ _ HI Ed) as (Hb & -> & HI' & Hil).
      fold (chosenb ch (cyc es a)) in Hs. rewrite none_chosen in Hs. cbn [negb] in Hs.
      destruct (1 <=? passNum d') eqn:Ep; cbn [Nat.eqb andb] in Hs; [discriminate|].
      injection Hs as <-.
      destruct (k_pass _ _ _ _ _ _ Ks _ _ _ HI') as (_ & P2).
      assert (S a <= n) as Hle.
      { destruct (Nat.le_gt_cases (S a) n) as [H|H]; [exact H|]. specialize (P2 H). b2p. lia. }
      exists ((n + 1 - S a) * (cD + 1) + cD + 1). split.
      + replace (n + 1 - a) with (S (n + 1 - S a)) in Hm by lia. cbn [Nat.mul] in Hm. lia.
      + exists d', (S a), cD. repeat split; auto.
  Qed.

  Lemma qs_emit m s e s' : Q_stream m s -> http_step k cf es false s = Emit e s' -> False.
  Proof.
    intros (d & a & md & -> & HI & Ha & Hm) Hs. cbn [http_step] in Hs.
    rewrite andb_false_r in Hs. cbn [limit passes chosen] in Hs.
    destruct (negb (inloop d) && nz lim && (lim <=? 0)); [discriminate|].
    destruct (dec_step k false 0 pas es d) as [d'|e0 d'|e0] eqn:Ed; try discriminate.
    destruct (k_ammo _ _ _ _ _ _ Ks _ _ _ _ _ _ HI Ed) as (Hb & -> & HI' & Hil).
    fold (chosenb ch (cyc es a)) in Hs. rewrite none_chosen in Hs. cbn [negb] in Hs.
    destruct ((0 =? 0) && (1 <=? passNum d')); discriminate.
  Qed.

  Lemma qs_stop m s o cl :
    Q_stream m s -> http_step k cf es false s = Stop o cl -> o = Failed ENoAmmo /\ cl = true.
  Proof.
    intros (d & a & md & -> & HI & Ha & Hm) Hs. cbn [http_step] in Hs.
    rewrite andb_false_r in Hs. cbn [limit passes chosen] in Hs.
    destruct (negb (inloop d) && nz lim && (lim <=? 0)) eqn:El.
    { exfalso. b2p. lia. }
    destruct (dec_step k false 0 pas es d) as [d'|e0 d'|e0] eqn:Ed; [discriminate| |].
    - destruct (k_ammo _ _ _ _ _ _ Ks _ _ _ _ _ _ HI Ed) as (Hb & -> & HI' & Hil).
      fold (chosenb ch (cyc es a)) in Hs. rewrite none_chosen in Hs. cbn [negb] in Hs.
      destruct ((0 =? 0) && (1 <=? passNum d')); [|discriminate].
      injection Hs as <- <-. split; reflexivity.
    - injection Hs as <- <-.
      destruct (k_err _ _ _ _ _ _ Ks _ _ _ _ _ HI Ed) as [(Hc & _)|(_ & [(_ & He)| ->])];
        [discriminate|congruence|]. split; reflexivity.
  Qed.

  Lemma qs_init : Q_stream ((n + 1) * (cD + 1) + cD + 1) (http_init false).
  Proof.
    exists dinit, 0, cD. split; [reflexivity|]. split; [apply (k_init _ _ _ _ _ _ Ks)|].
    split; [lia|]. rewrite Nat.sub_0_r. lia.
  Qed.

  (* preload: one pass, then the filtered list is empty *)
  Variable DIp : nat -> nat -> dstate -> Prop.
  Hypothesis Kp : contract (dec_step k) es cD 0 1 DIp.

  Definition Q_pre (m : nat) (s : hstate) : Prop :=
    exists d acc a md, s = HLoad d acc /\ DIp a md d /\ acc = cyc_prefix es a /\ a <= n
                       /\ (n - a) * (cD + 1) + md + 2 <= m.

  Lemma qp_cont cc m s s' :
    Q_pre m s -> http_step k cf es cc s = Cont s' -> exists m', m' < m /\ Q_pre m' s'.
  Proof.
    intros (d & acc & a & md & -> & HI & Hacc & Ha & Hm) Hs. cbn [http_step] in Hs.
    destruct (dec_step k cc 0 1 es d) as [d'|e d'|e] eqn:Ed.
    - injection Hs as <-. destruct (k_again _ _ _ _ _ _ Kp _ _ _ _ _ HI Ed) as (md' & Hlt & HI').
      destruct (budget_again _ _ _ _ Hlt Hm) as (Hb1 & Hb2).
      exists (m - 1). split; [exact Hb1|]. exists d', acc, a, md'. repeat split; auto.
    - injection Hs as <-.
      destruct (k_ammo _ _ _ _ _ _ Kp _ _ _ _ _ _ HI Ed) as (Hb & -> & HI' & _).
      assert (a < n) as Hlt by (unfold below, bound in Hb; lia).
      replace (n - a) with (S (n - S a)) in Hm by lia.
      destruct (budget_ammo _ _ _ _ Hm) as (Hb1 & Hb2).
      exists (m - 1). split; [exact Hb1|].
      exists d', (acc ++ [cyc es a]), (S a), cD. repeat split; auto.
      rewrite cyc_prefix_S, Hacc. reflexivity.
    - exfalso.
      destruct (k_err _ _ _ _ _ _ Kp _ _ _ _ _ HI Ed) as [(Hc & ->)|(HB & He)]; [discriminate|].
      assert (a = n) by (unfold bound in HB; injection HB as <-; lia). subst a.
      destruct He as [(_ & He)| ->]; [congruence|].
      cbn [chosen] in Hs. rewrite Hacc, cyc_prefix_full in Hs.
      change (filter (fun e => is_chosen (e_tag e) ch) es) with (filter (chosenb ch) es) in Hs.
      rewrite Hnone in Hs. discriminate.
  Qed.

  Lemma qp_emit cc m s e s' : Q_pre m s -> http_step k cf es cc s = Emit e s' -> False.
  Proof.
    intros (d & acc & a & md & -> & _) Hs. cbn [http_step] in Hs.
    destruct (dec_step k cc 0 1 es d) as [d'|e0 d'|e0]; try discriminate.
    destruct e0; try discriminate. destruct (filter _ acc); discriminate.
  Qed.

  Lemma qp_stop m s o cl :
    Q_pre m s -> http_step k cf es false s = Stop o cl -> o = Failed ENoAmmo /\ cl = true.
  Proof.
    intros (d & acc & a & md & -> & HI & Hacc & Ha & Hm) Hs. cbn [http_step] in Hs.
    destruct (dec_step k false 0 1 es d) as [d'|e0 d'|e0] eqn:Ed; try discriminate.
    destruct (k_err _ _ _ _ _ _ Kp _ _ _ _ _ HI Ed) as [(Hc & _)|(HB & He)]; [discriminate|].
    assert (a = n) by (unfold bound in HB; injection HB as <-; lia). subst a.
    destruct He as [(_ & He)| ->]; [congruence|].
    cbn [chosen] in Hs. rewrite Hacc, cyc_prefix_full in Hs.
    change (filter (fun e => is_chosen (e_tag e) ch) es) with (filter (chosenb ch) es) in Hs.
    rewrite Hnone in Hs. injection Hs as <- <-. split; reflexivity.
  Qed.

  Lemma qp_init : Q_pre (n * (cD + 1) + cD + 2) (http_init true).
  Proof.
    exists dinit, [], 0, cD. split; [reflexivity|]. split; [apply (k_init _ _ _ _ _ _ Kp)|].
    split; [reflexivity|]. split; [lia|]. rewrite Nat.sub_0_r. lia.
  Qed.
End NoMatch.

(* a filter matching nothing: both paths, nothing delivered, "no ammo", sink closed, at most
   c14_const n * (n + 1) steps (no rescanning) *)
Lemma deliver_nomatch k preload es lim pas ch cancel fuel :
  es <> [] -> chosen_entries ch es = [] -> is_cancelled cancel 0 = false ->
  let x := deliver k preload (cfgc lim pas ch) es cancel fuel in
  delivered x = [] /\ steps x <= c14_const (length es) * (length es + 1)
  /\ (c14_const (length es) * (length es + 1) < fuel -> out x = Failed ENoAmmo /\ closed x = true).
Proof.
  intros Hn Hnone Hc. rewrite chosen_entries_is_filter in Hnone.
  pose proof (dkind_cD_le k) as HcD.
  assert (Hlen : 0 < length es) by (destruct es; [congruence|cbn; lia]).
  destruct preload; unfold deliver, cfgc, http_run.
  - destruct (dkind_contract k es 0 1 Hn) as (DI & K).
    destruct (silent_run (http_step k {| limit := lim; passes := pas; chosen := ch |} es)
                (Q_pre es (dkind_cD k) DI)) with (cancel := cancel) (fuel := fuel)
                (m := length es * (dkind_cD k + 1) + dkind_cD k + 2) (s := http_init true)
      as (A1 & A2 & A3).
    + intros m s s'. eapply (qp_cont k es lim pas ch Hnone _ _ K false); eauto.
    + intros m s e s'. eapply (qp_emit k es lim pas ch _ _ false); eauto.
    + intros m s o cl. eapply qp_stop; eauto.
    + exact Hc.
    + eapply qp_init; eauto.
    + split; [exact A1|]. split; [unfold c14_const; nia|].
      intros Hf. apply A3. unfold c14_const in Hf. nia.
  - destruct (dkind_contract k es 0 pas Hn) as (DI & K).
    destruct (silent_run (http_step k {| limit := lim; passes := pas; chosen := ch |} es)
                (Q_stream es (dkind_cD k) DI)) with (cancel := cancel) (fuel := fuel)
                (m := (length es + 1) * (dkind_cD k + 1) + dkind_cD k + 1) (s := http_init false)
      as (A1 & A2 & A3).
    + intros m s s'. eapply qs_cont; eauto.
    + intros m s e s'. eapply qs_emit; eauto.
    + intros m s o cl. eapply qs_stop; eauto.
    + exact Hc.
    + eapply qs_init; eauto.
    + split; [exact A1|]. split; [unfold c14_const; nia|].
      intros Hf. apply A3. unfold c14_const in Hf. nia.
Qed.

(* ---------------------------------------------------------------------------------- *)
(* the statements of C14 *)

Lemma chosen_entries_exact ch es e :
  In e (chosen_entries ch es) <-> In e es /\ (ch = [] \/ In (e_tag e) ch).
Proof.
  unfold chosen_entries. rewrite filter_In. unfold is_chosen.
  destruct ch as [|c r].
  - split; [intros (H & _); split; [exact H|left; reflexivity]|intros (H & _); split; [exact H|reflexivity]].
  - split.
    + intros (H & Hx). split; [exact H|right].
      apply existsb_exists in Hx. destruct Hx as (x & Hin & Hx). apply Nat.eqb_eq in Hx. subst x. exact Hin.
    + intros (H & [Hc|Hin]); [discriminate|]. split; [exact H|].
      apply existsb_exists. exists (e_tag e). split; [exact Hin|apply Nat.eqb_refl].
Qed.

Lemma c14_filter k preload es lim pas ch :
  es <> [] ->
  let n := length es in
  let src := chosen_entries ch es in
  let C := c14_const n in
  let runp := deliver k preload (cfgc lim pas ch) es in
  (* exactly the entries whose tag is listed (all entries when no tag is listed) *)
  (forall e, In e src <-> In e es /\ (ch = [] \/ In (e_tag e) ch))
  (* something matches: the chosen entries, in file order, cyclically; limit counts delivered entries *)
  /\ (src <> [] ->
      (forall b fuel, bound lim pas (length src) = Some b -> C * (b + n + 1) < fuel ->
         delivered (runp None fuel) = cyc_prefix src b /\ out (runp None fuel) = Ok /\ closed (runp None fuel) = true)
      /\ (forall cancel fuel,
            delivered (runp cancel fuel) = cyc_prefix src (length (delivered (runp cancel fuel)))
            /\ le_opt (length (delivered (runp cancel fuel))) (bound lim pas (length src))
            /\ steps (runp cancel fuel) <= C * (length (delivered (runp cancel fuel)) + n + 1))
      /\ (bound lim pas (length src) = None -> forall m, exists fuel,
            m <= length (delivered (runp None fuel))))
  (* nothing matches: nothing delivered, no rescanning, "no ammo", sink closed *)
  /\ (src = [] -> forall cancel fuel, is_cancelled cancel 0 = false ->
      delivered (runp cancel fuel) = [] /\ steps (runp cancel fuel) <= C * (n + 1)
      /\ (C * (n + 1) < fuel -> out (runp cancel fuel) = Failed ENoAmmo /\ closed (runp cancel fuel) = true)).
Proof.
  intros Hn n src C runp. split; [|split].
  - intros e. apply chosen_entries_exact.
  - intros Hsrc. destruct (deliver_spec k preload es lim pas ch Hn Hsrc) as (P1 & P2 & P3 & P4).
    fold n src C runp in P1, P2, P3, P4.
    split; [|split].
    + intros b fuel HB Hf. apply (P2 b fuel HB Hf).
    + intros cancel fuel. destruct (P1 cancel fuel) as (A1 & A2 & _ & A4 & _). auto.
    + intros HB m. exists (C * (m + n + 1) + C).
      destruct (P4 HB (C * (m + n + 1) + C)) as (_ & A2).
      assert (0 < C) by (unfold C, c14_const; lia). nia.
  - intros Hnone cancel fuel Hc.
    apply (deliver_nomatch k preload es lim pas ch cancel fuel Hn Hnone Hc).
Qed.

Lemma c14_equiv k es lim pas ch :
  es <> [] ->
  let n := length es in
  let src := chosen_entries ch es in
  let C := c14_const n in
  let on := deliver k true (cfgc lim pas ch) es in
  let off := deliver k false (cfgc lim pas ch) es in
  (* the run ends by itself (a bound exists, or nothing matches): same sequence, same result *)
  (forall b f1 f2, ((src <> [] /\ bound lim pas (length src) = Some b) \/ (src = [] /\ b = n)) ->
     C * (b + n + 1) < f1 -> C * (b + n + 1) < f2 ->
     delivered (on None f1) = delivered (off None f2)
     /\ out (on None f1) = out (off None f2) /\ closed (on None f1) = closed (off None f2))
  (* any two runs: one delivered sequence is a prefix of the other *)
  /\ (forall c1 c2 f1 f2,
        let a := delivered (on c1 f1) in let b := delivered (off c2 f2) in
        a = firstn (length a) b \/ b = firstn (length b) a)
  (* cancelled once j items were sent: same sequence, both return with the sink closed *)
  /\ (forall j f1 f2, src <> [] -> C * (j + n + 1) < f1 -> C * (j + n + 1) < f2 ->
        delivered (on (Some j) f1) = delivered (off (Some j) f2)
        /\ closed (on (Some j) f1) = true /\ closed (off (Some j) f2) = true
        /\ clean_or_cancelled (out (on (Some j) f1)) /\ clean_or_cancelled (out (off (Some j) f2))).
Proof.
  intros Hn n src C on off.
  assert (Hlen : 0 < n) by (unfold n; destruct es; [congruence|cbn; lia]).
  split; [|split].
  - intros b f1 f2 [(Hsrc & HB)|(Hnone & ->)] H1 H2.
    + destruct (deliver_spec k true es lim pas ch Hn Hsrc) as (_ & P2 & _).
      destruct (deliver_spec k false es lim pas ch Hn Hsrc) as (_ & Q2 & _).
      fold n src C in P2, Q2.
      destruct (P2 b f1 HB H1) as (A1 & A2 & A3). destruct (Q2 b f2 HB H2) as (B1 & B2 & B3).
      fold on in A1, A2, A3. fold off in B1, B2, B3.
      rewrite A1, B1, A2, B2, A3, B3. auto.
    + destruct (deliver_nomatch k true es lim pas ch None f1 Hn Hnone eq_refl) as (A1 & _ & A3).
      destruct (deliver_nomatch k false es lim pas ch None f2 Hn Hnone eq_refl) as (B1 & _ & B3).
      fold n C on in A1, A3. fold n C off in B1, B3.
      destruct A3 as (A2 & A3); [nia|]. destruct B3 as (B2 & B3); [nia|].
      rewrite A1, B1, A2, B2, A3, B3. auto.
  - intros c1 c2 f1 f2 a b.
    destruct (list_eq_dec Nat.eq_dec (ids src) []) as [E|E].
    + (* nothing matches: both empty unless cancelled at 0, where both are empty too *)
      assert (Hnone : src = []) by (destruct src; [reflexivity|discriminate]).
      assert (Ha : a = []).
      { unfold a, on, deliver, http_run. unfold src in Hnone. rewrite chosen_entries_is_filter in Hnone.
        destruct (dkind_contract k es 0 1 Hn) as (DI & K).
        apply (silent_nodeliver _ (fun s => exists m, Q_pre es (dkind_cD k) DI m s)).
        - intros cc s s' (m & HQ) Hs.
          destruct (qp_cont k es lim pas ch Hnone _ _ K cc m s s' HQ Hs) as (m' & _ & HQ'). eauto.
        - intros cc s e s' (m & HQ) Hs. eapply (qp_emit k es lim pas ch _ _ cc); eauto.
        - eexists. eapply qp_init; eauto. }
      left. rewrite Ha. reflexivity.
    + assert (Hsrc : src <> []) by (intros E'; apply E; rewrite E'; reflexivity).
      destruct (deliver_spec k true es lim pas ch Hn Hsrc) as (P1 & _).
      destruct (deliver_spec k false es lim pas ch Hn Hsrc) as (Q1 & _).
      destruct (P1 c1 f1) as (A1 & _). destruct (Q1 c2 f2) as (B1 & _).
      fold src on in A1. fold src off in B1. fold a in A1. fold b in B1.
      destruct (Nat.le_ge_cases (length a) (length b)) as [Hle|Hle].
      * left. rewrite B1. rewrite A1 at 1. unfold cyc_prefix.
        rewrite firstn_map, firstn_seq_min, Nat.min_l by exact Hle. reflexivity.
      * right. rewrite A1. rewrite B1 at 1. unfold cyc_prefix.
        rewrite firstn_map, firstn_seq_min, Nat.min_l by exact Hle. reflexivity.
  - intros j f1 f2 Hsrc H1 H2.
    destruct (deliver_spec k true es lim pas ch Hn Hsrc) as (P1 & _ & P3 & _).
    destruct (deliver_spec k false es lim pas ch Hn Hsrc) as (Q1 & _ & Q3 & _).
    fold n src C in P1, P3, Q1, Q3.
    destruct (P3 j f1 H1) as (_ & A2 & A3 & A4). destruct (Q3 j f2 H2) as (_ & B2 & B3 & B4).
    destruct (P1 (Some j) f1) as (A1 & A5 & A6 & _). destruct (Q1 (Some j) f2) as (B1 & B5 & B6 & _).
    fold on in A1, A2, A3, A4, A5, A6. fold off in B1, B2, B3, B4, B5, B6.
    specialize (A6 j eq_refl). specialize (B6 j eq_refl).
    assert (length (delivered (on (Some j) f1)) = length (delivered (off (Some j) f2))) as El.
    { destruct A4 as [A4|A4], B4 as [B4|B4]; try lia.
      - rewrite B4 in A5. cbn in A5. lia.
      - rewrite A4 in B5. cbn in B5. lia.
      - rewrite A4 in B4. injection B4 as B4. exact B4. }
    split; [rewrite A1, B1, El; reflexivity|]. auto.
Qed.

(* a file without entries (outside the quantifier of C08/C14, decided by C13): both paths of
   every http decoder kind deliver nothing and fail with "no ammo", sink closed, in 3 steps *)
Lemma deliver_empty_file k preload lim pas ch fuel :
  3 <= fuel ->
  let x := deliver k preload (cfgc lim pas ch) [] None fuel in
  delivered x = [] /\ closed x = true
  /\ (out x = Failed ENoAmmo \/ out x = Failed (ELoad ENoAmmo)).
Proof.
  intros Hf. destruct fuel as [|[|[|f]]]; try lia.
  destruct k, preload; destruct lim as [|l]; destruct pas as [|[|p]]; cbn; auto.
Qed.
