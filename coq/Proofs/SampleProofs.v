From Coq Require Import List NArith ZArith Bool Lia.
From PV Require Import Lib.Table Model.Sample.
Import ListNotations.
Local Open Scope N_scope.

(* ---------- autotag ---------- *)

Lemma split_on_acc sep acc s :
  split_on sep acc s =
  match split_on sep [] s with
  | [] => []
  | h :: t => (rev acc ++ h) :: t
  end.
Proof.
  revert acc; induction s as [|c r IH]; intros acc; cbn [split_on].
  - rewrite app_nil_r. reflexivity.
  - destruct (N.eqb c sep).
    + cbn [rev]. rewrite app_nil_r. reflexivity.
    + rewrite IH. rewrite (IH [c]).
      destruct (split_on sep [] r) as [|h t]; [reflexivity|].
      cbn [rev app]. rewrite <- app_assoc. reflexivity.
Qed.

Lemma split_on_nonempty sep acc s : split_on sep acc s <> [].
Proof.
  revert acc; induction s as [|c r IH]; intros acc; cbn [split_on]; [discriminate|].
  destruct (N.eqb c sep); [discriminate|apply IH].
Qed.

Lemma join_with_cons_cons sep x y r :
  join_with sep (x :: y :: r) = x ++ sep :: join_with sep (y :: r).
Proof. reflexivity. Qed.

Lemma autotag_go_spec depth path : autotag_go depth path = autotag_spec depth path.
Proof.
  unfold autotag_spec.
  revert depth; induction path as [|c r IH]; intros depth.
  - destruct depth; reflexivity.
  - cbn [autotag_go split_on].
    destruct (N.eqb_spec c slash) as [->|Hne].
    + cbn [rev]. destruct depth as [|d].
      * reflexivity.
      * rewrite IH.
        change (firstn (S (S d)) ([] :: split_on slash [] r))
          with ([] :: firstn (S d) (split_on slash [] r)).
        destruct (split_on slash [] r) as [|h t] eqn:E; [exfalso; eapply split_on_nonempty; eauto|].
        cbn [firstn]. rewrite join_with_cons_cons. reflexivity.
    + rewrite IH. rewrite (split_on_acc slash [c] r).
      destruct (split_on slash [] r) as [|h t] eqn:E; [exfalso; eapply split_on_nonempty; eauto|].
      cbn [rev app firstn].
      destruct (firstn depth t) as [|y ys]; reflexivity.
Qed.

(* the auto-tag is a prefix of the path: nothing is invented *)
Lemma autotag_prefix depth path : exists rest, path = autotag_go depth path ++ rest.
Proof.
  revert depth; induction path as [|c r IH]; intros depth; cbn [autotag_go].
  - exists []; reflexivity.
  - destruct (N.eqb c slash).
    + destruct depth as [|d].
      * exists (c :: r); reflexivity.
      * destruct (IH d) as [rest H]. exists rest. cbn [app]. f_equal. exact H.
    + destruct (IH depth) as [rest H]. exists rest. cbn [app]. f_equal. exact H.
Qed.

(* ---------- tag choice ---------- *)

Lemma shoot_tags_nonempty cfg t p : shoot_tags cfg t p <> [].
Proof.
  unfold shoot_tags.
  destruct (at_enabled cfg && (negb (at_notagonly cfg) || is_nil t)).
  - destruct (add_tag t (autotag_go (at_depth cfg) p)) eqn:E; cbn [is_nil]; [discriminate|discriminate].
  - destruct t; cbn [is_nil add_tag]; discriminate.
Qed.

Lemma shoot_tags_disabled cfg t p :
  at_enabled cfg = false ->
  shoot_tags cfg t p = match t with [] => empty_tag | _ => t end.
Proof. unfold shoot_tags; intros ->; destruct t; reflexivity. Qed.

Lemma shoot_tags_notagonly_keeps cfg t p :
  at_enabled cfg = true -> at_notagonly cfg = true -> t <> [] -> shoot_tags cfg t p = t.
Proof.
  unfold shoot_tags; intros -> -> Ht. destruct t; [contradiction|reflexivity].
Qed.

Lemma shoot_tags_auto_untagged cfg p :
  at_enabled cfg = true ->
  shoot_tags cfg [] p =
    match autotag_spec (at_depth cfg) p with [] => empty_tag | a => a end.
Proof.
  unfold shoot_tags; intros ->. rewrite orb_true_r. cbn [andb add_tag].
  rewrite autotag_go_spec. destruct (autotag_spec (at_depth cfg) p); reflexivity.
Qed.

Lemma shoot_tags_auto_tagged cfg t p :
  at_enabled cfg = true -> at_notagonly cfg = false -> t <> [] ->
  shoot_tags cfg t p = t ++ 124 :: autotag_spec (at_depth cfg) p.
Proof.
  unfold shoot_tags; intros -> -> Ht. cbn [negb orb andb].
  rewrite autotag_go_spec. destruct t as [|a r]; [contradiction|]. reflexivity.
Qed.

(* ---------- errno ---------- *)

Fixpoint net_wrapped (e : nerr) : nerr :=
  match e with EOp e' | ESys e' | EUrl e' => net_wrapped e' | _ => e end.

Lemma errno_loop_net e : errno_loop e = errno_loop (net_wrapped e).
Proof. induction e; cbn [errno_loop net_wrapped]; auto. Qed.

Lemma get_errno_timeout e : get_errno true e = 110.
Proof. reflexivity. Qed.

(* An Errno under any nesting of pkg/errors wrappers followed by any nesting of the three
   net wrappers is reported as that errno. *)
Lemma get_errno_errno e n :
  net_wrapped (strip_wrap e) = EErrno n -> get_errno false e = n.
Proof. unfold get_errno. intros H. rewrite errno_loop_net, H. reflexivity. Qed.

Lemma get_errno_other e :
  (forall n, net_wrapped (strip_wrap e) <> EErrno n) -> get_errno false e = proto_code_error.
Proof.
  unfold get_errno. intros H. rewrite errno_loop_net.
  destruct (net_wrapped (strip_wrap e)) eqn:E; try reflexivity.
  - (* EOp impossible: net_wrapped never returns a net wrapper *)
    exfalso. clear H. revert E. generalize (strip_wrap e). intros x; induction x; cbn [net_wrapped]; try discriminate; auto.
  - exfalso. clear H. revert E. generalize (strip_wrap e). intros x; induction x; cbn [net_wrapped]; try discriminate; auto.
  - exfalso. clear H. revert E. generalize (strip_wrap e). intros x; induction x; cbn [net_wrapped]; try discriminate; auto.
  - exfalso. eapply H; reflexivity.
Qed.

(* the error code of a failed exchange is never 0, provided errno values are non-zero *)
Fixpoint errnos_nonzero (e : nerr) : Prop :=
  match e with
  | EOp e' | ESys e' | EUrl e' | EWrap e' | EUnder e' => errnos_nonzero e'
  | EErrno n => n <> 0
  | EOther => True
  end.

Lemma errno_loop_nonzero e : errnos_nonzero e -> errno_loop e <> 0.
Proof.
  induction e; cbn [errno_loop errnos_nonzero]; auto; intros _; unfold proto_code_error; discriminate.
Qed.

Lemma strip_under_nonzero e : errnos_nonzero e -> errnos_nonzero (strip_under e).
Proof. induction e; cbn [strip_under errnos_nonzero]; auto. Qed.
Lemma strip_cause_nonzero e : errnos_nonzero e -> errnos_nonzero (strip_cause e).
Proof. induction e; cbn [strip_cause errnos_nonzero]; auto. Qed.
Lemma strip_wrap_nonzero e : errnos_nonzero e -> errnos_nonzero (strip_wrap e).
Proof. intros H. apply strip_cause_nonzero, strip_under_nonzero, H. Qed.

Lemma get_errno_nonzero t e : errnos_nonzero e -> get_errno t e <> 0.
Proof.
  unfold get_errno; destruct t; [discriminate|].
  intros H. apply errno_loop_nonzero, strip_wrap_nonzero, H.
Qed.

(* ---------- ids ---------- *)

Lemma ids_from_lower s n x : In x (ids_from s n) -> s <= x.
Proof.
  revert s; induction n as [|k IH]; intros s; cbn [ids_from In]; [tauto|].
  intros [<-|H]; [lia|]. apply IH in H. lia.
Qed.

Lemma ids_from_nodup s n : NoDup (ids_from s n).
Proof.
  revert s; induction n as [|k IH]; intros s; cbn [ids_from]; constructor.
  - intros H. apply ids_from_lower in H. lia.
  - apply IH.
Qed.

Lemma ids_from_length s n : length (ids_from s n) = n.
Proof. revert s; induction n as [|k IH]; intros s; cbn [ids_from length]; auto. Qed.
