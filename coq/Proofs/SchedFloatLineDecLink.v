(* Property C01, floating-point side: lineDoAt/NewLine in float64 against the exact model for
   DECREASING lines with binary64 rates.  The bound carries the conditioning
       c >= (from/rate(x)) * from/(from - to)        (rate(x) = rate at the instant of operation k)
   and reaches the driver's tolerance 1 + D/2^40 + D*kappa/2^48 while 3c <= 1020 + 4 kappa.
   Operations scheduled where the rate has fallen below that are NOT covered (partial). *)
From Coq Require Import ZArith QArith Qround Qreals Reals Lra Lia Psatz.
From Flocq Require Import Core.
From PV Require Import Model.Sched Proofs.SchedQ Proofs.SchedProofs Proofs.SchedReal
  Proofs.SchedFloatCore Proofs.SchedFloatRel Proofs.SchedFloatConst Proofs.SchedFloatLine Proofs.SchedFloatLink
  Proofs.SchedFloatLineLink Proofs.SchedFloatLineDec.
Local Open Scope R_scope.

Lemma line_slope_neg F T D : (0 < D)%Z -> line_slope F T D = - line_slope T F D.
Proof.
  intros HD. assert (0 < IZR D) by (apply IZR_lt; exact HD).
  unfold line_slope, billion. field. lra.
Qed.

Lemma line_V_S alpha b i : line_V alpha b i = b * b / line_S (- alpha) b i * (billion / alpha).
Proof.
  unfold line_V, line_S. replace (2 * - alpha * IZR i + b * b) with (b * b - 2 * alpha * IZR i) by ring. reflexivity.
Qed.

Lemma line_model_facts_dec f t D k (c : Z) :
  valid (PLine f t D) -> (t < f)%Q -> (0 <= k < count (PLine f t D))%Z ->
  let alpha := line_slope (Q2R t) (Q2R f) D in
  Q2R f * Q2R f <= IZR c * (Q2R f - Q2R t) * line_S (- alpha) (Q2R f) k -> (c <= 2 ^ 23)%Z ->
  exists x, line_at f t D k = Some x /\
    x = Zfloor (line_Y (- alpha) (Q2R f) k) /\
    0 <= line_Y (- alpha) (Q2R f) k <= IZR D /\ line_V alpha (Q2R f) k <= IZR c * IZR D /\
    0 < alpha /\
    128 * u * (Q2R f * Q2R f) <= Q2R f * Q2R f - 2 * alpha * IZR k.
Proof.
  intros Hv Hlt Hk alpha Hc Hc23.
  assert (Hne : ~ (f == t)%Q) by (intros E; rewrite E in Hlt; apply (Qlt_irrefl t); exact Hlt).
  destruct (at_bracket (PLine f t D) k Hv eq_refl Hk) as (x & Hat & Hx0 & Hx1 & _).
  assert (Hat' : line_at f t D k = Some x).
  { unfold at_, the_leaf in Hat. destruct (line_cases f t D) as [[E _]|[_ E]]; [contradiction|].
    rewrite E in Hat. exact Hat. }
  assert (Hx1' : (x + 1 <= D)%Z).
  { unfold dur, the_leaf in Hx1. destruct (line_cases f t D) as [[E _]|[_ E]]; [contradiction|].
    rewrite E in Hx1. exact Hx1. }
  pose proof (line_at_is_trunc f t D k x Hv Hne (proj1 Hk) Hat') as Htr. cbv zeta in Htr.
  destruct (slopeR_line_slope f t D) as [Es Ei]. rewrite Es, Ei, line_at_R_line_Y in Htr.
  destruct Hv as (Hf & Ht & HDm). unfold min_dur in HDm.
  rewrite line_slope_neg in Htr by lia. fold alpha in Htr.
  set (F := Q2R f) in *. set (T := Q2R t) in *.
  assert (HT : 0 <= T) by (apply Q2R_nonneg; exact Ht).
  assert (HFT : T < F) by (apply Qlt_Rlt; exact Hlt).
  assert (HD : 1000000 <= IZR D) by (apply IZR_le; exact HDm).
  assert (Hsecs : 0 < IZR D / billion) by (unfold billion; apply Rmult_lt_0_compat; [lra|apply Rinv_0_lt_compat; lra]).
  assert (Ha : 0 < alpha) by (unfold alpha, line_slope; apply Rmult_lt_0_compat; [lra|apply Rinv_0_lt_compat; exact Hsecs]).
  set (Y := line_Y (- alpha) F k) in *.
  exists x. split; [exact Hat'|].
  assert (Hfl : x = Zfloor Y) by (symmetry; apply Zfloor_imp; rewrite plus_IZR; exact Htr).
  split; [exact Hfl|].
  assert (HxR : IZR x + 1 <= IZR D) by (rewrite <- plus_IZR; apply IZR_le; exact Hx1').
  assert (Hx0R : 0 <= IZR x) by (apply IZR_le; exact Hx0).
  split; [lra|].
  set (S := line_S (- alpha) F k) in *.
  assert (HF0 : 0 < F) by lra.
  assert (HcS : 0 < IZR c * S).
  { destruct (Rle_or_lt (IZR c * S) 0) as [H0|H0]; [|exact H0]. exfalso.
    assert (IZR c * (F - T) * S <= 0) by (replace (IZR c * (F - T) * S) with ((F - T) * (IZR c * S)) by ring; nra). nra. }
  assert (HS0 : 0 <= S) by (unfold S, line_S; apply sqrt_pos).
  assert (HS : 0 < S) by (destruct (Req_dec S 0) as [E|E]; [rewrite E in HcS; lra|lra]).
  assert (Hc0 : 0 < IZR c) by nra.
  assert (EQ : billion / alpha = IZR D / (F - T)).
  { unfold alpha, line_slope, billion. field. split; lra. }
  split; [|split; [exact Ha|]].
  - rewrite line_V_S. fold S. rewrite EQ.
    apply (Rmult_le_reg_r (S * (F - T))); [apply Rmult_lt_0_compat; lra|].
    replace (F * F / S * (IZR D / (F - T)) * (S * (F - T))) with (F * F * IZR D) by (field; split; lra).
    replace (IZR c * IZR D * (S * (F - T))) with (IZR D * (IZR c * (F - T) * S)) by ring.
    rewrite (Rmult_comm (F * F)). apply Rmult_le_compat_l; [lra|exact Hc].
  - (* F <= c S, hence R = S^2 >= F^2 / c^2 >= 2^-46 F^2 *)
    assert (HFcS : F <= IZR c * S).
    { assert (IZR c * (F - T) * S <= F * (IZR c * S)).
      { replace (IZR c * (F - T) * S) with ((F - T) * (IZR c * S)) by ring. apply Rmult_le_compat_r; lra. }
      apply (Rmult_le_reg_l F); [exact HF0|]. lra. }
    assert (HSS : S * S = F * F - 2 * alpha * IZR k).
    { unfold S, line_S. rewrite sqrt_sqrt.
      - ring.
      - (* the radicand is >= 0: otherwise S = 0 *)
        destruct (Rle_or_lt 0 (2 * - alpha * IZR k + F * F)) as [H|H]; [exact H|].
        exfalso. unfold S, line_S in HS. rewrite sqrt_neg_0 in HS by lra. lra. }
    rewrite <- HSS.
    assert (Hc23R : IZR c <= 8388608) by (apply IZR_le in Hc23; simpl in Hc23; exact Hc23).
    pose proof u_val as Hu_val.
    assert (F * F <= (IZR c * S) * (IZR c * S)) by nra.
    assert ((IZR c * S) * (IZR c * S) <= 8388608 * 8388608 * (S * S)).
    { replace (IZR c * S * (IZR c * S)) with (IZR c * IZR c * (S * S)) by ring.
      apply Rmult_le_compat_r; [nra|]. nra. }
    rewrite Hu_val. nra.
Qed.

Theorem float_line_at_model_dec f t D k (c kappa : Z) :
  valid (PLine f t D) -> (t < f)%Q ->
  is_b64 (Q2R f) -> is_b64 (Q2R t) -> rate_guard (Q2R f) ->
  let a := go_line_a (Q2R f) (Q2R t) D in
  slope_guard (- a) ->
  (D < 2 ^ 63)%Z -> (0 <= k < count (PLine f t D))%Z -> (k < 2 ^ 53)%Z ->
  Q2R f * Q2R f <= IZR c * (Q2R f - Q2R t) * line_S (line_slope (Q2R f) (Q2R t) D) (Q2R f) k ->
  (c <= 2 ^ 23)%Z -> (0 <= kappa)%Z -> (3 * c <= 1020 + 4 * kappa)%Z ->
  exists x, line_at f t D k = Some x /\
    (Z.abs (go_line_at a (Q2R f) k - x) <= 1 + D / 2 ^ 40 + (D * kappa) / 2 ^ 48)%Z.
Proof.
  intros Hv Hlt Ff Ft Hb a Hga HD Hk Hk53 Hc Hc23 Hkap Hck.
  pose proof u_pos as Hu_pos. pose proof u_val as Hu_val.
  assert (HDpos : (0 < D)%Z) by (destruct Hv as (_ & _ & H); unfold min_dur in H; lia).
  rewrite line_slope_neg in Hc by exact HDpos.
  destruct (line_model_facts_dec f t D k c Hv Hlt Hk Hc Hc23) as (x & Hat & Hfl & HY & HV & Hapos & HG).
  exists x. split; [exact Hat|].
  destruct Hv as (Hf & Htv & HDm). unfold min_dur in HDm.
  set (F := Q2R f) in *. set (T := Q2R t) in *.
  assert (HFT : T < F) by (apply Qlt_Rlt; exact Hlt).
  (* the float64 slope is minus the slope of the mirrored line *)
  assert (Ea : a = - go_line_a T F D) by (unfold a; apply go_line_a_neg).
  set (al' := go_line_a T F D) in *.
  assert (Hga' : slope_guard al') by (rewrite Ea, Ropp_involutive in Hga; exact Hga).
  destruct (go_line_a_rel T F D Ft Ff HFT) as [Hrel Hpos]; [lia|exact Hga'|]. fold al' in Hrel.
  set (al := line_slope T F D) in *.
  assert (Fa : is_b64 al') by (unfold al', go_line_a, fdiv; apply is_b64_rnd).
  destruct (line_at_dec_f_err_slope al al' F k Hpos Hrel Fa Ff Hga' Hb) as (He & _); [lia|exact HG|].
  rewrite <- Ea in He.
  set (Y := line_Y (- al) F k) in *. set (V := line_V al F k) in *.
  assert (HDR : 1000000 <= IZR D) by (apply IZR_le; exact HDm).
  assert (Heta : eta <= / 1000000000000).
  { unfold eta. apply Rle_trans with (bpow radix2 (-100)); [apply bpow_le; lia|]. simpl bpow. lra. }
  assert (HcR : 3 * IZR c <= 1020 + 4 * IZR kappa).
  { apply IZR_le in Hck. rewrite plus_IZR, !mult_IZR in Hck. exact Hck. }
  assert (HkR : 0 <= IZR kappa) by (apply IZR_le; exact Hkap).
  assert (Hdev : Rabs (go_line_at_f a F k - Y) <= 11 * u * IZR D + 12 * u * (IZR c * IZR D) + eta).
  { apply Rle_trans with (1 := He).
    assert (11 * u * Y <= 11 * u * IZR D) by (apply Rmult_le_compat_l; lra).
    assert (12 * u * V <= 12 * u * (IZR c * IZR D)) by (apply Rmult_le_compat_l; lra). lra. }
  set (A := IZR D * / IZR (2 ^ 40)). set (B := IZR (D * kappa) * / IZR (2 ^ 48)).
  assert (E40 : IZR (2 ^ 40) = 1099511627776) by (simpl; reflexivity).
  assert (E48 : IZR (2 ^ 48) = 281474976710656) by (simpl; reflexivity).
  assert (HAB : 11 * u * IZR D + 12 * u * (IZR c * IZR D) + eta <= A / 2 + B / 2).
  { unfold A, B. rewrite E40, E48, mult_IZR, Hu_val.
    assert (12 * (IZR c * IZR D) <= (4080 + 16 * IZR kappa) * IZR D) by nra.
    assert (0 <= IZR kappa * IZR D) by (apply Rmult_le_pos; lra). lra. }
  assert (HA0 : 0 <= A) by (unfold A; rewrite E40; lra).
  assert (HB0 : 0 <= B).
  { unfold B. rewrite E48, mult_IZR. assert (0 <= IZR D * IZR kappa) by (apply Rmult_le_pos; lra). lra. }
  assert (HdA : (0 <= D / 2 ^ 40)%Z) by (apply Z.div_pos; lia).
  assert (HdB : (0 <= (D * kappa) / 2 ^ 48)%Z) by (apply Z.div_pos; nia).
  unfold go_line_at. rewrite Hfl. fold Y.
  destruct (Rle_or_lt B A) as [Hcmp|Hcmp].
  - assert (H1 : (Z.abs (to_int (go_line_at_f a F k) - Zfloor Y) <= 1 + D / 2 ^ 40)%Z).
    { apply trunc_close_tol; [lia|lra|]. fold A. lra. }
    lia.
  - assert (H1 : (Z.abs (to_int (go_line_at_f a F k) - Zfloor Y) <= 1 + (D * kappa) / 2 ^ 48)%Z).
    { apply trunc_close_tol; [lia|lra|]. fold B. lra. }
    lia.
Qed.

(* ------------------------------------------------------------------------------------ *)
(* NewLine's count of a decreasing line against the executable specification *)
Theorem float_line_count_model_dec f t D :
  valid (PLine f t D) -> (t < f)%Q ->
  is_b64 (Q2R f) -> is_b64 (Q2R t) -> rate_guard (Q2R f) ->
  let a := go_line_a (Q2R f) (Q2R t) D in
  slope_guard (- a) -> (D < 2 ^ 63)%Z ->
  let I := Q2R (cum_line f t D D) in
  count_ok (cum_line f t D D) (1 # 1099511627776) (go_line_n a (Q2R f) D) = true /\
  Rabs (go_line_n_f a (Q2R f) D - I) <= I * bpow radix2 (-48) /\
  (go_line_n a (Q2R f) D <> count (PLine f t D) -> exists m : Z, Rabs (IZR m - I) <= I * bpow radix2 (-48)) /\
  (I <= bpow radix2 62 -> (0 <= go_line_n a (Q2R f) D < 2 ^ 63)%Z).
Proof.
  intros Hv Hlt Ff Ft Hb a Hga HD I.
  pose proof (count_spec (PLine f t D) Hv eq_refl) as Hc.
  rewrite (dur_rate (PLine f t D) eq_refl) in Hc. cbn [cum] in Hc.
  destruct Hv as (Hf & Htv & HDm). unfold min_dur in HDm.
  set (F := Q2R f) in *. set (T := Q2R t) in *.
  assert (HT0 : 0 <= T) by (apply Q2R_nonneg; exact Htv).
  assert (HFT : T < F) by (apply Qlt_Rlt; exact Hlt).
  assert (Ea : a = - go_line_a T F D) by (unfold a; apply go_line_a_neg).
  set (al' := go_line_a T F D) in *.
  assert (Hga' : slope_guard al') by (rewrite Ea, Ropp_involutive in Hga; exact Hga).
  destruct (go_line_a_rel T F D Ft Ff HFT) as [Hrel Hpos]; [lia|exact Hga'|]. fold al' in Hrel.
  set (al := line_slope T F D) in *.
  assert (HDR : 0 < IZR D) by (apply IZR_lt; lia).
  assert (Hab : al * (IZR D / billion) <= F).
  { unfold al, line_slope, billion. replace ((F - T) / (IZR D / 1000000000) * (IZR D / 1000000000)) with (F - T) by (field; lra). lra. }
  destruct (line_n_dec_f_err al al' F D Hpos Hrel Hga' Hb) as (H1 & HP & HI); [lia|exact Hab|].
  rewrite <- Ea in H1, HP.
  assert (EI : I = line_I (- al) F D).
  { unfold I. rewrite Q2R_cum_line_D by lia. fold F T. rewrite line_slope_neg by lia. reflexivity. }
  rewrite <- EI in H1, HI.
  assert (Heps : bpow radix2 (-48) = / 281474976710656) by (simpl bpow; reflexivity).
  rewrite Heps in *.
  destruct (count_from_err (go_line_n_f a F D) I (/ 281474976710656) HI HP) as ([H2 H3] & H4 & H5); [lra|exact H1|].
  assert (En : go_line_n a F D = Zfloor (go_line_n_f a F D)) by (unfold go_line_n; apply to_int_floor; exact HP).
  rewrite En.
  split; [|split; [exact H1|split; [|exact H5]]].
  - unfold count_ok. apply andb_true_intro. split; apply Z.leb_le.
    + rewrite <- Zfloor_Q2R, Q2R_mult, Q2R_minus. fold I.
      apply Z.le_trans with (2 := H2). apply Zfloor_le. unfold Q2R. cbn. nra.
    + rewrite <- Zfloor_Q2R, Q2R_mult, Q2R_plus. fold I.
      apply Z.le_trans with (1 := H3). apply Zfloor_le. unfold Q2R. cbn. nra.
  - rewrite Hc, <- Zfloor_Q2R. fold I. exact H4.
Qed.

(* ------------------------------------------------------------------------------------ *)
(* non-vacuity: line from 10 to 0 requests per second over 0.5 s: 2 operations, the second at
   112 701 665 ns where the rate is sqrt 60 = 7.7 (c = 2 >= (10/7.7)*(10/10), kappa = 1) *)
Lemma example_dec_slope_guard : slope_guard (- go_line_a 10 0 500000000).
Proof.
  pose proof u_pos as Hu_pos. pose proof u_val as Hu_val.
  rewrite go_line_a_neg, Ropp_involutive.
  destruct (go_secs_rel 500000000) as [[Hs1 Hs2] _]; [lia|].
  unfold go_line_a, fsub, fdiv. rewrite Rminus_0_r.
  rewrite (rnd_id 10) by (apply is_b64_int; lia).
  set (xn := go_secs 500000000) in *.
  assert (Hx : 49 / 100 <= xn <= 51 / 100).
  { unfold billion in *. rewrite Hu_val in *. split; lra. }
  assert (H6 : 19 <= 10 / xn <= 21).
  { split.
    - apply (Rmult_le_reg_r xn); [lra|]. unfold Rdiv. rewrite Rmult_assoc, Rinv_l by lra. lra.
    - apply (Rmult_le_reg_r xn); [lra|]. unfold Rdiv. rewrite Rmult_assoc, Rinv_l by lra. lra. }
  assert (R6 : rnd 19 = 19) by (apply rnd_id, is_b64_int; lia).
  assert (R7 : rnd 21 = 21) by (apply rnd_id, is_b64_int; lia).
  pose proof (rnd_le _ _ (proj1 H6)). pose proof (rnd_le _ _ (proj2 H6)).
  unfold slope_guard, p2_40, p2_50. lra.
Qed.

Example float_line_dec_example :
  let f := (10 # 1)%Q in let t := 0%Q in let D := 500000000%Z in
  let a := go_line_a (Q2R f) (Q2R t) D in
  valid (PLine f t D) /\ is_b64 (Q2R f) /\ is_b64 (Q2R t) /\ rate_guard (Q2R f) /\ slope_guard (- a) /\
  count (PLine f t D) = 2%Z /\ line_at f t D 1 = Some 112701665%Z /\
  go_line_n a (Q2R f) D = 2%Z /\
  (Z.abs (go_line_at a (Q2R f) 1 - 112701665) <= 1)%Z.
Proof.
  intros f t D a.
  assert (Ef : Q2R f = 10) by (unfold f, Q2R; cbn; lra).
  assert (Et : Q2R t = 0) by (unfold t, Q2R; cbn; lra).
  assert (Hv : valid (PLine f t D)) by (repeat split; [unfold Qle; cbn; lia|unfold Qle; cbn; lia|unfold min_dur, D; lia]).
  assert (Hlt : (t < f)%Q) by (unfold Qlt; cbn; lia).
  assert (Ff : is_b64 (Q2R f)) by (rewrite Ef; apply is_b64_int; lia).
  assert (Ft : is_b64 (Q2R t)) by (rewrite Et; apply generic_format_0).
  assert (Hgf : rate_guard (Q2R f)) by (rewrite Ef; unfold rate_guard, p2_20, p2_40; lra).
  assert (Hg : slope_guard (- a)) by (unfold a; rewrite Ef, Et; exact example_dec_slope_guard).
  assert (Hc : count (PLine f t D) = 2%Z) by (vm_compute; reflexivity).
  assert (Ha : line_at f t D 1 = Some 112701665%Z) by (vm_compute; reflexivity).
  split; [exact Hv|]. split; [exact Ff|]. split; [exact Ft|]. split; [exact Hgf|]. split; [exact Hg|].
  split; [exact Hc|]. split; [exact Ha|]. split.
  - destruct (float_line_count_model_dec f t D Hv Hlt Ff Ft Hgf Hg) as (_ & _ & H & _); [unfold D; lia|].
    fold a in H. destruct (Z.eq_dec (go_line_n a (Q2R f) D) 2) as [E|NE]; [exact E|exfalso].
    rewrite Hc in H. destruct (H NE) as (m & Hm).
    rewrite Q2R_cum_line_D in Hm by (unfold D; lia). rewrite Ef, Et in Hm.
    unfold line_I, line_slope, D, billion in Hm. simpl bpow in Hm. apply Rabs_le_inv in Hm.
    (* I = 2.5 *)
    destruct (Z_lt_le_dec m 3) as [Hl|Hge].
    + assert (IZR m <= 2) by (apply IZR_le; lia). lra.
    + assert (3 <= IZR m) by (apply IZR_le; lia). lra.
  - destruct (float_line_at_model_dec f t D 1 2 1 Hv Hlt Ff Ft Hgf Hg) as (x & Hx & H);
      [unfold D; lia|rewrite Hc; lia|lia| |lia|lia|lia|].
    + (* 100 <= 2 * 10 * sqrt 60 because sqrt 60 >= 5 *)
      rewrite Ef, Et. unfold line_S, line_slope, D, billion.
      replace (2 * ((0 - 10) / (500000000 / 1000000000)) * 1 + 10 * 10) with 60 by field.
      assert (5 <= sqrt 60).
      { rewrite <- (sqrt_square 5) by lra. apply sqrt_le_1_alt. lra. }
      lra.
    + fold a in H. rewrite Ha in Hx. injection Hx as <-.
      replace (D / 2 ^ 40)%Z with 0%Z in H by (vm_compute; reflexivity).
      replace (D * 1 / 2 ^ 48)%Z with 0%Z in H by (vm_compute; reflexivity). lia.
Qed.
