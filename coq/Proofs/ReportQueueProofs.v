(* Lemmas about Model/ReportQueue.v (property C04: every discarded token is reported). *)
From Coq Require Import List Arith Bool Lia.
From PV Require Import Model.ReportQueue.
Import ListNotations.

Section P.
Variable A : Type.

(* blocking Report: whatever the capacity and the interleaving, nothing is dropped and
   written ++ queued = everything reported so far, in order *)
Lemma qstep_blocking_inv : forall cap (s s' : qstate A) e pre,
  qstep qblocking cap s e = Some s' ->
  q_written s ++ q_buf s = pre -> q_dropped s = [] ->
  q_written s' ++ q_buf s' = pre ++ sends [e] /\ q_dropped s' = [].
Proof.
  intros cap s s' e pre H Hp Hd. destruct e as [x|]; unfold qstep in H.
  - destruct (length (q_buf s) <? cap).
    + inversion H; subst; clear H. cbn. rewrite app_assoc. auto.
    + destruct cap; [|discriminate]. destruct (q_buf s) eqn:Eb; [|discriminate].
      inversion H; subst; clear H. cbn. rewrite !app_nil_r. auto.
  - destruct (q_buf s) as [|y r] eqn:Eb; [discriminate|]. inversion H; subst; clear H. cbn.
    rewrite app_nil_r, <- app_assoc. cbn. auto.
Qed.

Lemma sends_app : forall (a b : list (qev A)), sends (a ++ b) = sends a ++ sends b.
Proof. induction a as [|[x|] r IH]; intros; cbn; [reflexivity|rewrite IH; reflexivity|apply IH]. Qed.

Lemma qrun_blocking_inv : forall cap evs (s s' : qstate A) pre,
  qrun qblocking cap s evs = Some s' ->
  q_written s ++ q_buf s = pre -> q_dropped s = [] ->
  q_written s' ++ q_buf s' = pre ++ sends evs /\ q_dropped s' = [].
Proof.
  intros cap evs. induction evs as [|e r IH]; intros s s' pre H Hp Hd; cbn in H.
  - injection H as <-. cbn. rewrite app_nil_r. auto.
  - destruct (qstep qblocking cap s e) as [s1|] eqn:Es; [|discriminate].
    destruct (qstep_blocking_inv _ _ _ _ _ Es Hp Hd) as [Hp1 Hd1].
    destruct (IH _ _ _ H Hp1 Hd1) as [Hp2 Hd2]. split; [|exact Hd2].
    rewrite Hp2. change (e :: r) with ([e] ++ r). rewrite sends_app, app_assoc. reflexivity.
Qed.

Lemma blocking_report_loses_nothing : forall cap evs (s' : qstate A),
  qrun qblocking cap qinit evs = Some s' ->
  q_written (qdrain s') = sends evs /\ q_dropped s' = [] /\ q_buf (qdrain s') = [].
Proof.
  intros cap evs s' H.
  destruct (qrun_blocking_inv cap evs qinit s' [] H eq_refl eq_refl) as [Hp Hd].
  cbn in Hp. unfold qdrain. cbn. auto.
Qed.

(* no deadlock between the reporters and the writer: whenever a send cannot complete, the
   writer's receive can (so the blocked instance is released by the writer's progress) *)
Lemma blocked_send_means_writer_can_receive : forall cap (s : qstate A) x,
  cap <> 0 -> qstep qblocking cap s (QSend x) = None -> qstep qblocking cap s QRecv <> None.
Proof.
  intros cap s x Hc H. unfold qstep in *. destruct (length (q_buf s) <? cap) eqn:E; [discriminate|].
  apply Nat.ltb_ge in E. destruct (q_buf s); [cbn in E; lia|discriminate].
Qed.
End P.

(* a Report that gives up on a full channel loses reported samples: capacity 1, two reports
   before the writer gets to run *)
Lemma dropping_report_refuted :
  exists s', qrun qdropping 1 qinit [QSend 1; QSend 2; QRecv] = Some s' /\
             q_written (qdrain s') = [1] /\ q_dropped s' = [2].
Proof. eexists. split; [reflexivity|]. split; reflexivity. Qed.
