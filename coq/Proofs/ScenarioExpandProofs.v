(* Lemmas about the expansion of a scenario's request list (convertScenarioToAmmo), C15. *)
From Coq Require Import List NArith ZArith Bool Lia.
From PV Require Import Model.Iterator Model.Scenario Proofs.ScenarioParseProofs.
Import ListNotations.

Section ExpandProofs.
  Variable R : Type.
  Notation item := (item R).

  Definition attach (e : Z) (acc : list (R * Z)) : list (R * Z) :=
    match add_last R e acc with Some l => l | None => [] end.

  Lemma add_last_snoc ms a r s : add_last R ms (a ++ [(r, s)]) = Some (a ++ [(r, (s + ms)%Z)]).
  Proof.
    induction a as [|x a IH]; cbn [app add_last]; [reflexivity|].
    destruct x as [xr xs]. rewrite IH.
    destruct (a ++ [(r, s)]) eqn:E; [destruct a; discriminate|reflexivity].
  Qed.

  Lemma snoc_cases (l : list (R * Z)) : l = [] \/ exists a r s, l = a ++ [(r, s)].
  Proof.
    destruct l as [|x l]; [left; reflexivity|right].
    destruct (exists_last (l := x :: l) ltac:(discriminate)) as (a & [r s] & E).
    exists a, r, s. exact E.
  Qed.

  Lemma attach_0 acc : acc <> [] -> attach 0 acc = acc.
  Proof.
    intros H. destruct (snoc_cases acc) as [->|(a & r & s & ->)]; [contradiction|].
    unfold attach. rewrite add_last_snoc. rewrite Z.add_0_r. reflexivity.
  Qed.

  Lemma attach_attach e1 e2 acc : acc <> [] -> attach e2 (attach e1 acc) = attach (e1 + e2) acc.
  Proof.
    intros H. destruct (snoc_cases acc) as [->|(a & r & s & ->)]; [contradiction|].
    unfold attach. rewrite (add_last_snoc e1). cbv beta iota. rewrite !add_last_snoc. rewrite Z.add_assoc. reflexivity.
  Qed.

  Lemma attach_nonempty e acc : acc <> [] -> attach e acc <> [].
  Proof.
    intros H. destruct (snoc_cases acc) as [->|(a & r & s & ->)]; [contradiction|].
    unfold attach. rewrite add_last_snoc. destruct a; discriminate.
  Qed.

  Lemma add_last_some e acc : acc <> [] -> add_last R e acc = Some (attach e acc).
  Proof.
    intros H. destruct (snoc_cases acc) as [->|(a & r & s & ->)]; [contradiction|].
    unfold attach. rewrite add_last_snoc. reflexivity.
  Qed.

  Lemma attach_app_copies e acc r n p : (0 < n)%nat ->
    attach e (acc ++ repeat (r, p) n) = acc ++ copies R r n p e.
  Proof.
    intros Hn. destruct n as [|k]; [lia|]. unfold copies.
    replace (repeat (r, p) (S k)) with (repeat (r, p) k ++ [(r, p)]).
    2:{ clear. induction k as [|k IH]; [reflexivity|]. cbn [repeat app]. rewrite IH. reflexivity. }
    rewrite app_assoc. unfold attach. rewrite add_last_snoc. rewrite <- app_assoc. reflexivity.
  Qed.

  (* all multiplicities are at least 1 *)
  Definition pos_items (l : list item) : Prop :=
    Forall (fun it => match it with IReq _ n _ => (0 < n)%nat | ISleep _ => True end) l.

  Definition not_sleep_head (l : list item) : Prop :=
    match l with ISleep _ :: _ => False | _ => True end.

  Variable reqs : list (bytes * R).

  Lemma item_of_cases sh it : item_of R reqs sh = Some it ->
    (exists cnt sl, parse_shoot sh = ShOk sleep_name cnt sl /\ it = ISleep cnt) \/
    (exists name cnt sl r, parse_shoot sh = ShOk name cnt sl /\ beq name sleep_name = false /\
        lookup_last R reqs name = Some r /\
        it = IReq r (Z.to_nat cnt) (if (0 <? sl)%Z then sl else 0%Z)).
  Proof.
    unfold item_of. destruct (parse_shoot sh) as [|name cnt sl]; [discriminate|].
    destruct (beq name sleep_name) eqn:E.
    - intros H; injection H as <-. left. apply beq_eq in E. subst name. eauto.
    - destruct (lookup_last R reqs name) as [r|] eqn:L; [|discriminate].
      intros H; injection H as <-. right. exists name, cnt, sl, r. repeat split; assumption.
  Qed.

  (* with a non-empty accumulator the loop computes the documented expansion; the sleeps at
     the front of the remaining entries go to the accumulator's last request *)
  Lemma expand_go_spec items : forall shoots acc,
    acc <> [] -> map (item_of R reqs) shoots = map Some items -> pos_items items ->
    expand_go R reqs shoots acc =
      ExpOk (attach (fst (spec_exp R items)) acc ++ snd (spec_exp R items)).
  Proof.
    induction items as [|it items IH]; intros shoots acc Hacc Hmap Hpos.
    - destruct shoots; [|discriminate]. cbn [expand_go spec_exp fst snd].
      rewrite attach_0 by exact Hacc. rewrite app_nil_r. reflexivity.
    - destruct shoots as [|sh shoots]; [discriminate|]. cbn [map] in Hmap.
      injection Hmap as Hit Hmap. inversion Hpos as [|? ? Hp Hpos']; subst.
      cbn [expand_go].
      destruct (item_of_cases sh it Hit) as [(cnt & sl & Hps & ->)|(name & cnt & sl & r & Hps & Hns & Hl & ->)].
      + rewrite Hps. rewrite beq_refl. rewrite add_last_some by exact Hacc.
        rewrite (IH shoots (attach cnt acc) (attach_nonempty _ _ Hacc) Hmap Hpos').
        cbn [spec_exp]. destruct (spec_exp R items) as [e out]. cbn [fst snd].
        rewrite attach_attach by exact Hacc. reflexivity.
      + rewrite Hps, Hns, Hl.
        assert (Hne : acc ++ repeat (r, if (0 <? sl)%Z then sl else 0%Z) (Z.to_nat cnt) <> []).
        { destruct acc; [contradiction|discriminate]. }
        rewrite (IH shoots _ Hne Hmap Hpos').
        cbn [spec_exp]. destruct (spec_exp R items) as [e out]. cbn [fst snd].
        rewrite attach_app_copies by exact Hp. rewrite attach_0 by exact Hacc.
        rewrite <- app_assoc. reflexivity.
  Qed.

  Lemma expand_spec shoots items :
    map (item_of R reqs) shoots = map Some items -> pos_items items -> not_sleep_head items ->
    expand R reqs shoots = ExpOk (spec_expand R items).
  Proof.
    intros Hmap Hpos Hhd. unfold expand, spec_expand.
    destruct items as [|it items].
    - destruct shoots; [reflexivity|discriminate].
    - destruct shoots as [|sh shoots]; [discriminate|]. cbn [map] in Hmap. injection Hmap as Hit Hmap.
      inversion Hpos as [|? ? Hp Hpos']; subst.
      destruct (item_of_cases sh it Hit) as [(cnt & sl & Hps & ->)|(name & cnt & sl & r & Hps & Hns & Hl & ->)];
        [cbn [not_sleep_head] in Hhd; contradiction|].
      cbn [expand_go]. rewrite Hps, Hns, Hl. cbn [app].
      assert (Hne : repeat (r, if (0 <? sl)%Z then sl else 0%Z) (Z.to_nat cnt) <> []).
      { destruct (Z.to_nat cnt); [lia|discriminate]. }
      rewrite (expand_go_spec items shoots _ Hne Hmap Hpos').
      cbn [spec_exp]. destruct (spec_exp R items) as [e out]. cbn [fst snd].
      pose proof (attach_app_copies e [] r (Z.to_nat cnt) (if (0 <? sl)%Z then sl else 0%Z) Hp) as A.
      cbn [app] in A. rewrite A. reflexivity.
  Qed.

  (* errors: the loop is sequential *)
  Lemma expand_go_app a b acc :
    expand_go R reqs (a ++ b) acc =
    match expand_go R reqs a acc with
    | ExpOk acc' => expand_go R reqs b acc'
    | ExpErr e => ExpErr e
    end.
  Proof.
    revert acc; induction a as [|sh a IH]; intros acc; cbn [app expand_go]; [reflexivity|].
    destruct (parse_shoot sh) as [|name cnt sl]; [reflexivity|].
    destruct (beq name sleep_name).
    - destruct (add_last R cnt acc); [apply IH|reflexivity].
    - destruct (lookup_last R reqs name); [apply IH|reflexivity].
  Qed.

  (* an entry that is neither a parsable request of a known name nor a sleep makes the
     construction fail, whatever follows it *)
  Lemma expand_bad_entry pre sh post items :
    map (item_of R reqs) pre = map Some items -> pos_items items -> not_sleep_head items ->
    item_of R reqs sh = None ->
    exists e, expand R reqs (pre ++ sh :: post) = ExpErr e.
  Proof.
    intros Hmap Hpos Hhd Hbad. unfold expand. rewrite expand_go_app.
    fold (expand R reqs pre). rewrite (expand_spec pre items Hmap Hpos Hhd).
    cbn [expand_go]. unfold item_of in Hbad.
    destruct (parse_shoot sh) as [|name cnt sl]; [eexists; reflexivity|].
    destruct (beq name sleep_name); [discriminate|].
    destruct (lookup_last R reqs name); [discriminate|]. eexists; reflexivity.
  Qed.

  (* order and multiplicity of the documented expansion: n copies of each request, in listed
     order; sleeps contribute no request *)
  Lemma spec_expand_requests items :
    map fst (spec_expand R items) =
    flat_map (fun it => match it with IReq r n _ => repeat r n | ISleep _ => [] end) items.
  Proof.
    unfold spec_expand. induction items as [|it items IH]; [reflexivity|].
    cbn [spec_exp flat_map]. destruct (spec_exp R items) as [e out]. cbn [snd] in IH.
    destruct it as [r n p|ms]; cbn [snd]; [|exact IH].
    rewrite map_app, IH. f_equal.
    destruct n as [|k]; [reflexivity|]. unfold copies. rewrite map_app. cbn [map fst].
    clear. induction k as [|k IHk]; [reflexivity|]. cbn [repeat map app fst]. f_equal. exact IHk.
  Qed.

  Fixpoint sum_z (l : list Z) : Z := match l with [] => 0%Z | x :: r => (x + sum_z r)%Z end.

  Lemma sum_z_app a b : sum_z (a ++ b) = (sum_z a + sum_z b)%Z.
  Proof. induction a as [|x a IH]; cbn [app sum_z]; [reflexivity|]. rewrite IH. lia. Qed.

  (* every pause written in the list is applied exactly once: n * pause for name(n, pause),
     ms for sleep(ms) *)
  Lemma spec_expand_total_pause items : pos_items items -> not_sleep_head items ->
    sum_z (map snd (spec_expand R items)) =
    sum_z (map (fun it => match it with IReq _ n p => (Z.of_nat n * p)%Z | ISleep ms => ms end) items).
  Proof.
    intros Hpos Hhd. unfold spec_expand.
    assert (G : forall l, pos_items l ->
      (fst (spec_exp R l) + sum_z (map snd (snd (spec_exp R l))))%Z =
      sum_z (map (fun it => match it with IReq _ n p => (Z.of_nat n * p)%Z | ISleep ms => ms end) l)).
    { induction l as [|it l IH]; intros Hp; [reflexivity|].
      inversion Hp as [|? ? Hi Hp']; subst. specialize (IH Hp').
      cbn [spec_exp map sum_z]. destruct (spec_exp R l) as [e out]. cbn [fst snd] in *.
      destruct it as [r n p|ms]; cbn [fst snd].
      - rewrite map_app, sum_z_app. rewrite <- IH.
        destruct n as [|k]; [lia|]. unfold copies. rewrite map_app, sum_z_app. cbn [map snd sum_z].
        assert (Hr : sum_z (map snd (repeat (r, p) k)) = (Z.of_nat k * p)%Z).
        { clear. induction k as [|k IHk]; [reflexivity|]. cbn [repeat map snd sum_z]. rewrite IHk. lia. }
        rewrite Hr. lia.
      - lia. }
    specialize (G items Hpos).
    destruct items as [|[r n p|ms] items]; [reflexivity| |cbn [not_sleep_head] in Hhd; contradiction].
    cbn [spec_exp] in *. destruct (spec_exp R items) as [e out]. cbn [fst snd] in *. lia.
  Qed.
End ExpandProofs.
