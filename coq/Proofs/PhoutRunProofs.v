(* Proofs of the bridge of phoutAggregator.Run (property C06): the oracle, the walk that says which calls Run makes
   in its two phases (main select loop / drain after ctx.Done()), and the lemmas relating the translated code
   (Gen/GoFnPhoutRunGen.v, regenerated from /repo on every run; traced target, see design/GOFN.md) to that walk.
   Statements for the reader: Gen/GoFnPhoutRun_bridge.v.  This file depends on the generated syntax, so `make`
   re-checks it whenever core/aggregator/netsample/phout.go changes. *)
From Coq Require Import ZArith NArith List String Bool Lia.
From PV Require Model.Aggregator.
From PV Require Import Lib.Imp Lib.ImpStep Gen.GoFnPhoutRunGen.
Import ListNotations.
Local Open Scope string_scope.
Local Open Scope list_scope.
Local Open Scope Z_scope.

Module A := PV.Model.Aggregator.

Lemma find_PhoutRun : find_func "phoutAggregator.Run" gen_prog_phoutrun = Some gen_phoutAggregator_Run.
Proof. reflexivity. Qed.

(* select#0 = the main select, #1 = the non-blocking ticker check after a handled sample, #2 = the drain select *)
Lemma bridge_phoutrun_shape :
  gen_phoutAggregator_Run_returns = ["result0"; "$n"; "$trace"] /\
  f_params gen_phoutAggregator_Run = [] /\
  gen_phoutAggregator_Run_selects =
    [["a.sink"; "time.After"; "ctx.Done"]; ["shouldFlush.C"; "default"]; ["a.sink"; "default"]].
Proof. repeat split; reflexivity. Qed.

Definition trace := list (string * list Z).
Definition snoc (tr : trace) (c : string * list Z) : trace := tr ++ [c].
Infix "+:" := snoc (at level 61, left associativity).

Section Bridge.
  (* the oracle: call number n is answered [o n]: the index of the select clause that fires, the sample received
     from the sink (an integer naming it), the error of handle (0 = nil); the results of Flush / Close are ignored
     by the code *)
  Variable o : Z -> Z.

  Definition last_int (vs : list val) : option Z :=
    match rev vs with VInt n :: _ => Some n | _ => None end.

  Definition results (f : string) : option nat :=
    if String.eqb f "select#0" then Some 1%nat
    else if String.eqb f "select#1" then Some 1%nat
    else if String.eqb f "select#2" then Some 1%nat
    else if String.eqb f "<-a.sink" then Some 1%nat
    else if String.eqb f "a.handle" then Some 1%nat
    else if String.eqb f "a.writer.Flush" then Some 1%nat
    else if String.eqb f "a.file.Close" then Some 1%nat
    else if String.eqb f "shouldFlush.Stop" then Some 0%nat
    else if String.eqb f "time.NewTicker" then Some 0%nat
    else None.

  Definition pext (f : string) (args : list val) : option (list val) :=
    match last_int args, results f with
    | Some n, Some 0%nat => Some []
    | Some n, Some 1%nat => Some [VInt (o n)]
    | _, _ => None
    end.

  (* the deferred block: final flush, close of the destination, ticker stopped - in this order *)
  Definition fin (tr : trace) : trace :=
    tr +: ("a.writer.Flush", []) +: ("a.file.Close", []) +: ("shouldFlush.Stop", []).

  Inductive wres :=
  | WRet (e n : Z) (tr : trace)     (* Run returns e (handle failed) *)
  | WOut (n : Z) (tr : trace)       (* the loop is left: the drain found the sink empty *)
  | WFuel.

  (* drain phase: non-blocking receives until the sink is empty; fuel = iterations of the inner loop *)
  Fixpoint wdrain (fuel : nat) (n : Z) (tr : trace) : wres :=
    match fuel with
    | O => WFuel
    | S f =>
        if o n =? 0 then
          let tr' := tr +: ("select#2", []) +: ("<-a.sink", []) +: ("a.handle", [o (n + 1)]) in
          if o (n + 1 + 1) =? 0 then wdrain f (n + 1 + 1 + 1) tr'
          else WRet (o (n + 1 + 1)) (n + 1 + 1 + 1 + 1 + 1 + 1) (fin tr')
        else WOut (n + 1) (tr +: ("select#2", []))
    end.

  (* main phase; fuel = iterations of the outer loop; the drain runs at the fuel of the iteration that saw ctx.Done() *)
  Fixpoint wmain (fuel : nat) (n : Z) (tr : trace) : wres :=
    match fuel with
    | O => WFuel
    | S f =>
        if o n =? 0 then
          let tr' := tr +: ("select#0", []) +: ("<-a.sink", []) +: ("a.handle", [o (n + 1)]) in
          if o (n + 1 + 1) =? 0 then
            if o (n + 1 + 1 + 1) =? 0
            then wmain f (n + 1 + 1 + 1 + 1 + 1) (tr' +: ("select#1", []) +: ("a.writer.Flush", []))
            else wmain f (n + 1 + 1 + 1 + 1) (tr' +: ("select#1", []))
          else WRet (o (n + 1 + 1)) (n + 1 + 1 + 1 + 1 + 1 + 1) (fin tr')
        else if o n =? 1 then wmain f (n + 1 + 1) (tr +: ("select#0", []) +: ("a.writer.Flush", []))
        else wdrain (S f) (n + 1) (tr +: ("select#0", []))
    end.

  Definition result := (Z * Z * trace)%type.

  Definition wrun (fuel : nat) : option result :=
    match wmain fuel 1 [("time.NewTicker", [])] with
    | WRet e n tr => Some (e, n, tr)
    | WOut n tr => Some (0, n + 1 + 1 + 1, fin tr)
    | WFuel => None
    end.

  Definition enc (r : option result) : outcome :=
    match r with
    | Some (e, n, tr) => Ret [VInt e; VInt n; VRecs tr]
    | None => OutOfFuel
    end.

  Definition code_run (fuel : nat) : outcome := run gen_prog_phoutrun pext fuel "phoutAggregator.Run" [].
End Bridge.

(* ------------------------------------------------------------------------------------ *)
Fixpoint find_for (s : stmt) : option stmt :=
  match s with
  | SSeq a b => match find_for a with Some l => Some l | None => find_for b end
  | SIf _ t e => match find_for t with Some l => Some l | None => find_for e end
  | SFor _ _ _ => Some s
  | _ => None
  end.
Definition main_loop : stmt :=
  match find_for (f_body gen_phoutAggregator_Run) with Some l => l | None => SSkip end.
Definition drain_loop : stmt :=
  match main_loop with
  | SFor _ b _ => match find_for b with Some l => l | None => SSkip end
  | _ => SSkip
  end.

Definition cenv (n : Z) (tr : trace) (s0 r err r0 s1 s2 brk : Z) : env :=
  [("$n", VInt n); ("$trace", VRecs tr); ("$sel0", VInt s0); ("r", VInt r); ("err", VInt err);
   ("$r0", VInt r0); ("$sel1", VInt s1); ("$sel2", VInt s2); ("$brk_loop", VInt brk)].

Ltac sx_ext ::= cbn [pext last_int results rev app String.eqb Ascii.eqb Bool.eqb].

Section Proofs.
  Variable o : Z -> Z.
  Notation X := (pext o).

  Lemma drain_eq : forall fuel n tr s0 r err r0 s1 s2,
    match wdrain o fuel n tr with
    | WRet e n' tr' =>
        exec gen_prog_phoutrun X fuel drain_loop (cenv n tr s0 r err r0 s1 s2 0) = SRet [VInt e; VInt n'; VRecs tr']
    | WOut n' tr' =>
        exists r' err' s2',
          exec gen_prog_phoutrun X fuel drain_loop (cenv n tr s0 r err r0 s1 s2 0)
          = SNormal (cenv n' tr' s0 r' err' r0 s1 s2' 1)
    | WFuel =>
        exec gen_prog_phoutrun X fuel drain_loop (cenv n tr s0 r err r0 s1 s2 0) = SFail FFuel
    end.
  Proof.
    induction fuel as [|f IH]; intros n tr s0 r err r0 s1 s2.
    - cbn [wdrain]. unfold drain_loop, main_loop; cbn [find_for f_body gen_phoutAggregator_Run].
      eapply step_for_fuel; reflexivity.
    - cbn [wdrain].
      destruct (o n =? 0) eqn:E0.
      + destruct (o (n + 1 + 1) =? 0) eqn:E2.
        * specialize (IH (n + 1 + 1 + 1)
                         (tr +: ("select#2", []) +: ("<-a.sink", []) +: ("a.handle", [o (n + 1)]))
                         s0 (o (n + 1)) (o (n + 1 + 1)) r0 s1 (o n)).
          assert (Hstep : exec gen_prog_phoutrun X (S f) drain_loop (cenv n tr s0 r err r0 s1 s2 0)
                          = exec gen_prog_phoutrun X f drain_loop
                              (cenv (n + 1 + 1 + 1)
                                 (tr +: ("select#2", []) +: ("<-a.sink", []) +: ("a.handle", [o (n + 1)]))
                                 s0 (o (n + 1)) (o (n + 1 + 1)) r0 s1 (o n) 0)).
          { unfold drain_loop, main_loop; cbn [find_for f_body gen_phoutAggregator_Run]; unfold cenv, snoc.
            sx. reflexivity. }
          rewrite Hstep. exact IH.
        * unfold drain_loop, main_loop; cbn [find_for f_body gen_phoutAggregator_Run]; unfold cenv, fin, snoc.
          sx.
      + exists r, err, (o n).
        unfold drain_loop, main_loop; cbn [find_for f_body gen_phoutAggregator_Run]; unfold cenv, snoc.
        sx.
  Qed.

  Lemma main_eq : forall fuel n tr s0 r err r0 s1 s2,
    match wmain o fuel n tr with
    | WRet e n' tr' =>
        exec gen_prog_phoutrun X fuel main_loop (cenv n tr s0 r err r0 s1 s2 0) = SRet [VInt e; VInt n'; VRecs tr']
    | WOut n' tr' =>
        exists s0' r' err' s1' s2',
          exec gen_prog_phoutrun X fuel main_loop (cenv n tr s0 r err r0 s1 s2 0)
          = SNormal (cenv n' tr' s0' r' err' r0 s1' s2' 1)
    | WFuel =>
        exec gen_prog_phoutrun X fuel main_loop (cenv n tr s0 r err r0 s1 s2 0) = SFail FFuel
    end.
  Proof.
    induction fuel as [|f IH]; intros n tr s0 r err r0 s1 s2.
    - cbn [wmain]. unfold main_loop; cbn [find_for f_body gen_phoutAggregator_Run].
      eapply step_for_fuel; reflexivity.
    - cbn [wmain].
      destruct (o n =? 0) eqn:E0.
      + destruct (o (n + 1 + 1) =? 0) eqn:E2.
        * destruct (o (n + 1 + 1 + 1) =? 0) eqn:E3.
          -- match goal with |- match wmain o f ?n' ?tr' with _ => _ end =>
               specialize (IH n' tr' (o n) (o (n + 1)) (o (n + 1 + 1)) r0 (o (n + 1 + 1 + 1)) s2);
               assert (Hstep : exec gen_prog_phoutrun X (S f) main_loop (cenv n tr s0 r err r0 s1 s2 0)
                               = exec gen_prog_phoutrun X f main_loop
                                   (cenv n' tr' (o n) (o (n + 1)) (o (n + 1 + 1)) r0 (o (n + 1 + 1 + 1)) s2 0))
             end.
             { unfold main_loop; cbn [find_for f_body gen_phoutAggregator_Run]; unfold cenv, snoc.
               sx. reflexivity. }
             rewrite Hstep. exact IH.
          -- match goal with |- match wmain o f ?n' ?tr' with _ => _ end =>
               specialize (IH n' tr' (o n) (o (n + 1)) (o (n + 1 + 1)) r0 (o (n + 1 + 1 + 1)) s2);
               assert (Hstep : exec gen_prog_phoutrun X (S f) main_loop (cenv n tr s0 r err r0 s1 s2 0)
                               = exec gen_prog_phoutrun X f main_loop
                                   (cenv n' tr' (o n) (o (n + 1)) (o (n + 1 + 1)) r0 (o (n + 1 + 1 + 1)) s2 0))
             end.
             { unfold main_loop; cbn [find_for f_body gen_phoutAggregator_Run]; unfold cenv, snoc.
               sx. reflexivity. }
             rewrite Hstep. exact IH.
        * unfold main_loop; cbn [find_for f_body gen_phoutAggregator_Run]; unfold cenv, fin, snoc.
          sx.
      + destruct (o n =? 1) eqn:E1.
        * match goal with |- match wmain o f ?n' ?tr' with _ => _ end =>
            specialize (IH n' tr' (o n) r err r0 s1 s2);
            assert (Hstep : exec gen_prog_phoutrun X (S f) main_loop (cenv n tr s0 r err r0 s1 s2 0)
                            = exec gen_prog_phoutrun X f main_loop (cenv n' tr' (o n) r err r0 s1 s2 0))
          end.
          { unfold main_loop; cbn [find_for f_body gen_phoutAggregator_Run]; unfold cenv, snoc.
            sx. reflexivity. }
          rewrite Hstep. exact IH.
        * (* ctx.Done(): the drain loop runs at this iteration's fuel, then the flag ends the outer loop *)
          pose proof (drain_eq (S f) (n + 1) (tr +: ("select#0", [])) (o n) r err r0 s1 s2) as HD.
          destruct (wdrain o (S f) (n + 1) (tr +: ("select#0", []))) as [e n' tr'|n' tr'|].
          -- unfold drain_loop, main_loop in HD; cbn [find_for f_body gen_phoutAggregator_Run] in HD.
             unfold main_loop; cbn [find_for f_body gen_phoutAggregator_Run]; unfold cenv, snoc in *.
             eapply step_for_ret; [reflexivity|reflexivity|].
             do 3 (eapply step_seq; [sx_atom|cbv beta iota]).
             eapply step_if_f; [sx_eval|sx_decide; reflexivity|].
             eapply step_if_f; [sx_eval|sx_decide; reflexivity|].
             eapply step_seq; [exact HD|reflexivity].
          -- destruct HD as (r' & err' & s2' & HD).
             exists (o n), r', err', s1, s2'.
             unfold drain_loop, main_loop in HD; cbn [find_for f_body gen_phoutAggregator_Run] in HD.
             unfold main_loop; cbn [find_for f_body gen_phoutAggregator_Run]; unfold cenv, snoc in *.
             eapply step_for_brk; [reflexivity|reflexivity|].
             do 3 (eapply step_seq; [sx_atom|cbv beta iota]).
             eapply step_if_f; [sx_eval|sx_decide; reflexivity|].
             eapply step_if_f; [sx_eval|sx_decide; reflexivity|].
             eapply step_seq; [exact HD|cbv beta iota].
             sx.
          -- unfold drain_loop, main_loop in HD; cbn [find_for f_body gen_phoutAggregator_Run] in HD.
             unfold main_loop; cbn [find_for f_body gen_phoutAggregator_Run]; unfold cenv, snoc in *.
             eapply step_for_fail; [reflexivity|reflexivity|].
             do 3 (eapply step_seq; [sx_atom|cbv beta iota]).
             eapply step_if_f; [sx_eval|sx_decide; reflexivity|].
             eapply step_if_f; [sx_eval|sx_decide; reflexivity|].
             eapply step_seq; [exact HD|reflexivity].
  Qed.

  Ltac prologue :=
    repeat lazymatch goal with
           | |- exec _ _ _ (SSeq (SFor _ _ _) _) _ = _ => fail
           | |- exec _ _ _ (SSeq _ _) _ = _ => eapply step_seq; [sx_atom | cbv beta iota]
           end.
  Ltac run_is tac :=
    match goal with
    | |- sig_outcome (exec ?p ?x ?fu ?s ?en) = _ =>
        let He := fresh "He" in
        eassert (He : exec p x fu s en = _); [tac|rewrite He; clear He]
    end.

  Theorem bridge_phoutRun fuel : code_run o fuel = enc (wrun o fuel).
  Proof.
    unfold code_run, run. rewrite find_PhoutRun. unfold gen_phoutAggregator_Run; cbn [f_params f_body bind].
    unfold wrun.
    pose proof (main_eq fuel 1 [("time.NewTicker", [])] 0 0 0 0 0 0) as HL.
    unfold main_loop, cenv in HL; cbn [find_for f_body gen_phoutAggregator_Run] in HL.
    destruct (wmain o fuel 1 [("time.NewTicker", [])]) as [e n' tr'|n' tr'|].
    - run_is ltac:(prologue; eapply step_seq; [exact HL|cbv beta iota; reflexivity]). reflexivity.
    - destruct HL as (s0' & r' & err' & s1' & s2' & HL). unfold cenv in HL.
      run_is ltac:(prologue; eapply step_seq; [exact HL|cbv beta iota; sx]).
      unfold fin, snoc. reflexivity.
    - run_is ltac:(prologue; eapply step_seq; [exact HL|cbv beta iota; reflexivity]). reflexivity.
  Qed.
End Proofs.
