(* Proofs for Model/RobustGrpcTime.v (property C19: the grpc gun against a silent target). *)
From Coq Require Import List ZArith NArith Bool Lia.
From PV Require Import Model.Robust Model.RobustGrpcScn Model.RobustGrpcTime.
Import ListNotations.
Local Open Scope N_scope.

Fixpoint has_timeout (e : ctx_expr) : bool :=
  match e with
  | CxBackground | CxGun | CxOther => false
  | CxWithTimeout _ => true
  | CxWithMD p => has_timeout p
  end.

Lemma ctx_deadline_le : forall tmo e d, ctx_deadline tmo e = Some d -> d <= tmo.
Proof.
  intros tmo e. induction e as [| | p IH | p IH |]; intros d H; cbn [ctx_deadline] in H; try discriminate.
  - destruct (ctx_deadline tmo p) as [d0|]; inversion H; subst; lia.
  - auto.
Qed.

Lemma ctx_deadline_iff_timeout : forall tmo e,
  (has_timeout e = true -> exists d, ctx_deadline tmo e = Some d) /\
  (has_timeout e = false -> ctx_deadline tmo e = None).
Proof.
  intros tmo e. induction e as [| | p IH | p IH |]; cbn [has_timeout ctx_deadline]; split; intros H; try discriminate; auto.
  - destruct (ctx_deadline tmo p); eauto.
  - apply IH; exact H.
  - apply IH; exact H.
Qed.

Lemma code_ctx_deadline : forall tmo, ctx_deadline tmo code_ctx = Some tmo.
Proof. reflexivity. Qed.

Lemma effective_timeout_pos : forall c, 0 < effective_timeout c.
Proof.
  intros c. unfold effective_timeout, default_timeout. destruct (N.eqb c 0) eqn:E; [lia|].
  apply N.eqb_neq in E. lia.
Qed.

Lemma invoke_deadline_returns : forall d b, exists t s, invoke (Some d) b = InvReturns t s /\ t <= d.
Proof.
  intros d [|t s]; cbn [invoke].
  - exists d, deadline_exceeded. split; [reflexivity|lia].
  - destruct (N.ltb t d) eqn:E.
    + apply N.ltb_lt in E. exists t, s. split; [reflexivity|lia].
    + exists d, deadline_exceeded. split; [reflexivity|lia].
Qed.

(* ANY context expression with a WithTimeout on its spine: the shot returns within the timeout *)
Lemma shot_with_deadline_returns : forall conv cx conf c, has_timeout cx = true ->
  exists t s, grpc_shoot_timed conv cx conf c = TsReturned t s /\ t <= effective_timeout conf.
Proof.
  intros conv cx conf c H. destruct c as [| |b]; cbn [grpc_shoot_timed].
  - exists 0, (tsample 0%Z). split; [reflexivity|lia].
  - exists 0, (tsample 400%Z). split; [reflexivity|lia].
  - destruct (proj1 (ctx_deadline_iff_timeout (effective_timeout conf) cx) H) as [d Hd]. rewrite Hd.
    destruct (invoke_deadline_returns d b) as [t [s [Hi Ht]]]. rewrite Hi.
    exists t, (tsample (conv s)). split; [reflexivity|]. apply ctx_deadline_le in Hd. lia.
Qed.

(* the source's context: returns within the timeout with the sample of the first-layer gun on `result_of` *)
Lemma grpc_shot_returns_in_time : forall conv conf c,
  exists t s, grpc_shoot_timed conv code_ctx conf c = TsReturned t s /\ t <= effective_timeout conf /\
              grpc_shoot (result_of conv conf c) = Returned [s].
Proof.
  intros conv conf c. destruct c as [| |[|t s]]; cbn [grpc_shoot_timed result_of grpc_shoot]; rewrite ?code_ctx_deadline; cbn [invoke].
  - exists 0, (tsample 0%Z). repeat split; lia.
  - exists 0, (tsample 400%Z). repeat split; lia.
  - exists (effective_timeout conf), (tsample (conv deadline_exceeded)). repeat split; lia.
  - destruct (N.ltb t (effective_timeout conf)) eqn:E.
    + apply N.ltb_lt in E. exists t, (tsample (conv s)). repeat split; lia.
    + exists (effective_timeout conf), (tsample (conv deadline_exceeded)). repeat split; lia.
Qed.

Lemma silent_call_sample : forall conv conf b,
  (match b with GbNever => True | GbAnswer t _ => effective_timeout conf <= t end) ->
  grpc_shoot_timed conv code_ctx conf (GcCall b) = TsReturned (effective_timeout conf) (tsample (conv deadline_exceeded)).
Proof.
  intros conv conf [|t s] H; cbn [grpc_shoot_timed]; rewrite code_ctx_deadline; cbn [invoke]; [reflexivity|].
  destruct (N.ltb t (effective_timeout conf)) eqn:E; [apply N.ltb_lt in E; lia|reflexivity].
Qed.

Lemma answered_call_sample : forall conv conf t s, t < effective_timeout conf ->
  grpc_shoot_timed conv code_ctx conf (GcCall (GbAnswer t s)) = TsReturned t (tsample (conv s)).
Proof.
  intros conv conf t s H. cbn [grpc_shoot_timed]. rewrite code_ctx_deadline. cbn [invoke].
  apply N.ltb_lt in H. rewrite H. reflexivity.
Qed.

Lemma instance_timed_survives : forall conv conf cs,
  exists ss el, instance_timed conv code_ctx conf cs = (ss, el, false) /\ length ss = length cs /\
                el <= N.of_nat (length cs) * effective_timeout conf /\
                instance_run (map grpc_shoot (map (result_of conv conf) cs)) = (ss, false).
Proof.
  intros conv conf cs. induction cs as [|c r IH].
  - exists [], 0. cbn. repeat split; lia.
  - destruct IH as [ss [el [H1 [H2 [H3 H4]]]]].
    destruct (grpc_shot_returns_in_time conv conf c) as [t [s [Hs [Ht Hr]]]].
    exists (s :: ss), (t + el). cbn [instance_timed map]. rewrite Hs, H1, Hr. cbn [instance_run]. rewrite H4.
    cbn [length app]. rewrite H2. repeat split; try reflexivity.
    rewrite Nat2N.inj_succ. lia.
Qed.

(* the contrast: a context without a deadline and one silent call - the instance is stuck there, the ammo after it is
   never taken *)
Lemma no_deadline_stuck : forall conv cx conf pre post, has_timeout cx = false ->
  grpc_shoot_timed conv cx conf (GcCall GbNever) = TsNever /\
  exists ss el, instance_timed conv cx conf (pre ++ GcCall GbNever :: post) = (ss, el, true) /\
                (length ss <= length pre)%nat.
Proof.
  intros conv cx conf pre post H.
  assert (Hn : grpc_shoot_timed conv cx conf (GcCall GbNever) = TsNever).
  { cbn [grpc_shoot_timed]. rewrite (proj2 (ctx_deadline_iff_timeout (effective_timeout conf) cx) H). reflexivity. }
  split; [exact Hn|].
  induction pre as [|c r IH]; cbn [app instance_timed].
  - rewrite Hn. exists [], 0. split; [reflexivity|cbn; lia].
  - destruct IH as [ss [el [H1 H2]]].
    destruct (grpc_shoot_timed conv cx conf c) as [|t s].
    + exists [], 0. split; [reflexivity|cbn; lia].
    + rewrite H1. exists (s :: ss), (t + el). split; [reflexivity|cbn [length]; lia].
Qed.

(* ---------- the scenario gun over time ---------- *)
Lemma scenario_timed_returns_acc : forall conv conf cs acc,
  exists ss el, scenario_timed conv code_ctx conf cs = (ss, el, false) /\
                el <= N.of_nat (length cs) * effective_timeout conf /\
                grpc_scn_steps (map (gstep_of conv conf) cs) acc = Returned (acc ++ ss).
Proof.
  intros conv conf cs. induction cs as [|c r IH]; intros acc.
  - exists [], 0. cbn. rewrite app_nil_r. repeat split; lia.
  - destruct (grpc_shot_returns_in_time conv conf c) as [t [s [Hs [Ht Hr]]]].
    cbn [scenario_timed map grpc_scn_steps]. rewrite Hs.
    assert (Hlen : N.of_nat (length (c :: r)) * effective_timeout conf =
                   effective_timeout conf + N.of_nat (length r) * effective_timeout conf).
    { cbn [length]. rewrite Nat2N.inj_succ. lia. }
    destruct c as [| |b].
    + exists [s], t. cbn in Hr. inversion Hr; subst. split; [reflexivity|]. split; [lia|]. reflexivity.
    + exists [s], t. cbn in Hr. inversion Hr; subst. split; [reflexivity|]. split; [lia|]. reflexivity.
    + destruct (IH (acc ++ [s])) as [ss [el [H1 [H2 H3]]]]. rewrite H1.
      exists (s :: ss), (t + el). split; [reflexivity|]. split; [lia|].
      assert (Hstep : grpc_scn_step (gstep_of conv conf (GcCall b)) = GStepOk s).
      { destruct b as [|d st]; cbn in Hr; inversion Hr; subst; reflexivity. }
      rewrite Hstep, H3, <- app_assoc. reflexivity.
Qed.

Lemma scenario_timed_returns : forall conv conf cs,
  exists ss el, scenario_timed conv code_ctx conf cs = (ss, el, false) /\
                el <= N.of_nat (length cs) * effective_timeout conf /\
                grpc_scn_shoot (map (gstep_of conv conf) cs) = Returned ss.
Proof. intros conv conf cs. exact (scenario_timed_returns_acc conv conf cs []). Qed.

Lemma scenario_silent_call_goes_on : forall conv conf b r,
  (match b with GbNever => True | GbAnswer t _ => effective_timeout conf <= t end) ->
  scenario_timed conv code_ctx conf (GcCall b :: r) =
  (let '(ss, el, stuck) := scenario_timed conv code_ctx conf r in
   (tsample (conv deadline_exceeded) :: ss, effective_timeout conf + el, stuck)).
Proof.
  intros conv conf b r H. cbn [scenario_timed]. rewrite (silent_call_sample conv conf b H). reflexivity.
Qed.

Lemma scenario_no_deadline_stuck : forall conv cx conf r, has_timeout cx = false ->
  scenario_timed conv cx conf (GcCall GbNever :: r) = ([], 0, true).
Proof.
  intros conv cx conf r H. cbn [scenario_timed].
  rewrite (proj1 (no_deadline_stuck conv cx conf [] [] H)). reflexivity.
Qed.
