(* Proofs about Model/Instance.v: invariants of every reachable state of N instances racing
   for ammo and schedule tokens, and the four C03 statements at terminal states. *)
From Coq Require Import List Arith Bool Lia.
From PV Require Import Model.Instance.
Import ListNotations.

(* ------------------------------------------------------------------------------------ *)
(* Reachability: any interleaving of instance sections, spawns and the end of the start loop *)

Inductive reach (c : cfg) : state -> Prop :=
| reach_init : reach c (init c)
| reach_step : forall s a s', reach c s -> apply_action c a s = Some s' -> reach c s'.

Definition terminal (s : state) : Prop := start_open s = false /\ Forall (fun x => pc x = Done) (insts s).

Lemma run_reach_from c l : forall s s', reach c s -> run c l s = Some s' -> reach c s'.
Proof.
  induction l as [|a r IH]; cbn [run]; intros s s' Hr H.
  - inversion H; subst; exact Hr.
  - destruct (apply_action c a s) as [s1|] eqn:E; [|discriminate].
    eapply IH; [eapply reach_step; eauto|exact H].
Qed.

Lemma run_reach c l s : run c l (init c) = Some s -> reach c s.
Proof. apply run_reach_from; constructor. Qed.

Lemma terminal_b_spec s : terminal_b s = true <-> terminal s.
Proof.
  unfold terminal_b, terminal. rewrite andb_true_iff, negb_true_iff, forallb_forall, Forall_forall.
  split; intros [H1 H2]; split; auto; intros x Hx; specialize (H2 x Hx); unfold is_done in *;
    destruct (pc x); congruence.
Qed.

(* ------------------------------------------------------------------------------------ *)
(* Counting instances by program point *)

Definition cnt (f : ipc -> bool) (l : list inst) : nat := length (filter (fun x => f (pc x)) l).

Definition isCheck p := match p with Check => true | _ => false end.
Definition isAcq p := match p with Acq => true | _ => false end.
Definition isWait p := match p with Wait _ => true | _ => false end.
Definition isDec p := match p with Dec _ => true | _ => false end.
Definition isShoot p := match p with Shoot _ => true | _ => false end.
Definition isResp p := match p with Resp _ => true | _ => false end.
Definition isRel p := match p with Rel _ => true | _ => false end.
Definition isDone p := match p with Done => true | _ => false end.

Definition sum_own (l : list inst) : nat := list_sum (map own l).

Lemma cnt_app f l1 l2 : cnt f (l1 ++ l2) = cnt f l1 + cnt f l2.
Proof. unfold cnt. rewrite filter_app, app_length. reflexivity. Qed.

Lemma cnt_cons f x l : cnt f (x :: l) = (if f (pc x) then 1 else 0) + cnt f l.
Proof. unfold cnt. cbn [filter]. destruct (f (pc x)); reflexivity. Qed.

Lemma cnt_nil f : cnt f [] = 0.
Proof. reflexivity. Qed.

Lemma sum_own_app l1 l2 : sum_own (l1 ++ l2) = sum_own l1 + sum_own l2.
Proof. unfold sum_own. rewrite map_app, list_sum_app. reflexivity. Qed.

Lemma sum_own_cons x l : sum_own (x :: l) = own x + sum_own l.
Proof. reflexivity. Qed.

Lemma cnt_partition l :
  length l = cnt isCheck l + cnt isAcq l + cnt isWait l + cnt isDec l + cnt isShoot l + cnt isResp l
             + cnt isRel l + cnt isDone l.
Proof.
  induction l as [|x r IH]; [reflexivity|].
  rewrite !cnt_cons. cbn [length]. destruct (pc x); cbn; lia.
Qed.

Lemma upd_split {A} (l : list A) i x :
  nth_error l i = Some x ->
  exists l1 l2, l = l1 ++ x :: l2 /\ length l1 = i /\ forall y, upd l i y = l1 ++ y :: l2.
Proof.
  revert i; induction l as [|z r IH]; intros [|i] H; cbn in H; try discriminate.
  - inversion H; subst. exists [], r. repeat split.
  - destruct (IH i H) as (l1 & l2 & E & L & U). exists (z :: l1), l2. subst r. repeat split.
    + cbn. f_equal. exact L.
    + intros y. cbn. f_equal. apply U.
Qed.

Lemma Forall_done_cnt l :
  Forall (fun x => pc x = Done) l ->
  cnt isCheck l = 0 /\ cnt isAcq l = 0 /\ cnt isWait l = 0 /\ cnt isDec l = 0 /\ cnt isShoot l = 0
  /\ cnt isResp l = 0 /\ cnt isRel l = 0 /\ cnt isDone l = length l.
Proof.
  induction 1 as [|x r Hx _ IH]; [repeat split|].
  rewrite !cnt_cons, Hx. cbn. lia.
Qed.

(* ------------------------------------------------------------------------------------ *)
(* Invariants *)

Section Inv.
Variable c : cfg.

Definition nA s := cnt isAcq (insts s).
Definition nW s := cnt isWait (insts s).
Definition nD s := cnt isDec (insts s).
Definition nS s := cnt isShoot (insts s).
Definition nR s := cnt isResp (insts s).
Definition nL s := cnt isRel (insts s).
Definition nDone s := cnt isDone (insts s).

Definition inv_common (s : state) : Prop :=
  ammo (sh s) + acquired (sh s) = ammo0 c
  /\ acquired (sh s) = released (sh s) + nW s + nD s + nS s + nR s + nL s
  /\ acquired (sh s) = fired (sh s) + discarded (sh s) + unfired (sh s) + nW s + nD s + nS s
  /\ request (sh s) = fired (sh s) + nS s
  /\ response (sh s) + nR s = fired (sh s)
  /\ (discard_overflow c = false -> discarded (sh s) = 0).

Definition inv_shared (s : state) : Prop :=
  stoks (sh s) + discarded (sh s) + fired (sh s) + nD s + nS s = prof c
  /\ (unfired (sh s) > 0 -> stoks (sh s) = 0)
  /\ (nDone s > 0 -> stoks (sh s) = 0 \/ ammo (sh s) = 0)
  /\ (prof c > 0 -> stoks (sh s) = 0 -> unfired (sh s) + nA s + nW s + 1 <= length (insts s))
  /\ (prof c = 0 -> unfired (sh s) + nA s + nW s = 0).

Definition wants_token (x : inst) : Prop :=
  match pc x with Acq | Wait _ => own x > 0 | _ => True end.
Definition done_means_empty (x : inst) : Prop := pc x = Done -> own x = 0.

Definition inv_per (s : state) : Prop :=
  sum_own (insts s) + discarded (sh s) + fired (sh s) + nD s + nS s = length (insts s) * prof c
  /\ unfired (sh s) = 0
  /\ Forall wants_token (insts s)
  /\ (ammo (sh s) = 0 \/ Forall done_means_empty (insts s)).

Ltac unfold_counts := unfold nA, nW, nD, nS, nR, nL, nDone in *.

Ltac split_inst H :=
  let x := fresh "x" in let l1 := fresh "l1" in let l2 := fresh "l2" in
  let E := fresh "E" in let L := fresh "L" in let U := fresh "U" in
  match type of H with
  | nth_error ?l ?i = Some ?y => destruct (upd_split l i y H) as (l1 & l2 & E & L & U)
  end.

Lemma inv_common_init : inv_common (init c).
Proof. unfold inv_common, init; unfold_counts; cbn. repeat split; lia. Qed.

Lemma inv_common_step s a s' : inv_common s -> apply_action c a s = Some s' -> inv_common s'.
Proof.
  intros I H. destruct a as [i d| |]; cbn [apply_action] in H.
  - unfold step_inst in H. destruct (nth_error (insts s) i) as [x|] eqn:N; [|discriminate].
    destruct (local_step c i d (sh s) x) as [[sh' x']|] eqn:LS; [|discriminate].
    inversion H; subst s'; clear H.
    destruct (upd_split _ _ _ N) as (l1 & l2 & E & L & U).
    unfold inv_common in *; unfold_counts; cbn [sh insts]. rewrite U. rewrite E in I.
    rewrite !cnt_app, !cnt_cons in *.
    destruct s as [s0 l op]; cbn [sh insts] in *. destruct s0 as [tk am aq rl fi di un rq rs lg]; destruct x as [p o]; cbn [pc] in *.
    unfold local_step in LS; cbn [pc ammo] in LS.
    destruct p; cbn in LS.
    + inversion LS; subst; cbn. destruct (left_of _ _ _ =? 0); cbn; repeat split; try lia; tauto.
    + destruct am; inversion LS; subst; cbn in *; repeat split; try lia; tauto.
    + destruct (per_inst c); [destruct o|destruct tk]; inversion LS; subst; cbn in *; repeat split; try lia; tauto.
    + destruct (discard_overflow c) eqn:DO; destruct d; cbn in LS; inversion LS; subst; cbn in *;
        repeat split; try lia; try tauto; intros; try discriminate; lia.
    + inversion LS; subst; cbn in *; repeat split; try lia; tauto.
    + inversion LS; subst; cbn in *; repeat split; try lia; tauto.
    + inversion LS; subst; cbn in *; repeat split; try lia; tauto.
    + discriminate.
  - unfold spawn in H. destruct (start_open s); [|discriminate]. inversion H; subst; clear H.
    unfold inv_common in *; unfold_counts; cbn [sh insts]. rewrite !cnt_app, !cnt_cons, !cnt_nil. cbn.
    repeat split; try lia; tauto.
  - inversion H; subst. exact I.
Qed.

Lemma inv_shared_init : per_inst c = false -> inv_shared (init c).
Proof. intros P. unfold inv_shared, init; unfold_counts; rewrite P; cbn. repeat split; try lia. Qed.

Lemma inv_shared_step s a s' :
  per_inst c = false -> inv_shared s -> apply_action c a s = Some s' -> inv_shared s'.
Proof.
  intros P I H. destruct a as [i d| |]; cbn [apply_action] in H.
  - unfold step_inst in H. destruct (nth_error (insts s) i) as [x|] eqn:N; [|discriminate].
    destruct (local_step c i d (sh s) x) as [[sh' x']|] eqn:LS; [|discriminate].
    inversion H; subst s'; clear H.
    destruct (upd_split _ _ _ N) as (l1 & l2 & E & L & U).
    pose proof (cnt_partition (insts s)) as Part.
    unfold inv_shared in *; unfold_counts; cbn [sh insts]. rewrite U. rewrite E in I, Part.
    rewrite !app_length in *. cbn [length] in *.
    rewrite !cnt_app, !cnt_cons in *.
    destruct s as [s0 l op]; cbn [sh insts] in *. destruct s0 as [tk am aq rl fi di un rq rs lg]; destruct x as [p o]; cbn [pc] in *.
    unfold local_step, left_of in LS; rewrite P in LS; cbn [pc ammo stoks] in LS.
    destruct p; cbn in LS.
    + inversion LS; subst; cbn. destruct (Nat.eqb_spec tk 0); cbn in *; repeat split; try lia.
    + destruct am; inversion LS; subst; cbn in *; repeat split; try lia.
    + destruct tk; inversion LS; subst; cbn in *; repeat split; try lia.
    + destruct (discard_overflow c && d); inversion LS; subst; cbn in *; repeat split; try lia.
    + inversion LS; subst; cbn in *; repeat split; try lia.
    + inversion LS; subst; cbn in *; repeat split; try lia.
    + inversion LS; subst; cbn in *; repeat split; try lia.
    + discriminate.
  - unfold spawn in H. destruct (start_open s); [|discriminate]. inversion H; subst; clear H.
    unfold inv_shared in *; unfold_counts; cbn [sh insts].
    rewrite !app_length, !cnt_app, !cnt_cons, !cnt_nil. cbn. repeat split; try lia.
  - inversion H; subst. exact I.
Qed.

Lemma inv_per_init : per_inst c = true -> inv_per (init c).
Proof. intros P. unfold inv_per, init; unfold_counts; cbn. repeat split; auto. Qed.

Lemma inv_per_step s a s' :
  per_inst c = true -> inv_per s -> apply_action c a s = Some s' -> inv_per s'.
Proof.
  intros P I H. destruct a as [i d| |]; cbn [apply_action] in H.
  - unfold step_inst in H. destruct (nth_error (insts s) i) as [x|] eqn:N; [|discriminate].
    destruct (local_step c i d (sh s) x) as [[sh' x']|] eqn:LS; [|discriminate].
    inversion H; subst s'; clear H.
    destruct (upd_split _ _ _ N) as (l1 & l2 & E & L & U).
    unfold inv_per in *; unfold_counts; cbn [sh insts]. rewrite U. rewrite E in I.
    rewrite !app_length in *. cbn [length] in *.
    rewrite !cnt_app, !cnt_cons, !sum_own_app, !sum_own_cons in *.
    destruct I as (I1 & I2 & I3 & I4).
    apply Forall_app in I3. destruct I3 as [I3a I3b]. inversion I3b as [|? ? I3x I3c]; subst.
    assert (I4' : ammo (sh s) = 0 \/ (Forall done_means_empty l1 /\ done_means_empty x /\ Forall done_means_empty l2)).
    { destruct I4 as [I4|I4]; [left; exact I4|right].
      apply Forall_app in I4. destruct I4 as [I4a I4b]. inversion I4b; subst. auto. }
    clear I4.
    assert (FA : forall y, wants_token y -> Forall wants_token (l1 ++ y :: l2)).
    { intros y Hy. apply Forall_app; split; [exact I3a|constructor; [exact Hy|exact I3c]]. }
    assert (FD : forall y am2, done_means_empty y -> (ammo (sh s) = 0 -> am2 = 0) ->
                 am2 = 0 \/ Forall done_means_empty (l1 ++ y :: l2)).
    { intros y am2 Hy Hz. destruct I4' as [Hz'|(Ha & _ & Hb)]; [left; auto|right].
      apply Forall_app; split; [exact Ha|constructor; [exact Hy|exact Hb]]. }
    destruct s as [s0 l op]; cbn [sh insts] in *. destruct s0 as [tk am aq rl fi di un rq rs lg]; destruct x as [p o]; cbn [pc own] in *.
    unfold local_step, left_of in LS; rewrite P in LS; cbn [pc ammo stoks own] in LS.
    unfold wants_token, done_means_empty in *; cbn [pc own ammo] in *.
    destruct p; cbn in LS;
      [ destruct (Nat.eqb_spec o 0)
      | destruct am
      | destruct o; [cbn in I3x; lia|]
      | destruct (discard_overflow c && d)
      | | | | discriminate ];
      inversion LS; subst; cbn in *; repeat split; try lia;
      try (apply FA; cbn; first [exact Logic.I | lia]);
      (first [ left; reflexivity
             | apply FD; [cbn; intros; first [discriminate | lia | assumption] | intros; first [lia | assumption | discriminate]] ]).
  - unfold spawn in H. destruct (start_open s); [|discriminate]. inversion H; subst; clear H.
    unfold inv_per in *; unfold_counts; cbn [sh insts].
    rewrite !app_length, !cnt_app, !cnt_cons, !cnt_nil, !sum_own_app, !sum_own_cons. unfold new_inst; rewrite P. cbn.
    destruct I as (I1 & I2 & I3 & I4). repeat split; try lia.
    + apply Forall_app; split; [exact I3|constructor; [exact Logic.I|constructor]].
    + destruct I4 as [I4|I4]; [left; exact I4|right]. apply Forall_app; split; [exact I4|constructor; [|constructor]].
      unfold done_means_empty; cbn; discriminate.
  - inversion H; subst. exact I.
Qed.

Lemma reach_inv_common s : reach c s -> inv_common s.
Proof. induction 1; [apply inv_common_init|eapply inv_common_step; eauto]. Qed.

Lemma reach_inv_shared s : per_inst c = false -> reach c s -> inv_shared s.
Proof. intros P; induction 1; [apply inv_shared_init; exact P|eapply inv_shared_step; eauto]. Qed.

Lemma reach_inv_per s : per_inst c = true -> reach c s -> inv_per s.
Proof. intros P; induction 1; [apply inv_per_init; exact P|eapply inv_per_step; eauto]. Qed.

End Inv.

(* ------------------------------------------------------------------------------------ *)
(* Terminal states: the C03 equations *)

Lemma done_empty_sum l :
  Forall (fun x => pc x = Done) l -> Forall done_means_empty l -> sum_own l = 0.
Proof.
  induction 1 as [|x r Hx _ IH]; intros HF; [reflexivity|].
  inversion HF; subst. rewrite sum_own_cons. rewrite IH by assumption.
  unfold done_means_empty in *. intuition lia.
Qed.

Theorem conservation c s :
  reach c s -> terminal s -> length (insts s) >= 1 ->
  fired (sh s) + discarded (sh s) = Nat.min (tokens c s) (ammo0 c).
Proof.
  intros R [_ T] N1. pose proof (reach_inv_common c s R) as IC.
  destruct (Forall_done_cnt _ T) as (_ & zA & zW & zD & zS & zR & zL & zDone).
  unfold tokens. destruct (per_inst c) eqn:P.
  - pose proof (reach_inv_per c s P R) as (I1 & I2 & _ & I4).
    unfold inv_common, nA, nW, nD, nS, nR, nL in *. rewrite ?zA, ?zW, ?zD, ?zS, ?zR, ?zL in *.
    destruct I4 as [I4|I4].
    + lia.
    + rewrite (done_empty_sum _ T I4) in I1. lia.
  - pose proof (reach_inv_shared c s P R) as (I1 & I2 & I3 & I4 & I5).
    unfold inv_common, nA, nW, nD, nS, nR, nL, nDone in *. rewrite ?zA, ?zW, ?zD, ?zS, ?zR, ?zL, ?zDone in *.
    destruct I3 as [I3|I3]; [lia| |]; [lia|].
    destruct (Nat.eq_dec (stoks (sh s)) 0) as [Z|NZ]; [lia|].
    assert (unfired (sh s) = 0) by (destruct (unfired (sh s)); [reflexivity|exfalso; apply NZ; apply I2; lia]).
    lia.
Qed.

Theorem unfired_bound c s :
  reach c s -> terminal s -> length (insts s) >= 1 ->
  (per_inst c = false -> acquired (sh s) - (fired (sh s) + discarded (sh s)) <= length (insts s) - 1)
  /\ (per_inst c = true -> acquired (sh s) = fired (sh s) + discarded (sh s)).
Proof.
  intros R [_ T] N1. pose proof (reach_inv_common c s R) as IC.
  destruct (Forall_done_cnt _ T) as (_ & zA & zW & zD & zS & zR & zL & zDone).
  split; intros P.
  - pose proof (reach_inv_shared c s P R) as (I1 & I2 & I3 & I4 & I5).
    unfold inv_common, nA, nW, nD, nS, nR, nL, nDone in *. rewrite ?zA, ?zW, ?zD, ?zS, ?zR, ?zL, ?zDone in *.
    destruct (Nat.eq_dec (prof c) 0) as [Z|NZ]; [specialize (I5 Z); lia|].
    destruct (Nat.eq_dec (stoks (sh s)) 0) as [Z'|NZ']; [specialize (I4 ltac:(lia) Z'); lia|].
    assert (unfired (sh s) = 0) by (destruct (unfired (sh s)); [reflexivity|exfalso; apply NZ'; apply I2; lia]).
    lia.
  - pose proof (reach_inv_per c s P R) as (I1 & I2 & _ & I4).
    unfold inv_common, nA, nW, nD, nS, nR, nL in *. rewrite ?zA, ?zW, ?zD, ?zS, ?zR, ?zL in *. lia.
Qed.

Theorem counters c s :
  reach c s -> terminal s ->
  request (sh s) = fired (sh s) /\ response (sh s) = fired (sh s)
  /\ (discard_overflow c = false -> discarded (sh s) = 0).
Proof.
  intros R [_ T]. pose proof (reach_inv_common c s R) as IC.
  destruct (Forall_done_cnt _ T) as (_ & zA & zW & zD & zS & zR & zL & zDone).
  unfold inv_common, nA, nW, nD, nS, nR, nL in *. rewrite ?zA, ?zW, ?zD, ?zS, ?zR, ?zL in *.
  repeat split; try lia. tauto.
Qed.

Theorem acquired_released_count c s :
  reach c s -> terminal s -> acquired (sh s) = released (sh s) /\ acquired (sh s) <= ammo0 c.
Proof.
  intros R [_ T]. pose proof (reach_inv_common c s R) as IC.
  destruct (Forall_done_cnt _ T) as (_ & zA & zW & zD & zS & zR & zL & zDone).
  unfold inv_common, nA, nW, nD, nS, nR, nL in *. rewrite ?zA, ?zW, ?zD, ?zS, ?zR, ?zL in *. lia.
Qed.
