(* Proofs about Model/Instance.v: invariants of every reachable state of N instances racing
   for ammo and schedule tokens, and the four C03 statements at terminal states. *)
From Coq Require Import List Arith Bool Lia.
From PV Require Import Model.Instance.
Import ListNotations.

(* ------------------------------------------------------------------------------------ *)
(* Reachability: any interleaving of instance sections, spawns and the end of the start loop *)

Inductive reach (c : cfg) : state -> Prop :=
| reach_init : reach c (init c)
| reach_step : forall s a s', reach c s -> apply_action c a s = Some s' -> reach c s'.

Definition terminal (s : state) : Prop := start_open s = false /\ Forall (fun x => pc x = Done) (insts s).

Lemma run_reach_from c l : forall s s', reach c s -> run c l s = Some s' -> reach c s'.
Proof.
  induction l as [|a r IH]; cbn [run]; intros s s' Hr H.
  - inversion H; subst; exact Hr.
  - destruct (apply_action c a s) as [s1|] eqn:E; [|discriminate].
    eapply IH; [eapply reach_step; eauto|exact H].
Qed.

Lemma run_reach c l s : run c l (init c) = Some s -> reach c s.
Proof. apply run_reach_from; constructor. Qed.

Lemma terminal_b_spec s : terminal_b s = true <-> terminal s.
Proof.
  unfold terminal_b, terminal. rewrite andb_true_iff, negb_true_iff, forallb_forall, Forall_forall.
  split; intros [H1 H2]; split; auto; intros x Hx; specialize (H2 x Hx); unfold is_done in *;
    destruct (pc x); congruence.
Qed.

(* ------------------------------------------------------------------------------------ *)
(* Counting instances by program point *)

Definition cnt (f : ipc -> bool) (l : list inst) : nat := length (filter (fun x => f (pc x)) l).

Definition isCheck p := match p with Check => true | _ => false end.
Definition isAcq p := match p with Acq => true | _ => false end.
Definition isWait p := match p with Wait _ => true | _ => false end.
Definition isDec p := match p with Dec _ => true | _ => false end.
Definition isShoot p := match p with Shoot _ => true | _ => false end.
Definition isResp p := match p with Resp _ => true | _ => false end.
Definition isRel p := match p with Rel _ => true | _ => false end.
Definition isDone p := match p with Done => true | _ => false end.

Definition sum_own (l : list inst) : nat := list_sum (map own l).

Lemma cnt_app f l1 l2 : cnt f (l1 ++ l2) = cnt f l1 + cnt f l2.
Proof. unfold cnt. rewrite filter_app, app_length. reflexivity. Qed.

Lemma cnt_cons f x l : cnt f (x :: l) = (if f (pc x) then 1 else 0) + cnt f l.
Proof. unfold cnt. cbn [filter]. destruct (f (pc x)); reflexivity. Qed.

Lemma cnt_nil f : cnt f [] = 0.
Proof. reflexivity. Qed.

Lemma sum_own_app l1 l2 : sum_own (l1 ++ l2) = sum_own l1 + sum_own l2.
Proof. unfold sum_own. rewrite map_app, list_sum_app. reflexivity. Qed.

Lemma sum_own_cons x l : sum_own (x :: l) = own x + sum_own l.
Proof. reflexivity. Qed.

Lemma cnt_partition l :
  length l = cnt isCheck l + cnt isAcq l + cnt isWait l + cnt isDec l + cnt isShoot l + cnt isResp l
             + cnt isRel l + cnt isDone l.
Proof.
  induction l as [|x r IH]; [reflexivity|].
  rewrite !cnt_cons. cbn [length]. destruct (pc x); cbn; lia.
Qed.

Lemma upd_split {A} (l : list A) i x :
  nth_error l i = Some x ->
  exists l1 l2, l = l1 ++ x :: l2 /\ length l1 = i /\ forall y, upd l i y = l1 ++ y :: l2.
Proof.
  revert i; induction l as [|z r IH]; intros [|i] H; cbn in H; try discriminate.
  - inversion H; subst. exists [], r. repeat split.
  - destruct (IH i H) as (l1 & l2 & E & L & U). exists (z :: l1), l2. subst r. repeat split.
    + cbn. f_equal. exact L.
    + intros y. cbn. f_equal. apply U.
Qed.

Lemma Forall_done_cnt l :
  Forall (fun x => pc x = Done) l ->
  cnt isCheck l = 0 /\ cnt isAcq l = 0 /\ cnt isWait l = 0 /\ cnt isDec l = 0 /\ cnt isShoot l = 0
  /\ cnt isResp l = 0 /\ cnt isRel l = 0 /\ cnt isDone l = length l.
Proof.
  induction 1 as [|x r Hx _ IH]; [repeat split|].
  rewrite !cnt_cons, Hx. cbn. lia.
Qed.

(* ------------------------------------------------------------------------------------ *)
(* Invariants *)

Section Inv.
Variable c : cfg.

Definition nA s := cnt isAcq (insts s).
Definition nW s := cnt isWait (insts s).
Definition nD s := cnt isDec (insts s).
Definition nS s := cnt isShoot (insts s).
Definition nR s := cnt isResp (insts s).
Definition nL s := cnt isRel (insts s).
Definition nDone s := cnt isDone (insts s).

Definition inv_common (s : state) : Prop :=
  ammo (sh s) + acquired (sh s) = ammo0 c
  /\ acquired (sh s) = released (sh s) + nW s + nD s + nS s + nR s + nL s
  /\ acquired (sh s) = fired (sh s) + discarded (sh s) + unfired (sh s) + nW s + nD s + nS s
  /\ request (sh s) = fired (sh s) + nS s
  /\ response (sh s) + nR s = fired (sh s)
  /\ (discard_overflow c = false -> discarded (sh s) = 0).

Definition inv_shared (s : state) : Prop :=
  stoks (sh s) + discarded (sh s) + fired (sh s) + nD s + nS s = prof c
  /\ (unfired (sh s) > 0 -> stoks (sh s) = 0)
  /\ (nDone s > 0 -> stoks (sh s) = 0 \/ ammo (sh s) = 0)
  /\ (prof c > 0 -> stoks (sh s) = 0 -> unfired (sh s) + nA s + nW s + 1 <= length (insts s))
  /\ (prof c = 0 -> unfired (sh s) + nA s + nW s = 0).

Definition wants_token (x : inst) : Prop :=
  match pc x with Acq | Wait _ => own x > 0 | _ => True end.
Definition done_means_empty (x : inst) : Prop := pc x = Done -> own x = 0.

Definition inv_per (s : state) : Prop :=
  sum_own (insts s) + discarded (sh s) + fired (sh s) + nD s + nS s = length (insts s) * prof c
  /\ unfired (sh s) = 0
  /\ Forall wants_token (insts s)
  /\ (ammo (sh s) = 0 \/ Forall done_means_empty (insts s)).

Ltac unfold_counts := unfold nA, nW, nD, nS, nR, nL, nDone in *.

Ltac split_inst H :=
  let x := fresh "x" in let l1 := fresh "l1" in let l2 := fresh "l2" in
  let E := fresh "E" in let L := fresh "L" in let U := fresh "U" in
  match type of H with
  | nth_error ?l ?i = Some ?y => destruct (upd_split l i y H) as (l1 & l2 & E & L & U)
  end.

Lemma inv_common_init : inv_common (init c).
Proof. unfold inv_common, init; unfold_counts; cbn. repeat split; lia. Qed.

Lemma inv_common_step s a s' : inv_common s -> apply_action c a s = Some s' -> inv_common s'.
Proof.
  intros I H. destruct a as [i d| |]; cbn [apply_action] in H.
  - unfold step_inst in H. destruct (nth_error (insts s) i) as [x|] eqn:N; [|discriminate].
    destruct (local_step c i d (sh s) x) as [[sh' x']|] eqn:LS; [|discriminate].
    inversion H; subst s'; clear H.
    destruct (upd_split _ _ _ N) as (l1 & l2 & E & L & U).
    unfold inv_common in *; unfold_counts; cbn [sh insts]. rewrite U. rewrite E in I.
    rewrite !cnt_app, !cnt_cons in *.
    destruct s as [s0 l op]; cbn [sh insts] in *. destruct s0 as [tk am aq rl fi di un rq rs lg]; destruct x as [p o]; cbn [pc] in *.
    unfold local_step in LS; cbn [pc ammo] in LS.
    destruct p; cbn in LS.
    + inversion LS; subst; cbn. destruct (left_of _ _ _ =? 0); cbn; repeat split; try lia; tauto.
    + destruct am; inversion LS; subst; cbn in *; repeat split; try lia; tauto.
    + destruct (per_inst c); [destruct o|destruct tk]; inversion LS; subst; cbn in *; repeat split; try lia; tauto.
    + destruct (discard_overflow c) eqn:DO; destruct d; cbn in LS; inversion LS; subst; cbn in *;
        repeat split; try lia; try tauto; intros; try discriminate; lia.
    + inversion LS; subst; cbn in *; repeat split; try lia; tauto.
    + inversion LS; subst; cbn in *; repeat split; try lia; tauto.
    + inversion LS; subst; cbn in *; repeat split; try lia; tauto.
    + discriminate.
  - unfold spawn in H. destruct (start_open s); [|discriminate]. inversion H; subst; clear H.
    unfold inv_common in *; unfold_counts; cbn [sh insts]. rewrite !cnt_app, !cnt_cons, !cnt_nil. cbn.
    repeat split; try lia; tauto.
  - inversion H; subst. exact I.
Qed.

Lemma inv_shared_init : per_inst c = false -> inv_shared (init c).
Proof. intros P. unfold inv_shared, init; unfold_counts; rewrite P; cbn. repeat split; try lia. Qed.

Lemma inv_shared_step s a s' :
  per_inst c = false -> inv_shared s -> apply_action c a s = Some s' -> inv_shared s'.
Proof.
  intros P I H. destruct a as [i d| |]; cbn [apply_action] in H.
  - unfold step_inst in H. destruct (nth_error (insts s) i) as [x|] eqn:N; [|discriminate].
    destruct (local_step c i d (sh s) x) as [[sh' x']|] eqn:LS; [|discriminate].
    inversion H; subst s'; clear H.
    destruct (upd_split _ _ _ N) as (l1 & l2 & E & L & U).
    pose proof (cnt_partition (insts s)) as Part.
    unfold inv_shared in *; unfold_counts; cbn [sh insts]. rewrite U. rewrite E in I, Part.
    rewrite !app_length in *. cbn [length] in *.
    rewrite !cnt_app, !cnt_cons in *.
    destruct s as [s0 l op]; cbn [sh insts] in *. destruct s0 as [tk am aq rl fi di un rq rs lg]; destruct x as [p o]; cbn [pc] in *.
    unfold local_step, left_of in LS; rewrite P in LS; cbn [pc ammo stoks] in LS.
    destruct p; cbn in LS.
    + inversion LS; subst; cbn. destruct (Nat.eqb_spec tk 0); cbn in *; repeat split; try lia.
    + destruct am; inversion LS; subst; cbn in *; repeat split; try lia.
    + destruct tk; inversion LS; subst; cbn in *; repeat split; try lia.
    + destruct (discard_overflow c && d); inversion LS; subst; cbn in *; repeat split; try lia.
    + inversion LS; subst; cbn in *; repeat split; try lia.
    + inversion LS; subst; cbn in *; repeat split; try lia.
    + inversion LS; subst; cbn in *; repeat split; try lia.
    + discriminate.
  - unfold spawn in H. destruct (start_open s); [|discriminate]. inversion H; subst; clear H.
    unfold inv_shared in *; unfold_counts; cbn [sh insts].
    rewrite !app_length, !cnt_app, !cnt_cons, !cnt_nil. cbn. repeat split; try lia.
  - inversion H; subst. exact I.
Qed.

Lemma inv_per_init : per_inst c = true -> inv_per (init c).
Proof. intros P. unfold inv_per, init; unfold_counts; cbn. repeat split; auto. Qed.

Lemma inv_per_step s a s' :
  per_inst c = true -> inv_per s -> apply_action c a s = Some s' -> inv_per s'.
Proof.
  intros P I H. destruct a as [i d| |]; cbn [apply_action] in H.
  - unfold step_inst in H. destruct (nth_error (insts s) i) as [x|] eqn:N; [|discriminate].
    destruct (local_step c i d (sh s) x) as [[sh' x']|] eqn:LS; [|discriminate].
    inversion H; subst s'; clear H.
    destruct (upd_split _ _ _ N) as (l1 & l2 & E & L & U).
    unfold inv_per in *; unfold_counts; cbn [sh insts]. rewrite U. rewrite E in I.
    rewrite !app_length in *. cbn [length] in *.
    rewrite !cnt_app, !cnt_cons, !sum_own_app, !sum_own_cons in *.
    destruct I as (I1 & I2 & I3 & I4).
    apply Forall_app in I3. destruct I3 as [I3a I3b]. inversion I3b as [|? ? I3x I3c]; subst.
    assert (I4' : ammo (sh s) = 0 \/ (Forall done_means_empty l1 /\ done_means_empty x /\ Forall done_means_empty l2)).
    { destruct I4 as [I4|I4]; [left; exact I4|right].
      apply Forall_app in I4. destruct I4 as [I4a I4b]. inversion I4b; subst. auto. }
    clear I4.
    assert (FA : forall y, wants_token y -> Forall wants_token (l1 ++ y :: l2)).
    { intros y Hy. apply Forall_app; split; [exact I3a|constructor; [exact Hy|exact I3c]]. }
    assert (FD : forall y am2, done_means_empty y -> (ammo (sh s) = 0 -> am2 = 0) ->
                 am2 = 0 \/ Forall done_means_empty (l1 ++ y :: l2)).
    { intros y am2 Hy Hz. destruct I4' as [Hz'|(Ha & _ & Hb)]; [left; auto|right].
      apply Forall_app; split; [exact Ha|constructor; [exact Hy|exact Hb]]. }
    destruct s as [s0 l op]; cbn [sh insts] in *. destruct s0 as [tk am aq rl fi di un rq rs lg]; destruct x as [p o]; cbn [pc own] in *.
    unfold local_step, left_of in LS; rewrite P in LS; cbn [pc ammo stoks own] in LS.
    unfold wants_token, done_means_empty in *; cbn [pc own ammo] in *.
    destruct p; cbn in LS;
      [ destruct (Nat.eqb_spec o 0)
      | destruct am
      | destruct o; [cbn in I3x; lia|]
      | destruct (discard_overflow c && d)
      | | | | discriminate ];
      inversion LS; subst; cbn in *; repeat split; try lia;
      try (apply FA; cbn; first [exact Logic.I | lia]);
      (first [ left; reflexivity
             | apply FD; [cbn; intros; first [discriminate | lia | assumption] | intros; first [lia | assumption | discriminate]] ]).
  - unfold spawn in H. destruct (start_open s); [|discriminate]. inversion H; subst; clear H.
    unfold inv_per in *; unfold_counts; cbn [sh insts].
    rewrite !app_length, !cnt_app, !cnt_cons, !cnt_nil, !sum_own_app, !sum_own_cons. unfold new_inst; rewrite P. cbn.
    destruct I as (I1 & I2 & I3 & I4). repeat split; try lia.
    + apply Forall_app; split; [exact I3|constructor; [exact Logic.I|constructor]].
    + destruct I4 as [I4|I4]; [left; exact I4|right]. apply Forall_app; split; [exact I4|constructor; [|constructor]].
      unfold done_means_empty; cbn; discriminate.
  - inversion H; subst. exact I.
Qed.

Lemma reach_inv_common s : reach c s -> inv_common s.
Proof. induction 1; [apply inv_common_init|eapply inv_common_step; eauto]. Qed.

Lemma reach_inv_shared s : per_inst c = false -> reach c s -> inv_shared s.
Proof. intros P; induction 1; [apply inv_shared_init; exact P|eapply inv_shared_step; eauto]. Qed.

Lemma reach_inv_per s : per_inst c = true -> reach c s -> inv_per s.
Proof. intros P; induction 1; [apply inv_per_init; exact P|eapply inv_per_step; eauto]. Qed.

End Inv.

(* ------------------------------------------------------------------------------------ *)
(* Terminal states: the C03 equations *)

Lemma done_empty_sum l :
  Forall (fun x => pc x = Done) l -> Forall done_means_empty l -> sum_own l = 0.
Proof.
  induction 1 as [|x r Hx _ IH]; intros HF; [reflexivity|].
  inversion HF; subst. rewrite sum_own_cons. rewrite IH by assumption.
  unfold done_means_empty in *. intuition lia.
Qed.

Theorem conservation c s :
  reach c s -> terminal s -> length (insts s) >= 1 ->
  fired (sh s) + discarded (sh s) = Nat.min (tokens c s) (ammo0 c).
Proof.
  intros R [_ T] N1. pose proof (reach_inv_common c s R) as IC.
  destruct (Forall_done_cnt _ T) as (_ & zA & zW & zD & zS & zR & zL & zDone).
  unfold tokens. destruct (per_inst c) eqn:P.
  - pose proof (reach_inv_per c s P R) as (I1 & I2 & _ & I4).
    unfold inv_common, nA, nW, nD, nS, nR, nL in *. rewrite ?zA, ?zW, ?zD, ?zS, ?zR, ?zL in *.
    destruct I4 as [I4|I4].
    + lia.
    + rewrite (done_empty_sum _ T I4) in I1. lia.
  - pose proof (reach_inv_shared c s P R) as (I1 & I2 & I3 & I4 & I5).
    unfold inv_common, nA, nW, nD, nS, nR, nL, nDone in *. rewrite ?zA, ?zW, ?zD, ?zS, ?zR, ?zL, ?zDone in *.
    destruct I3 as [I3|I3]; [lia| |]; [lia|].
    destruct (Nat.eq_dec (stoks (sh s)) 0) as [Z|NZ]; [lia|].
    assert (unfired (sh s) = 0) by (destruct (unfired (sh s)); [reflexivity|exfalso; apply NZ; apply I2; lia]).
    lia.
Qed.

Theorem unfired_bound c s :
  reach c s -> terminal s -> length (insts s) >= 1 ->
  (per_inst c = false -> acquired (sh s) - (fired (sh s) + discarded (sh s)) <= length (insts s) - 1)
  /\ (per_inst c = true -> acquired (sh s) = fired (sh s) + discarded (sh s)).
Proof.
  intros R [_ T] N1. pose proof (reach_inv_common c s R) as IC.
  destruct (Forall_done_cnt _ T) as (_ & zA & zW & zD & zS & zR & zL & zDone).
  split; intros P.
  - pose proof (reach_inv_shared c s P R) as (I1 & I2 & I3 & I4 & I5).
    unfold inv_common, nA, nW, nD, nS, nR, nL, nDone in *. rewrite ?zA, ?zW, ?zD, ?zS, ?zR, ?zL, ?zDone in *.
    destruct (Nat.eq_dec (prof c) 0) as [Z|NZ]; [specialize (I5 Z); lia|].
    destruct (Nat.eq_dec (stoks (sh s)) 0) as [Z'|NZ']; [specialize (I4 ltac:(lia) Z'); lia|].
    assert (unfired (sh s) = 0) by (destruct (unfired (sh s)); [reflexivity|exfalso; apply NZ'; apply I2; lia]).
    lia.
  - pose proof (reach_inv_per c s P R) as (I1 & I2 & _ & I4).
    unfold inv_common, nA, nW, nD, nS, nR, nL in *. rewrite ?zA, ?zW, ?zD, ?zS, ?zR, ?zL in *. lia.
Qed.

Theorem counters c s :
  reach c s -> terminal s ->
  request (sh s) = fired (sh s) /\ response (sh s) = fired (sh s)
  /\ (discard_overflow c = false -> discarded (sh s) = 0).
Proof.
  intros R [_ T]. pose proof (reach_inv_common c s R) as IC.
  destruct (Forall_done_cnt _ T) as (_ & zA & zW & zD & zS & zR & zL & zDone).
  unfold inv_common, nA, nW, nD, nS, nR, nL in *. rewrite ?zA, ?zW, ?zD, ?zS, ?zR, ?zL in *.
  repeat split; try lia. tauto.
Qed.

Theorem acquired_released_count c s :
  reach c s -> terminal s -> acquired (sh s) = released (sh s) /\ acquired (sh s) <= ammo0 c.
Proof.
  intros R [_ T]. pose proof (reach_inv_common c s R) as IC.
  destruct (Forall_done_cnt _ T) as (_ & zA & zW & zD & zS & zR & zL & zDone).
  unfold inv_common, nA, nW, nD, nS, nR, nL in *. rewrite ?zA, ?zW, ?zD, ?zS, ?zR, ?zL in *. lia.
Qed.

(* ------------------------------------------------------------------------------------ *)
(* Item histories: every acquired item is released exactly once, after its shot/discard,
   by the instance that acquired it, and never touched afterwards. *)

Definition no_holder (l : list inst) (a : nat) : Prop :=
  forall j y, nth_error l j = Some y -> held_item (pc y) <> Some a.
Definition only_holder (l : list inst) (a i : nat) : Prop :=
  forall j y, nth_error l j = Some y -> held_item (pc y) = Some a -> j = i.

(* newest-first shape of the events of item a while instance i, at program point p, holds it *)
Definition partial_shape (i a : nat) (p : ipc) (l : list event) : Prop :=
  match p with
  | Wait _ | Dec _ | Shoot _ => l = [mkEv i EAcq a]
  | Resp _ => l = [mkEv i EShoot a; mkEv i EAcq a]
  | Rel _ => l = [mkEv i EAcq a] \/ l = [mkEv i EShoot a; mkEv i EAcq a] \/ l = [mkEv i EDisc a; mkEv i EAcq a]
  | _ => False
  end.

Definition complete_shape (a : nat) (l : list event) : Prop :=
  exists i, l = [mkEv i ERel a; mkEv i EAcq a]
         \/ l = [mkEv i ERel a; mkEv i EShoot a; mkEv i EAcq a]
         \/ l = [mkEv i ERel a; mkEv i EDisc a; mkEv i EAcq a].

Definition item_inv (lg : list event) (aq : nat) (l : list inst) (a : nat) : Prop :=
  (proj a lg = [] /\ aq <= a /\ no_holder l a)
  \/ (exists i x, nth_error l i = Some x /\ held_item (pc x) = Some a
                  /\ partial_shape i a (pc x) (proj a lg) /\ a < aq /\ only_holder l a i)
  \/ (complete_shape a (proj a lg) /\ a < aq /\ no_holder l a).

Lemma nth_mid_eq (l1 : list inst) x l2 : nth_error (l1 ++ x :: l2) (length l1) = Some x.
Proof. rewrite nth_error_app2 by lia. rewrite Nat.sub_diag. reflexivity. Qed.

Lemma nth_mid_neq (l1 : list inst) x x' l2 j :
  j <> length l1 -> nth_error (l1 ++ x' :: l2) j = nth_error (l1 ++ x :: l2) j.
Proof.
  intros H. destruct (Nat.lt_ge_cases j (length l1)).
  - rewrite !nth_error_app1 by assumption. reflexivity.
  - rewrite !nth_error_app2 by assumption.
    destruct (j - length l1) as [|k] eqn:E; [lia|reflexivity].
Qed.

Lemma proj_cons a e l : proj a (e :: l) = if ev_item e =? a then e :: proj a l else proj a l.
Proof. reflexivity. Qed.

Lemma no_holder_frame l1 x x' l2 a :
  held_item (pc x') <> Some a -> no_holder (l1 ++ x :: l2) a -> no_holder (l1 ++ x' :: l2) a.
Proof.
  intros Hx' H j y Hj. destruct (Nat.eq_dec j (length l1)) as [->|Ne].
  - rewrite nth_mid_eq in Hj. inversion Hj; subst. exact Hx'.
  - rewrite (nth_mid_neq l1 x x' l2 j Ne) in Hj. eapply H; eauto.
Qed.

Lemma only_holder_frame l1 x x' l2 a i :
  held_item (pc x') <> Some a -> only_holder (l1 ++ x :: l2) a i -> only_holder (l1 ++ x' :: l2) a i.
Proof.
  intros Hx' H j y Hj Hy. destruct (Nat.eq_dec j (length l1)) as [->|Ne].
  - rewrite nth_mid_eq in Hj. inversion Hj; subst. contradiction.
  - rewrite (nth_mid_neq l1 x x' l2 j Ne) in Hj. eapply H; eauto.
Qed.

(* the stepping instance neither held nor holds item a, and a's events and status are untouched *)
Lemma item_inv_frame lg lg' aq aq' l1 x x' l2 a :
  proj a lg' = proj a lg -> (aq <= a -> aq' <= a) -> (a < aq -> a < aq') ->
  held_item (pc x) <> Some a -> held_item (pc x') <> Some a ->
  item_inv lg aq (l1 ++ x :: l2) a -> item_inv lg' aq' (l1 ++ x' :: l2) a.
Proof.
  intros Hp Hle Hlt Hx Hx' [(E & L & NH)|[(i & y & Hi & Hy & PS & L & OH)|(CS & L & NH)]].
  - left. rewrite Hp. repeat split; auto. eapply no_holder_frame; eauto.
  - right; left. exists i, y. rewrite Hp.
    assert (i <> length l1) by (intros ->; rewrite nth_mid_eq in Hi; inversion Hi; subst; contradiction).
    repeat split; auto.
    + rewrite (nth_mid_neq l1 x x' l2 i) by assumption. exact Hi.
    + eapply only_holder_frame; eauto.
  - right; right. rewrite Hp. repeat split; auto. eapply no_holder_frame; eauto.
Qed.

(* the stepping instance keeps holding item a *)
Lemma item_inv_held lg lg' aq l1 x x' l2 a :
  held_item (pc x) = Some a -> held_item (pc x') = Some a ->
  (partial_shape (length l1) a (pc x) (proj a lg) -> partial_shape (length l1) a (pc x') (proj a lg')) ->
  item_inv lg aq (l1 ++ x :: l2) a -> item_inv lg' aq (l1 ++ x' :: l2) a.
Proof.
  intros Hx Hx' Hps [(E & L & NH)|[(i & y & Hi & Hy & PS & L & OH)|(CS & L & NH)]].
  - exfalso. eapply NH; [apply nth_mid_eq|exact Hx].
  - assert (length l1 = i) by (eapply OH; [apply nth_mid_eq|exact Hx]). subst i.
    rewrite nth_mid_eq in Hi. inversion Hi; subst y.
    right; left. exists (length l1), x'. repeat split; auto.
    + apply nth_mid_eq.
    + intros j z Hj Hz. destruct (Nat.eq_dec j (length l1)) as [->|Ne]; [reflexivity|].
      rewrite (nth_mid_neq l1 x x' l2 j Ne) in Hj. eapply OH; eauto.
  - exfalso. eapply NH; [apply nth_mid_eq|exact Hx].
Qed.

(* Acquire hands out the fresh item a = aq *)
Lemma item_inv_acquire lg aq l1 x x' l2 :
  held_item (pc x) = None -> pc x' = Wait aq ->
  item_inv lg aq (l1 ++ x :: l2) aq ->
  item_inv (mkEv (length l1) EAcq aq :: lg) (S aq) (l1 ++ x' :: l2) aq.
Proof.
  intros Hx Hx' [(E & L & NH)|[(i & y & Hi & Hy & PS & L & OH)|(CS & L & NH)]]; try lia.
  right; left. exists (length l1), x'. rewrite proj_cons; cbn [ev_item]. rewrite Nat.eqb_refl, E, Hx'.
  repeat split; auto.
  - apply nth_mid_eq.
  - intros j z Hj Hz. destruct (Nat.eq_dec j (length l1)) as [->|Ne]; [reflexivity|].
    rewrite (nth_mid_neq l1 x x' l2 j Ne) in Hj. exfalso. eapply NH; eauto.
Qed.

(* Release ends the history of item a *)
Lemma item_inv_release lg aq l1 x x' l2 a :
  pc x = Rel a -> held_item (pc x') = None ->
  item_inv lg aq (l1 ++ x :: l2) a ->
  item_inv (mkEv (length l1) ERel a :: lg) aq (l1 ++ x' :: l2) a.
Proof.
  intros Hx Hx' [(E & L & NH)|[(i & y & Hi & Hy & PS & L & OH)|(CS & L & NH)]].
  - exfalso. eapply NH; [apply nth_mid_eq|rewrite Hx; reflexivity].
  - assert (length l1 = i) by (eapply OH; [apply nth_mid_eq|rewrite Hx; reflexivity]). subst i.
    rewrite nth_mid_eq in Hi. inversion Hi; subst y. rewrite Hx in PS. cbn [partial_shape] in PS.
    right; right. rewrite proj_cons; cbn [ev_item]. rewrite Nat.eqb_refl. repeat split; auto.
    + exists (length l1). destruct PS as [->|[->| ->]]; auto.
    + intros j z Hj Hz. destruct (Nat.eq_dec j (length l1)) as [->|Ne].
      * rewrite nth_mid_eq in Hj. inversion Hj; subst. congruence.
      * rewrite (nth_mid_neq l1 x x' l2 j Ne) in Hj. apply Ne. eapply OH; eauto.
  - exfalso. eapply NH; [apply nth_mid_eq|rewrite Hx; reflexivity].
Qed.

Definition inv_items (s : state) : Prop :=
  forall a, item_inv (log (sh s)) (acquired (sh s)) (insts s) a.

Lemma inv_items_init c : inv_items (init c).
Proof.
  intros a. left. cbn. repeat split; [lia|]. intros j y Hj. destruct j; discriminate.
Qed.

Lemma held_neq_dec (p : ipc) a : {held_item p = Some a} + {held_item p <> Some a}.
Proof. destruct (held_item p) as [b|]; [destruct (Nat.eq_dec b a); [left; congruence|right; congruence]|right; discriminate]. Qed.

Lemma proj_cons_neq a e l : ev_item e <> a -> proj a (e :: l) = proj a l.
Proof. intros H. rewrite proj_cons. destruct (Nat.eqb_spec (ev_item e) a); [contradiction|reflexivity]. Qed.

Ltac frame I :=
  eapply item_inv_frame; [.. | exact I];
  [ first [reflexivity | apply proj_cons_neq; cbn; congruence]
  | try lia; auto | try lia; auto
  | cbn; try discriminate; try congruence
  | cbn; try discriminate; try congruence ].

Ltac held I :=
  eapply item_inv_held; [.. | exact I]; [reflexivity | reflexivity | ].

Lemma inv_items_step c s a s' : inv_items s -> apply_action c a s = Some s' -> inv_items s'.
Proof.
  intros I H. destruct a as [i d| |]; cbn [apply_action] in H.
  - unfold step_inst in H. destruct (nth_error (insts s) i) as [x|] eqn:N; [|discriminate].
    destruct (local_step c i d (sh s) x) as [[sh' x']|] eqn:LS; [|discriminate].
    inversion H; subst s'; clear H.
    destruct (upd_split _ _ _ N) as (l1 & l2 & E & L & U).
    intros b. specialize (I b). unfold inv_items; cbn [sh insts]. rewrite U. rewrite E in I. clear U N E.
    destruct s as [s0 l op]; cbn [sh insts] in *. destruct s0 as [tk am aq rl fi di un rq rs lg]; destruct x as [p o]; cbn [pc own log acquired] in *.
    unfold local_step in LS; cbn [pc ammo stoks own] in LS. subst i.
    destruct p; cbn in LS.
    + (* Check *) destruct (left_of _ _ _ =? 0); inversion LS; subst; cbn [log acquired]; frame I.
    + (* Acq *) destruct am; inversion LS; subst; cbn [log acquired].
      * frame I.
      * destruct (Nat.eq_dec b aq) as [->|Ne].
        -- eapply item_inv_acquire; [.. | exact I]; reflexivity.
        -- frame I.
    + (* Wait *)
      destruct (per_inst c); [destruct o|destruct tk]; inversion LS; subst; cbn [log acquired];
        (destruct (Nat.eq_dec b a) as [->|Ne]; [held I; cbn [partial_shape pc set_pc]; auto|frame I]).
    + (* Dec *) destruct (discard_overflow c && d); inversion LS; subst; cbn [log acquired].
      * destruct (Nat.eq_dec b a) as [->|Ne].
        -- held I. cbn [partial_shape pc set_pc]. intros HH. rewrite proj_cons; cbn [ev_item]. rewrite Nat.eqb_refl, HH. auto.
        -- frame I.
      * destruct (Nat.eq_dec b a) as [->|Ne]; [held I; cbn [partial_shape pc set_pc]; auto|frame I].
    + (* Shoot *) inversion LS; subst; cbn [log acquired].
      destruct (Nat.eq_dec b a) as [->|Ne].
      * held I. cbn [partial_shape pc set_pc]. intros HH. rewrite proj_cons; cbn [ev_item]. rewrite Nat.eqb_refl, HH. auto.
      * frame I.
    + (* Resp *) inversion LS; subst; cbn [log acquired].
      destruct (Nat.eq_dec b a) as [->|Ne]; [held I; cbn [partial_shape pc set_pc]; auto|frame I].
    + (* Rel *) inversion LS; subst; cbn [log acquired].
      destruct (Nat.eq_dec b a) as [->|Ne].
      * eapply item_inv_release; [.. | exact I]; reflexivity.
      * frame I.
    + discriminate.
  - unfold spawn in H. destruct (start_open s); [|discriminate]. inversion H; subst; clear H.
    intros b. specialize (I b). unfold inv_items; cbn [sh insts].
    assert (NH : forall a, no_holder (insts s) a -> no_holder (insts s ++ [new_inst c]) a).
    { intros a0 NH j y Hj. destruct (Nat.lt_ge_cases j (length (insts s))).
      - rewrite nth_error_app1 in Hj by assumption. eapply NH; eauto.
      - rewrite nth_error_app2 in Hj by assumption. destruct (j - length (insts s)) as [|k]; cbn in Hj.
        + inversion Hj; subst. cbn. discriminate.
        + destruct k; discriminate. }
    destruct I as [(E & L & N0)|[(i & y & Hi & Hy & PS & L & OH)|(CS & L & N0)]].
    + left. auto.
    + right; left. exists i, y. repeat split; auto.
      * rewrite nth_error_app1; [exact Hi|]. apply nth_error_Some. congruence.
      * intros j z Hj Hz. destruct (Nat.lt_ge_cases j (length (insts s))).
        -- rewrite nth_error_app1 in Hj by assumption. eapply OH; eauto.
        -- rewrite nth_error_app2 in Hj by assumption. destruct (j - length (insts s)) as [|k]; cbn in Hj.
           ++ inversion Hj; subst. cbn in Hz. discriminate.
           ++ destruct k; discriminate.
    + right; right. auto.
  - inversion H; subst. exact I.
Qed.

Lemma reach_inv_items c s : reach c s -> inv_items s.
Proof. induction 1; [apply inv_items_init|eapply inv_items_step; eauto]. Qed.

(* chronological statement *)
Definition item_history_ok (a : nat) (l : list event) : Prop :=
  exists i, l = [mkEv i EAcq a; mkEv i ERel a]
         \/ l = [mkEv i EAcq a; mkEv i EShoot a; mkEv i ERel a]
         \/ l = [mkEv i EAcq a; mkEv i EDisc a; mkEv i ERel a].

Lemma proj_rev a l : proj a (rev l) = rev (proj a l).
Proof.
  unfold proj. induction l as [|e r IH]; [reflexivity|].
  cbn [rev filter]. rewrite filter_app, IH. cbn [filter]. destruct (ev_item e =? a); cbn; [reflexivity|apply app_nil_r].
Qed.

Theorem acquire_release c s :
  reach c s -> terminal s ->
  acquired (sh s) = released (sh s)
  /\ (forall a, a < acquired (sh s) -> item_history_ok a (proj a (events s)))
  /\ (forall a, acquired (sh s) <= a -> proj a (events s) = []).
Proof.
  intros R T. split; [apply (acquired_released_count c s R T)|].
  pose proof (reach_inv_items c s R) as I. destruct T as [_ T].
  assert (NH : forall a i y, nth_error (insts s) i = Some y -> held_item (pc y) <> Some a).
  { intros a i y Hi. rewrite Forall_forall in T. rewrite (T y) by (eapply nth_error_In; eauto). cbn. discriminate. }
  unfold events. split; intros a Ha; rewrite proj_rev.
  - destruct (I a) as [(E & L & _)|[(i & y & Hi & Hy & _)|((i & CS) & _ & _)]].
    + lia.
    + exfalso. eapply NH; eauto.
    + exists i. destruct CS as [->|[->| ->]]; cbn; auto.
  - destruct (I a) as [(E & L & _)|[(i & y & Hi & Hy & _)|(_ & L & _)]].
    + rewrite E. reflexivity.
    + exfalso. eapply NH; eauto.
    + lia.
Qed.

(* the executable checker used on observed logs decides exactly this statement *)
Lemma item_complete_b_of_ok a l : item_history_ok a l -> item_complete_b l = true.
Proof.
  intros [i [->|[->| ->]]]; cbn; unfold is_ev; cbn; rewrite ?Nat.eqb_refl; reflexivity.
Qed.

Lemma is_ev_true e i k : is_ev e i k = true -> ev_inst e = i /\ ev_kind e = k.
Proof.
  unfold is_ev. rewrite andb_true_iff, Nat.eqb_eq. intros [-> Hk]. split; [reflexivity|].
  destruct (ev_kind e), k; cbn in Hk; congruence.
Qed.

Lemma proj_items a l e : In e (proj a l) -> ev_item e = a.
Proof. unfold proj. rewrite filter_In, Nat.eqb_eq. tauto. Qed.

Lemma ev_eta e : e = mkEv (ev_inst e) (ev_kind e) (ev_item e).
Proof. destruct e; reflexivity. Qed.

Lemma item_complete_b_ok a l : item_complete_b (proj a l) = true -> item_history_ok a (proj a l).
Proof.
  pose proof (proj_items a l) as HI. destruct (proj a l) as [|e1 [|e2 [|e3 [|e4 r]]]]; cbn; try discriminate.
  - rewrite andb_true_iff. intros [H1 H2]. apply is_ev_true in H1, H2. destruct H1 as [_ K1], H2 as [I2 K2].
    exists (ev_inst e1). left.
    rewrite (ev_eta e1) at 1. rewrite (ev_eta e2). rewrite K1, K2, I2, !HI by (cbn; auto). reflexivity.
  - rewrite !andb_true_iff, orb_true_iff. intros [[H1 H2] H3].
    apply is_ev_true in H1, H3. destruct H1 as [_ K1], H3 as [I3 K3].
    exists (ev_inst e1). right.
    destruct H2 as [H2|H2]; apply is_ev_true in H2; destruct H2 as [I2 K2]; [left|right];
      rewrite (ev_eta e1) at 1; rewrite (ev_eta e2), (ev_eta e3); rewrite K1, K2, K3, I2, I3, !HI by (cbn; auto); reflexivity.
Qed.

Theorem pairing_b_spec n l :
  pairing_b n l = true <->
  (forall a, a < n -> item_history_ok a (proj a l)) /\ (forall a, n <= a -> proj a l = []).
Proof.
  unfold pairing_b. rewrite andb_true_iff, !forallb_forall. split.
  - intros [H1 H2]. split.
    + intros a Ha. apply item_complete_b_ok. apply H1. apply in_seq. lia.
    + intros a Ha. destruct (proj a l) as [|e r] eqn:E; [reflexivity|exfalso].
      assert (In e (proj a l)) by (rewrite E; left; reflexivity).
      pose proof (proj_items a l e H) as Hi. unfold proj in H. apply filter_In in H. destruct H as [H _].
      specialize (H2 e H). apply Nat.ltb_lt in H2. lia.
  - intros [H1 H2]. split.
    + intros a Ha. apply in_seq in Ha. apply (item_complete_b_of_ok a). apply H1. lia.
    + intros e He. apply Nat.ltb_lt. destruct (Nat.lt_ge_cases (ev_item e) n) as [|Hge]; [assumption|exfalso].
      specialize (H2 _ Hge). assert (In e (proj (ev_item e) l)) by (unfold proj; apply filter_In; split; [exact He|apply Nat.eqb_refl]).
      rewrite H2 in H. destruct H.
Qed.

Corollary pairing_b_terminal c s :
  reach c s -> terminal s -> pairing_b (acquired (sh s)) (events s) = true.
Proof. intros R T. apply pairing_b_spec. apply (acquire_release c s R T). Qed.

(* a log accepted by the replay ends in a reachable state: the theorems apply to it *)
Lemma hop_reach c i d p q s s' : reach c s -> hop c i d p q s = Some s' -> reach c s'.
Proof.
  unfold hop. intros R H. destruct (pc_at s i); [|discriminate]. destruct (ipc_eqb _ _); [|discriminate].
  destruct (step_inst c i d s) as [s1|] eqn:E; [|discriminate].
  destruct (pc_at s1 i); [|discriminate]. destruct (ipc_eqb _ _); [|discriminate].
  inversion H; subst. apply (reach_step c s (AStep i d) s' R). exact E.
Qed.

Lemma replay_one_reach c e s s' : reach c s -> replay_one c e s = Some s' -> reach c s'.
Proof.
  intros R H. destruct e; cbn in H.
  - destruct (i =? length (insts s)); [|discriminate]. apply (reach_step c s ASpawn s' R). exact H.
  - eapply hop_reach; eauto.
  - destruct a; eapply hop_reach; eauto.
  - destruct (pc_at s i) as [[]|]; try discriminate. eapply hop_reach; eauto.
  - unfold bind in H. destruct (hop c i false (Dec a) (Shoot a) s) as [s1|] eqn:E; [|discriminate].
    eapply hop_reach; [eapply hop_reach; [exact R|exact E]|exact H].
  - destruct (pc_at s i) as [[]|]; try discriminate. eapply hop_reach; eauto.
  - assert (forall s0, reach c s0 -> hop c i false (Rel a) Check s0 = Some s' -> reach c s') by (intros; eapply hop_reach; eauto).
    destruct (pc_at s i) as [[]|]; eauto.
    unfold bind in H. destruct (hop c i false (Resp a) (Rel a) s) as [s1|] eqn:E; [|discriminate].
    eapply H0; [eapply hop_reach; [exact R|exact E]|exact H].
  - inversion H; subst. apply (reach_step c s AClose _ R). reflexivity.
Qed.

Lemma replay_reach c l : forall s k s' k', reach c s -> replay c l s k = (s', k', true) -> reach c s'.
Proof.
  induction l as [|e r IH]; cbn [replay]; intros s k s' k' R H.
  - inversion H; subst; exact R.
  - destruct (replay_one c e s) as [s1|] eqn:E; [|discriminate].
    eapply IH; [eapply replay_one_reach; eauto|exact H].
Qed.
