(* Lemmas about the integer-literal reader behind confutil.castInt (Model/ConfigIntLiteral.v) and about a whole-value
   placeholder at an integer option (property C17, round 8). *)
From Coq Require Import List NArith ZArith Bool QArith Lia.
From PV Require Import Model.ConfigDecode Model.ConfigIntLiteral Proofs.ConfigDecodeProofs.
Import ListNotations.
Local Open Scope N_scope.

(* ---- the magnitude is never negative *)
Lemma lit_digits_nonneg : forall base s acc us m us',
  (0 <= acc)%Z -> lit_digits base s acc us = Some (m, us') -> (0 <= m)%Z.
Proof.
  induction s as [|c r IH]; intros acc us m us' Ha H; cbn [lit_digits] in H.
  - inversion H; subst; exact Ha.
  - destruct (c =? c_us).
    + eapply IH; eauto.
    + destruct (digit_val c) as [d|]; [|discriminate].
      destruct (d <? base); [|discriminate].
      eapply IH; [|exact H]. lia.
Qed.

Lemma parse_mag_nonneg : forall s m, parse_mag s = Some m -> (0 <= m)%Z.
Proof.
  intros s m H. unfold parse_mag in H.
  destruct (lit_base s) as [[base body]|]; [|discriminate].
  destruct (lit_digits base body 0%Z false) as [[m' us]|] eqn:E; [|discriminate].
  assert (0 <= m')%Z by (eapply lit_digits_nonneg; [|exact E]; lia).
  destruct (us && negb (underscore_ok s)); [discriminate|]. inversion H; subst; assumption.
Qed.

Lemma pow2_pos : forall b, (0 < pow2 b)%Z.
Proof. intro b. unfold pow2. apply Z.pow_pos_nonneg; lia. Qed.

(* ---- a value that is taken lies in the range of the width *)
Theorem parse_int_range : forall b s z,
  parse_int b s = Some z -> (- pow2 (b - 1) <= z < pow2 (b - 1))%Z.
Proof.
  intros b s z H. unfold parse_int in H. destruct s as [|c r]; [discriminate|]. cbv zeta in H.
  pose proof (pow2_pos (b - 1)) as Hp.
  match type of H with match ?x with _ => _ end = _ => destruct x as [m|] eqn:E; [|discriminate] end.
  apply parse_mag_nonneg in E.
  destruct (c =? c_minus).
  - destruct (Z.leb m (pow2 (b - 1))) eqn:L; [|discriminate]. apply Z.leb_le in L. inversion H; subst. lia.
  - destruct (Z.ltb m (pow2 (b - 1))) eqn:L; [|discriminate]. apply Z.ltb_lt in L. inversion H; subst. lia.
Qed.

Theorem parse_uint_range : forall b s z, parse_uint b s = Some z -> (0 <= z < pow2 b)%Z.
Proof.
  intros b s z H. unfold parse_uint in H. destruct (parse_mag s) as [m|] eqn:E; [|discriminate].
  apply parse_mag_nonneg in E. destruct (Z.ltb m (pow2 b)) eqn:L; [|discriminate].
  apply Z.ltb_lt in L. inversion H; subst. lia.
Qed.

(* ---- what a literal is made of *)
Lemma digit_val_lit_char : forall c d, digit_val c = Some d -> lit_char c = true.
Proof.
  intros c d H. unfold digit_val in H. unfold lit_char.
  destruct ((48 <=? c) && (c <=? 57)) eqn:E1.
  - rewrite !orb_true_r. now rewrite ?orb_true_l.
  - destruct ((97 <=? lower_b c) && (lower_b c <=? 122)) eqn:E2; [|discriminate].
    now rewrite !orb_true_r.
Qed.

Lemma lit_digits_chars : forall base s acc us r,
  lit_digits base s acc us = Some r -> forallb lit_char s = true.
Proof.
  induction s as [|c s IH]; intros acc us r H; [reflexivity|]. cbn [lit_digits] in H. cbn [forallb].
  destruct (c =? c_us) eqn:E.
  - apply andb_true_iff; split; [|eapply IH; exact H].
    unfold lit_char. rewrite E. now rewrite ?orb_true_r, ?orb_true_l.
  - destruct (digit_val c) as [d|] eqn:D; [|discriminate].
    destruct (d <? base); [|discriminate].
    apply andb_true_iff; split; [eapply digit_val_lit_char; exact D|eapply IH; exact H].
Qed.

Lemma zero_lit_char : forall z, (z =? c_zero) = true -> lit_char z = true.
Proof. intros z H. apply N.eqb_eq in H. subst. reflexivity. Qed.

Lemma prefix_letter_lit_char : forall p,
  (lower_b p =? 98) || (lower_b p =? 111) || (lower_b p =? 120) = true -> lit_char p = true.
Proof.
  intros p H. unfold lit_char.
  assert ((97 <=? lower_b p) && (lower_b p <=? 122) = true) as ->; [|now rewrite !orb_true_r].
  apply orb_true_iff in H. destruct H as [H|H]; [apply orb_true_iff in H; destruct H as [H|H]|];
    apply N.eqb_eq in H; rewrite H; reflexivity.
Qed.

Lemma parse_mag_chars : forall s m, parse_mag s = Some m -> forallb lit_char s = true.
Proof.
  intros s m H. unfold parse_mag in H.
  destruct (lit_base s) as [[base body]|] eqn:B; [|discriminate].
  destruct (lit_digits base body 0%Z false) as [r|] eqn:E; [|discriminate].
  apply lit_digits_chars in E. clear H.
  unfold lit_base in B. destruct s as [|z r0]; [discriminate|].
  destruct (z =? c_zero) eqn:Z0.
  - pose proof (zero_lit_char z Z0) as Hz.
    destruct r0 as [|p r1].
    + cbn [forallb]. now rewrite Hz.
    + destruct r1 as [|q r2].
      * inversion B; subst. cbn [forallb] in *. now rewrite Hz, E.
      * destruct (lower_b p =? 98) eqn:P1;
          [|destruct (lower_b p =? 111) eqn:P2; [|destruct (lower_b p =? 120) eqn:P3]];
          inversion B; subst; cbn [forallb] in *; rewrite Hz; cbn [andb];
          try (rewrite (prefix_letter_lit_char p) by (rewrite ?P1, ?P2, ?P3, ?orb_true_r; reflexivity); exact E);
          exact E.
  - inversion B; subst. exact E.
Qed.

Lemma sign_lit_char : forall c, (c =? c_plus) || (c =? c_minus) = true -> lit_char c = true.
Proof.
  intros c H. unfold lit_char. apply orb_true_iff in H. destruct H as [H|H]; rewrite H; now rewrite ?orb_true_r, ?orb_true_l.
Qed.

(* a text the reader takes is made of signs, digits, letters and underscores only *)
Theorem parse_int_chars : forall b s z, parse_int b s = Some z -> forallb lit_char s = true.
Proof.
  intros b s z H. unfold parse_int in H. destruct s as [|c r]; [discriminate|]. cbv zeta in H.
  match type of H with match ?x with _ => _ end = _ => destruct x as [m|] eqn:E; [|discriminate] end.
  apply parse_mag_chars in E. destruct ((c =? c_plus) || (c =? c_minus)) eqn:S; [|exact E].
  cbn [forallb]. now rewrite (sign_lit_char c S), E.
Qed.

Theorem parse_uint_chars : forall b s z, parse_uint b s = Some z -> forallb lit_char s = true.
Proof.
  intros b s z H. unfold parse_uint in H. destruct (parse_mag s) as [m|] eqn:E; [|discriminate].
  eapply parse_mag_chars; exact E.
Qed.

(* ... hence a text with any other byte in it -- a decimal point, a blank, a comma -- is refused at every width *)
Theorem parse_int_refuses_foreign_byte : forall b s c,
  In c s -> lit_char c = false -> parse_int b s = None /\ parse_uint b s = None.
Proof.
  intros b s c Hin Hc. split.
  - destruct (parse_int b s) as [z|] eqn:E; [|reflexivity].
    apply parse_int_chars in E. rewrite forallb_forall in E. rewrite (E c Hin) in Hc. discriminate.
  - destruct (parse_uint b s) as [z|] eqn:E; [|reflexivity].
    apply parse_uint_chars in E. rewrite forallb_forall in E. rewrite (E c Hin) in Hc. discriminate.
Qed.

(* a text that does not start with 0 (after the sign) is read in base ten: every byte is a decimal digit or '_' --
   no exponent letter, no hexadecimal digit *)
Lemma lit_digits_dec : forall s acc us r, lit_digits 10 s acc us = Some r -> forallb dec_char s = true.
Proof.
  induction s as [|c s IH]; intros acc us r H; [reflexivity|]. cbn [lit_digits] in H. cbn [forallb].
  unfold dec_char at 1. destruct (c =? c_us) eqn:E.
  - cbn [orb andb]. eapply IH; exact H.
  - destruct (digit_val c) as [d|] eqn:D; [|discriminate].
    destruct (d <? 10) eqn:L; [|discriminate].
    unfold digit_val in D. destruct ((48 <=? c) && (c <=? 57)) eqn:R.
    + cbn [orb andb]. eapply IH; exact H.
    + destruct ((97 <=? lower_b c) && (lower_b c <=? 122)) eqn:R2; [|discriminate].
      inversion D; subst. apply andb_true_iff in R2. destruct R2 as [R2 _].
      apply N.leb_le in R2. apply N.ltb_lt in L. lia.
Qed.

Theorem parse_mag_decimal : forall c r m,
  (c =? c_zero) = false -> parse_mag (c :: r) = Some m -> forallb dec_char (c :: r) = true.
Proof.
  intros c r m Hz H. unfold parse_mag, lit_base in H. rewrite Hz in H.
  destruct (lit_digits 10 (c :: r) 0%Z false) as [x|] eqn:E; [|discriminate].
  eapply lit_digits_dec; exact E.
Qed.

(* ---- a whole-value placeholder at a signed integer option, the ParseInt answers being those of the modelled reader *)
Section Placeholder.
Variable env : str -> option str.
Variable prop : str -> str -> option str.
Variable orc0 : okind -> str -> option Z.
Variable orcq : str -> option Q.
Variable reg : list entry.
Variable lz : bool.
Variable uq : bool.

Notation orc := (orc_with_int orc0).
Notation D := (decode env prop orc orcq reg lz).

Lemma int_placeholder_refused_here : forall name t b,
  simple_name name = true -> env name = Some t -> has_dollar_brace t = false ->
  parse_int b t = None ->
  forall F c, notok (D F (SScalar (KInt b)) c (VStr (ph_env name))).
Proof.
  intros name t b Hs He Hd Hp [|F] c; [exact I|].
  rewrite (placeholder_scalar env prop orc orcq reg lz name t (KInt b) F c Hs He Hd).
  unfold cast_text. cbn [cast_kind orc_with_int]. rewrite Hp.
  apply wrong_type_str_notok. unfold wrong_type_str_b. rewrite Hd. reflexivity.
Qed.

Theorem int_placeholder_refused : forall p s cur v tags d name t b,
  reach reg lz uq p [] s cur v = Some (SScalar (KInt b), tags, d, VStr (ph_env name)) ->
  simple_name name = true -> env name = Some t -> has_dollar_brace t = false ->
  parse_int b t = None ->
  forall F c, notok (D F s c v).
Proof.
  intros p s cur v tags d name t b Hr Hs He Hd Hp.
  eapply (propagate env prop orc orcq reg lz uq); [exact Hr|].
  eapply int_placeholder_refused_here; eauto.
Qed.

Theorem int_placeholder_taken : forall name t b z F c,
  simple_name name = true -> env name = Some t -> has_dollar_brace t = false ->
  parse_int b t = Some z ->
  D (S F) (SScalar (KInt b)) c (VStr (ph_env name)) = D (S F) (SScalar (KInt b)) c (VInt z).
Proof.
  intros name t b z F c Hs He Hd Hp.
  rewrite (placeholder_scalar env prop orc orcq reg lz name t (KInt b) F c Hs He Hd).
  unfold cast_text. cbn [cast_kind orc_with_int]. rewrite Hp. reflexivity.
Qed.

Lemma uint_placeholder_refused_here : forall name t b,
  simple_name name = true -> env name = Some t -> has_dollar_brace t = false ->
  parse_uint b t = None ->
  forall F c, notok (D F (SScalar (KUint b)) c (VStr (ph_env name))).
Proof.
  intros name t b Hs He Hd Hp [|F] c; [exact I|].
  rewrite (placeholder_scalar env prop orc orcq reg lz name t (KUint b) F c Hs He Hd).
  unfold cast_text. cbn [cast_kind orc_with_int]. rewrite Hp.
  apply wrong_type_str_notok. unfold wrong_type_str_b. rewrite Hd. reflexivity.
Qed.

Theorem uint_placeholder_refused : forall p s cur v tags d name t b,
  reach reg lz uq p [] s cur v = Some (SScalar (KUint b), tags, d, VStr (ph_env name)) ->
  simple_name name = true -> env name = Some t -> has_dollar_brace t = false ->
  parse_uint b t = None ->
  forall F c, notok (D F s c v).
Proof.
  intros p s cur v tags d name t b Hr Hs He Hd Hp.
  eapply (propagate env prop orc orcq reg lz uq); [exact Hr|].
  eapply uint_placeholder_refused_here; eauto.
Qed.

Theorem uint_placeholder_taken : forall name t b z F c,
  simple_name name = true -> env name = Some t -> has_dollar_brace t = false ->
  parse_uint b t = Some z ->
  D (S F) (SScalar (KUint b)) c (VStr (ph_env name)) = D (S F) (SScalar (KUint b)) c (VInt z).
Proof.
  intros name t b z F c Hs He Hd Hp.
  rewrite (placeholder_scalar env prop orc orcq reg lz name t (KUint b) F c Hs He Hd).
  unfold cast_text. cbn [cast_kind orc_with_int]. rewrite Hp. reflexivity.
Qed.

End Placeholder.
