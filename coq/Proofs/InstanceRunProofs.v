(* Proofs of the bridge of instance.Run (property C03): definitions of the oracle, of the model walk over the
   sections of Model/Instance.v, and the lemmas relating the translated code (Gen/GoFnInstanceGen.v, regenerated
   from /repo on every run) to that walk.  Statements for the reader: Gen/GoFnInstance_bridge.v.
   This file depends on the generated syntax, so `make` re-checks it whenever core/engine/instance.go changes. *)
From Coq Require Import ZArith NArith List String Bool Lia.
From PV Require Model.Instance.
From PV Require Import Lib.Imp Lib.ImpStep Gen.GoFnInstanceGen.
Import ListNotations.
Local Open Scope string_scope.
Local Open Scope list_scope.
Local Open Scope Z_scope.

Module I := PV.Model.Instance.

Lemma find_Run : find_func "instance.Run" gen_prog_instance = Some gen_instance_Run.
Proof. reflexivity. Qed.

Lemma bridge_instance_shape :
  gen_instance_Run_returns = ["result0"; "$n"; "$trace"] /\
  f_params gen_instance_Run = ["i.discardOverflow"] /\
  gen_err_outOfAmmoErr <> 0.
Proof. split; [reflexivity|split; [reflexivity|discriminate]]. Qed.

Definition trace := list (string * list Z).

Section Bridge.
  (* the oracle: call number n is answered [o n] (a Go bool / error / opaque sample as an integer);
     Acquire additionally hands out item [it n] *)
  Variable o : Z -> Z.
  Variable it : Z -> nat.
  Variable dov : bool.      (* instance.discardOverflow *)

  Definition last_int (vs : list val) : option Z :=
    match rev vs with VInt n :: _ => Some n | _ => None end.

  (* number of results of each collaborator call *)
  Definition results (f : string) : option nat :=
    if String.eqb f "waiter.IsFinished" then Some 1%nat
    else if String.eqb f "waiter.Wait" then Some 1%nat
    else if String.eqb f "waiter.IsSlowDown" then Some 1%nat
    else if String.eqb f "ctx.Err" then Some 1%nat
    else if String.eqb f "netsample.DiscardedShootSample" then Some 1%nat
    else if String.eqb f "i.provider.Acquire" then Some 2%nat
    else if String.eqb f "i.provider.Release" then Some 0%nat
    else if String.eqb f "i.gun.Shoot" then Some 0%nat
    else if String.eqb f "i.aggregator.Report" then Some 0%nat
    else if String.eqb f "i.metrics.Request.Add" then Some 0%nat
    else if String.eqb f "i.metrics.Response.Add" then Some 0%nat
    else if String.eqb f "i.metrics.InstanceStart.Add" then Some 0%nat
    else if String.eqb f "i.metrics.InstanceFinish.Add" then Some 0%nat
    else if String.eqb f "coreutil.NewWaiter" then Some 0%nat
    else None.

  Definition iext (f : string) (args : list val) : option (list val) :=
    match last_int args, results f with
    | Some n, Some 0%nat => Some []
    | Some n, Some 1%nat => Some [VInt (o n)]
    | Some n, Some 2%nat => Some [VInt (Z.of_nat (it n)); VInt (o n)]
    | _, _ => None
    end.

  (* ---------------------------------------------------------------------------------- *)
  (* the model side *)
  Definition zb (z : Z) : bool := negb (z =? 0).

  Definition mcfg : I.cfg := I.mkCfg false dov 0 0.
  (* a shared state in which the schedule has a token iff [b], the provider an item iff [b], and the next item
     is number [item] *)
  Definition synth (b : bool) (item : nat) : I.shared :=
    I.mkSh (if b then 1 else 0) (if b then 1 else 0) item 0 0 0 0 0 0 [].
  (* successor section according to the MODEL, for the collaborator's answer [b] *)
  Definition mnext (p : I.ipc) (b : bool) (item : nat) : option I.ipc :=
    match I.local_step mcfg 0 b (synth b item) (I.mkInst p 0) with
    | Some (_, x) => Some (I.pc x)
    | None => None
    end.

  (* the calls one section makes when it starts with call number n: (calls, answer bit, item) *)
  Definition sec (p : I.ipc) (n : Z) : trace * bool * nat :=
    match p with
    | I.Check => ([("waiter.IsFinished", [])], negb (zb (o n)), 0%nat)
    | I.Acq => ([("i.provider.Acquire", [])], zb (o n), it n)
    | I.Wait a => ([("waiter.Wait", [])], zb (o n), a)
    | I.Dec a =>
        if dov then
          if zb (o n)
          then ([("waiter.IsSlowDown", []); ("netsample.DiscardedShootSample", []);
                 ("i.aggregator.Report", [o (n + 1)])], true, a)
          else ([("waiter.IsSlowDown", []); ("i.metrics.Request.Add", [1])], false, a)
        else ([("i.metrics.Request.Add", [1])], false, a)
    | I.Shoot a => ([("i.gun.Shoot", [Z.of_nat a])], true, a)
    | I.Resp a => ([("i.metrics.Response.Add", [1])], true, a)
    | I.Rel a => ([("i.provider.Release", [Z.of_nat a])], true, a)
    | I.Done => ([], true, 0%nat)
    end.

  Fixpoint nadd (n : Z) (k : nat) : Z := match k with O => n | S k' => nadd (n + 1) k' end.

  Inductive iter_end :=
  | IterAgain (n : Z) (tr : trace)            (* back at Check *)
  | IterDone (from : I.ipc) (n : Z) (tr : trace)   (* the loop is left, from section [from] *)
  | IterBad.

  (* the sections of one loop iteration: from [p] until the pc is Check or Done again *)
  Fixpoint miter (k : nat) (p : I.ipc) (n : Z) (acc : trace) : iter_end :=
    match k with
    | O => IterBad
    | S k' =>
        let '(calls, b, item) := sec p n in
        let n' := nadd n (List.length calls) in
        match mnext p b item with
        | Some I.Check => IterAgain n' (acc ++ calls)
        | Some I.Done => IterDone p n' (acc ++ calls)
        | Some q => miter k' q n' (acc ++ calls)
        | None => IterBad
        end
    end.

  Definition result := (Z * Z * trace)%type.   (* returned error, number of calls, calls *)

  (* what follows the loop: `return ctx.Err()` after Check, `return outOfAmmoErr` out of Acq; then the deferred
     InstanceFinish.Add(1) *)
  Definition finish (from : I.ipc) (n : Z) (tr : trace) : option result :=
    match from with
    | I.Check => Some (o n, n + 1 + 1, tr ++ [("ctx.Err", []); ("i.metrics.InstanceFinish.Add", [1])])
    | I.Acq => Some (gen_err_outOfAmmoErr, n + 1, tr ++ [("i.metrics.InstanceFinish.Add", [1])])
    | _ => None
    end.

  (* iterations until the loop is left; IterBad = out of fuel *)
  Fixpoint mloop (fuel : nat) (n : Z) (tr : trace) : iter_end :=
    match fuel with
    | O => IterBad
    | S f =>
        match miter 8 I.Check n tr with
        | IterAgain n' tr' => mloop f n' tr'
        | e => e
        end
    end.

  Definition mrun (fuel : nat) (n : Z) (tr : trace) : option result :=
    match mloop fuel n tr with
    | IterDone from n' tr' => finish from n' tr'
    | _ => None
    end.

  Definition start_trace : trace := [("i.metrics.InstanceStart.Add", [1]); ("coreutil.NewWaiter", [])].

  Definition enc (r : option result) : outcome :=
    match r with
    | Some (e, n, tr) => Ret [VInt e; VInt n; VRecs tr]
    | None => OutOfFuel
    end.

  Definition code_run (fuel : nat) : outcome :=
    run gen_prog_instance iext fuel "instance.Run" [VInt (b2z dov)].
End Bridge.

(* ------------------------------------------------------------------------------------ *)
(* the loop of instance.Run, found in the generated syntax (not restated here) *)
Fixpoint first_for (s : stmt) : option stmt :=
  match s with
  | SSeq a b => match first_for a with Some l => Some l | None => first_for b end
  | SFor _ _ _ => Some s
  | _ => None
  end.
Definition the_loop : stmt :=
  match first_for (f_body gen_instance_Run) with Some l => l | None => SSkip end.

(* the environment of instance.Run: every variable exists from the start (translator: traced targets) *)
Definition cenv (dv re n : Z) (tr : trace) (r t1 err ammo ok t2 c1 t3 t4 t5 : Z) : env :=
  [("i.discardOverflow", VInt dv); ("recoverErr", VInt re); ("$n", VInt n);
   ("$trace", VRecs tr); ("r", VInt r); ("$t1", VInt t1); ("err", VInt err); ("ammo", VInt ammo);
   ("ok", VInt ok); ("$t2", VInt t2); ("$c1", VInt c1); ("$t3", VInt t3); ("$t4", VInt t4); ("$t5", VInt t5)].

Ltac imp_cbnx :=
  cbn [exec eval evals lookup upd upds bind find_func assign bin_val bin_int ints
       String.eqb Ascii.eqb Bool.eqb f_params f_body fst snd sig_outcome
       List.length Z.of_nat Pos.of_succ_nat Pos.succ iext last_int results rev app].
Ltac imp_path := imp_cbnx; imp_rw; repeat (imp_case; imp_cbnx; imp_rw).

Lemma miter_S o it dov k p n acc :
  miter o it dov (S k) p n acc =
    let '(calls, b, item) := sec o it dov p n in
    let n' := nadd n (List.length calls) in
    match mnext dov p b item with
    | Some I.Check => IterAgain n' (acc ++ calls)
    | Some I.Done => IterDone p n' (acc ++ calls)
    | Some q => miter o it dov k q n' (acc ++ calls)
    | None => IterBad
    end.
Proof. reflexivity. Qed.

Ltac bool_hyps :=
  repeat match goal with
         | H : ?x = true |- context [?x] => rewrite H
         | H : ?x = false |- context [?x] => rewrite H
         end.
(* one section of the model walk, the answers being known from the hypotheses *)
Ltac mstep :=
  rewrite miter_S; cbv [sec zb]; bool_hyps; cbv [negb];
  cbv [mnext synth mcfg I.local_step I.pc I.set_pc I.left_of I.per_inst I.discard_overflow I.stoks I.ammo I.own
       I.acquired Nat.eqb andb List.length nadd];
  cbv beta iota zeta.
Ltac sx_ext ::= cbn [iext last_int results rev app String.eqb Ascii.eqb Bool.eqb].
(* the model walk of k sections, computed in a small goal, then used once *)
Tactic Notation "model" integer(k) :=
  match goal with
  | |- context [miter ?o ?it ?dov ?m ?p ?n ?tr] =>
      let Hm := fresh "Hm" in
      eassert (Hm : miter o it dov m p n tr = _); [do k mstep; reflexivity|];
      rewrite Hm; clear Hm; cbv beta iota
  end.
Ltac norm_trace := repeat rewrite <- app_assoc; cbn [app].

Section Proofs.
  Variable o : Z -> Z.
  Variable it : Z -> nat.

  Notation X := (iext o it).

  (* one iteration of the loop of instance.Run = the model's sections from Check back to Check, or out of the loop *)
  Lemma bridge_instance_iter dov f re n tr r t1 err ammo ok t2 c1 t3 t4 t5 :
    match miter o it dov 8 I.Check n tr with
    | IterAgain n' tr' =>
        exists re' r' t1' err' ammo' ok' t2' c1' t3' t4' t5',
          exec gen_prog_instance X (S f) the_loop (cenv (b2z dov) re n tr r t1 err ammo ok t2 c1 t3 t4 t5)
          = exec gen_prog_instance X f the_loop (cenv (b2z dov) re' n' tr' r' t1' err' ammo' ok' t2' c1' t3' t4' t5')
    | IterDone I.Check n' tr' =>
        exists t1',
          exec gen_prog_instance X (S f) the_loop (cenv (b2z dov) re n tr r t1 err ammo ok t2 c1 t3 t4 t5)
          = SNormal (cenv (b2z dov) re n' tr' r t1' err ammo ok t2 c1 t3 t4 t5)
    | IterDone I.Acq n' tr' =>
        exec gen_prog_instance X (S f) the_loop (cenv (b2z dov) re n tr r t1 err ammo ok t2 c1 t3 t4 t5)
        = SRet [VInt gen_err_outOfAmmoErr; VInt (n' + 1); VRecs (tr' ++ [("i.metrics.InstanceFinish.Add", [1])])]
    | _ => False
    end.
  Proof.
    destruct (o n =? 0) eqn:E0.
    2:{ (* IsFinished: the loop is left *)
      model 1. exists (o n).
      unfold the_loop; cbn [first_for f_body gen_instance_Run]; unfold cenv.
      sx. }
    destruct (o (n + 1) =? 0) eqn:E1.
    { (* out of ammo *)
      model 2.
      unfold the_loop; cbn [first_for f_body gen_instance_Run]; unfold cenv.
      sx. all: try solve [norm_trace; reflexivity]. }
    destruct (o (n + 1 + 1) =? 0) eqn:E2.
    { (* Wait finds no token: the item is released unfired *)
      model 4. repeat eexists.
      unfold the_loop; cbn [first_for f_body gen_instance_Run]; unfold cenv.
      sx. all: try solve [norm_trace; reflexivity]. }
    destruct dov.
    2:{ (* discard_overflow off: shoot *)
      model 7. repeat eexists.
      unfold the_loop; cbn [first_for f_body gen_instance_Run]; unfold cenv.
      sx. all: try solve [norm_trace; reflexivity]. }
    destruct (o (n + 1 + 1 + 1) =? 0) eqn:E3.
    { (* not slowed down: shoot *)
      model 7. repeat eexists.
      unfold the_loop; cbn [first_for f_body gen_instance_Run]; unfold cenv.
      sx. all: try solve [norm_trace; reflexivity]. }
    (* slowed down: the token is discarded *)
    model 5. repeat eexists.
    unfold the_loop; cbn [first_for f_body gen_instance_Run]; unfold cenv.
    sx. all: try solve [norm_trace; reflexivity].
  Qed.

  Lemma loop_cond_true en : eval en (ELit 1) = Ok (VInt 1).
  Proof. reflexivity. Qed.

  (* the whole loop: iterations until it is left (or the fuel is used up) *)
  Lemma bridge_instance_loop dov : forall fuel re n tr r t1 err ammo ok t2 c1 t3 t4 t5,
    match mloop o it dov fuel n tr with
    | IterDone I.Check n' tr' =>
        exists re' r' t1' err' ammo' ok' t2' c1' t3' t4' t5',
          exec gen_prog_instance X fuel the_loop (cenv (b2z dov) re n tr r t1 err ammo ok t2 c1 t3 t4 t5)
          = SNormal (cenv (b2z dov) re' n' tr' r' t1' err' ammo' ok' t2' c1' t3' t4' t5')
    | IterDone I.Acq n' tr' =>
        exec gen_prog_instance X fuel the_loop (cenv (b2z dov) re n tr r t1 err ammo ok t2 c1 t3 t4 t5)
        = SRet [VInt gen_err_outOfAmmoErr; VInt (n' + 1); VRecs (tr' ++ [("i.metrics.InstanceFinish.Add", [1])])]
    | IterBad =>
        exec gen_prog_instance X fuel the_loop (cenv (b2z dov) re n tr r t1 err ammo ok t2 c1 t3 t4 t5)
        = SFail FFuel
    | _ => False
    end.
  Proof.
    induction fuel as [|f IH]; intros re n tr r t1 err ammo ok t2 c1 t3 t4 t5.
    - cbn [mloop]. unfold the_loop; cbn [first_for f_body gen_instance_Run].
      eapply step_for_fuel; reflexivity.
    - cbn [mloop].
      pose proof (bridge_instance_iter dov f re n tr r t1 err ammo ok t2 c1 t3 t4 t5) as Hi.
      destruct (miter o it dov 8 I.Check n tr) as [n' tr'|from n' tr'|].
      + destruct Hi as (re' & r' & t1' & err' & ammo' & ok' & t2' & c1' & t3' & t4' & t5' & Hi).
        rewrite Hi. apply IH.
      + destruct from; try contradiction.
        * destruct Hi as (t1' & Hi). rewrite Hi. repeat eexists.
        * exact Hi.
      + contradiction.
  Qed.

  Ltac prologue :=
    repeat lazymatch goal with
           | |- exec _ _ _ (SSeq (SFor _ _ _) _) _ = _ => fail
           | |- exec _ _ _ (SSeq _ _) _ = _ => eapply step_seq; [sx_atom | cbv beta iota]
           end.

  Ltac run_is tac :=
    match goal with
    | |- sig_outcome (exec ?p ?x ?fu ?s ?en) = _ =>
        let He := fresh "He" in
        eassert (He : exec p x fu s en = _); [tac|rewrite He; clear He]
    end.

  (* instance.Run, for every oracle and every fuel: the calls, their number and the result are those of the
     model walk; it runs out of fuel exactly when the walk does *)
  Theorem bridge_instance_Run dov fuel :
    code_run o it dov fuel = enc (mrun o it dov fuel 2 start_trace).
  Proof.
    unfold code_run, run. rewrite find_Run. unfold gen_instance_Run; cbn [f_params f_body bind].
    unfold mrun.
    pose proof (bridge_instance_loop dov fuel 0 2 start_trace 0 0 0 0 0 0 0 0 0 0) as HL.
    unfold the_loop, cenv in HL; cbn [first_for f_body gen_instance_Run] in HL.
    destruct (mloop o it dov fuel 2 start_trace) as [n' tr'|from n' tr'|]; [contradiction| |].
    - destruct from; try contradiction.
      + destruct HL as (re' & r' & t1' & err' & ammo' & ok' & t2' & c1' & t3' & t4' & t5' & HL).
        unfold cenv in HL.
        run_is ltac:(prologue; eapply step_seq; [exact HL|cbv beta iota; sx]).
        cbn [sig_outcome finish enc]. norm_trace. reflexivity.
      + run_is ltac:(prologue; eapply step_seq; [exact HL|cbv beta iota; reflexivity]).
        cbn [sig_outcome finish enc]. reflexivity.
    - run_is ltac:(prologue; eapply step_seq; [exact HL|cbv beta iota; reflexivity]).
      reflexivity.
  Qed.

  (* consequences in the two directions *)
  Corollary bridge_instance_Run_sound dov fuel e n tr :
    mrun o it dov fuel 2 start_trace = Some (e, n, tr) ->
    code_run o it dov fuel = Ret [VInt e; VInt n; VRecs tr].
  Proof. intros H. rewrite bridge_instance_Run, H. reflexivity. Qed.

  Corollary bridge_instance_Run_conv dov fuel vs :
    code_run o it dov fuel = Ret vs ->
    exists e n tr, mrun o it dov fuel 2 start_trace = Some (e, n, tr) /\ vs = [VInt e; VInt n; VRecs tr].
  Proof.
    rewrite bridge_instance_Run. destruct (mrun o it dov fuel 2 start_trace) as [[[e n] tr]|]; [|discriminate].
    intros H. inversion H. exists e, n, tr. split; reflexivity.
  Qed.

  Corollary bridge_instance_Run_never_panics dov fuel :
    code_run o it dov fuel <> Panic /\ code_run o it dov fuel <> Stuck.
  Proof.
    rewrite bridge_instance_Run. destruct (mrun o it dov fuel 2 start_trace) as [[[e n] tr]|]; split; discriminate.
  Qed.

End Proofs.

